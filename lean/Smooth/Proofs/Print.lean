/-
Proofs/Print — the printed form (`render`) is read back by `parseExpr` as the same tree with fresh
flags, for every expression, every continuation of the token stream and every sufficiently large
fuel; `render` is injective up to flags (even prefix-free).  Mathlib-free, generic in the numbers.
-/
import Smooth.Model.Surface

namespace Smooth
variable {α : Type}
open Expr

/-! ### shape and size of the printed form -/

/-- every printed form starts with a class name and an opening parenthesis -/
theorem render_head (e : Expr α) : ∃ s t, render e = Tok.ident s :: Tok.lp :: t := by
  cases e <;> simp [render]

theorem render_ne_rp (e : Expr α) (more rest : List (Tok α)) : render e ++ more ≠ Tok.rp :: rest := by
  obtain ⟨s, t, h⟩ := render_head e
  simp [h]

theorem size_pos (e : Expr α) : 1 ≤ size e := by
  cases e <;> simp [size] <;> omega

theorem size_le_sizeList {e : Expr α} : ∀ {es : List (Expr α)}, e ∈ es → size e ≤ sizeList es
  | [], h => by simp at h
  | a :: as, h => by
    rcases List.mem_cons.mp h with rfl | h
    · simp [sizeList]
    · have := size_le_sizeList h
      simp [sizeList]; omega

theorem length_le_sizeList : ∀ es : List (Expr α), es.length ≤ sizeList es
  | [] => by simp [sizeList]
  | a :: as => by
    have := length_le_sizeList as
    have := size_pos a
    simp [sizeList]; omega

theorem sizeList_le_length_joinComma :
    ∀ tss : List (List (Tok α)), (tss.map List.length).sum ≤ (joinComma tss).length
  | [] => by simp [joinComma]
  | [x] => by simp [joinComma]
  | x :: y :: r => by
    have := sizeList_le_length_joinComma (y :: r)
    simp [joinComma] at this ⊢; omega

mutual
/-- a printed form has at least as many tokens as the expression has nodes -/
theorem size_le_length_render : ∀ e : Expr α, size e ≤ (render e).length
  | .const _ _ => by simp [size, render]
  | .var _ _ => by simp [size, render]
  | .add _ as => by
    have h1 := sizeList_le_sum_render as
    have h2 := sizeList_le_length_joinComma (renderList as)
    simp [size, render]; omega
  | .mul _ as => by
    have h1 := sizeList_le_sum_render as
    have h2 := sizeList_le_length_joinComma (renderList as)
    simp [size, render]; omega
  | .minus _ a b => by
    have := size_le_length_render a; have := size_le_length_render b
    simp [size, render]; omega
  | .div _ a b => by
    have := size_le_length_render a; have := size_le_length_render b
    simp [size, render]; omega
  | .pow _ a b => by
    have := size_le_length_render a; have := size_le_length_render b
    simp [size, render]; omega
  | .neg _ a => by have := size_le_length_render a; simp [size, render]; omega
  | .recip _ a => by have := size_le_length_render a; simp [size, render]; omega
  | .cos _ a => by have := size_le_length_render a; simp [size, render]; omega
  | .sin _ a => by have := size_le_length_render a; simp [size, render]; omega
  | .npow _ a _ => by have := size_le_length_render a; simp [size, render]; omega
  | .nroot _ a _ => by have := size_le_length_render a; simp [size, render]; omega
  | .exp _ a _ => by have := size_le_length_render a; simp [size, render]; omega
  | .log _ a _ => by have := size_le_length_render a; simp [size, render]; omega
theorem sizeList_le_sum_render :
    ∀ es : List (Expr α), sizeList es ≤ ((renderList es).map List.length).sum
  | [] => by simp [sizeList, renderList]
  | e :: es => by
    have := size_le_length_render e; have := sizeList_le_sum_render es
    simp [sizeList, renderList]; omega
end

/-! ### reading an argument list -/

/-- The argument reader of `Add(`/`Multiply(`, on the printed form of a non-empty list whose
elements the sub-parser reads back, returns the accumulated list. -/
theorem args_render (sub : List (Tok α) → Option (Expr α × List (Tok α))) :
    ∀ (es : List (Expr α)) (e : Expr α) (m : Nat) (acc : List (Expr α)) (rest : List (Tok α)),
      (∀ x ∈ e :: es, ∀ r, sub (render x ++ r) = some (x.fresh, r)) →
      (e :: es).length ≤ m →
      parseExpr.args sub m (joinComma (renderList (e :: es)) ++ Tok.rp :: rest) acc
        = some (acc ++ freshList (e :: es), rest)
  | [], e, m, acc, rest, hsub, hm => by
    obtain ⟨m, rfl⟩ : ∃ m', m = m' + 1 := ⟨m - 1, by simp at hm; omega⟩
    have h := hsub e (by simp) (Tok.rp :: rest)
    rw [renderList, renderList, joinComma, parseExpr.args.eq_3 _ _ _ _ (fun r => render_ne_rp e _ r), h]
    simp [freshList]
  | e' :: es, e, m, acc, rest, hsub, hm => by
    obtain ⟨m, rfl⟩ : ∃ m', m = m' + 1 := ⟨m - 1, by simp at hm; omega⟩
    have h := hsub e (by simp)
      (Tok.comma :: (joinComma (renderList (e' :: es)) ++ Tok.rp :: rest))
    have ih := args_render sub es e' m (acc ++ [e.fresh]) rest
      (fun x hx => hsub x (List.mem_cons_of_mem _ hx)) (by simp at hm ⊢; omega)
    have hj : joinComma (renderList (e :: e' :: es)) ++ Tok.rp :: rest
        = render e ++ Tok.comma :: (joinComma (renderList (e' :: es)) ++ Tok.rp :: rest) := by
      simp [renderList, joinComma]
    rw [hj, parseExpr.args.eq_3 _ _ _ _ (fun r => render_ne_rp e _ r), h]
    simp only [ih]
    simp [freshList]

/-! ### the parser reads the printed form back -/

section
variable (N : Num α)

mutual
/-- **Round trip, any sufficient fuel, any continuation.**  With fuel at least the number of nodes,
the parser applied to the printed form of `e` followed by arbitrary tokens `rest` returns the
flag-free copy of `e` and exactly `rest`.  No side condition on `e` or on `rest`. -/
theorem parse_render_of_size_le :
    ∀ (e : Expr α) (k : Nat) (rest : List (Tok α)), size e ≤ k →
      parseExpr N k (render e ++ rest) = some (e.fresh, rest)
  | .const _ v, k, rest, hk => by
    obtain ⟨k, rfl⟩ : ∃ k', k = k' + 1 := ⟨k - 1, by simp [size] at hk; omega⟩
    simp [render, fresh, parseExpr]
  | .var _ x, k, rest, hk => by
    obtain ⟨k, rfl⟩ : ∃ k', k = k' + 1 := ⟨k - 1, by simp [size] at hk; omega⟩
    simp [render, fresh, parseExpr]
  | .add _ as, k, rest, hk => by
    obtain ⟨k, rfl⟩ : ∃ k', k = k' + 1 := ⟨k - 1, by simp [size] at hk; omega⟩
    have hl := parse_render_list as
    have hsz : sizeList as ≤ k := by simp [size] at hk; omega
    have hlen := length_le_sizeList as
    cases as with
    | nil => simp [render, renderList, joinComma, fresh, freshList, parseExpr, parseExpr.args]
    | cons a as =>
      have hj := sizeList_le_length_joinComma (renderList (a :: as))
      have hs := sizeList_le_sum_render (a :: as)
      have := args_render (parseExpr N k) as a
        ((joinComma (renderList (a :: as)) ++ Tok.rp :: rest).length + 1) [] rest
        (fun x hx r => hl x hx k r (Nat.le_trans (size_le_sizeList hx) hsz))
        (by simp only [List.length_append]; omega)
      simp only [render, List.append_assoc, List.cons_append, List.nil_append, parseExpr.eq_4,
        this, fresh]
      simp
  | .mul _ as, k, rest, hk => by
    obtain ⟨k, rfl⟩ : ∃ k', k = k' + 1 := ⟨k - 1, by simp [size] at hk; omega⟩
    have hl := parse_render_list as
    have hsz : sizeList as ≤ k := by simp [size] at hk; omega
    have hlen := length_le_sizeList as
    cases as with
    | nil => simp [render, renderList, joinComma, fresh, freshList, parseExpr, parseExpr.args]
    | cons a as =>
      have hj := sizeList_le_length_joinComma (renderList (a :: as))
      have hs := sizeList_le_sum_render (a :: as)
      have := args_render (parseExpr N k) as a
        ((joinComma (renderList (a :: as)) ++ Tok.rp :: rest).length + 1) [] rest
        (fun x hx r => hl x hx k r (Nat.le_trans (size_le_sizeList hx) hsz))
        (by simp only [List.length_append]; omega)
      simp only [render, List.append_assoc, List.cons_append, List.nil_append, parseExpr.eq_5,
        this, fresh]
      simp
  | .minus _ a b, k, rest, hk => by
    obtain ⟨k, rfl⟩ : ∃ k', k = k' + 1 := ⟨k - 1, by simp [size] at hk; omega⟩
    have ha := parse_render_of_size_le a k (Tok.comma :: (render b ++ Tok.rp :: rest))
      (by simp [size] at hk; omega)
    have hb := parse_render_of_size_le b k (Tok.rp :: rest) (by simp [size] at hk; omega)
    simp [render, fresh, parseExpr, ha, hb]
  | .div _ a b, k, rest, hk => by
    obtain ⟨k, rfl⟩ : ∃ k', k = k' + 1 := ⟨k - 1, by simp [size] at hk; omega⟩
    have ha := parse_render_of_size_le a k (Tok.comma :: (render b ++ Tok.rp :: rest))
      (by simp [size] at hk; omega)
    have hb := parse_render_of_size_le b k (Tok.rp :: rest) (by simp [size] at hk; omega)
    simp [render, fresh, parseExpr, ha, hb]
  | .pow _ a b, k, rest, hk => by
    obtain ⟨k, rfl⟩ : ∃ k', k = k' + 1 := ⟨k - 1, by simp [size] at hk; omega⟩
    have ha := parse_render_of_size_le a k (Tok.comma :: (render b ++ Tok.rp :: rest))
      (by simp [size] at hk; omega)
    have hb := parse_render_of_size_le b k (Tok.rp :: rest) (by simp [size] at hk; omega)
    simp [render, fresh, parseExpr, ha, hb]
  | .neg _ a, k, rest, hk => by
    obtain ⟨k, rfl⟩ : ∃ k', k = k' + 1 := ⟨k - 1, by simp [size] at hk; omega⟩
    have ha := parse_render_of_size_le a k (Tok.rp :: rest) (by simp [size] at hk; omega)
    simp [render, fresh, parseExpr, ha]
  | .recip _ a, k, rest, hk => by
    obtain ⟨k, rfl⟩ : ∃ k', k = k' + 1 := ⟨k - 1, by simp [size] at hk; omega⟩
    have ha := parse_render_of_size_le a k (Tok.rp :: rest) (by simp [size] at hk; omega)
    simp [render, fresh, parseExpr, ha]
  | .cos _ a, k, rest, hk => by
    obtain ⟨k, rfl⟩ : ∃ k', k = k' + 1 := ⟨k - 1, by simp [size] at hk; omega⟩
    have ha := parse_render_of_size_le a k (Tok.rp :: rest) (by simp [size] at hk; omega)
    simp [render, fresh, parseExpr, ha]
  | .sin _ a, k, rest, hk => by
    obtain ⟨k, rfl⟩ : ∃ k', k = k' + 1 := ⟨k - 1, by simp [size] at hk; omega⟩
    have ha := parse_render_of_size_le a k (Tok.rp :: rest) (by simp [size] at hk; omega)
    simp [render, fresh, parseExpr, ha]
  | .npow _ a n, k, rest, hk => by
    obtain ⟨k, rfl⟩ : ∃ k', k = k' + 1 := ⟨k - 1, by simp [size] at hk; omega⟩
    have ha := parse_render_of_size_le a k
      (Tok.comma :: Tok.ident "n" :: Tok.eqs :: Tok.nat n :: Tok.rp :: rest)
      (by simp [size] at hk; omega)
    simp [render, fresh, parseExpr, ha]
  | .nroot _ a n, k, rest, hk => by
    obtain ⟨k, rfl⟩ : ∃ k', k = k' + 1 := ⟨k - 1, by simp [size] at hk; omega⟩
    have ha := parse_render_of_size_le a k
      (Tok.comma :: Tok.ident "n" :: Tok.eqs :: Tok.nat n :: Tok.rp :: rest)
      (by simp [size] at hk; omega)
    simp [render, fresh, parseExpr, ha]
  | .exp _ a b, k, rest, hk => by
    obtain ⟨k, rfl⟩ : ∃ k', k = k' + 1 := ⟨k - 1, by simp [size] at hk; omega⟩
    have ha := parse_render_of_size_le a k
      (Tok.comma :: Tok.ident "base" :: Tok.eqs :: Tok.num b :: Tok.rp :: rest)
      (by simp [size] at hk; omega)
    simp [render, fresh, parseExpr, ha]
  | .log _ a b, k, rest, hk => by
    obtain ⟨k, rfl⟩ : ∃ k', k = k' + 1 := ⟨k - 1, by simp [size] at hk; omega⟩
    have ha := parse_render_of_size_le a k
      (Tok.comma :: Tok.ident "base" :: Tok.eqs :: Tok.num b :: Tok.rp :: rest)
      (by simp [size] at hk; omega)
    simp [render, fresh, parseExpr, ha]
theorem parse_render_list :
    ∀ (es : List (Expr α)), ∀ x ∈ es, ∀ (k : Nat) (rest : List (Tok α)), size x ≤ k →
      parseExpr N k (render x ++ rest) = some (x.fresh, rest)
  | [], x, hx => by simp at hx
  | e :: es, x, hx => by
    rcases List.mem_cons.mp hx with h | h
    · rw [h]; exact parse_render_of_size_le e
    · exact parse_render_list es x h
end


/-- the fuel the driver uses: one more than the number of tokens -/
theorem parse_render_length (e : Expr α) (rest : List (Tok α)) :
    parseExpr N ((render e).length + 1) (render e ++ rest) = some (e.fresh, rest) :=
  parse_render_of_size_le N e _ rest (Nat.le_succ_of_le (size_le_length_render e))

theorem parse_render_driver (e : Expr α) :
    parseExpr N ((render e).length + 1) (render e) = some (e.fresh, []) := by
  simpa using parse_render_length N e []

/-- the parser also accepts `Exponential(u)` / `Logarithm(u)` without `base=` and reads base `e` -/
theorem parse_default_base_exp (u : Expr α) (k : Nat) (rest : List (Tok α)) (hk : size u ≤ k) :
    parseExpr N (k + 1) ([Tok.ident "Exponential", Tok.lp] ++ render u ++ [Tok.rp] ++ rest)
      = some (mkExp u.fresh N.e, rest) := by
  have h := parse_render_of_size_le N u k (Tok.rp :: rest) hk
  simp [parseExpr, h]

theorem parse_default_base_log (u : Expr α) (k : Nat) (rest : List (Tok α)) (hk : size u ≤ k) :
    parseExpr N (k + 1) ([Tok.ident "Logarithm", Tok.lp] ++ render u ++ [Tok.rp] ++ rest)
      = some (mkLog u.fresh N.e, rest) := by
  have h := parse_render_of_size_le N u k (Tok.rp :: rest) hk
  simp [parseExpr, h]

end

/-! ### more fuel never changes an answer -/

theorem args_mono {sub sub' : List (Tok α) → Option (Expr α × List (Tok α))}
    (h : ∀ ts r, sub ts = some r → sub' ts = some r) :
    ∀ (m : Nat) (ts : List (Tok α)) (acc : List (Expr α)) (r : List (Expr α) × List (Tok α)),
      parseExpr.args sub m ts acc = some r → parseExpr.args sub' m ts acc = some r
  | 0, ts, acc, r, hr => by simp [parseExpr.args] at hr
  | m + 1, ts, acc, r, hr => by
    by_cases hts : ∃ rest, ts = Tok.rp :: rest
    · obtain ⟨rest, rfl⟩ := hts
      rw [parseExpr.args.eq_2] at hr ⊢; exact hr
    · have hts' : ∀ rest, ts = Tok.rp :: rest → False := fun rest e => hts ⟨rest, e⟩
      rw [parseExpr.args.eq_3 _ _ _ _ hts'] at hr ⊢
      cases hs : sub ts with
      | none => simp [hs] at hr
      | some p =>
        rw [h _ _ hs]; rw [hs] at hr
        split at hr
        · exact args_mono h m _ _ _ hr
        · exact hr
        · exact hr

theorem parse_step_mono (N : Num α) {k k' : Nat}
    (ih : ∀ ts r, parseExpr N k ts = some r → parseExpr N k' ts = some r)
    (ts : List (Tok α)) (r : Expr α × List (Tok α))
    (h : parseExpr N (k + 1) ts = some r) : parseExpr N (k' + 1) ts = some r := by
  rw [parseExpr.eq_def] at h
  simp only at h
  split at h
  case h_1 => simpa only [parseExpr] using h
  case h_2 => simpa only [parseExpr] using h
  case h_3 =>
    rw [Option.map_eq_some_iff] at h
    obtain ⟨p, hA, rfl⟩ := h
    simp only [parseExpr, args_mono ih _ _ _ _ hA, Option.map_some]
  case h_4 =>
    rw [Option.map_eq_some_iff] at h
    obtain ⟨p, hA, rfl⟩ := h
    simp only [parseExpr, args_mono ih _ _ _ _ hA, Option.map_some]
  case h_16 => simp at h
  all_goals
    simp only [parseExpr]
    split at h
    all_goals first
      | (simp at h; done)
      | (rename_i heq; simp only [ih _ _ heq]; first
          | exact h
          | (split at h
             all_goals first
               | (simp at h; done)
               | (rename_i heq2; simp only [ih _ _ heq2]; exact h)))

theorem parse_mono (N : Num α) : ∀ (k : Nat) (ts : List (Tok α)) (r : Expr α × List (Tok α)),
    parseExpr N k ts = some r → parseExpr N (k + 1) ts = some r
  | 0, ts, r, h => by simp [parseExpr] at h
  | k + 1, ts, r, h => parse_step_mono N (parse_mono N k) ts r h

theorem parse_mono_le (N : Num α) {k k' : Nat} (hk : k ≤ k') (ts : List (Tok α))
    (r : Expr α × List (Tok α)) (h : parseExpr N k ts = some r) : parseExpr N k' ts = some r := by
  induction hk with
  | refl => exact h
  | step _ ih => exact parse_mono N _ ts r ih

/-! ### the printed form determines the expression up to flags -/

mutual
/-- flags are not printed -/
theorem render_fresh : ∀ e : Expr α, render e.fresh = render e
  | .const _ _ => by simp [fresh, render]
  | .var _ _ => by simp [fresh, render]
  | .add _ as => by simp [fresh, render, renderList_fresh as]
  | .mul _ as => by simp [fresh, render, renderList_fresh as]
  | .minus _ a b => by simp [fresh, render, render_fresh a, render_fresh b]
  | .div _ a b => by simp [fresh, render, render_fresh a, render_fresh b]
  | .pow _ a b => by simp [fresh, render, render_fresh a, render_fresh b]
  | .neg _ a => by simp [fresh, render, render_fresh a]
  | .recip _ a => by simp [fresh, render, render_fresh a]
  | .cos _ a => by simp [fresh, render, render_fresh a]
  | .sin _ a => by simp [fresh, render, render_fresh a]
  | .npow _ a _ => by simp [fresh, render, render_fresh a]
  | .nroot _ a _ => by simp [fresh, render, render_fresh a]
  | .exp _ a _ => by simp [fresh, render, render_fresh a]
  | .log _ a _ => by simp [fresh, render, render_fresh a]
theorem renderList_fresh : ∀ es : List (Expr α), renderList (freshList es) = renderList es
  | [] => by simp [freshList, renderList]
  | e :: es => by simp [freshList, renderList, render_fresh e, renderList_fresh es]
end

/-- prefix-freeness, given some number structure to run the parser with -/
theorem render_prefix_free_of_num (N : Num α) (a b : Expr α) (r1 r2 : List (Tok α))
    (h : render a ++ r1 = render b ++ r2) : a.fresh = b.fresh ∧ r1 = r2 := by
  have ha := parse_render_of_size_le N a (max (size a) (size b)) r1 (Nat.le_max_left _ _)
  have hb := parse_render_of_size_le N b (max (size a) (size b)) r2 (Nat.le_max_right _ _)
  rw [h, hb] at ha
  simpa [eq_comm] using ha

/-! To get rid of the number structure (`Num α` has no inhabitant when `α` is empty, while
`Expr α` still has variables, sums, …) the numbers are embedded into `Option α`. -/

variable {β : Type}

def Tok.map (f : α → β) : Tok α → Tok β
  | .ident s => .ident s | .lp => .lp | .rp => .rp | .comma => .comma | .eqs => .eqs
  | .str s => .str s | .num v => .num (f v) | .nat n => .nat n

mutual
def Expr.mapNum (f : α → β) : Expr α → Expr β
  | .const g v => .const g (f v) | .var g x => .var g x
  | .add g as => .add g (mapNumList f as) | .mul g as => .mul g (mapNumList f as)
  | .minus g l r => .minus g (mapNum f l) (mapNum f r)
  | .div g l r => .div g (mapNum f l) (mapNum f r)
  | .pow g l r => .pow g (mapNum f l) (mapNum f r)
  | .neg g u => .neg g (mapNum f u) | .recip g u => .recip g (mapNum f u)
  | .npow g u n => .npow g (mapNum f u) n | .nroot g u n => .nroot g (mapNum f u) n
  | .exp g u b => .exp g (mapNum f u) (f b) | .log g u b => .log g (mapNum f u) (f b)
  | .cos g u => .cos g (mapNum f u) | .sin g u => .sin g (mapNum f u)
def Expr.mapNumList (f : α → β) : List (Expr α) → List (Expr β)
  | [] => []
  | e :: es => mapNum f e :: mapNumList f es
end

theorem joinComma_map (f : α → β) :
    ∀ l : List (List (Tok α)),
      joinComma (l.map (List.map (Tok.map f))) = (joinComma l).map (Tok.map f)
  | [] => by simp [joinComma]
  | [x] => by simp [joinComma]
  | x :: y :: r => by
    have := joinComma_map f (y :: r)
    simp [joinComma, Tok.map] at this ⊢; exact this

mutual
theorem render_mapNum (f : α → β) : ∀ e : Expr α, render (mapNum f e) = (render e).map (Tok.map f)
  | .const _ _ => by simp [mapNum, render, Tok.map]
  | .var _ _ => by simp [mapNum, render, Tok.map]
  | .add _ as => by simp [mapNum, render, Tok.map, renderList_mapNum f as, joinComma_map]
  | .mul _ as => by simp [mapNum, render, Tok.map, renderList_mapNum f as, joinComma_map]
  | .minus _ a b => by simp [mapNum, render, Tok.map, render_mapNum f a, render_mapNum f b]
  | .div _ a b => by simp [mapNum, render, Tok.map, render_mapNum f a, render_mapNum f b]
  | .pow _ a b => by simp [mapNum, render, Tok.map, render_mapNum f a, render_mapNum f b]
  | .neg _ a => by simp [mapNum, render, Tok.map, render_mapNum f a]
  | .recip _ a => by simp [mapNum, render, Tok.map, render_mapNum f a]
  | .cos _ a => by simp [mapNum, render, Tok.map, render_mapNum f a]
  | .sin _ a => by simp [mapNum, render, Tok.map, render_mapNum f a]
  | .npow _ a _ => by simp [mapNum, render, Tok.map, render_mapNum f a]
  | .nroot _ a _ => by simp [mapNum, render, Tok.map, render_mapNum f a]
  | .exp _ a _ => by simp [mapNum, render, Tok.map, render_mapNum f a]
  | .log _ a _ => by simp [mapNum, render, Tok.map, render_mapNum f a]
theorem renderList_mapNum (f : α → β) :
    ∀ es : List (Expr α), renderList (mapNumList f es) = (renderList es).map (List.map (Tok.map f))
  | [] => by simp [mapNumList, renderList]
  | e :: es => by simp [mapNumList, renderList, render_mapNum f e, renderList_mapNum f es]
end

mutual
theorem fresh_mapNum (f : α → β) : ∀ e : Expr α, (mapNum f e).fresh = mapNum f e.fresh
  | .const _ _ => by simp [mapNum, fresh]
  | .var _ _ => by simp [mapNum, fresh]
  | .add _ as => by simp [mapNum, fresh, freshList_mapNum f as]
  | .mul _ as => by simp [mapNum, fresh, freshList_mapNum f as]
  | .minus _ a b => by simp [mapNum, fresh, fresh_mapNum f a, fresh_mapNum f b]
  | .div _ a b => by simp [mapNum, fresh, fresh_mapNum f a, fresh_mapNum f b]
  | .pow _ a b => by simp [mapNum, fresh, fresh_mapNum f a, fresh_mapNum f b]
  | .neg _ a => by simp [mapNum, fresh, fresh_mapNum f a]
  | .recip _ a => by simp [mapNum, fresh, fresh_mapNum f a]
  | .cos _ a => by simp [mapNum, fresh, fresh_mapNum f a]
  | .sin _ a => by simp [mapNum, fresh, fresh_mapNum f a]
  | .npow _ a _ => by simp [mapNum, fresh, fresh_mapNum f a]
  | .nroot _ a _ => by simp [mapNum, fresh, fresh_mapNum f a]
  | .exp _ a _ => by simp [mapNum, fresh, fresh_mapNum f a]
  | .log _ a _ => by simp [mapNum, fresh, fresh_mapNum f a]
theorem freshList_mapNum (f : α → β) :
    ∀ es : List (Expr α), freshList (mapNumList f es) = mapNumList f (freshList es)
  | [] => by simp [mapNumList, freshList]
  | e :: es => by simp [mapNumList, freshList, fresh_mapNum f e, freshList_mapNum f es]
end

mutual
theorem mapNum_inj {f : α → β} (hf : ∀ x y, f x = f y → x = y) :
    ∀ a b : Expr α, mapNum f a = mapNum f b → a = b
  | .const _ v, b, h => by
    cases b <;> simp [mapNum] at h ⊢
    exact ⟨h.1, hf _ _ h.2⟩
  | .var _ _, b, h => by cases b <;> simp [mapNum] at h ⊢; exact h
  | .add _ as, b, h => by
    cases b <;> simp [mapNum] at h ⊢
    exact ⟨h.1, mapNumList_inj hf as _ h.2⟩
  | .mul _ as, b, h => by
    cases b <;> simp [mapNum] at h ⊢
    exact ⟨h.1, mapNumList_inj hf as _ h.2⟩
  | .minus _ l r, b, h => by
    cases b <;> simp [mapNum] at h ⊢
    exact ⟨h.1, mapNum_inj hf l _ h.2.1, mapNum_inj hf r _ h.2.2⟩
  | .div _ l r, b, h => by
    cases b <;> simp [mapNum] at h ⊢
    exact ⟨h.1, mapNum_inj hf l _ h.2.1, mapNum_inj hf r _ h.2.2⟩
  | .pow _ l r, b, h => by
    cases b <;> simp [mapNum] at h ⊢
    exact ⟨h.1, mapNum_inj hf l _ h.2.1, mapNum_inj hf r _ h.2.2⟩
  | .neg _ u, b, h => by
    cases b <;> simp [mapNum] at h ⊢
    exact ⟨h.1, mapNum_inj hf u _ h.2⟩
  | .recip _ u, b, h => by
    cases b <;> simp [mapNum] at h ⊢
    exact ⟨h.1, mapNum_inj hf u _ h.2⟩
  | .cos _ u, b, h => by
    cases b <;> simp [mapNum] at h ⊢
    exact ⟨h.1, mapNum_inj hf u _ h.2⟩
  | .sin _ u, b, h => by
    cases b <;> simp [mapNum] at h ⊢
    exact ⟨h.1, mapNum_inj hf u _ h.2⟩
  | .npow _ u _, b, h => by
    cases b <;> simp [mapNum] at h ⊢
    exact ⟨h.1, mapNum_inj hf u _ h.2.1, h.2.2⟩
  | .nroot _ u _, b, h => by
    cases b <;> simp [mapNum] at h ⊢
    exact ⟨h.1, mapNum_inj hf u _ h.2.1, h.2.2⟩
  | .exp _ u _, b, h => by
    cases b <;> simp [mapNum] at h ⊢
    exact ⟨h.1, mapNum_inj hf u _ h.2.1, hf _ _ h.2.2⟩
  | .log _ u _, b, h => by
    cases b <;> simp [mapNum] at h ⊢
    exact ⟨h.1, mapNum_inj hf u _ h.2.1, hf _ _ h.2.2⟩
theorem mapNumList_inj {f : α → β} (hf : ∀ x y, f x = f y → x = y) :
    ∀ as bs : List (Expr α), mapNumList f as = mapNumList f bs → as = bs
  | [], bs, h => by cases bs <;> simp [mapNumList] at h ⊢
  | a :: as, bs, h => by
    cases bs <;> simp [mapNumList] at h ⊢
    exact ⟨mapNum_inj hf a _ h.1, mapNumList_inj hf as _ h.2⟩
end


theorem Tok.map_inj {f : α → β} (hf : ∀ x y, f x = f y → x = y) :
    ∀ s t : Tok α, Tok.map f s = Tok.map f t → s = t := by
  intro s t h
  cases s <;> cases t <;> simp [Tok.map] at h ⊢ <;> first | exact h | exact hf _ _ h

theorem Tok.mapList_inj {f : α → β} (hf : ∀ x y, f x = f y → x = y) :
    ∀ s t : List (Tok α), s.map (Tok.map f) = t.map (Tok.map f) → s = t
  | [], t, h => by cases t <;> simp at h ⊢
  | x :: s, t, h => by
    cases t <;> simp at h ⊢
    exact ⟨Tok.map_inj hf _ _ h.1, Tok.mapList_inj hf s _ h.2⟩

/-- a number structure on `Option α`, whatever `α` is (only its existence matters) -/
def optionNum (α : Type) : Num (Option α) where
  ofNat _ := none
  e := none
  add _ _ := none
  sub _ _ := none
  neg _ := none
  mul _ _ := none
  div _ _ := none
  powNat _ _ := none
  rpow _ _ := .ok none
  sqrt _ := .ok none
  cbrt _ := .ok none
  logb _ _ := .ok none
  sin _ := .ok none
  cos _ := .ok none
  isZero _ := false
  isNeg _ := false
  eq _ _ := false
  toInt _ := none

/-- **The printed forms are prefix-free up to flags**: if two printed forms, each followed by
anything, give the same token stream, the expressions differ at most in flags and the
continuations are the same.  No hypothesis. -/
theorem render_prefix_free (a b : Expr α) (r1 r2 : List (Tok α))
    (h : render a ++ r1 = render b ++ r2) : a.fresh = b.fresh ∧ r1 = r2 := by
  have hs : ∀ x y : α, some x = some y → x = y := fun _ _ h => Option.some.inj h
  have h' := congrArg (List.map (Tok.map (some : α → Option α))) h
  simp only [List.map_append, ← render_mapNum] at h'
  obtain ⟨h1, h2⟩ := render_prefix_free_of_num (optionNum α) _ _ _ _ h'
  rw [fresh_mapNum, fresh_mapNum] at h1
  exact ⟨mapNum_inj hs _ _ h1, Tok.mapList_inj hs _ _ h2⟩

/-- **`render` is injective up to flags.** -/
theorem render_injective_fresh (a b : Expr α) (h : render a = render b) : a.fresh = b.fresh :=
  (render_prefix_free a b [] [] (by simpa using h)).1

theorem render_eq_iff_fresh (a b : Expr α) : render a = render b ↔ a.fresh = b.fresh :=
  ⟨render_injective_fresh a b, fun h => by rw [← render_fresh a, h, render_fresh]⟩

/-! ### `==` does not see flags -/

section
variable (N : Num α)
mutual
theorem beq_fresh_left : ∀ a b : Expr α, beq N a.fresh b = beq N a b
  | .const _ _, b => by cases b <;> simp [fresh, beq]
  | .var _ _, b => by cases b <;> simp [fresh, beq]
  | .add _ as, b => by
    have ih := fun bs => beqList_fresh_left as bs
    cases b <;> simp [fresh, beq, ih]
  | .mul _ as, b => by
    have ih := fun bs => beqList_fresh_left as bs
    cases b <;> simp [fresh, beq, ih]
  | .minus _ l r, b => by
    have ih1 := fun b => beq_fresh_left l b
    have ih2 := fun b => beq_fresh_left r b
    cases b <;> simp [fresh, beq, ih1, ih2]
  | .div _ l r, b => by
    have ih1 := fun b => beq_fresh_left l b
    have ih2 := fun b => beq_fresh_left r b
    cases b <;> simp [fresh, beq, ih1, ih2]
  | .pow _ l r, b => by
    have ih1 := fun b => beq_fresh_left l b
    have ih2 := fun b => beq_fresh_left r b
    cases b <;> simp [fresh, beq, ih1, ih2]
  | .neg _ u, b => by
    have ih := fun b => beq_fresh_left u b
    cases b <;> simp [fresh, beq, ih]
  | .recip _ u, b => by
    have ih := fun b => beq_fresh_left u b
    cases b <;> simp [fresh, beq, ih]
  | .cos _ u, b => by
    have ih := fun b => beq_fresh_left u b
    cases b <;> simp [fresh, beq, ih]
  | .sin _ u, b => by
    have ih := fun b => beq_fresh_left u b
    cases b <;> simp [fresh, beq, ih]
  | .npow _ u _, b => by
    have ih := fun b => beq_fresh_left u b
    cases b <;> simp [fresh, beq, ih]
  | .nroot _ u _, b => by
    have ih := fun b => beq_fresh_left u b
    cases b <;> simp [fresh, beq, ih]
  | .exp _ u _, b => by
    have ih := fun b => beq_fresh_left u b
    cases b <;> simp [fresh, beq, ih]
  | .log _ u _, b => by
    have ih := fun b => beq_fresh_left u b
    cases b <;> simp [fresh, beq, ih]
theorem beqList_fresh_left : ∀ as bs : List (Expr α), beqList N (freshList as) bs = beqList N as bs
  | [], bs => by cases bs <;> simp [freshList, beqList]
  | a :: as, bs => by
    have ih1 := fun b => beq_fresh_left a b
    have ih2 := fun bs => beqList_fresh_left as bs
    cases bs <;> simp [freshList, beqList, ih1, ih2]
end

mutual
theorem beq_fresh_right : ∀ a b : Expr α, beq N a b.fresh = beq N a b
  | .const _ _, b => by cases b <;> simp [fresh, beq]
  | .var _ _, b => by cases b <;> simp [fresh, beq]
  | .add _ as, b => by
    have ih := fun bs => beqList_fresh_right as bs
    cases b <;> simp [fresh, beq, ih]
  | .mul _ as, b => by
    have ih := fun bs => beqList_fresh_right as bs
    cases b <;> simp [fresh, beq, ih]
  | .minus _ l r, b => by
    have ih1 := fun b => beq_fresh_right l b
    have ih2 := fun b => beq_fresh_right r b
    cases b <;> simp [fresh, beq, ih1, ih2]
  | .div _ l r, b => by
    have ih1 := fun b => beq_fresh_right l b
    have ih2 := fun b => beq_fresh_right r b
    cases b <;> simp [fresh, beq, ih1, ih2]
  | .pow _ l r, b => by
    have ih1 := fun b => beq_fresh_right l b
    have ih2 := fun b => beq_fresh_right r b
    cases b <;> simp [fresh, beq, ih1, ih2]
  | .neg _ u, b => by
    have ih := fun b => beq_fresh_right u b
    cases b <;> simp [fresh, beq, ih]
  | .recip _ u, b => by
    have ih := fun b => beq_fresh_right u b
    cases b <;> simp [fresh, beq, ih]
  | .cos _ u, b => by
    have ih := fun b => beq_fresh_right u b
    cases b <;> simp [fresh, beq, ih]
  | .sin _ u, b => by
    have ih := fun b => beq_fresh_right u b
    cases b <;> simp [fresh, beq, ih]
  | .npow _ u _, b => by
    have ih := fun b => beq_fresh_right u b
    cases b <;> simp [fresh, beq, ih]
  | .nroot _ u _, b => by
    have ih := fun b => beq_fresh_right u b
    cases b <;> simp [fresh, beq, ih]
  | .exp _ u _, b => by
    have ih := fun b => beq_fresh_right u b
    cases b <;> simp [fresh, beq, ih]
  | .log _ u _, b => by
    have ih := fun b => beq_fresh_right u b
    cases b <;> simp [fresh, beq, ih]
theorem beqList_fresh_right : ∀ as bs : List (Expr α), beqList N as (freshList bs) = beqList N as bs
  | [], bs => by cases bs <;> simp [freshList, beqList]
  | a :: as, bs => by
    have ih1 := fun b => beq_fresh_right a b
    have ih2 := fun bs => beqList_fresh_right as bs
    cases bs <;> simp [freshList, beqList, ih1, ih2]
end

mutual
theorem beq_refl_pr (hrefl : ∀ v, N.eq v v = true) : ∀ e : Expr α, beq N e e = true
  | .const _ _ => by simp [beq, hrefl]
  | .var _ _ => by simp [beq]
  | .add _ as => by simp [beq, beqList_refl_pr hrefl as]
  | .mul _ as => by simp [beq, beqList_refl_pr hrefl as]
  | .minus _ a b => by simp [beq, beq_refl_pr hrefl a, beq_refl_pr hrefl b]
  | .div _ a b => by simp [beq, beq_refl_pr hrefl a, beq_refl_pr hrefl b]
  | .pow _ a b => by simp [beq, beq_refl_pr hrefl a, beq_refl_pr hrefl b]
  | .neg _ a => by simp [beq, beq_refl_pr hrefl a]
  | .recip _ a => by simp [beq, beq_refl_pr hrefl a]
  | .cos _ a => by simp [beq, beq_refl_pr hrefl a]
  | .sin _ a => by simp [beq, beq_refl_pr hrefl a]
  | .npow _ a _ => by simp [beq, beq_refl_pr hrefl a]
  | .nroot _ a _ => by simp [beq, beq_refl_pr hrefl a]
  | .exp _ a _ => by simp [beq, beq_refl_pr hrefl a, hrefl]
  | .log _ a _ => by simp [beq, beq_refl_pr hrefl a, hrefl]
theorem beqList_refl_pr (hrefl : ∀ v, N.eq v v = true) : ∀ es : List (Expr α), beqList N es es = true
  | [] => by simp [beqList]
  | e :: es => by simp [beqList, beq_refl_pr hrefl e, beqList_refl_pr hrefl es]
end

/-- the object read back from the printed form is `==` to the original (in both directions),
provided `==` on the stored numbers is reflexive (it is not for a NaN) -/
theorem beq_fresh_self (hrefl : ∀ v, N.eq v v = true) (e : Expr α) :
    beq N e.fresh e = true ∧ beq N e e.fresh = true := by
  rw [beq_fresh_left, beq_fresh_right]; exact ⟨beq_refl_pr N hrefl e, beq_refl_pr N hrefl e⟩

/-- expressions that print identically are `==` -/
theorem beq_of_render_eq (hrefl : ∀ v, N.eq v v = true) (a b : Expr α) (h : render a = render b) :
    beq N a b = true := by
  rw [← beq_fresh_left, ← beq_fresh_right, render_injective_fresh a b h, beq_fresh_left,
    beq_fresh_right]
  exact beq_refl_pr N hrefl b

end

end Smooth
