/-
Proofs/RulesNary — C08 for the 12 rewrite rules of `Add` and `Multiply` (Model/Rules.lean) over the
reals: whenever the rule applies, its output `Refines` its input (well-formedness kept, no new
variable, defined wherever the input is and equal there; only the domain may grow).
None of the twelve needs a side condition.
-/
import Smooth.Proofs.ListSem
import Smooth.Proofs.SRootMul

namespace Smooth
open Expr

/-! ### `spliceFirst`, `groupByKey`, `consolidate` -/

theorem spliceFirst_spec {α : Type} {sel : Expr α → Option (List (Expr α))} :
    ∀ {as as' : List (Expr α)}, spliceFirst sel as = some as' →
      ∃ pre e inner post, as = pre ++ e :: post ∧ sel e = some inner ∧ as' = pre ++ inner ++ post
  | [], _, h => by simp [spliceFirst] at h
  | e :: es, as', h => by
    simp only [spliceFirst] at h
    split at h
    · next inner hs =>
      simp only [Option.some.injEq] at h
      exact ⟨[], e, inner, es, rfl, hs, by simp [h]⟩
    · next hs =>
      cases hrec : spliceFirst sel es with
      | none => simp [hrec] at h
      | some r =>
        simp only [hrec, Option.map_some, Option.some.injEq] at h
        obtain ⟨pre, e0, inner, post, h1, h2, h3⟩ := spliceFirst_spec hrec
        exact ⟨e :: pre, e0, inner, post, by simp [h1], h2, by simp [← h, h3]⟩

section groups
variable {κ β : Type}

/-- the groups, flattened back to (key, item) pairs -/
def flatGroups (g : List (κ × List β)) : List (κ × β) := g.flatMap fun g => g.2.map (Prod.mk g.1)

theorem flatGroups_cons (g : κ × List β) (gs : List (κ × List β)) :
    flatGroups (g :: gs) = g.2.map (Prod.mk g.1) ++ flatGroups gs := by
  simp [flatGroups]

theorem groupInsert_perm {eq : κ → κ → Bool} (heq : ∀ a b, eq a b = true → a = b) (k : κ) (v : β) :
    ∀ g : List (κ × List β), (flatGroups (groupInsert eq k v g)).Perm (flatGroups g ++ [(k, v)])
  | [] => by simp [groupInsert, flatGroups]
  | (k', vs) :: rest => by
    simp only [groupInsert]
    split
    · next h =>
      have := heq _ _ h
      subst this
      simp only [flatGroups_cons, List.map_append, List.map_cons, List.map_nil, List.append_assoc]
      exact List.Perm.append_left _ List.perm_append_comm
    · simp only [flatGroups_cons, List.append_assoc]
      exact List.Perm.append_left _ (groupInsert_perm heq k v rest)

theorem groupFold_perm {eq : κ → κ → Bool} (heq : ∀ a b, eq a b = true → a = b) :
    ∀ (items : List (κ × β)) (g : List (κ × List β)),
      (flatGroups (items.foldl (fun g kv => groupInsert eq kv.1 kv.2 g) g)).Perm (flatGroups g ++ items)
  | [], g => by simp
  | kv :: items, g => by
    simp only [List.foldl_cons]
    refine (groupFold_perm heq items _).trans ?_
    refine ((groupInsert_perm heq kv.1 kv.2 g).append_right items).trans ?_
    simp

/-- `group_by_key` loses nothing and invents nothing: every item ends up in exactly one group, under
its own key (for keys compared by a test that implies equality) -/
theorem groupByKey_perm {eq : κ → κ → Bool} (heq : ∀ a b, eq a b = true → a = b)
    (items : List (κ × β)) : (flatGroups (groupByKey eq items)).Perm items := by
  simpa [groupByKey, flatGroups] using groupFold_perm heq items []

theorem groupInsert_nonempty {eq : κ → κ → Bool} (k : κ) (v : β) :
    ∀ g : List (κ × List β), (∀ x ∈ g, x.2 ≠ []) → ∀ x ∈ groupInsert eq k v g, x.2 ≠ []
  | [], _, x, hx => by
    simp only [groupInsert, List.mem_singleton] at hx
    subst hx; simp
  | (k', vs) :: rest, hg, x, hx => by
    simp only [groupInsert] at hx
    split at hx
    · rcases List.mem_cons.mp hx with rfl | hx
      · simp
      · exact hg x (List.mem_cons_of_mem _ hx)
    · rcases List.mem_cons.mp hx with rfl | hx
      · exact hg _ (List.mem_cons_self ..)
      · exact groupInsert_nonempty k v rest (fun y hy => hg y (List.mem_cons_of_mem _ hy)) x hx

theorem groupFold_nonempty {eq : κ → κ → Bool} :
    ∀ (items : List (κ × β)) (g : List (κ × List β)), (∀ x ∈ g, x.2 ≠ []) →
      ∀ x ∈ items.foldl (fun g kv => groupInsert eq kv.1 kv.2 g) g, x.2 ≠ []
  | [], g, hg => by simpa using hg
  | kv :: items, g, hg => by
    simp only [List.foldl_cons]
    exact groupFold_nonempty items _ (groupInsert_nonempty kv.1 kv.2 g hg)

/-- no group is empty -/
theorem groupByKey_nonempty {eq : κ → κ → Bool} (items : List (κ × β)) :
    ∀ x ∈ groupByKey eq items, x.2 ≠ [] :=
  groupFold_nonempty items [] (by simp)

end groups

/-- what a successful `consolidate` returns -/
theorem consolidate_spec {κ : Type} {sel : Expr ℝ → Option (κ × Expr ℝ)} {eq : κ → κ → Bool}
    {build : κ → List (Expr ℝ) → Expr ℝ} {as as' : List (Expr ℝ)}
    (heq : ∀ a b, eq a b = true → a = b) (h : consolidate sel eq build as = some as') :
    ∃ groups : List (κ × List (Expr ℝ)),
      as' = (as.filter fun e => (sel e).isNone) ++ groups.map (fun g => build g.1 g.2) ∧
      (flatGroups groups).Perm (as.filterMap sel) ∧ ∀ g ∈ groups, g.2 ≠ [] := by
  unfold consolidate at h
  simp only at h
  split at h
  · cases h
  · split at h
    · cases h
    · simp only [Option.some.injEq] at h
      exact ⟨_, h.symm, groupByKey_perm heq _, groupByKey_nonempty _⟩

/-! ### the common proof of the four consolidation rules -/

/-- what a consolidation rule must satisfy locally: `sel` recognises `mk k u` (up to flags), and one
rebuilt group `build k us` is well-formed / supplied / defined whenever all its members `mk k u` are -/
structure ConsolidateOK {κ : Type} (sel : Expr ℝ → Option (κ × Expr ℝ)) (mk : κ → Expr ℝ → Expr ℝ)
    (build : κ → List (Expr ℝ) → Expr ℝ) : Prop where
  sel_sem : ∀ e k u, sel e = some (k, u) → SameSem e (mk k u)
  build_wf : ∀ k us, us ≠ [] → (∀ u ∈ us, WF (mk k u)) → WF (build k us)
  build_supp : ∀ (p : Point ℝ) k us, (∀ u ∈ us, Supp p (mk k u)) → Supp p (build k us)
  build_dom : ∀ ρ k us, us ≠ [] → (∀ u ∈ us, WF (mk k u)) → (∀ u ∈ us, Dom ρ (mk k u)) →
    Dom ρ (build k us)

section consolidate
variable {κ : Type} {sel : Expr ℝ → Option (κ × Expr ℝ)} {mk : κ → Expr ℝ → Expr ℝ}
  {build : κ → List (Expr ℝ) → Expr ℝ} {eq : κ → κ → Bool}

/-- every member of every group comes from an argument that `sel` recognises -/
theorem group_member_origin {as : List (Expr ℝ)} {groups : List (κ × List (Expr ℝ))}
    (hperm : (flatGroups groups).Perm (as.filterMap sel)) {g : κ × List (Expr ℝ)}
    (hg : g ∈ groups) {u : Expr ℝ} (hu : u ∈ g.2) : ∃ e ∈ as, sel e = some (g.1, u) := by
  have : (g.1, u) ∈ flatGroups groups := by
    simp only [flatGroups, List.mem_flatMap, List.mem_map]
    exact ⟨g, hg, u, hu, rfl⟩
  exact List.mem_filterMap.mp (hperm.mem_iff.mp this)

theorem consolidate_list (hc : ConsolidateOK sel mk build) (heq : ∀ a b, eq a b = true → a = b)
    {as as' : List (Expr ℝ)} (h : consolidate sel eq build as = some as') :
    (WFList as → WFList as') ∧ (∀ p : Point ℝ, SuppList p as → SuppList p as') ∧
    (WFList as → ∀ ρ, DomList ρ as → DomList ρ as') := by
  obtain ⟨groups, rfl, hperm, hne⟩ := consolidate_spec heq h
  refine ⟨?_, ?_, ?_⟩
  · intro hwf
    rw [wfList_iff] at hwf ⊢
    intro e' he'
    rcases List.mem_append.mp he' with he' | he'
    · exact hwf e' (List.mem_filter.mp he').1
    · obtain ⟨g, hg, rfl⟩ := List.mem_map.mp he'
      refine hc.build_wf g.1 g.2 (hne g hg) fun u hu => ?_
      obtain ⟨e, he, hs⟩ := group_member_origin hperm hg hu
      exact (hc.sel_sem e g.1 u hs).wf.mp (hwf e he)
  · intro p hsupp
    rw [suppList_iff] at hsupp ⊢
    intro e' he'
    rcases List.mem_append.mp he' with he' | he'
    · exact hsupp e' (List.mem_filter.mp he').1
    · obtain ⟨g, hg, rfl⟩ := List.mem_map.mp he'
      refine hc.build_supp p g.1 g.2 fun u hu => ?_
      obtain ⟨e, he, hs⟩ := group_member_origin hperm hg hu
      exact ((hc.sel_sem e g.1 u hs).supp p).mp (hsupp e he)
  · intro hwf ρ hdom
    rw [wfList_iff] at hwf
    rw [domList_iff] at hdom ⊢
    intro e' he'
    rcases List.mem_append.mp he' with he' | he'
    · exact hdom e' (List.mem_filter.mp he').1
    · obtain ⟨g, hg, rfl⟩ := List.mem_map.mp he'
      refine hc.build_dom ρ g.1 g.2 (hne g hg) (fun u hu => ?_) (fun u hu => ?_)
      · obtain ⟨e, he, hs⟩ := group_member_origin hperm hg hu
        exact (hc.sel_sem e g.1 u hs).wf.mp (hwf e he)
      · obtain ⟨e, he, hs⟩ := group_member_origin hperm hg hu
        exact ((hc.sel_sem e g.1 u hs).dom ρ).mp (hdom e he)

/-- consolidation under `Multiply`: each rebuilt group denotes the product of its members -/
theorem consolidate_mul_refines (hc : ConsolidateOK sel mk build)
    (hden : ∀ ρ k us, us ≠ [] → (∀ u ∈ us, WF (mk k u)) → (∀ u ∈ us, Dom ρ (mk k u)) →
      den ρ (build k us) = (us.map fun u => den ρ (mk k u)).prod)
    (heq : ∀ a b, eq a b = true → a = b) (f : Flags) {as as' : List (Expr ℝ)}
    (h : consolidate sel eq build as = some as') : Refines (.mul f as) (mkMul as') := by
  obtain ⟨h1, h2, h3⟩ := consolidate_list hc heq h
  refine ⟨h1, h2, fun hwf ρ hdom => ⟨h3 hwf ρ hdom, ?_⟩⟩
  obtain ⟨groups, rfl, hperm, hne⟩ := consolidate_spec heq h
  simp only [WF, Dom] at hwf hdom
  rw [wfList_iff] at hwf
  rw [domList_iff] at hdom
  simp only [den, denList_eq_map_b, List.map_append, List.prod_append, List.map_map]
  have hgroups : (groups.map (den ρ ∘ fun g => build g.1 g.2)) =
      groups.map fun g => (g.2.map fun u => (fun m : κ × Expr ℝ => den ρ (mk m.1 m.2)) (g.1, u)).prod := by
    apply List.map_congr_left
    intro g hg
    refine hden ρ g.1 g.2 (hne g hg) (fun u hu => ?_) (fun u hu => ?_)
    · obtain ⟨e, he, hs⟩ := group_member_origin hperm hg hu
      exact (hc.sel_sem e g.1 u hs).wf.mp (hwf e he)
    · obtain ⟨e, he, hs⟩ := group_member_origin hperm hg hu
      exact ((hc.sel_sem e g.1 u hs).dom ρ).mp (hdom e he)
  rw [hgroups, prod_map_groups (fun m : κ × Expr ℝ => den ρ (mk m.1 m.2)) groups]
  have hp : (List.map (fun m : κ × Expr ℝ => den ρ (mk m.1 m.2))
      (groups.flatMap fun g => g.2.map (Prod.mk g.1))).prod =
      (List.map (fun m : κ × Expr ℝ => den ρ (mk m.1 m.2)) (as.filterMap sel)).prod :=
    (hperm.map _).prod_eq
  rw [hp]
  exact (prod_map_partition (den ρ) sel (fun m : κ × Expr ℝ => den ρ (mk m.1 m.2))
    (fun e m hs => (hc.sel_sem e m.1 m.2 hs).den ρ) as).symm

/-- consolidation under `Add`: each rebuilt group denotes the sum of its members -/
theorem consolidate_add_refines (hc : ConsolidateOK sel mk build)
    (hden : ∀ ρ k us, us ≠ [] → (∀ u ∈ us, WF (mk k u)) → (∀ u ∈ us, Dom ρ (mk k u)) →
      den ρ (build k us) = (us.map fun u => den ρ (mk k u)).sum)
    (heq : ∀ a b, eq a b = true → a = b) (f : Flags) {as as' : List (Expr ℝ)}
    (h : consolidate sel eq build as = some as') : Refines (.add f as) (mkAdd as') := by
  obtain ⟨h1, h2, h3⟩ := consolidate_list hc heq h
  refine ⟨h1, h2, fun hwf ρ hdom => ⟨h3 hwf ρ hdom, ?_⟩⟩
  obtain ⟨groups, rfl, hperm, hne⟩ := consolidate_spec heq h
  simp only [WF, Dom] at hwf hdom
  rw [wfList_iff] at hwf
  rw [domList_iff] at hdom
  simp only [den, denList_eq_map_b, List.map_append, List.sum_append, List.map_map]
  have hgroups : (groups.map (den ρ ∘ fun g => build g.1 g.2)) =
      groups.map fun g => (g.2.map fun u => (fun m : κ × Expr ℝ => den ρ (mk m.1 m.2)) (g.1, u)).sum := by
    apply List.map_congr_left
    intro g hg
    refine hden ρ g.1 g.2 (hne g hg) (fun u hu => ?_) (fun u hu => ?_)
    · obtain ⟨e, he, hs⟩ := group_member_origin hperm hg hu
      exact (hc.sel_sem e g.1 u hs).wf.mp (hwf e he)
    · obtain ⟨e, he, hs⟩ := group_member_origin hperm hg hu
      exact ((hc.sel_sem e g.1 u hs).dom ρ).mp (hdom e he)
  rw [hgroups, sum_map_groups (fun m : κ × Expr ℝ => den ρ (mk m.1 m.2)) groups]
  have hp : (List.map (fun m : κ × Expr ℝ => den ρ (mk m.1 m.2))
      (groups.flatMap fun g => g.2.map (Prod.mk g.1))).sum =
      (List.map (fun m : κ × Expr ℝ => den ρ (mk m.1 m.2)) (as.filterMap sel)).sum :=
    (hperm.map _).sum_eq
  rw [hp]
  exact (sum_map_partition (den ρ) sel (fun m : κ × Expr ℝ => den ρ (mk m.1 m.2))
    (fun e m hs => (hc.sel_sem e m.1 m.2 hs).den ρ) as).symm

end consolidate

/-! ### recognisers -/

theorem asAdd_eq_some {e : Expr ℝ} {inner : List (Expr ℝ)} (h : asAdd e = some inner) :
    ∃ g, e = .add g inner := by
  cases e <;> simp [asAdd] at h
  subst h; exact ⟨_, rfl⟩

theorem asMul_eq_some {e : Expr ℝ} {inner : List (Expr ℝ)} (h : asMul e = some inner) :
    ∃ g, e = .mul g inner := by
  cases e <;> simp [asMul] at h
  subst h; exact ⟨_, rfl⟩

theorem asConst_eq_some {e : Expr ℝ} {v : ℝ} (h : asConst e = some v) : ∃ g, e = .const g v := by
  cases e <;> simp [asConst] at h
  subst h; exact ⟨_, rfl⟩

theorem asNeg_eq_some' {e u : Expr ℝ} (h : asNeg e = some u) : ∃ g, e = .neg g u := by
  cases e <;> simp [asNeg] at h
  subst h; exact ⟨_, rfl⟩

theorem asLog_eq_some {e u : Expr ℝ} {b : ℝ} (h : asLog e = some (b, u)) : ∃ g, e = .log g u b := by
  cases e <;> simp [asLog] at h
  obtain ⟨rfl, rfl⟩ := h; exact ⟨_, rfl⟩

theorem asExp_eq_some {e u : Expr ℝ} {b : ℝ} (h : asExp e = some (b, u)) : ∃ g, e = .exp g u b := by
  cases e <;> simp [asExp] at h
  obtain ⟨rfl, rfl⟩ := h; exact ⟨_, rfl⟩

theorem asNPow_eq_some {e u : Expr ℝ} {n : ℕ} (h : asNPow e = some (n, u)) :
    ∃ g, e = .npow g u n := by
  cases e <;> simp [asNPow] at h
  obtain ⟨rfl, rfl⟩ := h; exact ⟨_, rfl⟩

theorem asNRoot_eq_some {e u : Expr ℝ} {n : ℕ} (h : asNRoot e = some (n, u)) :
    ∃ g, e = .nroot g u n := by
  cases e <;> simp [asNRoot] at h
  obtain ⟨rfl, rfl⟩ := h; exact ⟨_, rfl⟩

theorem isConstSuch_true_b {pred : ℝ → Bool} {e : Expr ℝ} (h : isConstSuch pred e = true) :
    ∃ g v, e = .const g v ∧ pred v = true := by
  cases e <;> simp [isConstSuch, asConst] at h
  exact ⟨_, _, rfl, h⟩

theorem realNum_eq_sound (a b : ℝ) (h : realNum.eq a b = true) : a = b := by simpa using h

theorem nat_beq_sound (a b : ℕ) (h : (a == b) = true) : a = b := by simpa using h

/-! ### Add -/

theorem flatten_add_refines (f g : Flags) (pre inner post : List (Expr ℝ)) :
    Refines (.add f (pre ++ .add g inner :: post)) (mkAdd (pre ++ inner ++ post)) := by
  refine ⟨?_, ?_, ?_⟩
  · simp only [WF, wfList_append, WFList]; tauto
  · intro p; simp only [Supp, suppList_append, SuppList]; tauto
  · intro _ ρ hd
    refine ⟨?_, ?_⟩
    · revert hd; simp only [Dom, domList_append, DomList]; tauto
    · simp only [den, denList_append, denList, List.sum_append, List.sum_cons]; ring

/-- `Add(…, Add(xs), …) ⇒ Add(…, xs, …)` -/
theorem addFlatten_refines {e e' : Expr ℝ} (h : ruleAddFlatten e = some e') : Refines e e' := by
  cases e with
  | add f as =>
    simp only [ruleAddFlatten, Option.map_eq_some_iff] at h
    obtain ⟨as', hs, rfl⟩ := h
    obtain ⟨pre, e0, inner, post, rfl, hsel, rfl⟩ := spliceFirst_spec hs
    obtain ⟨g, rfl⟩ := asAdd_eq_some hsel
    exact flatten_add_refines f g pre inner post
  | _ => simp [ruleAddFlatten] at h

/-- dropping terms that denote 0 from a sum -/
theorem filter_add_refines (f : Flags) (p : Expr ℝ → Bool) (as : List (Expr ℝ))
    (hp : ∀ e ∈ as, p e = false → ∀ ρ, den ρ e = 0) :
    Refines (.add f as) (mkAdd (as.filter p)) := by
  refine ⟨?_, ?_, ?_⟩
  · simp only [WF, wfList_iff]
    exact fun h e he => h e (List.mem_filter.mp he).1
  · intro pt; simp only [Supp, suppList_iff]
    exact fun h e he => h e (List.mem_filter.mp he).1
  · intro _ ρ hd
    simp only [Dom, domList_iff] at hd ⊢
    refine ⟨fun e he => hd e (List.mem_filter.mp he).1, ?_⟩
    simp only [den, denList_eq_map_b]
    exact sum_map_filter_of_zero (den ρ) p as fun e he hpe => hp e he hpe ρ

/-- `Add(…, 0, …) ⇒ Add(…, …)` -/
theorem addZeros_refines {e e' : Expr ℝ} (h : ruleAddZeros realNum e = some e') : Refines e e' := by
  cases e with
  | add f as =>
    simp only [ruleAddZeros] at h
    split at h
    · cases h
    · simp only [Option.some.injEq] at h
      subst h
      apply filter_add_refines
      intro e _ hpe ρ
      simp only [Bool.not_eq_false'] at hpe
      obtain ⟨g, v, rfl, hv⟩ := isConstSuch_true_b hpe
      simpa [den] using hv
  | _ => simp [ruleAddZeros] at h

theorem log_prod_div (ρ : String → ℝ) (b : ℝ) : ∀ us : List (Expr ℝ), (∀ u ∈ us, 0 < den ρ u) →
    Real.log (us.map (den ρ)).prod / Real.log b =
      (us.map fun u => Real.log (den ρ u) / Real.log b).sum
  | [], _ => by simp
  | u :: us, h => by
    have hu : 0 < den ρ u := h u (List.mem_cons_self ..)
    have hus : ∀ v ∈ us, 0 < den ρ v := fun v hv => h v (List.mem_cons_of_mem _ hv)
    have hP : 0 < (us.map (den ρ)).prod :=
      List.prod_pos fun a ha => by
        obtain ⟨v, hv, rfl⟩ := List.mem_map.mp ha
        exact hus v hv
    simp only [List.map_cons, List.prod_cons, List.sum_cons]
    rw [Real.log_mul hu.ne' hP.ne', add_div, log_prod_div ρ b us hus]

theorem addLogs_ok : ConsolidateOK asLog (fun b u => mkLog u b)
    (fun b inners => mkLog (mkMul inners) b) where
  sel_sem e b u hs := by
    obtain ⟨g, rfl⟩ := asLog_eq_some hs
    exact sameSem_setFlags {} _
  build_wf b us hne hwf := by
    obtain ⟨u0, hu0⟩ := List.exists_mem_of_ne_nil us hne
    have h0 := hwf u0 hu0
    simp only [WF] at h0 hwf ⊢
    exact ⟨h0.1, h0.2.1, (wfList_iff us).mpr fun u hu => (hwf u hu).2.2⟩
  build_supp p b us hs := by
    simp only [Supp] at hs ⊢
    exact (suppList_iff p us).mpr hs
  build_dom ρ b us _ _ hd := by
    simp only [Dom] at hd ⊢
    refine ⟨(domList_iff ρ us).mpr fun u hu => (hd u hu).1, ?_⟩
    simp only [den, denList_eq_map_b]
    exact List.prod_pos fun a ha => by
      obtain ⟨v, hv, rfl⟩ := List.mem_map.mp ha
      exact (hd v hv).2

/-- `Add(…, log_b x, …, log_b y, …) ⇒ Add(…, log_b (x·y))`, per base -/
theorem addLogs_refines {e e' : Expr ℝ} (h : ruleAddLogs realNum e = some e') : Refines e e' := by
  cases e with
  | add f as =>
    simp only [ruleAddLogs, Option.map_eq_some_iff] at h
    obtain ⟨as', hs, rfl⟩ := h
    refine consolidate_add_refines addLogs_ok ?_ realNum_eq_sound f hs
    intro ρ b us _ _ hd
    simp only [Dom] at hd
    simp only [den, denList_eq_map_b]
    exact log_prod_div ρ b us fun u hu => (hd u hu).2
  | _ => simp [ruleAddLogs] at h

/-- the constants of a sum are replaced by one constant, their sum, appended last -/
theorem addConsts_refines {e e' : Expr ℝ} (h : ruleAddConsts realNum e = some e') :
    Refines e e' := by
  cases e with
  | add f as =>
    simp only [ruleAddConsts] at h
    split at h
    · cases h
    · simp only [Option.some.injEq] at h
      subst h
      refine ⟨?_, ?_, ?_⟩
      · simp only [WF, wfList_iff, List.mem_append, List.mem_singleton]
        rintro h e (he | rfl)
        · exact h e (List.mem_filter.mp he).1
        · trivial
      · intro pt
        simp only [Supp, suppList_iff, List.mem_append, List.mem_singleton]
        rintro h e (he | rfl)
        · exact h e (List.mem_filter.mp he).1
        · trivial
      · intro _ ρ hd
        simp only [Dom, domList_iff, List.mem_append, List.mem_singleton] at hd ⊢
        refine ⟨?_, ?_⟩
        · rintro e (he | rfl)
          · exact hd e (List.mem_filter.mp he).1
          · trivial
        · simp only [den, denList_eq_map_b, List.map_append, List.sum_append, List.map_cons,
            List.map_nil, List.sum_cons, List.sum_nil, add_zero, mfAdd_real]
          rw [sum_map_partition (den ρ) asConst id (fun e v hs => by
            obtain ⟨g, rfl⟩ := asConst_eq_some hs; simp [den]) as]
          simp
  | _ => simp [ruleAddConsts] at h

/-! ### Multiply -/

theorem flatten_mul_refines (f g : Flags) (pre inner post : List (Expr ℝ)) :
    Refines (.mul f (pre ++ .mul g inner :: post)) (mkMul (pre ++ inner ++ post)) := by
  refine ⟨?_, ?_, ?_⟩
  · simp only [WF, wfList_append, WFList]; tauto
  · intro p; simp only [Supp, suppList_append, SuppList]; tauto
  · intro _ ρ hd
    refine ⟨?_, ?_⟩
    · revert hd; simp only [Dom, domList_append, DomList]; tauto
    · simp only [den, denList_append, denList, List.prod_append, List.prod_cons]; ring

/-- `Multiply(…, Multiply(xs), …) ⇒ Multiply(…, xs, …)` -/
theorem mulFlatten_refines {e e' : Expr ℝ} (h : ruleMulFlatten e = some e') : Refines e e' := by
  cases e with
  | mul f as =>
    simp only [ruleMulFlatten, Option.map_eq_some_iff] at h
    obtain ⟨as', hs, rfl⟩ := h
    obtain ⟨pre, e0, inner, post, rfl, hsel, rfl⟩ := spliceFirst_spec hs
    obtain ⟨g, rfl⟩ := asMul_eq_some hsel
    exact flatten_mul_refines f g pre inner post
  | _ => simp [ruleMulFlatten] at h

/-- `Multiply(…, 0, …) ⇒ 0` (the domain may grow: the other factors are no longer evaluated) -/
theorem mulZero_refines {e e' : Expr ℝ} (h : ruleMulZero realNum e = some e') : Refines e e' := by
  cases e with
  | mul f as =>
    simp only [ruleMulZero] at h
    split at h
    · next hany =>
      simp only [Option.some.injEq] at h
      subst h
      obtain ⟨e0, he0, hz⟩ := List.any_eq_true.mp hany
      obtain ⟨g, v, rfl, hv⟩ := isConstSuch_true_b hz
      have hv0 : v = 0 := by simpa using hv
      subst hv0
      refine ⟨fun _ => trivial, fun _ _ => trivial, fun _ ρ _ => ⟨trivial, ?_⟩⟩
      simp only [den, denList_eq_map_b, realNum_zero]
      exact (List.prod_eq_zero (List.mem_map.mpr ⟨_, he0, by simp [den]⟩)).symm
    · cases h
  | _ => simp [ruleMulZero] at h

/-- dropping factors that denote 1 from a product -/
theorem filter_mul_refines (f : Flags) (p : Expr ℝ → Bool) (as : List (Expr ℝ))
    (hp : ∀ e ∈ as, p e = false → ∀ ρ, den ρ e = 1) :
    Refines (.mul f as) (mkMul (as.filter p)) := by
  refine ⟨?_, ?_, ?_⟩
  · simp only [WF, wfList_iff]
    exact fun h e he => h e (List.mem_filter.mp he).1
  · intro pt; simp only [Supp, suppList_iff]
    exact fun h e he => h e (List.mem_filter.mp he).1
  · intro _ ρ hd
    simp only [Dom, domList_iff] at hd ⊢
    refine ⟨fun e he => hd e (List.mem_filter.mp he).1, ?_⟩
    simp only [den, denList_eq_map_b]
    exact prod_map_filter_of_one (den ρ) p as fun e he hpe => hp e he hpe ρ

/-- `Multiply(…, 1, …) ⇒ Multiply(…, …)` -/
theorem mulOnes_refines {e e' : Expr ℝ} (h : ruleMulOnes realNum e = some e') : Refines e e' := by
  cases e with
  | mul f as =>
    simp only [ruleMulOnes] at h
    split at h
    · cases h
    · simp only [Option.some.injEq] at h
      subst h
      apply filter_mul_refines
      intro e _ hpe ρ
      simp only [Bool.not_eq_false'] at hpe
      obtain ⟨g, v, rfl, hv⟩ := isConstSuch_true_b hpe
      simpa [den] using hv
  | _ => simp [ruleMulOnes] at h

theorem prod_map_neg' {β : Type} (f : β → ℝ) (l : List β) :
    (l.map fun x => -f x).prod = (-1) ^ l.length * (l.map f).prod := by
  induction l with
  | nil => simp
  | cons a l ih => simp only [List.map_cons, List.prod_cons, List.length_cons, ih, pow_succ]; ring

/-- the `Negation` factors of a product lose their sign; an odd count is made up for by a factor −1 -/
theorem mulNegs_refines {e e' : Expr ℝ} (h : ruleMulNegs realNum e = some e') : Refines e e' := by
  cases e with
  | mul f as =>
    have hmem : ∀ u ∈ as.filterMap asNeg, ∃ g, Expr.neg g u ∈ as := by
      intro u hu
      obtain ⟨e, he, hs⟩ := List.mem_filterMap.mp hu
      obtain ⟨g, rfl⟩ := asNeg_eq_some' hs
      exact ⟨g, he⟩
    have hpart : ∀ ρ, ((as.map (den ρ)).prod =
        ((as.filter fun e => (asNeg e).isNone).map (den ρ)).prod *
          ((-1) ^ (as.filterMap asNeg).length * ((as.filterMap asNeg).map (den ρ)).prod)) := by
      intro ρ
      rw [prod_map_partition (den ρ) asNeg (fun u => -den ρ u) (fun e u hs => by
        obtain ⟨g, rfl⟩ := asNeg_eq_some' hs; simp [den]) as, prod_map_neg']
    have hwf : WFList as → WFList ((as.filter fun e => (asNeg e).isNone) ++ as.filterMap asNeg) := by
      simp only [wfList_iff, List.mem_append]
      rintro h e (he | he)
      · exact h e (List.mem_filter.mp he).1
      · obtain ⟨g, hg⟩ := hmem e he
        simpa [WF] using h _ hg
    have hsupp : ∀ pt : Point ℝ, SuppList pt as →
        SuppList pt ((as.filter fun e => (asNeg e).isNone) ++ as.filterMap asNeg) := by
      intro pt
      simp only [suppList_iff, List.mem_append]
      rintro h e (he | he)
      · exact h e (List.mem_filter.mp he).1
      · obtain ⟨g, hg⟩ := hmem e he
        simpa [Supp] using h _ hg
    have hdom : ∀ ρ, DomList ρ as →
        DomList ρ ((as.filter fun e => (asNeg e).isNone) ++ as.filterMap asNeg) := by
      intro ρ
      simp only [domList_iff, List.mem_append]
      rintro h e (he | he)
      · exact h e (List.mem_filter.mp he).1
      · obtain ⟨g, hg⟩ := hmem e he
        simpa [Dom] using h _ hg
    simp only [ruleMulNegs] at h
    split at h
    · cases h
    · split at h
      · next _ heven =>
        simp only [Option.some.injEq] at h
        subst h
        refine ⟨hwf, hsupp, fun _ ρ hd => ⟨hdom ρ hd, ?_⟩⟩
        simp only [den, denList_eq_map_b, List.map_append, List.prod_append]
        rw [hpart ρ, Even.neg_one_pow (Nat.even_iff.mpr heven), one_mul]
      · next _ hodd =>
        simp only [Option.some.injEq] at h
        subst h
        refine ⟨?_, ?_, fun _ ρ hd => ⟨?_, ?_⟩⟩
        · intro hw
          exact (wfList_append _ _).mpr ⟨hwf hw, by simp [WFList, WF]⟩
        · intro pt hs
          exact (suppList_append pt _ _).mpr ⟨hsupp pt hs, by simp [SuppList, Supp]⟩
        · exact (domList_append ρ _ _).mpr ⟨hdom ρ hd, by simp [DomList, Dom]⟩
        · simp only [den, denList_eq_map_b, List.map_append, List.prod_append, List.map_cons,
            List.map_nil, List.prod_cons, List.prod_nil, realNum_negOne, mul_one]
          rw [hpart ρ, Odd.neg_one_pow (Nat.odd_iff.mpr (by omega))]
          ring
  | _ => simp [ruleMulNegs] at h

theorem prod_pow_map (ρ : String → ℝ) (n : ℕ) (us : List (Expr ℝ)) :
    (us.map (den ρ)).prod ^ n = (us.map fun u => den ρ u ^ n).prod := by
  induction us with
  | nil => simp
  | cons u us ih => simp only [List.map_cons, List.prod_cons, mul_pow, ih]

theorem mulNPows_ok : ConsolidateOK asNPow (fun n u => mkNPow u n)
    (fun n inners => mkNPow (mkMul inners) n) where
  sel_sem e n u hs := by
    obtain ⟨g, rfl⟩ := asNPow_eq_some hs
    exact sameSem_setFlags {} _
  build_wf n us hne hwf := by
    obtain ⟨u0, hu0⟩ := List.exists_mem_of_ne_nil us hne
    have h0 := hwf u0 hu0
    simp only [WF] at h0 hwf ⊢
    exact ⟨h0.1, (wfList_iff us).mpr fun u hu => (hwf u hu).2⟩
  build_supp p n us hs := by
    simp only [Supp] at hs ⊢
    exact (suppList_iff p us).mpr hs
  build_dom ρ n us _ _ hd := by
    simp only [Dom] at hd ⊢
    exact (domList_iff ρ us).mpr hd

/-- `Multiply(…, xⁿ, …, yⁿ, …) ⇒ Multiply(…, (x·y)ⁿ)`, per exponent -/
theorem mulNPows_refines {e e' : Expr ℝ} (h : ruleMulNPows e = some e') : Refines e e' := by
  cases e with
  | mul f as =>
    simp only [ruleMulNPows, Option.map_eq_some_iff] at h
    obtain ⟨as', hs, rfl⟩ := h
    refine consolidate_mul_refines mulNPows_ok ?_ nat_beq_sound f hs
    intro ρ n us _ _ _
    simp only [den, denList_eq_map_b]
    exact prod_pow_map ρ n us
  | _ => simp [ruleMulNPows] at h

theorem mulNRoots_ok : ConsolidateOK asNRoot (fun n u => mkNRoot u n)
    (fun n inners => mkNRoot (mkMul inners) n) where
  sel_sem e n u hs := by
    obtain ⟨g, rfl⟩ := asNRoot_eq_some hs
    exact sameSem_setFlags {} _
  build_wf n us hne hwf := by
    obtain ⟨u0, hu0⟩ := List.exists_mem_of_ne_nil us hne
    have h0 := hwf u0 hu0
    simp only [WF] at h0 hwf ⊢
    exact ⟨h0.1, (wfList_iff us).mpr fun u hu => (hwf u hu).2⟩
  build_supp p n us hs := by
    simp only [Supp] at hs ⊢
    exact (suppList_iff p us).mpr hs
  build_dom ρ n us _ _ hd := by
    simp only [Dom] at hd ⊢
    refine ⟨(domList_iff ρ us).mpr fun u hu => (hd u hu).1, ?_⟩
    simp only [den, denList_eq_map_b]
    exact rootOK_list_prod _ fun a ha => by
      obtain ⟨v, hv, rfl⟩ := List.mem_map.mp ha
      exact (hd v hv).2

/-- `Multiply(…, ⁿ√x, …, ⁿ√y, …) ⇒ Multiply(…, ⁿ√(x·y))`, per root degree -/
theorem mulNRoots_refines {e e' : Expr ℝ} (h : ruleMulNRoots e = some e') : Refines e e' := by
  cases e with
  | mul f as =>
    simp only [ruleMulNRoots, Option.map_eq_some_iff] at h
    obtain ⟨as', hs, rfl⟩ := h
    refine consolidate_mul_refines mulNRoots_ok ?_ nat_beq_sound f hs
    intro ρ n us hne hwf _
    obtain ⟨u0, hu0⟩ := List.exists_mem_of_ne_nil us hne
    have hn : 1 ≤ n := (hwf u0 hu0).1
    simp only [den, denList_eq_map_b]
    rw [sroot_list_prod hn, List.map_map]
    rfl
  | _ => simp [ruleMulNRoots] at h

theorem exp_sum_mul (ρ : String → ℝ) (b : ℝ) (us : List (Expr ℝ)) :
    Real.exp ((us.map (den ρ)).sum * Real.log b) =
      (us.map fun u => Real.exp (den ρ u * Real.log b)).prod := by
  induction us with
  | nil => simp
  | cons u us ih => simp only [List.map_cons, List.sum_cons, List.prod_cons, add_mul, Real.exp_add, ih]

theorem mulExps_ok : ConsolidateOK asExp (fun b u => mkExp u b)
    (fun b inners => mkExp (mkAdd inners) b) where
  sel_sem e b u hs := by
    obtain ⟨g, rfl⟩ := asExp_eq_some hs
    exact sameSem_setFlags {} _
  build_wf b us hne hwf := by
    obtain ⟨u0, hu0⟩ := List.exists_mem_of_ne_nil us hne
    have h0 := hwf u0 hu0
    simp only [WF] at h0 hwf ⊢
    exact ⟨h0.1, (wfList_iff us).mpr fun u hu => (hwf u hu).2⟩
  build_supp p b us hs := by
    simp only [Supp] at hs ⊢
    exact (suppList_iff p us).mpr hs
  build_dom ρ b us _ _ hd := by
    simp only [Dom] at hd ⊢
    exact (domList_iff ρ us).mpr hd

/-- `Multiply(…, bˣ, …, bʸ, …) ⇒ Multiply(…, b^(x+y))`, per base -/
theorem mulExps_refines {e e' : Expr ℝ} (h : ruleMulExps realNum e = some e') : Refines e e' := by
  cases e with
  | mul f as =>
    simp only [ruleMulExps, Option.map_eq_some_iff] at h
    obtain ⟨as', hs, rfl⟩ := h
    refine consolidate_mul_refines mulExps_ok ?_ realNum_eq_sound f hs
    intro ρ b us _ _ _
    simp only [den, denList_eq_map_b]
    exact exp_sum_mul ρ b us
  | _ => simp [ruleMulExps] at h

/-- the constants of a product are replaced by one constant, their product, appended last -/
theorem mulConsts_refines {e e' : Expr ℝ} (h : ruleMulConsts realNum e = some e') :
    Refines e e' := by
  cases e with
  | mul f as =>
    simp only [ruleMulConsts] at h
    split at h
    · cases h
    · simp only [Option.some.injEq] at h
      subst h
      refine ⟨?_, ?_, ?_⟩
      · simp only [WF, wfList_iff, List.mem_append, List.mem_singleton]
        rintro h e (he | rfl)
        · exact h e (List.mem_filter.mp he).1
        · trivial
      · intro pt
        simp only [Supp, suppList_iff, List.mem_append, List.mem_singleton]
        rintro h e (he | rfl)
        · exact h e (List.mem_filter.mp he).1
        · trivial
      · intro _ ρ hd
        simp only [Dom, domList_iff, List.mem_append, List.mem_singleton] at hd ⊢
        refine ⟨?_, ?_⟩
        · rintro e (he | rfl)
          · exact hd e (List.mem_filter.mp he).1
          · trivial
        · simp only [den, denList_eq_map_b, List.map_append, List.prod_append, List.map_cons,
            List.map_nil, List.prod_cons, List.prod_nil, mul_one, mfMultiply_real]
          rw [prod_map_partition (den ρ) asConst id (fun e v hs => by
            obtain ⟨g, rfl⟩ := asConst_eq_some hs; simp [den]) as]
          simp
  | _ => simp [ruleMulConsts] at h

/-! ### the twelve, by `RuleId` -/

/-- the rules of `Add` and `Multiply` -/
def RuleId.isNary : RuleId → Bool
  | .addFlatten | .addZeros | .addLogs | .addConsts | .mulFlatten | .mulZero | .mulOnes | .mulNegs
  | .mulNPows | .mulNRoots | .mulExps | .mulConsts => true
  | _ => false

/-- **every rewrite rule of `Add` and `Multiply` is sound, unconditionally** -/
theorem nary_rule_refines {r : RuleId} (hr : r.isNary = true) {e e' : Expr ℝ}
    (h : r.apply realNum e = some e') : Refines e e' := by
  cases r <;> simp only [RuleId.isNary, Bool.false_eq_true] at hr <;> simp only [RuleId.apply] at h
  · exact addFlatten_refines h
  · exact addZeros_refines h
  · exact addLogs_refines h
  · exact addConsts_refines h
  · exact mulFlatten_refines h
  · exact mulZero_refines h
  · exact mulOnes_refines h
  · exact mulNegs_refines h
  · exact mulNPows_refines h
  · exact mulNRoots_refines h
  · exact mulExps_refines h
  · exact mulConsts_refines h

end Smooth
