/-
The number instances the driver actually runs never answer `missing` from a primitive:
`qeNum` (exact rationals) answers a value or `unsupported`; `fbNum mode` (doubles with an error
bound) always answers a value.  Hence every `NoMissing`-conditional statement of Proofs/Coords.lean
holds for the runs the correspondence check compares with the implementation.
-/
import Smooth.Model.Instances
import Smooth.Proofs.Coords

namespace Smooth

private theorem ne_missing_of_pure {β : Type} (a : β) : (pure a : R β) ≠ .error .missing :=
  fun h => by cases h
private theorem ne_missing_of_unsupported {β : Type} :
    (throw Err.unsupported : R β) ≠ .error .missing := fun h => by cases h

theorem noMissing_fbNum (mode : Nat) : NoMissing (fbNum mode) where
  rpow _ _ := ne_missing_of_pure _
  sqrt _ := ne_missing_of_pure _
  cbrt _ := ne_missing_of_pure _
  logb _ _ := ne_missing_of_pure _
  sin _ := ne_missing_of_pure _
  cos _ := ne_missing_of_pure _

theorem noMissing_qeNum : NoMissing qeNum where
  rpow x y := by
    simp only [qeNum]
    repeat' split
    all_goals first | exact ne_missing_of_pure _ | exact ne_missing_of_unsupported
  sqrt x := by
    simp only [qeNum]
    repeat' split
    all_goals first | exact ne_missing_of_pure _ | exact ne_missing_of_unsupported
  cbrt x := by
    simp only [qeNum]
    repeat' split
    all_goals first | exact ne_missing_of_pure _ | exact ne_missing_of_unsupported
  logb x b := by
    simp only [qeNum]
    repeat' split
    all_goals first | exact ne_missing_of_pure _ | exact ne_missing_of_unsupported
  sin x := by
    simp only [qeNum]
    repeat' split
    all_goals first | exact ne_missing_of_pure _ | exact ne_missing_of_unsupported
  cos x := by
    simp only [qeNum]
    repeat' split
    all_goals first | exact ne_missing_of_pure _ | exact ne_missing_of_unsupported

end Smooth
