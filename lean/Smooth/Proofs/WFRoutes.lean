/-
Proofs/WFRoutes — the error kinds of every public differentiation route (C17 for the object layer).

For a well-formed expression, each of the thirteen numeric routes of Model/Routes.lean can only fail
with the library's own errors: `DomainError` (`.domain`), `CoordinateMissing` (`.missing`), for the
`Derivative` routes the documented generic exception (`.usage`, two or more variables) — or with
`.fuel`, the model's artefact for "the structural fuel of `normalizeF` ran out".  The routes through a
stored (simplified) expression evaluate that expression; `evalG` has only the errors `.domain` and
`.missing` on WELL-FORMED trees, which is why `Proofs/WFDriver` (simplification keeps `WF`,
unconditionally) is what this file rests on.
-/
import Smooth.Proofs.WFDriver

namespace Smooth
open Classical Expr

/-! ### plumbing -/

/-- an error of `x >>= f` is an error of `x` or an error of `f` on the value of `x` -/
theorem wfd_bind_error {β γ : Type} {x : R β} {f : β → R γ} {err : Err}
    (h : (x >>= f) = .error err) : x = .error err ∨ ∃ a, x = .ok a ∧ f a = .error err := by
  cases x with
  | error e1 =>
    simp only [bind, Except.bind] at h
    injection h with h
    exact Or.inl (by rw [h])
  | ok a => exact Or.inr ⟨a, rfl, h⟩

/-- the library's own errors of the routes that take a variable name, plus the model's `fuel` -/
def ErrPartialRoute (err : Err) : Prop := err = .domain ∨ err = .missing ∨ err = .fuel

/-- … and of the `Derivative` routes: additionally the documented generic exception -/
def ErrDerivativeRoute (err : Err) : Prop :=
  err = .domain ∨ err = .missing ∨ err = .fuel ∨ err = .usage

theorem ErrPartialRoute.of_dm {err : Err} (h : err = .domain ∨ err = .missing) :
    ErrPartialRoute err := h.elim Or.inl fun h => Or.inr (Or.inl h)

theorem ErrPartialRoute.fuel : ErrPartialRoute .fuel := Or.inr (Or.inr rfl)

theorem ErrPartialRoute.toDerivative {err : Err} (h : ErrPartialRoute err) :
    ErrDerivativeRoute err := by
  rcases h with h | h | h
  · exact Or.inl h
  · exact Or.inr (Or.inl h)
  · exact Or.inr (Or.inr (Or.inl h))

theorem wfd_evalG_error {p : Point ℝ} {e : Expr ℝ} (hwf : WF e) {err : Err}
    (h : evalG realNum p e = .error err) : err = .domain ∨ err = .missing :=
  (evalR_good p e hwf).error_cases h

theorem wfd_fwdG_error {p : Point ℝ} {x : String} {e : Expr ℝ} (hwf : WF e) {err : Err}
    (h : fwdG realNum p x e = .error err) : err = .domain ∨ err = .missing :=
  (fwdR_spec p x e hwf).2.2 err h

theorem wfd_numericPartials_error {p : Point ℝ} {e : Expr ℝ} (hwf : WF e) {err : Err}
    (h : numericPartials realNum p e = .error err) : err = .domain ∨ err = .missing := by
  unfold numericPartials at h
  rcases wfd_bind_error h with h | ⟨a, _, h⟩
  · exact (revR_spec p e hwf _ _).2.2 err h
  · cases h

theorem wfd_singleVarName_error {α : Type} {e : Expr α} {err : Err}
    (h : singleVarName e = .error err) : err = .usage := by
  unfold singleVarName at h
  split at h
  · cases h
  · cases h
  · injection h with h; exact h.symm

/-- evaluating every entry of a table of well-formed expressions -/
theorem wfd_evalAll_error {p : Point ℝ} : ∀ {d : SAcc ℝ}, SAccWF d → ∀ {err : Err},
    evalAll realNum p d = .error err → err = .domain ∨ err = .missing
  | [], _, err, h => by cases h
  | (x, s) :: rest, hd, err, h => by
    unfold evalAll at h
    rcases wfd_bind_error h with h | ⟨v, _, h⟩
    · exact wfd_evalG_error (hd (x, s) List.mem_cons_self) h
    · rcases wfd_bind_error h with h | ⟨vs, _, h⟩
      · exact wfd_evalAll_error (fun q hq => hd q (List.mem_cons_of_mem _ hq)) h
      · cases h

/-! ### the three bodies -/

/-- normalise the forward symbolic partial, evaluate the original, evaluate the stored tree -/
theorem wfd_viaStored_error {e : Expr ℝ} {x : String} {p : Point ℝ} (hwf : WF e) {err : Err}
    (h : routeViaStored realNum e x p = .error err) : ErrPartialRoute err := by
  unfold routeViaStored at h
  rcases wfd_bind_error h with h | ⟨⟨s, w⟩, hret, h⟩
  · rw [routes_retrieve_error realNum e x err h]; exact .fuel
  · rcases wfd_bind_error h with h | ⟨v, _, h⟩
    · exact .of_dm (wfd_evalG_error hwf h)
    · exact .of_dm (wfd_evalG_error (wfd_retrieve hret hwf) h)

/-- `component_at` on an early `Differential` -/
theorem wfd_viaComponent_error {e : Expr ℝ} {x : String} {p : Point ℝ} (hwf : WF e) {err : Err}
    (h : routeViaComponent realNum e x p = .error err) : ErrPartialRoute err := by
  unfold routeViaComponent at h
  rcases wfd_bind_error h with h | ⟨⟨d, w⟩, hn, h⟩
  · rw [routes_normalizeAll_error realNum _ err h]; exact .fuel
  · simp only at h
    cases hg : SAcc.get? d x with
    | none =>
      simp only [hg] at h
      exact .of_dm (wfd_fwdG_error hwf h)
    | some s =>
      simp only [hg] at h
      rcases wfd_bind_error h with h | ⟨v, _, h⟩
      · exact .of_dm (wfd_evalG_error hwf h)
      · exact .of_dm (wfd_evalG_error (SAccWF_get? (wfd_differential_table hn hwf) hg) h)

/-- a `Derivative` route is the `Partial` route in the single variable, or the usage error -/
theorem wfd_derivative_error {e : Expr ℝ} {route : String → R ℝ} {err : Err}
    (hroute : ∀ x err, route x = .error err → ErrPartialRoute err)
    (h : (do let x ← singleVarName e; route x) = .error err) : ErrDerivativeRoute err := by
  rcases wfd_bind_error h with h | ⟨x, _, h⟩
  · exact Or.inr (Or.inr (Or.inr (wfd_singleVarName_error h)))
  · exact (hroute x err h).toDerivative

/-! ### the thirteen routes -/

section routes
variable {e : Expr ℝ} {x : String} {p : Point ℝ} {err : Err}

theorem wfd_routePL_error (hwf : WF e) (h : routePL realNum e x p = .error err) :
    ErrPartialRoute err := by
  rw [routePL_eq] at h; exact .of_dm (wfd_fwdG_error hwf h)

theorem wfd_routePE_error (hwf : WF e) (h : routePE realNum e x p = .error err) :
    ErrPartialRoute err := by
  rw [routePE_eq] at h; exact wfd_viaStored_error hwf h

theorem wfd_routePA_error (hwf : WF e) (h : routePA realNum e x p = .error err) :
    ErrPartialRoute err := by
  rw [routePA_eq] at h; exact wfd_viaStored_error hwf h

theorem wfd_routeDL_error (hwf : WF e) (h : routeDL realNum e p = .error err) :
    ErrDerivativeRoute err := by
  rw [routeDL_eq] at h
  exact wfd_derivative_error (fun _ _ h => wfd_routePL_error hwf h) h

theorem wfd_routeDE_error (hwf : WF e) (h : routeDE realNum e p = .error err) :
    ErrDerivativeRoute err := by
  rw [routeDE_eq] at h
  exact wfd_derivative_error (fun _ _ h => wfd_routePE_error hwf h) h

theorem wfd_routeDA_error (hwf : WF e) (h : routeDA realNum e p = .error err) :
    ErrDerivativeRoute err := by
  rw [routeDA_eq] at h
  exact wfd_derivative_error (fun _ _ h => wfd_routePA_error hwf h) h

theorem wfd_routeFCL_error (hwf : WF e) (h : routeFCL realNum e x p = .error err) :
    ErrPartialRoute err := by
  rw [routeFCL_eq] at h; exact .of_dm (wfd_fwdG_error hwf h)

theorem wfd_routeFCAL_error (hwf : WF e) (h : routeFCAL realNum e x p = .error err) :
    ErrPartialRoute err := by
  rw [routeFCAL_eq] at h; exact .of_dm (wfd_fwdG_error hwf h)

theorem wfd_routeFCAE_error (hwf : WF e) (h : routeFCAE realNum e x p = .error err) :
    ErrPartialRoute err := by
  rw [routeFCAE_eq] at h; exact wfd_viaComponent_error hwf h

theorem wfd_routeFCE_error (hwf : WF e) (h : routeFCE realNum e x p = .error err) :
    ErrPartialRoute err := by
  rw [routeFCE_eq_routeFCAE] at h; exact wfd_routeFCAE_error hwf h

theorem wfd_routeLD_error (hwf : WF e) (h : routeLD realNum e x p = .error err) :
    ErrPartialRoute err := by
  rw [routeLD_eq] at h
  rcases wfd_bind_error h with h | ⟨d, _, h⟩
  · exact .of_dm (wfd_numericPartials_error hwf h)
  · cases h

theorem wfd_routeFATL_error (hwf : WF e) (h : routeFATL realNum e x p = .error err) :
    ErrPartialRoute err := by
  rw [routeFATL_eq] at h
  rcases wfd_bind_error h with h | ⟨v, _, h⟩
  · exact .of_dm (wfd_evalG_error hwf h)
  · exact wfd_routeLD_error hwf h

theorem wfd_routeFATE_error (hwf : WF e) (h : routeFATE realNum e x p = .error err) :
    ErrPartialRoute err := by
  rw [routeFATE_eq] at h
  rcases wfd_bind_error h with h | ⟨⟨d, w⟩, hn, h⟩
  · rw [routes_normalizeAll_error realNum _ err h]; exact .fuel
  · rcases wfd_bind_error h with h | ⟨v, _, h⟩
    · exact .of_dm (wfd_evalG_error hwf h)
    · rcases wfd_bind_error h with h | ⟨vals, _, h⟩
      · exact .of_dm (wfd_evalAll_error (wfd_differential_table hn hwf) h)
      · cases h

/-- the late routes never touch the simplifier: no `.fuel` -/
theorem wfd_late_routes_error (hwf : WF e) :
    (routePL realNum e x p = .error err → err = .domain ∨ err = .missing) ∧
    (routeFCL realNum e x p = .error err → err = .domain ∨ err = .missing) ∧
    (routeFCAL realNum e x p = .error err → err = .domain ∨ err = .missing) ∧
    (routeFATL realNum e x p = .error err → err = .domain ∨ err = .missing) ∧
    (routeLD realNum e x p = .error err → err = .domain ∨ err = .missing) ∧
    (routeDL realNum e p = .error err → err = .domain ∨ err = .missing ∨ err = .usage) := by
  have hLD : routeLD realNum e x p = .error err → err = .domain ∨ err = .missing := by
    intro h
    rw [routeLD_eq] at h
    rcases wfd_bind_error h with h | ⟨d, _, h⟩
    · exact wfd_numericPartials_error hwf h
    · cases h
  refine ⟨fun h => wfd_fwdG_error hwf (by rwa [routePL_eq] at h),
    fun h => wfd_fwdG_error hwf (by rwa [routeFCL_eq] at h),
    fun h => wfd_fwdG_error hwf (by rwa [routeFCAL_eq] at h), fun h => ?_, hLD, fun h => ?_⟩
  · rw [routeFATL_eq] at h
    rcases wfd_bind_error h with h | ⟨v, _, h⟩
    · exact wfd_evalG_error hwf h
    · exact hLD h
  · rw [routeDL_eq] at h
    rcases wfd_bind_error h with h | ⟨y, _, h⟩
    · exact Or.inr (Or.inr (wfd_singleVarName_error h))
    · rw [routePL_eq] at h
      rcases wfd_fwdG_error hwf h with h | h
      · exact Or.inl h
      · exact Or.inr (Or.inl h)

/-- the thirteen numeric routes, as functions of `(e, x, p)` (the `Derivative` routes ignore `x`) -/
noncomputable def numericRoutes : List (Expr ℝ → String → Point ℝ → R ℝ) :=
  [routePL realNum, routePE realNum, routePA realNum,
    fun e _ p => routeDL realNum e p, fun e _ p => routeDE realNum e p,
    fun e _ p => routeDA realNum e p,
    routeFCL realNum, routeFCE realNum, routeFCAL realNum, routeFCAE realNum,
    routeFATL realNum, routeFATE realNum, routeLD realNum]

theorem wfd_numericRoutes_error (hwf : WF e) :
    ∀ route ∈ numericRoutes, route e x p = .error err → ErrDerivativeRoute err := by
  intro route hr h
  simp only [numericRoutes, List.mem_cons, List.not_mem_nil, or_false] at hr
  rcases hr with rfl | rfl | rfl | rfl | rfl | rfl | rfl | rfl | rfl | rfl | rfl | rfl | rfl
  · exact (wfd_routePL_error hwf h).toDerivative
  · exact (wfd_routePE_error hwf h).toDerivative
  · exact (wfd_routePA_error hwf h).toDerivative
  · exact wfd_routeDL_error hwf h
  · exact wfd_routeDE_error hwf h
  · exact wfd_routeDA_error hwf h
  · exact (wfd_routeFCL_error hwf h).toDerivative
  · exact (wfd_routeFCE_error hwf h).toDerivative
  · exact (wfd_routeFCAL_error hwf h).toDerivative
  · exact (wfd_routeFCAE_error hwf h).toDerivative
  · exact (wfd_routeFATL_error hwf h).toDerivative
  · exact (wfd_routeFATE_error hwf h).toDerivative
  · exact (wfd_routeLD_error hwf h).toDerivative

/-- no route ever produces a CPython-level error or `unsupported` -/
theorem wfd_numericRoutes_no_python_error (hwf : WF e) :
    ∀ route ∈ numericRoutes, ∀ k ∈ [Err.zeroDiv, .valueErr, .complex, .unsupported],
      route e x p ≠ .error k := by
  intro route hr k hk h
  rcases wfd_numericRoutes_error hwf route hr h with rfl | rfl | rfl | rfl <;> simp at hk

theorem wfd_numericRoutes_named (hwf : WF e) (k : Err)
    (hk : k = .zeroDiv ∨ k = .valueErr ∨ k = .complex ∨ k = .unsupported) :
    routePL realNum e x p ≠ .error k ∧ routePE realNum e x p ≠ .error k ∧
    routePA realNum e x p ≠ .error k ∧ routeDL realNum e p ≠ .error k ∧
    routeDE realNum e p ≠ .error k ∧ routeDA realNum e p ≠ .error k ∧
    routeFCL realNum e x p ≠ .error k ∧ routeFCE realNum e x p ≠ .error k ∧
    routeFCAL realNum e x p ≠ .error k ∧ routeFCAE realNum e x p ≠ .error k ∧
    routeFATL realNum e x p ≠ .error k ∧ routeFATE realNum e x p ≠ .error k ∧
    routeLD realNum e x p ≠ .error k := by
  have hk' : k ∈ [Err.zeroDiv, .valueErr, .complex, .unsupported] := by
    rcases hk with rfl | rfl | rfl | rfl <;> simp
  have key := fun route hr => wfd_numericRoutes_no_python_error (x := x) (p := p) hwf route hr k hk'
  refine ⟨key _ ?_, key _ ?_, key _ ?_, key (fun e _ p => routeDL realNum e p) ?_,
    key (fun e _ p => routeDE realNum e p) ?_, key (fun e _ p => routeDA realNum e p) ?_,
    key _ ?_, key _ ?_, key _ ?_, key _ ?_, key _ ?_, key _ ?_, key _ ?_⟩ <;>
  simp [numericRoutes]

end routes

/-! ### the six expression routes: nothing is evaluated -/

section exprRoutes
variable {e : Expr ℝ} {x : String} {err : Err}

/-- these hold for every number instance and every expression, well formed or not -/
theorem wfd_routeExprP_error {α : Type} (N : Num α) {e : Expr α} {x : String} {err : Err}
    (h : routeExprP N e x = .error err) : err = .fuel := by
  rw [routeExprP_eq] at h; exact routes_retrieve_error N e x err h

theorem wfd_routeExprPE_error {α : Type} (N : Num α) {e : Expr α} {x : String} {err : Err}
    (h : routeExprPE N e x = .error err) : err = .fuel := by
  rw [routeExprPE_eq] at h; exact routes_retrieve_error N e x err h

theorem wfd_routeExprFL_error {α : Type} (N : Num α) {e : Expr α} {x : String} {err : Err}
    (h : routeExprFL N e x = .error err) : err = .fuel := by
  rw [routeExprFL_eq] at h; exact routes_retrieve_error N e x err h

theorem wfd_routeExprD_error {α : Type} (N : Num α) {e : Expr α} {err : Err}
    (h : routeExprD N e = .error err) : err = .fuel ∨ err = .usage := by
  rw [routeExprD_eq] at h
  rcases wfd_bind_error h with h | ⟨x, _, h⟩
  · exact Or.inr (wfd_singleVarName_error h)
  · exact Or.inl (routes_retrieve_error N e x err h)

theorem wfd_routeExprDE_error {α : Type} (N : Num α) {e : Expr α} {err : Err}
    (h : routeExprDE N e = .error err) : err = .fuel ∨ err = .usage := by
  rw [routeExprDE_eq] at h
  rcases wfd_bind_error h with h | ⟨x, _, h⟩
  · exact Or.inr (wfd_singleVarName_error h)
  · exact Or.inl (routes_retrieve_error N e x err h)

theorem wfd_routeExprFE_error {α : Type} (N : Num α) {e : Expr α} {x : String} {err : Err}
    (h : routeExprFE N e x = .error err) : err = .fuel := by
  rw [routeExprFE_eq] at h
  rcases wfd_bind_error h with h | ⟨⟨d, w⟩, _, h⟩
  · exact routes_normalizeAll_error N _ err h
  · simp only at h
    cases hg : SAcc.get? d x with
    | none =>
      simp only [hg] at h
      rcases wfd_bind_error h with h | ⟨sw, _, h⟩
      · exact routes_retrieve_error N e x err h
      · cases h
    | some s =>
      simp only [hg] at h
      cases h

/-- `get_the_single_variable_name` fails exactly on two or more variables -/
theorem wfd_singleVarName_error_iff {α : Type} (e : Expr α) :
    singleVarName e = .error .usage ↔ 2 ≤ e.vars.length := by
  unfold singleVarName
  split
  · next h => simp [h, pure, Except.pure]
  · next y h => simp [h, pure, Except.pure]
  · next h1 h2 =>
    constructor
    · intro _
      match hv : e.vars, h1, h2 with
      | [], h1, _ => exact absurd rfl h1
      | [y], _, h2 => exact absurd rfl (h2 y)
      | _ :: _ :: _, _, _ => simp
    · intro _; rfl

theorem wfd_bind_singleVar_usage_iff {α : Type} (N : Num α) (e : Expr α) :
    (do let x ← singleVarName e; retrieveSyntheticPartial N e x) = .error .usage ↔
      2 ≤ e.vars.length := by
  rw [← wfd_singleVarName_error_iff]
  constructor
  · intro h
    rcases wfd_bind_error h with h | ⟨x, _, h⟩
    · exact h
    · cases routes_retrieve_error N e x _ h
  · intro h; rw [h]; rfl

theorem wfd_routeExprD_usage_iff {α : Type} (N : Num α) (e : Expr α) :
    routeExprD N e = .error .usage ↔ 2 ≤ e.vars.length := by
  rw [routeExprD_eq]; exact wfd_bind_singleVar_usage_iff N e

theorem wfd_routeExprDE_usage_iff {α : Type} (N : Num α) (e : Expr α) :
    routeExprDE N e = .error .usage ↔ 2 ≤ e.vars.length := by
  rw [routeExprDE_eq]; exact wfd_bind_singleVar_usage_iff N e

end exprRoutes

end Smooth
