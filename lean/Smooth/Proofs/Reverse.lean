/-
Proofs/Reverse — reverse mode (`revG`, the model of `_compute_numeric_partials` with its
accumulator) over the reals: one traversal with multiplier `m` adds `m ·` (the forward-mode partial)
to the accumulator entry of *every* variable at once; outside the domain it answers `DomainError`.
Together with Proofs/Forward this makes every component the true partial derivative.
-/
import Smooth.Proofs.Forward

namespace Smooth
open Classical

/-- accumulator entry, absent = 0 (`dict.get(name, 0)`) -/
def getA (acc : Acc ℝ) (y : String) : ℝ := (Acc.get? acc y).getD 0

theorem get?_set (acc : Acc ℝ) (x z : String) (v : ℝ) :
    Acc.get? (Acc.set acc x v) z = if z = x then some v else Acc.get? acc z := by
  induction acc with
  | nil =>
    simp only [Acc.set, Acc.get?, Point.get?]
    by_cases h : z = x
    · subst h; simp
    · have : (x == z) = false := by simpa using fun h' => h h'.symm
      simp [h, this]
  | cons hd tl ih =>
    obtain ⟨y, w⟩ := hd
    simp only [Acc.set]
    by_cases hyx : y = x
    · subst hyx
      simp only [beq_self_eq_true, if_true, Acc.get?, Point.get?]
      by_cases h : z = y
      · subst h; simp
      · have : (y == z) = false := by simpa using fun h' => h h'.symm
        simp [h, this]
    · have hyx' : (y == x) = false := by simpa using hyx
      simp only [hyx', Bool.false_eq_true, if_false, Acc.get?, Point.get?]
      by_cases hyz : y = z
      · subst hyz
        have : ¬ y = x := hyx
        simp [this]
      · have : (y == z) = false := by simpa using hyz
        simp only [this, Bool.false_eq_true, if_false]
        exact ih

theorem getA_addTo (acc : Acc ℝ) (y z : String) (m : ℝ) :
    getA (Acc.addTo realNum acc y m) z = getA acc z + (if z = y then m else 0) := by
  unfold getA Acc.addTo
  rw [get?_set]
  by_cases h : z = y
  · subst h; simp
  · simp [h]

/-- specification of one reverse-mode traversal -/
def RevSpec (p : Point ℝ) (e : Expr ℝ) (r : R (Acc ℝ)) (m : ℝ) (acc : Acc ℝ) : Prop :=
  (Supp p e → Dom (valOf p) e →
      ∃ acc', r = .ok acc' ∧
        ∀ y d, fwdG realNum p y e = .ok d → getA acc' y = getA acc y + m * d) ∧
  (Supp p e → ¬ Dom (valOf p) e → r = .error .domain) ∧
  (∀ err, r = .error err → err = .domain ∨ err = .missing)

theorem revSpec_of_error {p : Point ℝ} {e : Expr ℝ} {err : Err} {m : ℝ} {acc : Acc ℝ}
    (h1 : ¬ (Supp p e ∧ Dom (valOf p) e)) (h2 : Supp p e → err = .domain)
    (h3 : err = .domain ∨ err = .missing) : RevSpec p e (.error err) m acc := by
  refine ⟨fun hs hd => absurd ⟨hs, hd⟩ h1, fun hs _ => by rw [h2 hs], ?_⟩
  intro err' h; injection h with h; subst h; exact h3

/-- sequencing two traversals (`Minus`, `Divide`, `Power`, the list loops) -/
theorem revSpec_seq {p : Point ℝ} {e1 e2 : Expr ℝ} {m1 m2 : ℝ} {acc : Acc ℝ}
    {f : Acc ℝ → R (Acc ℝ)} {r1 : R (Acc ℝ)}
    (h1 : RevSpec p e1 r1 m1 acc) (h2 : ∀ a, RevSpec p e2 (f a) m2 a)
    (hs1 : Supp p e1) (hd1 : Dom (valOf p) e1) (hs2 : Supp p e2) (hd2 : Dom (valOf p) e2) :
    ∃ acc', (r1 >>= f) = .ok acc' ∧
      ∀ y d1 d2, fwdG realNum p y e1 = .ok d1 → fwdG realNum p y e2 = .ok d2 →
        getA acc' y = getA acc y + m1 * d1 + m2 * d2 := by
  obtain ⟨a1, hr1, ha1⟩ := h1.1 hs1 hd1
  obtain ⟨a2, hr2, ha2⟩ := (h2 a1).1 hs2 hd2
  refine ⟨a2, by simp [hr1, bind, Except.bind, hr2], ?_⟩
  intro y d1 d2 hf1 hf2
  rw [ha2 y d2 hf2, ha1 y d1 hf1]

/-! ### what forward mode computes at a node, given its operands (inversion lemmas) -/

theorem fwd_unary_value {p : Point ℝ} {y : String} {e u : Expr ℝ} (G : ℝ → Prop) [DecidablePred G]
    (c : ℝ → ℝ)
    (hfwdeq : fwdG realNum p y e = (do
      let a ← evalG realNum p u
      unaryVerify realNum e a
      let d ← fwdG realNum p y u
      unaryFormula realNum p e d))
    (hev : evalG realNum p u = .ok (den (valOf p) u)) (hg : G (den (valOf p) u))
    (hverify : ∀ a, unaryVerify realNum e a = if G a then .ok () else .error .domain)
    (hformula : ∀ m, unaryFormula realNum p e m = .ok (c (den (valOf p) u) * m))
    {d : ℝ} (hd : fwdG realNum p y e = .ok d) :
    ∃ du, fwdG realNum p y u = .ok du ∧ d = c (den (valOf p) u) * du := by
  rw [hfwdeq] at hd
  simp only [hev, bind, Except.bind, hverify, hg, if_true] at hd
  cases hu : fwdG realNum p y u with
  | error err => rw [hu] at hd; cases hd
  | ok du =>
    rw [hu] at hd
    simp only [hformula] at hd
    injection hd with hd
    exact ⟨du, rfl, hd.symm⟩

/-- the shared shape of the eight unary classes in reverse mode -/
theorem rev_unary_spec {p : Point ℝ} {e u : Expr ℝ} (G : ℝ → Prop) [DecidablePred G] (c : ℝ → ℝ)
    (hgood : Good (Supp p u) (Dom (valOf p) u) (evalG realNum p u) (den (valOf p) u))
    (ihr : ∀ m acc, RevSpec p u (revG realNum p u m acc) m acc)
    (hS : Supp p e ↔ Supp p u) (hD : Dom (valOf p) e ↔ Dom (valOf p) u ∧ G (den (valOf p) u))
    (hverify : ∀ a, unaryVerify realNum e a = if G a then .ok () else .error .domain)
    (hformula : Supp p u → Dom (valOf p) u → G (den (valOf p) u) →
      ∀ m, unaryFormula realNum p e m = .ok (c (den (valOf p) u) * m))
    (hfwdeq : ∀ y, fwdG realNum p y e = (do
      let a ← evalG realNum p u
      unaryVerify realNum e a
      let d ← fwdG realNum p y u
      unaryFormula realNum p e d))
    (m : ℝ) (acc : Acc ℝ) :
    RevSpec p e (do
      let a ← evalG realNum p u
      unaryVerify realNum e a
      let m' ← unaryFormula realNum p e m
      revG realNum p u m' acc) m acc := by
  cases hev : evalG realNum p u with
  | error err =>
    obtain ⟨h1, h2, h3⟩ := good_error_facts hgood hev
    simp only [bind, Except.bind]
    exact revSpec_of_error (fun h => h1 ⟨hS.mp h.1, (hD.mp h.2).1⟩) (fun h => h2 (hS.mp h)) h3
  | ok a =>
    obtain ⟨hs, hd, ha⟩ := hgood.ok_iff.mp hev
    subst ha
    by_cases hg : G (den (valOf p) u)
    · have hfm := hformula hs hd hg
      simp only [bind, Except.bind, hverify, hg, if_true, hfm]
      have ih := ihr (c (den (valOf p) u) * m) acc
      refine ⟨fun _ _ => ?_, fun _ hnd => absurd (hD.mpr ⟨hd, hg⟩) hnd, ih.2.2⟩
      obtain ⟨acc', hr, hacc⟩ := ih.1 hs hd
      refine ⟨acc', hr, fun y d hfy => ?_⟩
      obtain ⟨du, hdu, hdd⟩ := fwd_unary_value G c (hfwdeq y) hev hg hverify hfm hfy
      rw [hacc y du hdu, hdd]; ring
    · simp only [bind, Except.bind, hverify, hg, if_false]
      exact revSpec_of_error (fun h => hg (hD.mp h.2).2) (fun _ => rfl) (Or.inl rfl)

/-! ### lists -/

/-- `Add` : the same multiplier goes to every term -/
def RevSpecL (p : Point ℝ) (es : List (Expr ℝ)) (r : R (Acc ℝ)) (m : ℝ) (acc : Acc ℝ) : Prop :=
  (SuppList p es → DomList (valOf p) es →
      ∃ acc', r = .ok acc' ∧
        ∀ y ds, fwdListG realNum p y es = .ok ds → getA acc' y = getA acc y + m * ds.sum) ∧
  (SuppList p es → ¬ DomList (valOf p) es → r = .error .domain) ∧
  (∀ err, r = .error err → err = .domain ∨ err = .missing)

/-- `Multiply` : term `k` gets `m ·` the product of all other values; `pre` are the values of the
factors already handled -/
def RevSpecM (p : Point ℝ) (pre : List ℝ) (es : List (Expr ℝ)) (r : R (Acc ℝ)) (m : ℝ)
    (acc : Acc ℝ) : Prop :=
  (SuppList p es → DomList (valOf p) es →
      ∃ acc', r = .ok acc' ∧
        ∀ y ds, fwdListG realNum p y es = .ok ds →
          getA acc' y = getA acc y + m * (pre.prod * prodDeriv ds (denList (valOf p) es))) ∧
  (SuppList p es → ¬ DomList (valOf p) es → r = .error .domain) ∧
  (∀ err, r = .error err → err = .domain ∨ err = .missing)

theorem fwdList_ok_of {p : Point ℝ} {y : String} {es : List (Expr ℝ)} (hwf : WFList es)
    (hs : SuppList p es) (hd : DomList (valOf p) es) : ∃ ds, fwdListG realNum p y es = .ok ds := by
  obtain ⟨ds, h, _⟩ := (fwdR_spec_list p y es hwf).1 hs hd
  exact ⟨ds, h⟩

theorem fwd_ok_of {p : Point ℝ} {y : String} {e : Expr ℝ} (hwf : WF e)
    (hs : Supp p e) (hd : Dom (valOf p) e) : ∃ d, fwdG realNum p y e = .ok d := by
  obtain ⟨d, h, _⟩ := (fwdR_spec p y e hwf).1 hs hd
  exact ⟨d, h⟩

/-! ### the induction -/

theorem fwdG_div_value {p : Point ℝ} {y : String} {g : Flags} {l r : Expr ℝ}
    (he1 : evalG realNum p l = .ok (den (valOf p) l)) (he2 : evalG realNum p r = .ok (den (valOf p) r))
    (hz : den (valOf p) r ≠ 0) {dl dr : ℝ} (h1 : fwdG realNum p y l = .ok dl)
    (h2 : fwdG realNum p y r = .ok dr) :
    fwdG realNum p y (.div g l r) =
      .ok (dl / den (valOf p) r + -(den (valOf p) l / den (valOf p) r ^ 2) * dr) := by
  have hsq : den (valOf p) r ^ 2 ≠ 0 := pow_ne_zero 2 hz
  simp only [fwdG, bind, Except.bind, verifyDivide, realNum_isZero, hz, decide_false,
    Bool.false_eq_true, if_false, pure, Except.pure, h1, h2, divFormulaLeft,
    divFormulaRight, he1, he2, mfDivide_real hz, nthPower_local (by norm_num : 1 ≤ 2),
    mfDivide_real hsq, mfNegation_real, mfMultiply_real, mfAdd_real, List.prod_cons,
    List.prod_nil, List.sum_cons, List.sum_nil, mul_one, add_zero]

theorem powGeneral_value {p : Point ℝ} {y : String} {g : Flags} {l r : Expr ℝ}
    (hwf : WF (.pow g l r)) (hs : Supp p (.pow g l r)) (hd : Dom (valOf p) (.pow g l r))
    {dl dr : ℝ} (h1 : fwdG realNum p y l = .ok dl) (h2 : fwdG realNum p y r = .ok dr) :
    powGeneralBlock p y g l r =
      .ok (den (valOf p) r * (den (valOf p) l ^ (den (valOf p) r - 1) * dl) +
        Real.log (den (valOf p) l) *
          (Real.exp (den (valOf p) r * Real.log (den (valOf p) l)) * dr)) := by
  obtain ⟨hs1, hs2⟩ := hs
  obtain ⟨hd1, hd2, hpos⟩ := hd
  have he1 := (evalR_good p l hwf.1).ok_iff.mpr ⟨hs1, hd1, rfl⟩
  have he2 := (evalR_good p r hwf.2).ok_iff.mpr ⟨hs2, hd2, rfl⟩
  have hne : den (valOf p) l ≠ 0 := ne_of_gt hpos
  have hnn : ¬ den (valOf p) l < 0 := not_lt.mpr hpos.le
  have hself : evalG realNum p (.pow g l r) =
      .ok (Real.exp (den (valOf p) r * Real.log (den (valOf p) l))) :=
    (evalR_good p _ hwf).ok_iff.mpr ⟨⟨hs1, hs2⟩, ⟨hd1, hd2, hpos⟩, rfl⟩
  simp only [powGeneralBlock, bind, Except.bind, verifyPower, realNum_isZero, hne, decide_false,
    Bool.false_eq_true, if_false, realNum_isNeg, hnn, pure, Except.pure, h1, h2,
    powFormulaLeft, powFormulaRight, he1, he2, hself, mfPower_pos hpos, mfMinus_real,
    realNum_one, mfLogarithm_base_e hpos, realNum_e, mfMultiply_real, List.prod_cons,
    List.prod_nil, mul_one, realNum_add]

/-- the part of `Power._compute_numeric_partials` after the short-cut test -/
noncomputable def revPowGeneralBlock (p : Point ℝ) (g : Flags) (l r : Expr ℝ) (m : ℝ)
    (acc : Acc ℝ) : R (Acc ℝ) := do
  let a ← evalG realNum p l
  let b ← evalG realNum p r
  verifyPower realNum a b
  let ml ← powFormulaLeft realNum p l r m
  let mr ← powFormulaRight realNum p (.pow g l r) l m
  let acc ← revG realNum p l ml acc
  revG realNum p r mr acc

theorem revG_pow_eq (p : Point ℝ) (g : Flags) (l r : Expr ℝ) (m : ℝ) (acc : Acc ℝ) :
    revG realNum p (.pow g l r) m acc =
      (powShortcut realNum p l >>= fun b =>
        if b then (evalG realNum p (.pow g l r) >>= fun _ => pure acc)
        else revPowGeneralBlock p g l r m acc) := by
  simp only [revG, revPowGeneralBlock]

theorem rev_pow_general (p : Point ℝ) (g : Flags) (l r : Expr ℝ) (hwf : WF (.pow g l r))
    (ih1 : ∀ m acc, RevSpec p l (revG realNum p l m acc) m acc)
    (ih2 : ∀ m acc, RevSpec p r (revG realNum p r m acc) m acc)
    (hfwdeq : ∀ y, fwdG realNum p y (.pow g l r) = powGeneralBlock p y g l r)
    (m : ℝ) (acc : Acc ℝ) :
    RevSpec p (.pow g l r) (revPowGeneralBlock p g l r m acc) m acc := by
  have g1 := evalR_good p l hwf.1
  have g2 := evalR_good p r hwf.2
  unfold revPowGeneralBlock
  cases he1 : evalG realNum p l with
  | error err =>
    obtain ⟨h1, h2, h3⟩ := good_error_facts g1 he1
    simp only [bind, Except.bind]
    exact revSpec_of_error (fun h => h1 ⟨h.1.1, h.2.1⟩) (fun h => h2 h.1) h3
  | ok a =>
    obtain ⟨hs1, hd1, ha⟩ := g1.ok_iff.mp he1
    subst ha
    cases he2 : evalG realNum p r with
    | error err =>
      obtain ⟨h1, h2, h3⟩ := good_error_facts g2 he2
      simp only [bind, Except.bind]
      exact revSpec_of_error (fun h => h1 ⟨h.1.2, h.2.2.1⟩) (fun h => h2 h.2) h3
    | ok b =>
      obtain ⟨hs2, hd2, hb⟩ := g2.ok_iff.mp he2
      subst hb
      by_cases hpos : 0 < den (valOf p) l
      · have hne : den (valOf p) l ≠ 0 := ne_of_gt hpos
        have hnn : ¬ den (valOf p) l < 0 := not_lt.mpr hpos.le
        have hself : evalG realNum p (.pow g l r) =
            .ok (Real.exp (den (valOf p) r * Real.log (den (valOf p) l))) :=
          (evalR_good p _ hwf).ok_iff.mpr ⟨⟨hs1, hs2⟩, ⟨hd1, hd2, hpos⟩, rfl⟩
        simp only [bind, Except.bind, verifyPower, realNum_isZero, hne, decide_false,
          Bool.false_eq_true, if_false, realNum_isNeg, hnn, pure, Except.pure,
          powFormulaLeft, powFormulaRight, he1, he2, hself, mfPower_pos hpos, mfMinus_real,
          realNum_one, mfLogarithm_base_e hpos, realNum_e, mfMultiply_real, List.prod_cons,
          List.prod_nil, mul_one]
        have i1 := ih1 (den (valOf p) r * (den (valOf p) l ^ (den (valOf p) r - 1) * m)) acc
        have i2 := fun a => ih2 (Real.log (den (valOf p) l) *
          (Real.exp (den (valOf p) r * Real.log (den (valOf p) l)) * m)) a
        refine ⟨fun hs hd => ?_, fun _ hnd => absurd ⟨hd1, hd2, hpos⟩ hnd, fun err h => ?_⟩
        · obtain ⟨acc', hr, hacc⟩ := revSpec_seq i1 i2 hs1 hd1 hs2 hd2
          refine ⟨acc', hr, fun y d h => ?_⟩
          obtain ⟨d1, h1⟩ := fwd_ok_of (y := y) hwf.1 hs1 hd1
          obtain ⟨d2, h2⟩ := fwd_ok_of (y := y) hwf.2 hs2 hd2
          rw [hfwdeq y, powGeneral_value hwf hs hd h1 h2] at h
          injection h with h; subst h
          rw [hacc y d1 d2 h1 h2]
          ring
        · cases hr1 : revG realNum p l
              (den (valOf p) r * (den (valOf p) l ^ (den (valOf p) r - 1) * m)) acc with
          | error e1 =>
            simp only [hr1, bind, Except.bind] at h
            injection h with h; subst h; exact i1.2.2 _ hr1
          | ok a1 =>
            simp only [hr1, bind, Except.bind] at h
            exact (i2 a1).2.2 _ h
      · have : (if den (valOf p) l = 0 then (Except.error Err.domain : R Unit)
            else if den (valOf p) l < 0 then .error .domain else .ok ()) = .error .domain := by
          rcases lt_or_eq_of_le (not_lt.mp hpos) with h | h
          · simp [ne_of_lt h, h]
          · simp [h]
        simp only [bind, Except.bind, verifyPower, realNum_isZero, realNum_isNeg,
          decide_eq_true_eq, throw, throwThe, MonadExceptOf.throw, pure, Except.pure, this]
        exact revSpec_of_error (fun h => hpos h.2.2.2) (fun _ => rfl) (Or.inl rfl)

mutual
theorem revR_spec (p : Point ℝ) : ∀ e : Expr ℝ, WF e → ∀ (m : ℝ) (acc : Acc ℝ),
    RevSpec p e (revG realNum p e m acc) m acc
  | .const _ v, _, m, acc => by
    simp only [revG, pure, Except.pure]
    refine ⟨fun _ _ => ⟨acc, rfl, fun y d h => ?_⟩, fun _ h => absurd trivial h, fun _ h => by cases h⟩
    simp only [fwdG, pure, Except.pure, realNum_zero] at h
    injection h with h; subst h; simp
  | .var g z, _, m, acc => by
    simp only [revG, pure, Except.pure]
    refine ⟨fun _ _ => ⟨_, rfl, fun y d h => ?_⟩, fun _ h => absurd trivial h, fun _ h => by cases h⟩
    rw [getA_addTo]
    simp only [fwdG] at h
    by_cases hzy : z = y
    · subst hzy
      simp only [beq_self_eq_true, if_true, pure, Except.pure, realNum_one] at h
      injection h with h; subst h; simp
    · have hb : (z == y) = false := by simpa using hzy
      have hyz : ¬ y = z := fun h' => hzy h'.symm
      simp only [hb, Bool.false_eq_true, if_false, pure, Except.pure, realNum_zero] at h
      injection h with h; subst h; simp [hyz]
  | .add _ as, hwf, m, acc => by
    have ih := revR_spec_list p as hwf m acc
    simp only [revG]
    refine ⟨fun hs hd => ?_, ih.2.1, ih.2.2⟩
    obtain ⟨acc', hr, hacc⟩ := ih.1 hs hd
    refine ⟨acc', hr, fun y d h => ?_⟩
    obtain ⟨ds, hds⟩ := fwdList_ok_of (y := y) hwf hs hd
    simp only [fwdG, hds, bind, Except.bind, pure, Except.pure, mfAdd_real] at h
    injection h with h; subst h
    exact hacc y ds hds
  | .minus _ l r, hwf, m, acc => by
    have ih1 := revR_spec p l hwf.1 m acc
    have ih2 := fun a => revR_spec p r hwf.2 (-m) a
    simp only [revG, mfNegation_real]
    refine ⟨fun hs hd => ?_, fun hs hd => ?_, fun err h => ?_⟩
    · obtain ⟨acc', hr, hacc⟩ := revSpec_seq ih1 ih2 hs.1 hd.1 hs.2 hd.2
      refine ⟨acc', hr, fun y d h => ?_⟩
      obtain ⟨d1, h1⟩ := fwd_ok_of (y := y) hwf.1 hs.1 hd.1
      obtain ⟨d2, h2⟩ := fwd_ok_of (y := y) hwf.2 hs.2 hd.2
      simp only [fwdG, h1, h2, bind, Except.bind, pure, Except.pure, mfMinus_real] at h
      injection h with h; subst h
      rw [hacc y d1 d2 h1 h2]; ring
    · by_cases hdl : Dom (valOf p) l
      · obtain ⟨a1, hr1, _⟩ := ih1.1 hs.1 hdl
        have hdr : ¬ Dom (valOf p) r := fun h => hd ⟨hdl, h⟩
        simp only [hr1, bind, Except.bind]
        exact (ih2 a1).2.1 hs.2 hdr
      · have := ih1.2.1 hs.1 hdl
        simp only [this, bind, Except.bind]
    · cases hr1 : revG realNum p l m acc with
      | error e1 =>
        simp only [hr1, bind, Except.bind] at h
        injection h with h; subst h; exact ih1.2.2 _ hr1
      | ok a1 =>
        simp only [hr1, bind, Except.bind] at h
        exact (ih2 a1).2.2 _ h
  | .neg g u, hwf, m, acc => by
    simp only [revG]
    exact rev_unary_spec (e := .neg g u) (u := u) (fun _ => True) (fun _ => -1) (evalR_good p u hwf)
      (revR_spec p u hwf) Iff.rfl (by simp [Dom]) (verify_total _ (fun a => rfl))
      (fun _ _ _ m => neg_formula m) (fun y => by simp only [fwdG]) m acc
  | .recip g u, hwf, m, acc => by
    simp only [revG]
    exact rev_unary_spec (e := .recip g u) (u := u) (fun a => a ≠ 0) (fun a => -(a ^ 2)⁻¹) (evalR_good p u hwf)
      (revR_spec p u hwf) Iff.rfl Iff.rfl (fun a => verifyReciprocal_real a)
      (fun hs hd hg m => recip_formula hs hd hwf hg m) (fun y => by simp only [fwdG]) m acc
  | .npow g u n, hwf, m, acc => by
    simp only [revG]
    exact rev_unary_spec (e := .npow g u n) (u := u) (fun _ => True) (fun a => n * a ^ (n - 1)) (evalR_good p u hwf.2)
      (revR_spec p u hwf.2) Iff.rfl (by simp [Dom]) (verify_total _ (fun a => rfl))
      (fun hs hd _ m => npow_formula hs hd hwf.2 hwf.1 m) (fun y => by simp only [fwdG]) m acc
  | .nroot g u n, hwf, m, acc => by
    simp only [revG]
    exact rev_unary_spec (e := .nroot g u n) (u := u) (RootOK n) (fun a => if n = 1 then 1 else (n * sroot n a ^ (n - 1))⁻¹)
      (evalR_good p u hwf.2) (revR_spec p u hwf.2) Iff.rfl Iff.rfl
      (fun a => verifyNthRoot_real n a) (fun hs hd hg m => nroot_formula hs hd hwf.2 hwf.1 hg m)
      (fun y => by simp only [fwdG]) m acc
  | .exp g u b, hwf, m, acc => by
    simp only [revG]
    exact rev_unary_spec (e := .exp g u b) (u := u) (fun _ => True) (fun a => Real.log b * Real.exp (a * Real.log b))
      (evalR_good p u hwf.2) (revR_spec p u hwf.2) Iff.rfl (by simp [Dom])
      (verify_total _ (fun a => rfl)) (fun hs hd _ m => exp_formula hs hd hwf.2 hwf.1 m)
      (fun y => by simp only [fwdG]) m acc
  | .log g u b, hwf, m, acc => by
    simp only [revG]
    exact rev_unary_spec (e := .log g u b) (u := u) (fun a => 0 < a) (fun a => (a * Real.log b)⁻¹)
      (evalR_good p u hwf.2.2) (revR_spec p u hwf.2.2) Iff.rfl Iff.rfl
      (fun a => verifyLogarithm_real a)
      (fun hs hd hg m => log_formula hs hd hwf.2.2 hwf.1 hwf.2.1 hg m)
      (fun y => by simp only [fwdG]) m acc
  | .cos g u, hwf, m, acc => by
    simp only [revG]
    exact rev_unary_spec (e := .cos g u) (u := u) (fun _ => True) (fun a => -Real.sin a) (evalR_good p u hwf)
      (revR_spec p u hwf) Iff.rfl (by simp [Dom]) (verify_total _ (fun a => rfl))
      (fun hs hd _ m => cos_formula hs hd hwf m) (fun y => by simp only [fwdG]) m acc
  | .sin g u, hwf, m, acc => by
    simp only [revG]
    exact rev_unary_spec (e := .sin g u) (u := u) (fun _ => True) (fun a => Real.cos a) (evalR_good p u hwf)
      (revR_spec p u hwf) Iff.rfl (by simp [Dom]) (verify_total _ (fun a => rfl))
      (fun hs hd _ m => sin_formula hs hd hwf m) (fun y => by simp only [fwdG]) m acc
  | .mul _ as, hwf, m, acc => by
    have hgood := evalR_good_list p as hwf
    simp only [revG]
    cases hev : evalListG realNum p as with
    | error err =>
      obtain ⟨h1, h2, h3⟩ := good_error_facts hgood hev
      simp only [bind, Except.bind]
      exact revSpec_of_error h1 h2 h3
    | ok vs =>
      obtain ⟨hs, hd, hvs⟩ := hgood.ok_iff.mp hev
      subst hvs
      have ih := revR_spec_mul p [] as hwf m acc
      simp only [List.nil_append, List.length_nil] at ih
      simp only [bind, Except.bind]
      refine ⟨fun _ _ => ?_, fun _ hnd => absurd hd hnd, ih.2.2⟩
      obtain ⟨acc', hr, hacc⟩ := ih.1 hs hd
      refine ⟨acc', hr, fun y d h => ?_⟩
      obtain ⟨ds, hds⟩ := fwdList_ok_of (y := y) hwf hs hd
      have hlen : ds.length = (denList (valOf p) as).length := by
        obtain ⟨ds', h', hder⟩ := (fwdR_spec_list p y as hwf).1 hs hd
        rw [hds] at h'; injection h' with h'; subst h'
        simpa [denList_eq_map] using hder.length_eq.symm
      simp only [fwdG, hev, hds, bind, Except.bind, pure, Except.pure, mulTerms_sum ds _ hlen] at h
      injection h with h; subst h
      have := hacc y ds hds
      simpa using this
  | .div g l r, hwf, m, acc => by
    have g1 := evalR_good p l hwf.1
    have g2 := evalR_good p r hwf.2
    simp only [revG]
    cases he1 : evalG realNum p l with
    | error err =>
      obtain ⟨h1, h2, h3⟩ := good_error_facts g1 he1
      simp only [bind, Except.bind]
      exact revSpec_of_error (fun h => h1 ⟨h.1.1, h.2.1⟩) (fun h => h2 h.1) h3
    | ok a =>
      obtain ⟨hs1, hd1, ha⟩ := g1.ok_iff.mp he1
      subst ha
      cases he2 : evalG realNum p r with
      | error err =>
        obtain ⟨h1, h2, h3⟩ := good_error_facts g2 he2
        simp only [bind, Except.bind]
        exact revSpec_of_error (fun h => h1 ⟨h.1.2, h.2.2.1⟩) (fun h => h2 h.2) h3
      | ok b =>
        obtain ⟨hs2, hd2, hb⟩ := g2.ok_iff.mp he2
        subst hb
        by_cases hz : den (valOf p) r = 0
        · simp only [bind, Except.bind, verifyDivide, realNum_isZero, hz, decide_true, if_true,
            throw, throwThe, MonadExceptOf.throw]
          exact revSpec_of_error (fun h => h.2.2.2 hz) (fun _ => rfl) (Or.inl rfl)
        · have hsq : den (valOf p) r ^ 2 ≠ 0 := pow_ne_zero 2 hz
          simp only [bind, Except.bind, verifyDivide, realNum_isZero, hz, decide_false,
            Bool.false_eq_true, if_false, pure, Except.pure, divFormulaLeft,
            divFormulaRight, he1, he2, mfDivide_real hz, nthPower_local (by norm_num : 1 ≤ 2),
            mfDivide_real hsq, mfNegation_real, mfMultiply_real, List.prod_cons,
            List.prod_nil, mul_one]
          have ih1 := revR_spec p l hwf.1 (m / den (valOf p) r) acc
          have ih2 := fun a => revR_spec p r hwf.2
            (-(den (valOf p) l / den (valOf p) r ^ 2) * m) a
          refine ⟨fun _ _ => ?_, fun _ hnd => absurd ⟨hd1, hd2, hz⟩ hnd, fun err h => ?_⟩
          · obtain ⟨acc', hr, hacc⟩ := revSpec_seq ih1 ih2 hs1 hd1 hs2 hd2
            refine ⟨acc', hr, fun y d h => ?_⟩
            obtain ⟨d1, h1⟩ := fwd_ok_of (y := y) hwf.1 hs1 hd1
            obtain ⟨d2, h2⟩ := fwd_ok_of (y := y) hwf.2 hs2 hd2
            rw [fwdG_div_value he1 he2 hz h1 h2] at h
            injection h with h; subst h
            rw [hacc y d1 d2 h1 h2]
            field_simp
            ring
          · cases hr1 : revG realNum p l (m / den (valOf p) r) acc with
            | error e1 =>
              simp only [hr1, bind, Except.bind] at h
              injection h with h; subst h; exact ih1.2.2 _ hr1
            | ok a1 =>
              simp only [hr1, bind, Except.bind] at h
              exact (ih2 a1).2.2 _ h
  | .pow g l r, hwf, m, acc => by
    have g1 := evalR_good p l hwf.1
    have gself := evalR_good p (.pow g l r) hwf
    rw [revG_pow_eq]
    unfold powShortcut
    by_cases hv : l.vars.isEmpty
    · simp only [hv, if_true]
      cases he1 : evalG realNum p l with
      | error err =>
        obtain ⟨h1, h2, h3⟩ := good_error_facts g1 he1
        simp only [bind, Except.bind]
        exact revSpec_of_error (fun h => h1 ⟨h.1.1, h.2.1⟩) (fun h => h2 h.1) h3
      | ok a =>
        obtain ⟨hs1, hd1, ha⟩ := g1.ok_iff.mp he1
        subst ha
        by_cases hone : den (valOf p) l = 1
        · simp only [bind, Except.bind, pure, Except.pure, realNum_eq, realNum_one, hone,
            decide_true, if_true]
          cases hes : evalG realNum p (.pow g l r) with
          | error err =>
            obtain ⟨h1, h2, h3⟩ := good_error_facts gself hes
            exact revSpec_of_error h1 h2 h3
          | ok s =>
            obtain ⟨hs, hd, _⟩ := gself.ok_iff.mp hes
            refine ⟨fun _ _ => ⟨acc, rfl, fun y d h => ?_⟩, fun _ hnd => absurd hd hnd,
              fun _ h => by cases h⟩
            -- forward mode takes the same short-cut
            rw [fwdG_pow_eq] at h
            simp only [powShortcut, hv, if_true, he1, bind, Except.bind, pure, Except.pure,
              realNum_eq, realNum_one, hone, decide_true, hes, realNum_zero] at h
            injection h with h; subst h; simp
        · simp only [bind, Except.bind, pure, Except.pure, realNum_eq, realNum_one, hone,
            decide_false, Bool.false_eq_true, if_false]
          exact rev_pow_general p g l r hwf (fun m acc => revR_spec p l hwf.1 m acc)
            (fun m acc => revR_spec p r hwf.2 m acc)
            (fun y => by
              rw [fwdG_pow_eq]
              simp only [powShortcut, hv, if_true, he1, bind, Except.bind, pure, Except.pure,
                realNum_eq, realNum_one, hone, decide_false, Bool.false_eq_true, if_false]) m acc
    · simp only [hv, Bool.false_eq_true, if_false, bind, Except.bind, pure, Except.pure]
      exact rev_pow_general p g l r hwf (fun m acc => revR_spec p l hwf.1 m acc)
        (fun m acc => revR_spec p r hwf.2 m acc)
        (fun y => by
          rw [fwdG_pow_eq]
          simp only [powShortcut, hv, Bool.false_eq_true, if_false, bind, Except.bind, pure,
            Except.pure]) m acc
theorem revR_spec_list (p : Point ℝ) : ∀ es : List (Expr ℝ), WFList es → ∀ (m : ℝ) (acc : Acc ℝ),
    RevSpecL p es (revListG realNum p es m acc) m acc
  | [], _, m, acc => by
    simp only [revListG, pure, Except.pure]
    refine ⟨fun _ _ => ⟨acc, rfl, fun y ds h => ?_⟩, fun _ h => absurd trivial h,
      fun _ h => by cases h⟩
    simp only [fwdListG, pure, Except.pure] at h
    injection h with h; subst h; simp
  | e :: es, hwf, m, acc => by
    have ih1 := revR_spec p e hwf.1 m acc
    have ih2 := fun a => revR_spec_list p es hwf.2 m a
    simp only [revListG]
    refine ⟨fun hs hd => ?_, fun hs hd => ?_, fun err h => ?_⟩
    · obtain ⟨a1, hr1, ha1⟩ := ih1.1 hs.1 hd.1
      obtain ⟨a2, hr2, ha2⟩ := (ih2 a1).1 hs.2 hd.2
      refine ⟨a2, by simp only [bind, Except.bind, hr1, hr2], fun y ds h => ?_⟩
      obtain ⟨d, h1⟩ := fwd_ok_of (y := y) hwf.1 hs.1 hd.1
      obtain ⟨ds', h2⟩ := fwdList_ok_of (y := y) hwf.2 hs.2 hd.2
      simp only [fwdListG, h1, h2, bind, Except.bind, pure, Except.pure] at h
      injection h with h; subst h
      rw [ha2 y ds' h2, ha1 y d h1, List.sum_cons]; ring
    · by_cases hde : Dom (valOf p) e
      · obtain ⟨a1, hr1, _⟩ := ih1.1 hs.1 hde
        have hdes : ¬ DomList (valOf p) es := fun h => hd ⟨hde, h⟩
        simp only [hr1, bind, Except.bind]
        exact (ih2 a1).2.1 hs.2 hdes
      · have := ih1.2.1 hs.1 hde
        simp only [this, bind, Except.bind]
    · cases hr1 : revG realNum p e m acc with
      | error e1 =>
        simp only [hr1, bind, Except.bind] at h
        injection h with h; subst h; exact ih1.2.2 _ hr1
      | ok a1 =>
        simp only [hr1, bind, Except.bind] at h
        exact (ih2 a1).2.2 _ h
theorem revR_spec_mul (p : Point ℝ) : ∀ (pre : List ℝ) (es : List (Expr ℝ)), WFList es →
    ∀ (m : ℝ) (acc : Acc ℝ),
    RevSpecM p pre es
      (revMulG realNum p (pre ++ denList (valOf p) es) m pre.length es acc) m acc
  | pre, [], _, m, acc => by
    simp only [revMulG, pure, Except.pure]
    refine ⟨fun _ _ => ⟨acc, rfl, fun y ds h => ?_⟩, fun _ h => absurd trivial h,
      fun _ h => by cases h⟩
    simp only [fwdListG, pure, Except.pure] at h
    injection h with h; subst h; simp [prodDeriv]
  | pre, e :: es, hwf, m, acc => by
    have herase : (pre ++ denList (valOf p) (e :: es)).eraseIdx pre.length =
        pre ++ denList (valOf p) es := by
      rw [List.eraseIdx_append_of_length_le (le_refl _)]
      simp [denList]
    have ih1 := revR_spec p e hwf.1
      (mfMultiply realNum (m :: (pre ++ denList (valOf p) (e :: es)).eraseIdx pre.length)) acc
    have ih2 := fun a => revR_spec_mul p (pre ++ [den (valOf p) e]) es hwf.2 m a
    have hpre : pre ++ [den (valOf p) e] ++ denList (valOf p) es =
        pre ++ denList (valOf p) (e :: es) := by simp [denList]
    simp only [revMulG]
    simp only [hpre, List.length_append, List.length_singleton] at ih2
    refine ⟨fun hs hd => ?_, fun hs hd => ?_, fun err h => ?_⟩
    · obtain ⟨a1, hr1, ha1⟩ := ih1.1 hs.1 hd.1
      obtain ⟨a2, hr2, ha2⟩ := (ih2 a1).1 hs.2 hd.2
      refine ⟨a2, by simp only [bind, Except.bind, hr1, hr2], fun y ds h => ?_⟩
      obtain ⟨d, h1⟩ := fwd_ok_of (y := y) hwf.1 hs.1 hd.1
      obtain ⟨ds', h2⟩ := fwdList_ok_of (y := y) hwf.2 hs.2 hd.2
      simp only [fwdListG, h1, h2, bind, Except.bind, pure, Except.pure] at h
      injection h with h; subst h
      rw [ha2 y ds' h2, ha1 y d h1, herase]
      simp only [mfMultiply_real, List.prod_cons, List.prod_append, List.prod_nil, mul_one,
        denList, prodDeriv]
      ring
    · by_cases hde : Dom (valOf p) e
      · obtain ⟨a1, hr1, _⟩ := ih1.1 hs.1 hde
        have hdes : ¬ DomList (valOf p) es := fun h => hd ⟨hde, h⟩
        simp only [hr1, bind, Except.bind]
        exact (ih2 a1).2.1 hs.2 hdes
      · have := ih1.2.1 hs.1 hde
        simp only [this, bind, Except.bind]
    · cases hr1 : revG realNum p e
          (mfMultiply realNum (m :: (pre ++ denList (valOf p) (e :: es)).eraseIdx pre.length))
          acc with
      | error e1 =>
        simp only [hr1, bind, Except.bind] at h
        injection h with h; subst h; exact ih1.2.2 _ hr1
      | ok a1 =>
        simp only [hr1, bind, Except.bind] at h
        exact (ih2 a1).2.2 _ h
end

end Smooth
