/-
Proofs/RulesUnary — soundness (C08) of the 34 rewrite rules of the unary and binary classes
(`Minus`, `Negation`, `Divide`, `Reciprocal`, `Power`, `NthPower`, `NthRoot`, `Exponential`,
`Logarithm`, `Cosine`, `Sine`): each rule, when it fires on `e` and yields `e'`, establishes
`Refines e e'` (well-formedness kept, no new variable, domain may only grow, same value on the
domain of `e`).

One recorded exception, K1: `ruleNRootPow` (`NthRoot(NthPower(u,m),n) ⇒ NthPower(NthRoot(u,n),m)`)
is unsound when `n` and `m` are both even; it is proved under `K1Free e` and the failure is exhibited
by `nrootPow_unsound`.
-/
import Smooth.Proofs.Refines
import Smooth.Proofs.SRoot

namespace Smooth
open Expr Classical

/-! ### helpers -/

theorem isConstSuch_true {α : Type} {pred : α → Bool} {e : Expr α} (h : isConstSuch pred e = true) :
    ∃ f v, e = .const f v ∧ pred v = true := by
  cases e <;> simp [isConstSuch, asConst] at h
  exact ⟨_, _, rfl, h⟩

theorem WFList_map_neg : ∀ as : List (Expr ℝ), WFList (as.map mkNeg) ↔ WFList as
  | [] => by simp [WFList]
  | a :: as => by simp only [List.map_cons, WFList, WF, WFList_map_neg as]

theorem SuppList_map_neg (p : Point ℝ) : ∀ as : List (Expr ℝ),
    SuppList p (as.map mkNeg) ↔ SuppList p as
  | [] => by simp [SuppList]
  | a :: as => by simp only [List.map_cons, SuppList, Supp, SuppList_map_neg p as]

theorem DomList_map_neg (ρ : String → ℝ) : ∀ as : List (Expr ℝ),
    DomList ρ (as.map mkNeg) ↔ DomList ρ as
  | [] => by simp [DomList]
  | a :: as => by simp only [List.map_cons, DomList, Dom, DomList_map_neg ρ as]

theorem denList_map_neg_sum (ρ : String → ℝ) : ∀ as : List (Expr ℝ),
    (denList ρ (as.map mkNeg)).sum = -(denList ρ as).sum
  | [] => by simp [denList]
  | a :: as => by
    simp only [List.map_cons, denList, den, List.sum_cons, denList_map_neg_sum ρ as]; ring

theorem WFList_map_recip : ∀ as : List (Expr ℝ), WFList (as.map mkRecip) ↔ WFList as
  | [] => by simp [WFList]
  | a :: as => by simp only [List.map_cons, WFList, WF, WFList_map_recip as]

theorem SuppList_map_recip (p : Point ℝ) : ∀ as : List (Expr ℝ),
    SuppList p (as.map mkRecip) ↔ SuppList p as
  | [] => by simp [SuppList]
  | a :: as => by simp only [List.map_cons, SuppList, Supp, SuppList_map_recip p as]

theorem DomList_map_recip (ρ : String → ℝ) : ∀ as : List (Expr ℝ),
    DomList ρ as → (denList ρ as).prod ≠ 0 → DomList ρ (as.map mkRecip)
  | [], _, _ => by simp [DomList]
  | a :: as, hd, hp => by
    simp only [denList, List.prod_cons] at hp
    simp only [DomList] at hd
    simp only [List.map_cons, DomList, Dom]
    exact ⟨⟨hd.1, left_ne_zero_of_mul hp⟩,
      DomList_map_recip ρ as hd.2 (right_ne_zero_of_mul hp)⟩

theorem denList_map_recip_prod (ρ : String → ℝ) : ∀ as : List (Expr ℝ),
    (denList ρ (as.map mkRecip)).prod = ((denList ρ as).prod)⁻¹
  | [] => by simp [denList]
  | a :: as => by
    simp only [List.map_cons, denList, den, List.prod_cons, denList_map_recip_prod ρ as, mul_inv]

/-! ### Minus, Negation -/

theorem minusToSum_refines (e e' : Expr ℝ) (h : ruleMinusToSum e = some e') : Refines e e' := by
  unfold ruleMinusToSum at h
  split at h
  · cases h
    refine ⟨?_, ?_, ?_⟩
    · simp only [WF, WFList]; tauto
    · intro p; simp only [Supp, SuppList]; tauto
    · intro _ ρ; simp only [Dom, DomList, den, denList]; intro hd
      refine ⟨by tauto, ?_⟩
      simp only [List.sum_cons, List.sum_nil]; ring
  · cases h

theorem negNeg_refines (e e' : Expr ℝ) (h : ruleNegNeg e = some e') : Refines e e' := by
  unfold ruleNegNeg at h
  split at h
  · cases h
    refine ⟨?_, ?_, ?_⟩
    · simp only [WF]; exact id
    · intro p; simp only [Supp]; exact id
    · intro _ ρ; simp only [Dom, den, neg_neg]; intro hd; exact ⟨hd, trivial⟩
  · cases h

theorem negSum_refines (e e' : Expr ℝ) (h : ruleNegSum e = some e') : Refines e e' := by
  unfold ruleNegSum at h
  split at h
  · cases h
    refine ⟨?_, ?_, ?_⟩
    · simp only [WF]; exact (WFList_map_neg _).mpr
    · intro p; simp only [Supp]; exact (SuppList_map_neg p _).mpr
    · intro _ ρ; simp only [Dom, den]; intro hd
      exact ⟨(DomList_map_neg ρ _).mpr hd, denList_map_neg_sum ρ _⟩
  · cases h

/-! ### Divide, Reciprocal -/

theorem divToMul_refines (e e' : Expr ℝ) (h : ruleDivToMul e = some e') : Refines e e' := by
  unfold ruleDivToMul at h
  split at h
  · cases h
    refine ⟨?_, ?_, ?_⟩
    · simp only [WF, WFList]; tauto
    · intro p; simp only [Supp, SuppList]; tauto
    · intro _ ρ; simp only [Dom, DomList, den, denList]; intro hd
      refine ⟨by tauto, ?_⟩
      simp only [List.prod_cons, List.prod_nil, mul_one, div_eq_mul_inv]
  · cases h

theorem recipRecip_refines (e e' : Expr ℝ) (h : ruleRecipRecip e = some e') : Refines e e' := by
  unfold ruleRecipRecip at h
  split at h
  · cases h
    refine ⟨?_, ?_, ?_⟩
    · simp only [WF]; exact id
    · intro p; simp only [Supp]; exact id
    · intro _ ρ; simp only [Dom, den, inv_inv]; intro hd; exact ⟨hd.1.1, trivial⟩
  · cases h

theorem recipNeg_refines (e e' : Expr ℝ) (h : ruleRecipNeg e = some e') : Refines e e' := by
  unfold ruleRecipNeg at h
  split at h
  · cases h
    refine ⟨?_, ?_, ?_⟩
    · simp only [WF]; exact id
    · intro p; simp only [Supp]; exact id
    · intro _ ρ; simp only [Dom, den]; intro hd
      exact ⟨⟨hd.1, neg_ne_zero.mp hd.2⟩, (inv_neg).symm⟩
  · cases h

theorem recipProd_refines (e e' : Expr ℝ) (h : ruleRecipProd e = some e') : Refines e e' := by
  unfold ruleRecipProd at h
  split at h
  · cases h
    refine ⟨?_, ?_, ?_⟩
    · simp only [WF]; exact (WFList_map_recip _).mpr
    · intro p; simp only [Supp]; exact (SuppList_map_recip p _).mpr
    · intro _ ρ; simp only [Dom, den]; intro hd
      exact ⟨DomList_map_recip ρ _ hd.1 hd.2, denList_map_recip_prod ρ _⟩
  · cases h

/-! ### Power -/

theorem powOne_refines (e e' : Expr ℝ) (h : rulePowOne realNum e = some e') : Refines e e' := by
  unfold rulePowOne at h
  split at h
  · split at h
    · next hc =>
      cases h
      obtain ⟨f, v, rfl, hv⟩ := isConstSuch_true hc
      simp only [realNum_eq, realNum_one, decide_eq_true_eq] at hv
      subst hv
      refine ⟨?_, ?_, ?_⟩
      · simp only [WF]; tauto
      · intro p; simp only [Supp]; tauto
      · intro _ ρ; simp only [Dom, den]; intro hd
        exact ⟨hd.1, by rw [one_mul, Real.exp_log hd.2.2]⟩
    · cases h
  · cases h

theorem powZero_refines (e e' : Expr ℝ) (h : rulePowZero realNum e = some e') : Refines e e' := by
  unfold rulePowZero at h
  split at h
  · split at h
    · next hc =>
      cases h
      obtain ⟨f, v, rfl, hv⟩ := isConstSuch_true hc
      simp only [realNum_isZero, decide_eq_true_eq] at hv
      subst hv
      refine ⟨?_, ?_, ?_⟩
      · simp only [WF]; tauto
      · intro p; simp only [Supp]; tauto
      · intro _ ρ; simp only [Dom, den]; intro _
        exact ⟨trivial, by rw [zero_mul, Real.exp_zero]; exact realNum_one⟩
    · cases h
  · cases h

theorem onePow_refines (e e' : Expr ℝ) (h : ruleOnePow realNum e = some e') : Refines e e' := by
  unfold ruleOnePow at h
  split at h
  · split at h
    · next hc =>
      cases h
      obtain ⟨f, v, rfl, hv⟩ := isConstSuch_true hc
      simp only [realNum_eq, realNum_one, decide_eq_true_eq] at hv
      subst hv
      refine ⟨?_, ?_, ?_⟩
      · simp only [WF]; tauto
      · intro p; simp only [Supp]; tauto
      · intro _ ρ; simp only [Dom, den]; intro _
        exact ⟨trivial, by rw [Real.log_one, mul_zero, Real.exp_zero]; exact realNum_one⟩
    · cases h
  · cases h

theorem exp_natCast_mul_log {x : ℝ} (hx : 0 < x) (n : ℕ) :
    Real.exp ((n : ℝ) * Real.log x) = x ^ n := by
  rw [Real.exp_nat_mul, Real.exp_log hx]

theorem powNat_refines (e e' : Expr ℝ) (h : rulePowNat realNum e = some e') : Refines e e' := by
  unfold rulePowNat at h
  split at h
  · split at h
    · next k hk =>
      split at h
      · next hk2 =>
        cases h
        have hv := realNum_toInt_some hk
        have hnat : ((k.toNat : ℕ) : ℝ) = (k : ℝ) := by
          have : ((k.toNat : ℕ) : ℤ) = k := Int.toNat_of_nonneg (by omega)
          exact_mod_cast this
        refine ⟨?_, ?_, ?_⟩
        · simp only [WF]; intro hwf; exact ⟨by omega, hwf.1⟩
        · intro p; simp only [Supp]; tauto
        · intro _ ρ; simp only [Dom, den]; intro hd
          exact ⟨hd.1, by rw [← hv, ← hnat, exp_natCast_mul_log hd.2.2]⟩
      · cases h
    · cases h
  · cases h

theorem powNegOne_refines (e e' : Expr ℝ) (h : rulePowNegOne realNum e = some e') :
    Refines e e' := by
  unfold rulePowNegOne at h
  split at h
  · split at h
    · next hc =>
      cases h
      obtain ⟨f, v, rfl, hv⟩ := isConstSuch_true hc
      simp only [realNum_eq, realNum_negOne, decide_eq_true_eq] at hv
      subst hv
      refine ⟨?_, ?_, ?_⟩
      · simp only [WF]; tauto
      · intro p; simp only [Supp]; tauto
      · intro _ ρ; simp only [Dom, den]; intro hd
        exact ⟨⟨hd.1, ne_of_gt hd.2.2⟩, by rw [neg_one_mul, Real.exp_neg, Real.exp_log hd.2.2]⟩
    · cases h
  · cases h

theorem powConstBase_refines (e e' : Expr ℝ) (h : rulePowConstBase realNum e = some e') :
    Refines e e' := by
  unfold rulePowConstBase at h
  split at h
  · split at h
    · next hc =>
      cases h
      simp only [realNum_isPos, realNum_eq, realNum_one, Bool.and_eq_true, decide_eq_true_eq,
        Bool.not_eq_true', decide_eq_false_iff_not] at hc
      refine ⟨?_, ?_, ?_⟩
      · simp only [WF]; intro hwf; exact ⟨hc.1, hwf.2⟩
      · intro p; simp only [Supp]; tauto
      · intro _ ρ; simp only [Dom, den]; intro hd
        exact ⟨hd.2.1, trivial⟩
    · cases h
  · cases h

theorem powPow_refines (e e' : Expr ℝ) (h : rulePowPow e = some e') : Refines e e' := by
  unfold rulePowPow at h
  split at h
  · cases h
    refine ⟨?_, ?_, ?_⟩
    · simp only [WF, WFList]; tauto
    · intro p; simp only [Supp, SuppList]; tauto
    · intro _ ρ; simp only [Dom, DomList, den, denList]; intro hd
      refine ⟨by tauto, ?_⟩
      simp only [List.prod_cons, List.prod_nil, mul_one, Real.log_exp]; ring_nf
  · cases h

theorem powNegExp_refines (e e' : Expr ℝ) (h : rulePowNegExp e = some e') : Refines e e' := by
  unfold rulePowNegExp at h
  split at h
  · cases h
    refine ⟨?_, ?_, ?_⟩
    · simp only [WF]; tauto
    · intro p; simp only [Supp]; tauto
    · intro _ ρ; simp only [Dom, den]; intro hd
      exact ⟨⟨hd, Real.exp_ne_zero _⟩, by rw [neg_mul, Real.exp_neg]⟩
  · cases h

theorem powRecipBase_refines (e e' : Expr ℝ) (h : rulePowRecipBase e = some e') :
    Refines e e' := by
  unfold rulePowRecipBase at h
  split at h
  · cases h
    refine ⟨?_, ?_, ?_⟩
    · simp only [WF]; tauto
    · intro p; simp only [Supp]; tauto
    · intro _ ρ; simp only [Dom, den]; intro hd
      exact ⟨⟨⟨hd.1.1, hd.2.1, inv_pos.mp hd.2.2⟩, Real.exp_ne_zero _⟩,
        by rw [Real.log_inv, mul_neg, Real.exp_neg]⟩
  · cases h

/-! ### NthPower -/

theorem npowOne_refines (e e' : Expr ℝ) (h : ruleNPowOne e = some e') : Refines e e' := by
  unfold ruleNPowOne at h
  split at h
  · split at h
    · next hn =>
      cases h
      subst hn
      refine ⟨?_, ?_, ?_⟩
      · simp only [WF]; tauto
      · intro p; simp only [Supp]; tauto
      · intro _ ρ; simp only [Dom, den, pow_one]; intro hd; exact ⟨hd, trivial⟩
    · cases h
  · cases h

theorem npowRoot_refines (e e' : Expr ℝ) (h : ruleNPowRoot e = some e') : Refines e e' := by
  unfold ruleNPowRoot at h
  split at h
  · next f u f' m n =>
    split at h
    · next hmn =>
      cases h
      subst hmn
      refine ⟨?_, ?_, ?_⟩
      · simp only [WF]; tauto
      · intro p; simp only [Supp]; tauto
      · intro hwf ρ; simp only [Dom, den]; intro hd
        simp only [WF] at hwf
        refine ⟨hd.1, (sroot_pow_self hwf.2.1 _ ?_).symm⟩
        rcases Nat.mod_two_eq_zero_or_one m with h0 | h1
        · exact Or.inl (hd.2.2 h0)
        · exact Or.inr h1
    · simp only at h
      split at h
      · next hg =>
        cases h
        refine ⟨?_, ?_, ?_⟩
        · simp only [WF]; intro hwf
          have hgpos : 0 < Nat.gcd m n := Nat.gcd_pos_of_pos_left n (by omega)
          exact ⟨(Nat.one_le_div_iff hgpos).mpr (Nat.le_of_dvd (by omega) (Nat.gcd_dvd_right m n)),
            (Nat.one_le_div_iff hgpos).mpr (Nat.le_of_dvd (by omega) (Nat.gcd_dvd_left m n)),
            hwf.2.2⟩
        · intro p; simp only [Supp]; tauto
        · intro hwf ρ; simp only [Dom, den]; intro hd
          simp only [WF] at hwf
          have hgpos : 0 < Nat.gcd m n := Nat.gcd_pos_of_pos_left n (by omega)
          obtain ⟨m', hm'⟩ := Nat.gcd_dvd_left m n
          have e1 : m / Nat.gcd m n = m' := Nat.div_eq_of_eq_mul_right hgpos hm'
          refine ⟨⟨hd.1, ?_, ?_⟩, sroot_pow_gcd hwf.2.1 _ hd.2.2⟩
          · intro h2
            apply hd.2.1
            rw [e1] at h2
            calc 2 ≤ m' := h2
              _ = 1 * m' := (one_mul _).symm
              _ ≤ Nat.gcd m n * m' := Nat.mul_le_mul_right _ hgpos
              _ = m := hm'.symm
          · intro hev
            apply hd.2.2
            rw [e1] at hev
            rw [hm', Nat.mul_mod, hev]
            simp
      · cases h
  · cases h

theorem npowPow_refines (e e' : Expr ℝ) (h : ruleNPowPow e = some e') : Refines e e' := by
  unfold ruleNPowPow at h
  split at h
  · cases h
    refine ⟨?_, ?_, ?_⟩
    · simp only [WF]; intro hwf
      exact ⟨Nat.mul_pos hwf.1 hwf.2.1, hwf.2.2⟩
    · intro p; simp only [Supp]; tauto
    · intro _ ρ; simp only [Dom, den]; intro hd
      exact ⟨hd, by rw [mul_comm, pow_mul]⟩
  · cases h

theorem npowNeg_refines (e e' : Expr ℝ) (h : ruleNPowNeg e = some e') : Refines e e' := by
  unfold ruleNPowNeg at h
  split at h
  · split at h
    · next hev =>
      cases h
      refine ⟨?_, ?_, ?_⟩
      · simp only [WF]; tauto
      · intro p; simp only [Supp]; tauto
      · intro _ ρ; simp only [Dom, den]; intro hd
        exact ⟨hd, (Even.neg_pow (Nat.even_iff.mpr hev) _).symm⟩
    · next hev =>
      cases h
      refine ⟨?_, ?_, ?_⟩
      · simp only [WF]; tauto
      · intro p; simp only [Supp]; tauto
      · intro _ ρ; simp only [Dom, den]; intro hd
        exact ⟨hd, (Odd.neg_pow (Nat.odd_iff.mpr (by omega)) _).symm⟩
  · cases h

theorem npowRecip_refines (e e' : Expr ℝ) (h : ruleNPowRecip e = some e') : Refines e e' := by
  unfold ruleNPowRecip at h
  split at h
  · cases h
    refine ⟨?_, ?_, ?_⟩
    · simp only [WF]; tauto
    · intro p; simp only [Supp]; tauto
    · intro _ ρ; simp only [Dom, den]; intro hd
      exact ⟨⟨hd.1, pow_ne_zero _ hd.2⟩, (inv_pow _ _).symm⟩
  · cases h

theorem npowExp_refines (e e' : Expr ℝ) (h : ruleNPowExp realNum e = some e') : Refines e e' := by
  unfold ruleNPowExp at h
  split at h
  · cases h
    refine ⟨?_, ?_, ?_⟩
    · simp only [WF, WFList]; tauto
    · intro p; simp only [Supp, SuppList]; tauto
    · intro _ ρ; simp only [Dom, DomList, den, denList]; intro hd
      refine ⟨⟨trivial, hd, trivial⟩, ?_⟩
      simp only [List.prod_cons, List.prod_nil, mul_one, realNum_ofNat]
      rw [mul_assoc, Real.exp_nat_mul]
  · cases h

/-! ### NthRoot -/

theorem nrootOne_refines (e e' : Expr ℝ) (h : ruleNRootOne e = some e') : Refines e e' := by
  unfold ruleNRootOne at h
  split at h
  · split at h
    · next hn =>
      cases h
      subst hn
      refine ⟨?_, ?_, ?_⟩
      · simp only [WF]; tauto
      · intro p; simp only [Supp]; tauto
      · intro _ ρ; simp only [Dom, den, sroot_one]; intro hd; exact ⟨hd.1, trivial⟩
    · cases h
  · cases h

/-- the redex is not an instance of the recorded defect K1: it is not an even root of an even power -/
def K1Free : Expr ℝ → Prop
  | .nroot _ (.npow _ _ m) n => ¬ (n % 2 = 0 ∧ m % 2 = 0)
  | _ => True

theorem nrootPow_refines (e e' : Expr ℝ) (h : ruleNRootPow e = some e') (hk : K1Free e) :
    Refines e e' := by
  unfold ruleNRootPow at h
  split at h
  · next f u f' m n =>
    cases h
    simp only [K1Free] at hk
    refine ⟨?_, ?_, ?_⟩
    · simp only [WF]; tauto
    · intro p; simp only [Supp]; tauto
    · intro hwf ρ; simp only [Dom, den]; intro hd
      simp only [WF] at hwf
      refine ⟨⟨hd.1, ?_, ?_⟩, (sroot_npow hwf.1 _ _).symm⟩
      · intro h2 h0
        apply hd.2.1 h2
        rw [h0]
        exact zero_pow (by omega)
      · intro hev
        have hodd : Odd m := Nat.odd_iff.mpr (by omega)
        exact hodd.pow_nonneg_iff.mp (hd.2.2 hev)
  · cases h

/-- K1, the negative witness: at x = -3 the input `NthRoot(NthPower(x,2),2)` is defined (value 3),
the output `NthPower(NthRoot(x,2),2)` is not. -/
theorem nrootPow_unsound :
    ¬ Refines (mkNRoot (mkNPow (mkVar "x") 2) 2 : Expr ℝ) (mkNPow (mkNRoot (mkVar "x") 2) 2) := by
  intro h
  have hwf : WF (mkNRoot (mkNPow (mkVar "x") 2) 2 : Expr ℝ) := by simp [WF]
  have hd : Dom (fun _ => (-3 : ℝ)) (mkNRoot (mkNPow (mkVar "x") 2) 2 : Expr ℝ) := by
    simp only [Dom, den]
    norm_num
  have := (h.sem hwf (fun _ => (-3 : ℝ)) hd).1
  simp only [Dom, den] at this
  have h3 := this.2.2 (by norm_num)
  norm_num at h3

/-- K1 through the evaluator: at x = -3 the redex evaluates, the rewritten expression raises
`DomainError` -/
theorem nrootPow_unsound_eval :
    (∃ v, evalG realNum [("x", -3)] (mkNRoot (mkNPow (mkVar "x") 2) 2 : Expr ℝ) = .ok v) ∧
      evalG realNum [("x", -3)] (mkNPow (mkNRoot (mkVar "x") 2) 2 : Expr ℝ) = .error .domain := by
  constructor
  · refine ⟨_, (evalR_good _ _ (by simp [WF])).ok_iff.mpr ⟨?_, ?_, rfl⟩⟩
    · simp [Supp, Point.get?]
    · simp only [Dom, den, valOf, Point.get?]
      norm_num
  · refine (Good.domain_iff (evalR_good _ _ (by simp [WF])) ?_).mpr ?_
    · simp [Supp, Point.get?]
    · simp only [Dom, den, valOf, Point.get?]
      norm_num

theorem nrootRoot_refines (e e' : Expr ℝ) (h : ruleNRootRoot e = some e') : Refines e e' := by
  unfold ruleNRootRoot at h
  split at h
  · next f u f' m n =>
    cases h
    refine ⟨?_, ?_, ?_⟩
    · simp only [WF]; intro hwf
      exact ⟨Nat.mul_pos hwf.1 hwf.2.1, hwf.2.2⟩
    · intro p; simp only [Supp]; tauto
    · intro hwf ρ; simp only [Dom, den]; intro hd
      simp only [WF] at hwf
      obtain ⟨⟨hdu, hm2, hmev⟩, hn2, hnev⟩ := hd
      refine ⟨⟨hdu, ?_, ?_⟩, (sroot_sroot n m _).symm⟩
      · intro h2
        by_cases hm : 2 ≤ m
        · exact hm2 hm
        · have hm1 : m = 1 := by omega
          subst hm1
          have hn : 2 ≤ n := by omega
          have := hn2 hn
          rwa [sroot_one] at this
      · intro hev
        rcases Nat.mod_two_eq_zero_or_one m with h0 | h1
        · exact hmev h0
        · have hn0 : n % 2 = 0 := by
            rw [Nat.mul_mod, h1] at hev
            rcases Nat.mod_two_eq_zero_or_one n with h0 | h1'
            · exact h0
            · rw [h1'] at hev; simp at hev
          exact (sroot_nonneg_iff m).mp (hnev hn0)
  · cases h

theorem nrootNeg_refines (e e' : Expr ℝ) (h : ruleNRootNeg e = some e') : Refines e e' := by
  unfold ruleNRootNeg at h
  split at h
  · split at h
    · next hodd =>
      cases h
      refine ⟨?_, ?_, ?_⟩
      · simp only [WF]; tauto
      · intro p; simp only [Supp]; tauto
      · intro hwf ρ; simp only [Dom, den]; intro hd
        simp only [WF] at hwf
        refine ⟨⟨hd.1, fun h2 => neg_ne_zero.mp (hd.2.1 h2), fun hev => by omega⟩,
          (sroot_neg hwf.1 _).symm⟩
    · cases h
  · cases h

theorem nrootRecip_refines (e e' : Expr ℝ) (h : ruleNRootRecip e = some e') : Refines e e' := by
  unfold ruleNRootRecip at h
  split at h
  · cases h
    refine ⟨?_, ?_, ?_⟩
    · simp only [WF]; tauto
    · intro p; simp only [Supp]; tauto
    · intro hwf ρ; simp only [Dom, den]; intro hd
      simp only [WF] at hwf
      obtain ⟨⟨hdu, hu0⟩, h2, hev⟩ := hd
      exact ⟨⟨⟨hdu, fun _ => hu0, fun h => inv_nonneg.mp (hev h)⟩, sroot_ne_zero _ hu0⟩,
        (sroot_inv hwf.1 _).symm⟩
  · cases h

/-! ### Exponential, Logarithm, Cosine, Sine -/

theorem expLog_refines (e e' : Expr ℝ) (h : ruleExpLog realNum e = some e') : Refines e e' := by
  unfold ruleExpLog at h
  split at h
  · split at h
    · next hb =>
      cases h
      simp only [realNum_eq, decide_eq_true_eq] at hb
      subst hb
      refine ⟨?_, ?_, ?_⟩
      · simp only [WF]; tauto
      · intro p; simp only [Supp]; tauto
      · intro hwf ρ; simp only [Dom, den]; intro hd
        simp only [WF] at hwf
        have hlb : Real.log _ ≠ 0 := Real.log_ne_zero_of_pos_of_ne_one hwf.1 hwf.2.2.1
        exact ⟨hd.1, by rw [div_mul_cancel₀ _ hlb, Real.exp_log hd.2]⟩
    · cases h
  · cases h

theorem expNeg_refines (e e' : Expr ℝ) (h : ruleExpNeg e = some e') : Refines e e' := by
  unfold ruleExpNeg at h
  split at h
  · cases h
    refine ⟨?_, ?_, ?_⟩
    · simp only [WF]; tauto
    · intro p; simp only [Supp]; tauto
    · intro _ ρ; simp only [Dom, den]; intro hd
      exact ⟨⟨hd, Real.exp_ne_zero _⟩, by rw [neg_mul, Real.exp_neg]⟩
  · cases h

theorem logExp_refines (e e' : Expr ℝ) (h : ruleLogExp realNum e = some e') : Refines e e' := by
  unfold ruleLogExp at h
  split at h
  · split at h
    · next hb =>
      cases h
      simp only [realNum_eq, decide_eq_true_eq] at hb
      subst hb
      refine ⟨?_, ?_, ?_⟩
      · simp only [WF]; tauto
      · intro p; simp only [Supp]; tauto
      · intro hwf ρ; simp only [Dom, den]; intro hd
        simp only [WF] at hwf
        have hlb : Real.log _ ≠ 0 := Real.log_ne_zero_of_pos_of_ne_one hwf.1 hwf.2.1
        exact ⟨hd.1, by rw [Real.log_exp, mul_div_cancel_right₀ _ hlb]⟩
    · cases h
  · cases h

theorem logRecip_refines (e e' : Expr ℝ) (h : ruleLogRecip e = some e') : Refines e e' := by
  unfold ruleLogRecip at h
  split at h
  · cases h
    refine ⟨?_, ?_, ?_⟩
    · simp only [WF]; tauto
    · intro p; simp only [Supp]; tauto
    · intro _ ρ; simp only [Dom, den]; intro hd
      exact ⟨⟨hd.1.1, inv_pos.mp hd.2⟩, by rw [Real.log_inv, neg_div]⟩
  · cases h

theorem logNPow_refines (e e' : Expr ℝ) (h : ruleLogNPow realNum e = some e') : Refines e e' := by
  unfold ruleLogNPow at h
  split at h
  · split at h
    · next hodd =>
      cases h
      refine ⟨?_, ?_, ?_⟩
      · simp only [WF, WFList]; tauto
      · intro p; simp only [Supp, SuppList]; tauto
      · intro _ ρ; simp only [Dom, DomList, den, denList]; intro hd
        have hpos : 0 < den ρ _ := (Nat.odd_iff.mpr hodd).pow_pos_iff.mp hd.2
        refine ⟨⟨trivial, ⟨hd.1, hpos⟩, trivial⟩, ?_⟩
        simp only [List.prod_cons, List.prod_nil, mul_one, realNum_ofNat, Real.log_pow]
        ring
    · cases h
  · cases h

theorem cosNeg_refines (e e' : Expr ℝ) (h : ruleCosNeg e = some e') : Refines e e' := by
  unfold ruleCosNeg at h
  split at h
  · cases h
    refine ⟨?_, ?_, ?_⟩
    · simp only [WF]; exact id
    · intro p; simp only [Supp]; exact id
    · intro _ ρ; simp only [Dom, den, Real.cos_neg]; intro hd; exact ⟨hd, trivial⟩
  · cases h

theorem sinNeg_refines (e e' : Expr ℝ) (h : ruleSinNeg e = some e') : Refines e e' := by
  unfold ruleSinNeg at h
  split at h
  · cases h
    refine ⟨?_, ?_, ?_⟩
    · simp only [WF]; exact id
    · intro p; simp only [Supp]; exact id
    · intro _ ρ; simp only [Dom, den, Real.sin_neg]; intro hd; exact ⟨hd, trivial⟩
  · cases h

/-! ### summary -/

/-- the 34 rules of the unary and binary classes -/
def unaryRules : List RuleId :=
  [.minusToSum, .negNeg, .negSum, .divToMul, .recipRecip, .recipNeg, .recipProd, .powOne,
    .powZero, .onePow, .powNat, .powNegOne, .powConstBase, .powPow, .powNegExp, .powRecipBase,
    .npowOne, .npowRoot, .npowPow, .npowNeg, .npowRecip, .npowExp, .nrootOne, .nrootPow,
    .nrootRoot, .nrootNeg, .nrootRecip, .expLog, .expNeg, .logExp, .logRecip, .logNPow, .cosNeg,
    .sinNeg]

/-- the side condition under which a rule is sound: none, except K1 for `.nrootPow` -/
def K1FreeAt : RuleId → Expr ℝ → Prop
  | .nrootPow, e => K1Free e
  | _, _ => True

/-- **C08, unary/binary classes.**  Every one of the 34 rules, whenever it fires, produces a
refinement of its input (outside the recorded defect K1). -/
theorem unaryRule_refines : ∀ r ∈ unaryRules, ∀ e e' : Expr ℝ, r.apply realNum e = some e' →
    K1FreeAt r e → Refines e e' := by
  intro r hr e e' h hk
  cases r <;> first
    | exact absurd hr (by decide)
    | exact nrootPow_refines e e' h hk
    | exact minusToSum_refines e e' h
    | exact negNeg_refines e e' h
    | exact negSum_refines e e' h
    | exact divToMul_refines e e' h
    | exact recipRecip_refines e e' h
    | exact recipNeg_refines e e' h
    | exact recipProd_refines e e' h
    | exact powOne_refines e e' h
    | exact powZero_refines e e' h
    | exact onePow_refines e e' h
    | exact powNat_refines e e' h
    | exact powNegOne_refines e e' h
    | exact powConstBase_refines e e' h
    | exact powPow_refines e e' h
    | exact powNegExp_refines e e' h
    | exact powRecipBase_refines e e' h
    | exact npowOne_refines e e' h
    | exact npowRoot_refines e e' h
    | exact npowPow_refines e e' h
    | exact npowNeg_refines e e' h
    | exact npowRecip_refines e e' h
    | exact npowExp_refines e e' h
    | exact nrootOne_refines e e' h
    | exact nrootRoot_refines e e' h
    | exact nrootNeg_refines e e' h
    | exact nrootRecip_refines e e' h
    | exact expLog_refines e e' h
    | exact expNeg_refines e e' h
    | exact logExp_refines e e' h
    | exact logRecip_refines e e' h
    | exact logNPow_refines e e' h
    | exact cosNeg_refines e e' h
    | exact sinNeg_refines e e' h

/-- the list is complete: every reducer of every class other than `Add` and `Multiply` is in it -/
theorem reducers_mem_unaryRules (e : Expr ℝ) (hadd : ∀ f as, e ≠ .add f as)
    (hmul : ∀ f as, e ≠ .mul f as) : ∀ r ∈ reducers e, r ∈ unaryRules := by
  cases e
  case add f as => exact absurd rfl (hadd f as)
  case mul f as => exact absurd rfl (hmul f as)
  all_goals (simp only [reducers]; decide)

/-! ### non-vacuity -/

/-- a redex for every rule -/
def unaryWitness : RuleId → Expr ℝ
  | .minusToSum => mkMinus (mkVar "x") (mkVar "y")
  | .negNeg => mkNeg (mkNeg (mkVar "x"))
  | .negSum => mkNeg (mkAdd [mkVar "x", mkVar "y"])
  | .divToMul => mkDiv (mkVar "x") (mkVar "y")
  | .recipRecip => mkRecip (mkRecip (mkVar "x"))
  | .recipNeg => mkRecip (mkNeg (mkVar "x"))
  | .recipProd => mkRecip (mkMul [mkVar "x", mkVar "y"])
  | .powOne => mkPow (mkVar "x") (mkConst 1)
  | .powZero => mkPow (mkVar "x") (mkConst 0)
  | .onePow => mkPow (mkConst 1) (mkVar "x")
  | .powNat => mkPow (mkVar "x") (mkConst 3)
  | .powNegOne => mkPow (mkVar "x") (mkConst (-1))
  | .powConstBase => mkPow (mkConst 2) (mkVar "x")
  | .powPow => mkPow (mkPow (mkVar "x") (mkVar "y")) (mkVar "x")
  | .powNegExp => mkPow (mkVar "x") (mkNeg (mkVar "y"))
  | .powRecipBase => mkPow (mkRecip (mkVar "x")) (mkVar "y")
  | .npowOne => mkNPow (mkVar "x") 1
  | .npowRoot => mkNPow (mkNRoot (mkVar "x") 6) 4
  | .npowPow => mkNPow (mkNPow (mkVar "x") 2) 3
  | .npowNeg => mkNPow (mkNeg (mkVar "x")) 3
  | .npowRecip => mkNPow (mkRecip (mkVar "x")) 2
  | .npowExp => mkNPow (mkExp (mkVar "x") 2) 3
  | .nrootOne => mkNRoot (mkVar "x") 1
  | .nrootPow => mkNRoot (mkNPow (mkVar "x") 2) 3
  | .nrootRoot => mkNRoot (mkNRoot (mkVar "x") 2) 3
  | .nrootNeg => mkNRoot (mkNeg (mkVar "x")) 3
  | .nrootRecip => mkNRoot (mkRecip (mkVar "x")) 2
  | .expLog => mkExp (mkLog (mkVar "x") 2) 2
  | .expNeg => mkExp (mkNeg (mkVar "x")) 2
  | .logExp => mkLog (mkExp (mkVar "x") 2) 2
  | .logRecip => mkLog (mkRecip (mkVar "x")) 2
  | .logNPow => mkLog (mkNPow (mkVar "x") 3) 2
  | .cosNeg => mkCos (mkNeg (mkVar "x"))
  | .sinNeg => mkSin (mkNeg (mkVar "x"))
  | _ => mkVar "x"

theorem realNum_toInt_three : realNum.toInt (3 : ℝ) = some 3 := by
  have := realNum_toInt_intCast 3
  simpa using this

set_option linter.unusedSimpArgs false in
/-- non-vacuity of `unaryRule_refines` (and of every `<rule>_refines`): each of the 34 rules fires
on a well-formed redex that meets the K1 side condition and is defined at the point where every
variable is 2 -/
theorem unaryRule_fires : ∀ r ∈ unaryRules, ∃ e' : Expr ℝ,
    r.apply realNum (unaryWitness r) = some e' ∧ WF (unaryWitness r) ∧
      K1FreeAt r (unaryWitness r) ∧ Dom (fun _ => (2 : ℝ)) (unaryWitness r) := by
  intro r hr
  cases r <;> first
    | exact absurd hr (by decide)
    | (refine ⟨_, rfl, ?_, ?_, ?_⟩ <;>
        simp [unaryWitness, K1FreeAt, K1Free, WF, WFList, Dom, DomList, den, denList,
          Real.exp_pos, sroot_ne_zero])
    | ((refine ⟨mkVar "x", ?_, ?_, ?_, ?_⟩ <;>
        simp [unaryWitness, K1FreeAt, WF, Dom, den, RuleId.apply, rulePowOne, rulePowZero,
          ruleOnePow, rulePowNat, rulePowNegOne, rulePowConstBase, ruleExpLog, ruleLogExp,
          isConstSuch, asConst, realNum_toInt_three, Real.exp_pos]); done)
    | ((refine ⟨mkConst 1, ?_, ?_, ?_, ?_⟩ <;>
        simp [unaryWitness, K1FreeAt, WF, Dom, den, RuleId.apply, rulePowOne, rulePowZero,
          ruleOnePow, rulePowNat, rulePowNegOne, rulePowConstBase, ruleExpLog, ruleLogExp,
          isConstSuch, asConst, realNum_toInt_three, Real.exp_pos]); done)
    | ((refine ⟨mkNPow (mkVar "x") 3, ?_, ?_, ?_, ?_⟩ <;>
        simp [unaryWitness, K1FreeAt, WF, Dom, den, RuleId.apply, rulePowOne, rulePowZero,
          ruleOnePow, rulePowNat, rulePowNegOne, rulePowConstBase, ruleExpLog, ruleLogExp,
          isConstSuch, asConst, realNum_toInt_three, Real.exp_pos]); done)
    | ((refine ⟨mkRecip (mkVar "x"), ?_, ?_, ?_, ?_⟩ <;>
        simp [unaryWitness, K1FreeAt, WF, Dom, den, RuleId.apply, rulePowOne, rulePowZero,
          ruleOnePow, rulePowNat, rulePowNegOne, rulePowConstBase, ruleExpLog, ruleLogExp,
          isConstSuch, asConst, realNum_toInt_three, Real.exp_pos]); done)
    | (refine ⟨mkExp (mkVar "x") 2, ?_, ?_, ?_, ?_⟩ <;>
        simp [unaryWitness, K1FreeAt, WF, Dom, den, RuleId.apply, rulePowOne, rulePowZero,
          ruleOnePow, rulePowNat, rulePowNegOne, rulePowConstBase, ruleExpLog, ruleLogExp,
          isConstSuch, asConst, realNum_toInt_three, Real.exp_pos])

/-- the negative witness really is an instance of `ruleNRootPow` that violates only `K1Free` -/
example :
    ruleNRootPow (mkNRoot (mkNPow (mkVar "x") 2) 2 : Expr ℝ) =
        some (mkNPow (mkNRoot (mkVar "x") 2) 2) ∧
      WF (mkNRoot (mkNPow (mkVar "x") 2) 2 : Expr ℝ) ∧
      ¬ K1Free (mkNRoot (mkNPow (mkVar "x") 2) 2 : Expr ℝ) := by
  refine ⟨rfl, by simp [WF], by simp [K1Free]⟩

end Smooth
