/-
Proofs/SymForwardRun — concrete runs of `as_expression()` over the reals, step by step.

The number instance `realNum` decides `= 0`, `< 0`, `=` classically, so `normalize realNum e` cannot be
computed by `decide`; here three concrete runs are replayed step by step (the sequence of intermediate
expressions was produced by the executable rational instance and is CHECKED here, step by step,
against the model over `realNum` by `simp`; nothing is assumed about the rational instance):

* `x * sin x` : a run in which no K1 rewrite happens — the hypothesis of `as_expression_sound_partial`
  is satisfiable by a non-trivial instance (14 steps; result `sin x + cos x * x`);
* `NthRoot(NthPower(x, 2), 2)` (= |x|) : the K1 witness carried through the WHOLE of `as_expression()`
  (26 steps): the run performs the even/even rewrite, and the returned expression is `Divide(x, x)`,
  which at `x = -3` evaluates to `1` while the true derivative of `|x|` there is `-1`;
* `x * NthRoot(NthPower(x, 2), 2)` (= x·|x|) : the same through the product rule (38 steps): the
  returned expression is `x + (x * x) / x`, at `x = -3` it evaluates to `-6`, the true derivative is `6`.
-/
import Smooth.Proofs.SymForward

namespace Smooth
open Expr

/-! ### replaying `_fully_reduce` -/

/-- `ReplaySteps e evs e'` : starting from `e`, the reduction loop takes exactly the steps with events `evs`
(none of them on a flagged root) and arrives at `e'` -/
inductive ReplaySteps : Expr ℝ → List StepEvent → Expr ℝ → Prop
  | nil (e : Expr ℝ) : ReplaySteps e [] e
  | cons {e e' e'' : Expr ℝ} {ev : StepEvent} {evs : List StepEvent} :
      e.isRed = false → stepF realNum e = (e', ev) → ReplaySteps e' evs e'' → ReplaySteps e (ev :: evs) e''

theorem ReplaySteps.loop {e e' : Expr ℝ} {evs : List StepEvent} (h : ReplaySteps e evs e')
    (hred : e'.isRed = true) : ∀ (fuel k : Nat) (tr : List StepEvent), evs.length < fuel →
      fullyReduceLoop realNum fuel e k tr = ⟨e', false, k + evs.length, tr.reverse ++ evs⟩ := by
  induction h with
  | nil e =>
    intro fuel k tr hlt
    obtain ⟨f, rfl⟩ : ∃ f, fuel = f + 1 := ⟨fuel - 1, by simp at hlt; omega⟩
    simp [fullyReduceLoop, hred]
  | @cons e e' e'' ev evs hr hs _ ih =>
    intro fuel k tr hlt
    obtain ⟨f, rfl⟩ : ∃ f, fuel = f + 1 := ⟨fuel - 1, by simp at hlt; omega⟩
    have := ih hred f (k + 1) (ev :: tr) (by simpa using hlt)
    simp only [fullyReduceLoop, hr, Bool.false_eq_true, if_false, hs, this, List.reverse_cons,
      List.append_assoc, List.singleton_append, List.length_cons]
    congr 1
    omega

/-- the result of `_fully_reduce` on a replayed run within the budget -/
theorem ReplaySteps.fullyReduce {e e' : Expr ℝ} {evs : List StepEvent} (h : ReplaySteps e evs e')
    (hred : e'.isRed = true) (bound : Nat) (hlt : evs.length < bound) :
    fullyReduceWith realNum bound e = ⟨e', false, evs.length, evs⟩ := by
  have := h.loop hred bound 0 [] hlt
  simpa [fullyReduceWith] using this

/-- a step whose event is not the rule `nrootPow` satisfies the K1 side condition -/
theorem stepOK_K1_of_event {e e' : Expr ℝ} {ev : StepEvent} (hs : stepF realNum e = (e', ev))
    (hev : ev ≠ .rule .nrootPow) : StepOK K1FreeAt e := by
  intro r e₀ hr
  by_cases h : r = .nrootPow
  · subst h
    have := (stepF_event_rule e .nrootPow).mpr ⟨e₀, hr⟩
    rw [hs] at this
    exact absurd this hev
  · cases r <;> first | exact absurd rfl h | trivial

/-- a replayed run without the rule `nrootPow` satisfies the K1 side condition, for every budget -/
theorem ReplaySteps.runOK {e e' : Expr ℝ} {evs : List StepEvent} (h : ReplaySteps e evs e')
    (hred : e'.isRed = true) (hev : StepEvent.rule .nrootPow ∉ evs) :
    ∀ bound, RunOK K1FreeAt bound e := by
  induction h with
  | nil e => intro bound; cases bound with | zero => trivial | succ n => exact Or.inl hred
  | cons hr hs _ ih =>
    intro bound
    cases bound with
    | zero => trivial
    | succ n =>
      refine Or.inr ⟨stepOK_K1_of_event hs (fun h => hev (by simp [h])), ?_⟩
      rw [hs]
      exact ih hred (fun h => hev (List.mem_cons_of_mem _ h)) n

/-- the unfolding set that computes one concrete step -/
macro "replay_step_simp" : tactic => `(tactic|
  simp [stepF, stepNode, stepFirstUnreduced, stepTop, foldAttempt, isConstNode, isRed, markRed,
    markFailed, setFlags, Expr.flags, vars, varsAux, varsAuxList, reducers, firstRule, RuleId.apply,
    spliceFirst, asAdd, asMul, asConst, asNeg, asRecip, asLog, asExp, asNPow, asNRoot, isConstSuch,
    consolidate, groupByKey, groupInsert, List.filterMap_cons, List.filter_cons,
    ruleAddFlatten, ruleAddZeros, ruleAddLogs, ruleAddConsts, ruleMinusToSum, ruleNegNeg, ruleNegSum,
    ruleMulFlatten, ruleMulZero, ruleMulOnes, ruleMulNegs, ruleMulNPows, ruleMulNRoots, ruleMulExps,
    ruleMulConsts, ruleDivToMul, ruleRecipRecip, ruleRecipNeg, ruleRecipProd, rulePowOne, rulePowZero,
    ruleOnePow, rulePowNat, rulePowNegOne, rulePowConstBase, rulePowPow, rulePowNegExp,
    rulePowRecipBase, ruleNPowOne, ruleNPowRoot, ruleNPowPow, ruleNPowNeg, ruleNPowRecip, ruleNPowExp,
    ruleNRootOne, ruleNRootPow, ruleNRootRoot, ruleNRootNeg, ruleNRootRecip, ruleExpLog, ruleExpNeg,
    ruleLogExp, ruleLogRecip, ruleLogNPow, ruleCosNeg, ruleSinNeg,
    evalG, evalListG, verifyDivide, verifyReciprocal, verifyPower, verifyNthRoot, verifyLogarithm,
    mfDivide, mfReciprocal, mfNthPower, pyTrueDiv, Point.get?, Bind.bind, Except.bind, Pure.pure,
    Except.pure, throw, throwThe, MonadExceptOf.throw])

/-- `_fully_reduce` on a flagged expression returns it at once -/
theorem replay_fullyReduceWith_of_red (e : Expr ℝ) (h : e.isRed = true) :
    fullyReduceWith realNum REDUCTION_STEPS_BOUND e = ⟨e, false, 0, []⟩ := by
  show fullyReduceLoop realNum (999 + 1) e 0 [] = _
  simp [fullyReduceLoop, h]

/-- `_normalize` of a flagged variable -/
theorem replay_nf_var (fuel : Nat) (h : 2 ≤ fuel) (y : String) :
    normalizeF realNum REDUCTION_STEPS_BOUND fuel (.var { red := true } y) =
      some (mkVar y, false) := by
  obtain ⟨f, rfl⟩ : ∃ f, fuel = f + 2 := ⟨fuel - 2, by omega⟩
  simp [normalizeF, normReducedF, replay_fullyReduceWith_of_red (.var { red := true } y) rfl]

/-! ### the normal-form pass on a completely flagged tree performs no rewrite at all -/

mutual
/-- every node carries the `_is_fully_reduced` flag -/
def AllFlagged : Expr ℝ → Prop
  | .const f _ | .var f _ => f.red = true
  | .add f as | .mul f as => f.red = true ∧ AllFlaggedList as
  | .minus f l r | .div f l r | .pow f l r => f.red = true ∧ AllFlagged l ∧ AllFlagged r
  | .neg f u | .recip f u | .npow f u _ | .nroot f u _ | .exp f u _ | .log f u _ | .cos f u
  | .sin f u => f.red = true ∧ AllFlagged u
def AllFlaggedList : List (Expr ℝ) → Prop
  | [] => True
  | e :: es => AllFlagged e ∧ AllFlaggedList es
end

theorem AllFlagged.isRed {e : Expr ℝ} (h : AllFlagged e) : e.isRed = true := by
  cases e <;> simp only [AllFlagged] at h <;> first | exact h | exact h.1

theorem allFlaggedList_mem {es : List (Expr ℝ)} (h : AllFlaggedList es) {t : Expr ℝ} (ht : t ∈ es) :
    AllFlagged t := by
  induction es with
  | nil => cases ht
  | cons e es ih =>
    rcases List.mem_cons.mp ht with rfl | ht
    · exact h.1
    · exact ih h.2 ht

theorem normOK_of_allFlagged : ∀ fuel : Nat,
    (∀ e, AllFlagged e → NormOK K1FreeAt REDUCTION_STEPS_BOUND fuel e) ∧
    (∀ e, AllFlagged e → NormRedOK K1FreeAt REDUCTION_STEPS_BOUND fuel e)
  | 0 => ⟨fun _ _ => trivial, fun _ _ => trivial⟩
  | fuel + 1 => by
    have ih := normOK_of_allFlagged fuel
    refine ⟨fun e h => ?_, fun e h => ?_⟩
    · simp only [NormOK]
      refine ⟨Or.inl h.isRed, ?_⟩
      rw [replay_fullyReduceWith_of_red e h.isRed]
      exact ih.2 e h
    · cases e with
      | const f v => trivial
      | var f x => trivial
      | add f as =>
        simp only [NormRedOK]
        simp only [AllFlagged] at h
        refine ⟨fun t ht => ih.1 t (allFlaggedList_mem h.2 (List.mem_filter.mp ht).1), fun t ht => ?_⟩
        obtain ⟨s, hs, hst⟩ := List.mem_filterMap.mp ht
        obtain ⟨g, rfl⟩ := asNeg_eq_some hst
        have := allFlaggedList_mem h.2 hs
        simp only [AllFlagged] at this
        exact ih.1 t this.2
      | mul f as =>
        simp only [NormRedOK]
        simp only [AllFlagged] at h
        refine ⟨fun t ht => ih.1 t (allFlaggedList_mem h.2 (List.mem_filter.mp ht).1), fun t ht => ?_⟩
        obtain ⟨s, hs, hst⟩ := List.mem_filterMap.mp ht
        obtain ⟨g, rfl⟩ := asRecip_eq_some hst
        have := allFlaggedList_mem h.2 hs
        simp only [AllFlagged] at this
        exact ih.1 t this.2
      | minus f l r => simp only [AllFlagged] at h; exact ⟨ih.2 l h.2.1, ih.2 r h.2.2⟩
      | div f l r => simp only [AllFlagged] at h; exact ⟨ih.2 l h.2.1, ih.2 r h.2.2⟩
      | pow f l r => simp only [AllFlagged] at h; exact ⟨ih.2 l h.2.1, ih.2 r h.2.2⟩
      | neg f u => simp only [AllFlagged] at h; exact ih.2 u h.2
      | recip f u => simp only [AllFlagged] at h; exact ih.2 u h.2
      | npow f u n => simp only [AllFlagged] at h; exact ih.2 u h.2
      | nroot f u n => simp only [AllFlagged] at h; exact ih.2 u h.2
      | exp f u b => simp only [AllFlagged] at h; exact ih.2 u h.2
      | log f u b => simp only [AllFlagged] at h; exact ih.2 u h.2
      | cos f u => simp only [AllFlagged] at h; exact ih.2 u h.2
      | sin f u => simp only [AllFlagged] at h; exact ih.2 u h.2

/-- a replayed run without `nrootPow` that ends in a completely flagged tree: the whole of
`_normalize` meets the K1 side condition -/
theorem ReplaySteps.normOK {e e' : Expr ℝ} {evs : List StepEvent} (h : ReplaySteps e evs e')
    (hall : AllFlagged e') (hev : StepEvent.rule .nrootPow ∉ evs)
    (hlen : evs.length < REDUCTION_STEPS_BOUND) (fuel : Nat) :
    NormOK K1FreeAt REDUCTION_STEPS_BOUND fuel e := by
  cases fuel with
  | zero => trivial
  | succ fuel =>
    simp only [NormOK]
    refine ⟨h.runOK hall.isRed hev _, ?_⟩
    rw [h.fullyReduce hall.isRed _ hlen]
    exact (normOK_of_allFlagged fuel).2 e' hall

/-! ### replayed run 1: the raw symbolic partial of `NthRoot(NthPower(x, 2), 2)` -/

noncomputable def runK1E0 : Expr ℝ :=
  (.div {} (.mul {} [(.const {} (2 : ℝ)), (.npow {} (.var {} "x") 1), (.const {} (1 : ℝ))]) (.mul {} [(.const {} (2 : ℝ)), (.npow {} (.nroot {} (.npow {} (.var {} "x") 2) 2) 1)]))

noncomputable def runK1E1 : Expr ℝ :=
  (.div {} (.mul {} [(.const { red := true } (2 : ℝ)), (.npow {} (.var {} "x") 1), (.const {} (1 : ℝ))]) (.mul {} [(.const {} (2 : ℝ)), (.npow {} (.nroot {} (.npow {} (.var {} "x") 2) 2) 1)]))

noncomputable def runK1E2 : Expr ℝ :=
  (.div {} (.mul {} [(.const { red := true } (2 : ℝ)), (.npow {} (.var { red := true } "x") 1), (.const {} (1 : ℝ))]) (.mul {} [(.const {} (2 : ℝ)), (.npow {} (.nroot {} (.npow {} (.var {} "x") 2) 2) 1)]))

noncomputable def runK1E3 : Expr ℝ :=
  (.div {} (.mul {} [(.const { red := true } (2 : ℝ)), (.var { red := true } "x"), (.const {} (1 : ℝ))]) (.mul {} [(.const {} (2 : ℝ)), (.npow {} (.nroot {} (.npow {} (.var {} "x") 2) 2) 1)]))

noncomputable def runK1E4 : Expr ℝ :=
  (.div {} (.mul {} [(.const { red := true } (2 : ℝ)), (.var { red := true } "x"), (.const { red := true } (1 : ℝ))]) (.mul {} [(.const {} (2 : ℝ)), (.npow {} (.nroot {} (.npow {} (.var {} "x") 2) 2) 1)]))

noncomputable def runK1E5 : Expr ℝ :=
  (.div {} (.mul {} [(.const { red := true } (2 : ℝ)), (.var { red := true } "x")]) (.mul {} [(.const {} (2 : ℝ)), (.npow {} (.nroot {} (.npow {} (.var {} "x") 2) 2) 1)]))

noncomputable def runK1E6 : Expr ℝ :=
  (.div {} (.mul { red := true } [(.const { red := true } (2 : ℝ)), (.var { red := true } "x")]) (.mul {} [(.const {} (2 : ℝ)), (.npow {} (.nroot {} (.npow {} (.var {} "x") 2) 2) 1)]))

noncomputable def runK1E7 : Expr ℝ :=
  (.div {} (.mul { red := true } [(.const { red := true } (2 : ℝ)), (.var { red := true } "x")]) (.mul {} [(.const { red := true } (2 : ℝ)), (.npow {} (.nroot {} (.npow {} (.var {} "x") 2) 2) 1)]))

noncomputable def runK1E8 : Expr ℝ :=
  (.div {} (.mul { red := true } [(.const { red := true } (2 : ℝ)), (.var { red := true } "x")]) (.mul {} [(.const { red := true } (2 : ℝ)), (.npow {} (.nroot {} (.npow {} (.var { red := true } "x") 2) 2) 1)]))

noncomputable def runK1E9 : Expr ℝ :=
  (.div {} (.mul { red := true } [(.const { red := true } (2 : ℝ)), (.var { red := true } "x")]) (.mul {} [(.const { red := true } (2 : ℝ)), (.npow {} (.nroot {} (.npow { red := true } (.var { red := true } "x") 2) 2) 1)]))

noncomputable def runK1E10 : Expr ℝ :=
  (.div {} (.mul { red := true } [(.const { red := true } (2 : ℝ)), (.var { red := true } "x")]) (.mul {} [(.const { red := true } (2 : ℝ)), (.npow {} (.npow {} (.nroot {} (.var { red := true } "x") 2) 2) 1)]))

noncomputable def runK1E11 : Expr ℝ :=
  (.div {} (.mul { red := true } [(.const { red := true } (2 : ℝ)), (.var { red := true } "x")]) (.mul {} [(.const { red := true } (2 : ℝ)), (.npow {} (.npow {} (.nroot { red := true } (.var { red := true } "x") 2) 2) 1)]))

noncomputable def runK1E12 : Expr ℝ :=
  (.div {} (.mul { red := true } [(.const { red := true } (2 : ℝ)), (.var { red := true } "x")]) (.mul {} [(.const { red := true } (2 : ℝ)), (.npow {} (.var { red := true } "x") 1)]))

noncomputable def runK1E13 : Expr ℝ :=
  (.div {} (.mul { red := true } [(.const { red := true } (2 : ℝ)), (.var { red := true } "x")]) (.mul {} [(.const { red := true } (2 : ℝ)), (.var { red := true } "x")]))

noncomputable def runK1E14 : Expr ℝ :=
  (.div {} (.mul { red := true } [(.const { red := true } (2 : ℝ)), (.var { red := true } "x")]) (.mul { red := true } [(.const { red := true } (2 : ℝ)), (.var { red := true } "x")]))

noncomputable def runK1E15 : Expr ℝ :=
  (.mul {} [(.mul { red := true } [(.const { red := true } (2 : ℝ)), (.var { red := true } "x")]), (.recip {} (.mul { red := true } [(.const { red := true } (2 : ℝ)), (.var { red := true } "x")]))])

noncomputable def runK1E16 : Expr ℝ :=
  (.mul {} [(.mul { red := true } [(.const { red := true } (2 : ℝ)), (.var { red := true } "x")]), (.mul {} [(.recip {} (.const { red := true } (2 : ℝ))), (.recip {} (.var { red := true } "x"))])])

noncomputable def runK1E17 : Expr ℝ :=
  (.mul {} [(.mul { red := true } [(.const { red := true } (2 : ℝ)), (.var { red := true } "x")]), (.mul {} [(.const {} (1/2 : ℝ)), (.recip {} (.var { red := true } "x"))])])

noncomputable def runK1E18 : Expr ℝ :=
  (.mul {} [(.mul { red := true } [(.const { red := true } (2 : ℝ)), (.var { red := true } "x")]), (.mul {} [(.const { red := true } (1/2 : ℝ)), (.recip {} (.var { red := true } "x"))])])

noncomputable def runK1E19 : Expr ℝ :=
  (.mul {} [(.mul { red := true } [(.const { red := true } (2 : ℝ)), (.var { red := true } "x")]), (.mul {} [(.const { red := true } (1/2 : ℝ)), (.recip { red := true } (.var { red := true } "x"))])])

noncomputable def runK1E20 : Expr ℝ :=
  (.mul {} [(.mul { red := true } [(.const { red := true } (2 : ℝ)), (.var { red := true } "x")]), (.mul { red := true } [(.const { red := true } (1/2 : ℝ)), (.recip { red := true } (.var { red := true } "x"))])])

noncomputable def runK1E21 : Expr ℝ :=
  (.mul {} [(.const { red := true } (2 : ℝ)), (.var { red := true } "x"), (.mul { red := true } [(.const { red := true } (1/2 : ℝ)), (.recip { red := true } (.var { red := true } "x"))])])

noncomputable def runK1E22 : Expr ℝ :=
  (.mul {} [(.const { red := true } (2 : ℝ)), (.var { red := true } "x"), (.const { red := true } (1/2 : ℝ)), (.recip { red := true } (.var { red := true } "x"))])

noncomputable def runK1E23 : Expr ℝ :=
  (.mul {} [(.var { red := true } "x"), (.recip { red := true } (.var { red := true } "x")), (.const {} (1 : ℝ))])

noncomputable def runK1E24 : Expr ℝ :=
  (.mul {} [(.var { red := true } "x"), (.recip { red := true } (.var { red := true } "x")), (.const { red := true } (1 : ℝ))])

noncomputable def runK1E25 : Expr ℝ :=
  (.mul {} [(.var { red := true } "x"), (.recip { red := true } (.var { red := true } "x"))])

noncomputable def runK1E26 : Expr ℝ :=
  (.mul { red := true } [(.var { red := true } "x"), (.recip { red := true } (.var { red := true } "x"))])

theorem runK1_step0 : stepF realNum runK1E0 = (runK1E1, .flag) := by
  unfold runK1E0 runK1E1; replay_step_simp

theorem runK1_step1 : stepF realNum runK1E1 = (runK1E2, .flag) := by
  unfold runK1E1 runK1E2; replay_step_simp

theorem runK1_step2 : stepF realNum runK1E2 = (runK1E3, (.rule .npowOne)) := by
  unfold runK1E2 runK1E3; replay_step_simp

theorem runK1_step3 : stepF realNum runK1E3 = (runK1E4, .flag) := by
  unfold runK1E3 runK1E4; replay_step_simp

theorem runK1_step4 : stepF realNum runK1E4 = (runK1E5, (.rule .mulOnes)) := by
  unfold runK1E4 runK1E5; replay_step_simp

theorem runK1_step5 : stepF realNum runK1E5 = (runK1E6, .flag) := by
  unfold runK1E5 runK1E6; replay_step_simp

theorem runK1_step6 : stepF realNum runK1E6 = (runK1E7, .flag) := by
  unfold runK1E6 runK1E7; replay_step_simp

theorem runK1_step7 : stepF realNum runK1E7 = (runK1E8, .flag) := by
  unfold runK1E7 runK1E8; replay_step_simp

theorem runK1_step8 : stepF realNum runK1E8 = (runK1E9, .flag) := by
  unfold runK1E8 runK1E9; replay_step_simp

theorem runK1_step9 : stepF realNum runK1E9 = (runK1E10, (.rule .nrootPow)) := by
  unfold runK1E9 runK1E10; replay_step_simp

theorem runK1_step10 : stepF realNum runK1E10 = (runK1E11, .flag) := by
  unfold runK1E10 runK1E11; replay_step_simp

theorem runK1_step11 : stepF realNum runK1E11 = (runK1E12, (.rule .npowRoot)) := by
  unfold runK1E11 runK1E12; replay_step_simp

theorem runK1_step12 : stepF realNum runK1E12 = (runK1E13, (.rule .npowOne)) := by
  unfold runK1E12 runK1E13; replay_step_simp

theorem runK1_step13 : stepF realNum runK1E13 = (runK1E14, .flag) := by
  unfold runK1E13 runK1E14; replay_step_simp

theorem runK1_step14 : stepF realNum runK1E14 = (runK1E15, (.rule .divToMul)) := by
  unfold runK1E14 runK1E15; replay_step_simp

theorem runK1_step15 : stepF realNum runK1E15 = (runK1E16, (.rule .recipProd)) := by
  unfold runK1E15 runK1E16; replay_step_simp

theorem runK1_step16 : stepF realNum runK1E16 = (runK1E17, .fold) := by
  unfold runK1E16 runK1E17; replay_step_simp

theorem runK1_step17 : stepF realNum runK1E17 = (runK1E18, .flag) := by
  unfold runK1E17 runK1E18; replay_step_simp

theorem runK1_step18 : stepF realNum runK1E18 = (runK1E19, .flag) := by
  unfold runK1E18 runK1E19; replay_step_simp

theorem runK1_step19 : stepF realNum runK1E19 = (runK1E20, .flag) := by
  unfold runK1E19 runK1E20; replay_step_simp

theorem runK1_step20 : stepF realNum runK1E20 = (runK1E21, (.rule .mulFlatten)) := by
  unfold runK1E20 runK1E21; replay_step_simp

theorem runK1_step21 : stepF realNum runK1E21 = (runK1E22, (.rule .mulFlatten)) := by
  unfold runK1E21 runK1E22; replay_step_simp

theorem runK1_step22 : stepF realNum runK1E22 = (runK1E23, (.rule .mulConsts)) := by
  unfold runK1E22 runK1E23; replay_step_simp

theorem runK1_step23 : stepF realNum runK1E23 = (runK1E24, .flag) := by
  unfold runK1E23 runK1E24; replay_step_simp

theorem runK1_step24 : stepF realNum runK1E24 = (runK1E25, (.rule .mulOnes)) := by
  unfold runK1E24 runK1E25; replay_step_simp

theorem runK1_step25 : stepF realNum runK1E25 = (runK1E26, .flag) := by
  unfold runK1E25 runK1E26; replay_step_simp

def runK1Evs : List StepEvent :=
  [.flag, .flag, (.rule .npowOne), .flag, (.rule .mulOnes), .flag, .flag, .flag, .flag, (.rule .nrootPow), .flag, (.rule .npowRoot), (.rule .npowOne), .flag, (.rule .divToMul), (.rule .recipProd), .fold, .flag, .flag, .flag, (.rule .mulFlatten), (.rule .mulFlatten), (.rule .mulConsts), .flag, (.rule .mulOnes), .flag]

theorem runK1_steps : ReplaySteps runK1E0 runK1Evs runK1E26 :=
  ReplaySteps.cons rfl runK1_step0 <|
    ReplaySteps.cons rfl runK1_step1 <|
    ReplaySteps.cons rfl runK1_step2 <|
    ReplaySteps.cons rfl runK1_step3 <|
    ReplaySteps.cons rfl runK1_step4 <|
    ReplaySteps.cons rfl runK1_step5 <|
    ReplaySteps.cons rfl runK1_step6 <|
    ReplaySteps.cons rfl runK1_step7 <|
    ReplaySteps.cons rfl runK1_step8 <|
    ReplaySteps.cons rfl runK1_step9 <|
    ReplaySteps.cons rfl runK1_step10 <|
    ReplaySteps.cons rfl runK1_step11 <|
    ReplaySteps.cons rfl runK1_step12 <|
    ReplaySteps.cons rfl runK1_step13 <|
    ReplaySteps.cons rfl runK1_step14 <|
    ReplaySteps.cons rfl runK1_step15 <|
    ReplaySteps.cons rfl runK1_step16 <|
    ReplaySteps.cons rfl runK1_step17 <|
    ReplaySteps.cons rfl runK1_step18 <|
    ReplaySteps.cons rfl runK1_step19 <|
    ReplaySteps.cons rfl runK1_step20 <|
    ReplaySteps.cons rfl runK1_step21 <|
    ReplaySteps.cons rfl runK1_step22 <|
    ReplaySteps.cons rfl runK1_step23 <|
    ReplaySteps.cons rfl runK1_step24 <|
    ReplaySteps.cons rfl runK1_step25 <|
    ReplaySteps.nil _

/-! ### replayed run 2: the raw symbolic partial of `x * NthRoot(NthPower(x, 2), 2)` -/

noncomputable def runXabsE0 : Expr ℝ :=
  (.add {} [(.mul {} [(.const {} (1 : ℝ)), (.nroot {} (.npow {} (.var {} "x") 2) 2)]), (.mul {} [(.div {} (.mul {} [(.const {} (2 : ℝ)), (.npow {} (.var {} "x") 1), (.const {} (1 : ℝ))]) (.mul {} [(.const {} (2 : ℝ)), (.npow {} (.nroot {} (.npow {} (.var {} "x") 2) 2) 1)])), (.var {} "x")])])

noncomputable def runXabsE1 : Expr ℝ :=
  (.add {} [(.mul {} [(.const { red := true } (1 : ℝ)), (.nroot {} (.npow {} (.var {} "x") 2) 2)]), (.mul {} [(.div {} (.mul {} [(.const {} (2 : ℝ)), (.npow {} (.var {} "x") 1), (.const {} (1 : ℝ))]) (.mul {} [(.const {} (2 : ℝ)), (.npow {} (.nroot {} (.npow {} (.var {} "x") 2) 2) 1)])), (.var {} "x")])])

noncomputable def runXabsE2 : Expr ℝ :=
  (.add {} [(.mul {} [(.const { red := true } (1 : ℝ)), (.nroot {} (.npow {} (.var { red := true } "x") 2) 2)]), (.mul {} [(.div {} (.mul {} [(.const {} (2 : ℝ)), (.npow {} (.var {} "x") 1), (.const {} (1 : ℝ))]) (.mul {} [(.const {} (2 : ℝ)), (.npow {} (.nroot {} (.npow {} (.var {} "x") 2) 2) 1)])), (.var {} "x")])])

noncomputable def runXabsE3 : Expr ℝ :=
  (.add {} [(.mul {} [(.const { red := true } (1 : ℝ)), (.nroot {} (.npow { red := true } (.var { red := true } "x") 2) 2)]), (.mul {} [(.div {} (.mul {} [(.const {} (2 : ℝ)), (.npow {} (.var {} "x") 1), (.const {} (1 : ℝ))]) (.mul {} [(.const {} (2 : ℝ)), (.npow {} (.nroot {} (.npow {} (.var {} "x") 2) 2) 1)])), (.var {} "x")])])

noncomputable def runXabsE4 : Expr ℝ :=
  (.add {} [(.mul {} [(.const { red := true } (1 : ℝ)), (.npow {} (.nroot {} (.var { red := true } "x") 2) 2)]), (.mul {} [(.div {} (.mul {} [(.const {} (2 : ℝ)), (.npow {} (.var {} "x") 1), (.const {} (1 : ℝ))]) (.mul {} [(.const {} (2 : ℝ)), (.npow {} (.nroot {} (.npow {} (.var {} "x") 2) 2) 1)])), (.var {} "x")])])

noncomputable def runXabsE5 : Expr ℝ :=
  (.add {} [(.mul {} [(.const { red := true } (1 : ℝ)), (.npow {} (.nroot { red := true } (.var { red := true } "x") 2) 2)]), (.mul {} [(.div {} (.mul {} [(.const {} (2 : ℝ)), (.npow {} (.var {} "x") 1), (.const {} (1 : ℝ))]) (.mul {} [(.const {} (2 : ℝ)), (.npow {} (.nroot {} (.npow {} (.var {} "x") 2) 2) 1)])), (.var {} "x")])])

noncomputable def runXabsE6 : Expr ℝ :=
  (.add {} [(.mul {} [(.const { red := true } (1 : ℝ)), (.var { red := true } "x")]), (.mul {} [(.div {} (.mul {} [(.const {} (2 : ℝ)), (.npow {} (.var {} "x") 1), (.const {} (1 : ℝ))]) (.mul {} [(.const {} (2 : ℝ)), (.npow {} (.nroot {} (.npow {} (.var {} "x") 2) 2) 1)])), (.var {} "x")])])

noncomputable def runXabsE7 : Expr ℝ :=
  (.add {} [(.mul {} [(.var { red := true } "x")]), (.mul {} [(.div {} (.mul {} [(.const {} (2 : ℝ)), (.npow {} (.var {} "x") 1), (.const {} (1 : ℝ))]) (.mul {} [(.const {} (2 : ℝ)), (.npow {} (.nroot {} (.npow {} (.var {} "x") 2) 2) 1)])), (.var {} "x")])])

noncomputable def runXabsE8 : Expr ℝ :=
  (.add {} [(.mul { red := true } [(.var { red := true } "x")]), (.mul {} [(.div {} (.mul {} [(.const {} (2 : ℝ)), (.npow {} (.var {} "x") 1), (.const {} (1 : ℝ))]) (.mul {} [(.const {} (2 : ℝ)), (.npow {} (.nroot {} (.npow {} (.var {} "x") 2) 2) 1)])), (.var {} "x")])])

noncomputable def runXabsE9 : Expr ℝ :=
  (.add {} [(.mul { red := true } [(.var { red := true } "x")]), (.mul {} [(.div {} (.mul {} [(.const { red := true } (2 : ℝ)), (.npow {} (.var {} "x") 1), (.const {} (1 : ℝ))]) (.mul {} [(.const {} (2 : ℝ)), (.npow {} (.nroot {} (.npow {} (.var {} "x") 2) 2) 1)])), (.var {} "x")])])

noncomputable def runXabsE10 : Expr ℝ :=
  (.add {} [(.mul { red := true } [(.var { red := true } "x")]), (.mul {} [(.div {} (.mul {} [(.const { red := true } (2 : ℝ)), (.npow {} (.var { red := true } "x") 1), (.const {} (1 : ℝ))]) (.mul {} [(.const {} (2 : ℝ)), (.npow {} (.nroot {} (.npow {} (.var {} "x") 2) 2) 1)])), (.var {} "x")])])

noncomputable def runXabsE11 : Expr ℝ :=
  (.add {} [(.mul { red := true } [(.var { red := true } "x")]), (.mul {} [(.div {} (.mul {} [(.const { red := true } (2 : ℝ)), (.var { red := true } "x"), (.const {} (1 : ℝ))]) (.mul {} [(.const {} (2 : ℝ)), (.npow {} (.nroot {} (.npow {} (.var {} "x") 2) 2) 1)])), (.var {} "x")])])

noncomputable def runXabsE12 : Expr ℝ :=
  (.add {} [(.mul { red := true } [(.var { red := true } "x")]), (.mul {} [(.div {} (.mul {} [(.const { red := true } (2 : ℝ)), (.var { red := true } "x"), (.const { red := true } (1 : ℝ))]) (.mul {} [(.const {} (2 : ℝ)), (.npow {} (.nroot {} (.npow {} (.var {} "x") 2) 2) 1)])), (.var {} "x")])])

noncomputable def runXabsE13 : Expr ℝ :=
  (.add {} [(.mul { red := true } [(.var { red := true } "x")]), (.mul {} [(.div {} (.mul {} [(.const { red := true } (2 : ℝ)), (.var { red := true } "x")]) (.mul {} [(.const {} (2 : ℝ)), (.npow {} (.nroot {} (.npow {} (.var {} "x") 2) 2) 1)])), (.var {} "x")])])

noncomputable def runXabsE14 : Expr ℝ :=
  (.add {} [(.mul { red := true } [(.var { red := true } "x")]), (.mul {} [(.div {} (.mul { red := true } [(.const { red := true } (2 : ℝ)), (.var { red := true } "x")]) (.mul {} [(.const {} (2 : ℝ)), (.npow {} (.nroot {} (.npow {} (.var {} "x") 2) 2) 1)])), (.var {} "x")])])

noncomputable def runXabsE15 : Expr ℝ :=
  (.add {} [(.mul { red := true } [(.var { red := true } "x")]), (.mul {} [(.div {} (.mul { red := true } [(.const { red := true } (2 : ℝ)), (.var { red := true } "x")]) (.mul {} [(.const { red := true } (2 : ℝ)), (.npow {} (.nroot {} (.npow {} (.var {} "x") 2) 2) 1)])), (.var {} "x")])])

noncomputable def runXabsE16 : Expr ℝ :=
  (.add {} [(.mul { red := true } [(.var { red := true } "x")]), (.mul {} [(.div {} (.mul { red := true } [(.const { red := true } (2 : ℝ)), (.var { red := true } "x")]) (.mul {} [(.const { red := true } (2 : ℝ)), (.npow {} (.nroot {} (.npow {} (.var { red := true } "x") 2) 2) 1)])), (.var {} "x")])])

noncomputable def runXabsE17 : Expr ℝ :=
  (.add {} [(.mul { red := true } [(.var { red := true } "x")]), (.mul {} [(.div {} (.mul { red := true } [(.const { red := true } (2 : ℝ)), (.var { red := true } "x")]) (.mul {} [(.const { red := true } (2 : ℝ)), (.npow {} (.nroot {} (.npow { red := true } (.var { red := true } "x") 2) 2) 1)])), (.var {} "x")])])

noncomputable def runXabsE18 : Expr ℝ :=
  (.add {} [(.mul { red := true } [(.var { red := true } "x")]), (.mul {} [(.div {} (.mul { red := true } [(.const { red := true } (2 : ℝ)), (.var { red := true } "x")]) (.mul {} [(.const { red := true } (2 : ℝ)), (.npow {} (.npow {} (.nroot {} (.var { red := true } "x") 2) 2) 1)])), (.var {} "x")])])

noncomputable def runXabsE19 : Expr ℝ :=
  (.add {} [(.mul { red := true } [(.var { red := true } "x")]), (.mul {} [(.div {} (.mul { red := true } [(.const { red := true } (2 : ℝ)), (.var { red := true } "x")]) (.mul {} [(.const { red := true } (2 : ℝ)), (.npow {} (.npow {} (.nroot { red := true } (.var { red := true } "x") 2) 2) 1)])), (.var {} "x")])])

noncomputable def runXabsE20 : Expr ℝ :=
  (.add {} [(.mul { red := true } [(.var { red := true } "x")]), (.mul {} [(.div {} (.mul { red := true } [(.const { red := true } (2 : ℝ)), (.var { red := true } "x")]) (.mul {} [(.const { red := true } (2 : ℝ)), (.npow {} (.var { red := true } "x") 1)])), (.var {} "x")])])

noncomputable def runXabsE21 : Expr ℝ :=
  (.add {} [(.mul { red := true } [(.var { red := true } "x")]), (.mul {} [(.div {} (.mul { red := true } [(.const { red := true } (2 : ℝ)), (.var { red := true } "x")]) (.mul {} [(.const { red := true } (2 : ℝ)), (.var { red := true } "x")])), (.var {} "x")])])

noncomputable def runXabsE22 : Expr ℝ :=
  (.add {} [(.mul { red := true } [(.var { red := true } "x")]), (.mul {} [(.div {} (.mul { red := true } [(.const { red := true } (2 : ℝ)), (.var { red := true } "x")]) (.mul { red := true } [(.const { red := true } (2 : ℝ)), (.var { red := true } "x")])), (.var {} "x")])])

noncomputable def runXabsE23 : Expr ℝ :=
  (.add {} [(.mul { red := true } [(.var { red := true } "x")]), (.mul {} [(.mul {} [(.mul { red := true } [(.const { red := true } (2 : ℝ)), (.var { red := true } "x")]), (.recip {} (.mul { red := true } [(.const { red := true } (2 : ℝ)), (.var { red := true } "x")]))]), (.var {} "x")])])

noncomputable def runXabsE24 : Expr ℝ :=
  (.add {} [(.mul { red := true } [(.var { red := true } "x")]), (.mul {} [(.mul {} [(.mul { red := true } [(.const { red := true } (2 : ℝ)), (.var { red := true } "x")]), (.mul {} [(.recip {} (.const { red := true } (2 : ℝ))), (.recip {} (.var { red := true } "x"))])]), (.var {} "x")])])

noncomputable def runXabsE25 : Expr ℝ :=
  (.add {} [(.mul { red := true } [(.var { red := true } "x")]), (.mul {} [(.mul {} [(.mul { red := true } [(.const { red := true } (2 : ℝ)), (.var { red := true } "x")]), (.mul {} [(.const {} (1/2 : ℝ)), (.recip {} (.var { red := true } "x"))])]), (.var {} "x")])])

noncomputable def runXabsE26 : Expr ℝ :=
  (.add {} [(.mul { red := true } [(.var { red := true } "x")]), (.mul {} [(.mul {} [(.mul { red := true } [(.const { red := true } (2 : ℝ)), (.var { red := true } "x")]), (.mul {} [(.const { red := true } (1/2 : ℝ)), (.recip {} (.var { red := true } "x"))])]), (.var {} "x")])])

noncomputable def runXabsE27 : Expr ℝ :=
  (.add {} [(.mul { red := true } [(.var { red := true } "x")]), (.mul {} [(.mul {} [(.mul { red := true } [(.const { red := true } (2 : ℝ)), (.var { red := true } "x")]), (.mul {} [(.const { red := true } (1/2 : ℝ)), (.recip { red := true } (.var { red := true } "x"))])]), (.var {} "x")])])

noncomputable def runXabsE28 : Expr ℝ :=
  (.add {} [(.mul { red := true } [(.var { red := true } "x")]), (.mul {} [(.mul {} [(.mul { red := true } [(.const { red := true } (2 : ℝ)), (.var { red := true } "x")]), (.mul { red := true } [(.const { red := true } (1/2 : ℝ)), (.recip { red := true } (.var { red := true } "x"))])]), (.var {} "x")])])

noncomputable def runXabsE29 : Expr ℝ :=
  (.add {} [(.mul { red := true } [(.var { red := true } "x")]), (.mul {} [(.mul {} [(.const { red := true } (2 : ℝ)), (.var { red := true } "x"), (.mul { red := true } [(.const { red := true } (1/2 : ℝ)), (.recip { red := true } (.var { red := true } "x"))])]), (.var {} "x")])])

noncomputable def runXabsE30 : Expr ℝ :=
  (.add {} [(.mul { red := true } [(.var { red := true } "x")]), (.mul {} [(.mul {} [(.const { red := true } (2 : ℝ)), (.var { red := true } "x"), (.const { red := true } (1/2 : ℝ)), (.recip { red := true } (.var { red := true } "x"))]), (.var {} "x")])])

noncomputable def runXabsE31 : Expr ℝ :=
  (.add {} [(.mul { red := true } [(.var { red := true } "x")]), (.mul {} [(.mul {} [(.var { red := true } "x"), (.recip { red := true } (.var { red := true } "x")), (.const {} (1 : ℝ))]), (.var {} "x")])])

noncomputable def runXabsE32 : Expr ℝ :=
  (.add {} [(.mul { red := true } [(.var { red := true } "x")]), (.mul {} [(.mul {} [(.var { red := true } "x"), (.recip { red := true } (.var { red := true } "x")), (.const { red := true } (1 : ℝ))]), (.var {} "x")])])

noncomputable def runXabsE33 : Expr ℝ :=
  (.add {} [(.mul { red := true } [(.var { red := true } "x")]), (.mul {} [(.mul {} [(.var { red := true } "x"), (.recip { red := true } (.var { red := true } "x"))]), (.var {} "x")])])

noncomputable def runXabsE34 : Expr ℝ :=
  (.add {} [(.mul { red := true } [(.var { red := true } "x")]), (.mul {} [(.mul { red := true } [(.var { red := true } "x"), (.recip { red := true } (.var { red := true } "x"))]), (.var {} "x")])])

noncomputable def runXabsE35 : Expr ℝ :=
  (.add {} [(.mul { red := true } [(.var { red := true } "x")]), (.mul {} [(.mul { red := true } [(.var { red := true } "x"), (.recip { red := true } (.var { red := true } "x"))]), (.var { red := true } "x")])])

noncomputable def runXabsE36 : Expr ℝ :=
  (.add {} [(.mul { red := true } [(.var { red := true } "x")]), (.mul {} [(.var { red := true } "x"), (.recip { red := true } (.var { red := true } "x")), (.var { red := true } "x")])])

noncomputable def runXabsE37 : Expr ℝ :=
  (.add {} [(.mul { red := true } [(.var { red := true } "x")]), (.mul { red := true } [(.var { red := true } "x"), (.recip { red := true } (.var { red := true } "x")), (.var { red := true } "x")])])

noncomputable def runXabsE38 : Expr ℝ :=
  (.add { red := true } [(.mul { red := true } [(.var { red := true } "x")]), (.mul { red := true } [(.var { red := true } "x"), (.recip { red := true } (.var { red := true } "x")), (.var { red := true } "x")])])

theorem runXabs_step0 : stepF realNum runXabsE0 = (runXabsE1, .flag) := by
  unfold runXabsE0 runXabsE1; replay_step_simp

theorem runXabs_step1 : stepF realNum runXabsE1 = (runXabsE2, .flag) := by
  unfold runXabsE1 runXabsE2; replay_step_simp

theorem runXabs_step2 : stepF realNum runXabsE2 = (runXabsE3, .flag) := by
  unfold runXabsE2 runXabsE3; replay_step_simp

theorem runXabs_step3 : stepF realNum runXabsE3 = (runXabsE4, (.rule .nrootPow)) := by
  unfold runXabsE3 runXabsE4; replay_step_simp

theorem runXabs_step4 : stepF realNum runXabsE4 = (runXabsE5, .flag) := by
  unfold runXabsE4 runXabsE5; replay_step_simp

theorem runXabs_step5 : stepF realNum runXabsE5 = (runXabsE6, (.rule .npowRoot)) := by
  unfold runXabsE5 runXabsE6; replay_step_simp

theorem runXabs_step6 : stepF realNum runXabsE6 = (runXabsE7, (.rule .mulOnes)) := by
  unfold runXabsE6 runXabsE7; replay_step_simp

theorem runXabs_step7 : stepF realNum runXabsE7 = (runXabsE8, .flag) := by
  unfold runXabsE7 runXabsE8; replay_step_simp

theorem runXabs_step8 : stepF realNum runXabsE8 = (runXabsE9, .flag) := by
  unfold runXabsE8 runXabsE9; replay_step_simp

theorem runXabs_step9 : stepF realNum runXabsE9 = (runXabsE10, .flag) := by
  unfold runXabsE9 runXabsE10; replay_step_simp

theorem runXabs_step10 : stepF realNum runXabsE10 = (runXabsE11, (.rule .npowOne)) := by
  unfold runXabsE10 runXabsE11; replay_step_simp

theorem runXabs_step11 : stepF realNum runXabsE11 = (runXabsE12, .flag) := by
  unfold runXabsE11 runXabsE12; replay_step_simp

theorem runXabs_step12 : stepF realNum runXabsE12 = (runXabsE13, (.rule .mulOnes)) := by
  unfold runXabsE12 runXabsE13; replay_step_simp

theorem runXabs_step13 : stepF realNum runXabsE13 = (runXabsE14, .flag) := by
  unfold runXabsE13 runXabsE14; replay_step_simp

theorem runXabs_step14 : stepF realNum runXabsE14 = (runXabsE15, .flag) := by
  unfold runXabsE14 runXabsE15; replay_step_simp

theorem runXabs_step15 : stepF realNum runXabsE15 = (runXabsE16, .flag) := by
  unfold runXabsE15 runXabsE16; replay_step_simp

theorem runXabs_step16 : stepF realNum runXabsE16 = (runXabsE17, .flag) := by
  unfold runXabsE16 runXabsE17; replay_step_simp

theorem runXabs_step17 : stepF realNum runXabsE17 = (runXabsE18, (.rule .nrootPow)) := by
  unfold runXabsE17 runXabsE18; replay_step_simp

theorem runXabs_step18 : stepF realNum runXabsE18 = (runXabsE19, .flag) := by
  unfold runXabsE18 runXabsE19; replay_step_simp

theorem runXabs_step19 : stepF realNum runXabsE19 = (runXabsE20, (.rule .npowRoot)) := by
  unfold runXabsE19 runXabsE20; replay_step_simp

theorem runXabs_step20 : stepF realNum runXabsE20 = (runXabsE21, (.rule .npowOne)) := by
  unfold runXabsE20 runXabsE21; replay_step_simp

theorem runXabs_step21 : stepF realNum runXabsE21 = (runXabsE22, .flag) := by
  unfold runXabsE21 runXabsE22; replay_step_simp

theorem runXabs_step22 : stepF realNum runXabsE22 = (runXabsE23, (.rule .divToMul)) := by
  unfold runXabsE22 runXabsE23; replay_step_simp

theorem runXabs_step23 : stepF realNum runXabsE23 = (runXabsE24, (.rule .recipProd)) := by
  unfold runXabsE23 runXabsE24; replay_step_simp

theorem runXabs_step24 : stepF realNum runXabsE24 = (runXabsE25, .fold) := by
  unfold runXabsE24 runXabsE25; replay_step_simp

theorem runXabs_step25 : stepF realNum runXabsE25 = (runXabsE26, .flag) := by
  unfold runXabsE25 runXabsE26; replay_step_simp

theorem runXabs_step26 : stepF realNum runXabsE26 = (runXabsE27, .flag) := by
  unfold runXabsE26 runXabsE27; replay_step_simp

theorem runXabs_step27 : stepF realNum runXabsE27 = (runXabsE28, .flag) := by
  unfold runXabsE27 runXabsE28; replay_step_simp

theorem runXabs_step28 : stepF realNum runXabsE28 = (runXabsE29, (.rule .mulFlatten)) := by
  unfold runXabsE28 runXabsE29; replay_step_simp

theorem runXabs_step29 : stepF realNum runXabsE29 = (runXabsE30, (.rule .mulFlatten)) := by
  unfold runXabsE29 runXabsE30; replay_step_simp

theorem runXabs_step30 : stepF realNum runXabsE30 = (runXabsE31, (.rule .mulConsts)) := by
  unfold runXabsE30 runXabsE31; replay_step_simp

theorem runXabs_step31 : stepF realNum runXabsE31 = (runXabsE32, .flag) := by
  unfold runXabsE31 runXabsE32; replay_step_simp

theorem runXabs_step32 : stepF realNum runXabsE32 = (runXabsE33, (.rule .mulOnes)) := by
  unfold runXabsE32 runXabsE33; replay_step_simp

theorem runXabs_step33 : stepF realNum runXabsE33 = (runXabsE34, .flag) := by
  unfold runXabsE33 runXabsE34; replay_step_simp

theorem runXabs_step34 : stepF realNum runXabsE34 = (runXabsE35, .flag) := by
  unfold runXabsE34 runXabsE35; replay_step_simp

theorem runXabs_step35 : stepF realNum runXabsE35 = (runXabsE36, (.rule .mulFlatten)) := by
  unfold runXabsE35 runXabsE36; replay_step_simp

theorem runXabs_step36 : stepF realNum runXabsE36 = (runXabsE37, .flag) := by
  unfold runXabsE36 runXabsE37; replay_step_simp

theorem runXabs_step37 : stepF realNum runXabsE37 = (runXabsE38, .flag) := by
  unfold runXabsE37 runXabsE38; replay_step_simp

def runXabsEvs : List StepEvent :=
  [.flag, .flag, .flag, (.rule .nrootPow), .flag, (.rule .npowRoot), (.rule .mulOnes), .flag, .flag, .flag, (.rule .npowOne), .flag, (.rule .mulOnes), .flag, .flag, .flag, .flag, (.rule .nrootPow), .flag, (.rule .npowRoot), (.rule .npowOne), .flag, (.rule .divToMul), (.rule .recipProd), .fold, .flag, .flag, .flag, (.rule .mulFlatten), (.rule .mulFlatten), (.rule .mulConsts), .flag, (.rule .mulOnes), .flag, .flag, (.rule .mulFlatten), .flag, .flag]

theorem runXabs_steps : ReplaySteps runXabsE0 runXabsEvs runXabsE38 :=
  ReplaySteps.cons rfl runXabs_step0 <|
    ReplaySteps.cons rfl runXabs_step1 <|
    ReplaySteps.cons rfl runXabs_step2 <|
    ReplaySteps.cons rfl runXabs_step3 <|
    ReplaySteps.cons rfl runXabs_step4 <|
    ReplaySteps.cons rfl runXabs_step5 <|
    ReplaySteps.cons rfl runXabs_step6 <|
    ReplaySteps.cons rfl runXabs_step7 <|
    ReplaySteps.cons rfl runXabs_step8 <|
    ReplaySteps.cons rfl runXabs_step9 <|
    ReplaySteps.cons rfl runXabs_step10 <|
    ReplaySteps.cons rfl runXabs_step11 <|
    ReplaySteps.cons rfl runXabs_step12 <|
    ReplaySteps.cons rfl runXabs_step13 <|
    ReplaySteps.cons rfl runXabs_step14 <|
    ReplaySteps.cons rfl runXabs_step15 <|
    ReplaySteps.cons rfl runXabs_step16 <|
    ReplaySteps.cons rfl runXabs_step17 <|
    ReplaySteps.cons rfl runXabs_step18 <|
    ReplaySteps.cons rfl runXabs_step19 <|
    ReplaySteps.cons rfl runXabs_step20 <|
    ReplaySteps.cons rfl runXabs_step21 <|
    ReplaySteps.cons rfl runXabs_step22 <|
    ReplaySteps.cons rfl runXabs_step23 <|
    ReplaySteps.cons rfl runXabs_step24 <|
    ReplaySteps.cons rfl runXabs_step25 <|
    ReplaySteps.cons rfl runXabs_step26 <|
    ReplaySteps.cons rfl runXabs_step27 <|
    ReplaySteps.cons rfl runXabs_step28 <|
    ReplaySteps.cons rfl runXabs_step29 <|
    ReplaySteps.cons rfl runXabs_step30 <|
    ReplaySteps.cons rfl runXabs_step31 <|
    ReplaySteps.cons rfl runXabs_step32 <|
    ReplaySteps.cons rfl runXabs_step33 <|
    ReplaySteps.cons rfl runXabs_step34 <|
    ReplaySteps.cons rfl runXabs_step35 <|
    ReplaySteps.cons rfl runXabs_step36 <|
    ReplaySteps.cons rfl runXabs_step37 <|
    ReplaySteps.nil _

/-! ### replayed run 3: the raw symbolic partial of `x * sin x` -/

noncomputable def runXsinE0 : Expr ℝ :=
  (.add {} [(.mul {} [(.const {} (1 : ℝ)), (.sin {} (.var {} "x"))]), (.mul {} [(.mul {} [(.cos {} (.var {} "x")), (.const {} (1 : ℝ))]), (.var {} "x")])])

noncomputable def runXsinE1 : Expr ℝ :=
  (.add {} [(.mul {} [(.const { red := true } (1 : ℝ)), (.sin {} (.var {} "x"))]), (.mul {} [(.mul {} [(.cos {} (.var {} "x")), (.const {} (1 : ℝ))]), (.var {} "x")])])

noncomputable def runXsinE2 : Expr ℝ :=
  (.add {} [(.mul {} [(.const { red := true } (1 : ℝ)), (.sin {} (.var { red := true } "x"))]), (.mul {} [(.mul {} [(.cos {} (.var {} "x")), (.const {} (1 : ℝ))]), (.var {} "x")])])

noncomputable def runXsinE3 : Expr ℝ :=
  (.add {} [(.mul {} [(.const { red := true } (1 : ℝ)), (.sin { red := true } (.var { red := true } "x"))]), (.mul {} [(.mul {} [(.cos {} (.var {} "x")), (.const {} (1 : ℝ))]), (.var {} "x")])])

noncomputable def runXsinE4 : Expr ℝ :=
  (.add {} [(.mul {} [(.sin { red := true } (.var { red := true } "x"))]), (.mul {} [(.mul {} [(.cos {} (.var {} "x")), (.const {} (1 : ℝ))]), (.var {} "x")])])

noncomputable def runXsinE5 : Expr ℝ :=
  (.add {} [(.mul { red := true } [(.sin { red := true } (.var { red := true } "x"))]), (.mul {} [(.mul {} [(.cos {} (.var {} "x")), (.const {} (1 : ℝ))]), (.var {} "x")])])

noncomputable def runXsinE6 : Expr ℝ :=
  (.add {} [(.mul { red := true } [(.sin { red := true } (.var { red := true } "x"))]), (.mul {} [(.mul {} [(.cos {} (.var { red := true } "x")), (.const {} (1 : ℝ))]), (.var {} "x")])])

noncomputable def runXsinE7 : Expr ℝ :=
  (.add {} [(.mul { red := true } [(.sin { red := true } (.var { red := true } "x"))]), (.mul {} [(.mul {} [(.cos { red := true } (.var { red := true } "x")), (.const {} (1 : ℝ))]), (.var {} "x")])])

noncomputable def runXsinE8 : Expr ℝ :=
  (.add {} [(.mul { red := true } [(.sin { red := true } (.var { red := true } "x"))]), (.mul {} [(.mul {} [(.cos { red := true } (.var { red := true } "x")), (.const { red := true } (1 : ℝ))]), (.var {} "x")])])

noncomputable def runXsinE9 : Expr ℝ :=
  (.add {} [(.mul { red := true } [(.sin { red := true } (.var { red := true } "x"))]), (.mul {} [(.mul {} [(.cos { red := true } (.var { red := true } "x"))]), (.var {} "x")])])

noncomputable def runXsinE10 : Expr ℝ :=
  (.add {} [(.mul { red := true } [(.sin { red := true } (.var { red := true } "x"))]), (.mul {} [(.mul { red := true } [(.cos { red := true } (.var { red := true } "x"))]), (.var {} "x")])])

noncomputable def runXsinE11 : Expr ℝ :=
  (.add {} [(.mul { red := true } [(.sin { red := true } (.var { red := true } "x"))]), (.mul {} [(.mul { red := true } [(.cos { red := true } (.var { red := true } "x"))]), (.var { red := true } "x")])])

noncomputable def runXsinE12 : Expr ℝ :=
  (.add {} [(.mul { red := true } [(.sin { red := true } (.var { red := true } "x"))]), (.mul {} [(.cos { red := true } (.var { red := true } "x")), (.var { red := true } "x")])])

noncomputable def runXsinE13 : Expr ℝ :=
  (.add {} [(.mul { red := true } [(.sin { red := true } (.var { red := true } "x"))]), (.mul { red := true } [(.cos { red := true } (.var { red := true } "x")), (.var { red := true } "x")])])

noncomputable def runXsinE14 : Expr ℝ :=
  (.add { red := true } [(.mul { red := true } [(.sin { red := true } (.var { red := true } "x"))]), (.mul { red := true } [(.cos { red := true } (.var { red := true } "x")), (.var { red := true } "x")])])

theorem runXsin_step0 : stepF realNum runXsinE0 = (runXsinE1, .flag) := by
  unfold runXsinE0 runXsinE1; replay_step_simp

theorem runXsin_step1 : stepF realNum runXsinE1 = (runXsinE2, .flag) := by
  unfold runXsinE1 runXsinE2; replay_step_simp

theorem runXsin_step2 : stepF realNum runXsinE2 = (runXsinE3, .flag) := by
  unfold runXsinE2 runXsinE3; replay_step_simp

theorem runXsin_step3 : stepF realNum runXsinE3 = (runXsinE4, (.rule .mulOnes)) := by
  unfold runXsinE3 runXsinE4; replay_step_simp

theorem runXsin_step4 : stepF realNum runXsinE4 = (runXsinE5, .flag) := by
  unfold runXsinE4 runXsinE5; replay_step_simp

theorem runXsin_step5 : stepF realNum runXsinE5 = (runXsinE6, .flag) := by
  unfold runXsinE5 runXsinE6; replay_step_simp

theorem runXsin_step6 : stepF realNum runXsinE6 = (runXsinE7, .flag) := by
  unfold runXsinE6 runXsinE7; replay_step_simp

theorem runXsin_step7 : stepF realNum runXsinE7 = (runXsinE8, .flag) := by
  unfold runXsinE7 runXsinE8; replay_step_simp

theorem runXsin_step8 : stepF realNum runXsinE8 = (runXsinE9, (.rule .mulOnes)) := by
  unfold runXsinE8 runXsinE9; replay_step_simp

theorem runXsin_step9 : stepF realNum runXsinE9 = (runXsinE10, .flag) := by
  unfold runXsinE9 runXsinE10; replay_step_simp

theorem runXsin_step10 : stepF realNum runXsinE10 = (runXsinE11, .flag) := by
  unfold runXsinE10 runXsinE11; replay_step_simp

theorem runXsin_step11 : stepF realNum runXsinE11 = (runXsinE12, (.rule .mulFlatten)) := by
  unfold runXsinE11 runXsinE12; replay_step_simp

theorem runXsin_step12 : stepF realNum runXsinE12 = (runXsinE13, .flag) := by
  unfold runXsinE12 runXsinE13; replay_step_simp

theorem runXsin_step13 : stepF realNum runXsinE13 = (runXsinE14, .flag) := by
  unfold runXsinE13 runXsinE14; replay_step_simp

def runXsinEvs : List StepEvent :=
  [.flag, .flag, .flag, (.rule .mulOnes), .flag, .flag, .flag, .flag, (.rule .mulOnes), .flag, .flag, (.rule .mulFlatten), .flag, .flag]

theorem runXsin_steps : ReplaySteps runXsinE0 runXsinEvs runXsinE14 :=
  ReplaySteps.cons rfl runXsin_step0 <|
    ReplaySteps.cons rfl runXsin_step1 <|
    ReplaySteps.cons rfl runXsin_step2 <|
    ReplaySteps.cons rfl runXsin_step3 <|
    ReplaySteps.cons rfl runXsin_step4 <|
    ReplaySteps.cons rfl runXsin_step5 <|
    ReplaySteps.cons rfl runXsin_step6 <|
    ReplaySteps.cons rfl runXsin_step7 <|
    ReplaySteps.cons rfl runXsin_step8 <|
    ReplaySteps.cons rfl runXsin_step9 <|
    ReplaySteps.cons rfl runXsin_step10 <|
    ReplaySteps.cons rfl runXsin_step11 <|
    ReplaySteps.cons rfl runXsin_step12 <|
    ReplaySteps.cons rfl runXsin_step13 <|
    ReplaySteps.nil _

/-! ### the K1 witness, through the whole of `as_expression()` -/

theorem runK1_symFwd : symFwd realNum "x" (mkNRoot (mkNPow (mkVar "x") 2) 2 : Expr ℝ) = runK1E0 := by
  simp [symFwd, unarySymFormula, runK1E0]

theorem runK1_fullyReduce :
    fullyReduceWith realNum REDUCTION_STEPS_BOUND runK1E0 = ⟨runK1E26, false, runK1Evs.length, runK1Evs⟩ :=
  runK1_steps.fullyReduce rfl _ (by decide)

/-- the run does perform the rewrite `NthRoot(NthPower(·, 2), 2) ⇒ NthPower(NthRoot(·, 2), 2)` -/
theorem runK1_run_uses_nrootPow :
    StepEvent.rule .nrootPow ∈ (fullyReduce realNum runK1E0).trace := by
  rw [fullyReduce, runK1_fullyReduce]; decide

theorem runK1_normalizeF (fuel : Nat) (h : 4 ≤ fuel) :
    normalizeF realNum REDUCTION_STEPS_BOUND fuel runK1E0 =
      some (mkDiv (mkVar "x") (mkVar "x"), false) := by
  obtain ⟨f, rfl⟩ : ∃ f, fuel = f + 4 := ⟨fuel - 4, by omega⟩
  simp only [normalizeF, runK1_fullyReduce]
  simp [normReducedF, runK1E26, asRecip, mapM?, replay_nf_var, simplifiedMul, List.filterMap_cons]

theorem runK1_normalize : normalize realNum runK1E0 = some (mkDiv (mkVar "x") (mkVar "x"), false) :=
  runK1_normalizeF _ (by decide)

/-- `Partial(NthRoot(NthPower(x, 2), 2), "x").as_expression()` returns `Divide(x, x)` -/
theorem runK1_asExpression :
    (PartialObj.mk (mkNRoot (mkNPow (mkVar "x") 2) 2 : Expr ℝ) "x" none).asExpression realNum =
      .ok (mkDiv (mkVar "x") (mkVar "x"),
        ⟨mkNRoot (mkNPow (mkVar "x") 2) 2, "x", some (mkDiv (mkVar "x") (mkVar "x"))⟩, false) := by
  simp only [PartialObj.asExpression, retrieveSyntheticPartial, runK1_symFwd, runK1_normalize, liftFuel]
  rfl

theorem runK1_sroot_nine : sroot 2 ((-3 : ℝ) ^ 2) = 3 := by
  rw [show ((-3 : ℝ)) ^ 2 = 3 ^ 2 by norm_num, sroot_npow (by norm_num),
    sroot_pow_self (by norm_num) 3 (Or.inl (by norm_num))]

/-- at `x = -3` the expression `|x| = NthRoot(NthPower(x, 2), 2)` is defined and its partial
derivative (what forward mode and the raw symbolic partial give) is `-1` … -/
theorem runK1_true_partial :
    WF (mkNRoot (mkNPow (mkVar "x") 2) 2 : Expr ℝ) ∧
      Supp [("x", (-3 : ℝ))] (mkNRoot (mkNPow (mkVar "x") 2) 2 : Expr ℝ) ∧
      Dom (valOf [("x", (-3 : ℝ))]) (mkNRoot (mkNPow (mkVar "x") 2) 2 : Expr ℝ) ∧
      fwdG realNum [("x", (-3 : ℝ))] "x" (mkNRoot (mkNPow (mkVar "x") 2) 2 : Expr ℝ) = .ok (-1) := by
  have hwf : WF (mkNRoot (mkNPow (mkVar "x") 2) 2 : Expr ℝ) := by simp [WF]
  have hs : Supp [("x", (-3 : ℝ))] (mkNRoot (mkNPow (mkVar "x") 2) 2 : Expr ℝ) := by
    simp [Supp, Point.get?]
  have hd : Dom (valOf [("x", (-3 : ℝ))]) (mkNRoot (mkNPow (mkVar "x") 2) 2 : Expr ℝ) := by
    simp only [Dom, den, valOf, Point.get?]
    norm_num
  refine ⟨hwf, hs, hd, ?_⟩
  obtain ⟨d, hfd, _⟩ := (fwdR_spec [("x", (-3 : ℝ))] "x" _ hwf).1 hs hd
  obtain ⟨_, _, hval⟩ := symFwd_sound _ "x" _ hwf hs hd d hfd
  rw [hfd, ← hval, runK1_symFwd]
  simp only [runK1E0, den, denList, valOf, Point.get?, beq_self_eq_true, if_true, Option.getD_some,
    List.prod_cons, List.prod_nil, runK1_sroot_nine]
  norm_num

/-- … but the expression `as_expression()` returns evaluates to `+1` there -/
theorem runK1_returned_value :
    evalG realNum [("x", (-3 : ℝ))] (mkDiv (mkVar "x") (mkVar "x")) = .ok 1 := by
  refine (evalR_good _ _ (by simp [WF])).ok_iff.mpr ⟨by simp [Supp, Point.get?], ?_, ?_⟩
  · simp [Dom, den, valOf, Point.get?]
  · simp [den, valOf, Point.get?]

/-- hence it does not refine the raw symbolic partial -/
theorem runK1_not_refines :
    ¬ Refines (symFwd realNum "x" (mkNRoot (mkNPow (mkVar "x") 2) 2 : Expr ℝ))
      (mkDiv (mkVar "x") (mkVar "x")) := by
  intro hr
  obtain ⟨hwf, hs, hd, hfd⟩ := runK1_true_partial
  have := (refines_symFwd_facts hr hwf).2.2.2.2 _ hs hd
  rw [runK1_returned_value, hfd] at this
  injection this with this
  norm_num at this

/-! ### the same defect in `x * NthRoot(NthPower(x, 2), 2)` (= x·|x|) -/

theorem runXabs_symFwd :
    symFwd realNum "x" (mkMul [mkVar "x", mkNRoot (mkNPow (mkVar "x") 2) 2] : Expr ℝ) = runXabsE0 := by
  simp [symFwd, symFwdList, symMulTerms, symMulTermsGo, unarySymFormula, runXabsE0]

theorem runXabs_fullyReduce :
    fullyReduceWith realNum REDUCTION_STEPS_BOUND runXabsE0 = ⟨runXabsE38, false, runXabsEvs.length, runXabsEvs⟩ :=
  runXabs_steps.fullyReduce rfl _ (by decide)

theorem runXabs_nf_mul1 (fuel : Nat) (h : 4 ≤ fuel) :
    normalizeF realNum REDUCTION_STEPS_BOUND fuel (.mul { red := true } [.var { red := true } "x"]) =
      some (mkVar "x", false) := by
  obtain ⟨f, rfl⟩ : ∃ f, fuel = f + 4 := ⟨fuel - 4, by omega⟩
  simp only [normalizeF, replay_fullyReduceWith_of_red (.mul { red := true } [.var { red := true } "x"]) rfl]
  simp [normReducedF, asRecip, mapM?, replay_nf_var, simplifiedMul, List.filterMap_cons]

theorem runXabs_nf_mul3 (fuel : Nat) (h : 4 ≤ fuel) :
    normalizeF realNum REDUCTION_STEPS_BOUND fuel
        (.mul { red := true } [.var { red := true } "x", .recip { red := true } (.var { red := true } "x"),
          .var { red := true } "x"]) =
      some (mkDiv (mkMul [mkVar "x", mkVar "x"]) (mkVar "x"), false) := by
  obtain ⟨f, rfl⟩ : ∃ f, fuel = f + 4 := ⟨fuel - 4, by omega⟩
  simp only [normalizeF, replay_fullyReduceWith_of_red
    (.mul { red := true } [.var { red := true } "x", .recip { red := true } (.var { red := true } "x"),
      .var { red := true } "x"]) rfl]
  simp [normReducedF, asRecip, mapM?, replay_nf_var, simplifiedMul, List.filterMap_cons]

theorem runXabs_normalizeF (fuel : Nat) (h : 6 ≤ fuel) :
    normalizeF realNum REDUCTION_STEPS_BOUND fuel runXabsE0 =
      some (mkAdd [mkVar "x", mkDiv (mkMul [mkVar "x", mkVar "x"]) (mkVar "x")], false) := by
  obtain ⟨f, rfl⟩ : ∃ f, fuel = f + 6 := ⟨fuel - 6, by omega⟩
  simp only [normalizeF, runXabs_fullyReduce]
  simp [normReducedF, runXabsE38, asNeg, mapM?, runXabs_nf_mul1, runXabs_nf_mul3, simplifiedAdd,
    List.filterMap_cons]

/-- `Partial(x * NthRoot(NthPower(x, 2), 2), "x").as_expression()` returns `x + (x * x) / x` -/
theorem runXabs_asExpression :
    (PartialObj.mk (mkMul [mkVar "x", mkNRoot (mkNPow (mkVar "x") 2) 2] : Expr ℝ) "x"
        none).asExpression realNum =
      .ok (mkAdd [mkVar "x", mkDiv (mkMul [mkVar "x", mkVar "x"]) (mkVar "x")],
        ⟨mkMul [mkVar "x", mkNRoot (mkNPow (mkVar "x") 2) 2], "x",
          some (mkAdd [mkVar "x", mkDiv (mkMul [mkVar "x", mkVar "x"]) (mkVar "x")])⟩, false) := by
  have : normalize realNum runXabsE0 = _ := runXabs_normalizeF _ (by decide)
  simp only [PartialObj.asExpression, retrieveSyntheticPartial, runXabs_symFwd, this, liftFuel]
  rfl

/-- at `x = -3` the expression `x·|x|` is defined and its partial derivative is `6` … -/
theorem runXabs_true_partial :
    WF (mkMul [mkVar "x", mkNRoot (mkNPow (mkVar "x") 2) 2] : Expr ℝ) ∧
      Supp [("x", (-3 : ℝ))] (mkMul [mkVar "x", mkNRoot (mkNPow (mkVar "x") 2) 2] : Expr ℝ) ∧
      Dom (valOf [("x", (-3 : ℝ))]) (mkMul [mkVar "x", mkNRoot (mkNPow (mkVar "x") 2) 2] : Expr ℝ) ∧
      fwdG realNum [("x", (-3 : ℝ))] "x" (mkMul [mkVar "x", mkNRoot (mkNPow (mkVar "x") 2) 2] : Expr ℝ)
        = .ok 6 := by
  have hwf : WF (mkMul [mkVar "x", mkNRoot (mkNPow (mkVar "x") 2) 2] : Expr ℝ) := by
    simp [WF, WFList]
  have hs : Supp [("x", (-3 : ℝ))] (mkMul [mkVar "x", mkNRoot (mkNPow (mkVar "x") 2) 2] : Expr ℝ) := by
    simp [Supp, SuppList, Point.get?]
  have hd : Dom (valOf [("x", (-3 : ℝ))])
      (mkMul [mkVar "x", mkNRoot (mkNPow (mkVar "x") 2) 2] : Expr ℝ) := by
    simp only [Dom, DomList, den, valOf, Point.get?]
    norm_num
  refine ⟨hwf, hs, hd, ?_⟩
  obtain ⟨d, hfd, _⟩ := (fwdR_spec [("x", (-3 : ℝ))] "x" _ hwf).1 hs hd
  obtain ⟨_, _, hval⟩ := symFwd_sound _ "x" _ hwf hs hd d hfd
  rw [hfd, ← hval, runXabs_symFwd]
  simp only [runXabsE0, den, denList, valOf, Point.get?, beq_self_eq_true, if_true, Option.getD_some,
    List.prod_cons, List.prod_nil, List.sum_cons, List.sum_nil, runK1_sroot_nine]
  norm_num

/-- … but the expression `as_expression()` returns evaluates to `-6` there -/
theorem runXabs_returned_value :
    evalG realNum [("x", (-3 : ℝ))]
      (mkAdd [mkVar "x", mkDiv (mkMul [mkVar "x", mkVar "x"]) (mkVar "x")]) = .ok (-6) := by
  refine (evalR_good _ _ (by simp [WF, WFList])).ok_iff.mpr
    ⟨by simp [Supp, SuppList, Point.get?], ?_, ?_⟩
  · simp [Dom, DomList, den, valOf, Point.get?]
  · simp [den, denList, valOf, Point.get?]; norm_num

/-! ### a run without K1: `x * sin x` -/

theorem runXsin_symFwd :
    symFwd realNum "x" (mkMul [mkVar "x", mkSin (mkVar "x")] : Expr ℝ) = runXsinE0 := by
  simp [symFwd, symFwdList, symMulTerms, symMulTermsGo, unarySymFormula, runXsinE0]

theorem runXsin_allFlagged : AllFlagged runXsinE14 := by
  simp [runXsinE14, AllFlagged, AllFlaggedList]

theorem runXsin_normOK (fuel : Nat) : NormOK K1FreeAt REDUCTION_STEPS_BOUND fuel runXsinE0 :=
  runXsin_steps.normOK runXsin_allFlagged (by decide) (by decide) fuel

theorem runXsin_fullyReduce :
    fullyReduceWith realNum REDUCTION_STEPS_BOUND runXsinE0 = ⟨runXsinE14, false, runXsinEvs.length, runXsinEvs⟩ :=
  runXsin_steps.fullyReduce runXsin_allFlagged.isRed _ (by decide)

theorem runXsin_nf_sin (fuel : Nat) (h : 4 ≤ fuel) :
    normalizeF realNum REDUCTION_STEPS_BOUND fuel (.sin { red := true } (.var { red := true } "x")) =
      some (mkSin (mkVar "x"), false) := by
  obtain ⟨f, rfl⟩ : ∃ f, fuel = f + 4 := ⟨fuel - 4, by omega⟩
  simp [normalizeF, normReducedF,
    replay_fullyReduceWith_of_red (.sin { red := true } (.var { red := true } "x")) rfl]

theorem runXsin_nf_cos (fuel : Nat) (h : 4 ≤ fuel) :
    normalizeF realNum REDUCTION_STEPS_BOUND fuel (.cos { red := true } (.var { red := true } "x")) =
      some (mkCos (mkVar "x"), false) := by
  obtain ⟨f, rfl⟩ : ∃ f, fuel = f + 4 := ⟨fuel - 4, by omega⟩
  simp [normalizeF, normReducedF,
    replay_fullyReduceWith_of_red (.cos { red := true } (.var { red := true } "x")) rfl]

theorem runXsin_nf_mul_sin (fuel : Nat) (h : 6 ≤ fuel) :
    normalizeF realNum REDUCTION_STEPS_BOUND fuel
        (.mul { red := true } [.sin { red := true } (.var { red := true } "x")]) =
      some (mkSin (mkVar "x"), false) := by
  obtain ⟨f, rfl⟩ : ∃ f, fuel = f + 6 := ⟨fuel - 6, by omega⟩
  simp only [normalizeF, replay_fullyReduceWith_of_red
    (.mul { red := true } [.sin { red := true } (.var { red := true } "x")]) rfl]
  simp [normReducedF, asRecip, mapM?, runXsin_nf_sin, simplifiedMul, List.filterMap_cons]

theorem runXsin_nf_mul_cos (fuel : Nat) (h : 6 ≤ fuel) :
    normalizeF realNum REDUCTION_STEPS_BOUND fuel
        (.mul { red := true } [.cos { red := true } (.var { red := true } "x"),
          .var { red := true } "x"]) =
      some (mkMul [mkCos (mkVar "x"), mkVar "x"], false) := by
  obtain ⟨f, rfl⟩ : ∃ f, fuel = f + 6 := ⟨fuel - 6, by omega⟩
  simp only [normalizeF, replay_fullyReduceWith_of_red
    (.mul { red := true } [.cos { red := true } (.var { red := true } "x"),
      .var { red := true } "x"]) rfl]
  simp [normReducedF, asRecip, mapM?, runXsin_nf_cos, replay_nf_var, simplifiedMul, List.filterMap_cons]

theorem runXsin_normalizeF (fuel : Nat) (h : 8 ≤ fuel) :
    normalizeF realNum REDUCTION_STEPS_BOUND fuel runXsinE0 =
      some (mkAdd [mkSin (mkVar "x"), mkMul [mkCos (mkVar "x"), mkVar "x"]], false) := by
  obtain ⟨f, rfl⟩ : ∃ f, fuel = f + 8 := ⟨fuel - 8, by omega⟩
  simp only [normalizeF, runXsin_fullyReduce]
  simp [normReducedF, runXsinE14, asNeg, mapM?, runXsin_nf_mul_sin, runXsin_nf_mul_cos, simplifiedAdd,
    List.filterMap_cons]

theorem runXsin_asExpression :
    (PartialObj.mk (mkMul [mkVar "x", mkSin (mkVar "x")] : Expr ℝ) "x" none).asExpression realNum =
      .ok (mkAdd [mkSin (mkVar "x"), mkMul [mkCos (mkVar "x"), mkVar "x"]],
        ⟨mkMul [mkVar "x", mkSin (mkVar "x")], "x",
          some (mkAdd [mkSin (mkVar "x"), mkMul [mkCos (mkVar "x"), mkVar "x"]])⟩, false) := by
  have : normalize realNum runXsinE0 = _ := runXsin_normalizeF _ (by decide)
  simp only [PartialObj.asExpression, retrieveSyntheticPartial, runXsin_symFwd, this, liftFuel]
  rfl

end Smooth
