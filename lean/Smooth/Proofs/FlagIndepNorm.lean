/-
Proofs/FlagIndepNorm — the reduction flags never change the result of `_normalize` either.

`_normalize()` = `_fully_reduce()._normalize_fully_reduced()`, and `_normalize_fully_reduced` of a sum
or product calls the full `_normalize()` of every term (objects that carry flags from the run that
produced them).  From two soundly flagged copies of one tree, with fuel and budgets under which
neither logs the warning, `normalizeF` returns the same expression — literally, flags included (the
normal form is built from fresh nodes only).  Generic in the number record `N`.
-/
import Smooth.Proofs.FlagIndep

namespace Smooth
open Expr
variable {α : Type}

theorem fi_mapM_cons {β γ : Type} (f : β → Option γ) (b : β) (bs : List β) (t : List γ)
    (h : mapM? f (b :: bs) = some t) :
    ∃ c cs, f b = some c ∧ mapM? f bs = some cs ∧ t = c :: cs := by
  unfold mapM? at h
  split at h
  · rename_i c cs h1 h2
    exact ⟨c, cs, h1, h2, (Option.some.inj h).symm⟩
  · cases h

/-- term by term: equal trees, equal (warning-free) results -/
theorem fi_mapM_agree (full₁ full₂ : Expr α → Option (Expr α × Bool)) :
    ∀ (xs₁ xs₂ : List (Expr α)) (t₁ t₂ : List (Expr α × Bool)),
      xs₁.map fresh = xs₂.map fresh →
      (∀ x₁ ∈ xs₁, ∀ x₂ ∈ xs₂, x₁.fresh = x₂.fresh → ∀ r₁ r₂,
        full₁ x₁ = some (r₁, false) → full₂ x₂ = some (r₂, false) → r₁ = r₂) →
      mapM? full₁ xs₁ = some t₁ → mapM? full₂ xs₂ = some t₂ →
      t₁.any (·.2) = false → t₂.any (·.2) = false → t₁.map (·.1) = t₂.map (·.1)
  | [], [], t₁, t₂, _, _, h₁, h₂, _, _ => by
    simp only [mapM?, Option.some.injEq] at h₁ h₂
    subst h₁ h₂
    rfl
  | [], _ :: _, _, _, heq, _, _, _, _, _ => by simp at heq
  | _ :: _, [], _, _, heq, _, _, _, _, _ => by simp at heq
  | x₁ :: xs₁, x₂ :: xs₂, t₁, t₂, heq, hp, h₁, h₂, a₁, a₂ => by
    obtain ⟨c₁, cs₁, hc₁, hcs₁, rfl⟩ := fi_mapM_cons _ _ _ _ h₁
    obtain ⟨c₂, cs₂, hc₂, hcs₂, rfl⟩ := fi_mapM_cons _ _ _ _ h₂
    simp only [List.map_cons, List.cons.injEq] at heq
    simp only [List.any_cons, Bool.or_eq_false_iff] at a₁ a₂
    obtain ⟨r₁, w₁⟩ := c₁
    obtain ⟨r₂, w₂⟩ := c₂
    simp only at a₁ a₂
    have hr : r₁ = r₂ :=
      hp x₁ List.mem_cons_self x₂ List.mem_cons_self heq.1 r₁ r₂
        (by rw [hc₁, a₁.1]) (by rw [hc₂, a₂.1])
    have ht := fi_mapM_agree full₁ full₂ xs₁ xs₂ cs₁ cs₂ heq.2
      (fun y₁ hy₁ y₂ hy₂ => hp y₁ (List.mem_cons_of_mem _ hy₁) y₂ (List.mem_cons_of_mem _ hy₂))
      hcs₁ hcs₂ a₁.2 a₂.2
    simp only [List.map_cons, hr, ht]

/-- the two groups (`Negation`s / the rest, `Reciprocal`s / the rest) of a sum or product -/
theorem fi_split_agree (N : Num α) (sel : Expr α → Option (Expr α))
    (hsel : ∀ e, sel e.fresh = (sel e).map fresh)
    (hsub : ∀ a u, sel a = some u → u ∈ children a)
    (full₁ full₂ : Expr α → Option (Expr α × Bool))
    (hfull : ∀ x₁ x₂ r₁ r₂, FlagsSound N x₁ → FlagsSound N x₂ → x₁.fresh = x₂.fresh →
      full₁ x₁ = some (r₁, false) → full₂ x₂ = some (r₂, false) → r₁ = r₂)
    (as₁ as₂ : List (Expr α)) (hs₁ : ∀ a ∈ as₁, FlagsSound N a) (hs₂ : ∀ a ∈ as₂, FlagsSound N a)
    (heq : as₁.map fresh = as₂.map fresh) (t1 t2 t1' t2' : List (Expr α × Bool))
    (h1 : mapM? full₁ (as₁.filter fun t => (sel t).isNone) = some t1)
    (h2 : mapM? full₁ (as₁.filterMap sel) = some t2)
    (h1' : mapM? full₂ (as₂.filter fun t => (sel t).isNone) = some t1')
    (h2' : mapM? full₂ (as₂.filterMap sel) = some t2')
    (w : (t1.any (·.2) || t2.any (·.2)) = false) (w' : (t1'.any (·.2) || t2'.any (·.2)) = false) :
    t1.map (·.1) = t1'.map (·.1) ∧ t2.map (·.1) = t2'.map (·.1) := by
  simp only [Bool.or_eq_false_iff] at w w'
  have hp : ∀ e : Expr α, (sel e.fresh).isNone = (sel e).isNone := by
    intro e; rw [hsel]; cases sel e <;> rfl
  constructor
  · refine fi_mapM_agree full₁ full₂ _ _ t1 t1' ?_ ?_ h1 h1' w.1 w'.1
    · rw [← ff_filter_fresh _ hp, ← ff_filter_fresh _ hp, heq]
    · intro x₁ hx₁ x₂ hx₂ hx r₁ r₂
      exact hfull x₁ x₂ r₁ r₂ (hs₁ _ (List.mem_filter.mp hx₁).1) (hs₂ _ (List.mem_filter.mp hx₂).1) hx
  · refine fi_mapM_agree full₁ full₂ _ _ t2 t2' ?_ ?_ h2 h2' w.2 w'.2
    · have key : ∀ as : List (Expr α), (as.filterMap sel).map fresh = (as.map fresh).filterMap sel := by
        intro as
        rw [List.filterMap_map, List.map_filterMap]
        congr 1
        funext e
        exact (hsel e).symm
      rw [key, key, heq]
    · intro x₁ hx₁ x₂ hx₂ hx r₁ r₂
      obtain ⟨a₁, ha₁, hu₁⟩ := List.mem_filterMap.mp hx₁
      obtain ⟨a₂, ha₂, hu₂⟩ := List.mem_filterMap.mp hx₂
      exact hfull x₁ x₂ r₁ r₂ ((hs₁ a₁ ha₁).child (hsub a₁ x₁ hu₁))
        ((hs₂ a₂ ha₂).child (hsub a₂ x₂ hu₂)) hx

theorem fi_asNeg_child (a u : Expr α) (h : asNeg a = some u) : u ∈ children a := by
  cases a <;> simp [asNeg] at h
  subst h; simp [children]

theorem fi_asRecip_child (a u : Expr α) (h : asRecip a = some u) : u ∈ children a := by
  cases a <;> simp [asRecip] at h
  subst h; simp [children]

/-! ### `_normalize` and `_normalize_fully_reduced` -/

/-- two soundly flagged copies of one tree, warning-free results of `g₁` (with fuel `f₁`) and `g₂`
(with any fuel): the results are the same expression -/
def NormAgree (N : Num α) (g₁ g₂ : Nat → Expr α → Option (Expr α × Bool)) (f₁ : Nat) : Prop :=
  ∀ f₂ e₁ e₂ r₁ r₂, FlagsSound N e₁ → FlagsSound N e₂ → e₁.fresh = e₂.fresh →
    g₁ f₁ e₁ = some (r₁, false) → g₂ f₂ e₂ = some (r₂, false) → r₁ = r₂

theorem fi_normalize_step (N : Num α) (b₁ b₂ n : Nat)
    (B : NormAgree N (normReducedF N b₁) (normReducedF N b₂) n) :
    NormAgree N (normalizeF N b₁) (normalizeF N b₂) (n + 1) := by
  intro f₂ e₁ e₂ r₁ r₂ s₁ s₂ heq h₁ h₂
  cases f₂ with
  | zero => simp [normalizeF] at h₂
  | succ m =>
    unfold normalizeF at h₁ h₂
    simp only at h₁ h₂
    split at h₁
    · rename_i x₁ w₁ hn₁
      split at h₂
      · rename_i x₂ w₂ hn₂
        simp only [Option.some.injEq, Prod.mk.injEq, Bool.or_eq_false_iff] at h₁ h₂
        obtain ⟨rfl, rfl, hw₁⟩ := h₁
        obtain ⟨rfl, rfl, hw₂⟩ := h₂
        exact B m _ _ _ _ ((fi_fullyReduceLoop_reach N b₁ e₁ 0 [] s₁).2 hw₁)
          ((fi_fullyReduceLoop_reach N b₂ e₂ 0 [] s₂).2 hw₂)
          (fullyReduceWith_flag_independent N s₁ s₂ heq b₁ b₂ hw₁ hw₂) hn₁ hn₂
      · cases h₂
    · cases h₁

theorem fi_normReduced_step (N : Num α) (b₁ b₂ n : Nat)
    (A : NormAgree N (normalizeF N b₁) (normalizeF N b₂) n)
    (B : NormAgree N (normReducedF N b₁) (normReducedF N b₂) n) :
    NormAgree N (normReducedF N b₁) (normReducedF N b₂) (n + 1) := by
  intro f₂ e₁ e₂ r₁ r₂ s₁ s₂ heq h₁ h₂
  cases f₂ with
  | zero => simp [normReducedF] at h₂
  | succ m =>
    cases e₁ with
    | const f v =>
      cases e₂ <;> simp [fresh] at heq
      unfold normReducedF at h₁ h₂
      simp only [Option.some.injEq, Prod.mk.injEq, and_true] at h₁ h₂
      rw [← h₁, ← h₂, heq]
    | var f x =>
      cases e₂ <;> simp [fresh] at heq
      unfold normReducedF at h₁ h₂
      simp only [Option.some.injEq, Prod.mk.injEq, and_true] at h₁ h₂
      rw [← h₁, ← h₂, heq]
    | add f as =>
      cases e₂ <;> simp [fresh] at heq
      rename_i g as'
      rw [ff_freshList_eq_map, ff_freshList_eq_map] at heq
      unfold normReducedF at h₁ h₂
      simp only at h₁ h₂
      split at h₁
      · rename_i t1 t2 ht1 ht2
        split at h₂
        · rename_i t1' t2' ht1' ht2'
          simp only [Option.some.injEq, Prod.mk.injEq] at h₁ h₂
          obtain ⟨rfl, hw⟩ := h₁
          obtain ⟨rfl, hw'⟩ := h₂
          obtain ⟨k1, k2⟩ := fi_split_agree N asNeg ff_asNeg_fresh fi_asNeg_child _ _
            (fun x₁ x₂ r₁ r₂ => A m x₁ x₂ r₁ r₂) as as' s₁.add_inv s₂.add_inv heq
            t1 t2 t1' t2' ht1 ht2 ht1' ht2' hw hw'
          rw [k1, k2]
        · cases h₂
      · cases h₁
    | mul f as =>
      cases e₂ <;> simp [fresh] at heq
      rename_i g as'
      rw [ff_freshList_eq_map, ff_freshList_eq_map] at heq
      unfold normReducedF at h₁ h₂
      simp only at h₁ h₂
      split at h₁
      · rename_i t1 t2 ht1 ht2
        split at h₂
        · rename_i t1' t2' ht1' ht2'
          simp only [Option.some.injEq, Prod.mk.injEq] at h₁ h₂
          obtain ⟨rfl, hw⟩ := h₁
          obtain ⟨rfl, hw'⟩ := h₂
          obtain ⟨k1, k2⟩ := fi_split_agree N asRecip ff_asRecip_fresh fi_asRecip_child _ _
            (fun x₁ x₂ r₁ r₂ => A m x₁ x₂ r₁ r₂) as as' s₁.mul_inv s₂.mul_inv heq
            t1 t2 t1' t2' ht1 ht2 ht1' ht2' hw hw'
          rw [k1, k2]
        · cases h₂
      · cases h₁
    | minus f l r | div f l r | pow f l r =>
      cases e₂ <;> simp [fresh] at heq
      rename_i g l' r'
      unfold normReducedF at h₁ h₂
      simp only at h₁ h₂
      split at h₁
      · rename_i a₁ w₁ c₁ v₁ hl₁ hr₁
        split at h₂
        · rename_i a₂ w₂ c₂ v₂ hl₂ hr₂
          simp only [Option.some.injEq, Prod.mk.injEq, Bool.or_eq_false_iff] at h₁ h₂
          obtain ⟨rfl, rfl, rfl⟩ := h₁
          obtain ⟨rfl, rfl, rfl⟩ := h₂
          rw [B m l l' a₁ a₂ (s₁.child (by simp [children])) (s₂.child (by simp [children]))
              heq.1 hl₁ hl₂,
            B m r r' c₁ c₂ (s₁.child (by simp [children])) (s₂.child (by simp [children]))
              heq.2 hr₁ hr₂]
        · cases h₂
      · cases h₁
    | neg f u | recip f u | cos f u | sin f u =>
      cases e₂ <;> simp [fresh] at heq
      rename_i g u'
      unfold normReducedF at h₁ h₂
      simp only [Option.map_eq_some_iff, Prod.mk.injEq, Prod.exists] at h₁ h₂
      obtain ⟨a₁, w₁, hu₁, rfl, rfl⟩ := h₁
      obtain ⟨a₂, w₂, hu₂, rfl, rfl⟩ := h₂
      rw [B m u u' a₁ a₂ (s₁.child (by simp [children])) (s₂.child (by simp [children]))
        heq hu₁ hu₂]
    | npow f u k | nroot f u k | exp f u k | log f u k =>
      cases e₂ <;> simp [fresh] at heq
      rename_i g u' k'
      obtain ⟨heq, rfl⟩ := heq
      unfold normReducedF at h₁ h₂
      simp only [Option.map_eq_some_iff, Prod.mk.injEq, Prod.exists] at h₁ h₂
      obtain ⟨a₁, w₁, hu₁, rfl, rfl⟩ := h₁
      obtain ⟨a₂, w₂, hu₂, rfl, rfl⟩ := h₂
      rw [B m u u' a₁ a₂ (s₁.child (by simp [children])) (s₂.child (by simp [children]))
        heq hu₁ hu₂]

theorem fi_norm_agree (N : Num α) (b₁ b₂ : Nat) :
    ∀ n, NormAgree N (normalizeF N b₁) (normalizeF N b₂) n ∧
      NormAgree N (normReducedF N b₁) (normReducedF N b₂) n
  | 0 => by
    constructor
    · intro f₂ e₁ e₂ r₁ r₂ _ _ _ h₁ _; simp [normalizeF] at h₁
    · intro f₂ e₁ e₂ r₁ r₂ _ _ _ h₁ _; simp [normReducedF] at h₁
  | n + 1 => by
    obtain ⟨A, B⟩ := fi_norm_agree N b₁ b₂ n
    exact ⟨fi_normalize_step N b₁ b₂ n B, fi_normReduced_step N b₁ b₂ n A B⟩

/-- **C09, reduction flags, `_normalize`.**  Two soundly flagged copies of one tree; any fuel and
budgets with which neither call logs the warning: `_normalize` returns the same expression. -/
theorem normalizeF_flag_independent (N : Num α) {e₁ e₂ : Expr α} (h₁ : FlagsSound N e₁)
    (h₂ : FlagsSound N e₂) (heq : e₁.fresh = e₂.fresh) (b₁ b₂ f₁ f₂ : Nat) (r₁ r₂ : Expr α)
    (n₁ : normalizeF N b₁ f₁ e₁ = some (r₁, false))
    (n₂ : normalizeF N b₂ f₂ e₂ = some (r₂, false)) : r₁ = r₂ :=
  (fi_norm_agree N b₁ b₂ f₁).1 f₂ e₁ e₂ r₁ r₂ h₁ h₂ heq n₁ n₂

end Smooth
