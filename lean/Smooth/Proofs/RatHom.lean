/-
Proofs/RatHom — the exact-rational run of the model (`qeNum`) computes the real-number value.

`qeNum : Num QE` (Model/Instances.lean) is exact rational arithmetic on the field `q : Rat` together
with a flag `rep : Bool`.  The flag is used by the correspondence harness only: constants and
coordinates enter with `rep = true` when they are IEEE doubles, every arithmetic operation and-s the
flags of its operands with `representable (exact result)` (`QE.mk'` changes nothing but the flag), and
when the flag of the final result holds the harness demands bit-exact equality with the Python
implementation.  "Representable" is a statement about IEEE doubles and lives outside Lean; nothing
below depends on `rep` (`φ` forgets it).  (Two caveats for the harness are recorded as examples in
Properties/C01x.lean: the size guard of `powNat`, and `multiply`'s short-circuit returning a *fresh*
zero, both of which can leave `rep = true` on a result whose history was not exact.)

Content: `φ : QE → ℝ` commutes with every operation of `qeNum` that the evaluator and both
differentiation modes use on the rational fragment `RatFrag` (`const, var, add, minus, neg, mul, div,
recip, npow`), the tests `isZero/isNeg/eq` agree, hence — by the same mutual structural recursion as
the definitions —

  `evalG_hom_map`, `fwdG_hom_map`, `revG_hom_map`, `numericPartials_hom_map`, `atNumber_hom_map` :
  run over `realNum` on the `φ`-image  =  `Except.map φ` (run over `qeNum`),  values and errors alike.

The single exception is `qeNum.powNat`, whose size guard answers `⟨0, false⟩` instead of the power;
the theorems assume it does not fire (`EvalFits`, `DiffFits`; `PowFits.of_small` for a bound).
`DiffFits` asks at an `npow u n` node that `u ^ n` fits although the differentiation formula itself
only takes `u ^ (n-1)`: the larger power is taken as soon as the node is evaluated (e.g. as a factor
of a product), and one predicate for both modes keeps the statements simple.
-/
import Smooth.Model.Instances
import Smooth.Real.Instance
import Smooth.Real.Spec

namespace Smooth
open Classical

/-- the real number an exact-rational value stands for -/
noncomputable def φ : QE → ℝ := fun x => (x.q : ℝ)

@[simp] theorem phi_mk' (q : Rat) (r : Bool) : φ (QE.mk' q r) = (q : ℝ) := rfl
@[simp] theorem phi_mk (q : Rat) (r : Bool) : φ ⟨q, r⟩ = (q : ℝ) := rfl

@[simp] theorem phi_ofNat (n : ℕ) : φ (qeNum.ofNat n) = (n : ℝ) := by
  simp [φ, qeNum]
@[simp] theorem phi_add (a b : QE) : φ (qeNum.add a b) = φ a + φ b := by
  simp [φ, qeNum, QE.mk']
@[simp] theorem phi_sub (a b : QE) : φ (qeNum.sub a b) = φ a - φ b := by
  simp [φ, qeNum, QE.mk']
@[simp] theorem phi_neg (a : QE) : φ (qeNum.neg a) = - φ a := by
  simp [φ, qeNum]
@[simp] theorem phi_mul (a b : QE) : φ (qeNum.mul a b) = φ a * φ b := by
  simp [φ, qeNum, QE.mk']
@[simp] theorem phi_div (a b : QE) : φ (qeNum.div a b) = φ a / φ b := by
  simp [φ, qeNum, QE.mk']
@[simp] theorem phi_isZero (a : QE) : qeNum.isZero a = decide (φ a = 0) := by
  rw [Bool.eq_iff_iff]; simp [φ, qeNum]
@[simp] theorem phi_isNeg (a : QE) : qeNum.isNeg a = decide (φ a < 0) := by
  simp [φ, qeNum]
@[simp] theorem phi_eq (a b : QE) : qeNum.eq a b = decide (φ a = φ b) := by
  rw [Bool.eq_iff_iff]; simp [φ, qeNum]

/-! ### the one place where `qeNum` is not arithmetic: the size guard of `powNat`

`qeNum.powNat a n` does not compute astronomically large exact powers: when
`(log2 |num a| + log2 (den a) + 2) * n > 300000` it answers `⟨0, false⟩` (value `0`, flag "not
representable").  The value `0` is then *wrong*; the run is only meaningful if the guard never
fires.  `PowFits a n` is "the guard does not fire". -/

/-- the size guard of `qeNum.powNat` does not fire -/
def PowFits (a : QE) (n : ℕ) : Prop := (a.q.num.natAbs.log2 + a.q.den.log2 + 2) * n ≤ 300000

instance (a : QE) (n : ℕ) : Decidable (PowFits a n) := by unfold PowFits; infer_instance

theorem PowFits.mono {a : QE} {n m : ℕ} (h : PowFits a n) (hm : m ≤ n) : PowFits a m :=
  le_trans (Nat.mul_le_mul_left _ hm) h

theorem phi_powNat {a : QE} {n : ℕ} (h : PowFits a n) : φ (qeNum.powNat a n) = φ a ^ n := by
  unfold PowFits at h
  simp [φ, qeNum, QE.mk', ratPowNat, Nat.not_lt.mpr h]

/-- when the guard fires the exact run is wrong: value `0`, flagged not representable -/
theorem powNat_guard_fires {a : QE} {n : ℕ} (h : ¬ PowFits a n) : qeNum.powNat a n = ⟨0, false⟩ := by
  unfold PowFits at h
  simp [qeNum, Nat.lt_of_not_le h]

theorem log2_lt_of_lt_two_pow {m k : ℕ} (hk : 0 < k) (h : m < 2 ^ k) : m.log2 < k := by
  by_cases hm : m = 0
  · subst hm; simpa using hk
  · exact (Nat.log2_lt hm).mpr h

/-- a handy sufficient condition ("small integer or dyadic rational"): numerator and denominator
below `2 ^ k` and `2 k n ≤ 300000` -/
theorem PowFits.of_small {a : QE} {n k : ℕ} (hk : 0 < k) (hnum : a.q.num.natAbs < 2 ^ k)
    (hden : a.q.den < 2 ^ k) (hkn : 2 * k * n ≤ 300000) : PowFits a n := by
  unfold PowFits
  have h1 := log2_lt_of_lt_two_pow hk hnum
  have h2 := log2_lt_of_lt_two_pow hk hden
  have : a.q.num.natAbs.log2 + a.q.den.log2 + 2 ≤ 2 * k := by omega
  exact le_trans (Nat.mul_le_mul_right n this) hkn

/-! ### transporting expressions and points -/

variable {α β : Type}

mutual
/-- the same tree over another number type: constants and `exp`/`log` bases mapped, flags, names and
exponents kept -/
def Expr.castNum (f : α → β) : Expr α → Expr β
  | .const g v => .const g (f v) | .var g x => .var g x
  | .add g as => .add g (Expr.castNumList f as) | .mul g as => .mul g (Expr.castNumList f as)
  | .minus g l r => .minus g (Expr.castNum f l) (Expr.castNum f r)
  | .div g l r => .div g (Expr.castNum f l) (Expr.castNum f r)
  | .pow g l r => .pow g (Expr.castNum f l) (Expr.castNum f r)
  | .neg g u => .neg g (Expr.castNum f u) | .recip g u => .recip g (Expr.castNum f u)
  | .npow g u n => .npow g (Expr.castNum f u) n | .nroot g u n => .nroot g (Expr.castNum f u) n
  | .exp g u b => .exp g (Expr.castNum f u) (f b) | .log g u b => .log g (Expr.castNum f u) (f b)
  | .cos g u => .cos g (Expr.castNum f u) | .sin g u => .sin g (Expr.castNum f u)
def Expr.castNumList (f : α → β) : List (Expr α) → List (Expr β)
  | [] => []
  | e :: es => Expr.castNum f e :: Expr.castNumList f es
end

/-- the same point (or accumulator) over another number type -/
def Point.mapNum (f : α → β) (p : Point α) : Point β := p.map fun kv => (kv.1, f kv.2)

@[simp] theorem Point.mapNum_nil (f : α → β) : Point.mapNum f ([] : Point α) = [] := rfl
@[simp] theorem Point.mapNum_cons (f : α → β) (y : String) (v : α) (p : Point α) :
    Point.mapNum f ((y, v) :: p) = (y, f v) :: Point.mapNum f p := rfl

theorem Point.get?_mapNum (f : α → β) (x : String) :
    ∀ p : Point α, Point.get? (Point.mapNum f p) x = (Point.get? p x).map f
  | [] => rfl
  | (y, v) :: rest => by
    simp only [Point.mapNum_cons, Point.get?]
    split
    · rfl
    · exact Point.get?_mapNum f x rest

mutual
theorem varsAux_castNum (f : α → β) : ∀ (e : Expr α) (acc : List String),
    (Expr.castNum f e).varsAux acc = e.varsAux acc
  | .const _ _, acc => by simp [Expr.castNum, Expr.varsAux]
  | .var _ _, acc => by simp [Expr.castNum, Expr.varsAux]
  | .add _ as, acc => by simp [Expr.castNum, Expr.varsAux, varsAuxList_castNum f as]
  | .mul _ as, acc => by simp [Expr.castNum, Expr.varsAux, varsAuxList_castNum f as]
  | .minus _ l r, acc => by
    simp [Expr.castNum, Expr.varsAux, varsAux_castNum f l, varsAux_castNum f r]
  | .div _ l r, acc => by
    simp [Expr.castNum, Expr.varsAux, varsAux_castNum f l, varsAux_castNum f r]
  | .pow _ l r, acc => by
    simp [Expr.castNum, Expr.varsAux, varsAux_castNum f l, varsAux_castNum f r]
  | .neg _ u, acc => by simp [Expr.castNum, Expr.varsAux, varsAux_castNum f u]
  | .recip _ u, acc => by simp [Expr.castNum, Expr.varsAux, varsAux_castNum f u]
  | .npow _ u _, acc => by simp [Expr.castNum, Expr.varsAux, varsAux_castNum f u]
  | .nroot _ u _, acc => by simp [Expr.castNum, Expr.varsAux, varsAux_castNum f u]
  | .exp _ u _, acc => by simp [Expr.castNum, Expr.varsAux, varsAux_castNum f u]
  | .log _ u _, acc => by simp [Expr.castNum, Expr.varsAux, varsAux_castNum f u]
  | .cos _ u, acc => by simp [Expr.castNum, Expr.varsAux, varsAux_castNum f u]
  | .sin _ u, acc => by simp [Expr.castNum, Expr.varsAux, varsAux_castNum f u]
theorem varsAuxList_castNum (f : α → β) : ∀ (es : List (Expr α)) (acc : List String),
    Expr.varsAuxList (Expr.castNumList f es) acc = Expr.varsAuxList es acc
  | [], acc => by simp [Expr.castNumList, Expr.varsAuxList]
  | e :: es, acc => by
    simp [Expr.castNumList, Expr.varsAuxList, varsAux_castNum f e, varsAuxList_castNum f es]
end

theorem vars_castNum (f : α → β) (e : Expr α) : (Expr.castNum f e).vars = e.vars :=
  varsAux_castNum f e []

/-! ### the rational fragment and the runs on which the size guard never fires -/

mutual
/-- only `const, var, add, minus, neg, mul, div, recip, npow` nodes: every intermediate of the
evaluator and of both differentiation modes is obtained by field operations and natural powers -/
def RatFrag : Expr QE → Prop
  | .const _ _ | .var _ _ => True
  | .add _ as | .mul _ as => RatFragList as
  | .minus _ l r | .div _ l r => RatFrag l ∧ RatFrag r
  | .neg _ u | .recip _ u | .npow _ u _ => RatFrag u
  | .pow _ _ _ | .nroot _ _ _ | .exp _ _ _ | .log _ _ _ | .cos _ _ | .sin _ _ => False
def RatFragList : List (Expr QE) → Prop
  | [] => True
  | e :: es => RatFrag e ∧ RatFragList es
end

/-- the power `(value of u) ^ n` passes the size guard (vacuous when `u` has no value) -/
def FitsAt (p : Point QE) (u : Expr QE) (n : ℕ) : Prop :=
  ∀ a, evalG qeNum p u = .ok a → PowFits a n

mutual
/-- no `npow` node met by the evaluator trips the size guard of `qeNum.powNat` -/
def EvalFits (p : Point QE) : Expr QE → Prop
  | .const _ _ | .var _ _ => True
  | .add _ as | .mul _ as => EvalFitsList p as
  | .minus _ l r | .div _ l r | .pow _ l r => EvalFits p l ∧ EvalFits p r
  | .npow _ u n => EvalFits p u ∧ FitsAt p u n
  | .neg _ u | .recip _ u | .nroot _ u _ | .exp _ u _ | .log _ u _ | .cos _ u | .sin _ u =>
      EvalFits p u
def EvalFitsList (p : Point QE) : List (Expr QE) → Prop
  | [] => True
  | e :: es => EvalFits p e ∧ EvalFitsList p es
end

mutual
/-- … nor any power taken by the differentiation formulas: besides the node's own `u ^ n` (whence
`u ^ (n-1)`), the squares `u ^ 2` in the derivative of `1/u` and `r ^ 2` in that of `l/r` -/
def DiffFits (p : Point QE) : Expr QE → Prop
  | .const _ _ | .var _ _ => True
  | .add _ as | .mul _ as => DiffFitsList p as
  | .minus _ l r | .pow _ l r => DiffFits p l ∧ DiffFits p r
  | .div _ l r => DiffFits p l ∧ DiffFits p r ∧ FitsAt p r 2
  | .npow _ u n => DiffFits p u ∧ FitsAt p u n
  | .recip _ u => DiffFits p u ∧ FitsAt p u 2
  | .neg _ u | .nroot _ u _ | .exp _ u _ | .log _ u _ | .cos _ u | .sin _ u => DiffFits p u
def DiffFitsList (p : Point QE) : List (Expr QE) → Prop
  | [] => True
  | e :: es => DiffFits p e ∧ DiffFitsList p es
end

mutual
theorem DiffFits.evalFits (p : Point QE) : ∀ e, DiffFits p e → EvalFits p e
  | .const _ _ | .var _ _ => fun _ => by simp [EvalFits]
  | .add _ as | .mul _ as => fun h => by
    simp only [DiffFits] at h; simp only [EvalFits]; exact DiffFitsList.evalFits p as h
  | .minus _ l r | .pow _ l r => fun h => by
    simp only [DiffFits] at h; simp only [EvalFits]
    exact ⟨DiffFits.evalFits p l h.1, DiffFits.evalFits p r h.2⟩
  | .div _ l r => fun h => by
    simp only [DiffFits] at h; simp only [EvalFits]
    exact ⟨DiffFits.evalFits p l h.1, DiffFits.evalFits p r h.2.1⟩
  | .npow _ u n => fun h => by
    simp only [DiffFits] at h; simp only [EvalFits]
    exact ⟨DiffFits.evalFits p u h.1, h.2⟩
  | .recip _ u => fun h => by
    simp only [DiffFits] at h; simp only [EvalFits]
    exact DiffFits.evalFits p u h.1
  | .neg _ u | .nroot _ u _ | .exp _ u _ | .log _ u _ | .cos _ u | .sin _ u => fun h => by
    simp only [DiffFits] at h; simp only [EvalFits]
    exact DiffFits.evalFits p u h
theorem DiffFitsList.evalFits (p : Point QE) : ∀ es, DiffFitsList p es → EvalFitsList p es
  | [] => fun _ => by simp [EvalFitsList]
  | e :: es => fun h => by
    simp only [DiffFitsList] at h; simp only [EvalFitsList]
    exact ⟨DiffFits.evalFits p e h.1, DiffFitsList.evalFits p es h.2⟩
end

/-! ### `math_functions.py` on the fragment commutes with `φ` -/

theorem phi_zero : φ qeNum.zero = 0 := by simp [Num.zero]
theorem phi_one : φ qeNum.one = 1 := by simp [Num.one]

theorem phi_foldl_add (xs : List QE) : ∀ acc : QE,
    φ (xs.foldl qeNum.add acc) = (xs.map φ).foldl realNum.add (φ acc) := by
  induction xs with
  | nil => intro acc; rfl
  | cons x xs ih => intro acc; simp only [List.foldl_cons, List.map_cons, ih, phi_add, realNum_add]

theorem phi_sumL (xs : List QE) : φ (sumL qeNum xs) = sumL realNum (xs.map φ) := by
  unfold sumL; rw [phi_foldl_add, phi_zero, realNum_zero]

theorem phi_mfAdd (xs : List QE) : φ (mfAdd qeNum xs) = mfAdd realNum (xs.map φ) := phi_sumL xs

theorem phi_mulGo (xs : List QE) : ∀ acc : QE,
    φ (mulGo qeNum acc xs) = mulGo realNum (φ acc) (xs.map φ) := by
  induction xs with
  | nil => intro acc; rfl
  | cons x xs ih =>
    intro acc
    simp only [mulGo, List.map_cons, phi_isZero, realNum_isZero]
    by_cases h : φ x = 0
    · simp [h, phi_zero]
    · simp [h, ih]

theorem phi_mfMultiply (xs : List QE) : φ (mfMultiply qeNum xs) = mfMultiply realNum (xs.map φ) := by
  unfold mfMultiply; rw [phi_mulGo, phi_one, realNum_one]

theorem phi_mfMinus (a b : QE) : φ (mfMinus qeNum a b) = mfMinus realNum (φ a) (φ b) := by
  simp [mfMinus]

theorem phi_mfNegation (a : QE) : φ (mfNegation qeNum a) = mfNegation realNum (φ a) := by
  simp [mfNegation]

theorem hom_verifyDivide (a b : QE) :
    verifyDivide realNum (φ a) (φ b) = verifyDivide qeNum a b := by
  simp [verifyDivide]

theorem hom_verifyReciprocal (a : QE) :
    verifyReciprocal realNum (φ a) = verifyReciprocal qeNum a := by
  simp [verifyReciprocal]

theorem hom_mfDivide (a b : QE) :
    mfDivide realNum (φ a) (φ b) = Except.map φ (mfDivide qeNum a b) := by
  simp only [mfDivide, pyTrueDiv, phi_isZero, realNum_isZero]
  by_cases h : φ b = 0 <;>
    simp [h, Except.map, throw, throwThe, MonadExceptOf.throw, pure, Except.pure]

theorem hom_mfReciprocal (a : QE) :
    mfReciprocal realNum (φ a) = Except.map φ (mfReciprocal qeNum a) := by
  simp only [mfReciprocal, pyTrueDiv, phi_isZero, realNum_isZero]
  by_cases h : φ a = 0 <;>
    simp [h, Except.map, throw, throwThe, MonadExceptOf.throw, pure, Except.pure, phi_one]

theorem hom_mfNthPower {a : QE} {n : ℕ} (h : PowFits a n) :
    mfNthPower realNum (φ a) n = Except.map φ (mfNthPower qeNum a n) := by
  simp only [mfNthPower]
  split <;> simp [Except.map, throw, throwThe, MonadExceptOf.throw, pure, Except.pure, phi_powNat h]

/-! ### evaluation -/

@[simp] theorem exceptMap_ok {ε α β : Type} (f : α → β) (a : α) :
    Except.map f (.ok a : Except ε α) = .ok (f a) := rfl
@[simp] theorem exceptMap_error {ε α β : Type} (f : α → β) (e : ε) :
    Except.map f (.error e : Except ε α) = .error e := rfl

mutual
/-- **the exact-rational run is the real run**: on the rational fragment, as long as the size guard
of `powNat` does not fire, evaluating over `qeNum` and then reading the rational as a real number is
evaluating the same tree over the real numbers — values and errors alike. -/
theorem evalG_hom_map (p : Point QE) : ∀ e : Expr QE, RatFrag e → EvalFits p e →
    evalG realNum (Point.mapNum φ p) (Expr.castNum φ e) = Except.map φ (evalG qeNum p e)
  | .const _ v => fun _ _ => by simp [evalG, Expr.castNum, pure, Except.pure]
  | .var _ x => fun _ _ => by
    simp only [evalG, Expr.castNum, Point.get?_mapNum]
    cases Point.get? p x <;> simp [pure, Except.pure, throw, throwThe, MonadExceptOf.throw]
  | .add _ as => fun hf hs => by
    simp only [RatFrag] at hf; simp only [EvalFits] at hs
    simp only [evalG, Expr.castNum, evalListG_hom_map p as hf hs]
    cases evalListG qeNum p as <;> simp [bind, Except.bind, pure, Except.pure, phi_mfAdd]
  | .mul _ as => fun hf hs => by
    simp only [RatFrag] at hf; simp only [EvalFits] at hs
    simp only [evalG, Expr.castNum, evalListG_hom_map p as hf hs]
    cases evalListG qeNum p as <;> simp [bind, Except.bind, pure, Except.pure, phi_mfMultiply]
  | .minus _ l r => fun hf hs => by
    simp only [RatFrag] at hf; simp only [EvalFits] at hs
    simp only [evalG, Expr.castNum, evalG_hom_map p l hf.1 hs.1, evalG_hom_map p r hf.2 hs.2]
    cases evalG qeNum p l <;> cases evalG qeNum p r <;>
      simp [bind, Except.bind, pure, Except.pure, phi_mfMinus]
  | .neg _ u => fun hf hs => by
    simp only [RatFrag] at hf; simp only [EvalFits] at hs
    simp only [evalG, Expr.castNum, evalG_hom_map p u hf hs]
    cases evalG qeNum p u <;> simp [bind, Except.bind, pure, Except.pure, phi_mfNegation]
  | .div _ l r => fun hf hs => by
    simp only [RatFrag] at hf; simp only [EvalFits] at hs
    simp only [evalG, Expr.castNum, evalG_hom_map p l hf.1 hs.1, evalG_hom_map p r hf.2 hs.2]
    cases evalG qeNum p l <;> cases evalG qeNum p r <;>
      simp only [bind, Except.bind, exceptMap_ok, exceptMap_error, hom_verifyDivide, hom_mfDivide]
    next a b => cases verifyDivide qeNum a b <;> simp
  | .recip _ u => fun hf hs => by
    simp only [RatFrag] at hf; simp only [EvalFits] at hs
    simp only [evalG, Expr.castNum, evalG_hom_map p u hf hs]
    cases evalG qeNum p u <;>
      simp only [bind, Except.bind, exceptMap_ok, exceptMap_error, hom_verifyReciprocal,
        hom_mfReciprocal]
    next a => cases verifyReciprocal qeNum a <;> simp
  | .npow _ u n => fun hf hs => by
    simp only [RatFrag] at hf; simp only [EvalFits] at hs
    simp only [evalG, Expr.castNum, evalG_hom_map p u hf hs.1]
    cases h : evalG qeNum p u <;>
      simp only [bind, Except.bind, exceptMap_ok, exceptMap_error]
    next a => exact hom_mfNthPower (hs.2 a h)
  | .pow _ _ _ | .nroot _ _ _ | .exp _ _ _ | .log _ _ _ | .cos _ _ | .sin _ _ => fun hf _ => by
    simp [RatFrag] at hf
theorem evalListG_hom_map (p : Point QE) : ∀ es : List (Expr QE), RatFragList es → EvalFitsList p es →
    evalListG realNum (Point.mapNum φ p) (Expr.castNumList φ es)
      = Except.map (List.map φ) (evalListG qeNum p es)
  | [] => fun _ _ => by simp [evalListG, Expr.castNumList, pure, Except.pure]
  | e :: es => fun hf hs => by
    simp only [RatFragList] at hf; simp only [EvalFitsList] at hs
    simp only [evalListG, Expr.castNumList, evalG_hom_map p e hf.1 hs.1,
      evalListG_hom_map p es hf.2 hs.2]
    cases evalG qeNum p e <;> cases evalListG qeNum p es <;>
      simp [bind, Except.bind, pure, Except.pure]
end

/-! ### forward mode -/

theorem phi_eraseIdx (vs : List QE) (i : ℕ) : (vs.map φ).eraseIdx i = (vs.eraseIdx i).map φ := by
  induction vs generalizing i with
  | nil => rfl
  | cons v vs ih => cases i with
    | zero => rfl
    | succ i => simp [List.eraseIdx, ih]

theorem phi_mulTermsGo (vs : List QE) : ∀ (ds : List QE) (i : ℕ),
    (mulTermsGo qeNum vs i ds).map φ = mulTermsGo realNum (vs.map φ) i (ds.map φ)
  | [], _ => rfl
  | d :: ds, i => by
    simp only [mulTermsGo, List.map_cons, phi_mfMultiply, phi_eraseIdx, phi_mulTermsGo vs ds (i + 1)]

theorem phi_mulTerms (ds vs : List QE) :
    (mulTerms qeNum ds vs).map φ = mulTerms realNum (ds.map φ) (vs.map φ) := phi_mulTermsGo vs ds 0

section formulas
variable (p : Point QE)

theorem hom_unaryFormula_neg (f : Flags) (u : Expr QE) (m : QE) :
    unaryFormula realNum (Point.mapNum φ p) (Expr.castNum φ (.neg f u)) (φ m)
      = Except.map φ (unaryFormula qeNum p (.neg f u) m) := by
  simp [unaryFormula, Expr.castNum, pure, Except.pure, phi_mfNegation]

theorem hom_unaryFormula_recip (f : Flags) (u : Expr QE) (hf : RatFrag u) (hs : EvalFits p u)
    (h2 : FitsAt p u 2) (m : QE) :
    unaryFormula realNum (Point.mapNum φ p) (Expr.castNum φ (.recip f u)) (φ m)
      = Except.map φ (unaryFormula qeNum p (.recip f u) m) := by
  simp only [unaryFormula, Expr.castNum, evalG_hom_map p u hf hs]
  cases h : evalG qeNum p u <;> simp only [bind, Except.bind, exceptMap_ok, exceptMap_error]
  next a =>
    rw [hom_mfNthPower (h2 a h)]
    cases mfNthPower qeNum a 2 <;> simp only [exceptMap_ok, exceptMap_error, hom_mfDivide]
    next sq => cases mfDivide qeNum m sq <;> simp [pure, Except.pure, phi_mfNegation]

theorem hom_unaryFormula_npow (f : Flags) (u : Expr QE) (n : ℕ) (hf : RatFrag u)
    (hs : EvalFits p u) (hn : FitsAt p u n) (m : QE) :
    unaryFormula realNum (Point.mapNum φ p) (Expr.castNum φ (.npow f u n)) (φ m)
      = Except.map φ (unaryFormula qeNum p (.npow f u n) m) := by
  simp only [unaryFormula, Expr.castNum, evalG_hom_map p u hf hs]
  by_cases h1 : n = 1
  · simp [h1, pure, Except.pure]
  · simp only [h1, if_false]
    cases h : evalG qeNum p u <;> simp only [bind, Except.bind, exceptMap_ok, exceptMap_error]
    next a =>
      rw [hom_mfNthPower ((hn a h).mono (Nat.sub_le n 1))]
      cases mfNthPower qeNum a (n - 1) <;>
        simp [pure, Except.pure, phi_mfMultiply]

theorem hom_divFormulaLeft (l r : Expr QE) (hf : RatFrag r) (hs : EvalFits p r) (m : QE) :
    divFormulaLeft realNum (Point.mapNum φ p) (Expr.castNum φ l) (Expr.castNum φ r) (φ m)
      = Except.map φ (divFormulaLeft qeNum p l r m) := by
  simp only [divFormulaLeft, evalG_hom_map p r hf hs]
  cases evalG qeNum p r <;>
    simp only [bind, Except.bind, exceptMap_ok, exceptMap_error, hom_mfDivide]

theorem hom_divFormulaRight (l r : Expr QE) (hfl : RatFrag l) (hsl : EvalFits p l)
    (hfr : RatFrag r) (hsr : EvalFits p r) (h2 : FitsAt p r 2) (m : QE) :
    divFormulaRight realNum (Point.mapNum φ p) (Expr.castNum φ l) (Expr.castNum φ r) (φ m)
      = Except.map φ (divFormulaRight qeNum p l r m) := by
  simp only [divFormulaRight, evalG_hom_map p l hfl hsl, evalG_hom_map p r hfr hsr]
  cases evalG qeNum p l <;> cases h : evalG qeNum p r <;>
    simp only [bind, Except.bind, exceptMap_ok, exceptMap_error]
  next a b =>
    rw [hom_mfNthPower (h2 b h)]
    cases mfNthPower qeNum b 2 <;> simp only [exceptMap_ok, exceptMap_error, hom_mfDivide]
    next sq =>
      cases mfDivide qeNum a sq <;> simp [pure, Except.pure, phi_mfMultiply, phi_mfNegation]

end formulas

mutual
/-- **forward mode over the exact rationals is forward mode over the reals** (on the fragment,
while the size guard does not fire) -/
theorem fwdG_hom_map (p : Point QE) (x : String) : ∀ e : Expr QE, RatFrag e → DiffFits p e →
    fwdG realNum (Point.mapNum φ p) x (Expr.castNum φ e) = Except.map φ (fwdG qeNum p x e)
  | .const _ v => fun _ _ => by simp [fwdG, Expr.castNum, pure, Except.pure, phi_zero]
  | .var _ y => fun _ _ => by
    simp only [fwdG, Expr.castNum]
    split <;> simp [pure, Except.pure, phi_zero, phi_one]
  | .add _ as => fun hf hs => by
    simp only [RatFrag] at hf; simp only [DiffFits] at hs
    simp only [fwdG, Expr.castNum, fwdListG_hom_map p x as hf hs]
    cases fwdListG qeNum p x as <;> simp [bind, Except.bind, pure, Except.pure, phi_mfAdd]
  | .minus _ l r => fun hf hs => by
    simp only [RatFrag] at hf; simp only [DiffFits] at hs
    simp only [fwdG, Expr.castNum, fwdG_hom_map p x l hf.1 hs.1, fwdG_hom_map p x r hf.2 hs.2]
    cases fwdG qeNum p x l <;> cases fwdG qeNum p x r <;>
      simp [bind, Except.bind, pure, Except.pure, phi_mfMinus]
  | .mul _ as => fun hf hs => by
    simp only [RatFrag] at hf; simp only [DiffFits] at hs
    simp only [fwdG, Expr.castNum, fwdListG_hom_map p x as hf hs,
      evalListG_hom_map p as hf (DiffFitsList.evalFits p as hs)]
    cases evalListG qeNum p as <;> cases fwdListG qeNum p x as <;>
      simp [bind, Except.bind, pure, Except.pure, phi_mfAdd, phi_mulTerms]
  | .div _ l r => fun hf hs => by
    simp only [RatFrag] at hf; simp only [DiffFits] at hs
    have hel := DiffFits.evalFits p l hs.1
    have her := DiffFits.evalFits p r hs.2.1
    simp only [fwdG, Expr.castNum, evalG_hom_map p l hf.1 hel, evalG_hom_map p r hf.2 her,
      fwdG_hom_map p x l hf.1 hs.1, fwdG_hom_map p x r hf.2 hs.2.1]
    cases evalG qeNum p l <;> cases evalG qeNum p r <;>
      simp only [bind, Except.bind, exceptMap_ok, exceptMap_error, hom_verifyDivide]
    next a b =>
      cases verifyDivide qeNum a b with
      | error _ => rfl
      | ok _ =>
        cases fwdG qeNum p x l with
        | error _ => rfl
        | ok dl =>
          cases fwdG qeNum p x r with
          | error _ => rfl
          | ok dr =>
            simp only [exceptMap_ok]
            rw [hom_divFormulaLeft p l r hf.2 her dl,
              hom_divFormulaRight p l r hf.1 hel hf.2 her hs.2.2 dr]
            cases divFormulaLeft qeNum p l r dl <;> cases divFormulaRight qeNum p l r dr <;>
              simp [pure, Except.pure, phi_mfAdd]
  | .neg f u => fun hf hs => by
    simp only [RatFrag] at hf; simp only [DiffFits] at hs
    have heu := DiffFits.evalFits p u hs
    simp only [fwdG, Expr.castNum, unaryVerify, evalG_hom_map p u hf heu, fwdG_hom_map p x u hf hs]
    cases evalG qeNum p u <;> cases fwdG qeNum p x u <;>
      simp only [bind, Except.bind, exceptMap_ok, exceptMap_error, pure, Except.pure]
    next a d =>
      have h := hom_unaryFormula_neg p f u d
      simp only [Expr.castNum] at h
      exact h
  | .recip f u => fun hf hs => by
    simp only [RatFrag] at hf; simp only [DiffFits] at hs
    have heu := DiffFits.evalFits p u hs.1
    simp only [fwdG, Expr.castNum, unaryVerify, evalG_hom_map p u hf heu,
      fwdG_hom_map p x u hf hs.1]
    cases evalG qeNum p u <;>
      simp only [bind, Except.bind, exceptMap_ok, exceptMap_error, hom_verifyReciprocal]
    next a =>
      cases verifyReciprocal qeNum a with
      | error _ => rfl
      | ok _ =>
        cases fwdG qeNum p x u with
        | error _ => rfl
        | ok d =>
          have h := hom_unaryFormula_recip p f u hf heu hs.2 d
          simp only [Expr.castNum] at h
          exact h
  | .npow f u n => fun hf hs => by
    simp only [RatFrag] at hf; simp only [DiffFits] at hs
    have heu := DiffFits.evalFits p u hs.1
    simp only [fwdG, Expr.castNum, unaryVerify, evalG_hom_map p u hf heu,
      fwdG_hom_map p x u hf hs.1]
    cases evalG qeNum p u <;> cases fwdG qeNum p x u <;>
      simp only [bind, Except.bind, exceptMap_ok, exceptMap_error, pure, Except.pure]
    next a d =>
      have h := hom_unaryFormula_npow p f u n hf heu hs.2 d
      simp only [Expr.castNum] at h
      exact h
  | .pow _ _ _ | .nroot _ _ _ | .exp _ _ _ | .log _ _ _ | .cos _ _ | .sin _ _ => fun hf _ => by
    simp [RatFrag] at hf
theorem fwdListG_hom_map (p : Point QE) (x : String) : ∀ es : List (Expr QE),
    RatFragList es → DiffFitsList p es →
    fwdListG realNum (Point.mapNum φ p) x (Expr.castNumList φ es)
      = Except.map (List.map φ) (fwdListG qeNum p x es)
  | [] => fun _ _ => by simp [fwdListG, Expr.castNumList, pure, Except.pure]
  | e :: es => fun hf hs => by
    simp only [RatFragList] at hf; simp only [DiffFitsList] at hs
    simp only [fwdListG, Expr.castNumList, fwdG_hom_map p x e hf.1 hs.1,
      fwdListG_hom_map p x es hf.2 hs.2]
    cases fwdG qeNum p x e <;> cases fwdListG qeNum p x es <;>
      simp [bind, Except.bind, pure, Except.pure]
end

/-! ### reverse mode -/

theorem Acc.get?_mapNum (f : α → β) (acc : Acc α) (x : String) :
    Acc.get? (Point.mapNum f acc) x = (Acc.get? acc x).map f := Point.get?_mapNum f x acc

theorem Acc.set_mapNum (f : α → β) (x : String) (v : α) : ∀ acc : Acc α,
    Acc.set (Point.mapNum f acc) x (f v) = Point.mapNum f (Acc.set acc x v)
  | [] => rfl
  | (y, w) :: rest => by
    simp only [Point.mapNum_cons, Acc.set]
    split
    · rfl
    · rw [Acc.set_mapNum f x v rest]; rfl

theorem hom_addTo (acc : Acc QE) (x : String) (c : QE) :
    Acc.addTo realNum (Point.mapNum φ acc) x (φ c) = Point.mapNum φ (Acc.addTo qeNum acc x c) := by
  unfold Acc.addTo
  rw [Acc.get?_mapNum, ← Acc.set_mapNum]
  congr 1
  cases Acc.get? acc x <;> simp [phi_zero]

mutual
/-- **reverse mode over the exact rationals is reverse mode over the reals** (on the fragment, while
the size guard does not fire): same accumulator, entry by entry, same errors -/
theorem revG_hom_map (p : Point QE) : ∀ e : Expr QE, RatFrag e → DiffFits p e → ∀ (m : QE) (acc : Acc QE),
    revG realNum (Point.mapNum φ p) (Expr.castNum φ e) (φ m) (Point.mapNum φ acc)
      = Except.map (Point.mapNum φ) (revG qeNum p e m acc)
  | .const _ v => fun _ _ m acc => by simp [revG, Expr.castNum, pure, Except.pure]
  | .var _ y => fun _ _ m acc => by simp [revG, Expr.castNum, pure, Except.pure, hom_addTo]
  | .add _ as => fun hf hs m acc => by
    simp only [RatFrag] at hf; simp only [DiffFits] at hs
    simp only [revG, Expr.castNum, revListG_hom_map p as hf hs m acc]
  | .minus _ l r => fun hf hs m acc => by
    simp only [RatFrag] at hf; simp only [DiffFits] at hs
    simp only [revG, Expr.castNum, revG_hom_map p l hf.1 hs.1 m acc]
    cases revG qeNum p l m acc with
    | error _ => rfl
    | ok acc1 =>
      simp only [bind, Except.bind, exceptMap_ok, ← phi_mfNegation]
      exact revG_hom_map p r hf.2 hs.2 _ acc1
  | .mul _ as => fun hf hs m acc => by
    simp only [RatFrag] at hf; simp only [DiffFits] at hs
    simp only [revG, Expr.castNum, evalListG_hom_map p as hf (DiffFitsList.evalFits p as hs)]
    cases evalListG qeNum p as with
    | error _ => rfl
    | ok vs =>
      simp only [bind, Except.bind, exceptMap_ok]
      exact revMulG_hom_map p as hf hs vs m 0 acc
  | .div _ l r => fun hf hs m acc => by
    simp only [RatFrag] at hf; simp only [DiffFits] at hs
    have hel := DiffFits.evalFits p l hs.1
    have her := DiffFits.evalFits p r hs.2.1
    simp only [revG, Expr.castNum, evalG_hom_map p l hf.1 hel, evalG_hom_map p r hf.2 her]
    cases evalG qeNum p l <;> cases evalG qeNum p r <;>
      simp only [bind, Except.bind, exceptMap_ok, exceptMap_error, hom_verifyDivide]
    next a b =>
      cases verifyDivide qeNum a b with
      | error _ => rfl
      | ok _ =>
        simp only []
        rw [hom_divFormulaLeft p l r hf.2 her m,
          hom_divFormulaRight p l r hf.1 hel hf.2 her hs.2.2 m]
        cases divFormulaLeft qeNum p l r m with
        | error _ => rfl
        | ok ml =>
          cases divFormulaRight qeNum p l r m with
          | error _ => rfl
          | ok mr =>
            simp only [exceptMap_ok]
            rw [revG_hom_map p l hf.1 hs.1 ml acc]
            cases revG qeNum p l ml acc with
            | error _ => rfl
            | ok acc1 => exact revG_hom_map p r hf.2 hs.2.1 mr acc1
  | .neg f u => fun hf hs m acc => by
    simp only [RatFrag] at hf; simp only [DiffFits] at hs
    have heu := DiffFits.evalFits p u hs
    have h := hom_unaryFormula_neg p f u m
    simp only [Expr.castNum] at h
    simp only [revG, Expr.castNum, unaryVerify, evalG_hom_map p u hf heu, h]
    cases evalG qeNum p u with
    | error _ => rfl
    | ok a =>
      simp only [bind, Except.bind, exceptMap_ok, pure, Except.pure]
      cases unaryFormula qeNum p (.neg f u) m with
      | error _ => rfl
      | ok m' => exact revG_hom_map p u hf hs m' acc
  | .recip f u => fun hf hs m acc => by
    simp only [RatFrag] at hf; simp only [DiffFits] at hs
    have heu := DiffFits.evalFits p u hs.1
    have h := hom_unaryFormula_recip p f u hf heu hs.2 m
    simp only [Expr.castNum] at h
    simp only [revG, Expr.castNum, unaryVerify, evalG_hom_map p u hf heu, h]
    cases evalG qeNum p u with
    | error _ => rfl
    | ok a =>
      simp only [bind, Except.bind, exceptMap_ok, hom_verifyReciprocal]
      cases verifyReciprocal qeNum a with
      | error _ => rfl
      | ok _ =>
        cases unaryFormula qeNum p (.recip f u) m with
        | error _ => rfl
        | ok m' => exact revG_hom_map p u hf hs.1 m' acc
  | .npow f u n => fun hf hs m acc => by
    simp only [RatFrag] at hf; simp only [DiffFits] at hs
    have heu := DiffFits.evalFits p u hs.1
    have h := hom_unaryFormula_npow p f u n hf heu hs.2 m
    simp only [Expr.castNum] at h
    simp only [revG, Expr.castNum, unaryVerify, evalG_hom_map p u hf heu, h]
    cases evalG qeNum p u with
    | error _ => rfl
    | ok a =>
      simp only [bind, Except.bind, exceptMap_ok, pure, Except.pure]
      cases unaryFormula qeNum p (.npow f u n) m with
      | error _ => rfl
      | ok m' => exact revG_hom_map p u hf hs.1 m' acc
  | .pow _ _ _ | .nroot _ _ _ | .exp _ _ _ | .log _ _ _ | .cos _ _ | .sin _ _ => fun hf _ => by
    simp [RatFrag] at hf
theorem revListG_hom_map (p : Point QE) : ∀ es : List (Expr QE), RatFragList es → DiffFitsList p es →
    ∀ (m : QE) (acc : Acc QE),
    revListG realNum (Point.mapNum φ p) (Expr.castNumList φ es) (φ m) (Point.mapNum φ acc)
      = Except.map (Point.mapNum φ) (revListG qeNum p es m acc)
  | [] => fun _ _ m acc => by simp [revListG, Expr.castNumList, pure, Except.pure]
  | e :: es => fun hf hs m acc => by
    simp only [RatFragList] at hf; simp only [DiffFitsList] at hs
    simp only [revListG, Expr.castNumList, revG_hom_map p e hf.1 hs.1 m acc]
    cases revG qeNum p e m acc with
    | error _ => rfl
    | ok acc1 => exact revListG_hom_map p es hf.2 hs.2 m acc1
theorem revMulG_hom_map (p : Point QE) : ∀ es : List (Expr QE), RatFragList es → DiffFitsList p es →
    ∀ (vs : List QE) (m : QE) (i : ℕ) (acc : Acc QE),
    revMulG realNum (Point.mapNum φ p) (vs.map φ) (φ m) i (Expr.castNumList φ es) (Point.mapNum φ acc)
      = Except.map (Point.mapNum φ) (revMulG qeNum p vs m i es acc)
  | [] => fun _ _ vs m i acc => by simp [revMulG, Expr.castNumList, pure, Except.pure]
  | e :: es => fun hf hs vs m i acc => by
    simp only [RatFragList] at hf; simp only [DiffFitsList] at hs
    have hm : mfMultiply realNum (φ m :: (vs.map φ).eraseIdx i)
        = φ (mfMultiply qeNum (m :: vs.eraseIdx i)) := by
      rw [phi_mfMultiply, List.map_cons, phi_eraseIdx]
    simp only [revMulG, Expr.castNumList, hm, revG_hom_map p e hf.1 hs.1 _ acc]
    cases revG qeNum p e (mfMultiply qeNum (m :: vs.eraseIdx i)) acc with
    | error _ => rfl
    | ok acc1 => exact revMulG_hom_map p es hf.2 hs.2 vs m (i + 1) acc1
end

/-- `_numeric_partials(point)` : the whole table of partials, read back per variable -/
theorem numericPartials_hom_map (p : Point QE) (e : Expr QE) (hf : RatFrag e) (hs : DiffFits p e) :
    numericPartials realNum (Point.mapNum φ p) (Expr.castNum φ e)
      = Except.map (Point.mapNum φ) (numericPartials qeNum p e) := by
  unfold numericPartials
  have h := revG_hom_map p e hf hs qeNum.one []
  rw [phi_one] at h
  simp only [realNum_one, Point.mapNum_nil] at h ⊢
  rw [h, vars_castNum]
  cases revG qeNum p e qeNum.one [] with
  | error _ => rfl
  | ok acc =>
    simp only [bind, Except.bind, exceptMap_ok, pure, Except.pure, Point.mapNum, List.map_map]
    congr 1
    apply List.map_congr_left
    intro x _
    have := Acc.get?_mapNum φ acc x
    simp only [Point.mapNum] at this
    simp only [Function.comp, this]
    cases Acc.get? acc x <;> simp [phi_zero]

/-- the bare-number entry point `Expression.at(number)` -/
theorem atNumber_hom_map (e : Expr QE) (t : QE) (hf : RatFrag e)
    (hs : ∀ x, EvalFits [(x, t)] e) :
    atNumber realNum (Expr.castNum φ e) (φ t) = Except.map φ (atNumber qeNum e t) := by
  unfold atNumber singleVarName
  rw [vars_castNum]
  match e.vars with
  | [] => simpa [bind, Except.bind, pure, Except.pure] using evalG_hom_map _ e hf (hs _)
  | [x] => simpa [bind, Except.bind, pure, Except.pure] using evalG_hom_map _ e hf (hs _)
  | _ :: _ :: _ => rfl

/-! ### a successful exact run certifies well-formedness

On the fragment `WF` only asks `1 ≤ n` at every `npow` node; the evaluator visits every node and
`mfNthPower` rejects `n = 0`, so an exact run that returns a value has checked it. -/

mutual
theorem ratfrag_ok_WF (p : Point QE) : ∀ e : Expr QE, RatFrag e → ∀ v, evalG qeNum p e = .ok v →
    WF (Expr.castNum φ e)
  | .const _ _ => fun _ _ _ => by simp [Expr.castNum, WF]
  | .var _ _ => fun _ _ _ => by simp [Expr.castNum, WF]
  | .add _ as => fun hf v h => by
    simp only [RatFrag] at hf
    simp only [Expr.castNum, WF]
    cases h1 : evalListG qeNum p as with
    | error _ => simp [evalG, h1, bind, Except.bind] at h
    | ok vs => exact ratfragList_ok_WF p as hf vs h1
  | .mul _ as => fun hf v h => by
    simp only [RatFrag] at hf
    simp only [Expr.castNum, WF]
    cases h1 : evalListG qeNum p as with
    | error _ => simp [evalG, h1, bind, Except.bind] at h
    | ok vs => exact ratfragList_ok_WF p as hf vs h1
  | .minus _ l r => fun hf v h => by
    simp only [RatFrag] at hf
    simp only [Expr.castNum, WF]
    cases h1 : evalG qeNum p l with
    | error _ => simp [evalG, h1, bind, Except.bind] at h
    | ok a =>
      cases h2 : evalG qeNum p r with
      | error _ => simp [evalG, h1, h2, bind, Except.bind] at h
      | ok b => exact ⟨ratfrag_ok_WF p l hf.1 a h1, ratfrag_ok_WF p r hf.2 b h2⟩
  | .div _ l r => fun hf v h => by
    simp only [RatFrag] at hf
    simp only [Expr.castNum, WF]
    cases h1 : evalG qeNum p l with
    | error _ => simp [evalG, h1, bind, Except.bind] at h
    | ok a =>
      cases h2 : evalG qeNum p r with
      | error _ => simp [evalG, h1, h2, bind, Except.bind] at h
      | ok b => exact ⟨ratfrag_ok_WF p l hf.1 a h1, ratfrag_ok_WF p r hf.2 b h2⟩
  | .neg _ u => fun hf v h => by
    simp only [RatFrag] at hf
    simp only [Expr.castNum, WF]
    cases h1 : evalG qeNum p u with
    | error _ => simp [evalG, h1, bind, Except.bind] at h
    | ok a => exact ratfrag_ok_WF p u hf a h1
  | .recip _ u => fun hf v h => by
    simp only [RatFrag] at hf
    simp only [Expr.castNum, WF]
    cases h1 : evalG qeNum p u with
    | error _ => simp [evalG, h1, bind, Except.bind] at h
    | ok a => exact ratfrag_ok_WF p u hf a h1
  | .npow _ u n => fun hf v h => by
    simp only [RatFrag] at hf
    simp only [Expr.castNum, WF]
    cases h1 : evalG qeNum p u with
    | error _ => simp [evalG, h1, bind, Except.bind] at h
    | ok a =>
      refine ⟨?_, ratfrag_ok_WF p u hf a h1⟩
      by_contra hn
      have hn0 : n = 0 := by omega
      simp [evalG, h1, bind, Except.bind, mfNthPower, hn0, throw, throwThe, MonadExceptOf.throw] at h
  | .pow _ _ _ | .nroot _ _ _ | .exp _ _ _ | .log _ _ _ | .cos _ _ | .sin _ _ => fun hf _ _ => by
    simp [RatFrag] at hf
theorem ratfragList_ok_WF (p : Point QE) : ∀ es : List (Expr QE), RatFragList es →
    ∀ vs, evalListG qeNum p es = .ok vs → WFList (Expr.castNumList φ es)
  | [] => fun _ _ _ => by simp [Expr.castNumList, WFList]
  | e :: es => fun hf vs h => by
    simp only [RatFragList] at hf
    simp only [Expr.castNumList, WFList]
    cases h1 : evalG qeNum p e with
    | error _ => simp [evalListG, h1, bind, Except.bind] at h
    | ok a =>
      cases h2 : evalListG qeNum p es with
      | error _ => simp [evalListG, h1, h2, bind, Except.bind] at h
      | ok as => exact ⟨ratfrag_ok_WF p e hf.1 a h1, ratfragList_ok_WF p es hf.2 as h2⟩
end

/-! ### deciding concrete exact runs (used for the non-vacuity examples) -/

instance qeDecEq : DecidableEq QE := fun a b =>
  if h : a.q = b.q ∧ a.rep = b.rep then isTrue (by cases a; cases b; simp_all)
  else isFalse (by rintro rfl; exact h ⟨rfl, rfl⟩)

/-- `FitsAt` from a known value of the operand -/
theorem FitsAt.of_eval {p : Point QE} {u : Expr QE} {n : ℕ} {a : QE} (h : evalG qeNum p u = .ok a)
    (hfit : PowFits a n) : FitsAt p u n := by
  intro b hb; rw [h] at hb; cases hb; exact hfit

/-- `FitsAt` is vacuous when the operand has no value -/
theorem FitsAt.of_error {p : Point QE} {u : Expr QE} {n : ℕ} {err : Err}
    (h : evalG qeNum p u = .error err) : FitsAt p u n := by
  intro b hb; rw [h] at hb; cases hb

end Smooth
