/-
Proofs/PointDict — the two printed forms of a `Point` after fix F4 (`renderPointWith`):
keyword form `Point(x=1, y=2)` when every name can be written as a keyword argument, dictionary form
`Point(**{"x": 1, "1y": 2})` otherwise.

* `pd_dictTok`: the token translation used inside the braces (`=` becomes `:`), injective.
* `pd_map_joinComma`: mapping a comma-joined token list is `List.intercalate` of the mapped items.
* `pd_plain`, `pd_dict`: closed forms of the two branches; `pd_form`: the third token tells which.
* `pd_injective`: the printed form determines the point (for one fixed `kw`).
-/
import Smooth.Proofs.Objects

namespace Smooth
variable {α : Type}

/-- the translation of item tokens inside `**{…}`: `=` is written `:`, everything else is kept -/
def pd_dictTok : Tok α → PTok α := fun t => match t with | .eqs => PTok.colon | t => .tok t

/-- one printed dictionary item `"x": v` -/
def pd_dictItem (xv : String × α) : List (PTok α) :=
  [.tok (.str xv.1), .colon, .tok (.num xv.2)]

theorem pd_dictTok_injective : Function.Injective (pd_dictTok (α := α)) := by
  intro a b h
  cases a <;> cases b <;> simp_all [pd_dictTok]

/-- `p.all (kw ∘ name)` in `∀` form -/
theorem pd_all_iff (kw : String → Bool) (p : Point α) :
    (p.all (fun xv => kw xv.1) = true) ↔ ∀ xv ∈ p, kw xv.1 = true := by
  simp [List.all_eq_true]

/-- mapping the tokens of a comma-joined list = joining the mapped items with the mapped comma -/
theorem pd_map_joinComma {β : Type} (f : Tok α → β) :
    ∀ l : List (List (Tok α)),
      (joinComma l).map f = List.intercalate [f .comma] (l.map (List.map f))
  | [] => by simp [joinComma, List.intercalate]
  | [x] => by simp [joinComma, List.intercalate]
  | x :: y :: r => by
    have ih := pd_map_joinComma f (y :: r)
    simp only [joinComma, List.map_append, List.map_cons, List.map_nil, ih]
    simp [List.intercalate]

/-- the dictionary items, translated -/
theorem pd_items_map (p : Point α) :
    (p.map fun (x, v) => [Tok.str x, Tok.eqs, Tok.num v]).map (List.map pd_dictTok)
      = p.map pd_dictItem := by
  simp [pd_dictTok, pd_dictItem, Function.comp_def]

/-- keyword form -/
theorem pd_plain (kw : String → Bool) (p : Point α) (h : ∀ xv ∈ p, kw xv.1 = true) :
    renderPointWith kw p = (renderPoint p).map .tok := by
  have h' := (pd_all_iff kw p).mpr h
  simp only [renderPointWith, h', if_true]

/-- dictionary form, with the model's own `joinComma` -/
theorem pd_dict_raw (kw : String → Bool) (p : Point α) (h : ¬ ∀ xv ∈ p, kw xv.1 = true) :
    renderPointWith kw p =
      [.tok (.ident "Point"), .tok .lp, .star2, .lb]
        ++ (joinComma (p.map fun (x, v) => [Tok.str x, Tok.eqs, Tok.num v])).map pd_dictTok
        ++ [.rb, .tok .rp] := by
  have h' : ¬ (p.all (fun xv => kw xv.1) = true) := fun hh => h ((pd_all_iff kw p).mp hh)
  simp only [renderPointWith, h']
  rfl

/-- dictionary form, closed -/
theorem pd_dict (kw : String → Bool) (p : Point α) (h : ¬ ∀ xv ∈ p, kw xv.1 = true) :
    renderPointWith kw p =
      .tok (.ident "Point") :: .tok .lp :: .star2 :: .lb ::
        (List.intercalate [.tok .comma] (p.map pd_dictItem) ++ [.rb, .tok .rp]) := by
  rw [pd_dict_raw kw p h, pd_map_joinComma, pd_items_map]
  rfl

/-- the third token of the keyword form is never `**` -/
theorem pd_plain_third (p : Point α) : ((renderPoint p).map PTok.tok)[2]? ≠ some .star2 := by
  match p with
  | [] => simp [renderPoint, joinComma]
  | [(x, v)] => simp [renderPoint, joinComma]
  | (x, v) :: a :: r => simp [renderPoint, joinComma]

/-- the third token tells the form -/
theorem pd_form (kw : String → Bool) (p : Point α) :
    (renderPointWith kw p)[2]? = some .star2 ↔ ¬ (∀ xv ∈ p, kw xv.1 = true) := by
  by_cases h : ∀ xv ∈ p, kw xv.1 = true
  · rw [pd_plain kw p h]
    exact ⟨fun h3 => absurd h3 (pd_plain_third p), fun hn => absurd h hn⟩
  · rw [pd_dict kw p h]
    exact ⟨fun _ => h, fun _ => rfl⟩

/-- the coordinates can be read off the printed dictionary items (names are string tokens: nothing
is assumed about their characters) -/
theorem pd_joinComma_items_inj : ∀ p q : Point α,
    joinComma (p.map fun (x, v) => [Tok.str x, Tok.eqs, Tok.num v])
      = joinComma (q.map fun (x, v) => [Tok.str x, Tok.eqs, Tok.num v]) → p = q
  | [], [], _ => rfl
  | [], [_], h => by simp [joinComma] at h
  | [], _ :: _ :: _, h => by simp [joinComma] at h
  | [_], [], h => by simp [joinComma] at h
  | _ :: _ :: _, [], h => by simp [joinComma] at h
  | [(x, v)], [(y, w)], h => by simpa [joinComma] using h
  | [_], _ :: _ :: _, h => by simp [joinComma] at h
  | _ :: _ :: _, [_], h => by simp [joinComma] at h
  | (x, v) :: a :: p, (y, w) :: b :: q, h => by
    simp only [List.map_cons, joinComma, List.cons_append, List.nil_append, List.cons.injEq,
      Tok.str.injEq, Tok.num.injEq, true_and] at h
    obtain ⟨hx, hv, h⟩ := h
    have ih := pd_joinComma_items_inj (a :: p) (b :: q) (by simpa using h)
    rw [hx, hv, ih]

theorem pd_tok_injective : Function.Injective (PTok.tok (α := α)) := by
  intro a b h; cases h; rfl

/-- the printed form determines the point -/
theorem pd_injective (kw : String → Bool) {p q : Point α}
    (h : renderPointWith kw p = renderPointWith kw q) : p = q := by
  by_cases hp : ∀ xv ∈ p, kw xv.1 = true <;> by_cases hq : ∀ xv ∈ q, kw xv.1 = true
  · rw [pd_plain kw p hp, pd_plain kw q hq] at h
    exact obj_renderPoint_inj (List.map_injective_iff.mpr pd_tok_injective h)
  · exact absurd ((pd_form kw p).mp (h ▸ (pd_form kw q).mpr hq)) (not_not.mpr hp)
  · exact absurd ((pd_form kw q).mp (h ▸ (pd_form kw p).mpr hp)) (not_not.mpr hq)
  · rw [pd_dict_raw kw p hp, pd_dict_raw kw q hq] at h
    simp only [List.cons_append, List.nil_append, List.cons.injEq, true_and] at h
    have h2 := List.append_cancel_right h
    exact pd_joinComma_items_inj p q (List.map_injective_iff.mpr pd_dictTok_injective h2)

end Smooth
