/-
Proofs/ObjHistory — histories of calls on persistent derivative objects (C09 for the object layer).

A `Partial` has one piece of mutable state, `_synthetic_partial` (`PartialObj.syn`).  Users keep such
objects and call `.at(point)` / `.as_expression()` many times in any order.  This file defines the
operations (`POp`), what a call returns (`POut`), one call (`PartialObj.step`) and a whole history
(`PartialObj.run`) — all computable and generic in the number record — and proves

* the state invariant `OhInv` (the state is `none` or THE normalised symbolic partial), for every
  number instance;
* over the reals: every answer is the answer of a fresh object (`POut.MemoOf`: equal, or the same
  expression without the warning the fresh object would log), on the domain (outside K1) and off it;
* the same for `Derivative` (by reduction to its `Partial`) and the facts about `Differential`.

The property statements are in Properties/C09obj.lean.  Prefix of helper lemmas: `oh_`.
-/
import Smooth.Proofs.Routes
import Smooth.Proofs.RoutesRun
import Smooth.Proofs.SymForwardRun

namespace Smooth
open Classical Expr

/-! ## definitions (generic in the number record, computable) -/

section defs
variable {α : Type}

/-- a call on a `Partial`: `.at(point)` or `.as_expression()` -/
inductive POp (α : Type) where
  | at (p : Point α)
  | asExpr

/-- what a call returned: a number (or an error), or an expression together with "a warning was
logged during this call" (or an error) -/
inductive POut (α : Type) where
  | num (r : R α)
  | expr (r : R (Expr α × Bool))

/-- forget the warning flag (numbers and errors are kept as they are) -/
def POut.forget : POut α → POut α
  | .num r => .num r
  | .expr r => .expr (r.map fun sw => (sw.1, false))

/-- one call: the next state of the object and what the call returned.  A failing
`as_expression()` (the rewriter ran out of fuel) leaves the state unchanged. -/
def PartialObj.step (N : Num α) (P : PartialObj α) : POp α → PartialObj α × POut α
  | .at p => (P, .num (P.at N p))
  | .asExpr =>
    match P.asExpression N with
    | .ok (s, P', w) => (P', .expr (.ok (s, w)))
    | .error err => (P, .expr (.error err))

/-- a history of calls: the final state and the transcript of answers -/
def PartialObj.run (N : Num α) (P : PartialObj α) : List (POp α) → PartialObj α × List (POut α)
  | [] => (P, [])
  | o :: ops =>
    ((PartialObj.run N (P.step N o).1 ops).1, (P.step N o).2 :: (PartialObj.run N (P.step N o).1 ops).2)

/-- what a FRESH (late, never used) `Partial(e, x)` answers to the call `o` -/
def PartialObj.freshAnswer (N : Num α) (e : Expr α) (x : String) (o : POp α) : POut α :=
  ((PartialObj.mk e x none).step N o).2

/-- `out` is the answer of a fresh object, or the memoised form of it: the same expression, no
warning (a fresh object may log the warning while it normalises; a memoised answer never does) -/
def POut.MemoOf (fresh out : POut α) : Prop :=
  out = fresh ∨ ∃ s w, fresh = .expr (.ok (s, w)) ∧ out = .expr (.ok (s, false))

/-- **the state invariant**: the original and the variable never change; the stored expression is
absent or it is THE normalised symbolic partial `_retrieve_synthetic_partial` computes -/
def OhInv (N : Num α) (e : Expr α) (x : String) (P : PartialObj α) : Prop :=
  P = ⟨e, x, none⟩ ∨ ∃ s w, retrieveSyntheticPartial N e x = .ok (s, w) ∧ P = ⟨e, x, some s⟩

/-- a call on a `Derivative`: `.at(point)`, `.at(number)`, `.as_expression()` -/
inductive DOp (α : Type) where
  | at (p : Point α)
  | atNumber (t : α)
  | asExpr

/-- the call the `Derivative` in the variable `x` forwards to its `Partial` -/
def DOp.toPOp (x : String) : DOp α → POp α
  | .at p => .at p
  | .atNumber t => .at [(x, t)]
  | .asExpr => .asExpr

def DerivativeObj.step (N : Num α) (D : DerivativeObj α) : DOp α → DerivativeObj α × POut α
  | .at p => (D, .num (D.at N p))
  | .atNumber t => (D, .num (D.atNumber N t))
  | .asExpr =>
    match D.asExpression N with
    | .ok (s, D', w) => (D', .expr (.ok (s, w)))
    | .error err => (D, .expr (.error err))

def DerivativeObj.run (N : Num α) (D : DerivativeObj α) :
    List (DOp α) → DerivativeObj α × List (POut α)
  | [] => (D, [])
  | o :: ops =>
    ((DerivativeObj.run N (D.step N o).1 ops).1,
      (D.step N o).2 :: (DerivativeObj.run N (D.step N o).1 ops).2)

/-- what a fresh late `Derivative(e)` (single variable `x`) answers -/
def DerivativeObj.freshAnswer (N : Num α) (e : Expr α) (x : String) (o : DOp α) : POut α :=
  ((DerivativeObj.mk e x ⟨e, x, none⟩).step N o).2

/-- the state invariant of a `Derivative` in the variable `x` -/
def OhDInv (N : Num α) (e : Expr α) (x : String) (D : DerivativeObj α) : Prop :=
  D.orig = e ∧ D.x = x ∧ OhInv N e x D.partial_

/-- a query on a `Differential`: `.component(x)`, `.component_at(x, p)`, `.at(p)`,
`.at(p).component(x)`.  None of the model's functions returns a new state: the Python object has no
attribute that is assigned after `__init__`. -/
inductive FOp (α : Type) where
  | component (x : String)
  | componentAt (x : String) (p : Point α)
  | at (p : Point α)
  | atComponent (x : String) (p : Point α)

inductive FOut (α : Type) where
  | partial_ (r : R (PartialObj α × Bool))
  | num (r : R α)
  | located (r : R (LocatedObj α))

def DifferentialObj.answer (N : Num α) (D : DifferentialObj α) : FOp α → FOut α
  | .component x => .partial_ (D.component N x)
  | .componentAt x p => .num (D.componentAt N x p)
  | .at p => .located (D.at N p)
  | .atComponent x p => .num (do let L ← D.at N p; pure (L.component N x))

/-- one query: the (unchanged) object and the answer -/
def DifferentialObj.step (N : Num α) (D : DifferentialObj α) (o : FOp α) :
    DifferentialObj α × FOut α := (D, D.answer N o)

def DifferentialObj.run (N : Num α) (D : DifferentialObj α) :
    List (FOp α) → DifferentialObj α × List (FOut α)
  | [] => (D, [])
  | o :: ops =>
    ((DifferentialObj.run N (D.step N o).1 ops).1,
      (D.step N o).2 :: (DifferentialObj.run N (D.step N o).1 ops).2)

end defs

/-! ## facts for every number instance -/

section generic
variable {α : Type} (N : Num α)

theorem oh_fresh_at (e : Expr α) (x : String) (p : Point α) :
    PartialObj.freshAnswer N e x (.at p) = .num (fwdG N p x e) := rfl

theorem oh_fresh_asExpr (e : Expr α) (x : String) :
    PartialObj.freshAnswer N e x .asExpr = .expr (retrieveSyntheticPartial N e x) := by
  unfold PartialObj.freshAnswer PartialObj.step PartialObj.asExpression
  cases h : retrieveSyntheticPartial N e x with
  | error err => rfl
  | ok sw => rfl

/-- one `as_expression()` on a fresh object: the next state -/
theorem oh_step_asExpr_none (e : Expr α) (x : String) :
    (PartialObj.mk e x none).step N .asExpr =
      match retrieveSyntheticPartial N e x with
      | .ok (s, w) => (⟨e, x, some s⟩, .expr (.ok (s, w)))
      | .error err => (⟨e, x, none⟩, .expr (.error err)) := by
  unfold PartialObj.step PartialObj.asExpression
  cases h : retrieveSyntheticPartial N e x with
  | error err => rfl
  | ok sw => rfl

/-- an object that stores an expression never changes again, and answers with what it stores -/
theorem oh_step_stored (e s : Expr α) (x : String) (o : POp α) :
    ((PartialObj.mk e x (some s)).step N o).1 = ⟨e, x, some s⟩ := by
  cases o <;> rfl

theorem oh_step_stored_asExpr (e s : Expr α) (x : String) :
    ((PartialObj.mk e x (some s)).step N .asExpr).2 = .expr (.ok (s, false)) := rfl

theorem oh_step_stored_at (e s : Expr α) (x : String) (p : Point α) :
    ((PartialObj.mk e x (some s)).step N (.at p)).2 =
      .num (do let _ ← evalG N p e; evalG N p s) := rfl

theorem oh_run_stored (e s : Expr α) (x : String) : ∀ ops : List (POp α),
    ((PartialObj.mk e x (some s)).run N ops).1 = ⟨e, x, some s⟩
  | [] => rfl
  | o :: ops => by
    simp only [PartialObj.run, oh_step_stored]
    exact oh_run_stored e s x ops

theorem oh_run_nil (P : PartialObj α) : P.run N [] = (P, []) := rfl

theorem oh_run_cons (P : PartialObj α) (o : POp α) (ops : List (POp α)) :
    P.run N (o :: ops) =
      (((P.step N o).1.run N ops).1, (P.step N o).2 :: ((P.step N o).1.run N ops).2) := rfl

theorem oh_run_append (P : PartialObj α) : ∀ ops₁ ops₂ : List (POp α),
    P.run N (ops₁ ++ ops₂) =
      (((P.run N ops₁).1.run N ops₂).1, (P.run N ops₁).2 ++ ((P.run N ops₁).1.run N ops₂).2)
  | [], ops₂ => rfl
  | o :: ops₁, ops₂ => by
    simp only [List.cons_append, oh_run_cons, oh_run_append (P.step N o).1 ops₁ ops₂]

theorem oh_run_length (P : PartialObj α) : ∀ ops : List (POp α), (P.run N ops).2.length = ops.length
  | [] => rfl
  | o :: ops => by simp [oh_run_cons, oh_run_length (P.step N o).1 ops]

/-- the invariant holds of every newly constructed object (late, or early when the construction
succeeds) -/
theorem oh_inv_new (e : Expr α) (x : String) (early : Bool) {P : PartialObj α} {w : Bool}
    (h : PartialObj.new N e x early = .ok (P, w)) : OhInv N e x P := by
  cases early with
  | false =>
    simp only [PartialObj.new, Bool.false_eq_true, if_false, pure, Except.pure] at h
    injection h with h
    injection h with h _
    exact Or.inl h.symm
  | true =>
    simp only [PartialObj.new, if_true] at h
    cases hr : retrieveSyntheticPartial N e x with
    | error err => simp [hr, bind, Except.bind] at h
    | ok sw =>
      obtain ⟨s, w'⟩ := sw
      simp only [hr, bind, Except.bind, pure, Except.pure] at h
      injection h with h
      injection h with h _
      exact Or.inr ⟨s, w', hr, h.symm⟩

theorem oh_inv_fresh (e : Expr α) (x : String) : OhInv N e x ⟨e, x, none⟩ := Or.inl rfl

/-- **one call keeps the invariant** -/
theorem oh_step_inv {e : Expr α} {x : String} {P : PartialObj α} (h : OhInv N e x P) (o : POp α) :
    OhInv N e x (P.step N o).1 := by
  rcases h with rfl | ⟨s, w, hret, rfl⟩
  · cases o with
    | «at» p => exact Or.inl rfl
    | asExpr =>
      rw [oh_step_asExpr_none]
      cases hr : retrieveSyntheticPartial N e x with
      | error err => exact Or.inl rfl
      | ok sw => exact Or.inr ⟨sw.1, sw.2, hr, rfl⟩
  · rw [oh_step_stored]
    exact Or.inr ⟨s, w, hret, rfl⟩

/-- **every history keeps the invariant** -/
theorem oh_run_inv {e : Expr α} {x : String} : ∀ {P : PartialObj α}, OhInv N e x P →
    ∀ ops : List (POp α), OhInv N e x (P.run N ops).1
  | _, h, [] => h
  | _, h, o :: ops => oh_run_inv (oh_step_inv N h o) ops

/-- the stored expression is the same whatever the history -/
theorem oh_inv_stored_unique {e : Expr α} {x : String} {P₁ P₂ : PartialObj α}
    (h₁ : OhInv N e x P₁) (h₂ : OhInv N e x P₂) {s₁ s₂ : Expr α} (e₁ : P₁.syn = some s₁)
    (e₂ : P₂.syn = some s₂) : s₁ = s₂ := by
  rcases h₁ with rfl | ⟨t₁, w₁, r₁, rfl⟩
  · cases e₁
  rcases h₂ with rfl | ⟨t₂, w₂, r₂, rfl⟩
  · cases e₂
  injection e₁ with e₁
  injection e₂ with e₂
  subst e₁; subst e₂
  rw [r₁] at r₂
  injection r₂ with r₂
  injection r₂ with r₂ _

/-- once `as_expression()` has succeeded the object stores its result for ever -/
theorem oh_inv_stored {e : Expr α} {x : String} {P : PartialObj α} (h : OhInv N e x P) :
    P.orig = e ∧ P.x = x ∧
      ∀ s, P.syn = some s → ∃ w, retrieveSyntheticPartial N e x = .ok (s, w) := by
  rcases h with rfl | ⟨t, w, r, rfl⟩
  · exact ⟨rfl, rfl, fun s h => by cases h⟩
  · refine ⟨rfl, rfl, fun s h => ?_⟩
    injection h with h
    subst h
    exact ⟨w, r⟩

/-- what `Partial(e, x, compute_early=True)` is when the construction succeeds -/
theorem oh_new_early (e : Expr α) (x : String) {P : PartialObj α} {w : Bool}
    (h : PartialObj.new N e x true = .ok (P, w)) :
    ∃ s, retrieveSyntheticPartial N e x = .ok (s, w) ∧ P = ⟨e, x, some s⟩ := by
  simp only [PartialObj.new, if_true] at h
  cases hr : retrieveSyntheticPartial N e x with
  | error err => simp [hr, bind, Except.bind] at h
  | ok sw =>
    obtain ⟨s, w'⟩ := sw
    simp only [hr, bind, Except.bind, pure, Except.pure] at h
    injection h with h
    injection h with h1 h2
    subst h2
    exact ⟨s, rfl, h1.symm⟩

/-- the early object never changes -/
theorem oh_run_early (e : Expr α) (x : String) {P : PartialObj α} {w : Bool}
    (h : PartialObj.new N e x true = .ok (P, w)) (ops : List (POp α)) : (P.run N ops).1 = P := by
  obtain ⟨s, _, rfl⟩ := oh_new_early N e x h
  exact oh_run_stored N e s x ops

/-- a failing `as_expression()` leaves the object as it was -/
theorem oh_step_asExpr_fail (P : PartialObj α) {err : Err} (h : P.asExpression N = .error err) :
    P.step N .asExpr = (P, .expr (.error err)) := by
  simp only [PartialObj.step, h]

/-- if `as_expression()` cannot succeed (fuel), a late object stays in its initial state for ever -/
theorem oh_run_fuel {e : Expr α} {x : String} {err : Err}
    (hret : retrieveSyntheticPartial N e x = .error err) : ∀ ops : List (POp α),
    ((PartialObj.mk e x none).run N ops).1 = ⟨e, x, none⟩
  | [] => rfl
  | .at p :: ops => by
    rw [oh_run_cons]
    exact oh_run_fuel hret ops
  | .asExpr :: ops => by
    rw [oh_run_cons, oh_step_asExpr_none, hret]
    exact oh_run_fuel hret ops

/-- once a history contains an `as_expression()` (and the rewriter has enough fuel) the object stores
the normalised symbolic partial -/
theorem oh_run_asExpr_mem {e s : Expr α} {x : String} {w : Bool}
    (hret : retrieveSyntheticPartial N e x = .ok (s, w)) : ∀ {P : PartialObj α}, OhInv N e x P →
    ∀ ops : List (POp α), POp.asExpr ∈ ops → (P.run N ops).1 = ⟨e, x, some s⟩
  | _, _, [], h => by cases h
  | P, hinv, o :: ops, h => by
    rw [oh_run_cons]
    rcases hinv with rfl | ⟨s', w', hret', rfl⟩
    · cases o with
      | «at» p =>
        have h' : POp.asExpr ∈ ops := by
          rcases List.mem_cons.mp h with h | h
          · cases h
          · exact h
        exact oh_run_asExpr_mem hret (Or.inl rfl) ops h'
      | asExpr =>
        rw [oh_step_asExpr_none, hret]
        exact oh_run_stored N e s x ops
    · rw [hret] at hret'
      injection hret' with hret'
      injection hret' with h1 _
      subst h1
      rw [oh_step_stored]
      exact oh_run_stored N e s x ops

/-- **`as_expression()` after any history** returns the fresh object's expression — for every number
instance, with no side condition: the very answer of the fresh object, or (when the expression is
already stored) the same expression without warning -/
theorem oh_asExpr_memoOf {e : Expr α} {x : String} {P : PartialObj α} (h : OhInv N e x P) :
    POut.MemoOf (PartialObj.freshAnswer N e x .asExpr) (P.step N .asExpr).2 := by
  rcases h with rfl | ⟨s, w, hret, rfl⟩
  · exact Or.inl rfl
  · rw [oh_fresh_asExpr, hret]
    exact Or.inr ⟨s, w, rfl, rfl⟩

theorem oh_memoOf_forget {fresh out : POut α} (h : POut.MemoOf fresh out) :
    out.forget = fresh.forget := by
  rcases h with rfl | ⟨s, w, rfl, rfl⟩
  · rfl
  · rfl

theorem oh_memoOf_refl (a : POut α) : POut.MemoOf a a := Or.inl rfl

/-- for numbers `MemoOf` is equality -/
theorem oh_memoOf_num {r : R α} {out : POut α} (h : POut.MemoOf (.num r) out) : out = .num r := by
  rcases h with rfl | ⟨s, w, h, _⟩
  · rfl
  · cases h

/-- if the fresh object logs no warning (or fails), `MemoOf` is equality -/
theorem oh_memoOf_no_warning {fresh out : POut α} (h : POut.MemoOf fresh out)
    (hw : ∀ s w, fresh = .expr (.ok (s, w)) → w = false) : out = fresh := by
  rcases h with rfl | ⟨s, w, rfl, rfl⟩
  · rfl
  · rw [hw s w rfl]

/-! ### `Derivative`: reduction to its `Partial` -/

theorem oh_dstep_eq (D : DerivativeObj α) (o : DOp α) :
    D.step N o = ({ D with partial_ := (D.partial_.step N (o.toPOp D.x)).1 },
      (D.partial_.step N (o.toPOp D.x)).2) := by
  cases o with
  | «at» p => rfl
  | atNumber t => rfl
  | asExpr =>
    simp only [DerivativeObj.step, DerivativeObj.asExpression, DOp.toPOp, PartialObj.step]
    cases h : D.partial_.asExpression N with
    | error err => rfl
    | ok r => rfl

theorem oh_drun_eq : ∀ (D : DerivativeObj α) (ops : List (DOp α)),
    D.run N ops = ({ D with partial_ := (D.partial_.run N (ops.map (DOp.toPOp D.x))).1 },
      (D.partial_.run N (ops.map (DOp.toPOp D.x))).2)
  | D, [] => rfl
  | D, o :: ops => by
    simp only [DerivativeObj.run, List.map_cons, oh_run_cons]
    rw [oh_dstep_eq, oh_drun_eq _ ops]

theorem oh_dfresh_eq (e : Expr α) (x : String) (o : DOp α) :
    DerivativeObj.freshAnswer N e x o = PartialObj.freshAnswer N e x (o.toPOp x) := by
  unfold DerivativeObj.freshAnswer PartialObj.freshAnswer
  rw [oh_dstep_eq]

/-- a constructed `Derivative` (late, or early when the construction succeeds) satisfies its
invariant, in the single variable of the expression -/
theorem oh_dinv_new (e : Expr α) (early : Bool) {D : DerivativeObj α} {w : Bool}
    (h : DerivativeObj.new N e early = .ok (D, w)) :
    singleVarName e = .ok D.x ∧ OhDInv N e D.x D := by
  unfold DerivativeObj.new at h
  cases hx : singleVarName e with
  | error err => simp [hx, bind, Except.bind] at h
  | ok x =>
    cases hp : PartialObj.new N e x early with
    | error err => simp [hx, hp, bind, Except.bind] at h
    | ok Pw =>
      obtain ⟨P, w'⟩ := Pw
      simp only [hx, hp, bind, Except.bind, pure, Except.pure] at h
      injection h with h
      injection h with h _
      subst h
      exact ⟨rfl, rfl, rfl, oh_inv_new N e x early hp⟩

/-- a late `Derivative` is the fresh object `freshAnswer` talks about -/
theorem oh_dnew_late (e : Expr α) {D : DerivativeObj α} {w : Bool}
    (h : DerivativeObj.new N e false = .ok (D, w)) : D = ⟨e, D.x, ⟨e, D.x, none⟩⟩ := by
  unfold DerivativeObj.new PartialObj.new at h
  cases hx : singleVarName e with
  | error err => simp [hx, bind, Except.bind] at h
  | ok x =>
    simp only [hx, bind, Except.bind, pure, Except.pure, Bool.false_eq_true, if_false] at h
    injection h with h
    injection h with h _
    subst h
    rfl

theorem oh_dstep_inv {e : Expr α} {x : String} {D : DerivativeObj α} (h : OhDInv N e x D)
    (o : DOp α) : OhDInv N e x (D.step N o).1 := by
  obtain ⟨h1, h2, h3⟩ := h
  rw [oh_dstep_eq]
  exact ⟨h1, h2, oh_step_inv N h3 _⟩

theorem oh_drun_inv {e : Expr α} {x : String} {D : DerivativeObj α} (h : OhDInv N e x D)
    (ops : List (DOp α)) : OhDInv N e x (D.run N ops).1 := by
  obtain ⟨h1, h2, h3⟩ := h
  rw [oh_drun_eq]
  exact ⟨h1, h2, oh_run_inv N h3 _⟩

/-! ### `Differential`: no state -/

theorem oh_frun_state (D : DifferentialObj α) : ∀ ops : List (FOp α), (D.run N ops).1 = D
  | [] => rfl
  | _ :: ops => oh_frun_state D ops

theorem oh_frun_answers (D : DifferentialObj α) : ∀ ops : List (FOp α),
    (D.run N ops).2 = ops.map (D.answer N)
  | [] => rfl
  | _ :: ops => by
    simp only [DifferentialObj.run, DifferentialObj.step, List.map_cons, oh_frun_answers D ops]

/-- what `component_at` does on an object that stores components -/
theorem oh_componentAt_stored (e : Expr α) (d : SAcc α) (x : String) (p : Point α) :
    (DifferentialObj.mk e (some d)).componentAt N x p =
      match SAcc.get? d x with
      | none => fwdG N p x e
      | some s => (do let _ ← evalG N p e; evalG N p s) := by
  unfold DifferentialObj.componentAt DifferentialObj.component
  simp only
  cases h : SAcc.get? d x with
  | none => rfl
  | some s => rfl

theorem oh_componentAt_late (e : Expr α) (x : String) (p : Point α) :
    (DifferentialObj.mk e none).componentAt N x p = fwdG N p x e := rfl

/-- the `Partial` handed out by `component` -/
theorem oh_component_stored (e : Expr α) (d : SAcc α) (x : String) :
    (DifferentialObj.mk e (some d)).component N x =
      .ok (⟨e, x, SAcc.get? d x⟩, false) := by
  unfold DifferentialObj.component
  simp only
  cases h : SAcc.get? d x with
  | none => rfl
  | some s => rfl

end generic

/-! ## over the reals -/

section real
variable {e : Expr ℝ} {x : String}

/-- the call needs no coordinate the point does not have -/
def POp.Supplies (e : Expr ℝ) : POp ℝ → Prop
  | .at p => Supp p e
  | .asExpr => True

def DOp.Supplies (e : Expr ℝ) : DOp ℝ → Prop
  | .at p => Supp p e
  | .atNumber _ => True
  | .asExpr => True

/-- a stored expression that evaluates, on the original's domain, to what forward mode answers -/
def OhGood (e : Expr ℝ) (x : String) (s : Expr ℝ) : Prop :=
  ∀ p : Point ℝ, Supp p e → Dom (valOf p) e → evalG realNum p s = fwdG realNum p x e

/-- outside K1 the normalised symbolic partial is such an expression -/
theorem oh_good_retrieved (hwf : WF e)
    (hK1 : NormOK K1FreeAt REDUCTION_STEPS_BOUND NORMALIZE_FUEL (symFwd realNum x e))
    {s : Expr ℝ} {w : Bool} (hret : retrieveSyntheticPartial realNum e x = .ok (s, w)) :
    OhGood e x s :=
  (refines_symFwd_facts (retrieveSyntheticPartial_refines e x s w hK1 hret) hwf).2.2.2.2

/-- an object that stores a good expression answers `.at(p)` like a fresh one, at every supplied
point: on the domain the same number, off the domain the same `DomainError` -/
theorem oh_at_stored (hwf : WF e) {s : Expr ℝ} (hg : OhGood e x s) (p : Point ℝ) (hs : Supp p e) :
    (PartialObj.mk e x (some s)).at realNum p = (PartialObj.mk e x none).at realNum p := by
  by_cases hd : Dom (valOf p) e
  · simp only [PartialObj.at, routes_evalG_ok hwf hs hd, bind, Except.bind]
    exact hg p hs hd
  · simp only [PartialObj.at, routes_evalG_off hwf hs hd, routes_fwdG_off x hwf hs hd, bind,
      Except.bind]

/-- off the domain no side condition is needed: the original is evaluated first -/
theorem oh_at_stored_off (hwf : WF e) (s : Expr ℝ) (p : Point ℝ) (hs : Supp p e)
    (hnd : ¬ Dom (valOf p) e) :
    (PartialObj.mk e x (some s)).at realNum p = .error .domain := by
  simp only [PartialObj.at, routes_evalG_off hwf hs hnd, bind, Except.bind]

theorem oh_at_fresh_on (hwf : WF e) (p : Point ℝ) (hs : Supp p e) (hd : Dom (valOf p) e) :
    (PartialObj.mk e x none).at realNum p = .ok (truePartial p x e) :=
  tp_fwd_is_truePartial p x e hwf hs hd

theorem oh_at_fresh_off (hwf : WF e) (p : Point ℝ) (hs : Supp p e) (hnd : ¬ Dom (valOf p) e) :
    (PartialObj.mk e x none).at realNum p = .error .domain :=
  routes_fwdG_off x hwf hs hnd

/-- `.at(p)` in any state satisfying the invariant -/
theorem oh_at_inv (hwf : WF e)
    (hK1 : NormOK K1FreeAt REDUCTION_STEPS_BOUND NORMALIZE_FUEL (symFwd realNum x e))
    {P : PartialObj ℝ} (hinv : OhInv realNum e x P) (p : Point ℝ) (hs : Supp p e) :
    P.at realNum p = (PartialObj.mk e x none).at realNum p := by
  rcases hinv with rfl | ⟨s, w, hret, rfl⟩
  · rfl
  · exact oh_at_stored hwf (oh_good_retrieved hwf hK1 hret) p hs

/-- `.at(p)` off the domain in any state satisfying the invariant: no K1 hypothesis -/
theorem oh_at_inv_off (hwf : WF e) {P : PartialObj ℝ} (hinv : OhInv realNum e x P) (p : Point ℝ)
    (hs : Supp p e) (hnd : ¬ Dom (valOf p) e) : P.at realNum p = .error .domain := by
  rcases hinv with rfl | ⟨s, w, _, rfl⟩
  · exact oh_at_fresh_off hwf p hs hnd
  · exact oh_at_stored_off hwf s p hs hnd

/-- **one call in any reachable state answers like a fresh object** -/
theorem oh_step_memoOf (hwf : WF e)
    (hK1 : NormOK K1FreeAt REDUCTION_STEPS_BOUND NORMALIZE_FUEL (symFwd realNum x e))
    {P : PartialObj ℝ} (hinv : OhInv realNum e x P) (o : POp ℝ) (hsupp : o.Supplies e) :
    POut.MemoOf (PartialObj.freshAnswer realNum e x o) (P.step realNum o).2 := by
  cases o with
  | asExpr => exact oh_asExpr_memoOf realNum hinv
  | «at» p =>
    refine Or.inl ?_
    show POut.num (P.at realNum p) = POut.num ((PartialObj.mk e x none).at realNum p)
    rw [oh_at_inv hwf hK1 hinv p hsupp]

/-- **the whole transcript of a history is, call by call, the transcript of fresh objects** -/
theorem oh_run_transcript (hwf : WF e)
    (hK1 : NormOK K1FreeAt REDUCTION_STEPS_BOUND NORMALIZE_FUEL (symFwd realNum x e)) :
    ∀ {P : PartialObj ℝ}, OhInv realNum e x P → ∀ ops : List (POp ℝ),
      (∀ o ∈ ops, o.Supplies e) →
      List.Forall₂ (fun o out => POut.MemoOf (PartialObj.freshAnswer realNum e x o) out) ops
        (P.run realNum ops).2
  | _, _, [], _ => List.Forall₂.nil
  | _, hinv, o :: ops, hsupp =>
    List.Forall₂.cons (oh_step_memoOf hwf hK1 hinv o (hsupp o List.mem_cons_self))
      (oh_run_transcript hwf hK1 (oh_step_inv realNum hinv o) ops
        fun o' ho' => hsupp o' (List.mem_cons_of_mem _ ho'))

/-- **the answer to a further call after any history** -/
theorem oh_after_history (hwf : WF e)
    (hK1 : NormOK K1FreeAt REDUCTION_STEPS_BOUND NORMALIZE_FUEL (symFwd realNum x e))
    {P : PartialObj ℝ} (hinv : OhInv realNum e x P) (ops : List (POp ℝ)) (o : POp ℝ)
    (hsupp : o.Supplies e) :
    POut.MemoOf (PartialObj.freshAnswer realNum e x o) ((P.run realNum ops).1.step realNum o).2 :=
  oh_step_memoOf hwf hK1 (oh_run_inv realNum hinv ops) o hsupp

/-- two histories, one answer (up to the warning flag of `as_expression()`) -/
theorem oh_two_histories (hwf : WF e)
    (hK1 : NormOK K1FreeAt REDUCTION_STEPS_BOUND NORMALIZE_FUEL (symFwd realNum x e))
    {P₁ P₂ : PartialObj ℝ} (h₁ : OhInv realNum e x P₁) (h₂ : OhInv realNum e x P₂)
    (ops₁ ops₂ : List (POp ℝ)) (o : POp ℝ) (hsupp : o.Supplies e) :
    ((P₁.run realNum ops₁).1.step realNum o).2.forget =
      ((P₂.run realNum ops₂).1.step realNum o).2.forget := by
  rw [oh_memoOf_forget (oh_after_history hwf hK1 h₁ ops₁ o hsupp),
    oh_memoOf_forget (oh_after_history hwf hK1 h₂ ops₂ o hsupp)]

/-- early construction succeeds when the rewriter has enough fuel -/
theorem oh_new_early_ok (e : Expr ℝ) (x : String)
    (hfuel : ∃ r, normalize realNum (symFwd realNum x e) = some r) :
    ∃ s w, retrieveSyntheticPartial realNum e x = .ok (s, w) ∧
      PartialObj.new realNum e x true = .ok (⟨e, x, some s⟩, w) := by
  obtain ⟨s, w, hret⟩ := routes_retrieve_ok x hfuel
  exact ⟨s, w, hret, by simp [PartialObj.new, hret, bind, Except.bind, pure, Except.pure]⟩

/-! ### `Derivative` -/

/-- the one-coordinate point of the single variable supplies the expression -/
theorem oh_supp_single (hx : singleVarName e = .ok x) (t : ℝ) : Supp [(x, t)] e := by
  rw [supp_iff_vars]
  intro y hy
  rw [(routes_singleVarName_ok hx).2 y hy]
  simp [Point.get?]

theorem oh_dop_supplies (hx : singleVarName e = .ok x) {o : DOp ℝ} (h : o.Supplies e) :
    (o.toPOp x).Supplies e := by
  cases o with
  | «at» p => exact h
  | atNumber t => exact oh_supp_single hx t
  | asExpr => trivial

theorem oh_dstep_memoOf (hwf : WF e) (hx : singleVarName e = .ok x)
    (hK1 : NormOK K1FreeAt REDUCTION_STEPS_BOUND NORMALIZE_FUEL (symFwd realNum x e))
    {D : DerivativeObj ℝ} (hinv : OhDInv realNum e x D) (o : DOp ℝ) (hsupp : o.Supplies e) :
    POut.MemoOf (DerivativeObj.freshAnswer realNum e x o) (D.step realNum o).2 := by
  rw [oh_dfresh_eq, oh_dstep_eq]
  have h2 := hinv.2.1
  simp only [h2]
  exact oh_step_memoOf hwf hK1 hinv.2.2 _ (oh_dop_supplies hx hsupp)

theorem oh_dafter_history (hwf : WF e) (hx : singleVarName e = .ok x)
    (hK1 : NormOK K1FreeAt REDUCTION_STEPS_BOUND NORMALIZE_FUEL (symFwd realNum x e))
    {D : DerivativeObj ℝ} (hinv : OhDInv realNum e x D) (ops : List (DOp ℝ)) (o : DOp ℝ)
    (hsupp : o.Supplies e) :
    POut.MemoOf (DerivativeObj.freshAnswer realNum e x o)
      ((D.run realNum ops).1.step realNum o).2 :=
  oh_dstep_memoOf hwf hx hK1 (oh_drun_inv realNum hinv ops) o hsupp

theorem oh_drun_transcript (hwf : WF e) (hx : singleVarName e = .ok x)
    (hK1 : NormOK K1FreeAt REDUCTION_STEPS_BOUND NORMALIZE_FUEL (symFwd realNum x e)) :
    ∀ {D : DerivativeObj ℝ}, OhDInv realNum e x D → ∀ ops : List (DOp ℝ),
      (∀ o ∈ ops, o.Supplies e) →
      List.Forall₂ (fun o out => POut.MemoOf (DerivativeObj.freshAnswer realNum e x o) out) ops
        (D.run realNum ops).2
  | _, _, [], _ => List.Forall₂.nil
  | _, hinv, o :: ops, hsupp =>
    List.Forall₂.cons (oh_dstep_memoOf hwf hx hK1 hinv o (hsupp o List.mem_cons_self))
      (oh_drun_transcript hwf hx hK1 (oh_dstep_inv realNum hinv o) ops
        fun o' ho' => hsupp o' (List.mem_cons_of_mem _ ho'))

theorem oh_dtwo_histories (hwf : WF e) (hx : singleVarName e = .ok x)
    (hK1 : NormOK K1FreeAt REDUCTION_STEPS_BOUND NORMALIZE_FUEL (symFwd realNum x e))
    {D₁ D₂ : DerivativeObj ℝ} (h₁ : OhDInv realNum e x D₁) (h₂ : OhDInv realNum e x D₂)
    (ops₁ ops₂ : List (DOp ℝ)) (o : DOp ℝ) (hsupp : o.Supplies e) :
    ((D₁.run realNum ops₁).1.step realNum o).2.forget =
      ((D₂.run realNum ops₂).1.step realNum o).2.forget := by
  rw [oh_memoOf_forget (oh_dafter_history hwf hx hK1 h₁ ops₁ o hsupp),
    oh_memoOf_forget (oh_dafter_history hwf hx hK1 h₂ ops₂ o hsupp)]

/-! ### `Differential` computed early against the fresh late object -/

/-- outside K1 every component stored by the early `Differential` is a good stored expression -/
theorem oh_good_component (hwf : WF e) (hK1r : RoutesK1Rev e) {d : SAcc ℝ} {w : Bool}
    (hn : normalizeAll realNum (syntheticPartials realNum e) = .ok (d, w)) {s : Expr ℝ}
    (hg : SAcc.get? d x = some s) : OhGood e x s :=
  fun _ hs hd => normalizeAll_eval hwf hs hd hn hK1r hg

/-- **`component_at` of the early object = `component_at` of a fresh late object**, at every supplied
point, on the domain (outside K1) and off it -/
theorem oh_early_componentAt (hwf : WF e) (hK1r : RoutesK1Rev e) {D : DifferentialObj ℝ} {w : Bool}
    (hnew : DifferentialObj.new realNum e true = .ok (D, w)) (x : String) (p : Point ℝ)
    (hs : Supp p e) :
    D.componentAt realNum x p = (DifferentialObj.mk e none).componentAt realNum x p := by
  obtain ⟨d, hn, rfl⟩ := differentialNew_early realNum e hnew
  rw [oh_componentAt_stored, oh_componentAt_late]
  cases hg : SAcc.get? d x with
  | none => rfl
  | some s => exact oh_at_stored (x := x) hwf (oh_good_component hwf hK1r hn hg) p hs

/-- off the domain: `DomainError`, with no K1 hypothesis -/
theorem oh_early_componentAt_off (hwf : WF e) {D : DifferentialObj ℝ} {w : Bool}
    (hnew : DifferentialObj.new realNum e true = .ok (D, w)) (x : String) (p : Point ℝ)
    (hs : Supp p e) (hnd : ¬ Dom (valOf p) e) :
    D.componentAt realNum x p = .error .domain := by
  obtain ⟨d, hn, rfl⟩ := differentialNew_early realNum e hnew
  rw [oh_componentAt_stored]
  cases hg : SAcc.get? d x with
  | none => exact routes_fwdG_off x hwf hs hnd
  | some s => exact oh_at_stored_off (x := x) hwf s p hs hnd

theorem oh_late_componentAt_on (hwf : WF e) (x : String) (p : Point ℝ) (hs : Supp p e)
    (hd : Dom (valOf p) e) :
    (DifferentialObj.mk e none).componentAt realNum x p = .ok (truePartial p x e) :=
  tp_fwd_is_truePartial p x e hwf hs hd

theorem oh_late_componentAt_off (hwf : WF e) (x : String) (p : Point ℝ) (hs : Supp p e)
    (hnd : ¬ Dom (valOf p) e) :
    (DifferentialObj.mk e none).componentAt realNum x p = .error .domain :=
  routes_fwdG_off x hwf hs hnd

/-- **`.at(p)` of the early object = `.at(p)` of a fresh late object**: the same located
differential on the domain (outside K1), the same `DomainError` off it -/
theorem oh_early_at (hwf : WF e) (hK1r : RoutesK1Rev e) {D : DifferentialObj ℝ} {w : Bool}
    (hnew : DifferentialObj.new realNum e true = .ok (D, w)) (p : Point ℝ) (hs : Supp p e) :
    D.at realNum p = (DifferentialObj.mk e none).at realNum p := by
  by_cases hd : Dom (valOf p) e
  · rw [routes_differential_early_at hwf hs hd hK1r hnew, tp_differential_late_at p e hwf hs hd]
  · obtain ⟨d, hn, rfl⟩ := differentialNew_early realNum e hnew
    simp only [DifferentialObj.at, routes_evalG_off hwf hs hd, bind, Except.bind]

theorem oh_early_at_off (hwf : WF e) (D : DifferentialObj ℝ) (hD : D.orig = e) (p : Point ℝ)
    (hs : Supp p e) (hnd : ¬ Dom (valOf p) e) : D.at realNum p = .error .domain := by
  subst hD
  simp only [DifferentialObj.at, routes_evalG_off hwf hs hnd, bind, Except.bind]

/-- `.at(p).component(x)` on the domain: the true partial -/
theorem oh_late_atComponent_on (hwf : WF e) (x : String) (p : Point ℝ) (hs : Supp p e)
    (hd : Dom (valOf p) e) :
    (do let L ← (DifferentialObj.mk e none).at realNum p; pure (L.component realNum x)) =
      (.ok (truePartial p x e) : R ℝ) := by
  have h := routes_FATL_on x hwf hs hd
  unfold routeFATL DifferentialObj.new at h
  simpa [bind, Except.bind, pure, Except.pure] using h

/-- every query on the early `Differential` answers like the fresh late one — for the queries that
return numbers or located differentials -/
theorem oh_early_answer (hwf : WF e) (hK1r : RoutesK1Rev e) {D : DifferentialObj ℝ} {w : Bool}
    (hnew : DifferentialObj.new realNum e true = .ok (D, w)) :
    (∀ x p, Supp p e → D.answer realNum (.componentAt x p) =
        (DifferentialObj.mk e none).answer realNum (.componentAt x p)) ∧
    (∀ p, Supp p e → D.answer realNum (.at p) = (DifferentialObj.mk e none).answer realNum (.at p)) ∧
    (∀ x p, Supp p e → D.answer realNum (.atComponent x p) =
        (DifferentialObj.mk e none).answer realNum (.atComponent x p)) := by
  refine ⟨fun x p hs => ?_, fun p hs => ?_, fun x p hs => ?_⟩
  · simp only [DifferentialObj.answer, oh_early_componentAt hwf hK1r hnew x p hs]
  · simp only [DifferentialObj.answer, oh_early_at hwf hK1r hnew p hs]
  · simp only [DifferentialObj.answer, oh_early_at hwf hK1r hnew p hs]

/-- the `Partial` handed out by `component` of the early `Differential` keeps its state under every
history, and its `.at(p)` answers like a fresh late `Partial` (outside K1 of the reverse components
and, for a name that is not a variable of `e`, of the forward partial) -/
theorem oh_early_component_history (hwf : WF e) (hK1r : RoutesK1Rev e)
    (hK1f : NormOK K1FreeAt REDUCTION_STEPS_BOUND NORMALIZE_FUEL (symFwd realNum x e))
    {D : DifferentialObj ℝ} {w : Bool}
    (hnew : DifferentialObj.new realNum e true = .ok (D, w)) {P : PartialObj ℝ} {w' : Bool}
    (hc : D.component realNum x = .ok (P, w')) (ops : List (POp ℝ)) (p : Point ℝ)
    (hs : Supp p e) :
    ((P.run realNum ops).1.step realNum (.at p)).2 =
      PartialObj.freshAnswer realNum e x (.at p) := by
  obtain ⟨d, hn, rfl⟩ := differentialNew_early realNum e hnew
  rw [oh_component_stored] at hc
  injection hc with hc
  injection hc with hc _
  subst hc
  cases hg : SAcc.get? d x with
  | none =>
    exact oh_memoOf_num (oh_after_history hwf hK1f (oh_inv_fresh realNum e x) ops (.at p) hs)
  | some s =>
    rw [oh_run_stored, oh_step_stored_at, oh_fresh_at]
    exact congrArg POut.num (oh_at_stored (x := x) hwf (oh_good_component hwf hK1r hn hg) p hs)

end real

/-! ## replayed histories (non-vacuity, and the K1 counter-example) -/

section runs

theorem oh_step_at_none {α : Type} (N : Num α) (e : Expr α) (x : String) (p : Point α) :
    (PartialObj.mk e x none).step N (.at p) = (⟨e, x, none⟩, .num (fwdG N p x e)) := rfl

theorem oh_step_at_some {α : Type} (N : Num α) (e s : Expr α) (x : String) (p : Point α) :
    (PartialObj.mk e x (some s)).step N (.at p) =
      (⟨e, x, some s⟩, .num ((PartialObj.mk e x (some s)).at N p)) := rfl

theorem oh_step_asExpr_some {α : Type} (N : Num α) (e s : Expr α) (x : String) :
    (PartialObj.mk e x (some s)).step N .asExpr = (⟨e, x, some s⟩, .expr (.ok (s, false))) := rfl

theorem oh_step_asExpr_none_ok {α : Type} (N : Num α) {e s : Expr α} {x : String} {w : Bool}
    (hret : retrieveSyntheticPartial N e x = .ok (s, w)) :
    (PartialObj.mk e x none).step N .asExpr = (⟨e, x, some s⟩, .expr (.ok (s, w))) := by
  rw [oh_step_asExpr_none, hret]

/-- a history without `as_expression()` leaves a late object in its initial state -/
theorem oh_run_no_asExpr {α : Type} (N : Num α) (e : Expr α) (x : String) :
    ∀ ops : List (POp α), POp.asExpr ∉ ops → ((PartialObj.mk e x none).run N ops).1 = ⟨e, x, none⟩
  | [], _ => rfl
  | .at p :: ops, h => by
    rw [oh_run_cons]
    exact oh_run_no_asExpr N e x ops fun h' => h (List.mem_cons_of_mem _ h')
  | .asExpr :: ops, h => absurd List.mem_cons_self h

/-- the warning flag of `as_expression()`, exactly -/
theorem oh_warning_flag {α : Type} (N : Num α) {e s : Expr α} {x : String} {w : Bool}
    (hret : retrieveSyntheticPartial N e x = .ok (s, w)) :
    (∀ ops : List (POp α), POp.asExpr ∉ ops →
        (((PartialObj.mk e x none).run N ops).1.step N .asExpr).2 = .expr (.ok (s, w))) ∧
    (∀ ops : List (POp α), POp.asExpr ∈ ops →
        (((PartialObj.mk e x none).run N ops).1.step N .asExpr).2 = .expr (.ok (s, false))) ∧
    (∀ (P₀ : PartialObj α) (w₀ : Bool), PartialObj.new N e x true = .ok (P₀, w₀) →
        w₀ = w ∧ ∀ ops : List (POp α),
          ((P₀.run N ops).1.step N .asExpr).2 = .expr (.ok (s, false))) := by
  refine ⟨fun ops h => ?_, fun ops h => ?_, fun P₀ w₀ h₀ => ?_⟩
  · rw [oh_run_no_asExpr N e x ops h, oh_step_asExpr_none_ok N hret]
  · rw [oh_run_asExpr_mem N hret (oh_inv_fresh N e x) ops h]
    rfl
  · obtain ⟨s', hret', rfl⟩ := oh_new_early N e x h₀
    rw [hret] at hret'
    injection hret' with hret'
    injection hret' with h1 h2
    subst h1
    refine ⟨h2.symm, fun ops => ?_⟩
    rw [oh_run_stored]
    rfl

/-- the history `[at p, as_expression, at q, as_expression, at p]` on a fresh late object, computed:
final state and transcript, in terms of what is stored and of the `.at` answers of the two states -/
theorem oh_run_five {α : Type} (N : Num α) {e s : Expr α} {x : String} {w : Bool}
    (hret : retrieveSyntheticPartial N e x = .ok (s, w)) (p q : Point α) :
    (PartialObj.mk e x none).run N [.at p, .asExpr, .at q, .asExpr, .at p] =
      (⟨e, x, some s⟩, [.num (fwdG N p x e), .expr (.ok (s, w)),
        .num ((PartialObj.mk e x (some s)).at N q), .expr (.ok (s, false)),
        .num ((PartialObj.mk e x (some s)).at N p)]) := by
  simp only [oh_run_cons, oh_run_nil, oh_step_at_none, oh_step_asExpr_none_ok N hret,
    oh_step_at_some, oh_step_asExpr_some]

/-- `x * sin x` : the normalised symbolic partial -/
theorem oh_exXsin_retrieve :
    retrieveSyntheticPartial realNum (mkMul [mkVar "x", mkSin (mkVar "x")] : Expr ℝ) "x" =
      .ok (mkAdd [mkSin (mkVar "x"), mkMul [mkCos (mkVar "x"), mkVar "x"]], false) :=
  (asExpression_late runXsin_asExpression).1

theorem oh_exXsin_wf : WF (mkMul [mkVar "x", mkSin (mkVar "x")] : Expr ℝ) := by simp [WF, WFList]

theorem oh_exXsin_K1 : NormOK K1FreeAt REDUCTION_STEPS_BOUND NORMALIZE_FUEL
    (symFwd realNum "x" (mkMul [mkVar "x", mkSin (mkVar "x")] : Expr ℝ)) :=
  runXsin_symFwd ▸ runXsin_normOK _

theorem oh_exXsin_dom (ρ : String → ℝ) : Dom ρ (mkMul [mkVar "x", mkSin (mkVar "x")] : Expr ℝ) := by
  simp [Dom, DomList]

/-- **a replayed history on `Partial(x * sin x, "x")`**: `[at p, as_expression, at q, as_expression,
at p]` at any two supplied points; every number is the true partial, both expressions are
`Add(Sine(x), Multiply(Cosine(x), x))`, the final state stores it -/
theorem oh_exXsin_run (p q : Point ℝ) (hp : Supp p (mkMul [mkVar "x", mkSin (mkVar "x")] : Expr ℝ))
    (hq : Supp q (mkMul [mkVar "x", mkSin (mkVar "x")] : Expr ℝ)) :
    (PartialObj.mk (mkMul [mkVar "x", mkSin (mkVar "x")] : Expr ℝ) "x" none).run realNum
        [.at p, .asExpr, .at q, .asExpr, .at p] =
      (⟨mkMul [mkVar "x", mkSin (mkVar "x")], "x",
          some (mkAdd [mkSin (mkVar "x"), mkMul [mkCos (mkVar "x"), mkVar "x"]])⟩,
        [.num (.ok (truePartial p "x" (mkMul [mkVar "x", mkSin (mkVar "x")]))),
          .expr (.ok (mkAdd [mkSin (mkVar "x"), mkMul [mkCos (mkVar "x"), mkVar "x"]], false)),
          .num (.ok (truePartial q "x" (mkMul [mkVar "x", mkSin (mkVar "x")]))),
          .expr (.ok (mkAdd [mkSin (mkVar "x"), mkMul [mkCos (mkVar "x"), mkVar "x"]], false)),
          .num (.ok (truePartial p "x" (mkMul [mkVar "x", mkSin (mkVar "x")])))]) := by
  have hg := oh_good_retrieved oh_exXsin_wf oh_exXsin_K1 oh_exXsin_retrieve
  rw [oh_run_five realNum oh_exXsin_retrieve,
    oh_at_stored oh_exXsin_wf hg p hp, oh_at_stored oh_exXsin_wf hg q hq,
    oh_at_fresh_on oh_exXsin_wf p hp (oh_exXsin_dom _),
    oh_at_fresh_on oh_exXsin_wf q hq (oh_exXsin_dom _),
    tp_fwd_is_truePartial p "x" _ oh_exXsin_wf hp (oh_exXsin_dom _)]

/-- the true partial of `x * sin x` at a supplied point, as a number: `sin t + cos t * t` -/
theorem oh_exXsin_value (p : Point ℝ)
    (hp : Supp p (mkMul [mkVar "x", mkSin (mkVar "x")] : Expr ℝ)) :
    truePartial p "x" (mkMul [mkVar "x", mkSin (mkVar "x")]) =
      Real.sin (valOf p "x") + Real.cos (valOf p "x") * valOf p "x" := by
  have hg := oh_good_retrieved oh_exXsin_wf oh_exXsin_K1 oh_exXsin_retrieve p hp (oh_exXsin_dom _)
  rw [tp_fwd_is_truePartial p "x" _ oh_exXsin_wf hp (oh_exXsin_dom _)] at hg
  have hev : evalG realNum p (mkAdd [mkSin (mkVar "x"), mkMul [mkCos (mkVar "x"), mkVar "x"]]) =
      .ok (den (valOf p) (mkAdd [mkSin (mkVar "x"), mkMul [mkCos (mkVar "x"), mkVar "x"]])) :=
    (evalR_good p _ ((refines_symFwd_facts (retrieveSyntheticPartial_refines _ _ _ _ oh_exXsin_K1
      oh_exXsin_retrieve) oh_exXsin_wf).1)).ok_iff.mpr
      ⟨(refines_symFwd_facts (retrieveSyntheticPartial_refines _ _ _ _ oh_exXsin_K1
        oh_exXsin_retrieve) oh_exXsin_wf).2.2.1 p hp, by simp [Dom, DomList], rfl⟩
  rw [hev] at hg
  injection hg with hg
  rw [← hg]
  simp [den, denList]

/-- `Reciprocal(y)` : the normalised symbolic partial -/
theorem oh_exRc_retrieve :
    retrieveSyntheticPartial realNum runRcExpr "y" =
      .ok (mkNeg (mkRecip (mkNPow (mkVar "y") 2)), false) := by
  simp only [retrieveSyntheticPartial, runRc_symFwd, runRc_normalize, liftFuel]
  rfl

theorem oh_exRc_wf : WF runRcExpr := by simp [WF]

/-- **a replayed history with a point off the domain**: on `Partial(Reciprocal(y), "y")` the history
`[at (y=2), as_expression, at (y=0), as_expression, at (y=2)]`: the call at `y = 0` raises
`DomainError` although the stored expression is there (and a fresh object raises it, too) -/
theorem oh_exRc_run :
    (PartialObj.mk runRcExpr "y" none).run realNum
        [.at [("y", 2)], .asExpr, .at [("y", 0)], .asExpr, .at [("y", 2)]] =
      (⟨runRcExpr, "y", some (mkNeg (mkRecip (mkNPow (mkVar "y") 2)))⟩,
        [.num (.ok (truePartial [("y", 2)] "y" runRcExpr)),
          .expr (.ok (mkNeg (mkRecip (mkNPow (mkVar "y") 2)), false)),
          .num (.error .domain),
          .expr (.ok (mkNeg (mkRecip (mkNPow (mkVar "y") 2)), false)),
          .num (.ok (truePartial [("y", 2)] "y" runRcExpr))]) ∧
      PartialObj.freshAnswer realNum runRcExpr "y" (.at [("y", 0)]) = .num (.error .domain) := by
  have hg := oh_good_retrieved oh_exRc_wf runRc_K1Fwd oh_exRc_retrieve
  have hs2 : Supp [("y", (2 : ℝ))] runRcExpr := by simp [Supp, Point.get?]
  have hd2 : Dom (valOf [("y", (2 : ℝ))]) runRcExpr := by simp [Dom, den, valOf, Point.get?]
  have hs0 : Supp [("y", (0 : ℝ))] runRcExpr := by simp [Supp, Point.get?]
  have hd0 : ¬ Dom (valOf [("y", (0 : ℝ))]) runRcExpr := by simp [Dom, den, valOf, Point.get?]
  refine ⟨?_, ?_⟩
  · rw [oh_run_five realNum oh_exRc_retrieve, oh_at_stored oh_exRc_wf hg _ hs2,
      oh_at_stored_off oh_exRc_wf _ _ hs0 hd0, oh_at_fresh_on oh_exRc_wf _ hs2 hd2,
      tp_fwd_is_truePartial _ "y" _ oh_exRc_wf hs2 hd2]
  · rw [oh_fresh_at, routes_fwdG_off "y" oh_exRc_wf hs0 hd0]

/-- **K1: the hypothesis is needed.**  On `Partial(x * NthRoot(NthPower(x, 2), 2), "x")` the history
`[at (x=-3), as_expression, at (x=-3)]` answers `6`, then `x + (x * x) / x`, then `-6`: the answer of
`.at` at one and the same point of the domain changes once `as_expression()` has been called. -/
theorem oh_K1_run :
    ((PartialObj.mk (mkMul [mkVar "x", mkNRoot (mkNPow (mkVar "x") 2) 2] : Expr ℝ) "x" none).run
        realNum [.at [("x", -3)], .asExpr, .at [("x", -3)]]).2 =
      [.num (.ok 6),
        .expr (.ok (mkAdd [mkVar "x", mkDiv (mkMul [mkVar "x", mkVar "x"]) (mkVar "x")], false)),
        .num (.ok (-6))] := by
  obtain ⟨hwf, hs, hd, hfd⟩ := runXabs_true_partial
  have hret := (asExpression_late runXabs_asExpression).1
  simp only [oh_run_cons, oh_run_nil, oh_step_at_none, oh_step_asExpr_none_ok realNum hret,
    oh_step_at_some, hfd]
  simp only [PartialObj.at, routes_evalG_ok hwf hs hd, runXabs_returned_value, bind, Except.bind]

/-- the same in the shape of the history theorems: after the history `[as_expression]` the answer to
`at (x=-3)` is NOT the fresh object's, and the K1 side condition fails for this input -/
theorem oh_K1_history_dependent :
    let e : Expr ℝ := mkMul [mkVar "x", mkNRoot (mkNPow (mkVar "x") 2) 2]
    let p : Point ℝ := [("x", -3)]
    WF e ∧ Supp p e ∧ Dom (valOf p) e ∧
      PartialObj.freshAnswer realNum e "x" (.at p) = .num (.ok 6) ∧
      (((PartialObj.mk e "x" none).run realNum [.asExpr]).1.step realNum (.at p)).2 =
        .num (.ok (-6)) ∧
      ¬ NormOK K1FreeAt REDUCTION_STEPS_BOUND NORMALIZE_FUEL (symFwd realNum "x" e) := by
  intro e p
  obtain ⟨hwf, hs, hd, hfd⟩ : WF e ∧ Supp p e ∧ Dom (valOf p) e ∧ fwdG realNum p "x" e = .ok 6 :=
    runXabs_true_partial
  have hrv : evalG realNum p (mkAdd [mkVar "x", mkDiv (mkMul [mkVar "x", mkVar "x"]) (mkVar "x")]) =
      .ok (-6) := runXabs_returned_value
  have hret : retrieveSyntheticPartial realNum e "x" =
      .ok (mkAdd [mkVar "x", mkDiv (mkMul [mkVar "x", mkVar "x"]) (mkVar "x")], false) :=
    (asExpression_late runXabs_asExpression).1
  have h5 : (((PartialObj.mk e "x" none).run realNum [.asExpr]).1.step realNum (.at p)).2 =
      .num (.ok (-6)) := by
    simp only [oh_run_cons, oh_run_nil, oh_step_asExpr_none_ok realNum hret, oh_step_at_some]
    simp only [PartialObj.at, routes_evalG_ok hwf hs hd, hrv, bind, Except.bind]
  have h4 : PartialObj.freshAnswer realNum e "x" (.at p) = .num (.ok 6) := by
    rw [oh_fresh_at, hfd]
  refine ⟨hwf, hs, hd, h4, h5, fun hK1 => ?_⟩
  have := oh_memoOf_num
    (oh_after_history hwf hK1 (oh_inv_fresh realNum e "x") [.asExpr] (.at p) hs)
  have h4' : (PartialObj.mk e "x" none).at realNum p = .ok 6 := hfd
  rw [h5, h4'] at this
  injection this with this
  injection this with this
  norm_num at this

end runs

end Smooth
