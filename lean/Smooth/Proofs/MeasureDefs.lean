/-
Proofs/MeasureDefs — a well-founded measure that every call of `stepF` on an unflagged expression
strictly decreases (property C11).

  mu e = (A, B, w, P, U)   ordered lexicographically, with
   A = number of Power / Minus / Divide nodes,
   B = number of NthPower / NthRoot / Exponential / Logarithm nodes,
   w = a weight (leaves 2, every constant the same) that is strictly monotone in every operand,
   P = the sum of the parameters `n` of all NthPower / NthRoot nodes,
   U = the number of nodes whose `red` flag is not set.

The file is generic over the number record `N : Num α`: the measure never looks at a number.
-/
import Mathlib.Tactic.Linarith
import Mathlib.Tactic.Ring
import Mathlib.Data.Prod.Lex
import Mathlib.Logic.Function.Iterate
import Smooth.Model.Driver

namespace Smooth
open Expr
variable {α : Type}

/-! ## The measure -/

/-- contribution of a node to `A` -/
def rootA : Expr α → Nat
  | .pow _ _ _ | .minus _ _ _ | .div _ _ _ => 1
  | _ => 0

/-- contribution of a node to `B` -/
def rootB : Expr α → Nat
  | .npow _ _ _ | .nroot _ _ _ | .exp _ _ _ | .log _ _ _ => 1
  | _ => 0

/-- contribution of a node to `P` -/
def rootP : Expr α → Nat
  | .npow _ _ n | .nroot _ _ n => n
  | _ => 0

/-- contribution of a node to `U` -/
def rootU (e : Expr α) : Nat := if e.flags.red then 0 else 1

mutual
/-- sum over all nodes of a per-node cost -/
def total (c : Expr α → Nat) : Expr α → Nat
  | .const f v => c (.const f v)
  | .var f x => c (.var f x)
  | .add f as => c (.add f as) + totalList c as
  | .mul f as => c (.mul f as) + totalList c as
  | .minus f l r => c (.minus f l r) + total c l + total c r
  | .div f l r => c (.div f l r) + total c l + total c r
  | .pow f l r => c (.pow f l r) + total c l + total c r
  | .neg f u => c (.neg f u) + total c u
  | .recip f u => c (.recip f u) + total c u
  | .npow f u n => c (.npow f u n) + total c u
  | .nroot f u n => c (.nroot f u n) + total c u
  | .exp f u b => c (.exp f u b) + total c u
  | .log f u b => c (.log f u b) + total c u
  | .cos f u => c (.cos f u) + total c u
  | .sin f u => c (.sin f u) + total c u
def totalList (c : Expr α → Nat) : List (Expr α) → Nat
  | [] => 0
  | e :: es => total c e + totalList c es
end

mutual
/-- the weight: leaves 2; strictly monotone in every operand; independent of every number -/
def wt : Expr α → Nat
  | .const _ _ | .var _ _ => 2
  | .add _ as | .mul _ as => wtList as + 3
  | .neg _ u => 3 * wt u
  | .recip _ u => wt u * wt u + 2 * wt u
  | .npow _ u _ => wt u * wt u + wt u
  | .nroot _ u _ | .sin _ u => wt u * wt u
  | .cos _ u => wt u + 1
  | .log _ u _ => wt u
  | .exp _ u _ => 2 ^ wt u
  | .pow _ l r => 2 ^ (wt l * wt r)
  | .minus _ l r | .div _ l r => wt l + wt r + 1
def wtList : List (Expr α) → Nat
  | [] => 0
  | e :: es => wt e + wtList es
end

abbrev cA (e : Expr α) : Nat := total rootA e
abbrev cB (e : Expr α) : Nat := total rootB e
abbrev cP (e : Expr α) : Nat := total rootP e
abbrev cU (e : Expr α) : Nat := total rootU e

/-- the measure, in the lexicographic order of `ℕ ×ₗ ℕ ×ₗ ℕ ×ₗ ℕ ×ₗ ℕ` -/
def mu (e : Expr α) : ℕ ×ₗ ℕ ×ₗ ℕ ×ₗ ℕ ×ₗ ℕ :=
  toLex (cA e, toLex (cB e, toLex (wt e, toLex (cP e, cU e))))

/-- lexicographic comparison of two 5-tuples, spelled out -/
def LexLt (a b c d e a' b' c' d' e' : Nat) : Prop :=
  a < a' ∨ (a = a' ∧ (b < b' ∨ (b = b' ∧ (c < c' ∨ (c = c' ∧ (d < d' ∨ (d = d' ∧ e < e')))))))

/-- `mu e' < mu e`, spelled out -/
def MuLt (e' e : Expr α) : Prop :=
  LexLt (cA e') (cB e') (wt e') (cP e') (cU e') (cA e) (cB e) (wt e) (cP e) (cU e)

/-- the same for child lists -/
def MuLtList (as' as : List (Expr α)) : Prop :=
  LexLt (totalList rootA as') (totalList rootB as') (wtList as') (totalList rootP as')
    (totalList rootU as') (totalList rootA as) (totalList rootB as) (wtList as)
    (totalList rootP as) (totalList rootU as)

theorem mu_lt_iff (e' e : Expr α) : mu e' < mu e ↔ MuLt e' e := by
  simp only [mu, MuLt, LexLt, Prod.Lex.toLex_lt_toLex]

/-! ### ways to establish `LexLt` -/

section LexLt
variable {a b c d e a' b' c' d' e' : Nat}

theorem LexLt.ofA (h : a < a') : LexLt a b c d e a' b' c' d' e' := Or.inl h

theorem LexLt.ofB (hA : a ≤ a') (h : b < b') : LexLt a b c d e a' b' c' d' e' := by
  unfold LexLt; omega

theorem LexLt.ofW (hA : a ≤ a') (hB : b ≤ b') (h : c < c') : LexLt a b c d e a' b' c' d' e' := by
  unfold LexLt; omega

theorem LexLt.ofP (hA : a ≤ a') (hB : b ≤ b') (hW : c ≤ c') (h : d < d') :
    LexLt a b c d e a' b' c' d' e' := by
  unfold LexLt; omega

theorem LexLt.ofU (hA : a ≤ a') (hB : b ≤ b') (hW : c ≤ c') (hP : d ≤ d') (h : e < e') :
    LexLt a b c d e a' b' c' d' e' := by
  unfold LexLt; omega

/-- congruence: the additive components are shifted by a constant, the weight goes through a
strictly monotone function -/
theorem LexLt.congr {x y z u v x' y' z' u' v' : Nat} (h : LexLt a b c d e a' b' c' d' e')
    (hA : x + a' = x' + a) (hB : y + b' = y' + b)
    (hW : c < c' → z < z') (hW' : c = c' → z = z')
    (hP : u + d' = u' + d) (hU : v + e' = v' + e) :
    LexLt x y z u v x' y' z' u' v' := by
  unfold LexLt at h ⊢
  rcases h with h | ⟨h1, h | ⟨h2, h | ⟨h3, h | ⟨h4, h⟩⟩⟩⟩
  · left; omega
  · right; exact ⟨by omega, Or.inl (by omega)⟩
  · right; exact ⟨by omega, Or.inr ⟨by omega, Or.inl (hW h)⟩⟩
  · right; exact ⟨by omega, Or.inr ⟨by omega, Or.inr ⟨hW' h3, Or.inl (by omega)⟩⟩⟩
  · right; exact ⟨by omega, Or.inr ⟨by omega, Or.inr ⟨hW' h3, Or.inr ⟨by omega, by omega⟩⟩⟩⟩

end LexLt

/-! ### basic facts about the components -/

theorem totalList_eq_sum (c : Expr α → Nat) :
    ∀ as : List (Expr α), totalList c as = (as.map (total c)).sum
  | [] => by simp [totalList]
  | e :: es => by simp [totalList, totalList_eq_sum c es]

theorem wtList_eq_sum : ∀ as : List (Expr α), wtList as = (as.map wt).sum
  | [] => by simp [wtList]
  | e :: es => by simp [wtList, wtList_eq_sum es]

mutual
theorem two_le_wt : ∀ e : Expr α, 2 ≤ wt e
  | .const _ _ => by simp [wt]
  | .var _ _ => by simp [wt]
  | .add _ as => by simp [wt]
  | .mul _ as => by simp [wt]
  | .neg _ u => by have := two_le_wt u; simp only [wt]; omega
  | .recip _ u => by have := two_le_wt u; simp only [wt]; nlinarith
  | .npow _ u _ => by have := two_le_wt u; simp only [wt]; nlinarith
  | .nroot _ u _ => by have := two_le_wt u; simp only [wt]; nlinarith
  | .sin _ u => by have := two_le_wt u; simp only [wt]; nlinarith
  | .cos _ u => by have := two_le_wt u; simp only [wt]; omega
  | .log _ u _ => by have := two_le_wt u; simp only [wt]; omega
  | .exp _ u _ => by
    have := two_le_wt u; simp only [wt]
    calc 2 = 2 ^ 1 := rfl
      _ ≤ 2 ^ wt u := Nat.pow_le_pow_right (by omega) (by omega)
  | .pow _ l r => by
    have := two_le_wt l; have := two_le_wt r; simp only [wt]
    have : 1 ≤ wt l * wt r := Nat.mul_pos (by omega) (by omega)
    calc 2 = 2 ^ 1 := rfl
      _ ≤ 2 ^ (wt l * wt r) := Nat.pow_le_pow_right (by omega) this
  | .minus _ l r => by have := two_le_wt l; simp only [wt]; omega
  | .div _ l r => by have := two_le_wt l; simp only [wt]; omega
end


/-! ### list lemmas -/

theorem sum_map_const_add {β : Type} (a : Nat) (f : β → Nat) :
    ∀ l : List β, (l.map fun p => a + f p).sum = a * l.length + (l.map f).sum
  | [] => by simp
  | x :: xs => by
    simp only [List.map_cons, List.sum_cons, List.length_cons, sum_map_const_add a f xs]
    rw [Nat.mul_succ]; omega

theorem sum_map_one {β : Type} : ∀ l : List β, (l.map fun _ => 1).sum = l.length
  | [] => rfl
  | x :: xs => by simp only [List.map_cons, List.sum_cons, List.length_cons, sum_map_one xs]; omega

/-- splitting a list by a recogniser -/
theorem sum_filter_filterMap {κ : Type} (sel : Expr α → Option κ) (f : Expr α → Nat) (g : κ → Nat)
    (hg : ∀ e k, sel e = some k → f e = g k) :
    ∀ as : List (Expr α), (as.map f).sum =
      ((as.filter fun e => (sel e).isNone).map f).sum + ((as.filterMap sel).map g).sum
  | [] => by simp
  | e :: es => by
    have ih := sum_filter_filterMap sel f g hg es
    cases h : sel e with
    | none => simp [h, ih]; omega
    | some k => simp [h, ih, hg e k h]; omega

theorem spliceFirst_sum (sel : Expr α → Option (List (Expr α))) (f : Expr α → Nat) (k : Nat)
    (hsel : ∀ e inner, sel e = some inner → f e = (inner.map f).sum + k) :
    ∀ as as', spliceFirst sel as = some as' → (as.map f).sum = (as'.map f).sum + k
  | [], as', h => by simp [spliceFirst] at h
  | e :: es, as', h => by
    unfold spliceFirst at h
    cases hs : sel e with
    | some inner =>
      simp only [hs, Option.some.injEq] at h
      subst h
      simp [hsel e inner hs]; omega
    | none =>
      simp only [hs, Option.map_eq_some_iff] at h
      obtain ⟨es', h1, rfl⟩ := h
      have := spliceFirst_sum sel f k hsel es es' h1
      simp [this]; omega

/-! ### `groupByKey` keeps every item, in non-empty groups -/

section Group
variable {κ β : Type}

def gsum (h : β → Nat) (g : List (κ × List β)) : Nat := (g.map fun p => (p.2.map h).sum).sum

theorem gsum_groupInsert (eq : κ → κ → Bool) (h : β → Nat) (k : κ) (v : β) :
    ∀ g : List (κ × List β), gsum h (groupInsert eq k v g) = gsum h g + h v
  | [] => by simp [groupInsert, gsum]
  | (k', vs) :: rest => by
    have ih := gsum_groupInsert eq h k v rest
    unfold groupInsert
    by_cases hk : eq k' k
    · simp [hk, gsum]; omega
    · simp only [gsum] at ih
      simp [hk, gsum, ih]; omega

theorem nonempty_groupInsert (eq : κ → κ → Bool) (k : κ) (v : β) :
    ∀ g : List (κ × List β), (∀ p ∈ g, 1 ≤ p.2.length) →
      ∀ p ∈ groupInsert eq k v g, 1 ≤ p.2.length
  | [], _ => by simp [groupInsert]
  | (k', vs) :: rest, hg => by
    have ih := nonempty_groupInsert eq k v rest (fun p hp => hg p (List.mem_cons_of_mem _ hp))
    unfold groupInsert
    by_cases hk : eq k' k
    · simp only [hk, if_true]
      intro p hp
      rcases List.mem_cons.mp hp with rfl | hp
      · simp
      · exact hg p (List.mem_cons_of_mem _ hp)
    · simp only [hk]
      intro p hp
      rcases List.mem_cons.mp hp with rfl | hp
      · exact hg _ List.mem_cons_self
      · exact ih p hp

theorem gsum_foldl (eq : κ → κ → Bool) (h : β → Nat) :
    ∀ (items : List (κ × β)) (acc : List (κ × List β)),
      gsum h (items.foldl (fun g kv => groupInsert eq kv.1 kv.2 g) acc) =
        gsum h acc + (items.map fun kv => h kv.2).sum
  | [], acc => by simp
  | kv :: items, acc => by
    simp only [List.foldl_cons, gsum_foldl eq h items, gsum_groupInsert, List.map_cons,
      List.sum_cons]
    omega

theorem nonempty_foldl (eq : κ → κ → Bool) :
    ∀ (items : List (κ × β)) (acc : List (κ × List β)), (∀ p ∈ acc, 1 ≤ p.2.length) →
      ∀ p ∈ items.foldl (fun g kv => groupInsert eq kv.1 kv.2 g) acc, 1 ≤ p.2.length
  | [], acc, h => by simpa using h
  | kv :: items, acc, h => by
    simp only [List.foldl_cons]
    exact nonempty_foldl eq items _ (nonempty_groupInsert eq kv.1 kv.2 acc h)

theorem gsum_groupByKey (eq : κ → κ → Bool) (h : β → Nat) (items : List (κ × β)) :
    gsum h (groupByKey eq items) = (items.map fun kv => h kv.2).sum := by
  simp [groupByKey, gsum_foldl]; simp [gsum]

theorem nonempty_groupByKey (eq : κ → κ → Bool) (items : List (κ × β)) :
    ∀ p ∈ groupByKey eq items, 1 ≤ p.2.length :=
  nonempty_foldl eq items [] (by simp)

/-- a list of non-empty groups, one of which has two members, has fewer groups than members -/
theorem length_lt_of_group : ∀ g : List (κ × List β), (∀ p ∈ g, 1 ≤ p.2.length) →
    (g.all fun p => p.2.length ≤ 1) = false → g.length < gsum (fun _ => 1) g
  | [], _, h => by simp at h
  | p :: rest, hne, h => by
    have h1 := hne p List.mem_cons_self
    have hrest : rest.length ≤ gsum (fun _ : β => 1) rest := by
      clear h
      induction rest with
      | nil => simp [gsum]
      | cons q rest ih =>
        have := hne q (List.mem_cons_of_mem _ List.mem_cons_self)
        have := ih (fun r hr => hne r (by
          rcases List.mem_cons.mp hr with rfl | hr
          · exact List.mem_cons_self
          · exact List.mem_cons_of_mem _ (List.mem_cons_of_mem _ hr)))
        simp [gsum, sum_map_one] at this ⊢; omega
    by_cases hp : p.2.length ≤ 1
    · have := length_lt_of_group rest (fun r hr => hne r (List.mem_cons_of_mem _ hr))
        (by simpa [hp] using h)
      simp [gsum, sum_map_one] at this ⊢; omega
    · simp [gsum, sum_map_one] at hrest ⊢; omega

end Group

/-- what the four consolidation rules do to an additive quantity `m` for which a member costs
`a + m inner` and a rebuilt group `a + Σ m inner`: the total changes by `a · (#groups − #members)`,
and there are fewer groups than members. -/
theorem consolidate_sum {κ : Type} (sel : Expr α → Option (κ × Expr α)) (eq : κ → κ → Bool)
    (build : κ → List (Expr α) → Expr α) (m : Expr α → Nat) (a : Nat)
    (hsel : ∀ e k u, sel e = some (k, u) → m e = a + m u)
    (hbuild : ∀ k vs, m (build k vs) = a + (vs.map m).sum)
    (as as' : List (Expr α)) (h : consolidate sel eq build as = some as') :
    ∃ nm ng, ng < nm ∧ (as'.map m).sum + a * nm = (as.map m).sum + a * ng := by
  unfold consolidate at h
  simp only at h
  split at h
  · cases h
  split at h
  · cases h
  rename_i h1 h2
  obtain rfl := Option.some.inj h
  refine ⟨(as.filterMap sel).length, (groupByKey eq (as.filterMap sel)).length, ?_, ?_⟩
  · have := length_lt_of_group _ (nonempty_groupByKey eq (as.filterMap sel)) (by simpa using h2)
    rw [gsum_groupByKey, sum_map_one] at this
    exact this
  · rw [sum_filter_filterMap sel m (fun p => a + m p.2) (fun e p hp => hsel e p.1 p.2 hp) as,
      sum_map_const_add]
    have hg := gsum_groupByKey eq m (as.filterMap sel)
    simp only [List.map_append, List.sum_append, List.map_map]
    have : ((groupByKey eq (as.filterMap sel)).map (m ∘ fun g => build g.1 g.2)).sum =
        a * (groupByKey eq (as.filterMap sel)).length + gsum m (groupByKey eq (as.filterMap sel)) := by
      rw [gsum, ← sum_map_const_add]
      congr 1
      apply List.map_congr_left
      intro g _
      simp [hbuild]
    rw [this, hg]
    omega

end Smooth
