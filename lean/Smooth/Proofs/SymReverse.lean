/-
Proofs/SymReverse — reverse symbolic mode (`symRev`, the model of `_compute_synthetic_partials` with
its `SyntheticPartialsAccumulator`; `syntheticPartials`, the model of `_synthetic_partials`) over the
reals: one traversal with the symbolic multiplier `m` adds, to the accumulated expression of *every*
variable at once, an expression whose value is `den m ·` (the forward-mode partial), and everything
it stores is well formed, supplied by the point and inside its documented domain.  Same architecture
as Proofs/Reverse (the numeric analogue).
-/
import Smooth.Proofs.Reverse
import Smooth.Proofs.WFSym
import Smooth.Proofs.Order
import Smooth.Proofs.RulesNary
import Smooth.Proofs.RulesUnary
import Smooth.Proofs.DriverSound
import Smooth.Model.Objects

namespace Smooth
open Classical Expr

/-! ### the symbolic accumulator: lookups -/

theorem SAcc.get?_set {α : Type} (acc : SAcc α) (x z : String) (v : Expr α) :
    SAcc.get? (SAcc.set acc x v) z = if z = x then some v else SAcc.get? acc z := by
  induction acc with
  | nil =>
    simp only [SAcc.set, SAcc.get?]
    by_cases h : z = x
    · subst h; simp
    · have : (x == z) = false := by simpa using fun h' => h h'.symm
      simp [h, this]
  | cons hd tl ih =>
    obtain ⟨y, w⟩ := hd
    simp only [SAcc.set]
    by_cases hyx : y = x
    · subst hyx
      simp only [beq_self_eq_true, if_true, SAcc.get?]
      by_cases h : z = y
      · subst h; simp
      · have : (y == z) = false := by simpa using fun h' => h h'.symm
        simp [h, this]
    · have hyx' : (y == x) = false := by simpa using hyx
      simp only [hyx', Bool.false_eq_true, if_false, SAcc.get?]
      by_cases hyz : y = z
      · subst hyz
        have : ¬ y = x := hyx
        simp [this]
      · have : (y == z) = false := by simpa using hyz
        simp only [this, Bool.false_eq_true, if_false]
        exact ih

/-- what `add_to` leaves under every name: the contribution itself on first use, afterwards the binary
`Add(existing, contribution)`; every other entry untouched -/
def SAcc.merged {α : Type} (old : Option (Expr α)) (c : Expr α) : Expr α :=
  match old with
  | none => c
  | some ex => mkAdd [ex, c]

theorem SAcc.get?_addTo {α : Type} (acc : SAcc α) (x z : String) (c : Expr α) :
    SAcc.get? (SAcc.addTo acc x c) z =
      if z = x then some (SAcc.merged (SAcc.get? acc x) c) else SAcc.get? acc z := by
  unfold SAcc.addTo SAcc.merged
  cases h : SAcc.get? acc x with
  | none => simp only [SAcc.get?_set]
  | some ex => simp only [SAcc.get?_set]

/-! ### accumulator semantics -/

/-- the value of the accumulated expression of `y`; absent = 0 -/
noncomputable def denA (ρ : String → ℝ) (acc : SAcc ℝ) (y : String) : ℝ :=
  match SAcc.get? acc y with
  | some s => den ρ s
  | none => 0

/-- every accumulated expression is in its documented domain -/
def DomA (ρ : String → ℝ) (acc : SAcc ℝ) : Prop := ∀ y s, SAcc.get? acc y = some s → Dom ρ s

/-- the point supplies every accumulated expression -/
def SuppA (p : Point ℝ) (acc : SAcc ℝ) : Prop := ∀ y s, SAcc.get? acc y = some s → Supp p s

/-- every accumulated expression is well formed -/
def WFA (acc : SAcc ℝ) : Prop := ∀ y s, SAcc.get? acc y = some s → WF s

/-- well formed, supplied by the point, defined at the point: what is required of the multiplier and
established of everything stored -/
def RevOKE (p : Point ℝ) (s : Expr ℝ) : Prop := WF s ∧ Supp p s ∧ Dom (valOf p) s

/-- `RevOKE` of every accumulated expression -/
def RevOKA (p : Point ℝ) (acc : SAcc ℝ) : Prop := ∀ y s, SAcc.get? acc y = some s → RevOKE p s

theorem RevOKA_iff (p : Point ℝ) (acc : SAcc ℝ) :
    RevOKA p acc ↔ WFA acc ∧ SuppA p acc ∧ DomA (valOf p) acc :=
  ⟨fun h => ⟨fun y s hs => (h y s hs).1, fun y s hs => (h y s hs).2.1, fun y s hs => (h y s hs).2.2⟩,
    fun h y s hs => ⟨h.1 y s hs, h.2.1 y s hs, h.2.2 y s hs⟩⟩

theorem RevOKA_nil (p : Point ℝ) : RevOKA p [] := fun _ _ h => by simp [SAcc.get?] at h

theorem denA_nil (ρ : String → ℝ) (y : String) : denA ρ [] y = 0 := by simp [denA, SAcc.get?]

theorem RevOKE_const (p : Point ℝ) (f : Flags) (v : ℝ) : RevOKE p (.const f v) :=
  ⟨trivial, trivial, trivial⟩

theorem RevOKA_addTo {p : Point ℝ} {acc : SAcc ℝ} (h : RevOKA p acc) (x : String) {c : Expr ℝ}
    (hc : RevOKE p c) : RevOKA p (SAcc.addTo acc x c) := by
  intro z s hz
  rw [SAcc.get?_addTo] at hz
  by_cases hzx : z = x
  · simp only [hzx, if_true, Option.some.injEq] at hz
    subst hz
    cases hex : SAcc.get? acc x with
    | none => exact hc
    | some ex =>
      obtain ⟨h1, h2, h3⟩ := h x ex hex
      exact ⟨⟨h1, hc.1, trivial⟩, ⟨h2, hc.2.1, trivial⟩, ⟨h3, hc.2.2, trivial⟩⟩
  · simp only [hzx, if_false] at hz
    exact h z s hz

theorem denA_addTo (ρ : String → ℝ) (acc : SAcc ℝ) (x z : String) (c : Expr ℝ) :
    denA ρ (SAcc.addTo acc x c) z = denA ρ acc z + (if z = x then den ρ c else 0) := by
  unfold denA
  rw [SAcc.get?_addTo]
  by_cases hzx : z = x
  · subst hzx
    cases hex : SAcc.get? acc z with
    | none => simp [SAcc.merged]
    | some ex => simp [SAcc.merged, den, denList]
  · simp [hzx]

/-! ### the local multiplier formulas: domain and value

For each class the symbolic multiplier `unarySymFormula realNum e m` is defined wherever the node and
`m` are, and its value is the numeric chain-rule factor (the `c` of the `*_formula` lemmas of
Proofs/Forward) times the value of `m`.  Stated for every valuation `ρ`. -/

section formulas
variable {ρ : String → ℝ} {u l r m : Expr ℝ} {g : Flags}

theorem symrevF_neg (hm : Dom ρ m) :
    Dom ρ (unarySymFormula realNum (.neg g u) m) ∧
      den ρ (unarySymFormula realNum (.neg g u) m) = (-1) * den ρ m := by
  simp only [unarySymFormula, Dom, den]
  exact ⟨hm, by ring⟩

theorem symrevF_recip (hm : Dom ρ m) (hu : Dom ρ u) (ha : den ρ u ≠ 0) :
    Dom ρ (unarySymFormula realNum (.recip g u) m) ∧
      den ρ (unarySymFormula realNum (.recip g u) m) = (-(den ρ u ^ 2)⁻¹) * den ρ m := by
  simp only [unarySymFormula, Dom, den]
  exact ⟨⟨hm, hu, pow_ne_zero 2 ha⟩, by rw [div_eq_mul_inv]; ring⟩

theorem symrevF_npow (hm : Dom ρ m) (hu : Dom ρ u) (n : ℕ) :
    Dom ρ (unarySymFormula realNum (.npow g u n) m) ∧
      den ρ (unarySymFormula realNum (.npow g u n) m) = (n * den ρ u ^ (n - 1)) * den ρ m := by
  simp only [unarySymFormula]
  split
  · next h => subst h; simp [hm]
  · simp only [Dom, DomList, den, denList, realNum_ofNat, List.prod_cons, List.prod_nil]
    exact ⟨⟨trivial, hu, hm, trivial⟩, by ring⟩

theorem symrevF_nroot {n : ℕ} (hn : 1 ≤ n) (hm : Dom ρ m) (hd : Dom ρ (.nroot g u n)) :
    Dom ρ (unarySymFormula realNum (.nroot g u n) m) ∧
      den ρ (unarySymFormula realNum (.nroot g u n) m) =
        (if n = 1 then 1 else (n * sroot n (den ρ u) ^ (n - 1))⁻¹) * den ρ m := by
  simp only [unarySymFormula]
  split
  · next h => simp [hm]
  · next h =>
    have hd' := hd
    simp only [Dom] at hd'
    obtain ⟨_, hz, _⟩ := hd'
    simp only [Dom, DomList, den, denList, realNum_ofNat, List.prod_cons, List.prod_nil, mul_one]
    refine ⟨⟨hm, ⟨trivial, hd, trivial⟩, ?_⟩, by rw [div_eq_mul_inv, mul_comm]⟩
    have hn0 : (n : ℝ) ≠ 0 := by exact_mod_cast (by omega : n ≠ 0)
    exact mul_ne_zero hn0 (pow_ne_zero _ (sroot_ne_zero _ (hz (by omega))))

theorem symrevF_exp {b : ℝ} (hb : 0 < b) (hm : Dom ρ m) (hu : Dom ρ u) :
    Dom ρ (unarySymFormula realNum (.exp g u b) m) ∧
      den ρ (unarySymFormula realNum (.exp g u b) m) =
        (Real.log b * Real.exp (den ρ u * Real.log b)) * den ρ m := by
  simp only [unarySymFormula, realNum_eq, realNum_one, realNum_e, decide_eq_true_eq]
  split
  · next h => subst h; simp [Dom, den]
  · split
    · next h =>
      subst h
      simp only [Dom, DomList, den, denList, List.prod_cons, List.prod_nil, Real.log_exp, mul_one,
        one_mul]
      exact ⟨⟨hu, hm, trivial⟩, trivial⟩
    · simp only [Dom, DomList, den, denList, List.prod_cons, List.prod_nil, Real.log_exp, mul_one,
        div_one]
      exact ⟨⟨⟨trivial, hb⟩, hu, hm, trivial⟩, by ring⟩

theorem symrevF_log {b : ℝ} (hb : 0 < b) (hb1 : b ≠ 1) (hm : Dom ρ m) (hu : Dom ρ u)
    (ha : 0 < den ρ u) :
    Dom ρ (unarySymFormula realNum (.log g u b) m) ∧
      den ρ (unarySymFormula realNum (.log g u b) m) = (den ρ u * Real.log b)⁻¹ * den ρ m := by
  have hane : den ρ u ≠ 0 := ne_of_gt ha
  have hlb : Real.log b ≠ 0 := by
    intro h
    rcases Real.log_eq_zero.mp h with h | h | h
    · linarith
    · exact hb1 h
    · linarith
  simp only [unarySymFormula, realNum_eq, realNum_e, decide_eq_true_eq]
  split
  · next h =>
    subst h
    simp only [Dom, den, Real.log_exp, mul_one]
    exact ⟨⟨hm, hu, hane⟩, by rw [div_eq_mul_inv, mul_comm]⟩
  · simp only [Dom, DomList, den, denList, List.prod_cons, List.prod_nil, Real.log_exp, mul_one,
      div_one]
    exact ⟨⟨hm, ⟨⟨trivial, hb⟩, hu, trivial⟩, mul_ne_zero hlb hane⟩,
      by rw [div_eq_mul_inv, mul_comm, mul_comm (Real.log b)]⟩

theorem symrevF_cos (hm : Dom ρ m) (hu : Dom ρ u) :
    Dom ρ (unarySymFormula realNum (.cos g u) m) ∧
      den ρ (unarySymFormula realNum (.cos g u) m) = (-Real.sin (den ρ u)) * den ρ m := by
  simp only [unarySymFormula, Dom, DomList, den, denList, List.prod_cons, List.prod_nil, mul_one]
  exact ⟨⟨hu, hm, trivial⟩, trivial⟩

theorem symrevF_sin (hm : Dom ρ m) (hu : Dom ρ u) :
    Dom ρ (unarySymFormula realNum (.sin g u) m) ∧
      den ρ (unarySymFormula realNum (.sin g u) m) = Real.cos (den ρ u) * den ρ m := by
  simp only [unarySymFormula, Dom, DomList, den, denList, List.prod_cons, List.prod_nil, mul_one]
  exact ⟨⟨hu, hm, trivial⟩, trivial⟩

theorem symrevF_divLeft (hm : Dom ρ m) (hr : Dom ρ r) (hz : den ρ r ≠ 0) :
    Dom ρ (divSymLeft l r m) ∧ den ρ (divSymLeft l r m) = den ρ m / den ρ r := by
  simp only [divSymLeft, Dom, den]
  exact ⟨⟨hm, hr, hz⟩, trivial⟩

theorem symrevF_divRight (hm : Dom ρ m) (hl : Dom ρ l) (hr : Dom ρ r) (hz : den ρ r ≠ 0) :
    Dom ρ (divSymRight l r m) ∧
      den ρ (divSymRight l r m) = -(den ρ l / den ρ r ^ 2) * den ρ m := by
  simp only [divSymRight, Dom, DomList, den, denList, List.prod_cons, List.prod_nil, mul_one]
  exact ⟨⟨⟨hl, hr, pow_ne_zero 2 hz⟩, hm, trivial⟩, trivial⟩

theorem symrevF_powLeft (hm : Dom ρ m) (hl : Dom ρ l) (hr : Dom ρ r) (hpos : 0 < den ρ l) :
    Dom ρ (powSymLeft realNum l r m) ∧
      den ρ (powSymLeft realNum l r m) =
        den ρ r * (den ρ l ^ (den ρ r - 1) * den ρ m) := by
  simp only [powSymLeft, Dom, DomList, den, denList, List.prod_cons, List.prod_nil, mul_one,
    realNum_one]
  refine ⟨⟨hr, ⟨hl, ⟨hr, trivial⟩, hpos⟩, hm, trivial⟩, ?_⟩
  rw [Real.rpow_def_of_pos hpos, mul_comm (Real.log (den ρ l))]

theorem symrevF_powRight (hm : Dom ρ m) (hself : Dom ρ (.pow g l r)) :
    Dom ρ (powSymRight realNum (.pow g l r) l m) ∧
      den ρ (powSymRight realNum (.pow g l r) l m) =
        Real.log (den ρ l) * (Real.exp (den ρ r * Real.log (den ρ l)) * den ρ m) := by
  have h := hself
  simp only [Dom] at h
  simp only [powSymRight, Dom, DomList, den, denList, List.prod_cons, List.prod_nil, mul_one,
    realNum_e, Real.log_exp, div_one]
  exact ⟨⟨⟨h.1, h.2.2⟩, ⟨h.1, h.2.1, h.2.2⟩, hm, trivial⟩, trivial⟩

end formulas

/-! ### the multipliers need no new variable -/

theorem symrev_supp_of_occurs_sub {p : Point ℝ} {s a b : Expr ℝ}
    (h : ∀ x, Occurs x s → Occurs x a ∨ Occurs x b) (ha : Supp p a) (hb : Supp p b) :
    Supp p s := by
  rw [supp_iff_occurs] at ha hb ⊢
  intro x hx
  rcases h x hx with h | h
  · exact ha x h
  · exact hb x h

theorem symrev_supp_unarySymFormula {p : Point ℝ} {e m : Expr ℝ} (he : Supp p e) (hm : Supp p m) :
    Supp p (unarySymFormula realNum e m) :=
  symrev_supp_of_occurs_sub (fun x hx => occurs_unarySymFormula realNum x e m hx) hm he

theorem symrev_supp_divSymLeft {p : Point ℝ} {l r m : Expr ℝ} (hr : Supp p r) (hm : Supp p m) :
    Supp p (divSymLeft l r m) := ⟨hm, hr⟩

theorem symrev_supp_divSymRight {p : Point ℝ} {l r m : Expr ℝ} (hl : Supp p l) (hr : Supp p r)
    (hm : Supp p m) : Supp p (divSymRight l r m) := ⟨⟨hl, hr⟩, hm, trivial⟩

theorem symrev_supp_powSymLeft {p : Point ℝ} {l r m : Expr ℝ} (hl : Supp p l) (hr : Supp p r)
    (hm : Supp p m) : Supp p (powSymLeft realNum l r m) := ⟨hr, ⟨hl, hr, trivial⟩, hm, trivial⟩

theorem symrev_supp_powSymRight {p : Point ℝ} {self l m : Expr ℝ} (hs : Supp p self) (hl : Supp p l)
    (hm : Supp p m) : Supp p (powSymRight realNum self l m) := ⟨hl, hs, hm, trivial⟩

/-! ### specification of one symbolic reverse-mode traversal -/

/-- the traversal of `e` with multiplier `m` from `acc` ended in `acc'` -/
def SymRevSpec (p : Point ℝ) (e m : Expr ℝ) (acc acc' : SAcc ℝ) : Prop :=
  RevOKA p acc' ∧ ∀ y d, fwdG realNum p y e = .ok d →
    denA (valOf p) acc' y = denA (valOf p) acc y + den (valOf p) m * d

/-- `Add` : the same multiplier goes to every term -/
def SymRevSpecL (p : Point ℝ) (es : List (Expr ℝ)) (m : Expr ℝ) (acc acc' : SAcc ℝ) : Prop :=
  RevOKA p acc' ∧ ∀ y ds, fwdListG realNum p y es = .ok ds →
    denA (valOf p) acc' y = denA (valOf p) acc y + den (valOf p) m * ds.sum

/-- `Multiply` : term `k` gets `Multiply(m, *all_other_factors)`; `pre` are the factors already
handled -/
def SymRevSpecM (p : Point ℝ) (pre es : List (Expr ℝ)) (m : Expr ℝ) (acc acc' : SAcc ℝ) : Prop :=
  RevOKA p acc' ∧ ∀ y ds, fwdListG realNum p y es = .ok ds →
    denA (valOf p) acc' y = denA (valOf p) acc y +
      den (valOf p) m * ((denList (valOf p) pre).prod * prodDeriv ds (denList (valOf p) es))

/-- the shared shape of the eight unary classes: `m'` is the node's symbolic multiplier -/
theorem symRev_unary_spec {p : Point ℝ} {e u m m' : Expr ℝ} {acc acc' : SAcc ℝ} (G : ℝ → Prop)
    [DecidablePred G] (c : ℝ → ℝ)
    (hev : evalG realNum p u = .ok (den (valOf p) u)) (hg : G (den (valOf p) u))
    (hverify : ∀ a, unaryVerify realNum e a = if G a then .ok () else .error .domain)
    (hformula : ∀ t, unaryFormula realNum p e t = .ok (c (den (valOf p) u) * t))
    (hfwdeq : ∀ y, fwdG realNum p y e = (do
      let a ← evalG realNum p u
      unaryVerify realNum e a
      let d ← fwdG realNum p y u
      unaryFormula realNum p e d))
    (hden : den (valOf p) m' = c (den (valOf p) u) * den (valOf p) m)
    (ih : SymRevSpec p u m' acc acc') : SymRevSpec p e m acc acc' := by
  refine ⟨ih.1, fun y d hfy => ?_⟩
  obtain ⟨du, hdu, hdd⟩ := fwd_unary_value G c (hfwdeq y) hev hg hverify hformula hfy
  rw [ih.2 y du hdu, hden, hdd]; ring

/-- forward mode of a variable-free expression answers 0 (when it answers) -/
theorem symrev_fwd_zero_of_vars_nil {p : Point ℝ} {y : String} {l : Expr ℝ} (hv : l.vars = [])
    (hwf : WF l) (hs : Supp p l) (hd : Dom (valOf p) l) {d : ℝ} (h : fwdG realNum p y l = .ok d) :
    d = 0 := by
  obtain ⟨d', h', hder⟩ := (fwdR_spec p y l hwf).1 hs hd
  rw [h] at h'; injection h' with h'; subst h'
  have hfun : (fun t => den (upd (valOf p) y t) l) = fun _ => den (valOf p) l := by
    funext t; exact den_upd_of_vars_nil (valOf p) y l hv t
  rw [hfun] at hder
  exact hder.unique (hasDerivAt_const _ _)

/-- the three list predicates together -/
def RevOKL (p : Point ℝ) (es : List (Expr ℝ)) : Prop :=
  WFList es ∧ SuppList p es ∧ DomList (valOf p) es

theorem RevOKL_append {p : Point ℝ} {as bs : List (Expr ℝ)} (ha : RevOKL p as) (hb : RevOKL p bs) :
    RevOKL p (as ++ bs) :=
  ⟨(wfList_append as bs).mpr ⟨ha.1, hb.1⟩, (suppList_append p as bs).mpr ⟨ha.2.1, hb.2.1⟩,
    (domList_append _ as bs).mpr ⟨ha.2.2, hb.2.2⟩⟩

/-- `Multiply(m, *factors)` -/
theorem RevOKE_mul_cons {p : Point ℝ} {m : Expr ℝ} {as : List (Expr ℝ)} (hm : RevOKE p m)
    (ha : RevOKL p as) : RevOKE p (mkMul (m :: as)) :=
  ⟨⟨hm.1, ha.1⟩, ⟨hm.2.1, ha.2.1⟩, ⟨hm.2.2, ha.2.2⟩⟩

/-! ### the induction -/

mutual
/-- **one traversal.**  On a supplied point of the domain, with a multiplier and an accumulator that
are well formed, supplied and defined there, `_compute_synthetic_partials` ends in an accumulator
with the same three properties in which the value of *every* entry has grown by
`den m ·` (the forward-mode partial for that variable). -/
theorem symRev_spec (p : Point ℝ) : ∀ e : Expr ℝ, WF e → Supp p e → Dom (valOf p) e →
    ∀ (m : Expr ℝ) (acc : SAcc ℝ), RevOKE p m → RevOKA p acc →
    SymRevSpec p e m acc (symRev realNum e m acc)
  | .const _ v, _, _, _, m, acc, _, ha => by
    simp only [symRev]
    refine ⟨ha, fun y d h => ?_⟩
    simp only [fwdG, pure, Except.pure, realNum_zero] at h
    injection h with h; subst h; simp
  | .var g z, _, _, _, m, acc, hm, ha => by
    simp only [symRev]
    refine ⟨RevOKA_addTo ha z hm, fun y d h => ?_⟩
    rw [denA_addTo]
    simp only [fwdG] at h
    by_cases hzy : z = y
    · subst hzy
      simp only [beq_self_eq_true, if_true, pure, Except.pure, realNum_one] at h
      injection h with h; subst h; simp
    · have hb : (z == y) = false := by simpa using hzy
      have hyz : ¬ y = z := fun h' => hzy h'.symm
      simp only [hb, Bool.false_eq_true, if_false, pure, Except.pure, realNum_zero] at h
      injection h with h; subst h; simp [hyz]
  | .add _ as, hwf, hs, hd, m, acc, hm, ha => by
    have ih := symRev_spec_list p as hwf hs hd m acc hm ha
    simp only [symRev]
    refine ⟨ih.1, fun y d h => ?_⟩
    obtain ⟨ds, hds⟩ := fwdList_ok_of (y := y) hwf hs hd
    simp only [fwdG, hds, bind, Except.bind, pure, Except.pure, mfAdd_real] at h
    injection h with h; subst h
    exact ih.2 y ds hds
  | .minus _ l r, hwf, hs, hd, m, acc, hm, ha => by
    have ih1 := symRev_spec p l hwf.1 hs.1 hd.1 m acc hm ha
    have hm' : RevOKE p (mkNeg m) := ⟨hm.1, hm.2.1, hm.2.2⟩
    have ih2 := symRev_spec p r hwf.2 hs.2 hd.2 (mkNeg m) _ hm' ih1.1
    simp only [symRev]
    refine ⟨ih2.1, fun y d h => ?_⟩
    obtain ⟨d1, h1⟩ := fwd_ok_of (y := y) hwf.1 hs.1 hd.1
    obtain ⟨d2, h2⟩ := fwd_ok_of (y := y) hwf.2 hs.2 hd.2
    simp only [fwdG, h1, h2, bind, Except.bind, pure, Except.pure, mfMinus_real] at h
    injection h with h; subst h
    rw [ih2.2 y d2 h2, ih1.2 y d1 h1]
    simp only [den]
    ring
  | .mul _ as, hwf, hs, hd, m, acc, hm, ha => by
    have ih := symRev_spec_mul p [] as hwf hs hd ⟨trivial, trivial, trivial⟩ m acc hm ha
    simp only [List.nil_append, List.length_nil] at ih
    simp only [symRev]
    refine ⟨ih.1, fun y d h => ?_⟩
    have hev := (evalR_good_list p as hwf).ok_iff.mpr ⟨hs, hd, rfl⟩
    obtain ⟨ds, hds⟩ := fwdList_ok_of (y := y) hwf hs hd
    have hlen : ds.length = (denList (valOf p) as).length := by
      obtain ⟨ds', h', hder⟩ := (fwdR_spec_list p y as hwf).1 hs hd
      rw [hds] at h'; injection h' with h'; subst h'
      simpa [denList_eq_map] using hder.length_eq.symm
    simp only [fwdG, hev, hds, bind, Except.bind, pure, Except.pure, mulTerms_sum ds _ hlen] at h
    injection h with h; subst h
    have := ih.2 y ds hds
    simpa [denList] using this
  | .div g l r, hwf, hs, hd, m, acc, hm, ha => by
    obtain ⟨hd1, hd2, hz⟩ := hd
    obtain ⟨hdl, hdenl⟩ := symrevF_divLeft (l := l) hm.2.2 hd2 hz
    obtain ⟨hdr, hdenr⟩ := symrevF_divRight hm.2.2 hd1 hd2 hz
    have ih1 := symRev_spec p l hwf.1 hs.1 hd1 (divSymLeft l r m) acc
      ⟨WF_divSymLeft hwf.2 hm.1, symrev_supp_divSymLeft hs.2 hm.2.1, hdl⟩ ha
    have ih2 := symRev_spec p r hwf.2 hs.2 hd2 (divSymRight l r m) _
      ⟨WF_divSymRight hwf.1 hwf.2 hm.1, symrev_supp_divSymRight hs.1 hs.2 hm.2.1, hdr⟩ ih1.1
    simp only [symRev]
    refine ⟨ih2.1, fun y d h => ?_⟩
    have he1 := (evalR_good p l hwf.1).ok_iff.mpr ⟨hs.1, hd1, rfl⟩
    have he2 := (evalR_good p r hwf.2).ok_iff.mpr ⟨hs.2, hd2, rfl⟩
    obtain ⟨d1, h1⟩ := fwd_ok_of (y := y) hwf.1 hs.1 hd1
    obtain ⟨d2, h2⟩ := fwd_ok_of (y := y) hwf.2 hs.2 hd2
    rw [fwdG_div_value he1 he2 hz h1 h2] at h
    injection h with h; subst h
    rw [ih2.2 y d2 h2, ih1.2 y d1 h1, hdenl, hdenr]
    ring
  | .pow g l r, hwf, hs, hd, m, acc, hm, ha => by
    have hd' := hd
    obtain ⟨hd1, hd2, hpos⟩ := hd'
    obtain ⟨hdl, hdenl⟩ := symrevF_powLeft hm.2.2 hd1 hd2 hpos
    obtain ⟨hdr, hdenr⟩ := symrevF_powRight (g := g) hm.2.2 hd
    have ih1 := symRev_spec p l hwf.1 hs.1 hd1 (powSymLeft realNum l r m) acc
      ⟨WF_powSymLeft hwf.1 hwf.2 hm.1, symrev_supp_powSymLeft hs.1 hs.2 hm.2.1, hdl⟩ ha
    have ih2 := symRev_spec p r hwf.2 hs.2 hd2 (powSymRight realNum (.pow g l r) l m) _
      ⟨WF_powSymRight hwf hwf.1 hm.1, symrev_supp_powSymRight hs hs.1 hm.2.1, hdr⟩ ih1.1
    simp only [symRev]
    refine ⟨ih2.1, fun y d h => ?_⟩
    obtain ⟨d1, h1⟩ := fwd_ok_of (y := y) hwf.1 hs.1 hd1
    obtain ⟨d2, h2⟩ := fwd_ok_of (y := y) hwf.2 hs.2 hd2
    rw [ih2.2 y d2 h2, ih1.2 y d1 h1, hdenl, hdenr]
    have he1 := (evalR_good p l hwf.1).ok_iff.mpr ⟨hs.1, hd1, rfl⟩
    have hes := (evalR_good p (.pow g l r) hwf).ok_iff.mpr ⟨hs, hd, rfl⟩
    rw [fwdG_pow_eq] at h
    unfold powShortcut at h
    by_cases hv : l.vars.isEmpty
    · by_cases hone : den (valOf p) l = 1
      · -- the numeric code takes the short-cut and answers 0; the symbolic code does not: its left
        -- contribution is `… · (partial of the variable-free base) = … · 0`, its right one carries
        -- the factor `log 1 = 0`
        simp only [hv, if_true, he1, bind, Except.bind, pure, Except.pure, realNum_eq, realNum_one,
          hone, decide_true, hes, realNum_zero] at h
        injection h with h; subst h
        have hvn : l.vars = [] := by simpa using hv
        have hd10 := symrev_fwd_zero_of_vars_nil hvn hwf.1 hs.1 hd1 h1
        subst hd10
        rw [hone]
        simp
      · simp only [hv, if_true, he1, bind, Except.bind, pure, Except.pure, realNum_eq, realNum_one,
          hone, decide_false, Bool.false_eq_true, if_false] at h
        rw [powGeneral_value hwf hs hd h1 h2] at h
        injection h with h; subst h
        ring
    · simp only [hv, Bool.false_eq_true, if_false, bind, Except.bind, pure, Except.pure] at h
      rw [powGeneral_value hwf hs hd h1 h2] at h
      injection h with h; subst h
      ring
  | .neg g u, hwf, hs, hd, m, acc, hm, ha => by
    obtain ⟨hdm, hden⟩ := symrevF_neg (g := g) (u := u) hm.2.2
    have hev := (evalR_good p u hwf).ok_iff.mpr ⟨hs, hd, rfl⟩
    simp only [symRev]
    exact symRev_unary_spec (e := .neg g u) (fun _ => True) (fun _ => -1) hev trivial
      (verify_total _ (fun a => rfl)) (fun t => neg_formula t) (fun y => by simp only [fwdG]) hden
      (symRev_spec p u hwf hs hd _ acc
        ⟨WF_unarySymFormula (e := .neg g u) hwf hm.1, symrev_supp_unarySymFormula (e := .neg g u) hs hm.2.1,
          hdm⟩ ha)
  | .recip g u, hwf, hs, hd, m, acc, hm, ha => by
    obtain ⟨hdm, hden⟩ := symrevF_recip (g := g) (u := u) hm.2.2 hd.1 hd.2
    have hev := (evalR_good p u hwf).ok_iff.mpr ⟨hs, hd.1, rfl⟩
    simp only [symRev]
    exact symRev_unary_spec (e := .recip g u) (fun a => a ≠ 0) (fun a => -(a ^ 2)⁻¹) hev hd.2
      (fun a => verifyReciprocal_real a) (fun t => recip_formula (u := u) hs hd.1 hwf hd.2 t) (fun y => by simp only [fwdG]) hden
      (symRev_spec p u hwf hs hd.1 _ acc
        ⟨WF_unarySymFormula (e := .recip g u) hwf hm.1, symrev_supp_unarySymFormula (e := .recip g u) hs hm.2.1,
          hdm⟩ ha)
  | .npow g u n, hwf, hs, hd, m, acc, hm, ha => by
    obtain ⟨hdm, hden⟩ := symrevF_npow (g := g) (u := u) hm.2.2 hd n
    have hev := (evalR_good p u hwf.2).ok_iff.mpr ⟨hs, hd, rfl⟩
    simp only [symRev]
    exact symRev_unary_spec (e := .npow g u n) (fun _ => True) (fun a => n * a ^ (n - 1)) hev trivial
      (verify_total _ (fun a => rfl)) (fun t => npow_formula (u := u) hs hd hwf.2 hwf.1 t) (fun y => by simp only [fwdG]) hden
      (symRev_spec p u hwf.2 hs hd _ acc
        ⟨WF_unarySymFormula (e := .npow g u n) hwf hm.1, symrev_supp_unarySymFormula (e := .npow g u n) hs hm.2.1,
          hdm⟩ ha)
  | .nroot g u n, hwf, hs, hd, m, acc, hm, ha => by
    obtain ⟨hdm, hden⟩ := symrevF_nroot (g := g) (u := u) hwf.1 hm.2.2 hd
    have hev := (evalR_good p u hwf.2).ok_iff.mpr ⟨hs, hd.1, rfl⟩
    simp only [symRev]
    exact symRev_unary_spec (e := .nroot g u n) (RootOK n) (fun a => if n = 1 then 1 else (n * sroot n a ^ (n - 1))⁻¹) hev hd.2
      (fun a => verifyNthRoot_real n a) (fun t => nroot_formula (u := u) hs hd.1 hwf.2 hwf.1 hd.2 t) (fun y => by simp only [fwdG]) hden
      (symRev_spec p u hwf.2 hs hd.1 _ acc
        ⟨WF_unarySymFormula (e := .nroot g u n) hwf hm.1, symrev_supp_unarySymFormula (e := .nroot g u n) hs hm.2.1,
          hdm⟩ ha)
  | .exp g u b, hwf, hs, hd, m, acc, hm, ha => by
    obtain ⟨hdm, hden⟩ := symrevF_exp (g := g) (u := u) hwf.1 hm.2.2 hd
    have hev := (evalR_good p u hwf.2).ok_iff.mpr ⟨hs, hd, rfl⟩
    simp only [symRev]
    exact symRev_unary_spec (e := .exp g u b) (fun _ => True) (fun a => Real.log b * Real.exp (a * Real.log b)) hev trivial
      (verify_total _ (fun a => rfl)) (fun t => exp_formula (u := u) hs hd hwf.2 hwf.1 t) (fun y => by simp only [fwdG]) hden
      (symRev_spec p u hwf.2 hs hd _ acc
        ⟨WF_unarySymFormula (e := .exp g u b) hwf hm.1, symrev_supp_unarySymFormula (e := .exp g u b) hs hm.2.1,
          hdm⟩ ha)
  | .log g u b, hwf, hs, hd, m, acc, hm, ha => by
    obtain ⟨hdm, hden⟩ := symrevF_log (g := g) (u := u) hwf.1 hwf.2.1 hm.2.2 hd.1 hd.2
    have hev := (evalR_good p u hwf.2.2).ok_iff.mpr ⟨hs, hd.1, rfl⟩
    simp only [symRev]
    exact symRev_unary_spec (e := .log g u b) (fun a => 0 < a) (fun a => (a * Real.log b)⁻¹) hev hd.2
      (fun a => verifyLogarithm_real a) (fun t => log_formula (u := u) hs hd.1 hwf.2.2 hwf.1 hwf.2.1 hd.2 t) (fun y => by simp only [fwdG]) hden
      (symRev_spec p u hwf.2.2 hs hd.1 _ acc
        ⟨WF_unarySymFormula (e := .log g u b) hwf hm.1, symrev_supp_unarySymFormula (e := .log g u b) hs hm.2.1,
          hdm⟩ ha)
  | .cos g u, hwf, hs, hd, m, acc, hm, ha => by
    obtain ⟨hdm, hden⟩ := symrevF_cos (g := g) (u := u) hm.2.2 hd
    have hev := (evalR_good p u hwf).ok_iff.mpr ⟨hs, hd, rfl⟩
    simp only [symRev]
    exact symRev_unary_spec (e := .cos g u) (fun _ => True) (fun a => -Real.sin a) hev trivial
      (verify_total _ (fun a => rfl)) (fun t => cos_formula (u := u) hs hd hwf t) (fun y => by simp only [fwdG]) hden
      (symRev_spec p u hwf hs hd _ acc
        ⟨WF_unarySymFormula (e := .cos g u) hwf hm.1, symrev_supp_unarySymFormula (e := .cos g u) hs hm.2.1,
          hdm⟩ ha)
  | .sin g u, hwf, hs, hd, m, acc, hm, ha => by
    obtain ⟨hdm, hden⟩ := symrevF_sin (g := g) (u := u) hm.2.2 hd
    have hev := (evalR_good p u hwf).ok_iff.mpr ⟨hs, hd, rfl⟩
    simp only [symRev]
    exact symRev_unary_spec (e := .sin g u) (fun _ => True) (fun a => Real.cos a) hev trivial
      (verify_total _ (fun a => rfl)) (fun t => sin_formula (u := u) hs hd hwf t) (fun y => by simp only [fwdG]) hden
      (symRev_spec p u hwf hs hd _ acc
        ⟨WF_unarySymFormula (e := .sin g u) hwf hm.1, symrev_supp_unarySymFormula (e := .sin g u) hs hm.2.1,
          hdm⟩ ha)
theorem symRev_spec_list (p : Point ℝ) : ∀ es : List (Expr ℝ), WFList es → SuppList p es →
    DomList (valOf p) es → ∀ (m : Expr ℝ) (acc : SAcc ℝ), RevOKE p m → RevOKA p acc →
    SymRevSpecL p es m acc (symRevList realNum es m acc)
  | [], _, _, _, m, acc, _, ha => by
    simp only [symRevList]
    refine ⟨ha, fun y ds h => ?_⟩
    simp only [fwdListG, pure, Except.pure] at h
    injection h with h; subst h; simp
  | e :: es, hwf, hs, hd, m, acc, hm, ha => by
    have ih1 := symRev_spec p e hwf.1 hs.1 hd.1 m acc hm ha
    have ih2 := symRev_spec_list p es hwf.2 hs.2 hd.2 m _ hm ih1.1
    simp only [symRevList]
    refine ⟨ih2.1, fun y ds h => ?_⟩
    obtain ⟨d, h1⟩ := fwd_ok_of (y := y) hwf.1 hs.1 hd.1
    obtain ⟨ds', h2⟩ := fwdList_ok_of (y := y) hwf.2 hs.2 hd.2
    simp only [fwdListG, h1, h2, bind, Except.bind, pure, Except.pure] at h
    injection h with h; subst h
    rw [ih2.2 y ds' h2, ih1.2 y d h1, List.sum_cons]; ring
theorem symRev_spec_mul (p : Point ℝ) : ∀ (pre es : List (Expr ℝ)), WFList es → SuppList p es →
    DomList (valOf p) es → RevOKL p pre → ∀ (m : Expr ℝ) (acc : SAcc ℝ), RevOKE p m → RevOKA p acc →
    SymRevSpecM p pre es m acc (symRevMul realNum (pre ++ es) m pre.length es acc)
  | pre, [], _, _, _, _, m, acc, _, ha => by
    simp only [symRevMul]
    refine ⟨ha, fun y ds h => ?_⟩
    simp only [fwdListG, pure, Except.pure] at h
    injection h with h; subst h; simp [prodDeriv]
  | pre, e :: es, hwf, hs, hd, hpre, m, acc, hm, ha => by
    have herase : (pre ++ e :: es).eraseIdx pre.length = pre ++ es := by
      rw [List.eraseIdx_append_of_length_le (le_refl _)]
      simp
    have hm1 : RevOKE p (mkMul (m :: (pre ++ e :: es).eraseIdx pre.length)) := by
      rw [herase]
      exact RevOKE_mul_cons hm (RevOKL_append hpre ⟨hwf.2, hs.2, hd.2⟩)
    have ih1 := symRev_spec p e hwf.1 hs.1 hd.1 _ acc hm1 ha
    have hpre' : RevOKL p (pre ++ [e]) :=
      RevOKL_append hpre ⟨⟨hwf.1, trivial⟩, ⟨hs.1, trivial⟩, ⟨hd.1, trivial⟩⟩
    have ih2 := symRev_spec_mul p (pre ++ [e]) es hwf.2 hs.2 hd.2 hpre' m _ hm ih1.1
    simp only [List.append_assoc, List.singleton_append, List.length_append,
      List.length_singleton] at ih2
    simp only [symRevMul]
    refine ⟨ih2.1, fun y ds h => ?_⟩
    obtain ⟨d, h1⟩ := fwd_ok_of (y := y) hwf.1 hs.1 hd.1
    obtain ⟨ds', h2⟩ := fwdList_ok_of (y := y) hwf.2 hs.2 hd.2
    simp only [fwdListG, h1, h2, bind, Except.bind, pure, Except.pure] at h
    injection h with h; subst h
    rw [ih2.2 y ds' h2, ih1.2 y d h1, herase]
    simp only [den, denList, denList_append, List.prod_cons, List.prod_append, List.prod_nil,
      mul_one, prodDeriv]
    ring
end

/-! ### `_synthetic_partials()` -/

/-- the entries of `_synthetic_partials()` : one per variable of `e`, the accumulated expression or
the default `Constant(0)` -/
theorem syntheticPartials_get? {α : Type} (N : Num α) (e : Expr α) (y : String) :
    SAcc.get? (syntheticPartials N e) y =
      if y ∈ e.vars then
        some ((SAcc.get? (symRev N e (mkConst N.one) []) y).getD (mkConst N.zero))
      else none := by
  rw [syntheticPartials_eq_over]
  exact get?_symReadBack N _ e.vars y

/-- **reverse symbolic mode is sound**: for every variable `y` of `e`, the stored expression is well
formed, supplied by every point that supplies `e`, defined wherever `e` is, and its value there is the
forward-mode partial (hence, by C03, the true partial derivative) -/
theorem syntheticPartials_sound {p : Point ℝ} {e : Expr ℝ} (hwf : WF e) (hs : Supp p e)
    (hd : Dom (valOf p) e) : ∀ y ∈ e.vars, ∃ s,
      SAcc.get? (syntheticPartials realNum e) y = some s ∧ WF s ∧ Supp p s ∧ Dom (valOf p) s ∧
        (∀ d, fwdG realNum p y e = .ok d → den (valOf p) s = d) := by
  intro y hy
  have spec := symRev_spec p e hwf hs hd (mkConst realNum.one) [] (RevOKE_const p _ _) (RevOKA_nil p)
  rw [syntheticPartials_get?]
  simp only [hy, if_true]
  cases hg : SAcc.get? (symRev realNum e (mkConst realNum.one) []) y with
  | none =>
    refine ⟨mkConst realNum.zero, rfl, trivial, trivial, trivial, fun d hfd => ?_⟩
    have := spec.2 y d hfd
    unfold denA at this
    rw [hg] at this
    simp only [SAcc.get?, den, realNum_one, one_mul, zero_add] at this
    simp only [den, realNum_zero]
    exact this
  | some s =>
    obtain ⟨h1, h2, h3⟩ := spec.1 y s hg
    refine ⟨s, rfl, h1, h2, h3, fun d hfd => ?_⟩
    have := spec.2 y d hfd
    unfold denA at this
    rw [hg] at this
    simpa only [SAcc.get?, den, realNum_one, one_mul, zero_add] using this

/-- a name that is not a variable of `e` has no entry -/
theorem syntheticPartials_get?_none {α : Type} (N : Num α) (e : Expr α) {y : String}
    (hy : y ∉ e.vars) : SAcc.get? (syntheticPartials N e) y = none := by
  rw [syntheticPartials_get?]; simp [hy]

/-- read on the evaluator: evaluating the stored expression IS asking forward mode -/
theorem syntheticPartials_eval {p : Point ℝ} {e : Expr ℝ} (hwf : WF e) (hs : Supp p e)
    (hd : Dom (valOf p) e) {y : String} {s : Expr ℝ}
    (hget : SAcc.get? (syntheticPartials realNum e) y = some s) :
    evalG realNum p s = fwdG realNum p y e := by
  have hy : y ∈ e.vars := by
    by_contra hy
    rw [syntheticPartials_get?_none realNum e hy] at hget
    cases hget
  obtain ⟨s', hs', h1, h2, h3, h4⟩ := syntheticPartials_sound hwf hs hd y hy
  rw [hget] at hs'; injection hs' with hs'; subst hs'
  obtain ⟨d, hfd⟩ := fwd_ok_of (y := y) hwf hs hd
  rw [hfd, ← h4 d hfd]
  exact (evalR_good p s h1).ok_iff.mpr ⟨h2, h3, rfl⟩

/-! ### no new variable -/

section occ
variable {α : Type}

/-- every variable of every accumulated expression satisfies `V` -/
def OccA (V : String → Prop) (acc : SAcc α) : Prop :=
  ∀ y s, SAcc.get? acc y = some s → ∀ x, Occurs x s → V x

theorem OccA_addTo {V : String → Prop} {acc : SAcc α} (h : OccA V acc) (x : String) {c : Expr α}
    (hc : ∀ v, Occurs v c → V v) : OccA V (SAcc.addTo acc x c) := by
  intro z s hz
  rw [SAcc.get?_addTo] at hz
  by_cases hzx : z = x
  · simp only [hzx, if_true, Option.some.injEq] at hz
    subst hz
    cases hex : SAcc.get? acc x with
    | none => exact hc
    | some ex =>
      intro v hv
      simp only [SAcc.merged, Occurs, OccursList, or_false] at hv
      rcases hv with hv | hv
      · exact h x ex hex v hv
      · exact hc v hv
  · simp only [hzx, if_false] at hz
    exact h z s hz

mutual
theorem occA_symRev (N : Num α) (V : String → Prop) : ∀ (e m : Expr α) (acc : SAcc α),
    (∀ x, Occurs x e → V x) → (∀ x, Occurs x m → V x) → OccA V acc → OccA V (symRev N e m acc)
  | .const _ _, _, _, _, _, ha => by simp only [symRev]; exact ha
  | .var _ y, m, acc, _, hm, ha => by simp only [symRev]; exact OccA_addTo ha y hm
  | .add _ as, m, acc, he, hm, ha => by
    simp only [symRev]; exact occA_symRevList N V as m acc he hm ha
  | .minus _ l r, m, acc, he, hm, ha => by
    simp only [symRev]
    exact occA_symRev N V r _ _ (fun x hx => he x (Or.inr hx)) (fun x hx => hm x hx)
      (occA_symRev N V l m acc (fun x hx => he x (Or.inl hx)) hm ha)
  | .mul _ as, m, acc, he, hm, ha => by
    simp only [symRev]; exact occA_symRevMul N V as m 0 as acc he hm he ha
  | .div _ l r, m, acc, he, hm, ha => by
    have hl : ∀ x, Occurs x l → V x := fun x hx => he x (Or.inl hx)
    have hr : ∀ x, Occurs x r → V x := fun x hx => he x (Or.inr hx)
    simp only [symRev]
    refine occA_symRev N V r _ _ hr ?_ (occA_symRev N V l _ acc hl ?_ ha)
    · intro x hx
      simp only [divSymRight, Occurs, OccursList, or_false] at hx
      rcases hx with (hx | hx) | hx
      exacts [hl x hx, hr x hx, hm x hx]
    · intro x hx
      simp only [divSymLeft, Occurs] at hx
      rcases hx with hx | hx
      exacts [hm x hx, hr x hx]
  | .pow f l r, m, acc, he, hm, ha => by
    have hl : ∀ x, Occurs x l → V x := fun x hx => he x (Or.inl hx)
    have hr : ∀ x, Occurs x r → V x := fun x hx => he x (Or.inr hx)
    simp only [symRev]
    refine occA_symRev N V r _ _ hr ?_ (occA_symRev N V l _ acc hl ?_ ha)
    · intro x hx
      simp only [powSymRight, Occurs, OccursList, or_false] at hx
      rcases hx with hx | (hx | hx) | hx
      exacts [hl x hx, hl x hx, hr x hx, hm x hx]
    · intro x hx
      simp only [powSymLeft, Occurs, OccursList, or_false] at hx
      rcases hx with hx | (hx | hx) | hx
      exacts [hr x hx, hl x hx, hr x hx, hm x hx]
  | .neg f u, m, acc, he, hm, ha => by
    simp only [symRev]
    exact occA_symRev N V u _ acc he
      (fun x hx => (occurs_unarySymFormula N x _ m hx).elim (hm x) (he x)) ha
  | .recip f u, m, acc, he, hm, ha => by
    simp only [symRev]
    exact occA_symRev N V u _ acc he
      (fun x hx => (occurs_unarySymFormula N x _ m hx).elim (hm x) (he x)) ha
  | .npow f u n, m, acc, he, hm, ha => by
    simp only [symRev]
    exact occA_symRev N V u _ acc he
      (fun x hx => (occurs_unarySymFormula N x _ m hx).elim (hm x) (he x)) ha
  | .nroot f u n, m, acc, he, hm, ha => by
    simp only [symRev]
    exact occA_symRev N V u _ acc he
      (fun x hx => (occurs_unarySymFormula N x _ m hx).elim (hm x) (he x)) ha
  | .exp f u b, m, acc, he, hm, ha => by
    simp only [symRev]
    exact occA_symRev N V u _ acc he
      (fun x hx => (occurs_unarySymFormula N x _ m hx).elim (hm x) (he x)) ha
  | .log f u b, m, acc, he, hm, ha => by
    simp only [symRev]
    exact occA_symRev N V u _ acc he
      (fun x hx => (occurs_unarySymFormula N x _ m hx).elim (hm x) (he x)) ha
  | .cos f u, m, acc, he, hm, ha => by
    simp only [symRev]
    exact occA_symRev N V u _ acc he
      (fun x hx => (occurs_unarySymFormula N x _ m hx).elim (hm x) (he x)) ha
  | .sin f u, m, acc, he, hm, ha => by
    simp only [symRev]
    exact occA_symRev N V u _ acc he
      (fun x hx => (occurs_unarySymFormula N x _ m hx).elim (hm x) (he x)) ha
theorem occA_symRevList (N : Num α) (V : String → Prop) : ∀ (es : List (Expr α)) (m : Expr α)
    (acc : SAcc α), (∀ x, OccursList x es → V x) → (∀ x, Occurs x m → V x) → OccA V acc →
    OccA V (symRevList N es m acc)
  | [], _, _, _, _, ha => by simp only [symRevList]; exact ha
  | e :: es, m, acc, he, hm, ha => by
    simp only [symRevList]
    exact occA_symRevList N V es m _ (fun x hx => he x (Or.inr hx)) hm
      (occA_symRev N V e m acc (fun x hx => he x (Or.inl hx)) hm ha)
theorem occA_symRevMul (N : Num α) (V : String → Prop) (all : List (Expr α)) (m : Expr α) :
    ∀ (i : Nat) (es : List (Expr α)) (acc : SAcc α), (∀ x, OccursList x all → V x) →
    (∀ x, Occurs x m → V x) → (∀ x, OccursList x es → V x) → OccA V acc →
    OccA V (symRevMul N all m i es acc)
  | _, [], _, _, _, _, ha => by simp only [symRevMul]; exact ha
  | i, e :: es, acc, hall, hm, he, ha => by
    simp only [symRevMul]
    refine occA_symRevMul N V all m (i + 1) es _ hall hm (fun x hx => he x (Or.inr hx))
      (occA_symRev N V e _ acc (fun x hx => he x (Or.inl hx)) ?_ ha)
    intro x hx
    simp only [Occurs, OccursList] at hx
    rcases hx with hx | hx
    · exact hm x hx
    · exact hall x (occursList_eraseIdx x all i hx)
end

/-- **no new variable**: every expression stored by `_synthetic_partials()` mentions only variables
of `e` -/
theorem syntheticPartials_occurs (N : Num α) (e : Expr α) {y : String} {s : Expr α}
    (hget : SAcc.get? (syntheticPartials N e) y = some s) {x : String} (hx : Occurs x s) :
    Occurs x e := by
  rw [syntheticPartials_get?] at hget
  split at hget
  · injection hget with hget
    have hacc : OccA (fun x => Occurs x e) (symRev N e (mkConst N.one) []) :=
      occA_symRev N _ e _ [] (fun _ h => h) (fun _ h => by simp only [Occurs] at h)
        (fun _ _ h => by simp [SAcc.get?] at h)
    cases hg : SAcc.get? (symRev N e (mkConst N.one) []) y with
    | none =>
      rw [hg] at hget
      simp only [Option.getD_none] at hget
      subst hget
      simp only [Occurs] at hx
    | some s' =>
      rw [hg] at hget
      simp only [Option.getD_some] at hget
      subst hget
      exact hacc y _ hg x hx
  · cases hget

end occ

/-! ### the normalised partials stored by `Differential(e, compute_early=True)` -/

theorem symrev_nonNary_unary (r : RuleId) (h : r.isNary = false) : r ∈ unaryRules := by
  cases r <;> first | (exact absurd h (by decide)) | (simp [unaryRules])

/-- all 46 rules are sound outside the recorded defect K1 (as in Properties/C08) -/
theorem symrev_rulesSound : RulesSound K1FreeAt := fun r e e' happ hal => by
  cases hr : r.isNary
  · exact unaryRule_refines r (symrev_nonNary_unary r hr) e e' happ hal
  · exact nary_rule_refines hr happ

/-- `normalizeAll` normalises entry by entry and keeps the names -/
theorem normalizeAll_get? {α : Type} (N : Num α) : ∀ {acc d : SAcc α} {w : Bool},
    normalizeAll N acc = .ok (d, w) → ∀ y,
      match SAcc.get? acc y with
      | none => SAcc.get? d y = none
      | some s => ∃ s' w', normalize N s = some (s', w') ∧ SAcc.get? d y = some s'
  | [], d, w, h, y => by
    simp only [normalizeAll, pure, Except.pure] at h
    injection h with h
    injection h with h1 h2
    subst h1
    simp [SAcc.get?]
  | (x, s) :: rest, d, w, h, y => by
    simp only [normalizeAll] at h
    cases hn : normalize N s with
    | none => simp [hn, liftFuel, bind, Except.bind, throw, throwThe, MonadExceptOf.throw] at h
    | some sw =>
      obtain ⟨s', w1⟩ := sw
      cases hr : normalizeAll N rest with
      | error err => simp [hn, hr, liftFuel, bind, Except.bind, pure, Except.pure] at h
      | ok dw =>
        obtain ⟨rest', w2⟩ := dw
        simp only [hn, hr, liftFuel, bind, Except.bind, pure, Except.pure] at h
        injection h with h
        injection h with h1 h2
        subst h1
        have ih := normalizeAll_get? N hr y
        simp only [SAcc.get?]
        by_cases hxy : x = y
        · subst hxy
          simp only [beq_self_eq_true, if_true]
          exact ⟨s', w1, hn, rfl⟩
        · have hb : (x == y) = false := by simpa using hxy
          simp only [hb, Bool.false_eq_true, if_false]
          exact ih

/-- what `Differential(e, compute_early=True)` stores -/
theorem differentialNew_early {α : Type} (N : Num α) (e : Expr α) {D : DifferentialObj α} {w : Bool}
    (h : DifferentialObj.new N e true = .ok (D, w)) :
    ∃ d, normalizeAll N (syntheticPartials N e) = .ok (d, w) ∧ D = ⟨e, some d⟩ := by
  simp only [DifferentialObj.new, if_true] at h
  cases hr : normalizeAll N (syntheticPartials N e) with
  | error err => simp [hr, bind, Except.bind] at h
  | ok dw =>
    obtain ⟨d, w'⟩ := dw
    simp only [hr, bind, Except.bind, pure, Except.pure] at h
    injection h with h
    injection h with h1 h2
    subst h1; subst h2
    exact ⟨d, rfl, rfl⟩

/-- **the normalised components refine the raw ones**, provided the rewriter's run on each raw
component performs no K1 rule application -/
theorem normalizeAll_refines {e : Expr ℝ} {d : SAcc ℝ} {w : Bool}
    (h : normalizeAll realNum (syntheticPartials realNum e) = .ok (d, w))
    (hok : ∀ y s, SAcc.get? (syntheticPartials realNum e) y = some s →
      NormOK K1FreeAt REDUCTION_STEPS_BOUND NORMALIZE_FUEL s) :
    (∀ y, y ∉ e.vars → SAcc.get? d y = none) ∧
    ∀ y ∈ e.vars, ∃ s s', SAcc.get? (syntheticPartials realNum e) y = some s ∧
      SAcc.get? d y = some s' ∧ Refines s s' := by
  refine ⟨fun y hy => ?_, fun y hy => ?_⟩
  · have := normalizeAll_get? realNum h y
    rw [syntheticPartials_get?_none realNum e hy] at this
    exact this
  · have := normalizeAll_get? realNum h y
    have hget := syntheticPartials_get? realNum e y
    simp only [hy, if_true] at hget
    rw [hget] at this
    obtain ⟨s', w', hn, hd⟩ := this
    exact ⟨_, s', hget, hd, normalize_refines symrev_rulesSound _ _ _ s' w' (hok y _ hget) hn⟩

/-- a normalised component evaluates, on the original's domain, to the forward-mode partial -/
theorem normalizeAll_eval {p : Point ℝ} {e : Expr ℝ} (hwf : WF e) (hs : Supp p e)
    (hd : Dom (valOf p) e) {d : SAcc ℝ} {w : Bool}
    (h : normalizeAll realNum (syntheticPartials realNum e) = .ok (d, w))
    (hok : ∀ y s, SAcc.get? (syntheticPartials realNum e) y = some s →
      NormOK K1FreeAt REDUCTION_STEPS_BOUND NORMALIZE_FUEL s)
    {y : String} {s' : Expr ℝ} (hget : SAcc.get? d y = some s') :
    evalG realNum p s' = fwdG realNum p y e := by
  have hy : y ∈ e.vars := by
    by_contra hy
    rw [(normalizeAll_refines h hok).1 y hy] at hget
    cases hget
  obtain ⟨s, s'', hg, hg', href⟩ := (normalizeAll_refines h hok).2 y hy
  rw [hget] at hg'; injection hg' with hg'; subst hg'
  obtain ⟨s0, hs0, hwf0, _, _, _⟩ := syntheticPartials_sound hwf hs hd y hy
  rw [hg] at hs0; injection hs0 with hs0; subst hs0
  obtain ⟨dv, hfd⟩ := fwd_ok_of (y := y) hwf hs hd
  have hev := syntheticPartials_eval hwf hs hd hg
  rw [hfd] at hev ⊢
  exact href.eval hwf0 p dv hev

/-- **`Differential(e, compute_early=True).component_at(y, point)`** answers what forward mode
answers, for every name `y` (a variable of `e` or not) -/
theorem differential_early_componentAt {p : Point ℝ} {e : Expr ℝ} (hwf : WF e) (hs : Supp p e)
    (hd : Dom (valOf p) e) {D : DifferentialObj ℝ} {w : Bool}
    (hnew : DifferentialObj.new realNum e true = .ok (D, w))
    (hok : ∀ y s, SAcc.get? (syntheticPartials realNum e) y = some s →
      NormOK K1FreeAt REDUCTION_STEPS_BOUND NORMALIZE_FUEL s) (y : String) :
    D.componentAt realNum y p = fwdG realNum p y e := by
  obtain ⟨d, hnorm, rfl⟩ := differentialNew_early realNum e hnew
  have heve := (evalR_good p e hwf).ok_iff.mpr ⟨hs, hd, rfl⟩
  simp only [DifferentialObj.componentAt, DifferentialObj.component]
  cases hg : SAcc.get? d y with
  | none =>
    simp [PartialObj.new, PartialObj.at, bind, Except.bind, pure, Except.pure]
  | some s' =>
    have := normalizeAll_eval hwf hs hd hnorm hok hg
    simp [PartialObj.new, PartialObj.at, bind, Except.bind, pure, Except.pure, heve, this]

/-! ### restatements with the three accumulator predicates apart -/

/-- `symRev_spec` with `WFA`, `SuppA`, `DomA` separately -/
theorem symRev_spec' (p : Point ℝ) (e : Expr ℝ) (hwf : WF e) (hs : Supp p e)
    (hd : Dom (valOf p) e) (m : Expr ℝ) (acc : SAcc ℝ) (hm1 : WF m) (hm2 : Supp p m)
    (hm3 : Dom (valOf p) m) (ha1 : WFA acc) (ha2 : SuppA p acc) (ha3 : DomA (valOf p) acc) :
    let acc' := symRev realNum e m acc
    WFA acc' ∧ SuppA p acc' ∧ DomA (valOf p) acc' ∧
      ∀ y d, fwdG realNum p y e = .ok d →
        denA (valOf p) acc' y = denA (valOf p) acc y + den (valOf p) m * d := by
  intro acc'
  have h := symRev_spec p e hwf hs hd m acc ⟨hm1, hm2, hm3⟩ ((RevOKA_iff p acc).mpr ⟨ha1, ha2, ha3⟩)
  obtain ⟨h1, h2, h3⟩ := (RevOKA_iff p _).mp h.1
  exact ⟨h1, h2, h3, h.2⟩

/-- the stored expression's value is the true partial derivative -/
theorem syntheticPartials_hasDerivAt {p : Point ℝ} {e : Expr ℝ} (hwf : WF e) (hs : Supp p e)
    (hd : Dom (valOf p) e) {y : String} (hy : y ∈ e.vars) : ∃ s,
      SAcc.get? (syntheticPartials realNum e) y = some s ∧
        HasDerivAt (fun t => den (upd (valOf p) y t) e) (den (valOf p) s) (valOf p y) := by
  obtain ⟨s, hget, _, _, _, hval⟩ := syntheticPartials_sound hwf hs hd y hy
  obtain ⟨d, hfd, hder⟩ := (fwdR_spec p y e hwf).1 hs hd
  exact ⟨s, hget, by rw [hval d hfd]; exact hder⟩

/-! ### a worked run (non-vacuity of the hypotheses about the rewriter)

`e = x · y` : `_synthetic_partials()` stores `Multiply(Constant(1), y)` for `x` and
`Multiply(Constant(1), x)` for `y`; the rewriter takes four steps on each (flag, flag, `mulOnes`,
flag), none of them the K1 rule, and the normal-form pass returns the bare variable. -/

/-- a step that does not report `nrootPow` is allowed -/
theorem symrev_stepOK_of_event {e : Expr ℝ} (h : (stepF realNum e).2 ≠ .rule .nrootPow) :
    StepOK K1FreeAt e := by
  intro r e₀ hr
  by_cases hrr : r = .nrootPow
  · subst hrr; exact absurd ((stepF_event_rule e _).mpr ⟨e₀, hr⟩) h
  · cases r <;> trivial

theorem symrev_runOK_of_red {A : RuleId → Expr ℝ → Prop} {e : Expr ℝ} (h : e.isRed = true) :
    ∀ n, RunOK A n e
  | 0 => trivial
  | _ + 1 => Or.inl h

theorem symrev_runOK_succ {A : RuleId → Expr ℝ → Prop} {n : Nat} {e e' : Expr ℝ} {ev : StepEvent}
    (hst : stepF realNum e = (e', ev)) (hok : StepOK A e) (h : RunOK A n e') :
    RunOK A (n + 1) e := Or.inr ⟨hok, by rw [hst]; exact h⟩

theorem symrev_loop_step {n : Nat} {e e' : Expr ℝ} {ev : StepEvent} {k : Nat}
    {tr : List StepEvent} (hr : e.isRed = false) (hst : stepF realNum e = (e', ev)) :
    fullyReduceLoop realNum (n + 1) e k tr = fullyReduceLoop realNum n e' (k + 1) (ev :: tr) := by
  simp [fullyReduceLoop, hr, hst]

theorem symrev_loop_red {n : Nat} {e : Expr ℝ} {k : Nat} {tr : List StepEvent}
    (hr : e.isRed = true) :
    fullyReduceLoop realNum (n + 1) e k tr = ⟨e, false, k, tr.reverse⟩ := by
  simp [fullyReduceLoop, hr]

/-- the flags of a node the rewriter has marked fully reduced -/
abbrev symrevRed : Flags := { red := true }

theorem symrevEx_partials (x y : String) (hxy : x ≠ y) :
    syntheticPartials realNum (mkMul [mkVar x, mkVar y] : Expr ℝ) =
      [(x, mkMul [mkConst 1, mkVar y]), (y, mkMul [mkConst 1, mkVar x])] := by
  have h1 : (x == y) = false := by simpa using hxy
  have h3 : ¬ y = x := fun h => hxy h.symm
  simp [syntheticPartials, symRev, symRevMul, SAcc.addTo, SAcc.get?, SAcc.set, vars, varsAux,
    varsAuxList, h1, h3, hxy]

theorem symrevEx_step1 (y : String) : stepF realNum (mkMul [mkConst 1, mkVar y] : Expr ℝ) =
    (mkMul [.const symrevRed 1, mkVar y], .flag) := by
  simp [stepF, stepNode, isRed, Expr.flags, foldAttempt, vars, varsAux, varsAuxList,
    stepFirstUnreduced]

theorem symrevEx_step2 (y : String) :
    stepF realNum (mkMul [.const symrevRed 1, mkVar y] : Expr ℝ) =
      (mkMul [.const symrevRed 1, .var symrevRed y], .flag) := by
  simp [stepF, stepNode, isRed, Expr.flags, foldAttempt, vars, varsAux, varsAuxList,
    stepFirstUnreduced]

theorem symrevEx_step3 (y : String) :
    stepF realNum (mkMul [.const symrevRed 1, .var symrevRed y] : Expr ℝ) =
      (mkMul [.var symrevRed y], .rule .mulOnes) := by
  simp [stepF, stepNode, stepTop, isRed, Expr.flags, foldAttempt, vars, varsAux, varsAuxList,
    stepFirstUnreduced, reducers, firstRule, RuleId.apply, ruleMulFlatten, spliceFirst, asMul,
    ruleMulZero, isConstSuch, asConst, ruleMulOnes]

theorem symrevEx_step4 (y : String) : stepF realNum (mkMul [.var symrevRed y] : Expr ℝ) =
    (.mul symrevRed [.var symrevRed y], .flag) := by
  simp [stepF, stepNode, stepTop, isRed, Expr.flags, foldAttempt, vars, varsAux, varsAuxList,
    stepFirstUnreduced, reducers, firstRule, RuleId.apply, ruleMulFlatten, spliceFirst, asMul,
    ruleMulZero, isConstSuch, asConst, ruleMulOnes, ruleMulNegs, asNeg, ruleMulNPows, consolidate,
    asNPow, ruleMulNRoots, asNRoot, ruleMulExps, asExp, ruleMulConsts, markRed, setFlags,
    List.filterMap_cons]

theorem symrevEx_fullyReduce (y : String) :
    fullyReduceWith realNum REDUCTION_STEPS_BOUND (mkMul [mkConst 1, mkVar y] : Expr ℝ) =
      ⟨.mul symrevRed [.var symrevRed y], false, 4, [.flag, .flag, .rule .mulOnes, .flag]⟩ := by
  show fullyReduceLoop realNum (999 + 1) _ 0 [] = _
  rw [symrev_loop_step rfl (symrevEx_step1 y)]
  rw [symrev_loop_step (n := 998) rfl (symrevEx_step2 y),
    symrev_loop_step (n := 997) rfl (symrevEx_step3 y),
    symrev_loop_step (n := 996) rfl (symrevEx_step4 y), symrev_loop_red (n := 995) rfl]
  rfl

theorem symrevEx_fullyReduce_var (b : Nat) (y : String) :
    fullyReduceWith realNum (b + 1) (.var symrevRed y : Expr ℝ) =
      ⟨.var symrevRed y, false, 0, []⟩ := by
  show fullyReduceLoop realNum (b + 1) _ 0 [] = _
  rw [symrev_loop_red rfl]; rfl

theorem symrevEx_normOK_var (A : RuleId → Expr ℝ → Prop) (b : Nat) (y : String) :
    ∀ fuel, NormOK A (b + 1) fuel (.var symrevRed y)
  | 0 => trivial
  | f + 1 => by
    refine ⟨symrev_runOK_of_red rfl _, ?_⟩
    rw [symrevEx_fullyReduce_var]
    cases f <;> trivial

/-- the rewriter's run on `Multiply(Constant(1), y)` performs no K1 rule application -/
theorem symrevEx_normOK (y : String) :
    NormOK K1FreeAt REDUCTION_STEPS_BOUND NORMALIZE_FUEL (mkMul [mkConst 1, mkVar y] : Expr ℝ) := by
  show NormOK K1FreeAt REDUCTION_STEPS_BOUND (99998 + 1 + 1) _
  refine ⟨?_, ?_⟩
  · refine symrev_runOK_succ (n := 999) (symrevEx_step1 y)
      (symrev_stepOK_of_event (by rw [symrevEx_step1]; simp)) ?_
    refine symrev_runOK_succ (n := 998) (symrevEx_step2 y)
      (symrev_stepOK_of_event (by rw [symrevEx_step2]; simp)) ?_
    refine symrev_runOK_succ (n := 997) (symrevEx_step3 y)
      (symrev_stepOK_of_event (by rw [symrevEx_step3]; simp)) ?_
    refine symrev_runOK_succ (n := 996) (symrevEx_step4 y)
      (symrev_stepOK_of_event (by rw [symrevEx_step4]; simp)) ?_
    exact symrev_runOK_of_red rfl _
  · rw [symrevEx_fullyReduce]
    simp only [NormRedOK, List.filter, asRecip, List.filterMap_cons, List.filterMap_nil]
    simp
    exact symrevEx_normOK_var _ 999 _ _

theorem symrevEx_normalizeF (y : String) (f : Nat) :
    normalizeF realNum REDUCTION_STEPS_BOUND (f + 4) (mkMul [mkConst 1, mkVar y] : Expr ℝ) =
      some (mkVar y, false) := by
  have hv : fullyReduceWith realNum REDUCTION_STEPS_BOUND (.var symrevRed y : Expr ℝ) =
      ⟨.var symrevRed y, false, 0, []⟩ := symrevEx_fullyReduce_var 999 y
  simp [normalizeF, normReducedF, symrevEx_fullyReduce, hv, mapM?, asRecip, simplifiedMul,
    List.filterMap_cons]

/-- … and `_normalize()` returns the bare variable, without warning -/
theorem symrevEx_normalize (y : String) :
    normalize realNum (mkMul [mkConst 1, mkVar y] : Expr ℝ) = some (mkVar y, false) :=
  symrevEx_normalizeF y 99996

/-- `Differential(x · y, compute_early=True)` stores `{x: y, y: x}` -/
theorem symrevEx_differential (x y : String) (hxy : x ≠ y) :
    DifferentialObj.new realNum (mkMul [mkVar x, mkVar y] : Expr ℝ) true =
      .ok (⟨mkMul [mkVar x, mkVar y], some [(x, mkVar y), (y, mkVar x)]⟩, false) := by
  simp [DifferentialObj.new, symrevEx_partials x y hxy, normalizeAll, symrevEx_normalize, liftFuel,
    bind, Except.bind, pure, Except.pure]

/-- the side condition of the theorems about the normalised components holds for `x · y` -/
theorem symrevEx_hok (x y : String) (hxy : x ≠ y) : ∀ z s,
    SAcc.get? (syntheticPartials realNum (mkMul [mkVar x, mkVar y] : Expr ℝ)) z = some s →
      NormOK K1FreeAt REDUCTION_STEPS_BOUND NORMALIZE_FUEL s := by
  intro z s h
  rw [symrevEx_partials x y hxy] at h
  simp only [SAcc.get?] at h
  split at h
  · injection h with h; subst h; exact symrevEx_normOK y
  · split at h
    · injection h with h; subst h; exact symrevEx_normOK x
    · cases h

end Smooth
