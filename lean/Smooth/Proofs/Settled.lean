/-
Proofs/Settled — the flags the driver sets are honest, everywhere in the tree.

`Settled N e`: every flagged node of `e` (at any depth) has no applicable rule of its class at its
root and only flagged children.  Expressions as the constructors build them (no flag set) are settled;
every rule, constant folding, the congruence step and the flag step preserve it; so when the loop
ends on a flagged root, *every* node is flagged and no rule applies *anywhere* (property C11).
-/
import Smooth.Proofs.Measure

namespace Smooth
open Expr
variable {α : Type}

/-- the operands of a node -/
def children : Expr α → List (Expr α)
  | .const _ _ | .var _ _ => []
  | .add _ as | .mul _ as => as
  | .minus _ l r | .div _ l r | .pow _ l r => [l, r]
  | .neg _ u | .recip _ u | .npow _ u _ | .nroot _ u _ | .exp _ u _ | .log _ u _ | .cos _ u
  | .sin _ u => [u]

/-- `Sub s e`: `s` is a node of `e` (with everything below it) -/
inductive Sub : Expr α → Expr α → Prop
  | refl (e : Expr α) : Sub e e
  | child {s c e : Expr α} : c ∈ children e → Sub s c → Sub s e

theorem Sub.trans {a b c : Expr α} (h1 : Sub a b) (h2 : Sub b c) : Sub a c := by
  induction h2 with
  | refl => exact h1
  | child hc _ ih => exact Sub.child hc ih

/-- what a flag promises about the node that carries it -/
def Honest (N : Num α) (s : Expr α) : Prop :=
  firstRule N s (reducers s) = none ∧ ∀ c ∈ children s, c.isRed = true

def Settled (N : Num α) (e : Expr α) : Prop :=
  ∀ s, Sub s e → s.isRed = true → Honest N s

theorem settled_iff (N : Num α) (e : Expr α) :
    Settled N e ↔ (e.isRed = true → Honest N e) ∧ ∀ c ∈ children e, Settled N c := by
  constructor
  · intro h
    exact ⟨h e (Sub.refl e), fun c hc s hs => h s (Sub.child hc hs)⟩
  · rintro ⟨h1, h2⟩ s hs
    cases hs with
    | refl => exact h1
    | child hc hs => exact h2 _ hc s hs

theorem Settled.sub {N : Num α} {e s : Expr α} (h : Settled N e) (hs : Sub s e) : Settled N s :=
  fun t ht => h t (ht.trans hs)

theorem Settled.child {N : Num α} {e c : Expr α} (h : Settled N e) (hc : c ∈ children e) :
    Settled N c :=
  h.sub (Sub.child hc (Sub.refl c))

theorem settled_of_unflagged (N : Num α) {e : Expr α} (h : e.isRed = false) :
    Settled N e ↔ ∀ c ∈ children e, Settled N c := by
  rw [settled_iff]
  simp [h]

theorem children_setFlags (g : Flags) (e : Expr α) : children (e.setFlags g) = children e := by
  cases e <;> rfl

theorem honest_setFlags (N : Num α) (g : Flags) (e : Expr α) :
    Honest N (e.setFlags g) ↔ Honest N e := by
  unfold Honest
  rw [firstRule_setFlags, children_setFlags]

theorem settled_setFlags (N : Num α) (g : Flags) (e : Expr α) :
    Settled N (e.setFlags g) ↔ (g.red = true → Honest N e) ∧ ∀ c ∈ children e, Settled N c := by
  rw [settled_iff, children_setFlags, honest_setFlags, isRed, flags_setFlags]

/-- in a settled expression with a flagged root, every node is flagged and rule-free -/
theorem Settled.all_of_isRed {N : Num α} {e : Expr α} (h : Settled N e) (hr : e.isRed = true) :
    ∀ s, Sub s e → s.isRed = true ∧ firstRule N s (reducers s) = none := by
  intro s hs
  induction hs with
  | refl => exact ⟨hr, (h _ (Sub.refl _) hr).1⟩
  | child hc _ ih =>
    exact ih (h.child hc) ((h _ (Sub.refl _) hr).2 _ hc)


/-! ### fresh nodes, and taking a settled node apart -/

section Nodes
variable (N : Num α)

@[simp] theorem settled_mkConst (v : α) : Settled N (mkConst v) := by
  rw [settled_of_unflagged N rfl]; simp [children]
@[simp] theorem settled_mkAdd (as : List (Expr α)) :
    Settled N (mkAdd as) ↔ ∀ a ∈ as, Settled N a := by
  rw [settled_of_unflagged N rfl]; simp [children]
@[simp] theorem settled_mkMul (as : List (Expr α)) :
    Settled N (mkMul as) ↔ ∀ a ∈ as, Settled N a := by
  rw [settled_of_unflagged N rfl]; simp [children]
@[simp] theorem settled_mkMinus (l r : Expr α) :
    Settled N (mkMinus l r) ↔ Settled N l ∧ Settled N r := by
  rw [settled_of_unflagged N rfl]; simp [children]
@[simp] theorem settled_mkDiv (l r : Expr α) :
    Settled N (mkDiv l r) ↔ Settled N l ∧ Settled N r := by
  rw [settled_of_unflagged N rfl]; simp [children]
@[simp] theorem settled_mkPow (l r : Expr α) :
    Settled N (mkPow l r) ↔ Settled N l ∧ Settled N r := by
  rw [settled_of_unflagged N rfl]; simp [children]
@[simp] theorem settled_mkNeg (u : Expr α) : Settled N (mkNeg u) ↔ Settled N u := by
  rw [settled_of_unflagged N rfl]; simp [children]
@[simp] theorem settled_mkRecip (u : Expr α) : Settled N (mkRecip u) ↔ Settled N u := by
  rw [settled_of_unflagged N rfl]; simp [children]
@[simp] theorem settled_mkNPow (u : Expr α) (n : Nat) : Settled N (mkNPow u n) ↔ Settled N u := by
  rw [settled_of_unflagged N rfl]; simp [children]
@[simp] theorem settled_mkNRoot (u : Expr α) (n : Nat) : Settled N (mkNRoot u n) ↔ Settled N u := by
  rw [settled_of_unflagged N rfl]; simp [children]
@[simp] theorem settled_mkExp (u : Expr α) (b : α) : Settled N (mkExp u b) ↔ Settled N u := by
  rw [settled_of_unflagged N rfl]; simp [children]
@[simp] theorem settled_mkLog (u : Expr α) (b : α) : Settled N (mkLog u b) ↔ Settled N u := by
  rw [settled_of_unflagged N rfl]; simp [children]
@[simp] theorem settled_mkCos (u : Expr α) : Settled N (mkCos u) ↔ Settled N u := by
  rw [settled_of_unflagged N rfl]; simp [children]
@[simp] theorem settled_mkSin (u : Expr α) : Settled N (mkSin u) ↔ Settled N u := by
  rw [settled_of_unflagged N rfl]; simp [children]

variable {N}
variable {f : Flags} {u l r : Expr α} {as : List (Expr α)} {n : Nat} {b : α}

theorem Settled.add_inv (h : Settled N (.add f as)) : ∀ a ∈ as, Settled N a :=
  fun _ ha => h.child ha
theorem Settled.mul_inv (h : Settled N (.mul f as)) : ∀ a ∈ as, Settled N a :=
  fun _ ha => h.child ha
theorem Settled.minus_inv (h : Settled N (.minus f l r)) : Settled N l ∧ Settled N r :=
  ⟨h.child (by simp [children]), h.child (by simp [children])⟩
theorem Settled.div_inv (h : Settled N (.div f l r)) : Settled N l ∧ Settled N r :=
  ⟨h.child (by simp [children]), h.child (by simp [children])⟩
theorem Settled.pow_inv (h : Settled N (.pow f l r)) : Settled N l ∧ Settled N r :=
  ⟨h.child (by simp [children]), h.child (by simp [children])⟩
theorem Settled.neg_inv (h : Settled N (.neg f u)) : Settled N u := h.child (by simp [children])
theorem Settled.recip_inv (h : Settled N (.recip f u)) : Settled N u := h.child (by simp [children])
theorem Settled.npow_inv (h : Settled N (.npow f u n)) : Settled N u := h.child (by simp [children])
theorem Settled.nroot_inv (h : Settled N (.nroot f u n)) : Settled N u :=
  h.child (by simp [children])
theorem Settled.exp_inv (h : Settled N (.exp f u b)) : Settled N u := h.child (by simp [children])
theorem Settled.log_inv (h : Settled N (.log f u b)) : Settled N u := h.child (by simp [children])
theorem Settled.cos_inv (h : Settled N (.cos f u)) : Settled N u := h.child (by simp [children])
theorem Settled.sin_inv (h : Settled N (.sin f u)) : Settled N u := h.child (by simp [children])

end Nodes

/-! ### what the list operations of the rules keep -/

theorem forall_spliceFirst (P : Expr α → Prop) (sel : Expr α → Option (List (Expr α)))
    (hsel : ∀ e inner, sel e = some inner → P e → ∀ x ∈ inner, P x) :
    ∀ as as', spliceFirst sel as = some as' → (∀ a ∈ as, P a) → ∀ a ∈ as', P a
  | [], as', h, _ => by simp [spliceFirst] at h
  | e :: es, as', h, hP => by
    unfold spliceFirst at h
    cases hs : sel e with
    | some inner =>
      simp only [hs, Option.some.injEq] at h
      subst h
      intro a ha
      rcases List.mem_append.mp ha with ha | ha
      · exact hsel e inner hs (hP e List.mem_cons_self) a ha
      · exact hP a (List.mem_cons_of_mem _ ha)
    | none =>
      simp only [hs, Option.map_eq_some_iff] at h
      obtain ⟨es', h1, rfl⟩ := h
      intro a ha
      rcases List.mem_cons.mp ha with rfl | ha
      · exact hP _ List.mem_cons_self
      · exact forall_spliceFirst P sel hsel es es' h1
          (fun x hx => hP x (List.mem_cons_of_mem _ hx)) a ha

section Group
variable {κ β : Type}

theorem forall_groupInsert (Q : β → Prop) (eq : κ → κ → Bool) (k : κ) (v : β) (hv : Q v) :
    ∀ G : List (κ × List β), (∀ g ∈ G, ∀ w ∈ g.2, Q w) →
      ∀ g ∈ groupInsert eq k v G, ∀ w ∈ g.2, Q w
  | [], _ => by simp [groupInsert, hv]
  | (k', vs) :: rest, hG => by
    have ih := forall_groupInsert Q eq k v hv rest
      (fun g hg => hG g (List.mem_cons_of_mem _ hg))
    have h0 := hG (k', vs) List.mem_cons_self
    unfold groupInsert
    by_cases hk : eq k' k
    · simp only [hk, if_true]
      intro g hg w hw
      rcases List.mem_cons.mp hg with rfl | hg
      · rcases List.mem_append.mp hw with hw | hw
        · exact h0 w hw
        · simp only [List.mem_singleton] at hw; subst hw; exact hv
      · exact hG g (List.mem_cons_of_mem _ hg) w hw
    · simp only [hk]
      intro g hg w hw
      rcases List.mem_cons.mp hg with rfl | hg
      · exact h0 w hw
      · exact ih g hg w hw

theorem forall_foldl_groupInsert (Q : β → Prop) (eq : κ → κ → Bool) :
    ∀ (items : List (κ × β)) (acc : List (κ × List β)), (∀ kv ∈ items, Q kv.2) →
      (∀ g ∈ acc, ∀ w ∈ g.2, Q w) →
      ∀ g ∈ items.foldl (fun g kv => groupInsert eq kv.1 kv.2 g) acc, ∀ w ∈ g.2, Q w
  | [], acc, _, h => by simpa using h
  | kv :: items, acc, hi, h => by
    simp only [List.foldl_cons]
    exact forall_foldl_groupInsert Q eq items _ (fun x hx => hi x (List.mem_cons_of_mem _ hx))
      (forall_groupInsert Q eq kv.1 kv.2 (hi kv List.mem_cons_self) acc h)

theorem forall_groupByKey (Q : β → Prop) (eq : κ → κ → Bool) (items : List (κ × β))
    (hi : ∀ kv ∈ items, Q kv.2) : ∀ g ∈ groupByKey eq items, ∀ w ∈ g.2, Q w :=
  forall_foldl_groupInsert Q eq items [] hi (by simp)

end Group

theorem forall_consolidate {κ : Type} (P : Expr α → Prop) (sel : Expr α → Option (κ × Expr α))
    (eq : κ → κ → Bool) (build : κ → List (Expr α) → Expr α)
    (hsel : ∀ e k u, sel e = some (k, u) → P e → P u)
    (hbuild : ∀ k vs, (∀ v ∈ vs, P v) → P (build k vs))
    (as as' : List (Expr α)) (h : consolidate sel eq build as = some as') (hP : ∀ a ∈ as, P a) :
    ∀ a ∈ as', P a := by
  unfold consolidate at h
  simp only at h
  split at h
  · cases h
  split at h
  · cases h
  obtain rfl := Option.some.inj h
  intro a ha
  rcases List.mem_append.mp ha with ha | ha
  · exact hP a (List.mem_filter.mp ha).1
  · obtain ⟨g, hg, rfl⟩ := List.mem_map.mp ha
    apply hbuild
    refine forall_groupByKey P eq (as.filterMap sel) ?_ g hg
    intro kv hkv
    obtain ⟨e, he, hse⟩ := List.mem_filterMap.mp hkv
    exact hsel e kv.1 kv.2 hse (hP e he)


/-! ### every rule keeps the expression settled -/

section Rules
variable {N : Num α} {e e' : Expr α}

theorem ruleAddFlatten_settled (h : ruleAddFlatten e = some e') (hs : Settled N e) :
    Settled N e' := by
  unfold ruleAddFlatten at h
  split at h
  · simp only [Option.map_eq_some_iff] at h
    obtain ⟨as', h1, rfl⟩ := h
    rw [settled_mkAdd]
    refine forall_spliceFirst (Settled N) asAdd ?_ _ _ h1 hs.add_inv
    intro e inner he hP
    cases e <;> simp [asAdd] at he
    subst he; exact hP.add_inv
  · cases h

theorem ruleAddZeros_settled (h : ruleAddZeros N e = some e') (hs : Settled N e) :
    Settled N e' := by
  unfold ruleAddZeros at h
  split at h
  · simp only at h
    split at h
    · cases h
    · obtain rfl := Option.some.inj h
      rw [settled_mkAdd]
      exact fun a ha => hs.add_inv a (List.mem_filter.mp ha).1
  · cases h

theorem ruleAddLogs_settled (h : ruleAddLogs N e = some e') (hs : Settled N e) :
    Settled N e' := by
  unfold ruleAddLogs at h
  split at h
  · simp only [Option.map_eq_some_iff] at h
    obtain ⟨as', h1, rfl⟩ := h
    rw [settled_mkAdd]
    refine forall_consolidate (Settled N) asLog N.eq _ ?_ ?_ _ _ h1 hs.add_inv
    · intro e k u he hP
      cases e <;> simp [asLog] at he
      obtain ⟨rfl, rfl⟩ := he; exact hP.log_inv
    · intro k vs hv; simpa using hv
  · cases h

theorem ruleAddConsts_settled (h : ruleAddConsts N e = some e') (hs : Settled N e) :
    Settled N e' := by
  unfold ruleAddConsts at h
  split at h
  · simp only at h
    split at h
    · cases h
    · obtain rfl := Option.some.inj h
      rw [settled_mkAdd]
      intro a ha
      rcases List.mem_append.mp ha with ha | ha
      · exact hs.add_inv a (List.mem_filter.mp ha).1
      · simp only [List.mem_singleton] at ha; subst ha; simp
  · cases h

theorem ruleMinusToSum_settled (h : ruleMinusToSum e = some e') (hs : Settled N e) :
    Settled N e' := by
  unfold ruleMinusToSum at h
  split at h
  · obtain rfl := Option.some.inj h
    simpa using hs.minus_inv
  · cases h

theorem ruleNegNeg_settled (h : ruleNegNeg e = some e') (hs : Settled N e) : Settled N e' := by
  unfold ruleNegNeg at h
  split at h
  · obtain rfl := Option.some.inj h
    exact hs.neg_inv.neg_inv
  · cases h

theorem ruleNegSum_settled (h : ruleNegSum e = some e') (hs : Settled N e) : Settled N e' := by
  unfold ruleNegSum at h
  split at h
  · obtain rfl := Option.some.inj h
    simpa using hs.neg_inv.add_inv
  · cases h

theorem ruleMulFlatten_settled (h : ruleMulFlatten e = some e') (hs : Settled N e) :
    Settled N e' := by
  unfold ruleMulFlatten at h
  split at h
  · simp only [Option.map_eq_some_iff] at h
    obtain ⟨as', h1, rfl⟩ := h
    rw [settled_mkMul]
    refine forall_spliceFirst (Settled N) asMul ?_ _ _ h1 hs.mul_inv
    intro e inner he hP
    cases e <;> simp [asMul] at he
    subst he; exact hP.mul_inv
  · cases h

theorem ruleMulZero_settled (h : ruleMulZero N e = some e') (_hs : Settled N e) :
    Settled N e' := by
  unfold ruleMulZero at h
  split at h
  · split at h
    · obtain rfl := Option.some.inj h; simp
    · cases h
  · cases h

theorem ruleMulOnes_settled (h : ruleMulOnes N e = some e') (hs : Settled N e) :
    Settled N e' := by
  unfold ruleMulOnes at h
  split at h
  · simp only at h
    split at h
    · cases h
    · obtain rfl := Option.some.inj h
      rw [settled_mkMul]
      exact fun a ha => hs.mul_inv a (List.mem_filter.mp ha).1
  · cases h

theorem mem_filterMap_asNeg {as : List (Expr α)} (has : ∀ a ∈ as, Settled N a) :
    ∀ u ∈ as.filterMap asNeg, Settled N u := by
  intro u hu
  obtain ⟨a, ha, hau⟩ := List.mem_filterMap.mp hu
  cases a <;> simp [asNeg] at hau
  subst hau; exact (has _ ha).neg_inv

theorem ruleMulNegs_settled (h : ruleMulNegs N e = some e') (hs : Settled N e) :
    Settled N e' := by
  unfold ruleMulNegs at h
  split at h
  · simp only at h
    have h1 := mem_filterMap_asNeg hs.mul_inv
    split at h
    · cases h
    · split at h
      · obtain rfl := Option.some.inj h
        rw [settled_mkMul]
        intro a ha
        rcases List.mem_append.mp ha with ha | ha
        · exact hs.mul_inv a (List.mem_filter.mp ha).1
        · exact h1 a ha
      · obtain rfl := Option.some.inj h
        rw [settled_mkMul]
        intro a ha
        rcases List.mem_append.mp ha with ha | ha
        · rcases List.mem_append.mp ha with ha | ha
          · exact hs.mul_inv a (List.mem_filter.mp ha).1
          · exact h1 a ha
        · simp only [List.mem_singleton] at ha; subst ha; simp
  · cases h

theorem ruleMulNPows_settled (h : ruleMulNPows e = some e') (hs : Settled N e) :
    Settled N e' := by
  unfold ruleMulNPows at h
  split at h
  · simp only [Option.map_eq_some_iff] at h
    obtain ⟨as', h1, rfl⟩ := h
    rw [settled_mkMul]
    refine forall_consolidate (Settled N) asNPow _ _ ?_ ?_ _ _ h1 hs.mul_inv
    · intro e k u he hP
      cases e <;> simp [asNPow] at he
      obtain ⟨rfl, rfl⟩ := he; exact hP.npow_inv
    · intro k vs hv; simpa using hv
  · cases h

theorem ruleMulNRoots_settled (h : ruleMulNRoots e = some e') (hs : Settled N e) :
    Settled N e' := by
  unfold ruleMulNRoots at h
  split at h
  · simp only [Option.map_eq_some_iff] at h
    obtain ⟨as', h1, rfl⟩ := h
    rw [settled_mkMul]
    refine forall_consolidate (Settled N) asNRoot _ _ ?_ ?_ _ _ h1 hs.mul_inv
    · intro e k u he hP
      cases e <;> simp [asNRoot] at he
      obtain ⟨rfl, rfl⟩ := he; exact hP.nroot_inv
    · intro k vs hv; simpa using hv
  · cases h

theorem ruleMulExps_settled (h : ruleMulExps N e = some e') (hs : Settled N e) :
    Settled N e' := by
  unfold ruleMulExps at h
  split at h
  · simp only [Option.map_eq_some_iff] at h
    obtain ⟨as', h1, rfl⟩ := h
    rw [settled_mkMul]
    refine forall_consolidate (Settled N) asExp N.eq _ ?_ ?_ _ _ h1 hs.mul_inv
    · intro e k u he hP
      cases e <;> simp [asExp] at he
      obtain ⟨rfl, rfl⟩ := he; exact hP.exp_inv
    · intro k vs hv; simpa using hv
  · cases h

theorem ruleMulConsts_settled (h : ruleMulConsts N e = some e') (hs : Settled N e) :
    Settled N e' := by
  unfold ruleMulConsts at h
  split at h
  · simp only at h
    split at h
    · cases h
    · obtain rfl := Option.some.inj h
      rw [settled_mkMul]
      intro a ha
      rcases List.mem_append.mp ha with ha | ha
      · exact hs.mul_inv a (List.mem_filter.mp ha).1
      · simp only [List.mem_singleton] at ha; subst ha; simp
  · cases h

theorem ruleDivToMul_settled (h : ruleDivToMul e = some e') (hs : Settled N e) :
    Settled N e' := by
  unfold ruleDivToMul at h
  split at h
  · obtain rfl := Option.some.inj h
    simpa using hs.div_inv
  · cases h

theorem ruleRecipRecip_settled (h : ruleRecipRecip e = some e') (hs : Settled N e) :
    Settled N e' := by
  unfold ruleRecipRecip at h
  split at h
  · obtain rfl := Option.some.inj h
    exact hs.recip_inv.recip_inv
  · cases h

theorem ruleRecipNeg_settled (h : ruleRecipNeg e = some e') (hs : Settled N e) :
    Settled N e' := by
  unfold ruleRecipNeg at h
  split at h
  · obtain rfl := Option.some.inj h
    simpa using hs.recip_inv.neg_inv
  · cases h

theorem ruleRecipProd_settled (h : ruleRecipProd e = some e') (hs : Settled N e) :
    Settled N e' := by
  unfold ruleRecipProd at h
  split at h
  · obtain rfl := Option.some.inj h
    simpa using hs.recip_inv.mul_inv
  · cases h

theorem rulePowOne_settled (h : rulePowOne N e = some e') (hs : Settled N e) :
    Settled N e' := by
  unfold rulePowOne at h
  split at h
  · split at h
    · obtain rfl := Option.some.inj h; exact hs.pow_inv.1
    · cases h
  · cases h

theorem rulePowZero_settled (h : rulePowZero N e = some e') (_hs : Settled N e) :
    Settled N e' := by
  unfold rulePowZero at h
  split at h
  · split at h
    · obtain rfl := Option.some.inj h; simp
    · cases h
  · cases h

theorem ruleOnePow_settled (h : ruleOnePow N e = some e') (_hs : Settled N e) :
    Settled N e' := by
  unfold ruleOnePow at h
  split at h
  · split at h
    · obtain rfl := Option.some.inj h; simp
    · cases h
  · cases h

theorem rulePowNat_settled (h : rulePowNat N e = some e') (hs : Settled N e) :
    Settled N e' := by
  unfold rulePowNat at h
  split at h
  · split at h
    · split at h
      · obtain rfl := Option.some.inj h; simpa using hs.pow_inv.1
      · cases h
    · cases h
  · cases h

theorem rulePowNegOne_settled (h : rulePowNegOne N e = some e') (hs : Settled N e) :
    Settled N e' := by
  unfold rulePowNegOne at h
  split at h
  · split at h
    · obtain rfl := Option.some.inj h; simpa using hs.pow_inv.1
    · cases h
  · cases h

theorem rulePowConstBase_settled (h : rulePowConstBase N e = some e') (hs : Settled N e) :
    Settled N e' := by
  unfold rulePowConstBase at h
  split at h
  · split at h
    · obtain rfl := Option.some.inj h; simpa using hs.pow_inv.2
    · cases h
  · cases h

theorem rulePowPow_settled (h : rulePowPow e = some e') (hs : Settled N e) : Settled N e' := by
  unfold rulePowPow at h
  split at h
  · obtain rfl := Option.some.inj h
    have h1 := hs.pow_inv
    have h2 := h1.1.pow_inv
    simp [h1.2, h2.1, h2.2]
  · cases h

theorem rulePowNegExp_settled (h : rulePowNegExp e = some e') (hs : Settled N e) :
    Settled N e' := by
  unfold rulePowNegExp at h
  split at h
  · obtain rfl := Option.some.inj h
    have h1 := hs.pow_inv
    simp [h1.1, h1.2.neg_inv]
  · cases h

theorem rulePowRecipBase_settled (h : rulePowRecipBase e = some e') (hs : Settled N e) :
    Settled N e' := by
  unfold rulePowRecipBase at h
  split at h
  · obtain rfl := Option.some.inj h
    have h1 := hs.pow_inv
    simp [h1.2, h1.1.recip_inv]
  · cases h

theorem ruleNPowOne_settled (h : ruleNPowOne e = some e') (hs : Settled N e) : Settled N e' := by
  unfold ruleNPowOne at h
  split at h
  · split at h
    · obtain rfl := Option.some.inj h; exact hs.npow_inv
    · cases h
  · cases h

theorem ruleNPowRoot_settled (h : ruleNPowRoot e = some e') (hs : Settled N e) :
    Settled N e' := by
  unfold ruleNPowRoot at h
  split at h
  · split at h
    · obtain rfl := Option.some.inj h; exact hs.npow_inv.nroot_inv
    · simp only at h
      split at h
      · obtain rfl := Option.some.inj h; simpa using hs.npow_inv.nroot_inv
      · cases h
  · cases h

theorem ruleNPowPow_settled (h : ruleNPowPow e = some e') (hs : Settled N e) : Settled N e' := by
  unfold ruleNPowPow at h
  split at h
  · obtain rfl := Option.some.inj h; simpa using hs.npow_inv.npow_inv
  · cases h

theorem ruleNPowNeg_settled (h : ruleNPowNeg e = some e') (hs : Settled N e) : Settled N e' := by
  unfold ruleNPowNeg at h
  split at h
  · split at h
    · obtain rfl := Option.some.inj h; simpa using hs.npow_inv.neg_inv
    · obtain rfl := Option.some.inj h; simpa using hs.npow_inv.neg_inv
  · cases h

theorem ruleNPowRecip_settled (h : ruleNPowRecip e = some e') (hs : Settled N e) :
    Settled N e' := by
  unfold ruleNPowRecip at h
  split at h
  · obtain rfl := Option.some.inj h; simpa using hs.npow_inv.recip_inv
  · cases h

theorem ruleNPowExp_settled (h : ruleNPowExp N e = some e') (hs : Settled N e) :
    Settled N e' := by
  unfold ruleNPowExp at h
  split at h
  · obtain rfl := Option.some.inj h; simpa using hs.npow_inv.exp_inv
  · cases h

theorem ruleNRootOne_settled (h : ruleNRootOne e = some e') (hs : Settled N e) :
    Settled N e' := by
  unfold ruleNRootOne at h
  split at h
  · split at h
    · obtain rfl := Option.some.inj h; exact hs.nroot_inv
    · cases h
  · cases h

theorem ruleNRootPow_settled (h : ruleNRootPow e = some e') (hs : Settled N e) :
    Settled N e' := by
  unfold ruleNRootPow at h
  split at h
  · obtain rfl := Option.some.inj h; simpa using hs.nroot_inv.npow_inv
  · cases h

theorem ruleNRootRoot_settled (h : ruleNRootRoot e = some e') (hs : Settled N e) :
    Settled N e' := by
  unfold ruleNRootRoot at h
  split at h
  · obtain rfl := Option.some.inj h; simpa using hs.nroot_inv.nroot_inv
  · cases h

theorem ruleNRootNeg_settled (h : ruleNRootNeg e = some e') (hs : Settled N e) :
    Settled N e' := by
  unfold ruleNRootNeg at h
  split at h
  · split at h
    · obtain rfl := Option.some.inj h; simpa using hs.nroot_inv.neg_inv
    · cases h
  · cases h

theorem ruleNRootRecip_settled (h : ruleNRootRecip e = some e') (hs : Settled N e) :
    Settled N e' := by
  unfold ruleNRootRecip at h
  split at h
  · obtain rfl := Option.some.inj h; simpa using hs.nroot_inv.recip_inv
  · cases h

theorem ruleExpLog_settled (h : ruleExpLog N e = some e') (hs : Settled N e) :
    Settled N e' := by
  unfold ruleExpLog at h
  split at h
  · split at h
    · obtain rfl := Option.some.inj h; exact hs.exp_inv.log_inv
    · cases h
  · cases h

theorem ruleExpNeg_settled (h : ruleExpNeg e = some e') (hs : Settled N e) : Settled N e' := by
  unfold ruleExpNeg at h
  split at h
  · obtain rfl := Option.some.inj h; simpa using hs.exp_inv.neg_inv
  · cases h

theorem ruleLogExp_settled (h : ruleLogExp N e = some e') (hs : Settled N e) :
    Settled N e' := by
  unfold ruleLogExp at h
  split at h
  · split at h
    · obtain rfl := Option.some.inj h; exact hs.log_inv.exp_inv
    · cases h
  · cases h

theorem ruleLogRecip_settled (h : ruleLogRecip e = some e') (hs : Settled N e) :
    Settled N e' := by
  unfold ruleLogRecip at h
  split at h
  · obtain rfl := Option.some.inj h; simpa using hs.log_inv.recip_inv
  · cases h

theorem ruleLogNPow_settled (h : ruleLogNPow N e = some e') (hs : Settled N e) :
    Settled N e' := by
  unfold ruleLogNPow at h
  split at h
  · split at h
    · obtain rfl := Option.some.inj h; simpa using hs.log_inv.npow_inv
    · cases h
  · cases h

theorem ruleCosNeg_settled (h : ruleCosNeg e = some e') (hs : Settled N e) : Settled N e' := by
  unfold ruleCosNeg at h
  split at h
  · obtain rfl := Option.some.inj h; simpa using hs.cos_inv.neg_inv
  · cases h

theorem ruleSinNeg_settled (h : ruleSinNeg e = some e') (hs : Settled N e) : Settled N e' := by
  unfold ruleSinNeg at h
  split at h
  · obtain rfl := Option.some.inj h; simpa using hs.sin_inv.neg_inv
  · cases h

end Rules

/-- **every rule keeps the expression settled** -/
theorem rule_settled (N : Num α) (r : RuleId) {e e' : Expr α} (h : r.apply N e = some e')
    (hs : Settled N e) : Settled N e' := by
  cases r <;> simp only [RuleId.apply] at h
  · exact ruleAddFlatten_settled h hs
  · exact ruleAddZeros_settled h hs
  · exact ruleAddLogs_settled h hs
  · exact ruleAddConsts_settled h hs
  · exact ruleMinusToSum_settled h hs
  · exact ruleNegNeg_settled h hs
  · exact ruleNegSum_settled h hs
  · exact ruleMulFlatten_settled h hs
  · exact ruleMulZero_settled h hs
  · exact ruleMulOnes_settled h hs
  · exact ruleMulNegs_settled h hs
  · exact ruleMulNPows_settled h hs
  · exact ruleMulNRoots_settled h hs
  · exact ruleMulExps_settled h hs
  · exact ruleMulConsts_settled h hs
  · exact ruleDivToMul_settled h hs
  · exact ruleRecipRecip_settled h hs
  · exact ruleRecipNeg_settled h hs
  · exact ruleRecipProd_settled h hs
  · exact rulePowOne_settled h hs
  · exact rulePowZero_settled h hs
  · exact ruleOnePow_settled h hs
  · exact rulePowNat_settled h hs
  · exact rulePowNegOne_settled h hs
  · exact rulePowConstBase_settled h hs
  · exact rulePowPow_settled h hs
  · exact rulePowNegExp_settled h hs
  · exact rulePowRecipBase_settled h hs
  · exact ruleNPowOne_settled h hs
  · exact ruleNPowRoot_settled h hs
  · exact ruleNPowPow_settled h hs
  · exact ruleNPowNeg_settled h hs
  · exact ruleNPowRecip_settled h hs
  · exact ruleNPowExp_settled h hs
  · exact ruleNRootOne_settled h hs
  · exact ruleNRootPow_settled h hs
  · exact ruleNRootRoot_settled h hs
  · exact ruleNRootNeg_settled h hs
  · exact ruleNRootRecip_settled h hs
  · exact ruleExpLog_settled h hs
  · exact ruleExpNeg_settled h hs
  · exact ruleLogExp_settled h hs
  · exact ruleLogRecip_settled h hs
  · exact ruleLogNPow_settled h hs
  · exact ruleCosNeg_settled h hs
  · exact ruleSinNeg_settled h hs


/-! ### the driver keeps the expression settled -/

theorem stepFirstUnreduced_none (N : Num α) :
    ∀ as : List (Expr α), stepFirstUnreduced N as = none → ∀ a ∈ as, a.isRed = true
  | [], _ => by simp
  | e :: es, h => by
    rw [stepFirstUnreduced] at h
    split at h
    · cases h
    · rename_i he
      simp only [Option.map_eq_none_iff] at h
      intro a ha
      rcases List.mem_cons.mp ha with rfl | ha
      · simpa using he
      · exact stepFirstUnreduced_none N es h a ha

theorem settled_markFailed {N : Num α} {e : Expr α} (hs : Settled N e) : Settled N e.markFailed := by
  unfold markFailed
  rw [settled_setFlags]
  exact ⟨fun h => hs e (Sub.refl e) h, fun c hc => hs.child hc⟩

theorem stepTop_settled (N : Num α) {e : Expr α} (hs : Settled N e)
    (hall : ∀ c ∈ children e, c.isRed = true) : Settled N (stepTop N e).1 := by
  unfold stepTop
  split
  · rename_i r e' hr
    exact rule_settled N r (firstRule_some_m N e _ r e' hr) hs
  · rename_i hnone
    unfold markRed
    rw [settled_setFlags]
    exact ⟨fun _ => ⟨hnone, hall⟩, fun c hc => hs.child hc⟩

theorem children_markFailed (e : Expr α) : children e.markFailed = children e :=
  children_setFlags _ e

theorem stepNode_settled (N : Num α) {self : Expr α} (sc : Unit → Option (Expr α × StepEvent))
    (hs : Settled N self) (hchild : ∀ r, sc () = some r → Settled N r.1)
    (hnone : sc () = none → ∀ c ∈ children self, c.isRed = true) :
    Settled N (stepNode N self sc).1 := by
  unfold stepNode
  split
  · exact hs
  · split
    · simp
    · cases hsc : sc () with
      | some r => exact hchild r hsc
      | none =>
        simp only
        split
        · exact stepTop_settled N (settled_markFailed hs)
            (by rw [children_markFailed]; exact hnone hsc)
        · exact stepTop_settled N hs (hnone hsc)

mutual
/-- **one step keeps the expression settled** -/
theorem stepF_settled (N : Num α) : ∀ e : Expr α, Settled N e → Settled N (stepF N e).1
  | .const f v, _ => by
    rw [stepF, settled_iff]
    simp [children, Honest, reducers, firstRule]
  | .var f x, _ => by
    rw [stepF, settled_iff]
    simp [children, Honest, reducers, firstRule]
  | .add f as, hs => by
    rw [stepF]
    refine stepNode_settled N _ hs ?_ ?_
    · intro q hq
      simp only [Option.map_eq_some_iff] at hq
      obtain ⟨p, hp, rfl⟩ := hq
      simpa using stepFirstUnreduced_settled N as p hp hs.add_inv
    · intro hq c hc
      simp only [Option.map_eq_none_iff] at hq
      exact stepFirstUnreduced_none N as hq c hc
  | .mul f as, hs => by
    rw [stepF]
    refine stepNode_settled N _ hs ?_ ?_
    · intro q hq
      simp only [Option.map_eq_some_iff] at hq
      obtain ⟨p, hp, rfl⟩ := hq
      simpa using stepFirstUnreduced_settled N as p hp hs.mul_inv
    · intro hq c hc
      simp only [Option.map_eq_none_iff] at hq
      exact stepFirstUnreduced_none N as hq c hc
  | .minus f l r, hs => by
    rw [stepF]
    refine stepNode_settled N _ hs ?_ ?_
    · intro q hq
      simp only at hq
      split at hq
      · obtain rfl := Option.some.inj hq
        simpa using ⟨stepF_settled N l hs.minus_inv.1, hs.minus_inv.2⟩
      · split at hq
        · obtain rfl := Option.some.inj hq
          simpa using ⟨hs.minus_inv.1, stepF_settled N r hs.minus_inv.2⟩
        · cases hq
    · intro hq c hc
      simp only at hq
      split at hq
      · cases hq
      · rename_i hl
        split at hq
        · cases hq
        · rename_i hr
          simp only [children, List.mem_cons, List.not_mem_nil, or_false] at hc
          rcases hc with rfl | rfl
          · simpa using hl
          · simpa using hr
  | .div f l r, hs => by
    rw [stepF]
    refine stepNode_settled N _ hs ?_ ?_
    · intro q hq
      simp only at hq
      split at hq
      · obtain rfl := Option.some.inj hq
        simpa using ⟨stepF_settled N l hs.div_inv.1, hs.div_inv.2⟩
      · split at hq
        · obtain rfl := Option.some.inj hq
          simpa using ⟨hs.div_inv.1, stepF_settled N r hs.div_inv.2⟩
        · cases hq
    · intro hq c hc
      simp only at hq
      split at hq
      · cases hq
      · rename_i hl
        split at hq
        · cases hq
        · rename_i hr
          simp only [children, List.mem_cons, List.not_mem_nil, or_false] at hc
          rcases hc with rfl | rfl
          · simpa using hl
          · simpa using hr
  | .pow f l r, hs => by
    rw [stepF]
    refine stepNode_settled N _ hs ?_ ?_
    · intro q hq
      simp only at hq
      split at hq
      · obtain rfl := Option.some.inj hq
        simpa using ⟨stepF_settled N l hs.pow_inv.1, hs.pow_inv.2⟩
      · split at hq
        · obtain rfl := Option.some.inj hq
          simpa using ⟨hs.pow_inv.1, stepF_settled N r hs.pow_inv.2⟩
        · cases hq
    · intro hq c hc
      simp only at hq
      split at hq
      · cases hq
      · rename_i hl
        split at hq
        · cases hq
        · rename_i hr
          simp only [children, List.mem_cons, List.not_mem_nil, or_false] at hc
          rcases hc with rfl | rfl
          · simpa using hl
          · simpa using hr
  | .neg f u, hs => by
    rw [stepF]
    refine stepNode_settled N _ hs ?_ ?_
    · intro q hq
      simp only at hq
      split at hq
      · obtain rfl := Option.some.inj hq
        simpa using stepF_settled N u hs.neg_inv
      · cases hq
    · intro hq c hc
      simp only at hq
      split at hq
      · cases hq
      · rename_i hu
        simp only [children, List.mem_singleton] at hc
        subst hc; simpa using hu
  | .recip f u, hs => by
    rw [stepF]
    refine stepNode_settled N _ hs ?_ ?_
    · intro q hq
      simp only at hq
      split at hq
      · obtain rfl := Option.some.inj hq
        simpa using stepF_settled N u hs.recip_inv
      · cases hq
    · intro hq c hc
      simp only at hq
      split at hq
      · cases hq
      · rename_i hu
        simp only [children, List.mem_singleton] at hc
        subst hc; simpa using hu
  | .npow f u n, hs => by
    rw [stepF]
    refine stepNode_settled N _ hs ?_ ?_
    · intro q hq
      simp only at hq
      split at hq
      · obtain rfl := Option.some.inj hq
        simpa using stepF_settled N u hs.npow_inv
      · cases hq
    · intro hq c hc
      simp only at hq
      split at hq
      · cases hq
      · rename_i hu
        simp only [children, List.mem_singleton] at hc
        subst hc; simpa using hu
  | .nroot f u n, hs => by
    rw [stepF]
    refine stepNode_settled N _ hs ?_ ?_
    · intro q hq
      simp only at hq
      split at hq
      · obtain rfl := Option.some.inj hq
        simpa using stepF_settled N u hs.nroot_inv
      · cases hq
    · intro hq c hc
      simp only at hq
      split at hq
      · cases hq
      · rename_i hu
        simp only [children, List.mem_singleton] at hc
        subst hc; simpa using hu
  | .exp f u b, hs => by
    rw [stepF]
    refine stepNode_settled N _ hs ?_ ?_
    · intro q hq
      simp only at hq
      split at hq
      · obtain rfl := Option.some.inj hq
        simpa using stepF_settled N u hs.exp_inv
      · cases hq
    · intro hq c hc
      simp only at hq
      split at hq
      · cases hq
      · rename_i hu
        simp only [children, List.mem_singleton] at hc
        subst hc; simpa using hu
  | .log f u b, hs => by
    rw [stepF]
    refine stepNode_settled N _ hs ?_ ?_
    · intro q hq
      simp only at hq
      split at hq
      · obtain rfl := Option.some.inj hq
        simpa using stepF_settled N u hs.log_inv
      · cases hq
    · intro hq c hc
      simp only at hq
      split at hq
      · cases hq
      · rename_i hu
        simp only [children, List.mem_singleton] at hc
        subst hc; simpa using hu
  | .cos f u, hs => by
    rw [stepF]
    refine stepNode_settled N _ hs ?_ ?_
    · intro q hq
      simp only at hq
      split at hq
      · obtain rfl := Option.some.inj hq
        simpa using stepF_settled N u hs.cos_inv
      · cases hq
    · intro hq c hc
      simp only at hq
      split at hq
      · cases hq
      · rename_i hu
        simp only [children, List.mem_singleton] at hc
        subst hc; simpa using hu
  | .sin f u, hs => by
    rw [stepF]
    refine stepNode_settled N _ hs ?_ ?_
    · intro q hq
      simp only at hq
      split at hq
      · obtain rfl := Option.some.inj hq
        simpa using stepF_settled N u hs.sin_inv
      · cases hq
    · intro hq c hc
      simp only at hq
      split at hq
      · cases hq
      · rename_i hu
        simp only [children, List.mem_singleton] at hc
        subst hc; simpa using hu
theorem stepFirstUnreduced_settled (N : Num α) :
    ∀ (as : List (Expr α)) (p : List (Expr α) × StepEvent), stepFirstUnreduced N as = some p →
      (∀ a ∈ as, Settled N a) → ∀ a ∈ p.1, Settled N a
  | [], p, h, _ => by simp [stepFirstUnreduced] at h
  | e :: es, p, h, hs => by
    rw [stepFirstUnreduced] at h
    split at h
    · obtain rfl := Option.some.inj h
      intro a ha
      rcases List.mem_cons.mp ha with rfl | ha
      · exact stepF_settled N e (hs e List.mem_cons_self)
      · exact hs a (List.mem_cons_of_mem _ ha)
    · simp only [Option.map_eq_some_iff] at h
      obtain ⟨q, hq, rfl⟩ := h
      intro a ha
      rcases List.mem_cons.mp ha with rfl | ha
      · exact hs _ List.mem_cons_self
      · exact stepFirstUnreduced_settled N es q hq
          (fun x hx => hs x (List.mem_cons_of_mem _ hx)) a ha
end

/-! ### consequences -/

theorem stepE_settled (N : Num α) {e : Expr α} (hs : Settled N e) : Settled N (stepE N e) :=
  stepF_settled N e hs

theorem iterate_settled (N : Num α) {e : Expr α} (hs : Settled N e) :
    ∀ k, Settled N ((stepE N)^[k] e)
  | 0 => hs
  | k + 1 => by
    rw [Function.iterate_succ_apply']
    exact stepE_settled N (iterate_settled N hs k)

theorem fullyReduceLoop_settled (N : Num α) :
    ∀ (fuel : Nat) (e : Expr α) (k : Nat) (tr : List StepEvent), Settled N e →
      (fullyReduceLoop N fuel e k tr).warned = false →
      Settled N (fullyReduceLoop N fuel e k tr).expr
  | 0, e, k, tr, _, hw => by simp [fullyReduceLoop] at hw
  | fuel + 1, e, k, tr, hs, hw => by
    unfold fullyReduceLoop at hw ⊢
    split
    · exact hs
    · rename_i he
      simp only [he] at hw
      exact fullyReduceLoop_settled N fuel _ _ _ (stepF_settled N e hs) hw

/-- an expression without any flag (in particular: as the constructors build it) is settled -/
theorem settled_of_no_flag (N : Num α) {e : Expr α} (h : ∀ s, Sub s e → s.isRed = false) :
    Settled N e := by
  intro s hs hr
  rw [h s hs] at hr; cases hr

mutual
theorem sub_fresh_unflagged : ∀ (e s : Expr α), Sub s e.fresh → s.isRed = false
  | .const _ _, s, h => by
    cases h with
    | refl => rfl
    | child hc _ => simp [fresh, children] at hc
  | .var _ _, s, h => by
    cases h with
    | refl => rfl
    | child hc _ => simp [fresh, children] at hc
  | .add _ as, s, h => by
    cases h with
    | refl => rfl
    | child hc hs => exact sub_freshList_unflagged as _ s (by simpa [fresh, children] using hc) hs
  | .mul _ as, s, h => by
    cases h with
    | refl => rfl
    | child hc hs => exact sub_freshList_unflagged as _ s (by simpa [fresh, children] using hc) hs
  | .minus _ l r, s, h => by
    cases h with
    | refl => rfl
    | child hc hs =>
      simp only [fresh, children, List.mem_cons, List.not_mem_nil, or_false] at hc
      rcases hc with rfl | rfl
      · exact sub_fresh_unflagged l s hs
      · exact sub_fresh_unflagged r s hs
  | .div _ l r, s, h => by
    cases h with
    | refl => rfl
    | child hc hs =>
      simp only [fresh, children, List.mem_cons, List.not_mem_nil, or_false] at hc
      rcases hc with rfl | rfl
      · exact sub_fresh_unflagged l s hs
      · exact sub_fresh_unflagged r s hs
  | .pow _ l r, s, h => by
    cases h with
    | refl => rfl
    | child hc hs =>
      simp only [fresh, children, List.mem_cons, List.not_mem_nil, or_false] at hc
      rcases hc with rfl | rfl
      · exact sub_fresh_unflagged l s hs
      · exact sub_fresh_unflagged r s hs
  | .neg _ u, s, h => by
    cases h with
    | refl => rfl
    | child hc hs =>
      simp only [fresh, children, List.mem_singleton] at hc
      subst hc; exact sub_fresh_unflagged u s hs
  | .recip _ u, s, h => by
    cases h with
    | refl => rfl
    | child hc hs =>
      simp only [fresh, children, List.mem_singleton] at hc
      subst hc; exact sub_fresh_unflagged u s hs
  | .npow _ u _, s, h => by
    cases h with
    | refl => rfl
    | child hc hs =>
      simp only [fresh, children, List.mem_singleton] at hc
      subst hc; exact sub_fresh_unflagged u s hs
  | .nroot _ u _, s, h => by
    cases h with
    | refl => rfl
    | child hc hs =>
      simp only [fresh, children, List.mem_singleton] at hc
      subst hc; exact sub_fresh_unflagged u s hs
  | .exp _ u _, s, h => by
    cases h with
    | refl => rfl
    | child hc hs =>
      simp only [fresh, children, List.mem_singleton] at hc
      subst hc; exact sub_fresh_unflagged u s hs
  | .log _ u _, s, h => by
    cases h with
    | refl => rfl
    | child hc hs =>
      simp only [fresh, children, List.mem_singleton] at hc
      subst hc; exact sub_fresh_unflagged u s hs
  | .cos _ u, s, h => by
    cases h with
    | refl => rfl
    | child hc hs =>
      simp only [fresh, children, List.mem_singleton] at hc
      subst hc; exact sub_fresh_unflagged u s hs
  | .sin _ u, s, h => by
    cases h with
    | refl => rfl
    | child hc hs =>
      simp only [fresh, children, List.mem_singleton] at hc
      subst hc; exact sub_fresh_unflagged u s hs
theorem sub_freshList_unflagged : ∀ (as : List (Expr α)) (c s : Expr α), c ∈ freshList as →
    Sub s c → s.isRed = false
  | [], c, s, hc, _ => by simp [freshList] at hc
  | a :: as, c, s, hc, hs => by
    simp only [freshList, List.mem_cons] at hc
    rcases hc with rfl | hc
    · exact sub_fresh_unflagged a s hs
    · exact sub_freshList_unflagged as c s hc hs
end

theorem settled_fresh (N : Num α) (e : Expr α) : Settled N e.fresh :=
  settled_of_no_flag N (sub_fresh_unflagged e)

end Smooth
