/-
Proofs/FlagSound — what the two reduction memo flags promise (`FlagsSound`), and that every one of the
46 rules keeps the promise: the nodes of the rewritten expression are nodes of the old one or fresh.

`red` (`_is_fully_reduced`): no rule of the node's class applies at its root, every child is flagged,
and constant folding does not succeed at the node.  `failed` (`_evaluation_failed`): the node is
variable-free and evaluating it raises `DomainError`.  `FlagsSound N e`: this holds of every node of
`e`, at any depth.  Generic in the number record `N`.
-/
import Smooth.Proofs.FlagFresh

namespace Smooth
open Expr
variable {α : Type}

/-- constant folding (`_consolidate_expression_lacking_variables`) does not succeed at `s` -/
def NoFold (N : Num α) (s : Expr α) : Prop :=
  s.vars.isEmpty = true → isConstNode s = false → ∀ v, evalG N [] s ≠ .ok v

/-- `s` is variable-free and its evaluation raises `DomainError` -/
def ReallyFails (N : Num α) (s : Expr α) : Prop :=
  s.vars.isEmpty = true ∧ evalG N [] s = .error .domain

/-- what the two flags of the node `s` promise about `s` -/
def NodeSound (N : Num α) (s : Expr α) : Prop :=
  (s.isRed = true → Honest N s ∧ NoFold N s) ∧ (s.flags.failed = true → ReallyFails N s)

/-- every flag in `e`, at any depth, keeps its promise -/
def FlagsSound (N : Num α) (e : Expr α) : Prop :=
  ∀ s, Sub s e → NodeSound N s

theorem FlagsSound.settled {N : Num α} {e : Expr α} (h : FlagsSound N e) : Settled N e :=
  fun s hs hr => ((h s hs).1 hr).1

theorem flagsSound_iff (N : Num α) (e : Expr α) :
    FlagsSound N e ↔ NodeSound N e ∧ ∀ c ∈ children e, FlagsSound N c := by
  constructor
  · intro h
    exact ⟨h e (Sub.refl e), fun c hc s hs => h s (Sub.child hc hs)⟩
  · rintro ⟨h1, h2⟩ s hs
    cases hs with
    | refl => exact h1
    | child hc hs => exact h2 _ hc s hs

theorem FlagsSound.sub {N : Num α} {e s : Expr α} (h : FlagsSound N e) (hs : Sub s e) :
    FlagsSound N s :=
  fun t ht => h t (ht.trans hs)

theorem FlagsSound.child {N : Num α} {e c : Expr α} (h : FlagsSound N e) (hc : c ∈ children e) :
    FlagsSound N c :=
  h.sub (Sub.child hc (Sub.refl c))

theorem nodeSound_of_default (N : Num α) {e : Expr α} (h : e.flags = {}) : NodeSound N e := by
  constructor
  · intro hr; simp [isRed, h] at hr
  · intro hf; simp [h] at hf

theorem flagsSound_of_default (N : Num α) {e : Expr α} (h : e.flags = {}) :
    FlagsSound N e ↔ ∀ c ∈ children e, FlagsSound N c := by
  rw [flagsSound_iff]
  exact ⟨fun h' => h'.2, fun h' => ⟨nodeSound_of_default N h, h'⟩⟩

theorem noFold_setFlags (N : Num α) (g : Flags) (e : Expr α) :
    NoFold N (e.setFlags g) ↔ NoFold N e := by
  unfold NoFold
  rw [ff_vars_setFlags, ff_isConstNode_setFlags, ff_evalG_setFlags]

theorem reallyFails_setFlags (N : Num α) (g : Flags) (e : Expr α) :
    ReallyFails N (e.setFlags g) ↔ ReallyFails N e := by
  unfold ReallyFails
  rw [ff_vars_setFlags, ff_evalG_setFlags]

theorem nodeSound_setFlags (N : Num α) (g : Flags) (e : Expr α) :
    NodeSound N (e.setFlags g) ↔
      (g.red = true → Honest N e ∧ NoFold N e) ∧ (g.failed = true → ReallyFails N e) := by
  unfold NodeSound
  rw [honest_setFlags, noFold_setFlags, reallyFails_setFlags, isRed, flags_setFlags]

theorem flagsSound_setFlags (N : Num α) (g : Flags) (e : Expr α) :
    FlagsSound N (e.setFlags g) ↔
      ((g.red = true → Honest N e ∧ NoFold N e) ∧ (g.failed = true → ReallyFails N e)) ∧
        ∀ c ∈ children e, FlagsSound N c := by
  rw [flagsSound_iff, children_setFlags, nodeSound_setFlags]

/-! ### fresh nodes, and taking a sound node apart -/

section Nodes
variable (N : Num α)

@[simp] theorem flagsSound_mkConst (v : α) : FlagsSound N (mkConst v) := by
  rw [flagsSound_of_default N rfl]; simp [children]
@[simp] theorem flagsSound_mkAdd (as : List (Expr α)) :
    FlagsSound N (mkAdd as) ↔ ∀ a ∈ as, FlagsSound N a := by
  rw [flagsSound_of_default N rfl]; simp [children]
@[simp] theorem flagsSound_mkMul (as : List (Expr α)) :
    FlagsSound N (mkMul as) ↔ ∀ a ∈ as, FlagsSound N a := by
  rw [flagsSound_of_default N rfl]; simp [children]
@[simp] theorem flagsSound_mkMinus (l r : Expr α) :
    FlagsSound N (mkMinus l r) ↔ FlagsSound N l ∧ FlagsSound N r := by
  rw [flagsSound_of_default N rfl]; simp [children]
@[simp] theorem flagsSound_mkDiv (l r : Expr α) :
    FlagsSound N (mkDiv l r) ↔ FlagsSound N l ∧ FlagsSound N r := by
  rw [flagsSound_of_default N rfl]; simp [children]
@[simp] theorem flagsSound_mkPow (l r : Expr α) :
    FlagsSound N (mkPow l r) ↔ FlagsSound N l ∧ FlagsSound N r := by
  rw [flagsSound_of_default N rfl]; simp [children]
@[simp] theorem flagsSound_mkNeg (u : Expr α) : FlagsSound N (mkNeg u) ↔ FlagsSound N u := by
  rw [flagsSound_of_default N rfl]; simp [children]
@[simp] theorem flagsSound_mkRecip (u : Expr α) : FlagsSound N (mkRecip u) ↔ FlagsSound N u := by
  rw [flagsSound_of_default N rfl]; simp [children]
@[simp] theorem flagsSound_mkNPow (u : Expr α) (n : Nat) : FlagsSound N (mkNPow u n) ↔ FlagsSound N u := by
  rw [flagsSound_of_default N rfl]; simp [children]
@[simp] theorem flagsSound_mkNRoot (u : Expr α) (n : Nat) : FlagsSound N (mkNRoot u n) ↔ FlagsSound N u := by
  rw [flagsSound_of_default N rfl]; simp [children]
@[simp] theorem flagsSound_mkExp (u : Expr α) (b : α) : FlagsSound N (mkExp u b) ↔ FlagsSound N u := by
  rw [flagsSound_of_default N rfl]; simp [children]
@[simp] theorem flagsSound_mkLog (u : Expr α) (b : α) : FlagsSound N (mkLog u b) ↔ FlagsSound N u := by
  rw [flagsSound_of_default N rfl]; simp [children]
@[simp] theorem flagsSound_mkCos (u : Expr α) : FlagsSound N (mkCos u) ↔ FlagsSound N u := by
  rw [flagsSound_of_default N rfl]; simp [children]
@[simp] theorem flagsSound_mkSin (u : Expr α) : FlagsSound N (mkSin u) ↔ FlagsSound N u := by
  rw [flagsSound_of_default N rfl]; simp [children]

variable {N}
variable {f : Flags} {u l r : Expr α} {as : List (Expr α)} {n : Nat} {b : α}

theorem FlagsSound.add_inv (h : FlagsSound N (.add f as)) : ∀ a ∈ as, FlagsSound N a :=
  fun _ ha => h.child ha
theorem FlagsSound.mul_inv (h : FlagsSound N (.mul f as)) : ∀ a ∈ as, FlagsSound N a :=
  fun _ ha => h.child ha
theorem FlagsSound.minus_inv (h : FlagsSound N (.minus f l r)) : FlagsSound N l ∧ FlagsSound N r :=
  ⟨h.child (by simp [children]), h.child (by simp [children])⟩
theorem FlagsSound.div_inv (h : FlagsSound N (.div f l r)) : FlagsSound N l ∧ FlagsSound N r :=
  ⟨h.child (by simp [children]), h.child (by simp [children])⟩
theorem FlagsSound.pow_inv (h : FlagsSound N (.pow f l r)) : FlagsSound N l ∧ FlagsSound N r :=
  ⟨h.child (by simp [children]), h.child (by simp [children])⟩
theorem FlagsSound.neg_inv (h : FlagsSound N (.neg f u)) : FlagsSound N u := h.child (by simp [children])
theorem FlagsSound.recip_inv (h : FlagsSound N (.recip f u)) : FlagsSound N u := h.child (by simp [children])
theorem FlagsSound.npow_inv (h : FlagsSound N (.npow f u n)) : FlagsSound N u := h.child (by simp [children])
theorem FlagsSound.nroot_inv (h : FlagsSound N (.nroot f u n)) : FlagsSound N u :=
  h.child (by simp [children])
theorem FlagsSound.exp_inv (h : FlagsSound N (.exp f u b)) : FlagsSound N u := h.child (by simp [children])
theorem FlagsSound.log_inv (h : FlagsSound N (.log f u b)) : FlagsSound N u := h.child (by simp [children])
theorem FlagsSound.cos_inv (h : FlagsSound N (.cos f u)) : FlagsSound N u := h.child (by simp [children])
theorem FlagsSound.sin_inv (h : FlagsSound N (.sin f u)) : FlagsSound N u := h.child (by simp [children])

end Nodes

/-! ### every rule keeps the flagging sound -/

/-! ### every rule keeps the flagging sound -/

section Rules
variable {N : Num α} {e e' : Expr α}

theorem ruleAddFlatten_flagsSound (h : ruleAddFlatten e = some e') (hs : FlagsSound N e) :
    FlagsSound N e' := by
  unfold ruleAddFlatten at h
  split at h
  · simp only [Option.map_eq_some_iff] at h
    obtain ⟨as', h1, rfl⟩ := h
    rw [flagsSound_mkAdd]
    refine forall_spliceFirst (FlagsSound N) asAdd ?_ _ _ h1 hs.add_inv
    intro e inner he hP
    cases e <;> simp [asAdd] at he
    subst he; exact hP.add_inv
  · cases h

theorem ruleAddZeros_flagsSound (h : ruleAddZeros N e = some e') (hs : FlagsSound N e) :
    FlagsSound N e' := by
  unfold ruleAddZeros at h
  split at h
  · simp only at h
    split at h
    · cases h
    · obtain rfl := Option.some.inj h
      rw [flagsSound_mkAdd]
      exact fun a ha => hs.add_inv a (List.mem_filter.mp ha).1
  · cases h

theorem ruleAddLogs_flagsSound (h : ruleAddLogs N e = some e') (hs : FlagsSound N e) :
    FlagsSound N e' := by
  unfold ruleAddLogs at h
  split at h
  · simp only [Option.map_eq_some_iff] at h
    obtain ⟨as', h1, rfl⟩ := h
    rw [flagsSound_mkAdd]
    refine forall_consolidate (FlagsSound N) asLog N.eq _ ?_ ?_ _ _ h1 hs.add_inv
    · intro e k u he hP
      cases e <;> simp [asLog] at he
      obtain ⟨rfl, rfl⟩ := he; exact hP.log_inv
    · intro k vs hv; simpa using hv
  · cases h

theorem ruleAddConsts_flagsSound (h : ruleAddConsts N e = some e') (hs : FlagsSound N e) :
    FlagsSound N e' := by
  unfold ruleAddConsts at h
  split at h
  · simp only at h
    split at h
    · cases h
    · obtain rfl := Option.some.inj h
      rw [flagsSound_mkAdd]
      intro a ha
      rcases List.mem_append.mp ha with ha | ha
      · exact hs.add_inv a (List.mem_filter.mp ha).1
      · simp only [List.mem_singleton] at ha; subst ha; simp
  · cases h

theorem ruleMinusToSum_flagsSound (h : ruleMinusToSum e = some e') (hs : FlagsSound N e) :
    FlagsSound N e' := by
  unfold ruleMinusToSum at h
  split at h
  · obtain rfl := Option.some.inj h
    simpa using hs.minus_inv
  · cases h

theorem ruleNegNeg_flagsSound (h : ruleNegNeg e = some e') (hs : FlagsSound N e) : FlagsSound N e' := by
  unfold ruleNegNeg at h
  split at h
  · obtain rfl := Option.some.inj h
    exact hs.neg_inv.neg_inv
  · cases h

theorem ruleNegSum_flagsSound (h : ruleNegSum e = some e') (hs : FlagsSound N e) : FlagsSound N e' := by
  unfold ruleNegSum at h
  split at h
  · obtain rfl := Option.some.inj h
    simpa using hs.neg_inv.add_inv
  · cases h

theorem ruleMulFlatten_flagsSound (h : ruleMulFlatten e = some e') (hs : FlagsSound N e) :
    FlagsSound N e' := by
  unfold ruleMulFlatten at h
  split at h
  · simp only [Option.map_eq_some_iff] at h
    obtain ⟨as', h1, rfl⟩ := h
    rw [flagsSound_mkMul]
    refine forall_spliceFirst (FlagsSound N) asMul ?_ _ _ h1 hs.mul_inv
    intro e inner he hP
    cases e <;> simp [asMul] at he
    subst he; exact hP.mul_inv
  · cases h

theorem ruleMulZero_flagsSound (h : ruleMulZero N e = some e') (_hs : FlagsSound N e) :
    FlagsSound N e' := by
  unfold ruleMulZero at h
  split at h
  · split at h
    · obtain rfl := Option.some.inj h; simp
    · cases h
  · cases h

theorem ruleMulOnes_flagsSound (h : ruleMulOnes N e = some e') (hs : FlagsSound N e) :
    FlagsSound N e' := by
  unfold ruleMulOnes at h
  split at h
  · simp only at h
    split at h
    · cases h
    · obtain rfl := Option.some.inj h
      rw [flagsSound_mkMul]
      exact fun a ha => hs.mul_inv a (List.mem_filter.mp ha).1
  · cases h

theorem fs_mem_filterMap_asNeg {as : List (Expr α)} (has : ∀ a ∈ as, FlagsSound N a) :
    ∀ u ∈ as.filterMap asNeg, FlagsSound N u := by
  intro u hu
  obtain ⟨a, ha, hau⟩ := List.mem_filterMap.mp hu
  cases a <;> simp [asNeg] at hau
  subst hau; exact (has _ ha).neg_inv

theorem ruleMulNegs_flagsSound (h : ruleMulNegs N e = some e') (hs : FlagsSound N e) :
    FlagsSound N e' := by
  unfold ruleMulNegs at h
  split at h
  · simp only at h
    have h1 := fs_mem_filterMap_asNeg hs.mul_inv
    split at h
    · cases h
    · split at h
      · obtain rfl := Option.some.inj h
        rw [flagsSound_mkMul]
        intro a ha
        rcases List.mem_append.mp ha with ha | ha
        · exact hs.mul_inv a (List.mem_filter.mp ha).1
        · exact h1 a ha
      · obtain rfl := Option.some.inj h
        rw [flagsSound_mkMul]
        intro a ha
        rcases List.mem_append.mp ha with ha | ha
        · rcases List.mem_append.mp ha with ha | ha
          · exact hs.mul_inv a (List.mem_filter.mp ha).1
          · exact h1 a ha
        · simp only [List.mem_singleton] at ha; subst ha; simp
  · cases h

theorem ruleMulNPows_flagsSound (h : ruleMulNPows e = some e') (hs : FlagsSound N e) :
    FlagsSound N e' := by
  unfold ruleMulNPows at h
  split at h
  · simp only [Option.map_eq_some_iff] at h
    obtain ⟨as', h1, rfl⟩ := h
    rw [flagsSound_mkMul]
    refine forall_consolidate (FlagsSound N) asNPow _ _ ?_ ?_ _ _ h1 hs.mul_inv
    · intro e k u he hP
      cases e <;> simp [asNPow] at he
      obtain ⟨rfl, rfl⟩ := he; exact hP.npow_inv
    · intro k vs hv; simpa using hv
  · cases h

theorem ruleMulNRoots_flagsSound (h : ruleMulNRoots e = some e') (hs : FlagsSound N e) :
    FlagsSound N e' := by
  unfold ruleMulNRoots at h
  split at h
  · simp only [Option.map_eq_some_iff] at h
    obtain ⟨as', h1, rfl⟩ := h
    rw [flagsSound_mkMul]
    refine forall_consolidate (FlagsSound N) asNRoot _ _ ?_ ?_ _ _ h1 hs.mul_inv
    · intro e k u he hP
      cases e <;> simp [asNRoot] at he
      obtain ⟨rfl, rfl⟩ := he; exact hP.nroot_inv
    · intro k vs hv; simpa using hv
  · cases h

theorem ruleMulExps_flagsSound (h : ruleMulExps N e = some e') (hs : FlagsSound N e) :
    FlagsSound N e' := by
  unfold ruleMulExps at h
  split at h
  · simp only [Option.map_eq_some_iff] at h
    obtain ⟨as', h1, rfl⟩ := h
    rw [flagsSound_mkMul]
    refine forall_consolidate (FlagsSound N) asExp N.eq _ ?_ ?_ _ _ h1 hs.mul_inv
    · intro e k u he hP
      cases e <;> simp [asExp] at he
      obtain ⟨rfl, rfl⟩ := he; exact hP.exp_inv
    · intro k vs hv; simpa using hv
  · cases h

theorem ruleMulConsts_flagsSound (h : ruleMulConsts N e = some e') (hs : FlagsSound N e) :
    FlagsSound N e' := by
  unfold ruleMulConsts at h
  split at h
  · simp only at h
    split at h
    · cases h
    · obtain rfl := Option.some.inj h
      rw [flagsSound_mkMul]
      intro a ha
      rcases List.mem_append.mp ha with ha | ha
      · exact hs.mul_inv a (List.mem_filter.mp ha).1
      · simp only [List.mem_singleton] at ha; subst ha; simp
  · cases h

theorem ruleDivToMul_flagsSound (h : ruleDivToMul e = some e') (hs : FlagsSound N e) :
    FlagsSound N e' := by
  unfold ruleDivToMul at h
  split at h
  · obtain rfl := Option.some.inj h
    simpa using hs.div_inv
  · cases h

theorem ruleRecipRecip_flagsSound (h : ruleRecipRecip e = some e') (hs : FlagsSound N e) :
    FlagsSound N e' := by
  unfold ruleRecipRecip at h
  split at h
  · obtain rfl := Option.some.inj h
    exact hs.recip_inv.recip_inv
  · cases h

theorem ruleRecipNeg_flagsSound (h : ruleRecipNeg e = some e') (hs : FlagsSound N e) :
    FlagsSound N e' := by
  unfold ruleRecipNeg at h
  split at h
  · obtain rfl := Option.some.inj h
    simpa using hs.recip_inv.neg_inv
  · cases h

theorem ruleRecipProd_flagsSound (h : ruleRecipProd e = some e') (hs : FlagsSound N e) :
    FlagsSound N e' := by
  unfold ruleRecipProd at h
  split at h
  · obtain rfl := Option.some.inj h
    simpa using hs.recip_inv.mul_inv
  · cases h

theorem rulePowOne_flagsSound (h : rulePowOne N e = some e') (hs : FlagsSound N e) :
    FlagsSound N e' := by
  unfold rulePowOne at h
  split at h
  · split at h
    · obtain rfl := Option.some.inj h; exact hs.pow_inv.1
    · cases h
  · cases h

theorem rulePowZero_flagsSound (h : rulePowZero N e = some e') (_hs : FlagsSound N e) :
    FlagsSound N e' := by
  unfold rulePowZero at h
  split at h
  · split at h
    · obtain rfl := Option.some.inj h; simp
    · cases h
  · cases h

theorem ruleOnePow_flagsSound (h : ruleOnePow N e = some e') (_hs : FlagsSound N e) :
    FlagsSound N e' := by
  unfold ruleOnePow at h
  split at h
  · split at h
    · obtain rfl := Option.some.inj h; simp
    · cases h
  · cases h

theorem rulePowNat_flagsSound (h : rulePowNat N e = some e') (hs : FlagsSound N e) :
    FlagsSound N e' := by
  unfold rulePowNat at h
  split at h
  · split at h
    · split at h
      · obtain rfl := Option.some.inj h; simpa using hs.pow_inv.1
      · cases h
    · cases h
  · cases h

theorem rulePowNegOne_flagsSound (h : rulePowNegOne N e = some e') (hs : FlagsSound N e) :
    FlagsSound N e' := by
  unfold rulePowNegOne at h
  split at h
  · split at h
    · obtain rfl := Option.some.inj h; simpa using hs.pow_inv.1
    · cases h
  · cases h

theorem rulePowConstBase_flagsSound (h : rulePowConstBase N e = some e') (hs : FlagsSound N e) :
    FlagsSound N e' := by
  unfold rulePowConstBase at h
  split at h
  · split at h
    · obtain rfl := Option.some.inj h; simpa using hs.pow_inv.2
    · cases h
  · cases h

theorem rulePowPow_flagsSound (h : rulePowPow e = some e') (hs : FlagsSound N e) : FlagsSound N e' := by
  unfold rulePowPow at h
  split at h
  · obtain rfl := Option.some.inj h
    have h1 := hs.pow_inv
    have h2 := h1.1.pow_inv
    simp [h1.2, h2.1, h2.2]
  · cases h

theorem rulePowNegExp_flagsSound (h : rulePowNegExp e = some e') (hs : FlagsSound N e) :
    FlagsSound N e' := by
  unfold rulePowNegExp at h
  split at h
  · obtain rfl := Option.some.inj h
    have h1 := hs.pow_inv
    simp [h1.1, h1.2.neg_inv]
  · cases h

theorem rulePowRecipBase_flagsSound (h : rulePowRecipBase e = some e') (hs : FlagsSound N e) :
    FlagsSound N e' := by
  unfold rulePowRecipBase at h
  split at h
  · obtain rfl := Option.some.inj h
    have h1 := hs.pow_inv
    simp [h1.2, h1.1.recip_inv]
  · cases h

theorem ruleNPowOne_flagsSound (h : ruleNPowOne e = some e') (hs : FlagsSound N e) : FlagsSound N e' := by
  unfold ruleNPowOne at h
  split at h
  · split at h
    · obtain rfl := Option.some.inj h; exact hs.npow_inv
    · cases h
  · cases h

theorem ruleNPowRoot_flagsSound (h : ruleNPowRoot e = some e') (hs : FlagsSound N e) :
    FlagsSound N e' := by
  unfold ruleNPowRoot at h
  split at h
  · split at h
    · obtain rfl := Option.some.inj h; exact hs.npow_inv.nroot_inv
    · simp only at h
      split at h
      · obtain rfl := Option.some.inj h; simpa using hs.npow_inv.nroot_inv
      · cases h
  · cases h

theorem ruleNPowPow_flagsSound (h : ruleNPowPow e = some e') (hs : FlagsSound N e) : FlagsSound N e' := by
  unfold ruleNPowPow at h
  split at h
  · obtain rfl := Option.some.inj h; simpa using hs.npow_inv.npow_inv
  · cases h

theorem ruleNPowNeg_flagsSound (h : ruleNPowNeg e = some e') (hs : FlagsSound N e) : FlagsSound N e' := by
  unfold ruleNPowNeg at h
  split at h
  · split at h
    · obtain rfl := Option.some.inj h; simpa using hs.npow_inv.neg_inv
    · obtain rfl := Option.some.inj h; simpa using hs.npow_inv.neg_inv
  · cases h

theorem ruleNPowRecip_flagsSound (h : ruleNPowRecip e = some e') (hs : FlagsSound N e) :
    FlagsSound N e' := by
  unfold ruleNPowRecip at h
  split at h
  · obtain rfl := Option.some.inj h; simpa using hs.npow_inv.recip_inv
  · cases h

theorem ruleNPowExp_flagsSound (h : ruleNPowExp N e = some e') (hs : FlagsSound N e) :
    FlagsSound N e' := by
  unfold ruleNPowExp at h
  split at h
  · obtain rfl := Option.some.inj h; simpa using hs.npow_inv.exp_inv
  · cases h

theorem ruleNRootOne_flagsSound (h : ruleNRootOne e = some e') (hs : FlagsSound N e) :
    FlagsSound N e' := by
  unfold ruleNRootOne at h
  split at h
  · split at h
    · obtain rfl := Option.some.inj h; exact hs.nroot_inv
    · cases h
  · cases h

theorem ruleNRootPow_flagsSound (h : ruleNRootPow e = some e') (hs : FlagsSound N e) :
    FlagsSound N e' := by
  unfold ruleNRootPow at h
  split at h
  · obtain rfl := Option.some.inj h; simpa using hs.nroot_inv.npow_inv
  · cases h

theorem ruleNRootRoot_flagsSound (h : ruleNRootRoot e = some e') (hs : FlagsSound N e) :
    FlagsSound N e' := by
  unfold ruleNRootRoot at h
  split at h
  · obtain rfl := Option.some.inj h; simpa using hs.nroot_inv.nroot_inv
  · cases h

theorem ruleNRootNeg_flagsSound (h : ruleNRootNeg e = some e') (hs : FlagsSound N e) :
    FlagsSound N e' := by
  unfold ruleNRootNeg at h
  split at h
  · split at h
    · obtain rfl := Option.some.inj h; simpa using hs.nroot_inv.neg_inv
    · cases h
  · cases h

theorem ruleNRootRecip_flagsSound (h : ruleNRootRecip e = some e') (hs : FlagsSound N e) :
    FlagsSound N e' := by
  unfold ruleNRootRecip at h
  split at h
  · obtain rfl := Option.some.inj h; simpa using hs.nroot_inv.recip_inv
  · cases h

theorem ruleExpLog_flagsSound (h : ruleExpLog N e = some e') (hs : FlagsSound N e) :
    FlagsSound N e' := by
  unfold ruleExpLog at h
  split at h
  · split at h
    · obtain rfl := Option.some.inj h; exact hs.exp_inv.log_inv
    · cases h
  · cases h

theorem ruleExpNeg_flagsSound (h : ruleExpNeg e = some e') (hs : FlagsSound N e) : FlagsSound N e' := by
  unfold ruleExpNeg at h
  split at h
  · obtain rfl := Option.some.inj h; simpa using hs.exp_inv.neg_inv
  · cases h

theorem ruleLogExp_flagsSound (h : ruleLogExp N e = some e') (hs : FlagsSound N e) :
    FlagsSound N e' := by
  unfold ruleLogExp at h
  split at h
  · split at h
    · obtain rfl := Option.some.inj h; exact hs.log_inv.exp_inv
    · cases h
  · cases h

theorem ruleLogRecip_flagsSound (h : ruleLogRecip e = some e') (hs : FlagsSound N e) :
    FlagsSound N e' := by
  unfold ruleLogRecip at h
  split at h
  · obtain rfl := Option.some.inj h; simpa using hs.log_inv.recip_inv
  · cases h

theorem ruleLogNPow_flagsSound (h : ruleLogNPow N e = some e') (hs : FlagsSound N e) :
    FlagsSound N e' := by
  unfold ruleLogNPow at h
  split at h
  · split at h
    · obtain rfl := Option.some.inj h; simpa using hs.log_inv.npow_inv
    · cases h
  · cases h

theorem ruleCosNeg_flagsSound (h : ruleCosNeg e = some e') (hs : FlagsSound N e) : FlagsSound N e' := by
  unfold ruleCosNeg at h
  split at h
  · obtain rfl := Option.some.inj h; simpa using hs.cos_inv.neg_inv
  · cases h

theorem ruleSinNeg_flagsSound (h : ruleSinNeg e = some e') (hs : FlagsSound N e) : FlagsSound N e' := by
  unfold ruleSinNeg at h
  split at h
  · obtain rfl := Option.some.inj h; simpa using hs.sin_inv.neg_inv
  · cases h

end Rules

/-- **every rule keeps the flagging sound** -/
theorem rule_flagsSound (N : Num α) (r : RuleId) {e e' : Expr α} (h : r.apply N e = some e')
    (hs : FlagsSound N e) : FlagsSound N e' := by
  cases r <;> simp only [RuleId.apply] at h
  · exact ruleAddFlatten_flagsSound h hs
  · exact ruleAddZeros_flagsSound h hs
  · exact ruleAddLogs_flagsSound h hs
  · exact ruleAddConsts_flagsSound h hs
  · exact ruleMinusToSum_flagsSound h hs
  · exact ruleNegNeg_flagsSound h hs
  · exact ruleNegSum_flagsSound h hs
  · exact ruleMulFlatten_flagsSound h hs
  · exact ruleMulZero_flagsSound h hs
  · exact ruleMulOnes_flagsSound h hs
  · exact ruleMulNegs_flagsSound h hs
  · exact ruleMulNPows_flagsSound h hs
  · exact ruleMulNRoots_flagsSound h hs
  · exact ruleMulExps_flagsSound h hs
  · exact ruleMulConsts_flagsSound h hs
  · exact ruleDivToMul_flagsSound h hs
  · exact ruleRecipRecip_flagsSound h hs
  · exact ruleRecipNeg_flagsSound h hs
  · exact ruleRecipProd_flagsSound h hs
  · exact rulePowOne_flagsSound h hs
  · exact rulePowZero_flagsSound h hs
  · exact ruleOnePow_flagsSound h hs
  · exact rulePowNat_flagsSound h hs
  · exact rulePowNegOne_flagsSound h hs
  · exact rulePowConstBase_flagsSound h hs
  · exact rulePowPow_flagsSound h hs
  · exact rulePowNegExp_flagsSound h hs
  · exact rulePowRecipBase_flagsSound h hs
  · exact ruleNPowOne_flagsSound h hs
  · exact ruleNPowRoot_flagsSound h hs
  · exact ruleNPowPow_flagsSound h hs
  · exact ruleNPowNeg_flagsSound h hs
  · exact ruleNPowRecip_flagsSound h hs
  · exact ruleNPowExp_flagsSound h hs
  · exact ruleNRootOne_flagsSound h hs
  · exact ruleNRootPow_flagsSound h hs
  · exact ruleNRootRoot_flagsSound h hs
  · exact ruleNRootNeg_flagsSound h hs
  · exact ruleNRootRecip_flagsSound h hs
  · exact ruleExpLog_flagsSound h hs
  · exact ruleExpNeg_flagsSound h hs
  · exact ruleLogExp_flagsSound h hs
  · exact ruleLogRecip_flagsSound h hs
  · exact ruleLogNPow_flagsSound h hs
  · exact ruleCosNeg_flagsSound h hs
  · exact ruleSinNeg_flagsSound h hs

/-! ### taking a concrete node apart (for examples) -/

section Concrete
variable (N : Num α) (f : Flags) (u l r : Expr α) (as : List (Expr α)) (n : Nat) (b v : α)
  (x : String)

theorem flagsSound_const : FlagsSound N (.const f v) ↔ NodeSound N (.const f v) := by
  rw [flagsSound_iff]; simp [children]
theorem flagsSound_var : FlagsSound N (.var f x : Expr α) ↔ NodeSound N (.var f x : Expr α) := by
  rw [flagsSound_iff]; simp [children]
theorem flagsSound_add :
    FlagsSound N (.add f as) ↔ NodeSound N (.add f as) ∧ ∀ a ∈ as, FlagsSound N a := by
  rw [flagsSound_iff]; simp [children]
theorem flagsSound_mul :
    FlagsSound N (.mul f as) ↔ NodeSound N (.mul f as) ∧ ∀ a ∈ as, FlagsSound N a := by
  rw [flagsSound_iff]; simp [children]
theorem flagsSound_minus :
    FlagsSound N (.minus f l r) ↔ NodeSound N (.minus f l r) ∧ FlagsSound N l ∧ FlagsSound N r := by
  rw [flagsSound_iff]; simp [children]
theorem flagsSound_div :
    FlagsSound N (.div f l r) ↔ NodeSound N (.div f l r) ∧ FlagsSound N l ∧ FlagsSound N r := by
  rw [flagsSound_iff]; simp [children]
theorem flagsSound_pow :
    FlagsSound N (.pow f l r) ↔ NodeSound N (.pow f l r) ∧ FlagsSound N l ∧ FlagsSound N r := by
  rw [flagsSound_iff]; simp [children]
theorem flagsSound_neg : FlagsSound N (.neg f u) ↔ NodeSound N (.neg f u) ∧ FlagsSound N u := by
  rw [flagsSound_iff]; simp [children]
theorem flagsSound_recip :
    FlagsSound N (.recip f u) ↔ NodeSound N (.recip f u) ∧ FlagsSound N u := by
  rw [flagsSound_iff]; simp [children]
theorem flagsSound_npow :
    FlagsSound N (.npow f u n) ↔ NodeSound N (.npow f u n) ∧ FlagsSound N u := by
  rw [flagsSound_iff]; simp [children]
theorem flagsSound_nroot :
    FlagsSound N (.nroot f u n) ↔ NodeSound N (.nroot f u n) ∧ FlagsSound N u := by
  rw [flagsSound_iff]; simp [children]
theorem flagsSound_exp :
    FlagsSound N (.exp f u b) ↔ NodeSound N (.exp f u b) ∧ FlagsSound N u := by
  rw [flagsSound_iff]; simp [children]
theorem flagsSound_log :
    FlagsSound N (.log f u b) ↔ NodeSound N (.log f u b) ∧ FlagsSound N u := by
  rw [flagsSound_iff]; simp [children]
theorem flagsSound_cos : FlagsSound N (.cos f u) ↔ NodeSound N (.cos f u) ∧ FlagsSound N u := by
  rw [flagsSound_iff]; simp [children]
theorem flagsSound_sin : FlagsSound N (.sin f u) ↔ NodeSound N (.sin f u) ∧ FlagsSound N u := by
  rw [flagsSound_iff]; simp [children]

end Concrete

end Smooth
