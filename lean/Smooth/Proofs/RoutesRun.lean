/-
Proofs/RoutesRun — concrete runs of the rewriter over the reals for C06, replayed step by step with
the technique of Proofs/SymForwardRun (the intermediate trees were produced by the executable
rational instance; every step is CHECKED here against the model over `realNum` by `simp`):

* `e = Sine(Negation(y))` — the K2 witness: the early `Differential` (reverse symbolic route, 8 steps)
  returns `Negation(Cosine(y))` for the component `y`, the late one (forward symbolic route, 7 steps)
  `Multiply(Cosine(y), Constant(-1))`: different trees, the same function;
* `e = x * y` — the forward symbolic partial with respect to `x` (10 steps), which together with the
  `symrevEx_*` lemmas of Proofs/SymReverse makes every hypothesis of the on-domain theorem hold for
  a two-variable expression;
* `e = Reciprocal(y)` — forward and reverse raw partials are the same tree (8 steps): an expression
  with points inside and outside its domain that meets the K1 and fuel hypotheses.
-/
import Smooth.Proofs.Routes
import Smooth.Proofs.SymForwardRun

namespace Smooth
open Expr

/-! ### replayed run: the raw reverse-symbolic component of `Sine(Negation(y))` -/

noncomputable def runK2ryE0 : Expr ℝ :=
  (.neg {} (.mul {} [(.cos {} (.neg {} (.var {} "y"))), (.const {} (1 : ℝ))]))

noncomputable def runK2ryE1 : Expr ℝ :=
  (.neg {} (.mul {} [(.cos {} (.neg {} (.var { red := true } "y"))), (.const {} (1 : ℝ))]))

noncomputable def runK2ryE2 : Expr ℝ :=
  (.neg {} (.mul {} [(.cos {} (.neg { red := true } (.var { red := true } "y"))), (.const {} (1 : ℝ))]))

noncomputable def runK2ryE3 : Expr ℝ :=
  (.neg {} (.mul {} [(.cos {} (.var { red := true } "y")), (.const {} (1 : ℝ))]))

noncomputable def runK2ryE4 : Expr ℝ :=
  (.neg {} (.mul {} [(.cos { red := true } (.var { red := true } "y")), (.const {} (1 : ℝ))]))

noncomputable def runK2ryE5 : Expr ℝ :=
  (.neg {} (.mul {} [(.cos { red := true } (.var { red := true } "y")), (.const { red := true } (1 : ℝ))]))

noncomputable def runK2ryE6 : Expr ℝ :=
  (.neg {} (.mul {} [(.cos { red := true } (.var { red := true } "y"))]))

noncomputable def runK2ryE7 : Expr ℝ :=
  (.neg {} (.mul { red := true } [(.cos { red := true } (.var { red := true } "y"))]))

noncomputable def runK2ryE8 : Expr ℝ :=
  (.neg { red := true } (.mul { red := true } [(.cos { red := true } (.var { red := true } "y"))]))

theorem runK2ry_step0 : stepF realNum runK2ryE0 = (runK2ryE1, .flag) := by
  unfold runK2ryE0 runK2ryE1; replay_step_simp

theorem runK2ry_step1 : stepF realNum runK2ryE1 = (runK2ryE2, .flag) := by
  unfold runK2ryE1 runK2ryE2; replay_step_simp

theorem runK2ry_step2 : stepF realNum runK2ryE2 = (runK2ryE3, (.rule .cosNeg)) := by
  unfold runK2ryE2 runK2ryE3; replay_step_simp

theorem runK2ry_step3 : stepF realNum runK2ryE3 = (runK2ryE4, .flag) := by
  unfold runK2ryE3 runK2ryE4; replay_step_simp

theorem runK2ry_step4 : stepF realNum runK2ryE4 = (runK2ryE5, .flag) := by
  unfold runK2ryE4 runK2ryE5; replay_step_simp

theorem runK2ry_step5 : stepF realNum runK2ryE5 = (runK2ryE6, (.rule .mulOnes)) := by
  unfold runK2ryE5 runK2ryE6; replay_step_simp

theorem runK2ry_step6 : stepF realNum runK2ryE6 = (runK2ryE7, .flag) := by
  unfold runK2ryE6 runK2ryE7; replay_step_simp

theorem runK2ry_step7 : stepF realNum runK2ryE7 = (runK2ryE8, .flag) := by
  unfold runK2ryE7 runK2ryE8; replay_step_simp

def runK2ryEvs : List StepEvent :=
  [.flag, .flag, (.rule .cosNeg), .flag, .flag, (.rule .mulOnes), .flag, .flag]

theorem runK2ry_steps : ReplaySteps runK2ryE0 runK2ryEvs runK2ryE8 :=
  ReplaySteps.cons rfl runK2ry_step0 <|
  ReplaySteps.cons rfl runK2ry_step1 <|
  ReplaySteps.cons rfl runK2ry_step2 <|
  ReplaySteps.cons rfl runK2ry_step3 <|
  ReplaySteps.cons rfl runK2ry_step4 <|
  ReplaySteps.cons rfl runK2ry_step5 <|
  ReplaySteps.cons rfl runK2ry_step6 <|
  ReplaySteps.cons rfl runK2ry_step7 <|
  ReplaySteps.nil _

/-! ### replayed run: the raw forward-symbolic partial of `Sine(Negation(y))` -/

noncomputable def runK2fE0 : Expr ℝ :=
  (.mul {} [(.cos {} (.neg {} (.var {} "y"))), (.neg {} (.const {} (1 : ℝ)))])

noncomputable def runK2fE1 : Expr ℝ :=
  (.mul {} [(.cos {} (.neg {} (.var { red := true } "y"))), (.neg {} (.const {} (1 : ℝ)))])

noncomputable def runK2fE2 : Expr ℝ :=
  (.mul {} [(.cos {} (.neg { red := true } (.var { red := true } "y"))), (.neg {} (.const {} (1 : ℝ)))])

noncomputable def runK2fE3 : Expr ℝ :=
  (.mul {} [(.cos {} (.var { red := true } "y")), (.neg {} (.const {} (1 : ℝ)))])

noncomputable def runK2fE4 : Expr ℝ :=
  (.mul {} [(.cos { red := true } (.var { red := true } "y")), (.neg {} (.const {} (1 : ℝ)))])

noncomputable def runK2fE5 : Expr ℝ :=
  (.mul {} [(.cos { red := true } (.var { red := true } "y")), (.const {} (-1 : ℝ))])

noncomputable def runK2fE6 : Expr ℝ :=
  (.mul {} [(.cos { red := true } (.var { red := true } "y")), (.const { red := true } (-1 : ℝ))])

noncomputable def runK2fE7 : Expr ℝ :=
  (.mul { red := true } [(.cos { red := true } (.var { red := true } "y")), (.const { red := true } (-1 : ℝ))])

theorem runK2f_step0 : stepF realNum runK2fE0 = (runK2fE1, .flag) := by
  unfold runK2fE0 runK2fE1; replay_step_simp

theorem runK2f_step1 : stepF realNum runK2fE1 = (runK2fE2, .flag) := by
  unfold runK2fE1 runK2fE2; replay_step_simp

theorem runK2f_step2 : stepF realNum runK2fE2 = (runK2fE3, (.rule .cosNeg)) := by
  unfold runK2fE2 runK2fE3; replay_step_simp

theorem runK2f_step3 : stepF realNum runK2fE3 = (runK2fE4, .flag) := by
  unfold runK2fE3 runK2fE4; replay_step_simp

theorem runK2f_step4 : stepF realNum runK2fE4 = (runK2fE5, .fold) := by
  unfold runK2fE4 runK2fE5; replay_step_simp

theorem runK2f_step5 : stepF realNum runK2fE5 = (runK2fE6, .flag) := by
  unfold runK2fE5 runK2fE6; replay_step_simp

theorem runK2f_step6 : stepF realNum runK2fE6 = (runK2fE7, .flag) := by
  unfold runK2fE6 runK2fE7; replay_step_simp
  norm_num

def runK2fEvs : List StepEvent :=
  [.flag, .flag, (.rule .cosNeg), .flag, .fold, .flag, .flag]

theorem runK2f_steps : ReplaySteps runK2fE0 runK2fEvs runK2fE7 :=
  ReplaySteps.cons rfl runK2f_step0 <|
  ReplaySteps.cons rfl runK2f_step1 <|
  ReplaySteps.cons rfl runK2f_step2 <|
  ReplaySteps.cons rfl runK2f_step3 <|
  ReplaySteps.cons rfl runK2f_step4 <|
  ReplaySteps.cons rfl runK2f_step5 <|
  ReplaySteps.cons rfl runK2f_step6 <|
  ReplaySteps.nil _

/-! ### replayed run: the raw forward-symbolic partial of `x * y` with respect to `x` -/

noncomputable def runXYfE0 : Expr ℝ :=
  (.add {} [(.mul {} [(.const {} (1 : ℝ)), (.var {} "y")]), (.mul {} [(.const {} (0 : ℝ)), (.var {} "x")])])

noncomputable def runXYfE1 : Expr ℝ :=
  (.add {} [(.mul {} [(.const { red := true } (1 : ℝ)), (.var {} "y")]), (.mul {} [(.const {} (0 : ℝ)), (.var {} "x")])])

noncomputable def runXYfE2 : Expr ℝ :=
  (.add {} [(.mul {} [(.const { red := true } (1 : ℝ)), (.var { red := true } "y")]), (.mul {} [(.const {} (0 : ℝ)), (.var {} "x")])])

noncomputable def runXYfE3 : Expr ℝ :=
  (.add {} [(.mul {} [(.var { red := true } "y")]), (.mul {} [(.const {} (0 : ℝ)), (.var {} "x")])])

noncomputable def runXYfE4 : Expr ℝ :=
  (.add {} [(.mul { red := true } [(.var { red := true } "y")]), (.mul {} [(.const {} (0 : ℝ)), (.var {} "x")])])

noncomputable def runXYfE5 : Expr ℝ :=
  (.add {} [(.mul { red := true } [(.var { red := true } "y")]), (.mul {} [(.const { red := true } (0 : ℝ)), (.var {} "x")])])

noncomputable def runXYfE6 : Expr ℝ :=
  (.add {} [(.mul { red := true } [(.var { red := true } "y")]), (.mul {} [(.const { red := true } (0 : ℝ)), (.var { red := true } "x")])])

noncomputable def runXYfE7 : Expr ℝ :=
  (.add {} [(.mul { red := true } [(.var { red := true } "y")]), (.const {} (0 : ℝ))])

noncomputable def runXYfE8 : Expr ℝ :=
  (.add {} [(.mul { red := true } [(.var { red := true } "y")]), (.const { red := true } (0 : ℝ))])

noncomputable def runXYfE9 : Expr ℝ :=
  (.add {} [(.mul { red := true } [(.var { red := true } "y")])])

noncomputable def runXYfE10 : Expr ℝ :=
  (.add { red := true } [(.mul { red := true } [(.var { red := true } "y")])])

theorem runXYf_step0 : stepF realNum runXYfE0 = (runXYfE1, .flag) := by
  unfold runXYfE0 runXYfE1; replay_step_simp

theorem runXYf_step1 : stepF realNum runXYfE1 = (runXYfE2, .flag) := by
  unfold runXYfE1 runXYfE2; replay_step_simp

theorem runXYf_step2 : stepF realNum runXYfE2 = (runXYfE3, (.rule .mulOnes)) := by
  unfold runXYfE2 runXYfE3; replay_step_simp

theorem runXYf_step3 : stepF realNum runXYfE3 = (runXYfE4, .flag) := by
  unfold runXYfE3 runXYfE4; replay_step_simp

theorem runXYf_step4 : stepF realNum runXYfE4 = (runXYfE5, .flag) := by
  unfold runXYfE4 runXYfE5; replay_step_simp

theorem runXYf_step5 : stepF realNum runXYfE5 = (runXYfE6, .flag) := by
  unfold runXYfE5 runXYfE6; replay_step_simp

theorem runXYf_step6 : stepF realNum runXYfE6 = (runXYfE7, (.rule .mulZero)) := by
  unfold runXYfE6 runXYfE7; replay_step_simp

theorem runXYf_step7 : stepF realNum runXYfE7 = (runXYfE8, .flag) := by
  unfold runXYfE7 runXYfE8; replay_step_simp

theorem runXYf_step8 : stepF realNum runXYfE8 = (runXYfE9, (.rule .addZeros)) := by
  unfold runXYfE8 runXYfE9; replay_step_simp

theorem runXYf_step9 : stepF realNum runXYfE9 = (runXYfE10, .flag) := by
  unfold runXYfE9 runXYfE10; replay_step_simp

def runXYfEvs : List StepEvent :=
  [.flag, .flag, (.rule .mulOnes), .flag, .flag, .flag, (.rule .mulZero), .flag, (.rule .addZeros), .flag]

theorem runXYf_steps : ReplaySteps runXYfE0 runXYfEvs runXYfE10 :=
  ReplaySteps.cons rfl runXYf_step0 <|
  ReplaySteps.cons rfl runXYf_step1 <|
  ReplaySteps.cons rfl runXYf_step2 <|
  ReplaySteps.cons rfl runXYf_step3 <|
  ReplaySteps.cons rfl runXYf_step4 <|
  ReplaySteps.cons rfl runXYf_step5 <|
  ReplaySteps.cons rfl runXYf_step6 <|
  ReplaySteps.cons rfl runXYf_step7 <|
  ReplaySteps.cons rfl runXYf_step8 <|
  ReplaySteps.cons rfl runXYf_step9 <|
  ReplaySteps.nil _

/-! ### replayed run: the raw symbolic partial of `Reciprocal(y)` (forward = reverse) -/

noncomputable def runRcE0 : Expr ℝ :=
  (.neg {} (.div {} (.const {} (1 : ℝ)) (.npow {} (.var {} "y") 2)))

noncomputable def runRcE1 : Expr ℝ :=
  (.neg {} (.div {} (.const { red := true } (1 : ℝ)) (.npow {} (.var {} "y") 2)))

noncomputable def runRcE2 : Expr ℝ :=
  (.neg {} (.div {} (.const { red := true } (1 : ℝ)) (.npow {} (.var { red := true } "y") 2)))

noncomputable def runRcE3 : Expr ℝ :=
  (.neg {} (.div {} (.const { red := true } (1 : ℝ)) (.npow { red := true } (.var { red := true } "y") 2)))

noncomputable def runRcE4 : Expr ℝ :=
  (.neg {} (.mul {} [(.const { red := true } (1 : ℝ)), (.recip {} (.npow { red := true } (.var { red := true } "y") 2))]))

noncomputable def runRcE5 : Expr ℝ :=
  (.neg {} (.mul {} [(.const { red := true } (1 : ℝ)), (.recip { red := true } (.npow { red := true } (.var { red := true } "y") 2))]))

noncomputable def runRcE6 : Expr ℝ :=
  (.neg {} (.mul {} [(.recip { red := true } (.npow { red := true } (.var { red := true } "y") 2))]))

noncomputable def runRcE7 : Expr ℝ :=
  (.neg {} (.mul { red := true } [(.recip { red := true } (.npow { red := true } (.var { red := true } "y") 2))]))

noncomputable def runRcE8 : Expr ℝ :=
  (.neg { red := true } (.mul { red := true } [(.recip { red := true } (.npow { red := true } (.var { red := true } "y") 2))]))

theorem runRc_step0 : stepF realNum runRcE0 = (runRcE1, .flag) := by
  unfold runRcE0 runRcE1; replay_step_simp

theorem runRc_step1 : stepF realNum runRcE1 = (runRcE2, .flag) := by
  unfold runRcE1 runRcE2; replay_step_simp

theorem runRc_step2 : stepF realNum runRcE2 = (runRcE3, .flag) := by
  unfold runRcE2 runRcE3; replay_step_simp

theorem runRc_step3 : stepF realNum runRcE3 = (runRcE4, (.rule .divToMul)) := by
  unfold runRcE3 runRcE4; replay_step_simp

theorem runRc_step4 : stepF realNum runRcE4 = (runRcE5, .flag) := by
  unfold runRcE4 runRcE5; replay_step_simp

theorem runRc_step5 : stepF realNum runRcE5 = (runRcE6, (.rule .mulOnes)) := by
  unfold runRcE5 runRcE6; replay_step_simp

theorem runRc_step6 : stepF realNum runRcE6 = (runRcE7, .flag) := by
  unfold runRcE6 runRcE7; replay_step_simp

theorem runRc_step7 : stepF realNum runRcE7 = (runRcE8, .flag) := by
  unfold runRcE7 runRcE8; replay_step_simp

def runRcEvs : List StepEvent :=
  [.flag, .flag, .flag, (.rule .divToMul), .flag, (.rule .mulOnes), .flag, .flag]

theorem runRc_steps : ReplaySteps runRcE0 runRcEvs runRcE8 :=
  ReplaySteps.cons rfl runRc_step0 <|
  ReplaySteps.cons rfl runRc_step1 <|
  ReplaySteps.cons rfl runRc_step2 <|
  ReplaySteps.cons rfl runRc_step3 <|
  ReplaySteps.cons rfl runRc_step4 <|
  ReplaySteps.cons rfl runRc_step5 <|
  ReplaySteps.cons rfl runRc_step6 <|
  ReplaySteps.cons rfl runRc_step7 <|
  ReplaySteps.nil _

/-! ### normal-form pass: small flagged pieces -/

theorem routesRun_nf_const (fuel : Nat) (h : 2 ≤ fuel) (v : ℝ) :
    normalizeF realNum REDUCTION_STEPS_BOUND fuel (.const { red := true } v) =
      some (mkConst v, false) := by
  obtain ⟨f, rfl⟩ : ∃ f, fuel = f + 2 := ⟨fuel - 2, by omega⟩
  simp [normalizeF, normReducedF, replay_fullyReduceWith_of_red (.const { red := true } v) rfl]

theorem routesRun_nf_cos (fuel : Nat) (h : 4 ≤ fuel) (y : String) :
    normalizeF realNum REDUCTION_STEPS_BOUND fuel (.cos { red := true } (.var { red := true } y)) =
      some (mkCos (mkVar y), false) := by
  obtain ⟨f, rfl⟩ : ∃ f, fuel = f + 4 := ⟨fuel - 4, by omega⟩
  simp [normalizeF, normReducedF,
    replay_fullyReduceWith_of_red (.cos { red := true } (.var { red := true } y)) rfl]

theorem routesRun_nf_npow (fuel : Nat) (h : 4 ≤ fuel) (y : String) (n : Nat) :
    normalizeF realNum REDUCTION_STEPS_BOUND fuel
        (.npow { red := true } (.var { red := true } y) n) =
      some (mkNPow (mkVar y) n, false) := by
  obtain ⟨f, rfl⟩ : ∃ f, fuel = f + 4 := ⟨fuel - 4, by omega⟩
  simp [normalizeF, normReducedF,
    replay_fullyReduceWith_of_red (.npow { red := true } (.var { red := true } y) n) rfl]

theorem routesRun_nf_mul_var (fuel : Nat) (h : 4 ≤ fuel) (y : String) :
    normalizeF realNum REDUCTION_STEPS_BOUND fuel (.mul { red := true } [.var { red := true } y]) =
      some (mkVar y, false) := by
  obtain ⟨f, rfl⟩ : ∃ f, fuel = f + 4 := ⟨fuel - 4, by omega⟩
  simp only [normalizeF,
    replay_fullyReduceWith_of_red (.mul { red := true } [.var { red := true } y]) rfl]
  simp [normReducedF, asRecip, mapM?, replay_nf_var, simplifiedMul, List.filterMap_cons]

/-! ### `Sine(Negation(y))` : the K2 witness -/

/-- the expression of the witness -/
abbrev runK2Expr : Expr ℝ := mkSin (mkNeg (mkVar "y"))

theorem runK2_partials : syntheticPartials realNum runK2Expr = [("y", runK2ryE0)] := by
  simp [runK2Expr, syntheticPartials, symRev, unarySymFormula, SAcc.addTo, SAcc.get?, SAcc.set, vars,
    varsAux, runK2ryE0]

theorem runK2_symFwd : symFwd realNum "y" runK2Expr = runK2fE0 := by
  simp [symFwd, unarySymFormula, runK2fE0]

theorem runK2ry_allFlagged : AllFlagged runK2ryE8 := by
  simp [runK2ryE8, AllFlagged, AllFlaggedList]

theorem runK2f_allFlagged : AllFlagged runK2fE7 := by
  simp [runK2fE7, AllFlagged, AllFlaggedList]

theorem runK2ry_normOK (fuel : Nat) : NormOK K1FreeAt REDUCTION_STEPS_BOUND fuel runK2ryE0 :=
  runK2ry_steps.normOK runK2ry_allFlagged (by decide) (by decide) fuel

theorem runK2f_normOK (fuel : Nat) : NormOK K1FreeAt REDUCTION_STEPS_BOUND fuel runK2fE0 :=
  runK2f_steps.normOK runK2f_allFlagged (by decide) (by decide) fuel

theorem runK2ry_fullyReduce :
    fullyReduceWith realNum REDUCTION_STEPS_BOUND runK2ryE0 =
      ⟨runK2ryE8, false, runK2ryEvs.length, runK2ryEvs⟩ :=
  runK2ry_steps.fullyReduce runK2ry_allFlagged.isRed _ (by decide)

theorem runK2f_fullyReduce :
    fullyReduceWith realNum REDUCTION_STEPS_BOUND runK2fE0 =
      ⟨runK2fE7, false, runK2fEvs.length, runK2fEvs⟩ :=
  runK2f_steps.fullyReduce runK2f_allFlagged.isRed _ (by decide)

theorem runK2ry_normalizeF (fuel : Nat) (h : 8 ≤ fuel) :
    normalizeF realNum REDUCTION_STEPS_BOUND fuel runK2ryE0 =
      some (mkNeg (mkCos (mkVar "y")), false) := by
  obtain ⟨f, rfl⟩ : ∃ f, fuel = f + 8 := ⟨fuel - 8, by omega⟩
  simp only [normalizeF, runK2ry_fullyReduce]
  simp [normReducedF, runK2ryE8, asRecip, mapM?, routesRun_nf_cos, simplifiedMul,
    List.filterMap_cons]

theorem runK2f_normalizeF (fuel : Nat) (h : 8 ≤ fuel) :
    normalizeF realNum REDUCTION_STEPS_BOUND fuel runK2fE0 =
      some (mkMul [mkCos (mkVar "y"), mkConst (-1)], false) := by
  obtain ⟨f, rfl⟩ : ∃ f, fuel = f + 8 := ⟨fuel - 8, by omega⟩
  simp only [normalizeF, runK2f_fullyReduce]
  simp [normReducedF, runK2fE7, asRecip, mapM?, routesRun_nf_cos, routesRun_nf_const, simplifiedMul,
    List.filterMap_cons]

theorem runK2ry_normalize :
    normalize realNum runK2ryE0 = some (mkNeg (mkCos (mkVar "y")), false) :=
  runK2ry_normalizeF _ (by decide)

theorem runK2f_normalize :
    normalize realNum runK2fE0 = some (mkMul [mkCos (mkVar "y"), mkConst (-1)], false) :=
  runK2f_normalizeF _ (by decide)

theorem runK2_K1Rev : RoutesK1Rev runK2Expr := by
  intro z s h
  rw [runK2_partials] at h
  simp only [SAcc.get?] at h
  split at h
  · injection h with h; subst h; exact runK2ry_normOK _
  · cases h

theorem runK2_fuelRev : RoutesFuelRev runK2Expr := by
  intro z s h
  rw [runK2_partials] at h
  simp only [SAcc.get?] at h
  split at h
  · injection h with h; subst h; exact ⟨_, runK2ry_normalize⟩
  · cases h

theorem runK2_K1Fwd :
    NormOK K1FreeAt REDUCTION_STEPS_BOUND NORMALIZE_FUEL (symFwd realNum "y" runK2Expr) :=
  runK2_symFwd ▸ runK2f_normOK _

theorem runK2_fuelFwd : RoutesFuelFwd runK2Expr "y" :=
  ⟨_, runK2_symFwd ▸ runK2f_normalize⟩

/-- `Differential(Sine(Negation(y)), compute_early=True).component("y").as_expression()` is
`Negation(Cosine(y))` … -/
theorem runK2_exprFE :
    routeExprFE realNum runK2Expr "y" = .ok (mkNeg (mkCos (mkVar "y")), false) := by
  rw [routeExprFE_eq, runK2_partials]
  simp [normalizeAll, runK2ry_normalize, liftFuel, SAcc.get?, bind, Except.bind, pure, Except.pure]

/-- … and `Differential(Sine(Negation(y))).component("y").as_expression()` is
`Multiply(Cosine(y), Constant(-1))` -/
theorem runK2_exprFL :
    routeExprFL realNum runK2Expr "y" = .ok (mkMul [mkCos (mkVar "y"), mkConst (-1)], false) := by
  rw [routeExprFL_eq]
  simp [retrieveSyntheticPartial, runK2_symFwd, runK2f_normalize, liftFuel, pure, Except.pure]

/-- different trees -/
theorem runK2_trees_differ :
    (mkNeg (mkCos (mkVar "y")) : Expr ℝ) ≠ mkMul [mkCos (mkVar "y"), mkConst (-1)] := by
  intro h; cases h

/-! ### `x * y` -/

abbrev runXYExpr : Expr ℝ := mkMul [mkVar "x", mkVar "y"]

theorem runXY_symFwd : symFwd realNum "x" runXYExpr = runXYfE0 := by
  simp [symFwd, symFwdList, symMulTerms, symMulTermsGo, runXYfE0]

theorem runXYf_allFlagged : AllFlagged runXYfE10 := by
  simp [runXYfE10, AllFlagged, AllFlaggedList]

theorem runXYf_normOK (fuel : Nat) : NormOK K1FreeAt REDUCTION_STEPS_BOUND fuel runXYfE0 :=
  runXYf_steps.normOK runXYf_allFlagged (by decide) (by decide) fuel

theorem runXYf_fullyReduce :
    fullyReduceWith realNum REDUCTION_STEPS_BOUND runXYfE0 =
      ⟨runXYfE10, false, runXYfEvs.length, runXYfEvs⟩ :=
  runXYf_steps.fullyReduce runXYf_allFlagged.isRed _ (by decide)

theorem runXYf_normalizeF (fuel : Nat) (h : 8 ≤ fuel) :
    normalizeF realNum REDUCTION_STEPS_BOUND fuel runXYfE0 = some (mkVar "y", false) := by
  obtain ⟨f, rfl⟩ : ∃ f, fuel = f + 8 := ⟨fuel - 8, by omega⟩
  simp only [normalizeF, runXYf_fullyReduce]
  simp [normReducedF, runXYfE10, asNeg, mapM?, routesRun_nf_mul_var, simplifiedAdd,
    List.filterMap_cons]

theorem runXY_K1Fwd :
    NormOK K1FreeAt REDUCTION_STEPS_BOUND NORMALIZE_FUEL (symFwd realNum "x" runXYExpr) :=
  runXY_symFwd ▸ runXYf_normOK _

theorem runXY_fuelFwd : RoutesFuelFwd runXYExpr "x" :=
  ⟨_, runXY_symFwd ▸ (runXYf_normalizeF NORMALIZE_FUEL (by decide))⟩

theorem runXY_K1Rev : RoutesK1Rev runXYExpr := symrevEx_hok "x" "y" (by decide)

theorem runXY_fuelRev : RoutesFuelRev runXYExpr := by
  intro z s h
  rw [symrevEx_partials "x" "y" (by decide)] at h
  simp only [SAcc.get?] at h
  split at h
  · injection h with h; subst h; exact ⟨_, symrevEx_normalize "y"⟩
  · split at h
    · injection h with h; subst h; exact ⟨_, symrevEx_normalize "x"⟩
    · cases h

/-! ### `Reciprocal(y)` -/

abbrev runRcExpr : Expr ℝ := mkRecip (mkVar "y")

theorem runRc_partials : syntheticPartials realNum runRcExpr = [("y", runRcE0)] := by
  simp [runRcExpr, syntheticPartials, symRev, unarySymFormula, SAcc.addTo, SAcc.get?, SAcc.set, vars,
    varsAux, runRcE0]

theorem runRc_symFwd : symFwd realNum "y" runRcExpr = runRcE0 := by
  simp [symFwd, unarySymFormula, runRcE0]

theorem runRc_allFlagged : AllFlagged runRcE8 := by
  simp [runRcE8, AllFlagged, AllFlaggedList]

theorem runRc_normOK (fuel : Nat) : NormOK K1FreeAt REDUCTION_STEPS_BOUND fuel runRcE0 :=
  runRc_steps.normOK runRc_allFlagged (by decide) (by decide) fuel

theorem runRc_fullyReduce :
    fullyReduceWith realNum REDUCTION_STEPS_BOUND runRcE0 =
      ⟨runRcE8, false, runRcEvs.length, runRcEvs⟩ :=
  runRc_steps.fullyReduce runRc_allFlagged.isRed _ (by decide)

theorem runRc_normalizeF (fuel : Nat) (h : 8 ≤ fuel) :
    normalizeF realNum REDUCTION_STEPS_BOUND fuel runRcE0 =
      some (mkNeg (mkRecip (mkNPow (mkVar "y") 2)), false) := by
  obtain ⟨f, rfl⟩ : ∃ f, fuel = f + 8 := ⟨fuel - 8, by omega⟩
  simp only [normalizeF, runRc_fullyReduce]
  simp [normReducedF, runRcE8, asRecip, mapM?, routesRun_nf_npow, simplifiedMul]

theorem runRc_normalize :
    normalize realNum runRcE0 = some (mkNeg (mkRecip (mkNPow (mkVar "y") 2)), false) :=
  runRc_normalizeF _ (by decide)

theorem runRc_K1Rev : RoutesK1Rev runRcExpr := by
  intro z s h
  rw [runRc_partials] at h
  simp only [SAcc.get?] at h
  split at h
  · injection h with h; subst h; exact runRc_normOK _
  · cases h

theorem runRc_fuelRev : RoutesFuelRev runRcExpr := by
  intro z s h
  rw [runRc_partials] at h
  simp only [SAcc.get?] at h
  split at h
  · injection h with h; subst h; exact ⟨_, runRc_normalize⟩
  · cases h

theorem runRc_K1Fwd :
    NormOK K1FreeAt REDUCTION_STEPS_BOUND NORMALIZE_FUEL (symFwd realNum "y" runRcExpr) :=
  runRc_symFwd ▸ runRc_normOK _

theorem runRc_fuelFwd : RoutesFuelFwd runRcExpr "y" := ⟨_, runRc_symFwd ▸ runRc_normalize⟩

/-! ### K1 makes the routes disagree: `NthRoot(NthPower(x, 2), 2)` at `x = -3` -/

/-- the K1 hypotheses of the on-domain theorem cannot be dropped: for `|x| = NthRoot(NthPower(x, 2), 2)`
at `x = -3` (a supplied point of the domain) the late `Partial` answers the true partial `-1`, the
early one and the late one after `as_expression()` answer `+1` -/
theorem runK1_routes_disagree :
    routePL realNum (mkNRoot (mkNPow (mkVar "x") 2) 2) "x" [("x", (-3 : ℝ))] = .ok (-1) ∧
      routePE realNum (mkNRoot (mkNPow (mkVar "x") 2) 2) "x" [("x", (-3 : ℝ))] = .ok 1 ∧
      routePA realNum (mkNRoot (mkNPow (mkVar "x") 2) 2) "x" [("x", (-3 : ℝ))] = .ok 1 := by
  obtain ⟨hwf, hs, hd, hfd⟩ := runK1_true_partial
  have hret : retrieveSyntheticPartial realNum (mkNRoot (mkNPow (mkVar "x") 2) 2 : Expr ℝ) "x" =
      .ok (mkDiv (mkVar "x") (mkVar "x"), false) := by
    simp only [retrieveSyntheticPartial, runK1_symFwd, runK1_normalize, liftFuel]
    rfl
  have hvia : routeViaStored realNum (mkNRoot (mkNPow (mkVar "x") 2) 2) "x" [("x", (-3 : ℝ))] =
      .ok 1 := by
    simp only [routeViaStored, hret, routes_evalG_ok hwf hs hd, bind, Except.bind]
    exact runK1_returned_value
  exact ⟨by rw [routePL_eq]; exact hfd, by rw [routePE_eq]; exact hvia,
    by rw [routePA_eq]; exact hvia⟩

end Smooth
