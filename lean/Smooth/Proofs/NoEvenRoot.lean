/-
Proofs/NoEvenRoot — a SYNTACTIC condition under which the recorded defect K1 cannot occur.

`NoEvenRoot e`: every `NthRoot` node of `e`, at any depth, has an odd degree.  (Every expression
without `NthRoot` nodes qualifies: polynomials, rational functions, exp/log/trig/power expressions;
and so does every expression whose roots are all odd.)

This file (generic in the number record `N`): the node-by-node characterisation, and the invariance of
`NoEvenRoot` under every one of the 46 rewrite rules, under flag changes and constant folding, under
one step of `_take_reduction_step`, under the `_fully_reduce` loop for every budget, and under the
normal-form pass / `_normalize` for every budget and fuel.
Same architecture as Proofs/Settled and Proofs/FlagSound.
-/
import Smooth.Proofs.Settled

namespace Smooth
open Expr
variable {α : Type}

/-- the node itself is not an `NthRoot` of even degree -/
def OddRootAt : Expr α → Prop
  | .nroot _ _ n => n % 2 = 1
  | _ => True

/-- **no even root**: every `NthRoot` node of `e` (at any depth; `Sub s e` = "`s` is a node of `e`")
has an odd degree -/
def NoEvenRoot (e : Expr α) : Prop :=
  ∀ f u n, Sub (.nroot f u n) e → n % 2 = 1

theorem ner_iff (e : Expr α) :
    NoEvenRoot e ↔ OddRootAt e ∧ ∀ c ∈ children e, NoEvenRoot c := by
  constructor
  · intro h
    refine ⟨?_, fun c hc f u n hs => h f u n (Sub.child hc hs)⟩
    cases e <;> first | trivial | exact h _ _ _ (Sub.refl _)
  · rintro ⟨h1, h2⟩ f u n hs
    cases hs with
    | refl => exact h1
    | child hc hs => exact h2 _ hc f u n hs

theorem NoEvenRoot.sub {e s : Expr α} (h : NoEvenRoot e) (hs : Sub s e) : NoEvenRoot s :=
  fun f u n ht => h f u n (ht.trans hs)

theorem NoEvenRoot.child {e c : Expr α} (h : NoEvenRoot e) (hc : c ∈ children e) : NoEvenRoot c :=
  h.sub (Sub.child hc (Sub.refl c))

/-! ### node by node (these ARE the structural definition) -/

section Nodes
variable (f : Flags) (u l r : Expr α) (as : List (Expr α)) (n : Nat) (b v : α) (x : String)

@[simp] theorem ner_const : NoEvenRoot (.const f v) := by
  rw [ner_iff]; simp [children, OddRootAt]
@[simp] theorem ner_var : NoEvenRoot (.var f x : Expr α) := by
  rw [ner_iff]; simp [children, OddRootAt]
@[simp] theorem ner_add : NoEvenRoot (.add f as) ↔ ∀ a ∈ as, NoEvenRoot a := by
  rw [ner_iff]; simp [children, OddRootAt]
@[simp] theorem ner_mul : NoEvenRoot (.mul f as) ↔ ∀ a ∈ as, NoEvenRoot a := by
  rw [ner_iff]; simp [children, OddRootAt]
@[simp] theorem ner_minus : NoEvenRoot (.minus f l r) ↔ NoEvenRoot l ∧ NoEvenRoot r := by
  rw [ner_iff]; simp [children, OddRootAt]
@[simp] theorem ner_div : NoEvenRoot (.div f l r) ↔ NoEvenRoot l ∧ NoEvenRoot r := by
  rw [ner_iff]; simp [children, OddRootAt]
@[simp] theorem ner_pow : NoEvenRoot (.pow f l r) ↔ NoEvenRoot l ∧ NoEvenRoot r := by
  rw [ner_iff]; simp [children, OddRootAt]
@[simp] theorem ner_neg : NoEvenRoot (.neg f u) ↔ NoEvenRoot u := by
  rw [ner_iff]; simp [children, OddRootAt]
@[simp] theorem ner_recip : NoEvenRoot (.recip f u) ↔ NoEvenRoot u := by
  rw [ner_iff]; simp [children, OddRootAt]
@[simp] theorem ner_npow : NoEvenRoot (.npow f u n) ↔ NoEvenRoot u := by
  rw [ner_iff]; simp [children, OddRootAt]
/-- the one constructor that matters: the degree is odd, and so below -/
@[simp] theorem ner_nroot : NoEvenRoot (.nroot f u n) ↔ n % 2 = 1 ∧ NoEvenRoot u := by
  rw [ner_iff]; simp [children, OddRootAt]
@[simp] theorem ner_exp : NoEvenRoot (.exp f u b) ↔ NoEvenRoot u := by
  rw [ner_iff]; simp [children, OddRootAt]
@[simp] theorem ner_log : NoEvenRoot (.log f u b) ↔ NoEvenRoot u := by
  rw [ner_iff]; simp [children, OddRootAt]
@[simp] theorem ner_cos : NoEvenRoot (.cos f u) ↔ NoEvenRoot u := by
  rw [ner_iff]; simp [children, OddRootAt]
@[simp] theorem ner_sin : NoEvenRoot (.sin f u) ↔ NoEvenRoot u := by
  rw [ner_iff]; simp [children, OddRootAt]

end Nodes

section Inv
variable {f : Flags} {u l r : Expr α} {as : List (Expr α)} {n : Nat} {b : α}

theorem NoEvenRoot.add_inv (h : NoEvenRoot (.add f as)) : ∀ a ∈ as, NoEvenRoot a := (ner_add ..).mp h
theorem NoEvenRoot.mul_inv (h : NoEvenRoot (.mul f as)) : ∀ a ∈ as, NoEvenRoot a := (ner_mul ..).mp h
theorem NoEvenRoot.minus_inv (h : NoEvenRoot (.minus f l r)) : NoEvenRoot l ∧ NoEvenRoot r :=
  (ner_minus ..).mp h
theorem NoEvenRoot.div_inv (h : NoEvenRoot (.div f l r)) : NoEvenRoot l ∧ NoEvenRoot r :=
  (ner_div ..).mp h
theorem NoEvenRoot.pow_inv (h : NoEvenRoot (.pow f l r)) : NoEvenRoot l ∧ NoEvenRoot r :=
  (ner_pow ..).mp h
theorem NoEvenRoot.neg_inv (h : NoEvenRoot (.neg f u)) : NoEvenRoot u := (ner_neg ..).mp h
theorem NoEvenRoot.recip_inv (h : NoEvenRoot (.recip f u)) : NoEvenRoot u := (ner_recip ..).mp h
theorem NoEvenRoot.npow_inv (h : NoEvenRoot (.npow f u n)) : NoEvenRoot u := (ner_npow ..).mp h
theorem NoEvenRoot.nroot_inv (h : NoEvenRoot (.nroot f u n)) : NoEvenRoot u := ((ner_nroot ..).mp h).2
theorem NoEvenRoot.nroot_odd (h : NoEvenRoot (.nroot f u n)) : n % 2 = 1 := ((ner_nroot ..).mp h).1
theorem NoEvenRoot.exp_inv (h : NoEvenRoot (.exp f u b)) : NoEvenRoot u := (ner_exp ..).mp h
theorem NoEvenRoot.log_inv (h : NoEvenRoot (.log f u b)) : NoEvenRoot u := (ner_log ..).mp h
theorem NoEvenRoot.cos_inv (h : NoEvenRoot (.cos f u)) : NoEvenRoot u := (ner_cos ..).mp h
theorem NoEvenRoot.sin_inv (h : NoEvenRoot (.sin f u)) : NoEvenRoot u := (ner_sin ..).mp h

end Inv

/-! ### flags are irrelevant -/

@[simp] theorem ner_setFlags (g : Flags) (e : Expr α) : NoEvenRoot (e.setFlags g) ↔ NoEvenRoot e := by
  cases e <;> simp [setFlags]

@[simp] theorem ner_markRed (e : Expr α) : NoEvenRoot e.markRed ↔ NoEvenRoot e := ner_setFlags _ e
@[simp] theorem ner_markFailed (e : Expr α) : NoEvenRoot e.markFailed ↔ NoEvenRoot e :=
  ner_setFlags _ e

mutual
/-- resetting every flag (`Expr.fresh`) neither creates nor removes an even root -/
theorem ner_fresh : ∀ e : Expr α, NoEvenRoot e.fresh ↔ NoEvenRoot e
  | .const _ _ => by simp [fresh]
  | .var _ _ => by simp [fresh]
  | .add _ as => by simp only [fresh, ner_add]; exact ner_freshList as
  | .mul _ as => by simp only [fresh, ner_mul]; exact ner_freshList as
  | .minus _ l r => by simp only [fresh, ner_minus, ner_fresh l, ner_fresh r]
  | .div _ l r => by simp only [fresh, ner_div, ner_fresh l, ner_fresh r]
  | .pow _ l r => by simp only [fresh, ner_pow, ner_fresh l, ner_fresh r]
  | .neg _ u => by simp only [fresh, ner_neg, ner_fresh u]
  | .recip _ u => by simp only [fresh, ner_recip, ner_fresh u]
  | .npow _ u _ => by simp only [fresh, ner_npow, ner_fresh u]
  | .nroot _ u _ => by simp only [fresh, ner_nroot, ner_fresh u]
  | .exp _ u _ => by simp only [fresh, ner_exp, ner_fresh u]
  | .log _ u _ => by simp only [fresh, ner_log, ner_fresh u]
  | .cos _ u => by simp only [fresh, ner_cos, ner_fresh u]
  | .sin _ u => by simp only [fresh, ner_sin, ner_fresh u]
theorem ner_freshList : ∀ es : List (Expr α),
    (∀ a ∈ freshList es, NoEvenRoot a) ↔ ∀ a ∈ es, NoEvenRoot a
  | [] => by simp [freshList]
  | e :: es => by
    simp only [freshList, List.forall_mem_cons, ner_fresh e, ner_freshList es]
end

/-! ### arithmetic of odd degrees -/

theorem ner_odd_mul {n m : Nat} (hn : n % 2 = 1) (hm : m % 2 = 1) : (n * m) % 2 = 1 := by
  rw [Nat.mul_mod, hn, hm]

/-- an odd number divided by any of its divisors stays odd (`npowRoot` divides the degree by a gcd) -/
theorem ner_odd_div_gcd {m : Nat} (n : Nat) (hm : m % 2 = 1) : (m / Nat.gcd m n) % 2 = 1 := by
  have h1 : m / Nat.gcd m n * Nat.gcd m n = m := Nat.div_mul_cancel (Nat.gcd_dvd_left m n)
  rcases Nat.mod_two_eq_zero_or_one (m / Nat.gcd m n) with h0 | h0
  · exfalso
    have h2 := Nat.mul_mod (m / Nat.gcd m n) (Nat.gcd m n) 2
    rw [h1, h0, hm] at h2
    simp at h2
  · exact h0

/-! ### every rule keeps the condition -/

section Rules
variable {N : Num α} {e e' : Expr α}

theorem ruleAddFlatten_ner (h : ruleAddFlatten e = some e') (hs : NoEvenRoot e) : NoEvenRoot e' := by
  unfold ruleAddFlatten at h
  split at h
  · simp only [Option.map_eq_some_iff] at h
    obtain ⟨as', h1, rfl⟩ := h
    rw [ner_add]
    refine forall_spliceFirst NoEvenRoot asAdd ?_ _ _ h1 hs.add_inv
    intro e inner he hP
    cases e <;> simp [asAdd] at he
    subst he; exact hP.add_inv
  · cases h

theorem ruleAddZeros_ner (h : ruleAddZeros N e = some e') (hs : NoEvenRoot e) : NoEvenRoot e' := by
  unfold ruleAddZeros at h
  split at h
  · simp only at h
    split at h
    · cases h
    · obtain rfl := Option.some.inj h
      rw [ner_add]
      exact fun a ha => hs.add_inv a (List.mem_filter.mp ha).1
  · cases h

theorem ruleAddLogs_ner (h : ruleAddLogs N e = some e') (hs : NoEvenRoot e) : NoEvenRoot e' := by
  unfold ruleAddLogs at h
  split at h
  · simp only [Option.map_eq_some_iff] at h
    obtain ⟨as', h1, rfl⟩ := h
    rw [ner_add]
    refine forall_consolidate NoEvenRoot asLog N.eq _ ?_ ?_ _ _ h1 hs.add_inv
    · intro e k u he hP
      cases e <;> simp [asLog] at he
      obtain ⟨rfl, rfl⟩ := he; exact hP.log_inv
    · intro k vs hv; simpa using hv
  · cases h

theorem ruleAddConsts_ner (h : ruleAddConsts N e = some e') (hs : NoEvenRoot e) : NoEvenRoot e' := by
  unfold ruleAddConsts at h
  split at h
  · simp only at h
    split at h
    · cases h
    · obtain rfl := Option.some.inj h
      rw [ner_add]
      intro a ha
      rcases List.mem_append.mp ha with ha | ha
      · exact hs.add_inv a (List.mem_filter.mp ha).1
      · simp only [List.mem_singleton] at ha; subst ha; simp
  · cases h

theorem ruleMinusToSum_ner (h : ruleMinusToSum e = some e') (hs : NoEvenRoot e) : NoEvenRoot e' := by
  unfold ruleMinusToSum at h
  split at h
  · obtain rfl := Option.some.inj h
    simpa using hs.minus_inv
  · cases h

theorem ruleNegNeg_ner (h : ruleNegNeg e = some e') (hs : NoEvenRoot e) : NoEvenRoot e' := by
  unfold ruleNegNeg at h
  split at h
  · obtain rfl := Option.some.inj h
    exact hs.neg_inv.neg_inv
  · cases h

theorem ruleNegSum_ner (h : ruleNegSum e = some e') (hs : NoEvenRoot e) : NoEvenRoot e' := by
  unfold ruleNegSum at h
  split at h
  · obtain rfl := Option.some.inj h
    simpa using hs.neg_inv.add_inv
  · cases h

theorem ruleMulFlatten_ner (h : ruleMulFlatten e = some e') (hs : NoEvenRoot e) : NoEvenRoot e' := by
  unfold ruleMulFlatten at h
  split at h
  · simp only [Option.map_eq_some_iff] at h
    obtain ⟨as', h1, rfl⟩ := h
    rw [ner_mul]
    refine forall_spliceFirst NoEvenRoot asMul ?_ _ _ h1 hs.mul_inv
    intro e inner he hP
    cases e <;> simp [asMul] at he
    subst he; exact hP.mul_inv
  · cases h

theorem ruleMulZero_ner (h : ruleMulZero N e = some e') (_hs : NoEvenRoot e) : NoEvenRoot e' := by
  unfold ruleMulZero at h
  split at h
  · split at h
    · obtain rfl := Option.some.inj h; simp
    · cases h
  · cases h

theorem ruleMulOnes_ner (h : ruleMulOnes N e = some e') (hs : NoEvenRoot e) : NoEvenRoot e' := by
  unfold ruleMulOnes at h
  split at h
  · simp only at h
    split at h
    · cases h
    · obtain rfl := Option.some.inj h
      rw [ner_mul]
      exact fun a ha => hs.mul_inv a (List.mem_filter.mp ha).1
  · cases h

theorem ner_mem_filterMap_asNeg {as : List (Expr α)} (has : ∀ a ∈ as, NoEvenRoot a) :
    ∀ u ∈ as.filterMap asNeg, NoEvenRoot u := by
  intro u hu
  obtain ⟨a, ha, hau⟩ := List.mem_filterMap.mp hu
  cases a <;> simp [asNeg] at hau
  subst hau; exact (has _ ha).neg_inv

theorem ner_mem_filterMap_asRecip {as : List (Expr α)} (has : ∀ a ∈ as, NoEvenRoot a) :
    ∀ u ∈ as.filterMap asRecip, NoEvenRoot u := by
  intro u hu
  obtain ⟨a, ha, hau⟩ := List.mem_filterMap.mp hu
  cases a <;> simp [asRecip] at hau
  subst hau; exact (has _ ha).recip_inv

theorem ruleMulNegs_ner (h : ruleMulNegs N e = some e') (hs : NoEvenRoot e) : NoEvenRoot e' := by
  unfold ruleMulNegs at h
  split at h
  · simp only at h
    have h1 := ner_mem_filterMap_asNeg hs.mul_inv
    split at h
    · cases h
    · split at h
      · obtain rfl := Option.some.inj h
        rw [ner_mul]
        intro a ha
        rcases List.mem_append.mp ha with ha | ha
        · exact hs.mul_inv a (List.mem_filter.mp ha).1
        · exact h1 a ha
      · obtain rfl := Option.some.inj h
        rw [ner_mul]
        intro a ha
        rcases List.mem_append.mp ha with ha | ha
        · rcases List.mem_append.mp ha with ha | ha
          · exact hs.mul_inv a (List.mem_filter.mp ha).1
          · exact h1 a ha
        · simp only [List.mem_singleton] at ha; subst ha; simp
  · cases h

theorem ruleMulNPows_ner (h : ruleMulNPows e = some e') (hs : NoEvenRoot e) : NoEvenRoot e' := by
  unfold ruleMulNPows at h
  split at h
  · simp only [Option.map_eq_some_iff] at h
    obtain ⟨as', h1, rfl⟩ := h
    rw [ner_mul]
    refine forall_consolidate NoEvenRoot asNPow _ _ ?_ ?_ _ _ h1 hs.mul_inv
    · intro e k u he hP
      cases e <;> simp [asNPow] at he
      obtain ⟨rfl, rfl⟩ := he; exact hP.npow_inv
    · intro k vs hv; simpa using hv
  · cases h

/-- the keys of the groups built by `group_by_key` are keys of the items (here: root degrees) -/
theorem ner_groupInsert_keys {β : Type} (Q : Nat → Prop) (k : Nat) (v : β) (hk : Q k) :
    ∀ G : List (Nat × List β), (∀ g ∈ G, Q g.1) →
      ∀ g ∈ groupInsert (fun a b => a == b) k v G, Q g.1
  | [], _ => by simp [groupInsert, hk]
  | (k', vs) :: rest, hG => by
    have ih := ner_groupInsert_keys Q k v hk rest (fun g hg => hG g (List.mem_cons_of_mem _ hg))
    have h0 := hG (k', vs) List.mem_cons_self
    unfold groupInsert
    by_cases hkk : (k' == k) = true
    · simp only [hkk, if_true]
      intro g hg
      rcases List.mem_cons.mp hg with rfl | hg
      · exact h0
      · exact hG g (List.mem_cons_of_mem _ hg)
    · simp only [hkk]
      intro g hg
      rcases List.mem_cons.mp hg with rfl | hg
      · exact h0
      · exact ih g hg

theorem ner_foldl_groupInsert_keys {β : Type} (Q : Nat → Prop) :
    ∀ (items : List (Nat × β)) (acc : List (Nat × List β)), (∀ kv ∈ items, Q kv.1) →
      (∀ g ∈ acc, Q g.1) →
      ∀ g ∈ items.foldl (fun g kv => groupInsert (fun a b => a == b) kv.1 kv.2 g) acc, Q g.1
  | [], acc, _, h => by simpa using h
  | kv :: items, acc, hi, h => by
    simp only [List.foldl_cons]
    exact ner_foldl_groupInsert_keys Q items _ (fun x hx => hi x (List.mem_cons_of_mem _ hx))
      (ner_groupInsert_keys Q kv.1 kv.2 (hi kv List.mem_cons_self) acc h)

theorem ner_groupByKey_keys {β : Type} (Q : Nat → Prop) (items : List (Nat × β))
    (hi : ∀ kv ∈ items, Q kv.1) : ∀ g ∈ groupByKey (fun a b => a == b) items, Q g.1 :=
  ner_foldl_groupInsert_keys Q items [] hi (by simp)

/-- `mulNRoots` builds, per group, ONE root of the group's degree over the product of the radicands.
The degree is a key of `group_by_key`, i.e. the degree of some member, hence odd (the generic list
lemma `forall_consolidate` does not see the key, so the groups are inspected directly:
`ner_groupByKey_keys` for the degree, `forall_groupByKey` for the radicands). -/
theorem ruleMulNRoots_ner (h : ruleMulNRoots e = some e') (hs : NoEvenRoot e) : NoEvenRoot e' := by
  unfold ruleMulNRoots at h
  split at h
  · rename_i f as
    simp only [Option.map_eq_some_iff] at h
    obtain ⟨as', h1, rfl⟩ := h
    rw [ner_mul]
    have has := hs.mul_inv
    have hmem : ∀ kv ∈ as.filterMap asNRoot, kv.1 % 2 = 1 ∧ NoEvenRoot kv.2 := by
      intro kv hkv
      obtain ⟨a, ha, hau⟩ := List.mem_filterMap.mp hkv
      cases a <;> simp [asNRoot] at hau
      subst hau
      exact (ner_nroot ..).mp (has _ ha)
    unfold consolidate at h1
    simp only at h1
    split at h1
    · cases h1
    split at h1
    · cases h1
    obtain rfl := Option.some.inj h1
    intro a ha
    rcases List.mem_append.mp ha with ha | ha
    · exact has a (List.mem_filter.mp ha).1
    · obtain ⟨g, hg, rfl⟩ := List.mem_map.mp ha
      rw [ner_nroot, ner_mul]
      exact ⟨ner_groupByKey_keys (fun k => k % 2 = 1) _ (fun kv hkv => (hmem kv hkv).1) g hg,
        forall_groupByKey NoEvenRoot _ _ (fun kv hkv => (hmem kv hkv).2) g hg⟩
  · cases h

theorem ruleMulExps_ner (h : ruleMulExps N e = some e') (hs : NoEvenRoot e) : NoEvenRoot e' := by
  unfold ruleMulExps at h
  split at h
  · simp only [Option.map_eq_some_iff] at h
    obtain ⟨as', h1, rfl⟩ := h
    rw [ner_mul]
    refine forall_consolidate NoEvenRoot asExp N.eq _ ?_ ?_ _ _ h1 hs.mul_inv
    · intro e k u he hP
      cases e <;> simp [asExp] at he
      obtain ⟨rfl, rfl⟩ := he; exact hP.exp_inv
    · intro k vs hv; simpa using hv
  · cases h

theorem ruleMulConsts_ner (h : ruleMulConsts N e = some e') (hs : NoEvenRoot e) : NoEvenRoot e' := by
  unfold ruleMulConsts at h
  split at h
  · simp only at h
    split at h
    · cases h
    · obtain rfl := Option.some.inj h
      rw [ner_mul]
      intro a ha
      rcases List.mem_append.mp ha with ha | ha
      · exact hs.mul_inv a (List.mem_filter.mp ha).1
      · simp only [List.mem_singleton] at ha; subst ha; simp
  · cases h

theorem ruleDivToMul_ner (h : ruleDivToMul e = some e') (hs : NoEvenRoot e) : NoEvenRoot e' := by
  unfold ruleDivToMul at h
  split at h
  · obtain rfl := Option.some.inj h
    simpa using hs.div_inv
  · cases h

theorem ruleRecipRecip_ner (h : ruleRecipRecip e = some e') (hs : NoEvenRoot e) : NoEvenRoot e' := by
  unfold ruleRecipRecip at h
  split at h
  · obtain rfl := Option.some.inj h
    exact hs.recip_inv.recip_inv
  · cases h

theorem ruleRecipNeg_ner (h : ruleRecipNeg e = some e') (hs : NoEvenRoot e) : NoEvenRoot e' := by
  unfold ruleRecipNeg at h
  split at h
  · obtain rfl := Option.some.inj h
    simpa using hs.recip_inv.neg_inv
  · cases h

theorem ruleRecipProd_ner (h : ruleRecipProd e = some e') (hs : NoEvenRoot e) : NoEvenRoot e' := by
  unfold ruleRecipProd at h
  split at h
  · obtain rfl := Option.some.inj h
    simpa using hs.recip_inv.mul_inv
  · cases h

theorem rulePowOne_ner (h : rulePowOne N e = some e') (hs : NoEvenRoot e) : NoEvenRoot e' := by
  unfold rulePowOne at h
  split at h
  · split at h
    · obtain rfl := Option.some.inj h; exact hs.pow_inv.1
    · cases h
  · cases h

theorem rulePowZero_ner (h : rulePowZero N e = some e') (_hs : NoEvenRoot e) : NoEvenRoot e' := by
  unfold rulePowZero at h
  split at h
  · split at h
    · obtain rfl := Option.some.inj h; simp
    · cases h
  · cases h

theorem ruleOnePow_ner (h : ruleOnePow N e = some e') (_hs : NoEvenRoot e) : NoEvenRoot e' := by
  unfold ruleOnePow at h
  split at h
  · split at h
    · obtain rfl := Option.some.inj h; simp
    · cases h
  · cases h

theorem rulePowNat_ner (h : rulePowNat N e = some e') (hs : NoEvenRoot e) : NoEvenRoot e' := by
  unfold rulePowNat at h
  split at h
  · split at h
    · split at h
      · obtain rfl := Option.some.inj h; simpa using hs.pow_inv.1
      · cases h
    · cases h
  · cases h

theorem rulePowNegOne_ner (h : rulePowNegOne N e = some e') (hs : NoEvenRoot e) : NoEvenRoot e' := by
  unfold rulePowNegOne at h
  split at h
  · split at h
    · obtain rfl := Option.some.inj h; simpa using hs.pow_inv.1
    · cases h
  · cases h

theorem rulePowConstBase_ner (h : rulePowConstBase N e = some e') (hs : NoEvenRoot e) :
    NoEvenRoot e' := by
  unfold rulePowConstBase at h
  split at h
  · split at h
    · obtain rfl := Option.some.inj h; simpa using hs.pow_inv.2
    · cases h
  · cases h

theorem rulePowPow_ner (h : rulePowPow e = some e') (hs : NoEvenRoot e) : NoEvenRoot e' := by
  unfold rulePowPow at h
  split at h
  · obtain rfl := Option.some.inj h
    have h1 := hs.pow_inv
    have h2 := h1.1.pow_inv
    simp [h1.2, h2.1, h2.2]
  · cases h

theorem rulePowNegExp_ner (h : rulePowNegExp e = some e') (hs : NoEvenRoot e) : NoEvenRoot e' := by
  unfold rulePowNegExp at h
  split at h
  · obtain rfl := Option.some.inj h
    have h1 := hs.pow_inv
    simp [h1.1, h1.2.neg_inv]
  · cases h

theorem rulePowRecipBase_ner (h : rulePowRecipBase e = some e') (hs : NoEvenRoot e) :
    NoEvenRoot e' := by
  unfold rulePowRecipBase at h
  split at h
  · obtain rfl := Option.some.inj h
    have h1 := hs.pow_inv
    simp [h1.2, h1.1.recip_inv]
  · cases h

theorem ruleNPowOne_ner (h : ruleNPowOne e = some e') (hs : NoEvenRoot e) : NoEvenRoot e' := by
  unfold ruleNPowOne at h
  split at h
  · split at h
    · obtain rfl := Option.some.inj h; exact hs.npow_inv
    · cases h
  · cases h

/-- `npowRoot` creates the root of degree `m / gcd m n`: a divisor-quotient of the odd `m` is odd -/
theorem ruleNPowRoot_ner (h : ruleNPowRoot e = some e') (hs : NoEvenRoot e) : NoEvenRoot e' := by
  unfold ruleNPowRoot at h
  split at h
  · split at h
    · obtain rfl := Option.some.inj h; exact hs.npow_inv.nroot_inv
    · simp only at h
      split at h
      · obtain rfl := Option.some.inj h
        rw [ner_npow, ner_nroot]
        exact ⟨ner_odd_div_gcd _ hs.npow_inv.nroot_odd, hs.npow_inv.nroot_inv⟩
      · cases h
  · cases h

theorem ruleNPowPow_ner (h : ruleNPowPow e = some e') (hs : NoEvenRoot e) : NoEvenRoot e' := by
  unfold ruleNPowPow at h
  split at h
  · obtain rfl := Option.some.inj h; simpa using hs.npow_inv.npow_inv
  · cases h

theorem ruleNPowNeg_ner (h : ruleNPowNeg e = some e') (hs : NoEvenRoot e) : NoEvenRoot e' := by
  unfold ruleNPowNeg at h
  split at h
  · split at h
    · obtain rfl := Option.some.inj h; simpa using hs.npow_inv.neg_inv
    · obtain rfl := Option.some.inj h; simpa using hs.npow_inv.neg_inv
  · cases h

theorem ruleNPowRecip_ner (h : ruleNPowRecip e = some e') (hs : NoEvenRoot e) : NoEvenRoot e' := by
  unfold ruleNPowRecip at h
  split at h
  · obtain rfl := Option.some.inj h; simpa using hs.npow_inv.recip_inv
  · cases h

theorem ruleNPowExp_ner (h : ruleNPowExp N e = some e') (hs : NoEvenRoot e) : NoEvenRoot e' := by
  unfold ruleNPowExp at h
  split at h
  · obtain rfl := Option.some.inj h; simpa using hs.npow_inv.exp_inv
  · cases h

theorem ruleNRootOne_ner (h : ruleNRootOne e = some e') (hs : NoEvenRoot e) : NoEvenRoot e' := by
  unfold ruleNRootOne at h
  split at h
  · split at h
    · obtain rfl := Option.some.inj h; exact hs.nroot_inv
    · cases h
  · cases h

/-- `nrootPow` (the rule of K1) moves the root inside the power: same degree `n` -/
theorem ruleNRootPow_ner (h : ruleNRootPow e = some e') (hs : NoEvenRoot e) : NoEvenRoot e' := by
  unfold ruleNRootPow at h
  split at h
  · obtain rfl := Option.some.inj h
    rw [ner_npow, ner_nroot]
    exact ⟨hs.nroot_odd, hs.nroot_inv.npow_inv⟩
  · cases h

/-- `nrootRoot` multiplies the degrees: odd · odd -/
theorem ruleNRootRoot_ner (h : ruleNRootRoot e = some e') (hs : NoEvenRoot e) : NoEvenRoot e' := by
  unfold ruleNRootRoot at h
  split at h
  · obtain rfl := Option.some.inj h
    rw [ner_nroot]
    exact ⟨ner_odd_mul hs.nroot_odd hs.nroot_inv.nroot_odd, hs.nroot_inv.nroot_inv⟩
  · cases h

theorem ruleNRootNeg_ner (h : ruleNRootNeg e = some e') (hs : NoEvenRoot e) : NoEvenRoot e' := by
  unfold ruleNRootNeg at h
  split at h
  · split at h
    · obtain rfl := Option.some.inj h
      rw [ner_neg, ner_nroot]
      exact ⟨hs.nroot_odd, hs.nroot_inv.neg_inv⟩
    · cases h
  · cases h

theorem ruleNRootRecip_ner (h : ruleNRootRecip e = some e') (hs : NoEvenRoot e) : NoEvenRoot e' := by
  unfold ruleNRootRecip at h
  split at h
  · obtain rfl := Option.some.inj h
    rw [ner_recip, ner_nroot]
    exact ⟨hs.nroot_odd, hs.nroot_inv.recip_inv⟩
  · cases h

theorem ruleExpLog_ner (h : ruleExpLog N e = some e') (hs : NoEvenRoot e) : NoEvenRoot e' := by
  unfold ruleExpLog at h
  split at h
  · split at h
    · obtain rfl := Option.some.inj h; exact hs.exp_inv.log_inv
    · cases h
  · cases h

theorem ruleExpNeg_ner (h : ruleExpNeg e = some e') (hs : NoEvenRoot e) : NoEvenRoot e' := by
  unfold ruleExpNeg at h
  split at h
  · obtain rfl := Option.some.inj h; simpa using hs.exp_inv.neg_inv
  · cases h

theorem ruleLogExp_ner (h : ruleLogExp N e = some e') (hs : NoEvenRoot e) : NoEvenRoot e' := by
  unfold ruleLogExp at h
  split at h
  · split at h
    · obtain rfl := Option.some.inj h; exact hs.log_inv.exp_inv
    · cases h
  · cases h

theorem ruleLogRecip_ner (h : ruleLogRecip e = some e') (hs : NoEvenRoot e) : NoEvenRoot e' := by
  unfold ruleLogRecip at h
  split at h
  · obtain rfl := Option.some.inj h; simpa using hs.log_inv.recip_inv
  · cases h

theorem ruleLogNPow_ner (h : ruleLogNPow N e = some e') (hs : NoEvenRoot e) : NoEvenRoot e' := by
  unfold ruleLogNPow at h
  split at h
  · split at h
    · obtain rfl := Option.some.inj h; simpa using hs.log_inv.npow_inv
    · cases h
  · cases h

theorem ruleCosNeg_ner (h : ruleCosNeg e = some e') (hs : NoEvenRoot e) : NoEvenRoot e' := by
  unfold ruleCosNeg at h
  split at h
  · obtain rfl := Option.some.inj h; simpa using hs.cos_inv.neg_inv
  · cases h

theorem ruleSinNeg_ner (h : ruleSinNeg e = some e') (hs : NoEvenRoot e) : NoEvenRoot e' := by
  unfold ruleSinNeg at h
  split at h
  · obtain rfl := Option.some.inj h; simpa using hs.sin_inv.neg_inv
  · cases h

end Rules

/-- **every one of the 46 rules keeps the expression free of even roots** -/
theorem ner_rule (N : Num α) (r : RuleId) {e e' : Expr α} (h : r.apply N e = some e')
    (hs : NoEvenRoot e) : NoEvenRoot e' := by
  cases r <;> simp only [RuleId.apply] at h
  · exact ruleAddFlatten_ner h hs
  · exact ruleAddZeros_ner h hs
  · exact ruleAddLogs_ner h hs
  · exact ruleAddConsts_ner h hs
  · exact ruleMinusToSum_ner h hs
  · exact ruleNegNeg_ner h hs
  · exact ruleNegSum_ner h hs
  · exact ruleMulFlatten_ner h hs
  · exact ruleMulZero_ner h hs
  · exact ruleMulOnes_ner h hs
  · exact ruleMulNegs_ner h hs
  · exact ruleMulNPows_ner h hs
  · exact ruleMulNRoots_ner h hs
  · exact ruleMulExps_ner h hs
  · exact ruleMulConsts_ner h hs
  · exact ruleDivToMul_ner h hs
  · exact ruleRecipRecip_ner h hs
  · exact ruleRecipNeg_ner h hs
  · exact ruleRecipProd_ner h hs
  · exact rulePowOne_ner h hs
  · exact rulePowZero_ner h hs
  · exact ruleOnePow_ner h hs
  · exact rulePowNat_ner h hs
  · exact rulePowNegOne_ner h hs
  · exact rulePowConstBase_ner h hs
  · exact rulePowPow_ner h hs
  · exact rulePowNegExp_ner h hs
  · exact rulePowRecipBase_ner h hs
  · exact ruleNPowOne_ner h hs
  · exact ruleNPowRoot_ner h hs
  · exact ruleNPowPow_ner h hs
  · exact ruleNPowNeg_ner h hs
  · exact ruleNPowRecip_ner h hs
  · exact ruleNPowExp_ner h hs
  · exact ruleNRootOne_ner h hs
  · exact ruleNRootPow_ner h hs
  · exact ruleNRootRoot_ner h hs
  · exact ruleNRootNeg_ner h hs
  · exact ruleNRootRecip_ner h hs
  · exact ruleExpLog_ner h hs
  · exact ruleExpNeg_ner h hs
  · exact ruleLogExp_ner h hs
  · exact ruleLogRecip_ner h hs
  · exact ruleLogNPow_ner h hs
  · exact ruleCosNeg_ner h hs
  · exact ruleSinNeg_ner h hs

end Smooth
