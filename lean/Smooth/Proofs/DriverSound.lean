/-
Proofs/DriverSound — C08 at the level of the driver: one step of `_take_reduction_step`, the
`_fully_reduce` loop for every budget (exhaustion included), and the normal-form pass, all yield an
expression that `Refines` the input — ASSUMING the individual rewrite rules do where they are
`Allowed` (`RulesSound`; proved rule by rule in Proofs/RulesNary and Proofs/RulesUnary).

The side condition is exact: `stepRedex e` is the (rule, redex) pair of the one rule application the
step `stepF realNum e` performs (if it performs one), and only that application must be `Allowed`.
-/
import Smooth.Proofs.ListSem

namespace Smooth
open Expr

/-! ### variable-free expressions: the valuation does not matter -/

mutual
theorem den_congr_b {ρ ρ' : String → ℝ} : ∀ e : Expr ℝ, (∀ x, Occurs x e → ρ x = ρ' x) →
    den ρ e = den ρ' e
  | .const _ _, _ => by simp [den]
  | .var _ x, h => by simpa [den] using h x (by simp [Occurs])
  | .add _ as, h => by simp only [den]; rw [denList_congr_b as (by simpa [Occurs] using h)]
  | .mul _ as, h => by simp only [den]; rw [denList_congr_b as (by simpa [Occurs] using h)]
  | .minus _ l r, h => by
    simp only [den]
    rw [den_congr_b l fun x hx => h x (by simp [Occurs, hx]),
      den_congr_b r fun x hx => h x (by simp [Occurs, hx])]
  | .div _ l r, h => by
    simp only [den]
    rw [den_congr_b l fun x hx => h x (by simp [Occurs, hx]),
      den_congr_b r fun x hx => h x (by simp [Occurs, hx])]
  | .pow _ l r, h => by
    simp only [den]
    rw [den_congr_b l fun x hx => h x (by simp [Occurs, hx]),
      den_congr_b r fun x hx => h x (by simp [Occurs, hx])]
  | .neg _ u, h => by simp only [den]; rw [den_congr_b u (by simpa [Occurs] using h)]
  | .recip _ u, h => by simp only [den]; rw [den_congr_b u (by simpa [Occurs] using h)]
  | .npow _ u _, h => by simp only [den]; rw [den_congr_b u (by simpa [Occurs] using h)]
  | .nroot _ u _, h => by simp only [den]; rw [den_congr_b u (by simpa [Occurs] using h)]
  | .exp _ u _, h => by simp only [den]; rw [den_congr_b u (by simpa [Occurs] using h)]
  | .log _ u _, h => by simp only [den]; rw [den_congr_b u (by simpa [Occurs] using h)]
  | .cos _ u, h => by simp only [den]; rw [den_congr_b u (by simpa [Occurs] using h)]
  | .sin _ u, h => by simp only [den]; rw [den_congr_b u (by simpa [Occurs] using h)]
theorem denList_congr_b {ρ ρ' : String → ℝ} : ∀ es : List (Expr ℝ),
    (∀ x, OccursList x es → ρ x = ρ' x) → denList ρ es = denList ρ' es
  | [], _ => by simp [denList]
  | e :: es, h => by
    simp only [denList]
    rw [den_congr_b e fun x hx => h x (by simp [OccursList, hx]),
      denList_congr_b es fun x hx => h x (by simp [OccursList, hx])]
end

mutual
theorem dom_congr {ρ ρ' : String → ℝ} : ∀ e : Expr ℝ, (∀ x, Occurs x e → ρ x = ρ' x) →
    (Dom ρ e ↔ Dom ρ' e)
  | .const _ _, _ => by simp [Dom]
  | .var _ x, _ => by simp [Dom]
  | .add _ as, h => by simp only [Dom]; exact domList_congr as (by simpa [Occurs] using h)
  | .mul _ as, h => by simp only [Dom]; exact domList_congr as (by simpa [Occurs] using h)
  | .minus _ l r, h => by
    simp only [Dom]
    rw [dom_congr l fun x hx => h x (by simp [Occurs, hx]),
      dom_congr r fun x hx => h x (by simp [Occurs, hx])]
  | .div _ l r, h => by
    simp only [Dom]
    rw [dom_congr l fun x hx => h x (by simp [Occurs, hx]),
      dom_congr r fun x hx => h x (by simp [Occurs, hx]),
      den_congr_b r fun x hx => h x (by simp [Occurs, hx])]
  | .pow _ l r, h => by
    simp only [Dom]
    rw [dom_congr l fun x hx => h x (by simp [Occurs, hx]),
      dom_congr r fun x hx => h x (by simp [Occurs, hx]),
      den_congr_b l fun x hx => h x (by simp [Occurs, hx])]
  | .neg _ u, h => by simp only [Dom]; exact dom_congr u (by simpa [Occurs] using h)
  | .recip _ u, h => by
    have h' : ∀ x, Occurs x u → ρ x = ρ' x := by simpa [Occurs] using h
    simp only [Dom]; rw [dom_congr u h', den_congr_b u h']
  | .npow _ u _, h => by simp only [Dom]; exact dom_congr u (by simpa [Occurs] using h)
  | .nroot _ u _, h => by
    have h' : ∀ x, Occurs x u → ρ x = ρ' x := by simpa [Occurs] using h
    simp only [Dom]; rw [dom_congr u h', den_congr_b u h']
  | .exp _ u _, h => by simp only [Dom]; exact dom_congr u (by simpa [Occurs] using h)
  | .log _ u _, h => by
    have h' : ∀ x, Occurs x u → ρ x = ρ' x := by simpa [Occurs] using h
    simp only [Dom]; rw [dom_congr u h', den_congr_b u h']
  | .cos _ u, h => by simp only [Dom]; exact dom_congr u (by simpa [Occurs] using h)
  | .sin _ u, h => by simp only [Dom]; exact dom_congr u (by simpa [Occurs] using h)
theorem domList_congr {ρ ρ' : String → ℝ} : ∀ es : List (Expr ℝ),
    (∀ x, OccursList x es → ρ x = ρ' x) → (DomList ρ es ↔ DomList ρ' es)
  | [], _ => by simp [DomList]
  | e :: es, h => by
    simp only [DomList]
    rw [dom_congr e fun x hx => h x (by simp [OccursList, hx]),
      domList_congr es fun x hx => h x (by simp [OccursList, hx])]
end

theorem not_occurs_of_vars_nil {e : Expr ℝ} (h : e.vars = []) (x : String) : ¬ Occurs x e := by
  intro hx
  have := (mem_vars x e).mpr hx
  rw [h] at this
  cases this

/-- a variable-free expression is supplied by every point -/
theorem supp_of_vars_nil {e : Expr ℝ} (h : e.vars = []) (p : Point ℝ) : Supp p e :=
  (supp_iff_vars p e).mpr (by rw [h]; intro x hx; cases hx)

/-- a variable-free expression has the same value and domain under every valuation -/
theorem den_of_vars_nil {e : Expr ℝ} (h : e.vars = []) (ρ ρ' : String → ℝ) : den ρ e = den ρ' e :=
  den_congr_b e fun x hx => absurd hx (not_occurs_of_vars_nil h x)

theorem dom_of_vars_nil {e : Expr ℝ} (h : e.vars = []) (ρ ρ' : String → ℝ) : Dom ρ e ↔ Dom ρ' e :=
  dom_congr e fun x hx => absurd hx (not_occurs_of_vars_nil h x)

/-! ### constant folding -/

theorem foldAttempt_inl {e : Expr ℝ} {v : ℝ} (h : foldAttempt realNum e = some (.inl v)) :
    e.vars = [] ∧ evalG realNum [] e = .ok v := by
  unfold foldAttempt at h
  split at h
  · cases h
  · next hv =>
    split at h
    · cases h
    · split at h
      · cases h
      · split at h
        · next w hw =>
          simp only [Option.some.injEq, Sum.inl.injEq] at h
          subst h
          refine ⟨?_, hw⟩
          simpa using hv
        · cases h
        · cases h

/-- **constant folding is sound**: a variable-free expression that evaluates to `v` is refined by
the constant `v` -/
theorem fold_refines {e : Expr ℝ} {v : ℝ} (h : foldAttempt realNum e = some (.inl v)) :
    Refines e (mkConst v) := by
  obtain ⟨hv, hev⟩ := foldAttempt_inl h
  refine ⟨fun _ => trivial, fun _ _ => trivial, fun hwf ρ _ => ⟨trivial, ?_⟩⟩
  obtain ⟨_, _, rfl⟩ := (evalR_good [] e hwf).ok_iff.mp hev
  simp only [den]
  exact den_of_vars_nil hv _ _

/-! ### one step -/

/-- what the per-rule theorems provide: each rule refines its input wherever it is `Allowed`
(`Allowed` is the abstract side condition; it is `True` for all rules but the known exception) -/
def RulesSound (Allowed : RuleId → Expr ℝ → Prop) : Prop :=
  ∀ r e e', r.apply realNum e = some e' → Allowed r e → Refines e e'

theorem firstRule_some {α : Type} {N : Num α} {e : Expr α} {r : RuleId} {e' : Expr α} :
    ∀ {rs : List RuleId}, firstRule N e rs = some (r, e') → r.apply N e = some e' ∧ r ∈ rs
  | [], h => by simp [firstRule] at h
  | r' :: rs, h => by
    simp only [firstRule] at h
    split at h
    · next e'' he =>
      simp only [Option.some.injEq, Prod.mk.injEq] at h
      obtain ⟨rfl, rfl⟩ := h
      exact ⟨he, List.mem_cons_self ..⟩
    · exact ⟨(firstRule_some h).1, List.mem_cons_of_mem _ (firstRule_some h).2⟩

/-- the redex of a node whose children are all flagged: the node itself (with `_evaluation_failed`
set when constant folding was attempted and raised), and the first reducer that applies -/
noncomputable def nodeRedex (self : Expr ℝ) (child : Option (Option (RuleId × Expr ℝ))) :
    Option (RuleId × Expr ℝ) :=
  if self.isRed then none
  else match foldAttempt realNum self with
    | some (.inl _) => none
    | fa =>
      match child with
      | some c => c
      | none =>
        let self' := if fa.isSome then self.markFailed else self
        (firstRule realNum self' (reducers self')).map fun re => (re.1, self')

mutual
/-- `stepRedex e = some (r, e₀)`: the step `stepF realNum e` applies rule `r` to the sub-expression
`e₀` (and does nothing else but rebuild the path to it); `none`: the step applies no rule (it returns
a flagged node unchanged, folds a constant, or sets a flag).  Mirrors `stepF`. -/
noncomputable def stepRedex : Expr ℝ → Option (RuleId × Expr ℝ)
  | .const _ _ => none
  | .var _ _ => none
  | .add f as => nodeRedex (.add f as) (listRedex as)
  | .mul f as => nodeRedex (.mul f as) (listRedex as)
  | .minus f l r => nodeRedex (.minus f l r)
      (if !l.isRed then some (stepRedex l) else if !r.isRed then some (stepRedex r) else none)
  | .div f l r => nodeRedex (.div f l r)
      (if !l.isRed then some (stepRedex l) else if !r.isRed then some (stepRedex r) else none)
  | .pow f l r => nodeRedex (.pow f l r)
      (if !l.isRed then some (stepRedex l) else if !r.isRed then some (stepRedex r) else none)
  | .neg f u => nodeRedex (.neg f u) (if !u.isRed then some (stepRedex u) else none)
  | .recip f u => nodeRedex (.recip f u) (if !u.isRed then some (stepRedex u) else none)
  | .npow f u n => nodeRedex (.npow f u n) (if !u.isRed then some (stepRedex u) else none)
  | .nroot f u n => nodeRedex (.nroot f u n) (if !u.isRed then some (stepRedex u) else none)
  | .exp f u b => nodeRedex (.exp f u b) (if !u.isRed then some (stepRedex u) else none)
  | .log f u b => nodeRedex (.log f u b) (if !u.isRed then some (stepRedex u) else none)
  | .cos f u => nodeRedex (.cos f u) (if !u.isRed then some (stepRedex u) else none)
  | .sin f u => nodeRedex (.sin f u) (if !u.isRed then some (stepRedex u) else none)
/-- the redex inside the first unflagged entry of a child list (`none`: every entry is flagged) -/
noncomputable def listRedex : List (Expr ℝ) → Option (Option (RuleId × Expr ℝ))
  | [] => none
  | e :: es => if !e.isRed then some (stepRedex e) else listRedex es
end

/-- the shape of a step: with redex `(r, e₀)` the rule does apply to `e₀`, the step's event names
`r`, and the result `R` (a refinement statement) follows from the rule being sound at `e₀`;
without a redex `R` holds outright and the event names no rule -/
def StepSpec (c : Option (RuleId × Expr ℝ)) (R : Prop) (ev : StepEvent) : Prop :=
  match c with
  | some (r, e₀) => ∃ e₁, r.apply realNum e₀ = some e₁ ∧ (Refines e₀ e₁ → R) ∧ ev = .rule r
  | none => R ∧ ∀ r, ev ≠ .rule r

theorem StepSpec.mono {c : Option (RuleId × Expr ℝ)} {R R' : Prop} {ev : StepEvent}
    (h : StepSpec c R ev) (hR : R → R') : StepSpec c R' ev := by
  unfold StepSpec at *
  split
  · next r e₀ =>
    obtain ⟨e₁, h1, h2, h3⟩ := h
    exact ⟨e₁, h1, fun hh => hR (h2 hh), h3⟩
  · exact ⟨hR h.1, h.2⟩

def ChildSpec (self : Expr ℝ) (child : Option (Option (RuleId × Expr ℝ)))
    (res : Option (Expr ℝ × StepEvent)) : Prop :=
  match child, res with
  | none, none => True
  | some c, some r => StepSpec c (Refines self r.1) r.2
  | _, _ => False

def ListSpec (as : List (Expr ℝ)) (child : Option (Option (RuleId × Expr ℝ)))
    (res : Option (List (Expr ℝ) × StepEvent)) : Prop :=
  match child, res with
  | none, none => True
  | some c, some r => StepSpec c (RefinesList as r.1) r.2
  | _, _ => False

theorem stepTop_spec (self self' : Expr ℝ) (hself' : Refines self self') :
    StepSpec ((firstRule realNum self' (reducers self')).map fun re => (re.1, self'))
      (Refines self (stepTop realNum self').1) (stepTop realNum self').2 := by
  simp only [stepTop]
  cases hfr : firstRule realNum self' (reducers self') with
  | none => simp [StepSpec, hself'.trans (markRed_refines self')]
  | some re =>
    obtain ⟨r, e'⟩ := re
    simp only [Option.map_some, StepSpec]
    exact ⟨e', (firstRule_some hfr).1, fun hh => hself'.trans hh, trivial⟩

theorem stepNode_spec (self : Expr ℝ) (sc : Unit → Option (Expr ℝ × StepEvent))
    (child : Option (Option (RuleId × Expr ℝ))) (h : ChildSpec self child (sc ())) :
    StepSpec (nodeRedex self child) (Refines self (stepNode realNum self sc).1)
      (stepNode realNum self sc).2 := by
  unfold stepNode nodeRedex
  by_cases hr : self.isRed = true
  · simp [hr, StepSpec, Refines.refl]
  · simp only [hr, Bool.false_eq_true, if_false]
    generalize sc () = res at h ⊢
    rcases hfa : foldAttempt realNum self with _ | (v | u)
    · cases child with
      | none =>
        cases res with
        | none => exact stepTop_spec self self (Refines.refl self)
        | some r => exact absurd h (by simp [ChildSpec])
      | some c =>
        cases res with
        | none => exact absurd h (by simp [ChildSpec])
        | some r => exact h
    · simp [StepSpec, fold_refines hfa]
    · cases child with
      | none =>
        cases res with
        | none => exact stepTop_spec self self.markFailed (markFailed_refines self)
        | some r => exact absurd h (by simp [ChildSpec])
      | some c =>
        cases res with
        | none => exact absurd h (by simp [ChildSpec])
        | some r => exact h

theorem childSpec_unary (mk : Expr ℝ → Expr ℝ) (self u : Expr ℝ) (c : Option (RuleId × Expr ℝ))
    (st : Expr ℝ × StepEvent) (hc : ∀ u', Refines u u' → Refines self (mk u'))
    (ih : StepSpec c (Refines u st.1) st.2) :
    ChildSpec self (if !u.isRed then some c else none)
      (if !u.isRed then let (u', ev) := st; some (mk u', ev) else none) := by
  obtain ⟨u', ev⟩ := st
  by_cases hu : u.isRed = true
  · simp [hu, ChildSpec]
  · simp only [hu, Bool.not_false, if_true, ChildSpec, Bool.not_eq_true] at *
    simpa [hu, ChildSpec] using ih.mono (hc u')

theorem childSpec_binary (mk : Expr ℝ → Expr ℝ → Expr ℝ) (self l r : Expr ℝ)
    (cl cr : Option (RuleId × Expr ℝ)) (stl str : Expr ℝ × StepEvent)
    (hl : ∀ l', Refines l l' → Refines self (mk l' r))
    (hr : ∀ r', Refines r r' → Refines self (mk l r'))
    (ihl : StepSpec cl (Refines l stl.1) stl.2) (ihr : StepSpec cr (Refines r str.1) str.2) :
    ChildSpec self (if !l.isRed then some cl else if !r.isRed then some cr else none)
      (if !l.isRed then let (l', ev) := stl; some (mk l' r, ev)
       else if !r.isRed then let (r', ev) := str; some (mk l r', ev) else none) := by
  obtain ⟨l', evl⟩ := stl
  obtain ⟨r', evr⟩ := str
  by_cases hlr : l.isRed = true
  · by_cases hrr : r.isRed = true
    · simp [hlr, hrr, ChildSpec]
    · simpa [hlr, hrr, ChildSpec] using ihr.mono (hr r')
  · simpa [hlr, ChildSpec] using ihl.mono (hl l')

theorem childSpec_list (mk : List (Expr ℝ) → Expr ℝ) (self : Expr ℝ) (as : List (Expr ℝ))
    (child : Option (Option (RuleId × Expr ℝ))) (res : Option (List (Expr ℝ) × StepEvent))
    (hc : ∀ as', RefinesList as as' → Refines self (mk as')) (ih : ListSpec as child res) :
    ChildSpec self child (res.map fun (as', ev) => (mk as', ev)) := by
  cases child <;> cases res <;> simp [ListSpec, ChildSpec] at ih ⊢
  exact ih.mono (hc _)

mutual
/-- **the anatomy of a step**: `stepF realNum e` either applies no rule and refines `e` outright, or
applies exactly the rule `r` at the redex `e₀` given by `stepRedex e`, reports `.rule r`, and its
result refines `e` as soon as that one application refines `e₀` -/
theorem stepF_spec : ∀ e : Expr ℝ,
    StepSpec (stepRedex e) (Refines e (stepF realNum e).1) (stepF realNum e).2
  | .const f v => by
    simp only [stepRedex, stepF, StepSpec]
    refine ⟨setFlags_refines { f with red := true } (.const f v), ?_⟩
    intro r; split <;> simp
  | .var f x => by
    simp only [stepRedex, stepF, StepSpec]
    refine ⟨setFlags_refines { f with red := true } (.var f x), ?_⟩
    intro r; split <;> simp
  | .add f as => by
    simp only [stepRedex, stepF]
    apply stepNode_spec
    exact childSpec_list mkAdd _ as _ _ (fun _ h => Refines.add_congr _ _ h) (stepList_spec as)
  | .mul f as => by
    simp only [stepRedex, stepF]
    apply stepNode_spec
    exact childSpec_list mkMul _ as _ _ (fun _ h => Refines.mul_congr _ _ h) (stepList_spec as)
  | .minus f l r => by
    simp only [stepRedex, stepF]
    apply stepNode_spec
    exact childSpec_binary mkMinus _ l r _ _ _ _
      (fun _ h => Refines.minus_congr _ _ h (Refines.refl r))
      (fun _ h => Refines.minus_congr _ _ (Refines.refl l) h) (stepF_spec l) (stepF_spec r)
  | .div f l r => by
    simp only [stepRedex, stepF]
    apply stepNode_spec
    exact childSpec_binary mkDiv _ l r _ _ _ _
      (fun _ h => Refines.div_congr _ _ h (Refines.refl r))
      (fun _ h => Refines.div_congr _ _ (Refines.refl l) h) (stepF_spec l) (stepF_spec r)
  | .pow f l r => by
    simp only [stepRedex, stepF]
    apply stepNode_spec
    exact childSpec_binary mkPow _ l r _ _ _ _
      (fun _ h => Refines.pow_congr _ _ h (Refines.refl r))
      (fun _ h => Refines.pow_congr _ _ (Refines.refl l) h) (stepF_spec l) (stepF_spec r)
  | .neg f u => by
    simp only [stepRedex, stepF]
    apply stepNode_spec
    exact childSpec_unary mkNeg _ u _ _ (fun _ h => Refines.neg_congr _ _ h) (stepF_spec u)
  | .recip f u => by
    simp only [stepRedex, stepF]
    apply stepNode_spec
    exact childSpec_unary mkRecip _ u _ _ (fun _ h => Refines.recip_congr _ _ h) (stepF_spec u)
  | .npow f u n => by
    simp only [stepRedex, stepF]
    apply stepNode_spec
    exact childSpec_unary (mkNPow · n) _ u _ _ (fun _ h => Refines.npow_congr _ _ n h)
      (stepF_spec u)
  | .nroot f u n => by
    simp only [stepRedex, stepF]
    apply stepNode_spec
    exact childSpec_unary (mkNRoot · n) _ u _ _ (fun _ h => Refines.nroot_congr _ _ n h)
      (stepF_spec u)
  | .exp f u b => by
    simp only [stepRedex, stepF]
    apply stepNode_spec
    exact childSpec_unary (mkExp · b) _ u _ _ (fun _ h => Refines.exp_congr _ _ b h)
      (stepF_spec u)
  | .log f u b => by
    simp only [stepRedex, stepF]
    apply stepNode_spec
    exact childSpec_unary (mkLog · b) _ u _ _ (fun _ h => Refines.log_congr _ _ b h)
      (stepF_spec u)
  | .cos f u => by
    simp only [stepRedex, stepF]
    apply stepNode_spec
    exact childSpec_unary mkCos _ u _ _ (fun _ h => Refines.cos_congr _ _ h) (stepF_spec u)
  | .sin f u => by
    simp only [stepRedex, stepF]
    apply stepNode_spec
    exact childSpec_unary mkSin _ u _ _ (fun _ h => Refines.sin_congr _ _ h) (stepF_spec u)
theorem stepList_spec : ∀ as : List (Expr ℝ),
    ListSpec as (listRedex as) (stepFirstUnreduced realNum as)
  | [] => by simp [listRedex, stepFirstUnreduced, ListSpec]
  | e :: es => by
    simp only [listRedex, stepFirstUnreduced]
    by_cases he : e.isRed = true
    · simp only [he, Bool.not_true, Bool.false_eq_true, if_false]
      have ih := stepList_spec es
      revert ih
      cases listRedex es <;> cases stepFirstUnreduced realNum es <;> simp [ListSpec]
      intro ih
      exact ih.mono fun h => RefinesList.cons (Refines.refl e) h
    · have ih := stepF_spec e
      rcases hst : stepF realNum e with ⟨e', ev⟩
      rw [hst] at ih
      simp only [he, Bool.not_false, if_true, ListSpec]
      exact ih.mono fun h => RefinesList.cons h (RefinesList.refl es)
end

/-- the one rule application of this step (if any) is allowed -/
def StepOK (Allowed : RuleId → Expr ℝ → Prop) (e : Expr ℝ) : Prop :=
  ∀ r e₀, stepRedex e = some (r, e₀) → Allowed r e₀

/-- the step reports `.rule r` exactly when it has a redex for `r` -/
theorem stepF_event_rule (e : Expr ℝ) (r : RuleId) :
    (stepF realNum e).2 = .rule r ↔ ∃ e₀, stepRedex e = some (r, e₀) := by
  have h := stepF_spec e
  unfold StepSpec at h
  split at h
  · next r' e₀ heq =>
    obtain ⟨_, _, _, hev⟩ := h
    rw [hev, heq]
    constructor
    · intro hh; injection hh with hh; subst hh; exact ⟨e₀, rfl⟩
    · rintro ⟨e₀', hh⟩
      simp only [Option.some.injEq, Prod.mk.injEq] at hh
      rw [hh.1]
  · next heq =>
    rw [heq]
    constructor
    · intro hh; exact absurd hh (h.2 r)
    · rintro ⟨_, hh⟩; cases hh

/-- the redex is really rewritten by the rule the step names -/
theorem stepRedex_applies {e : Expr ℝ} {r : RuleId} {e₀ : Expr ℝ} (h : stepRedex e = some (r, e₀)) :
    ∃ e₁, r.apply realNum e₀ = some e₁ := by
  have hs := stepF_spec e
  rw [h] at hs
  obtain ⟨e₁, h1, _⟩ := hs
  exact ⟨e₁, h1⟩

/-- **every step is sound**: the result of `_take_reduction_step` refines its input, provided the
one rule application it performs (if any) is allowed -/
theorem step_refines {Allowed : RuleId → Expr ℝ → Prop} (hrules : RulesSound Allowed) (e : Expr ℝ)
    (hok : StepOK Allowed e) : Refines e (stepF realNum e).1 := by
  have h := stepF_spec e
  unfold StepSpec at h
  split at h
  · next r e₀ heq =>
    obtain ⟨e₁, h1, h2, _⟩ := h
    exact h2 (hrules r e₀ e₁ h1 (hok r e₀ heq))
  · exact h.1

/-- the same with the side condition required of every conceivable rule application -/
theorem step_refines_global {Allowed : RuleId → Expr ℝ → Prop} (hrules : RulesSound Allowed)
    (hall : ∀ r e₀ e₁, r.apply realNum e₀ = some e₁ → Allowed r e₀) (e : Expr ℝ) :
    Refines e (stepF realNum e).1 :=
  step_refines hrules e fun _ _ h => by
    obtain ⟨e₁, h1⟩ := stepRedex_applies h
    exact hall _ _ e₁ h1

/-! ### the `_fully_reduce` loop -/

/-- every rule application of the run of `fullyReduceLoop` with this budget is allowed -/
def RunOK (Allowed : RuleId → Expr ℝ → Prop) : Nat → Expr ℝ → Prop
  | 0, _ => True
  | fuel + 1, e => e.isRed = true ∨ (StepOK Allowed e ∧ RunOK Allowed fuel (stepF realNum e).1)

theorem fullyReduceLoop_refines {Allowed : RuleId → Expr ℝ → Prop} (hrules : RulesSound Allowed) :
    ∀ (fuel : Nat) (e : Expr ℝ) (k : Nat) (tr : List StepEvent), RunOK Allowed fuel e →
      Refines e (fullyReduceLoop realNum fuel e k tr).expr
  | 0, e, k, tr, _ => by simpa [fullyReduceLoop] using markRed_refines e
  | fuel + 1, e, k, tr, hok => by
    simp only [fullyReduceLoop]
    by_cases hr : e.isRed = true
    · simp [hr, Refines.refl]
    · simp only [hr, Bool.false_eq_true, if_false]
      rcases hok with hok | ⟨hok1, hok2⟩
      · exact absurd hok hr
      · exact (step_refines hrules e hok1).trans
          (fullyReduceLoop_refines hrules fuel _ _ _ hok2)

/-- **`_fully_reduce` is sound for every budget**, the exhausted one included: when the budget runs
out the partially reduced expression is returned with only a flag set -/
theorem fullyReduce_refines {Allowed : RuleId → Expr ℝ → Prop} (hrules : RulesSound Allowed)
    (bound : Nat) (e : Expr ℝ) (hok : RunOK Allowed bound e) :
    Refines e (fullyReduceWith realNum bound e).expr :=
  fullyReduceLoop_refines hrules bound e 0 [] hok

theorem RunOK_of_forall {Allowed : RuleId → Expr ℝ → Prop}
    (hall : ∀ r e₀ e₁, r.apply realNum e₀ = some e₁ → Allowed r e₀) :
    ∀ (fuel : Nat) (e : Expr ℝ), RunOK Allowed fuel e
  | 0, _ => trivial
  | fuel + 1, e => Or.inr ⟨fun _ _ h => by
      obtain ⟨e₁, h1⟩ := stepRedex_applies h
      exact hall _ _ e₁ h1, RunOK_of_forall hall fuel _⟩

/-! ### the normal-form pass -/

theorem sum_map_neg' {β : Type} (f : β → ℝ) (l : List β) :
    (l.map fun x => -f x).sum = -(l.map f).sum := by
  induction l with
  | nil => simp
  | cons a l ih => simp [ih]; ring

theorem prod_map_inv' {β : Type} (f : β → ℝ) (l : List β) :
    (l.map fun x => (f x)⁻¹).prod = ((l.map f).prod)⁻¹ := by
  induction l with
  | nil => simp
  | cons a l ih => simp [ih, mul_comm]

theorem asNeg_eq_some {e u : Expr ℝ} (h : asNeg e = some u) : ∃ f, e = .neg f u := by
  cases e <;> simp [asNeg] at h
  subst h; exact ⟨_, rfl⟩

theorem asRecip_eq_some {e u : Expr ℝ} (h : asRecip e = some u) : ∃ f, e = .recip f u := by
  cases e <;> simp [asRecip] at h
  subst h; exact ⟨_, rfl⟩

theorem simplifiedAdd_refines (ts : List (Expr ℝ)) :
    Refines (mkAdd ts) (simplifiedAdd realNum ts) := by
  match ts with
  | [] =>
    simp only [simplifiedAdd]
    exact ⟨fun _ => trivial, fun _ _ => trivial, fun _ ρ _ => ⟨trivial, by simp [den, denList]⟩⟩
  | [t] =>
    simp only [simplifiedAdd]
    exact ⟨fun h => h.1, fun _ h => h.1, fun _ ρ h => ⟨h.1, by simp [den, denList]⟩⟩
  | a :: b :: rest => simp only [simplifiedAdd]; exact Refines.refl _

theorem simplifiedMul_refines (ts : List (Expr ℝ)) :
    Refines (mkMul ts) (simplifiedMul realNum ts) := by
  match ts with
  | [] =>
    simp only [simplifiedMul]
    exact ⟨fun _ => trivial, fun _ _ => trivial, fun _ ρ _ => ⟨trivial, by simp [den, denList]⟩⟩
  | [t] =>
    simp only [simplifiedMul]
    exact ⟨fun h => h.1, fun _ h => h.1, fun _ ρ h => ⟨h.1, by simp [den, denList]⟩⟩
  | a :: b :: rest => simp only [simplifiedMul]; exact Refines.refl _

/-- a sum is the sum of its non-negated terms minus the sum of what its `Negation` terms negate -/
theorem add_split_refines (f : Flags) (as : List (Expr ℝ)) :
    Refines (.add f as)
      (mkMinus (mkAdd (as.filter fun t => (asNeg t).isNone)) (mkAdd (as.filterMap asNeg))) := by
  have hmem : ∀ u ∈ as.filterMap asNeg, ∃ g, Expr.neg g u ∈ as := by
    intro u hu
    obtain ⟨e, he, hs⟩ := List.mem_filterMap.mp hu
    obtain ⟨g, rfl⟩ := asNeg_eq_some hs
    exact ⟨g, he⟩
  refine ⟨?_, ?_, ?_⟩
  · intro h
    simp only [WF, wfList_iff] at h ⊢
    refine ⟨fun e he => h e (List.mem_filter.mp he).1, fun u hu => ?_⟩
    obtain ⟨g, hg⟩ := hmem u hu
    simpa [WF] using h _ hg
  · intro p h
    simp only [Supp, suppList_iff] at h ⊢
    refine ⟨fun e he => h e (List.mem_filter.mp he).1, fun u hu => ?_⟩
    obtain ⟨g, hg⟩ := hmem u hu
    simpa [Supp] using h _ hg
  · intro _ ρ h
    simp only [Dom, domList_iff] at h ⊢
    refine ⟨⟨fun e he => h e (List.mem_filter.mp he).1, fun u hu => ?_⟩, ?_⟩
    · obtain ⟨g, hg⟩ := hmem u hu
      simpa [Dom] using h _ hg
    · simp only [den, denList_eq_map_b]
      rw [sum_map_partition (den ρ) asNeg (fun u => -den ρ u) (fun e u hs => by
        obtain ⟨g, rfl⟩ := asNeg_eq_some hs; simp [den]) as, sum_map_neg']
      ring

/-- a product is the product of its non-reciprocal factors divided by the product of what its
`Reciprocal` factors invert -/
theorem mul_split_refines (f : Flags) (as : List (Expr ℝ)) :
    Refines (.mul f as)
      (mkDiv (mkMul (as.filter fun t => (asRecip t).isNone)) (mkMul (as.filterMap asRecip))) := by
  have hmem : ∀ u ∈ as.filterMap asRecip, ∃ g, Expr.recip g u ∈ as := by
    intro u hu
    obtain ⟨e, he, hs⟩ := List.mem_filterMap.mp hu
    obtain ⟨g, rfl⟩ := asRecip_eq_some hs
    exact ⟨g, he⟩
  refine ⟨?_, ?_, ?_⟩
  · intro h
    simp only [WF, wfList_iff] at h ⊢
    refine ⟨fun e he => h e (List.mem_filter.mp he).1, fun u hu => ?_⟩
    obtain ⟨g, hg⟩ := hmem u hu
    simpa [WF] using h _ hg
  · intro p h
    simp only [Supp, suppList_iff] at h ⊢
    refine ⟨fun e he => h e (List.mem_filter.mp he).1, fun u hu => ?_⟩
    obtain ⟨g, hg⟩ := hmem u hu
    simpa [Supp] using h _ hg
  · intro _ ρ h
    simp only [Dom, domList_iff] at h ⊢
    refine ⟨⟨fun e he => h e (List.mem_filter.mp he).1, fun u hu => ?_, ?_⟩, ?_⟩
    · obtain ⟨g, hg⟩ := hmem u hu
      have := h _ hg
      simp only [Dom] at this
      exact this.1
    · simp only [den, denList_eq_map_b]
      apply List.prod_ne_zero
      intro h0
      obtain ⟨u, hu, hu0⟩ := List.mem_map.mp h0
      obtain ⟨g, hg⟩ := hmem u hu
      have := h _ hg
      simp only [Dom] at this
      exact this.2 hu0
    · simp only [den, denList_eq_map_b]
      rw [prod_map_partition (den ρ) asRecip (fun u => (den ρ u)⁻¹) (fun e u hs => by
        obtain ⟨g, rfl⟩ := asRecip_eq_some hs; simp [den]) as, prod_map_inv']
      rw [div_eq_mul_inv]

theorem minus_nil_left_refines (x : Expr ℝ) : Refines (mkMinus (mkAdd []) x) (mkNeg x) :=
  ⟨fun h => h.2, fun _ h => h.2, fun _ ρ h => ⟨h.2, by simp [den, denList]⟩⟩

theorem minus_nil_right_refines (x : Expr ℝ) : Refines (mkMinus x (mkAdd [])) x :=
  ⟨fun h => h.1, fun _ h => h.1, fun _ ρ h => ⟨h.1, by simp [den, denList]⟩⟩

theorem div_nil_left_refines (x : Expr ℝ) : Refines (mkDiv (mkMul []) x) (mkRecip x) :=
  ⟨fun h => h.2, fun _ h => h.2, fun _ ρ h => ⟨h.2, by simp [den, denList]⟩⟩

theorem div_nil_right_refines (x : Expr ℝ) : Refines (mkDiv x (mkMul [])) x :=
  ⟨fun h => h.1, fun _ h => h.1, fun _ ρ h => ⟨h.1, by simp [den, denList]⟩⟩

set_option linter.unusedSimpArgs false in
/-- the four-way output of `Add._normalize_fully_reduced` -/
theorem minusOut_refines (t1 t2 : List (Expr ℝ)) :
    Refines (mkMinus (mkAdd t1) (mkAdd t2))
      (if (decide (t1.length ≥ 1) && decide (t2.length ≥ 1)) = true then
        mkMinus (simplifiedAdd realNum t1) (simplifiedAdd realNum t2)
      else if t1.length ≥ 1 then simplifiedAdd realNum t1
      else if t2.length ≥ 1 then mkNeg (simplifiedAdd realNum t2)
      else mkConst realNum.zero) := by
  cases t1 with
  | nil =>
    cases t2 with
    | nil =>
      simp only [List.length_nil, ge_iff_le, Nat.not_succ_le_zero, decide_false, Bool.and_self,
        Bool.false_eq_true, if_false]
      exact ⟨fun _ => trivial, fun _ _ => trivial, fun _ ρ _ => ⟨trivial, by simp [den, denList]⟩⟩
    | cons b bs =>
      simp only [List.length_nil, List.length_cons, ge_iff_le, Nat.not_succ_le_zero, decide_false,
        Bool.false_and, Bool.false_eq_true, if_false, Nat.le_add_left, if_true]
      exact (minus_nil_left_refines _).trans (Refines.neg_congr _ _ (simplifiedAdd_refines _))
  | cons a as =>
    cases t2 with
    | nil =>
      simp only [List.length_nil, List.length_cons, ge_iff_le, Nat.not_succ_le_zero, decide_false,
        Bool.and_false, Bool.false_eq_true, if_false, Nat.le_add_left, if_true]
      exact (minus_nil_right_refines _).trans (simplifiedAdd_refines _)
    | cons b bs =>
      simp only [List.length_cons, ge_iff_le, Nat.le_add_left, decide_true, Bool.and_self, if_true]
      exact Refines.minus_congr _ _ (simplifiedAdd_refines _) (simplifiedAdd_refines _)

set_option linter.unusedSimpArgs false in
/-- the four-way output of `Multiply._normalize_fully_reduced` -/
theorem divOut_refines (t1 t2 : List (Expr ℝ)) :
    Refines (mkDiv (mkMul t1) (mkMul t2))
      (if (decide (t1.length ≥ 1) && decide (t2.length ≥ 1)) = true then
        mkDiv (simplifiedMul realNum t1) (simplifiedMul realNum t2)
      else if t1.length ≥ 1 then simplifiedMul realNum t1
      else if t2.length ≥ 1 then mkRecip (simplifiedMul realNum t2)
      else mkConst realNum.one) := by
  cases t1 with
  | nil =>
    cases t2 with
    | nil =>
      simp only [List.length_nil, ge_iff_le, Nat.not_succ_le_zero, decide_false, Bool.and_self,
        Bool.false_eq_true, if_false]
      exact ⟨fun _ => trivial, fun _ _ => trivial, fun _ ρ _ => ⟨trivial, by simp [den, denList]⟩⟩
    | cons b bs =>
      simp only [List.length_nil, List.length_cons, ge_iff_le, Nat.not_succ_le_zero, decide_false,
        Bool.false_and, Bool.false_eq_true, if_false, Nat.le_add_left, if_true]
      exact (div_nil_left_refines _).trans (Refines.recip_congr _ _ (simplifiedMul_refines _))
  | cons a as =>
    cases t2 with
    | nil =>
      simp only [List.length_nil, List.length_cons, ge_iff_le, Nat.not_succ_le_zero, decide_false,
        Bool.and_false, Bool.false_eq_true, if_false, Nat.le_add_left, if_true]
      exact (div_nil_right_refines _).trans (simplifiedMul_refines _)
    | cons b bs =>
      simp only [List.length_cons, ge_iff_le, Nat.le_add_left, decide_true, Bool.and_self, if_true]
      exact Refines.div_congr _ _ (simplifiedMul_refines _) (simplifiedMul_refines _)

theorem mapM?_refinesList {f : Expr ℝ → Option (Expr ℝ × Bool)} :
    ∀ {bs : List (Expr ℝ)} {cs : List (Expr ℝ × Bool)},
      (∀ b ∈ bs, ∀ c, f b = some c → Refines b c.1) → mapM? f bs = some cs →
      RefinesList bs (cs.map (·.1))
  | [], cs, _, h => by
    simp only [mapM?, Option.some.injEq] at h
    subst h; exact RefinesList.refl _
  | b :: bs, cs, hf, h => by
    simp only [mapM?] at h
    split at h
    · next c cs' hc hcs =>
      simp only [Option.some.injEq] at h
      subst h
      exact RefinesList.cons (hf b (List.mem_cons_self ..) c hc)
        (mapM?_refinesList (fun b' hb' => hf b' (List.mem_cons_of_mem _ hb')) hcs)
    · cases h

theorem map_unary_refines {sub : Option (Expr ℝ × Bool)} {mk : Expr ℝ → Expr ℝ}
    {self u e' : Expr ℝ} {w : Bool} (h : sub.map (fun x => (mk x.1, x.2)) = some (e', w))
    (ih : ∀ a w', sub = some (a, w') → Refines u a) (hc : ∀ a, Refines u a → Refines self (mk a)) :
    Refines self e' := by
  cases sub with
  | none => simp at h
  | some aw =>
    simp only [Option.map_some, Option.some.injEq, Prod.mk.injEq] at h
    rw [← h.1]
    exact hc _ (ih aw.1 aw.2 rfl)

mutual
/-- every rule application of the run of `normalizeF` with this budget and fuel is allowed -/
def NormOK (Allowed : RuleId → Expr ℝ → Prop) (bound : Nat) : Nat → Expr ℝ → Prop
  | 0, _ => True
  | fuel + 1, e => RunOK Allowed bound e ∧
      NormRedOK Allowed bound fuel (fullyReduceWith realNum bound e).expr
/-- every rule application of the run of `normReducedF` with this budget and fuel is allowed -/
def NormRedOK (Allowed : RuleId → Expr ℝ → Prop) (bound : Nat) : Nat → Expr ℝ → Prop
  | 0, _ => True
  | fuel + 1, e =>
    match e with
    | .const _ _ => True
    | .var _ _ => True
    | .add _ as => (∀ t ∈ as.filter (fun t => (asNeg t).isNone), NormOK Allowed bound fuel t) ∧
        (∀ t ∈ as.filterMap asNeg, NormOK Allowed bound fuel t)
    | .mul _ as => (∀ t ∈ as.filter (fun t => (asRecip t).isNone), NormOK Allowed bound fuel t) ∧
        (∀ t ∈ as.filterMap asRecip, NormOK Allowed bound fuel t)
    | .minus _ l r => NormRedOK Allowed bound fuel l ∧ NormRedOK Allowed bound fuel r
    | .div _ l r => NormRedOK Allowed bound fuel l ∧ NormRedOK Allowed bound fuel r
    | .pow _ l r => NormRedOK Allowed bound fuel l ∧ NormRedOK Allowed bound fuel r
    | .neg _ u => NormRedOK Allowed bound fuel u
    | .recip _ u => NormRedOK Allowed bound fuel u
    | .npow _ u _ => NormRedOK Allowed bound fuel u
    | .nroot _ u _ => NormRedOK Allowed bound fuel u
    | .exp _ u _ => NormRedOK Allowed bound fuel u
    | .log _ u _ => NormRedOK Allowed bound fuel u
    | .cos _ u => NormRedOK Allowed bound fuel u
    | .sin _ u => NormRedOK Allowed bound fuel u
end

theorem norm_refines_aux {Allowed : RuleId → Expr ℝ → Prop} (hrules : RulesSound Allowed)
    (bound : Nat) : ∀ fuel : Nat,
    (∀ e e' w, NormOK Allowed bound fuel e → normalizeF realNum bound fuel e = some (e', w) →
      Refines e e') ∧
    (∀ e e' w, NormRedOK Allowed bound fuel e → normReducedF realNum bound fuel e = some (e', w) →
      Refines e e')
  | 0 => ⟨fun e e' w _ h => by simp [normalizeF] at h, fun e e' w _ h => by simp [normReducedF] at h⟩
  | fuel + 1 => by
    have ih := norm_refines_aux hrules bound fuel
    refine ⟨?_, ?_⟩
    · intro e e' w hok h
      simp only [normalizeF] at h
      simp only [NormOK] at hok
      split at h
      · next e'' w'' hn =>
        simp only [Option.some.injEq, Prod.mk.injEq] at h
        rw [← h.1]
        exact (fullyReduce_refines hrules bound e hok.1).trans (ih.2 _ _ _ hok.2 hn)
      · cases h
    · intro e e' w hok h
      cases e with
      | const f v =>
        simp only [normReducedF, Option.some.injEq, Prod.mk.injEq] at h
        rw [← h.1]; exact setFlags_refines {} (.const f v)
      | var f x =>
        simp only [normReducedF, Option.some.injEq, Prod.mk.injEq] at h
        rw [← h.1]; exact setFlags_refines {} (.var f x)
      | add f as =>
        simp only [normReducedF] at h
        simp only [NormRedOK] at hok
        split at h
        · next t1 t2 ht1 ht2 =>
          injection h with h
          injection h with h1 h2
          rw [← h1]
          exact ((add_split_refines f as).trans (Refines.minus_congr _ _
            (Refines.add_congr _ _ (mapM?_refinesList
              (fun b hb c hc => ih.1 b c.1 c.2 (hok.1 b hb) hc) ht1))
            (Refines.add_congr _ _ (mapM?_refinesList
              (fun b hb c hc => ih.1 b c.1 c.2 (hok.2 b hb) hc) ht2)))).trans
            (minusOut_refines _ _)
        · cases h
      | mul f as =>
        simp only [normReducedF] at h
        simp only [NormRedOK] at hok
        split at h
        · next t1 t2 ht1 ht2 =>
          injection h with h
          injection h with h1 h2
          rw [← h1]
          exact ((mul_split_refines f as).trans (Refines.div_congr _ _
            (Refines.mul_congr _ _ (mapM?_refinesList
              (fun b hb c hc => ih.1 b c.1 c.2 (hok.1 b hb) hc) ht1))
            (Refines.mul_congr _ _ (mapM?_refinesList
              (fun b hb c hc => ih.1 b c.1 c.2 (hok.2 b hb) hc) ht2)))).trans
            (divOut_refines _ _)
        · cases h
      | minus f l r =>
        simp only [normReducedF] at h
        simp only [NormRedOK] at hok
        split at h
        · next a w1 b w2 ha hb =>
          simp only [Option.some.injEq, Prod.mk.injEq] at h
          rw [← h.1]
          exact Refines.minus_congr _ _ (ih.2 _ _ _ hok.1 ha) (ih.2 _ _ _ hok.2 hb)
        · cases h
      | div f l r =>
        simp only [normReducedF] at h
        simp only [NormRedOK] at hok
        split at h
        · next a w1 b w2 ha hb =>
          simp only [Option.some.injEq, Prod.mk.injEq] at h
          rw [← h.1]
          exact Refines.div_congr _ _ (ih.2 _ _ _ hok.1 ha) (ih.2 _ _ _ hok.2 hb)
        · cases h
      | pow f l r =>
        simp only [normReducedF] at h
        simp only [NormRedOK] at hok
        split at h
        · next a w1 b w2 ha hb =>
          simp only [Option.some.injEq, Prod.mk.injEq] at h
          rw [← h.1]
          exact Refines.pow_congr _ _ (ih.2 _ _ _ hok.1 ha) (ih.2 _ _ _ hok.2 hb)
        · cases h
      | neg f u =>
        simp only [normReducedF] at h
        simp only [NormRedOK] at hok
        exact map_unary_refines (mk := mkNeg) h (fun a w' ha => ih.2 _ _ _ hok ha)
          (fun a ha => Refines.neg_congr _ _ ha)
      | recip f u =>
        simp only [normReducedF] at h
        simp only [NormRedOK] at hok
        exact map_unary_refines (mk := mkRecip) h (fun a w' ha => ih.2 _ _ _ hok ha)
          (fun a ha => Refines.recip_congr _ _ ha)
      | npow f u n =>
        simp only [normReducedF] at h
        simp only [NormRedOK] at hok
        exact map_unary_refines (mk := (mkNPow · n)) h (fun a w' ha => ih.2 _ _ _ hok ha)
          (fun a ha => Refines.npow_congr _ _ n ha)
      | nroot f u n =>
        simp only [normReducedF] at h
        simp only [NormRedOK] at hok
        exact map_unary_refines (mk := (mkNRoot · n)) h (fun a w' ha => ih.2 _ _ _ hok ha)
          (fun a ha => Refines.nroot_congr _ _ n ha)
      | exp f u b =>
        simp only [normReducedF] at h
        simp only [NormRedOK] at hok
        exact map_unary_refines (mk := (mkExp · b)) h (fun a w' ha => ih.2 _ _ _ hok ha)
          (fun a ha => Refines.exp_congr _ _ b ha)
      | log f u b =>
        simp only [normReducedF] at h
        simp only [NormRedOK] at hok
        exact map_unary_refines (mk := (mkLog · b)) h (fun a w' ha => ih.2 _ _ _ hok ha)
          (fun a ha => Refines.log_congr _ _ b ha)
      | cos f u =>
        simp only [normReducedF] at h
        simp only [NormRedOK] at hok
        exact map_unary_refines (mk := mkCos) h (fun a w' ha => ih.2 _ _ _ hok ha)
          (fun a ha => Refines.cos_congr _ _ ha)
      | sin f u =>
        simp only [normReducedF] at h
        simp only [NormRedOK] at hok
        exact map_unary_refines (mk := mkSin) h (fun a w' ha => ih.2 _ _ _ hok ha)
          (fun a ha => Refines.sin_congr _ _ ha)

/-- **the normal-form pass is sound** on ARBITRARY input trees (it does not rely on the input
being reduced) -/
theorem normReduced_refines {Allowed : RuleId → Expr ℝ → Prop} (hrules : RulesSound Allowed)
    (bound fuel : Nat) (e e' : Expr ℝ) (w : Bool) (hok : NormRedOK Allowed bound fuel e)
    (h : normReducedF realNum bound fuel e = some (e', w)) : Refines e e' :=
  (norm_refines_aux hrules bound fuel).2 e e' w hok h

/-- **`_normalize` is sound**: full reduction (any budget, exhaustion included) followed by the
normal-form pass -/
theorem normalize_refines {Allowed : RuleId → Expr ℝ → Prop} (hrules : RulesSound Allowed)
    (bound fuel : Nat) (e e' : Expr ℝ) (w : Bool) (hok : NormOK Allowed bound fuel e)
    (h : normalizeF realNum bound fuel e = some (e', w)) : Refines e e' :=
  (norm_refines_aux hrules bound fuel).1 e e' w hok h

end Smooth
