/-
Proofs/SymForward — the forward symbolic route (`symFwd`, the model of `_synthetic_partial`) over the
reals: the expression it builds is, wherever the original is defined, itself defined and denotes the
true partial derivative (C05, forward route).

The core (`symFwd_core`) is stated for an ARBITRARY valuation `ρ` (not only `valOf p`), directly
against Mathlib's `HasDerivAt`; it does not go through the numeric code.  The comparison with the
numeric forward mode (`symFwd_sound`, `symFwd_eval`) then follows from `fwdR_spec` and uniqueness of
derivatives — in particular the `Power` short-cut of the numeric code (absent from `symFwd`) needs no
separate treatment: both sides are THE derivative.
-/
import Smooth.Proofs.Forward
import Smooth.Proofs.WFSym
import Smooth.Proofs.Order
import Smooth.Proofs.DriverSound
import Smooth.Proofs.RulesUnary
import Smooth.Proofs.RulesNary
import Smooth.Model.Objects

namespace Smooth
open Classical Filter Topology Expr

/-! ### the local symbolic formulas of the unary classes -/

section unarySym
variable {ρ : String → ℝ} {u m : Expr ℝ} {g : Flags}

theorem symF_neg (hm : Dom ρ m) :
    Dom ρ (unarySymFormula realNum (.neg g u) m) ∧
      den ρ (unarySymFormula realNum (.neg g u) m) = (-1) * den ρ m := by
  simp only [unarySymFormula, Dom, den]
  exact ⟨hm, by ring⟩

theorem symF_recip (hm : Dom ρ m) (hu : Dom ρ u) (ha : den ρ u ≠ 0) :
    Dom ρ (unarySymFormula realNum (.recip g u) m) ∧
      den ρ (unarySymFormula realNum (.recip g u) m) = (-(den ρ u ^ 2)⁻¹) * den ρ m := by
  simp only [unarySymFormula, Dom, den]
  exact ⟨⟨hm, hu, pow_ne_zero 2 ha⟩, by field_simp⟩

theorem symF_npow (hm : Dom ρ m) (hu : Dom ρ u) {n : ℕ} (hn : 1 ≤ n) :
    Dom ρ (unarySymFormula realNum (.npow g u n) m) ∧
      den ρ (unarySymFormula realNum (.npow g u n) m) = (n * den ρ u ^ (n - 1)) * den ρ m := by
  by_cases h1 : n = 1
  · subst h1; simp [unarySymFormula, hm]
  · simp only [unarySymFormula, h1, if_false, Dom, DomList, den, denList, realNum_ofNat,
      List.prod_cons, List.prod_nil]
    exact ⟨⟨trivial, hu, hm, trivial⟩, by ring⟩

theorem symF_nroot (hm : Dom ρ m) (hu : Dom ρ u) {n : ℕ} (hn : 1 ≤ n) (hok : RootOK n (den ρ u)) :
    Dom ρ (unarySymFormula realNum (.nroot g u n) m) ∧
      den ρ (unarySymFormula realNum (.nroot g u n) m) =
        (if n = 1 then 1 else (n * sroot n (den ρ u) ^ (n - 1))⁻¹) * den ρ m := by
  by_cases h1 : n = 1
  · subst h1; simp [unarySymFormula, hm]
  · have h2 : 2 ≤ n := by omega
    have ha : den ρ u ≠ 0 := hok.1 h2
    have hne : (n : ℝ) * sroot n (den ρ u) ^ (n - 1) ≠ 0 := by
      have : (n : ℝ) ≠ 0 := by exact_mod_cast (by omega : n ≠ 0)
      exact mul_ne_zero this (pow_ne_zero _ (sroot_ne_zero _ ha))
    simp only [unarySymFormula, h1, if_false, Dom, DomList, den, denList, realNum_ofNat,
      List.prod_cons, List.prod_nil, mul_one]
    refine ⟨⟨hm, ⟨trivial, ⟨hu, hok⟩, trivial⟩, hne⟩, ?_⟩
    rw [div_eq_mul_inv, mul_comm]

theorem symF_exp (hm : Dom ρ m) (hu : Dom ρ u) {b : ℝ} (hb : 0 < b) :
    Dom ρ (unarySymFormula realNum (.exp g u b) m) ∧
      den ρ (unarySymFormula realNum (.exp g u b) m) =
        (Real.log b * Real.exp (den ρ u * Real.log b)) * den ρ m := by
  by_cases h1 : b = 1
  · subst h1; simp [unarySymFormula, Dom, den]
  by_cases he : b = Real.exp 1
  · subst he
    simp only [unarySymFormula, realNum_eq, realNum_one, h1, decide_false, Bool.false_eq_true,
      if_false, realNum_e, decide_true, if_true, Dom, DomList, den, denList, List.prod_cons,
      List.prod_nil, Real.log_exp]
    exact ⟨⟨hu, hm, trivial⟩, by ring⟩
  · simp only [unarySymFormula, realNum_eq, realNum_one, h1, decide_false, Bool.false_eq_true,
      if_false, realNum_e, he, Dom, DomList, den, denList, List.prod_cons,
      List.prod_nil, Real.log_exp]
    exact ⟨⟨⟨trivial, hb⟩, hu, hm, trivial⟩, by ring⟩

theorem symF_log (hm : Dom ρ m) (hu : Dom ρ u) {b : ℝ} (hb : 0 < b) (hb1 : b ≠ 1)
    (ha : 0 < den ρ u) :
    Dom ρ (unarySymFormula realNum (.log g u b) m) ∧
      den ρ (unarySymFormula realNum (.log g u b) m) = (den ρ u * Real.log b)⁻¹ * den ρ m := by
  have hane : den ρ u ≠ 0 := ne_of_gt ha
  have hlb : Real.log b ≠ 0 := by
    intro h
    rcases Real.log_eq_zero.mp h with h | h | h
    · linarith
    · exact hb1 h
    · linarith
  by_cases he : b = Real.exp 1
  · subst he
    simp only [unarySymFormula, realNum_eq, realNum_e, decide_true, if_true, Dom, den,
      Real.log_exp, mul_one]
    refine ⟨⟨hm, hu, hane⟩, ?_⟩
    rw [div_eq_mul_inv, mul_comm]
  · simp only [unarySymFormula, realNum_eq, realNum_e, he, decide_false, Bool.false_eq_true,
      if_false, Dom, DomList, den, denList, List.prod_cons, List.prod_nil, Real.log_exp, mul_one,
      div_one]
    refine ⟨⟨hm, ⟨⟨trivial, hb⟩, hu, trivial⟩, mul_ne_zero hlb hane⟩, ?_⟩
    rw [div_eq_mul_inv, mul_comm, mul_comm (Real.log b)]

theorem symF_cos (hm : Dom ρ m) (hu : Dom ρ u) :
    Dom ρ (unarySymFormula realNum (.cos g u) m) ∧
      den ρ (unarySymFormula realNum (.cos g u) m) = (-Real.sin (den ρ u)) * den ρ m := by
  simp only [unarySymFormula, Dom, DomList, den, denList, List.prod_cons, List.prod_nil, mul_one]
  exact ⟨⟨hu, hm, trivial⟩, trivial⟩

theorem symF_sin (hm : Dom ρ m) (hu : Dom ρ u) :
    Dom ρ (unarySymFormula realNum (.sin g u) m) ∧
      den ρ (unarySymFormula realNum (.sin g u) m) = Real.cos (den ρ u) * den ρ m := by
  simp only [unarySymFormula, Dom, DomList, den, denList, List.prod_cons, List.prod_nil, mul_one]
  exact ⟨⟨hu, hm, trivial⟩, trivial⟩

end unarySym

/-- the shared shape of the eight unary classes: chain rule, symbolically -/
theorem symFwd_unary_core {ρ : String → ℝ} {x : String} {e u m : Expr ℝ} (G : ℝ → Prop)
    (f c : ℝ → ℝ) (_hdu : Dom ρ u) (hg : G (den ρ u))
    (hden : ∀ ρ', den ρ' e = f (den ρ' u))
    (hderiv : ∀ a, G a → HasDerivAt f (c a) a)
    (hform : Dom ρ m → Dom ρ (unarySymFormula realNum e m) ∧
      den ρ (unarySymFormula realNum e m) = c (den ρ u) * den ρ m)
    (ih : Dom ρ m ∧ HasDerivAt (fun t => den (upd ρ x t) u) (den ρ m) (ρ x)) :
    Dom ρ (unarySymFormula realNum e m) ∧
      HasDerivAt (fun t => den (upd ρ x t) e) (den ρ (unarySymFormula realNum e m)) (ρ x) := by
  obtain ⟨hdm, hder⟩ := ih
  obtain ⟨hdf, hval⟩ := hform hdm
  refine ⟨hdf, ?_⟩
  have hfun : (fun t => den (upd ρ x t) e) = f ∘ fun t => den (upd ρ x t) u := by
    funext t; simp [hden]
  rw [hfun, hval]
  have h0 : den (upd ρ x (ρ x)) u = den ρ u := by simp
  have hc : HasDerivAt f (c (den ρ u)) (den (upd ρ x (ρ x)) u) := by
    rw [h0]; exact hderiv _ hg
  exact HasDerivAt.comp (ρ x) hc hder

/-! ### the symbolic product rule -/

theorem symfwd_domList_eraseIdx {ρ : String → ℝ} {as : List (Expr ℝ)} (h : DomList ρ as) (i : ℕ) :
    DomList ρ (as.eraseIdx i) :=
  (domList_iff ρ _).mpr fun e he => (domList_iff ρ _).mp h e (List.mem_of_mem_eraseIdx he)

theorem symfwd_domList_symMulTermsGo {ρ : String → ℝ} {as : List (Expr ℝ)} (has : DomList ρ as) :
    ∀ (i : ℕ) (ds : List (Expr ℝ)), DomList ρ ds → DomList ρ (symMulTermsGo as i ds)
  | _, [], _ => trivial
  | i, _ :: ds, hds =>
    ⟨⟨hds.1, symfwd_domList_eraseIdx has i⟩, symfwd_domList_symMulTermsGo has (i + 1) ds hds.2⟩

theorem symfwd_denList_eraseIdx (ρ : String → ℝ) (as : List (Expr ℝ)) (i : ℕ) :
    denList ρ (as.eraseIdx i) = (denList ρ as).eraseIdx i := by
  rw [denList_eq_map, denList_eq_map, List.eraseIdx_map]

theorem symfwd_denList_symMulTermsGo (ρ : String → ℝ) (as : List (Expr ℝ)) :
    ∀ (i : ℕ) (ds : List (Expr ℝ)),
      denList ρ (symMulTermsGo as i ds) = mulTermsGo realNum (denList ρ as) i (denList ρ ds)
  | _, [] => rfl
  | i, d :: ds => by
    simp only [symMulTermsGo, denList, mulTermsGo, den, mfMultiply_real, List.prod_cons,
      symfwd_denList_eraseIdx, symfwd_denList_symMulTermsGo ρ as (i + 1) ds]

theorem symfwd_denList_length (ρ : String → ℝ) (es : List (Expr ℝ)) :
    (denList ρ es).length = es.length := by
  simp [denList_eq_map]

theorem symfwd_symFwdList_length (x : String) (es : List (Expr ℝ)) :
    (symFwdList realNum x es).length = es.length := by
  induction es with
  | nil => rfl
  | cons e es ih => simp [symFwdList, ih]

/-- the value of the symbolic product rule is the derivative of the product -/
theorem symfwd_den_symMulTerms (ρ : String → ℝ) (ds as : List (Expr ℝ))
    (hlen : ds.length = as.length) :
    den ρ (mkAdd (symMulTerms ds as)) = prodDeriv (denList ρ ds) (denList ρ as) := by
  simp only [den, symMulTerms, symfwd_denList_symMulTermsGo]
  have := mulTerms_sum (denList ρ ds) (denList ρ as)
    (by rw [symfwd_denList_length, symfwd_denList_length, hlen])
  simpa [mulTerms] using this

/-! ### the core: `symFwd x e` is defined wherever `e` is and denotes the partial derivative -/

mutual
/-- **the symbolic partial is the partial derivative**, at every valuation of the domain -/
theorem symFwd_core (ρ : String → ℝ) (x : String) : ∀ e : Expr ℝ, WF e → Dom ρ e →
    Dom ρ (symFwd realNum x e) ∧
      HasDerivAt (fun t => den (upd ρ x t) e) (den ρ (symFwd realNum x e)) (ρ x)
  | .const _ v, _, _ => by
    simp only [symFwd, Dom, den, realNum_zero]
    exact ⟨trivial, hasDerivAt_const (ρ x) v⟩
  | .var g y, _, _ => by
    simp only [symFwd]
    by_cases hy : y = x
    · subst hy
      simp only [beq_self_eq_true, if_true, Dom, den, realNum_one, true_and]
      have : (fun t => upd ρ y t y) = id := by funext t; simp [upd_same]
      rw [this]; exact hasDerivAt_id (ρ y)
    · have hb : (y == x) = false := by simpa using hy
      simp only [hb, Bool.false_eq_true, if_false, Dom, den, realNum_zero, true_and]
      have : (fun t => upd ρ x t y) = fun _ => ρ y := by funext t; simp [upd_other _ t hy]
      rw [this]; exact hasDerivAt_const (ρ x) (ρ y)
  | .add _ as, hwf, hd => by
    obtain ⟨hdl, hder⟩ := symFwd_core_list ρ x as hwf hd
    simp only [symFwd]
    refine ⟨hdl, ?_⟩
    have := hasDerivAt_list_sum hder
    simpa [den, denList_eq_map, Function.comp_def] using this
  | .mul _ as, hwf, hd => by
    obtain ⟨hdl, hder⟩ := symFwd_core_list ρ x as hwf hd
    simp only [symFwd]
    refine ⟨symfwd_domList_symMulTermsGo hd 0 _ hdl, ?_⟩
    rw [symfwd_den_symMulTerms ρ _ as (symfwd_symFwdList_length x as)]
    have := hasDerivAt_list_prod hder
    simpa [den, denList_eq_map, Function.comp_def] using this
  | .minus _ l r, hwf, hd => by
    obtain ⟨hd1, hder1⟩ := symFwd_core ρ x l hwf.1 hd.1
    obtain ⟨hd2, hder2⟩ := symFwd_core ρ x r hwf.2 hd.2
    simp only [symFwd, Dom, den]
    exact ⟨⟨hd1, hd2⟩, hder1.fun_sub hder2⟩
  | .div _ l r, hwf, hd => by
    obtain ⟨hd1, hder1⟩ := symFwd_core ρ x l hwf.1 hd.1
    obtain ⟨hd2, hder2⟩ := symFwd_core ρ x r hwf.2 hd.2.1
    have hz : den ρ r ≠ 0 := hd.2.2
    simp only [symFwd, divSymLeft, divSymRight, Dom, DomList, den, denList, List.sum_cons,
      List.sum_nil, List.prod_cons, List.prod_nil, mul_one, add_zero]
    refine ⟨⟨⟨hd1, hd.2.1, hz⟩, ⟨⟨hd.1, hd.2.1, pow_ne_zero 2 hz⟩, hd2, trivial⟩, trivial⟩, ?_⟩
    have h := hder1.div hder2 (by simpa using hz)
    simp only [upd_self] at h
    exact h.congr_deriv (by field_simp; ring)
  | .pow g l r, hwf, hd => by
    obtain ⟨hd1, hder1⟩ := symFwd_core ρ x l hwf.1 hd.1
    obtain ⟨hd2, hder2⟩ := symFwd_core ρ x r hwf.2 hd.2.1
    have hpos : 0 < den ρ l := hd.2.2
    have hne : den ρ l ≠ 0 := ne_of_gt hpos
    simp only [symFwd, powSymLeft, powSymRight, Dom, DomList, den, denList, List.sum_cons,
      List.sum_nil, List.prod_cons, List.prod_nil, mul_one, add_zero, realNum_one, realNum_e,
      Real.log_exp, div_one]
    refine ⟨⟨⟨hd.2.1, ⟨hd.1, ⟨hd.2.1, trivial⟩, hpos⟩, hd1, trivial⟩,
      ⟨⟨hd.1, hpos⟩, ⟨hd.1, hd.2.1, hpos⟩, hd2, trivial⟩, trivial⟩, ?_⟩
    have hlog := hder1.log (by simpa using hne)
    have hmul := hder2.fun_mul hlog
    have hexp := hmul.exp
    simp only [upd_self] at hexp
    have hpw : Real.exp ((den ρ r - 1) * Real.log (den ρ l)) =
        Real.exp (den ρ r * Real.log (den ρ l)) / den ρ l := by
      rw [sub_mul, one_mul, Real.exp_sub, Real.exp_log hpos]
    rw [hpw]
    exact hexp.congr_deriv (by field_simp; ring)
  | .neg g u, hwf, hd => by
    simp only [symFwd]
    exact symFwd_unary_core (e := .neg g u) (u := u) (fun _ => True) (fun a => -a) (fun _ => -1) hd trivial
      (fun ρ' => rfl)
      (fun a _ => (hasDerivAt_id a).fun_neg) (fun hm => symF_neg hm) (symFwd_core ρ x u hwf hd)
  | .recip g u, hwf, hd => by
    simp only [symFwd]
    exact symFwd_unary_core (e := .recip g u) (u := u) (fun a => a ≠ 0) (fun a => a⁻¹) (fun a => -(a ^ 2)⁻¹) hd.1 hd.2
      (fun ρ' => rfl) (fun a ha => hasDerivAt_inv ha) (fun hm => symF_recip hm hd.1 hd.2)
      (symFwd_core ρ x u hwf hd.1)
  | .npow g u n, hwf, hd => by
    simp only [symFwd]
    exact symFwd_unary_core (e := .npow g u n) (u := u) (fun _ => True) (fun a => a ^ n)
      (fun a => n * a ^ (n - 1)) hd trivial
      (fun ρ' => rfl) (fun a _ => by simpa using hasDerivAt_pow n a)
      (fun hm => symF_npow (u := u) hm hd hwf.1) (symFwd_core ρ x u hwf.2 hd)
  | .nroot g u n, hwf, hd => by
    simp only [symFwd]
    have hok : RootOK n (den ρ u) := hd.2
    exact symFwd_unary_core (e := .nroot g u n) (u := u) (RootOK n) (sroot n)
      (fun a => if n = 1 then 1 else (n * sroot n a ^ (n - 1))⁻¹) hd.1 hok (fun ρ' => rfl)
      (fun a hok => by
        by_cases h1 : n = 1
        · subst h1
          have : sroot 1 = id := by funext y; simp [sroot_one]
          simp only [if_true, this]
          exact hasDerivAt_id a
        · simp only [h1, if_false]
          have hn := hwf.1
          exact hasDerivAt_sroot hwf.1 hok (hok.1 (by omega)))
      (fun hm => symF_nroot hm hd.1 hwf.1 hok) (symFwd_core ρ x u hwf.2 hd.1)
  | .exp g u b, hwf, hd => by
    simp only [symFwd]
    exact symFwd_unary_core (e := .exp g u b) (u := u) (fun _ => True)
      (fun a => Real.exp (a * Real.log b))
      (fun a => Real.log b * Real.exp (a * Real.log b)) hd trivial (fun ρ' => rfl)
      (fun a _ => by
        have h1 : HasDerivAt (fun y : ℝ => y * Real.log b) (Real.log b) a := by
          simpa using (hasDerivAt_id a).mul_const (Real.log b)
        have := (Real.hasDerivAt_exp (a * Real.log b)).comp a h1
        simpa [Function.comp_def, mul_comm] using this)
      (fun hm => symF_exp (u := u) hm hd hwf.1) (symFwd_core ρ x u hwf.2 hd)
  | .log g u b, hwf, hd => by
    simp only [symFwd]
    exact symFwd_unary_core (e := .log g u b) (u := u) (fun a => 0 < a)
      (fun a => Real.log a / Real.log b)
      (fun a => (a * Real.log b)⁻¹) hd.1 hd.2 (fun ρ' => rfl)
      (fun a ha => by
        have := (Real.hasDerivAt_log (ne_of_gt ha)).div_const (Real.log b)
        have e : (a * Real.log b)⁻¹ = a⁻¹ / Real.log b := by rw [mul_inv, div_eq_mul_inv]
        rw [e]; exact this)
      (fun hm => symF_log hm hd.1 hwf.1 hwf.2.1 hd.2) (symFwd_core ρ x u hwf.2.2 hd.1)
  | .cos g u, hwf, hd => by
    simp only [symFwd]
    exact symFwd_unary_core (e := .cos g u) (u := u) (fun _ => True) Real.cos (fun a => -Real.sin a) hd trivial
      (fun ρ' => rfl) (fun a _ => Real.hasDerivAt_cos a) (fun hm => symF_cos (u := u) hm hd)
      (symFwd_core ρ x u hwf hd)
  | .sin g u, hwf, hd => by
    simp only [symFwd]
    exact symFwd_unary_core (e := .sin g u) (u := u) (fun _ => True) Real.sin (fun a => Real.cos a) hd trivial
      (fun ρ' => rfl) (fun a _ => Real.hasDerivAt_sin a) (fun hm => symF_sin (u := u) hm hd)
      (symFwd_core ρ x u hwf hd)
theorem symFwd_core_list (ρ : String → ℝ) (x : String) : ∀ es : List (Expr ℝ), WFList es →
    DomList ρ es →
    DomList ρ (symFwdList realNum x es) ∧
      DerivL (es.map fun e t => den (upd ρ x t) e) (denList ρ (symFwdList realNum x es)) (ρ x)
  | [], _, _ => ⟨trivial, List.Forall₂.nil⟩
  | e :: es, hwf, hd => by
    obtain ⟨hd1, hder1⟩ := symFwd_core ρ x e hwf.1 hd.1
    obtain ⟨hd2, hder2⟩ := symFwd_core_list ρ x es hwf.2 hd.2
    exact ⟨⟨hd1, hd2⟩, List.Forall₂.cons hder1 hder2⟩
end


/-! ### consequences, valuation form -/

/-- the symbolic partial is defined wherever the original is (its domain may only be larger) -/
theorem symFwd_dom (ρ : String → ℝ) (x : String) (e : Expr ℝ) (hwf : WF e) (hd : Dom ρ e) :
    Dom ρ (symFwd realNum x e) :=
  (symFwd_core ρ x e hwf hd).1

theorem symFwd_hasDerivAt (ρ : String → ℝ) (x : String) (e : Expr ℝ) (hwf : WF e) (hd : Dom ρ e) :
    HasDerivAt (fun t => den (upd ρ x t) e) (den ρ (symFwd realNum x e)) (ρ x) :=
  (symFwd_core ρ x e hwf hd).2

/-- its value is *the* partial derivative -/
theorem symFwd_den_eq_deriv (ρ : String → ℝ) (x : String) (e : Expr ℝ) (hwf : WF e)
    (hd : Dom ρ e) :
    den ρ (symFwd realNum x e) = deriv (fun t => den (upd ρ x t) e) (ρ x) :=
  (symFwd_hasDerivAt ρ x e hwf hd).deriv.symm

/-- with respect to a variable that does not occur, the symbolic partial evaluates to 0 (this is
what makes the numeric `Power` short-cut agree with the symbolic formula) -/
theorem symFwd_den_of_not_occurs (ρ : String → ℝ) (x : String) (e : Expr ℝ) (hwf : WF e)
    (hd : Dom ρ e) (hx : ¬ Occurs x e) : den ρ (symFwd realNum x e) = 0 := by
  have hder := symFwd_hasDerivAt ρ x e hwf hd
  have hconst : (fun t => den (upd ρ x t) e) = fun _ => den ρ e := by
    funext t; exact den_upd_of_not_occurs ρ e hx t
  rw [hconst] at hder
  exact hder.unique (hasDerivAt_const (ρ x) (den ρ e))

theorem symFwd_den_of_vars_nil (ρ : String → ℝ) (x : String) (e : Expr ℝ) (hwf : WF e)
    (hd : Dom ρ e) (hv : e.vars = []) : den ρ (symFwd realNum x e) = 0 :=
  symFwd_den_of_not_occurs ρ x e hwf hd (not_occurs_of_vars_nil hv x)

/-- no new variable: every point that supplies `e` supplies its symbolic partial -/
theorem symFwd_supp (p : Point ℝ) (x : String) (e : Expr ℝ) (hs : Supp p e) :
    Supp p (symFwd realNum x e) :=
  (supp_iff_occurs p _).mpr fun y hy =>
    (supp_iff_occurs p e).mp hs y (occurs_symFwd realNum x y e hy)

/-! ### comparison with numeric forward mode, point form -/

/-- **the symbolic partial evaluates to what forward mode computes**: at every supplied point of the
domain of `e`, `symFwd x e` is supplied, in its own domain, and its value is the number
`_numeric_partial` returns -/
theorem symFwd_sound (p : Point ℝ) (x : String) (e : Expr ℝ) (hwf : WF e) (hs : Supp p e)
    (hd : Dom (valOf p) e) : ∀ d, fwdG realNum p x e = .ok d →
      Supp p (symFwd realNum x e) ∧ Dom (valOf p) (symFwd realNum x e) ∧
        den (valOf p) (symFwd realNum x e) = d := by
  intro d hfd
  obtain ⟨hdom, hder⟩ := symFwd_core (valOf p) x e hwf hd
  refine ⟨symFwd_supp p x e hs, hdom, ?_⟩
  obtain ⟨d', h', hder'⟩ := (fwdR_spec p x e hwf).1 hs hd
  rw [hfd] at h'; injection h' with h'; subst h'
  exact hder.unique hder'

/-- evaluating the symbolic partial IS forward mode, on supplied points of the domain -/
theorem symFwd_eval (p : Point ℝ) (x : String) (e : Expr ℝ) (hwf : WF e) (hs : Supp p e)
    (hd : Dom (valOf p) e) :
    evalG realNum p (symFwd realNum x e) = fwdG realNum p x e := by
  obtain ⟨d, hfd, _⟩ := (fwdR_spec p x e hwf).1 hs hd
  obtain ⟨hs', hd', hval⟩ := symFwd_sound p x e hwf hs hd d hfd
  rw [hfd]
  exact (evalR_good p _ (WF_symFwd x e hwf)).ok_iff.mpr ⟨hs', hd', hval.symm⟩

/-- … and the common value is the derivative of the coordinate function -/
theorem symFwd_eval_deriv (p : Point ℝ) (x : String) (e : Expr ℝ) (hwf : WF e) (hs : Supp p e)
    (hd : Dom (valOf p) e) :
    evalG realNum p (symFwd realNum x e) =
      .ok (deriv (fun t => den (upd (valOf p) x t) e) (valOf p x)) := by
  rw [← symFwd_den_eq_deriv (valOf p) x e hwf hd]
  exact (evalR_good p _ (WF_symFwd x e hwf)).ok_iff.mpr
    ⟨symFwd_supp p x e hs, symFwd_dom (valOf p) x e hwf hd, rfl⟩

/-! ### the documented domain is open along coordinate lines -/

/-- on its domain the denotation is continuous in each coordinate (it is differentiable there) -/
theorem den_continuousAt_coord (ρ : String → ℝ) (x : String) (e : Expr ℝ) (hwf : WF e)
    (hd : Dom ρ e) : ContinuousAt (fun t => den (upd ρ x t) e) (ρ x) :=
  (symFwd_hasDerivAt ρ x e hwf hd).continuousAt

theorem symfwd_den_eventually_ne (ρ : String → ℝ) (x : String) (e : Expr ℝ) (hwf : WF e) (hd : Dom ρ e)
    (h : den ρ e ≠ 0) : ∀ᶠ t in 𝓝 (ρ x), den (upd ρ x t) e ≠ 0 :=
  (den_continuousAt_coord ρ x e hwf hd).eventually_ne (by simpa using h)

theorem symfwd_den_eventually_pos (ρ : String → ℝ) (x : String) (e : Expr ℝ) (hwf : WF e) (hd : Dom ρ e)
    (h : 0 < den ρ e) : ∀ᶠ t in 𝓝 (ρ x), 0 < den (upd ρ x t) e :=
  (den_continuousAt_coord ρ x e hwf hd).tendsto.eventually_const_lt (by simpa using h)

mutual
/-- **the domain is open along every coordinate line** -/
theorem dom_eventually (ρ : String → ℝ) (x : String) : ∀ e : Expr ℝ, WF e → Dom ρ e →
    ∀ᶠ t in 𝓝 (ρ x), Dom (upd ρ x t) e
  | .const _ _, _, _ => Eventually.of_forall fun _ => trivial
  | .var _ _, _, _ => Eventually.of_forall fun _ => trivial
  | .add _ as, hwf, hd => by simp only [Dom]; exact domList_eventually ρ x as hwf hd
  | .mul _ as, hwf, hd => by simp only [Dom]; exact domList_eventually ρ x as hwf hd
  | .minus _ l r, hwf, hd => by
    simp only [Dom]
    exact (dom_eventually ρ x l hwf.1 hd.1).and (dom_eventually ρ x r hwf.2 hd.2)
  | .div _ l r, hwf, hd => by
    simp only [Dom]
    exact (dom_eventually ρ x l hwf.1 hd.1).and ((dom_eventually ρ x r hwf.2 hd.2.1).and
      (symfwd_den_eventually_ne ρ x r hwf.2 hd.2.1 hd.2.2))
  | .pow _ l r, hwf, hd => by
    simp only [Dom]
    exact (dom_eventually ρ x l hwf.1 hd.1).and ((dom_eventually ρ x r hwf.2 hd.2.1).and
      (symfwd_den_eventually_pos ρ x l hwf.1 hd.1 hd.2.2))
  | .neg _ u, hwf, hd => by simp only [Dom]; exact dom_eventually ρ x u hwf hd
  | .recip _ u, hwf, hd => by
    simp only [Dom]
    exact (dom_eventually ρ x u hwf hd.1).and (symfwd_den_eventually_ne ρ x u hwf hd.1 hd.2)
  | .npow _ u _, hwf, hd => by simp only [Dom]; exact dom_eventually ρ x u hwf.2 hd
  | .nroot _ u n, hwf, hd => by
    simp only [Dom]
    refine (dom_eventually ρ x u hwf.2 hd.1).and ?_
    by_cases h2 : 2 ≤ n
    · have hne : den ρ u ≠ 0 := hd.2.1 h2
      by_cases hev : n % 2 = 0
      · have hpos : 0 < den ρ u := lt_of_le_of_ne (hd.2.2 hev) (Ne.symm hne)
        filter_upwards [symfwd_den_eventually_pos ρ x u hwf.2 hd.1 hpos] with t ht
        exact ⟨fun _ => ne_of_gt ht, fun _ => ht.le⟩
      · filter_upwards [symfwd_den_eventually_ne ρ x u hwf.2 hd.1 hne] with t ht
        exact ⟨fun _ => ht, fun h => absurd h hev⟩
    · have hn := hwf.1
      exact Eventually.of_forall fun t => ⟨fun h => absurd h h2, fun h => by omega⟩
  | .exp _ u _, hwf, hd => by simp only [Dom]; exact dom_eventually ρ x u hwf.2 hd
  | .log _ u _, hwf, hd => by
    simp only [Dom]
    exact (dom_eventually ρ x u hwf.2.2 hd.1).and (symfwd_den_eventually_pos ρ x u hwf.2.2 hd.1 hd.2)
  | .cos _ u, hwf, hd => by simp only [Dom]; exact dom_eventually ρ x u hwf hd
  | .sin _ u, hwf, hd => by simp only [Dom]; exact dom_eventually ρ x u hwf hd
theorem domList_eventually (ρ : String → ℝ) (x : String) : ∀ es : List (Expr ℝ), WFList es →
    DomList ρ es → ∀ᶠ t in 𝓝 (ρ x), DomList (upd ρ x t) es
  | [], _, _ => Eventually.of_forall fun _ => trivial
  | e :: es, hwf, hd => by
    simp only [DomList]
    exact (dom_eventually ρ x e hwf.1 hd.1).and (domList_eventually ρ x es hwf.2 hd.2)
end

/-! ### second-order partials -/

/-- differentiating the symbolic partial once more (symbolically) gives the derivative of the
symbolic partial … -/
theorem second_partial (ρ : String → ℝ) (x y : String) (e : Expr ℝ) (hwf : WF e) (hd : Dom ρ e) :
    HasDerivAt (fun t => den (upd ρ y t) (symFwd realNum x e))
      (den ρ (symFwd realNum y (symFwd realNum x e))) (ρ y) :=
  symFwd_hasDerivAt ρ y _ (WF_symFwd x e hwf) (symFwd_dom ρ x e hwf hd)

/-- … and the function being differentiated IS the first partial of `e`, on a neighbourhood of the
point along the `y`-line … -/
theorem first_partial_eventually (ρ : String → ℝ) (x y : String) (e : Expr ℝ) (hwf : WF e)
    (hd : Dom ρ e) :
    ∀ᶠ t in 𝓝 (ρ y), den (upd ρ y t) (symFwd realNum x e) =
      deriv (fun s => den (upd (upd ρ y t) x s) e) ((upd ρ y t) x) := by
  filter_upwards [dom_eventually ρ y e hwf hd] with t ht
  exact symFwd_den_eq_deriv (upd ρ y t) x e hwf ht

/-- … so the value of the twice-differentiated expression is the true second-order partial
`∂/∂y (∂e/∂x)` at the point -/
theorem second_partial_deriv (ρ : String → ℝ) (x y : String) (e : Expr ℝ) (hwf : WF e)
    (hd : Dom ρ e) :
    HasDerivAt (fun t => deriv (fun s => den (upd (upd ρ y t) x s) e) ((upd ρ y t) x))
      (den ρ (symFwd realNum y (symFwd realNum x e))) (ρ y) :=
  (second_partial ρ x y e hwf hd).congr_of_eventuallyEq
    ((first_partial_eventually ρ x y e hwf hd).mono fun _ h => h.symm)

/-- the symbolic second partial is in its domain, too -/
theorem second_partial_dom (ρ : String → ℝ) (x y : String) (e : Expr ℝ) (hwf : WF e)
    (hd : Dom ρ e) : Dom ρ (symFwd realNum y (symFwd realNum x e)) :=
  symFwd_dom ρ y _ (WF_symFwd x e hwf) (symFwd_dom ρ x e hwf hd)


/-! ### `as_expression()` : the normalised symbolic partial -/

/-- every rule that is not one of the twelve n-ary rules is one of the 34 unary/binary rules -/
theorem symfwd_non_nary_is_unary (r : RuleId) (h : r.isNary = false) : r ∈ unaryRules := by
  cases r <;> first | (exact absurd h (by decide)) | (simp [unaryRules])

/-- all 46 rewrite rules are sound outside the recorded defect K1 -/
theorem symfwd_rulesSound_K1 : RulesSound K1FreeAt := fun r e e' happ hal => by
  cases hr : r.isNary
  · exact unaryRule_refines r (symfwd_non_nary_is_unary r hr) e e' happ hal
  · exact nary_rule_refines hr happ

theorem symfwd_liftFuel_ok {β : Type} {o : Option β} {b : β} (h : liftFuel o = .ok b) : o = some b := by
  cases o with
  | none => cases h
  | some b' => injection h with h; rw [h]

/-- `_retrieve_synthetic_partial` : when no even/even `NthRoot(NthPower)` rewrite happens in the run,
the normalised expression refines the raw symbolic partial -/
theorem retrieveSyntheticPartial_refines (e : Expr ℝ) (x : String) (s : Expr ℝ) (w : Bool)
    (hok : NormOK K1FreeAt REDUCTION_STEPS_BOUND NORMALIZE_FUEL (symFwd realNum x e))
    (h : retrieveSyntheticPartial realNum e x = .ok (s, w)) : Refines (symFwd realNum x e) s :=
  normalize_refines symfwd_rulesSound_K1 _ _ _ s w hok (symfwd_liftFuel_ok h)

/-- `Partial.as_expression()` on an object that has not computed its expression yet: the answer is
the normalised symbolic partial, which the object memoises -/
theorem asExpression_late {e : Expr ℝ} {x : String} {s : Expr ℝ} {P' : PartialObj ℝ} {w : Bool}
    (h : (PartialObj.mk e x none).asExpression realNum = .ok (s, P', w)) :
    retrieveSyntheticPartial realNum e x = .ok (s, w) ∧ P' = ⟨e, x, some s⟩ := by
  simp only [PartialObj.asExpression] at h
  cases hr : retrieveSyntheticPartial realNum e x with
  | error err => rw [hr] at h; cases h
  | ok sw =>
    obtain ⟨s', w'⟩ := sw
    rw [hr] at h
    simp only [Bind.bind, Except.bind, Pure.pure, Except.pure] at h
    injection h with h
    simp only [Prod.mk.injEq] at h
    obtain ⟨rfl, rfl, rfl⟩ := h
    exact ⟨rfl, rfl⟩

/-- `Partial(e, x, compute_early=True)` : the stored expression is the normalised symbolic partial -/
theorem partialNew_early {e : Expr ℝ} {x : String} {P : PartialObj ℝ} {w : Bool}
    (h : PartialObj.new realNum e x true = .ok (P, w)) :
    ∃ s, retrieveSyntheticPartial realNum e x = .ok (s, w) ∧ P = ⟨e, x, some s⟩ := by
  simp only [PartialObj.new, if_true] at h
  cases hr : retrieveSyntheticPartial realNum e x with
  | error err => rw [hr] at h; cases h
  | ok sw =>
    obtain ⟨s', w'⟩ := sw
    rw [hr] at h
    simp only [Bind.bind, Except.bind, Pure.pure, Except.pure] at h
    injection h with h
    simp only [Prod.mk.injEq] at h
    obtain ⟨rfl, rfl⟩ := h
    exact ⟨s', rfl, rfl⟩

/-- what `Refines (symFwd x e) s` gives about `s` in terms of the ORIGINAL expression `e` -/
theorem refines_symFwd_facts {e s : Expr ℝ} {x : String} (hr : Refines (symFwd realNum x e) s)
    (hwf : WF e) :
    WF s ∧ (∀ y, y ∈ s.vars → y ∈ e.vars) ∧ (∀ p : Point ℝ, Supp p e → Supp p s) ∧
      (∀ ρ : String → ℝ, Dom ρ e →
        Dom ρ s ∧ HasDerivAt (fun t => den (upd ρ x t) e) (den ρ s) (ρ x)) ∧
      (∀ p : Point ℝ, Supp p e → Dom (valOf p) e → evalG realNum p s = fwdG realNum p x e) := by
  have hwf' := WF_symFwd x e hwf
  refine ⟨hr.wf hwf', ?_, fun p hs => hr.supp p (symFwd_supp p x e hs), ?_, ?_⟩
  · -- no new variable: test `Supp` with the point that supplies exactly the variables of `e`
    intro y hy
    by_contra hne
    let p : Point ℝ := e.vars.map fun v => (v, (0 : ℝ))
    have hget : ∀ v, (p.get? v).isSome ↔ v ∈ e.vars := by
      intro v
      simp only [p]
      induction e.vars with
      | nil => simp [Point.get?]
      | cons a l ih =>
        simp only [List.map_cons, Point.get?, List.mem_cons]
        by_cases hav : a = v
        · subst hav; simp
        · have hb : (a == v) = false := by simpa using hav
          have hva : ¬ v = a := fun h => hav h.symm
          simp [hb, hva, ih]
    have hs : Supp p e := (supp_iff_vars p e).mpr fun v hv => (hget v).mpr hv
    have hs' := hr.supp p (symFwd_supp p x e hs)
    exact hne ((hget y).mp ((supp_iff_vars p s).mp hs' y hy))
  · intro ρ hd
    obtain ⟨hd1, hder⟩ := symFwd_core ρ x e hwf hd
    obtain ⟨hd2, hval⟩ := hr.sem hwf' ρ hd1
    exact ⟨hd2, hval ▸ hder⟩
  · intro p hs hd
    rw [← symFwd_eval p x e hwf hs hd]
    obtain ⟨d, hfd, _⟩ := (fwdR_spec p x e hwf).1 hs hd
    have hev : evalG realNum p (symFwd realNum x e) = .ok d := by
      rw [symFwd_eval p x e hwf hs hd, hfd]
    rw [hev]
    exact hr.eval hwf' p d hev

/-- after `as_expression()` the object answers `.at(point)` through the stored expression — and on
supplied points of the domain that is still what forward mode answered before -/
theorem partial_at_memoised {e s : Expr ℝ} {x : String} (hr : Refines (symFwd realNum x e) s)
    (hwf : WF e) (p : Point ℝ) (hs : Supp p e) (hd : Dom (valOf p) e) :
    (PartialObj.mk e x (some s)).at realNum p = (PartialObj.mk e x none).at realNum p := by
  have hev := (evalR_good p e hwf).ok_iff.mpr ⟨hs, hd, rfl⟩
  simp only [PartialObj.at, hev, Bind.bind, Except.bind]
  exact (refines_symFwd_facts hr hwf).2.2.2.2 p hs hd


/-- `Derivative.as_expression()` delegates to the wrapped `Partial` -/
theorem derivativeAsExpression_late {D D' : DerivativeObj ℝ} {e : Expr ℝ} {x : String} {s : Expr ℝ}
    {w : Bool} (hD : D.partial_ = ⟨e, x, none⟩) (h : D.asExpression realNum = .ok (s, D', w)) :
    (PartialObj.mk e x none).asExpression realNum = .ok (s, D'.partial_, w) := by
  simp only [DerivativeObj.asExpression, hD] at h
  cases hp : (PartialObj.mk e x none).asExpression realNum with
  | error err => rw [hp] at h; cases h
  | ok r =>
    obtain ⟨s', P', w'⟩ := r
    rw [hp] at h
    simp only [Bind.bind, Except.bind, Pure.pure, Except.pure] at h
    injection h with h
    simp only [Prod.mk.injEq] at h
    obtain ⟨rfl, rfl, rfl⟩ := h
    rfl

/-- a `Derivative` built the ordinary way (not computed early) wraps a late `Partial` in the single
variable -/
theorem derivativeNew_late {e : Expr ℝ} {D : DerivativeObj ℝ} {w : Bool}
    (h : DerivativeObj.new realNum e false = .ok (D, w)) :
    singleVarName e = .ok D.x ∧ D.partial_ = ⟨e, D.x, none⟩ := by
  unfold DerivativeObj.new PartialObj.new at h
  cases hx : singleVarName e with
  | error err => rw [hx] at h; cases h
  | ok x =>
    rw [hx] at h
    simp only [Bind.bind, Except.bind, Pure.pure, Except.pure, Bool.false_eq_true, if_false] at h
    injection h with h
    simp only [Prod.mk.injEq] at h
    obtain ⟨rfl, _⟩ := h
    exact ⟨rfl, rfl⟩

end Smooth
