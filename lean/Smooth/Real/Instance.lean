/-
Real/Instance — the number instance every theorem is about: Mathlib's real numbers.
-/
import Mathlib.Analysis.SpecialFunctions.Pow.Real
import Mathlib.Analysis.SpecialFunctions.Trigonometric.Basic
import Mathlib.Analysis.SpecialFunctions.Log.Basic
import Mathlib.Analysis.SpecialFunctions.Sqrt
import Smooth.Model.Surface
import Smooth.Model.Heap

namespace Smooth

open Classical in
/-- Real arithmetic.  `cbrt` is the real cube root on the whole line; the comparisons are the
(classical) decisions of `= 0`, `< 0`, `=`; `toInt` is the integer a real number is, if any. -/
noncomputable def realNum : Num ℝ where
  ofNat n := (n : ℝ)
  e := Real.exp 1
  add x y := x + y
  sub x y := x - y
  neg x := -x
  mul x y := x * y
  div x y := x / y
  powNat x n := x ^ n
  rpow x y := .ok (x ^ y)
  sqrt x := .ok (Real.sqrt x)
  cbrt x := .ok (if 0 ≤ x then x ^ ((1 : ℝ) / 3) else -((-x) ^ ((1 : ℝ) / 3)))
  logb x b := .ok (Real.log x / Real.log b)
  sin x := .ok (Real.sin x)
  cos x := .ok (Real.cos x)
  isZero x := decide (x = 0)
  isNeg x := decide (x < 0)
  eq x y := decide (x = y)
  toInt x := if h : ∃ k : ℤ, (k : ℝ) = x then some (Classical.choose h) else none

section simp_lemmas
open Classical

@[simp] theorem realNum_ofNat (n : ℕ) : realNum.ofNat n = (n : ℝ) := rfl
@[simp] theorem realNum_e : realNum.e = Real.exp 1 := rfl
@[simp] theorem realNum_add (x y : ℝ) : realNum.add x y = x + y := rfl
@[simp] theorem realNum_sub (x y : ℝ) : realNum.sub x y = x - y := rfl
@[simp] theorem realNum_neg (x : ℝ) : realNum.neg x = -x := rfl
@[simp] theorem realNum_mul (x y : ℝ) : realNum.mul x y = x * y := rfl
@[simp] theorem realNum_div (x y : ℝ) : realNum.div x y = x / y := rfl
@[simp] theorem realNum_powNat (x : ℝ) (n : ℕ) : realNum.powNat x n = x ^ n := rfl
@[simp] theorem realNum_rpow (x y : ℝ) : realNum.rpow x y = .ok (x ^ y) := rfl
@[simp] theorem realNum_sqrt (x : ℝ) : realNum.sqrt x = .ok (Real.sqrt x) := rfl
@[simp] theorem realNum_cbrt (x : ℝ) :
    realNum.cbrt x = .ok (if 0 ≤ x then x ^ ((1 : ℝ) / 3) else -((-x) ^ ((1 : ℝ) / 3))) := rfl
@[simp] theorem realNum_logb (x b : ℝ) : realNum.logb x b = .ok (Real.log x / Real.log b) := rfl
@[simp] theorem realNum_sin (x : ℝ) : realNum.sin x = .ok (Real.sin x) := rfl
@[simp] theorem realNum_cos (x : ℝ) : realNum.cos x = .ok (Real.cos x) := rfl
@[simp] theorem realNum_isZero (x : ℝ) : realNum.isZero x = decide (x = 0) := rfl
@[simp] theorem realNum_isNeg (x : ℝ) : realNum.isNeg x = decide (x < 0) := rfl
@[simp] theorem realNum_eq (x y : ℝ) : realNum.eq x y = decide (x = y) := rfl
@[simp] theorem realNum_zero : realNum.zero = 0 := by simp [Num.zero]
@[simp] theorem realNum_one : realNum.one = 1 := by simp [Num.one]
@[simp] theorem realNum_negOne : realNum.negOne = -1 := by simp [Num.negOne]
@[simp] theorem realNum_isPos (x : ℝ) : realNum.isPos x = decide (0 < x) := by
  simp only [Num.isPos, realNum_isZero, realNum_isNeg]
  by_cases h : 0 < x
  · have h1 : x ≠ 0 := ne_of_gt h
    have h2 : ¬ x < 0 := not_lt.mpr h.le
    simp [h, h1, h2]
  · rcases lt_or_eq_of_le (not_lt.mp h) with h1 | h1
    · simp [h, h1]
    · simp [h1]

theorem realNum_toInt_some {x : ℝ} {k : ℤ} (h : realNum.toInt x = some k) : (k : ℝ) = x := by
  unfold realNum at h
  simp only at h
  split at h
  · next hx =>
    have := Classical.choose_spec hx
    simp only [Option.some.injEq] at h
    rw [← h]; exact this
  · cases h

theorem realNum_toInt_intCast (k : ℤ) : realNum.toInt (k : ℝ) = some k := by
  unfold realNum
  simp only
  have hx : ∃ j : ℤ, (j : ℝ) = (k : ℝ) := ⟨k, rfl⟩
  rw [dif_pos hx]
  have := Classical.choose_spec hx
  congr 1
  exact_mod_cast this

end simp_lemmas

end Smooth
