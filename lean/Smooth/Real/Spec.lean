/-
Real/Spec — the specification side, written independently of the model: the real function an
expression denotes (`den`), its documented domain (`Dom`), which variables occur (`Occurs`),
well-formedness (`WF`), and when a point supplies an expression (`Supp`).
-/
import Smooth.Real.Instance

namespace Smooth
open Expr

/-- the sign-keeping real n-th root -/
noncomputable def sroot (n : ℕ) (x : ℝ) : ℝ :=
  if 0 ≤ x then x ^ ((1 : ℝ) / n) else -((-x) ^ ((1 : ℝ) / n))

mutual
/-- reading the tree as ordinary real arithmetic under the valuation `ρ` -/
noncomputable def den (ρ : String → ℝ) : Expr ℝ → ℝ
  | .const _ v => v
  | .var _ x => ρ x
  | .add _ as => (denList ρ as).sum
  | .minus _ l r => den ρ l - den ρ r
  | .neg _ u => -den ρ u
  | .mul _ as => (denList ρ as).prod
  | .div _ l r => den ρ l / den ρ r
  | .recip _ u => (den ρ u)⁻¹
  | .pow _ l r => Real.exp (den ρ r * Real.log (den ρ l))
  | .npow _ u n => den ρ u ^ n
  | .nroot _ u n => sroot n (den ρ u)
  | .exp _ u b => Real.exp (den ρ u * Real.log b)
  | .log _ u b => Real.log (den ρ u) / Real.log b
  | .cos _ u => Real.cos (den ρ u)
  | .sin _ u => Real.sin (den ρ u)
noncomputable def denList (ρ : String → ℝ) : List (Expr ℝ) → List ℝ
  | [] => []
  | e :: es => den ρ e :: denList ρ es
end

mutual
/-- the documented (strict) domain, required of *every* sub-expression -/
def Dom (ρ : String → ℝ) : Expr ℝ → Prop
  | .const _ _ => True
  | .var _ _ => True
  | .add _ as => DomList ρ as
  | .mul _ as => DomList ρ as
  | .minus _ l r => Dom ρ l ∧ Dom ρ r
  | .neg _ u => Dom ρ u
  | .div _ l r => Dom ρ l ∧ Dom ρ r ∧ den ρ r ≠ 0
  | .recip _ u => Dom ρ u ∧ den ρ u ≠ 0
  | .pow _ l r => Dom ρ l ∧ Dom ρ r ∧ 0 < den ρ l
  | .npow _ u _ => Dom ρ u
  | .nroot _ u n => Dom ρ u ∧ (2 ≤ n → den ρ u ≠ 0) ∧ (n % 2 = 0 → 0 ≤ den ρ u)
  | .exp _ u _ => Dom ρ u
  | .log _ u _ => Dom ρ u ∧ 0 < den ρ u
  | .cos _ u => Dom ρ u
  | .sin _ u => Dom ρ u
def DomList (ρ : String → ℝ) : List (Expr ℝ) → Prop
  | [] => True
  | e :: es => Dom ρ e ∧ DomList ρ es
end

variable {α : Type}

mutual
/-- the variable `x` occurs in the expression -/
def Occurs (x : String) : Expr α → Prop
  | .const _ _ => False
  | .var _ y => y = x
  | .add _ as | .mul _ as => OccursList x as
  | .minus _ l r | .div _ l r | .pow _ l r => Occurs x l ∨ Occurs x r
  | .neg _ u | .recip _ u | .npow _ u _ | .nroot _ u _ | .exp _ u _ | .log _ u _ | .cos _ u
  | .sin _ u => Occurs x u
def OccursList (x : String) : List (Expr α) → Prop
  | [] => False
  | e :: es => Occurs x e ∨ OccursList x es
end

mutual
/-- the point has a coordinate for every variable of the expression -/
def Supp (p : Point α) : Expr α → Prop
  | .const _ _ => True
  | .var _ y => (p.get? y).isSome
  | .add _ as | .mul _ as => SuppList p as
  | .minus _ l r | .div _ l r | .pow _ l r => Supp p l ∧ Supp p r
  | .neg _ u | .recip _ u | .npow _ u _ | .nroot _ u _ | .exp _ u _ | .log _ u _ | .cos _ u
  | .sin _ u => Supp p u
def SuppList (p : Point α) : List (Expr α) → Prop
  | [] => True
  | e :: es => Supp p e ∧ SuppList p es
end

mutual
/-- what every constructible expression satisfies (C16): n ≥ 1, bases positive, logarithm base ≠ 1 -/
def WF : Expr ℝ → Prop
  | .const _ _ => True
  | .var _ _ => True
  | .add _ as | .mul _ as => WFList as
  | .minus _ l r | .div _ l r | .pow _ l r => WF l ∧ WF r
  | .neg _ u | .recip _ u | .cos _ u | .sin _ u => WF u
  | .npow _ u n | .nroot _ u n => 1 ≤ n ∧ WF u
  | .exp _ u b => 0 < b ∧ WF u
  | .log _ u b => 0 < b ∧ b ≠ 1 ∧ WF u
def WFList : List (Expr ℝ) → Prop
  | [] => True
  | e :: es => WF e ∧ WFList es
end

/-- the valuation a point induces (coordinates that are not supplied read as 0; every statement
that uses it assumes `Supp`) -/
def valOf (p : Point ℝ) (x : String) : ℝ := (p.get? x).getD 0

end Smooth
