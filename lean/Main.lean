/-
Line-protocol driver: one request per line on stdin, one canonical answer per line on stdout.
Imports only the Mathlib-free model, so it links as a native executable.

  <inst> <op> <args…>        inst ∈ {Q, F0, F1, F2, F3}

Expressions are in prefix form (see `parseExpr`), numbers are `x<16 hex digits>` (IEEE-754 bits),
`p` or `p/q` (exact integers / rationals).
-/
import Smooth.Model.Basic
import Smooth.Model.MathFunctions
import Smooth.Model.Eval
import Smooth.Model.Numeric
import Smooth.Model.Symbolic
import Smooth.Model.Rules
import Smooth.Model.Driver
import Smooth.Model.Objects
import Smooth.Model.Routes
import Smooth.Model.Surface
import Smooth.Model.Instances
import Smooth.Model.Heap

open Smooth Smooth.Expr

/-! ### number codecs -/

structure Codec (α : Type) where
  num : Num α
  parse : String → Option α
  show_ : α → String

def hexVal (c : Char) : Option Nat :=
  if '0' ≤ c && c ≤ '9' then some (c.toNat - '0'.toNat)
  else if 'a' ≤ c && c ≤ 'f' then some (c.toNat - 'a'.toNat + 10)
  else if 'A' ≤ c && c ≤ 'F' then some (c.toNat - 'A'.toNat + 10)
  else none

def parseHex (s : String) : Option Nat :=
  if s.isEmpty then none
  else s.toList.foldl (fun acc c => match acc, hexVal c with
    | some a, some d => some (a * 16 + d)
    | _, _ => none) (some 0)

def toHex16 (n : Nat) : String :=
  let ds := Nat.toDigits 16 n
  String.ofList (List.replicate (16 - ds.length) '0' ++ ds)

/-- exact rational value of a finite double given by its bits -/
def ratOfBits (b : Nat) : Option Rat :=
  let sign : Nat := b / 2 ^ 63
  let ex : Nat := (b / 2 ^ 52) % 2048
  let frac : Nat := b % 2 ^ 52
  if ex == 2047 then none
  else
    let (m, e) : Nat × Int := if ex == 0 then (frac, -1074) else (frac + 2 ^ 52, (ex : Int) - 1075)
    let mag : Rat := if e ≥ 0 then (m * 2 ^ e.toNat : Nat) else mkRat m (2 ^ (-e).toNat)
    some (if sign == 1 then -mag else mag)

def parseRat (s : String) : Option Rat :=
  match s.splitOn "/" with
  | [p] => p.toInt?.map fun (i : Int) => (i : Rat)
  | [p, q] => match p.toInt?, q.toNat? with
    | some a, some b => if b == 0 then none else some (mkRat a b)
    | _, _ => none
  | _ => none

def showRat (q : Rat) : String :=
  if q.den == 1 then toString q.num else s!"{q.num}/{q.den}"

def qeCodec : Codec QE where
  num := qeNum
  parse s :=
    if s.startsWith "x" then
      (parseHex (s.drop 1).toString).bind fun b => (ratOfBits b).map fun q => ⟨q, true⟩
    else (parseRat s).map fun q => ⟨q, representable q⟩
  show_ x := s!"q:{showRat x.q}:{if x.rep then "r" else "n"}"

def floatOfRat (q : Rat) : Float := Float.ofInt q.num / Float.ofNat q.den

def fbCodec (mode : Nat) : Codec FB where
  num := fbNum mode
  parse s :=
    if s.startsWith "x" then
      (parseHex (s.drop 1).toString).map fun b => FB.lit (Float.ofBits (UInt64.ofNat b))
    else (parseRat s).map fun q =>
      let v := floatOfRat q
      { FB.lit v with err := if q.den == 1 && q.num.natAbs < 2 ^ 53 then 0.0 else uRound * v.abs }
  show_ x := s!"f:{toHex16 x.v.toBits.toNat}:{toHex16 x.err.toBits.toNat}:{toHex16 x.mx.toBits.toNat}:{toHex16 x.mn.toBits.toNat}"

/-! ### token reader -/

abbrev P := StateT (List String) (Except String)

def tok : P String := do
  match ← get with
  | [] => throw "unexpected end of line"
  | t :: ts => set ts; pure t

def natTok : P Nat := do
  let t ← tok
  match t.toNat? with
  | some n => pure n
  | none => throw s!"expected a natural number, found {t}"

variable {α : Type}

def numTok (C : Codec α) : P α := do
  let t ← tok
  match C.parse t with
  | some v => pure v
  | none => throw s!"bad number {t}"

def parseFlags (s : String) (id : Nat) : Flags :=
  { red := s.contains 'r', failed := s.contains 'f', id := id }

partial def parseExprW [Inhabited α] (C : Codec α) : P (Expr α) := do
  let t ← tok
  -- head[.flags][@id]
  let (t', id) := match t.splitOn "@" with
    | [h, i] => (h, i.toNat?.getD 0)
    | _ => (t, 0)
  let (head, fl) := match t'.splitOn "." with
    | [h, f] => (h, parseFlags f id)
    | _ => (t', parseFlags "" id)
  let many : P (List (Expr α)) := do
    let k ← natTok
    let mut out := []
    for _ in [0:k] do
      out := (← parseExprW C) :: out
    pure out.reverse
  let head := head.replace "~" ""     -- `~` marks an n that was spelled as an integral float
  match head with
  | "C" => pure (.const fl (← numTok C))
  | "V" => pure (.var fl (← tok))
  | "A" => pure (.add fl (← many))
  | "M" => pure (.mul fl (← many))
  | "S" => do let l ← parseExprW C; let r ← parseExprW C; pure (.minus fl l r)
  | "D" => do let l ← parseExprW C; let r ← parseExprW C; pure (.div fl l r)
  | "P" => do let l ← parseExprW C; let r ← parseExprW C; pure (.pow fl l r)
  | "N" => pure (.neg fl (← parseExprW C))
  | "R" => pure (.recip fl (← parseExprW C))
  | "CO" => pure (.cos fl (← parseExprW C))
  | "SI" => pure (.sin fl (← parseExprW C))
  | "NP" => do let n ← natTok; pure (.npow fl (← parseExprW C) n)
  | "NR" => do let n ← natTok; pure (.nroot fl (← parseExprW C) n)
  | "E" => do let b ← numTok C; pure (.exp fl (← parseExprW C) b)
  | "L" => do let b ← numTok C; pure (.log fl (← parseExprW C) b)
  | _ => throw s!"bad expression head {t}"

def parsePointW (C : Codec α) : P (Point α) := do
  let k ← natTok
  let mut out := []
  for _ in [0:k] do
    let x ← tok
    let v ← numTok C
    out := (x, v) :: out
  pure out.reverse

def parseObjW [Inhabited α] (C : Codec α) : P (Obj α) := do
  match ← tok with
  | "OE" => pure (.expr (← parseExprW C))
  | "OP" => pure (.point (← parsePointW C))
  | "OPA" => do let x ← tok; pure (.partial_ (← parseExprW C) x)
  | "ODE" => pure (.derivative (← parseExprW C))
  | "ODI" => pure (.differential (← parseExprW C))
  | _ => do let e ← parseExprW C; pure (.located e (← parsePointW C))

def flagStr (wf : Bool) (f : Flags) : String :=
  if !wf then "" else
  let s := (if f.red then "r" else "") ++ (if f.failed then "f" else "")
  if s.isEmpty then "" else "." ++ s

partial def showExprW (C : Codec α) (wf : Bool) : Expr α → String
  | .const f v => s!"C{flagStr wf f} {C.show_ v}"
  | .var f x => s!"V{flagStr wf f} {x}"
  | .add f as => s!"A{flagStr wf f} {as.length}" ++ String.join (as.map fun a => " " ++ showExprW C wf a)
  | .mul f as => s!"M{flagStr wf f} {as.length}" ++ String.join (as.map fun a => " " ++ showExprW C wf a)
  | .minus f l r => s!"S{flagStr wf f} {showExprW C wf l} {showExprW C wf r}"
  | .div f l r => s!"D{flagStr wf f} {showExprW C wf l} {showExprW C wf r}"
  | .pow f l r => s!"P{flagStr wf f} {showExprW C wf l} {showExprW C wf r}"
  | .neg f u => s!"N{flagStr wf f} {showExprW C wf u}"
  | .recip f u => s!"R{flagStr wf f} {showExprW C wf u}"
  | .cos f u => s!"CO{flagStr wf f} {showExprW C wf u}"
  | .sin f u => s!"SI{flagStr wf f} {showExprW C wf u}"
  | .npow f u n => s!"NP{flagStr wf f} {n} {showExprW C wf u}"
  | .nroot f u n => s!"NR{flagStr wf f} {n} {showExprW C wf u}"
  | .exp f u b => s!"E{flagStr wf f} {C.show_ b} {showExprW C wf u}"
  | .log f u b => s!"L{flagStr wf f} {C.show_ b} {showExprW C wf u}"

def showR (sh : α → String) : R α → String
  | .ok v => "ok " ++ sh v
  | .error e => "err " ++ e.tag

def showAcc (C : Codec α) (acc : Acc α) : String :=
  s!"{acc.length}" ++ String.join (acc.map fun (x, v) => s!" {x} {C.show_ v}")

def showSAcc (C : Codec α) (acc : SAcc α) : String :=
  s!"{acc.length}" ++ String.join (acc.map fun (x, e) => s!" {x} {showExprW C false e}")

def showTok (C : Codec α) : Tok α → String
  | .ident s => "i:" ++ s | .lp => "(" | .rp => ")" | .comma => "," | .eqs => "="
  | .str s => "s:" ++ s | .num v => "n:" ++ C.show_ v | .nat n => s!"k:{n}"

/-- `_can_be_written_as_keyword` on ASCII names (the only ones the driver is asked about: NFKC leaves
them alone): an identifier that is not a reserved word of Python 3.12 -/
def pyKeywords : List String :=
  ["False", "None", "True", "and", "as", "assert", "async", "await", "break", "class", "continue", "def",
   "del", "elif", "else", "except", "finally", "for", "from", "global", "if", "import", "in", "is", "lambda",
   "nonlocal", "not", "or", "pass", "raise", "return", "try", "while", "with", "yield"]

def asciiKeywordName (s : String) : Bool :=
  match s.toList with
  | [] => false
  | c :: cs =>
    (c.isAlpha || c == '_') && cs.all (fun d => d.isAlphanum || d == '_') && !pyKeywords.contains s

def hexDecode (s : String) : Option String :=
  let rec go : List Char → List UInt8 → Option (List UInt8)
    | [], acc => some acc.reverse
    | [_], _ => none
    | a :: b :: rest, acc => match hexVal a, hexVal b with
      | some x, some y => go rest (UInt8.ofNat (x * 16 + y) :: acc)
      | _, _ => none
  (go s.toList []).bind fun bytes => String.fromUTF8? (ByteArray.mk bytes.toArray)

def parsePyVal [Inhabited α] (C : Codec α) : P (PyVal α) := do
  match ← tok with
  | "e" => pure (.expr (← parseExprW C))
  | "n" => pure (.num (← numTok C))
  | "s" => do
    let t ← tok
    match hexDecode (if t == "-" then "" else t) with
    | some s => pure (.str s)
    | none => throw "bad hex string"
  | "o" => pure .other
  | t => throw s!"bad python value tag {t}"

def asciiWord (c : Char) : Bool := c.isAlphanum || c == '_'

/-! ### object routes -/

/-- every numeric derivative route of the public API, by name -/
def route [Inhabited α] (N : Num α) (name : String) (x : String) (e : Expr α) (p : Point α) : R α :=
  match name with
  | "PL" => routePL N e x p
  | "PE" => routePE N e x p
  | "PA" => routePA N e x p
  | "DL" => routeDL N e p
  | "DE" => routeDE N e p
  | "DA" => routeDA N e p
  | "FCL" => routeFCL N e x p
  | "FCE" => routeFCE N e x p
  | "FCAL" => routeFCAL N e x p
  | "FCAE" => routeFCAE N e x p
  | "FATL" => routeFATL N e x p
  | "FATE" => routeFATE N e x p
  | "LD" => routeLD N e x p
  | _ => throw .usage

def asExpr [Inhabited α] (N : Num α) (kind : String) (x : String) (e : Expr α) : R (Expr α × Bool) :=
  match kind with
  | "P" => routeExprP N e x
  | "PE" => routeExprPE N e x
  | "D" => routeExprD N e
  | "DE" => routeExprDE N e
  | "FE" => routeExprFE N e x
  | "FL" => routeExprFL N e x
  | _ => throw .usage

/-! ### request dispatch -/

def bstr (b : Bool) : String := if b then "1" else "0"

def handle [Inhabited α] (C : Codec α) (op : String) : P String := do
  let N := C.num
  let se := showExprW C false
  match op with
  | "eval" => do
      let e ← parseExprW C; let p ← parsePointW C
      pure (showR C.show_ (evalG N p e))
  | "evalnum" => do
      let e ← parseExprW C; let t ← numTok C
      pure (showR C.show_ (atNumber N e t))
  | "fwd" => do
      let x ← tok; let e ← parseExprW C; let p ← parsePointW C
      pure (showR C.show_ (fwdG N p x e))
  | "fwd2" => do
      -- second-order: forward mode in `y` of the symbolic partial in `x`
      let x ← tok; let y ← tok; let e ← parseExprW C; let p ← parsePointW C
      pure (showR C.show_ (fwdG N p y (symFwd N x e)))
  | "rev" => do
      let e ← parseExprW C; let p ← parsePointW C
      pure (showR (showAcc C) (numericPartials N p e))
  | "symfwd" => do
      let x ← tok; let e ← parseExprW C
      pure ("ok " ++ se (symFwd N x e))
  | "symrev" => do
      let e ← parseExprW C
      pure ("ok " ++ showSAcc C (syntheticPartials N e))
  | "step" => do
      let e ← parseExprW C
      let (e', ev) := stepF N e
      pure s!"ok {ev.name} {showExprW C true e'}"
  | "reduce" => do
      let bound ← natTok
      let e ← parseExprW C
      let r := fullyReduceWith N bound e
      pure s!"ok {bstr r.warned} {r.steps} {showExprW C true r.expr}"
  | "rules" => do
      -- the ordered reducer table of the class of the given node
      let e ← parseExprW C
      pure s!"ok {" ".intercalate ((reducers e).map RuleId.name)}"
  | "trace" => do
      -- events and expression sizes of every step
      let bound ← natTok
      let e ← parseExprW C
      let rec go (fuel : Nat) (e : Expr α) (acc : List String) : List String × Expr α × Bool :=
        match fuel with
        | 0 => (acc.reverse, e.markRed, true)
        | fuel + 1 =>
          if e.isRed then (acc.reverse, e, false)
          else
            let (e', ev) := stepF N e
            go fuel e' (s!"{ev.name}:{e'.size}" :: acc)
      let (evs, e', w) := go bound e []
      pure s!"ok {bstr w} {evs.length} {" ".intercalate evs} | {showExprW C true e'}"
  | "normalize" => do
      let e ← parseExprW C
      pure (showR (fun (e', w) => s!"{bstr w} {se e'}") (liftFuel (normalize N e)))
  | "normred" => do
      let e ← parseExprW C
      pure (showR (fun (e', w) => s!"{bstr w} {se e'}")
        (liftFuel (normReducedF N REDUCTION_STEPS_BOUND NORMALIZE_FUEL e)))
  | "route" => do
      let name ← tok; let x ← tok; let e ← parseExprW C; let p ← parsePointW C
      pure (showR C.show_ (route N name x e p))
  | "dnum" => do
      -- Derivative(e, early).at(number)
      let early ← tok; let e ← parseExprW C; let t ← numTok C
      pure (showR C.show_ (do
        let (D, _) ← DerivativeObj.new N e (early == "1")
        D.atNumber N t))
  | "located" => do
      -- all components of LocatedDifferential / Differential(e, early).at(p)
      let kind ← tok; let e ← parseExprW C; let p ← parsePointW C
      pure (showR (showAcc C) (do
        match kind with
        | "LD" => do let L ← LocatedObj.new N e p; pure L.partials
        | "FL" => do let (D, _) ← DifferentialObj.new N e false; let L ← D.at N p; pure L.partials
        | _ => do let (D, _) ← DifferentialObj.new N e true; let L ← D.at N p; pure L.partials))
  | "asexpr" => do
      let kind ← tok; let x ← tok; let e ← parseExprW C
      pure (showR (fun (s, w) => s!"{bstr w} {se s}") (asExpr N kind x e))
  | "vars" => do
      let e ← parseExprW C
      let vs := e.vars
      pure s!"ok {vs.length}{String.join (vs.map fun v => " " ++ v)}"
  | "single" => do
      let e ← parseExprW C
      pure (showR id (singleVarName e))
  | "obeq" => do
      let a ← parseObjW C; let b ← parseObjW C
      pure s!"ok {bstr (Obj.beq N a b)} {bstr (HKey.same N a.hashKey b.hashKey)}"
  | "orender" => do
      let a ← parseObjW C
      pure s!"ok {" ".intercalate (a.render.map (showTok C))}"
  | "beq" => do
      let a ← parseExprW C; let b ← parseExprW C
      pure s!"ok {bstr (beq N a b)} {bstr (HKey.same N (hashKey a) (hashKey b))}"
  | "pbeq" => do
      let p ← parsePointW C; let q ← parsePointW C
      pure s!"ok {bstr (pointBeq N p q)}"
  | "render" => do
      let e ← parseExprW C
      let ts := render e
      let back := match parseExpr N (ts.length + 1) ts with
        | some (e', []) => beq N e e' && beq N e' e
        | _ => false
      pure s!"ok {bstr back} {" ".intercalate (ts.map (showTok C))}"
  | "renderpoint" => do
      let p ← parsePointW C
      let showP : PTok α → String
        | .tok t => showTok C t | .star2 => "**" | .lb => "{" | .rb => "}" | .colon => ":"
      pure s!"ok {" ".intercalate ((renderPointWith asciiKeywordName p).map showP)}"
  | "mk" => do
      let ctor ← tok
      let r : R (Expr α) ← match ctor with
        | "V" => do
            match ← parsePyVal C with
            | .str s => pure (mkVariableChecked asciiWord s)
            | _ => pure (throw .usage)
        | "NP" => do let a ← parsePyVal C; let n ← parsePyVal C; pure (mkNthPowerChecked N a n)
        | "NR" => do let a ← parsePyVal C; let n ← parsePyVal C; pure (mkNthRootChecked N a n)
        | "E" => do let a ← parsePyVal C; let b ← numTok C; pure (mkExponentialChecked N a b)
        | "L" => do let a ← parsePyVal C; let b ← numTok C; pure (mkLogarithmChecked N a b)
        | "N" => do pure (mkUnaryChecked mkNeg (← parsePyVal C))
        | "R" => do pure (mkUnaryChecked mkRecip (← parsePyVal C))
        | "CO" => do pure (mkUnaryChecked mkCos (← parsePyVal C))
        | "SI" => do pure (mkUnaryChecked mkSin (← parsePyVal C))
        | "S" => do let a ← parsePyVal C; let b ← parsePyVal C; pure (mkBinaryChecked mkMinus a b)
        | "D" => do let a ← parsePyVal C; let b ← parsePyVal C; pure (mkBinaryChecked mkDiv a b)
        | "P" => do let a ← parsePyVal C; let b ← parsePyVal C; pure (mkBinaryChecked mkPow a b)
        | "A" | "M" => do
            let k ← natTok
            let mut args := []
            for _ in [0:k] do
              args := (← parsePyVal C) :: args
            pure (mkNaryChecked (if ctor == "A" then mkAdd else mkMul) args.reverse)
        | _ => throw s!"bad constructor {ctor}"
      pure (showR se r)
  | "op" => do
      let which ← tok
      let a ← parseExprW C
      let r : R (Expr α) ← match which with
        | "neg" => pure (pure (opNeg a))
        | "add" => do pure (opAdd a (← parsePyVal C))
        | "sub" => do pure (opSub a (← parsePyVal C))
        | "mul" => do pure (opMul a (← parsePyVal C))
        | "div" => do pure (opDiv a (← parsePyVal C))
        | "pow" => do pure (opPow N a (← parsePyVal C))
        | _ => throw s!"bad operator {which}"
      pure (showR se r)
  | "mf" => do
      -- math_functions.py directly
      let f ← tok
      match f with
      | "add" | "multiply" => do
          let k ← natTok
          let mut xs := []
          for _ in [0:k] do
            xs := (← numTok C) :: xs
          pure ("ok " ++ C.show_ (if f == "add" then mfAdd N xs.reverse else mfMultiply N xs.reverse))
      | "minus" => do let x ← numTok C; let y ← numTok C; pure ("ok " ++ C.show_ (mfMinus N x y))
      | "negation" => do let x ← numTok C; pure ("ok " ++ C.show_ (mfNegation N x))
      | "divide" => do let x ← numTok C; let y ← numTok C; pure (showR C.show_ (mfDivide N x y))
      | "reciprocal" => do let x ← numTok C; pure (showR C.show_ (mfReciprocal N x))
      | "power" => do let x ← numTok C; let y ← numTok C; pure (showR C.show_ (mfPower N x y))
      | "nth_power" => do let x ← numTok C; let n ← natTok; pure (showR C.show_ (mfNthPower N x n))
      | "nth_root" => do let x ← numTok C; let n ← natTok; pure (showR C.show_ (mfNthRoot N x n))
      | "exponential" => do
          let x ← numTok C; let b ← numTok C; pure (showR C.show_ (mfExponential N x b))
      | "logarithm" => do
          let x ← numTok C; let b ← numTok C; pure (showR C.show_ (mfLogarithm N x b))
      | "cosine" => do let x ← numTok C; pure (showR C.show_ (mfCosine N x))
      | "sine" => do let x ← numTok C; pure (showR C.show_ (mfSine N x))
      | _ => throw s!"bad math function {f}"
  | "heap" => do
      -- public entry points on a DAG (ids) with an arbitrary initial content of the `_value` memos
      let which ← tok
      let e ← parseExprW C
      let k ← natTok
      let mut st : Store α := []
      for _ in [0:k] do
        let i ← natTok
        let v ← numTok C
        st := (i, v) :: st
      match which with
      | "at" => do
          let p ← parsePointW C
          pure (showR C.show_ (atS N p e st))
      | "partial" => do
          let x ← tok; let p ← parsePointW C
          pure (showR C.show_ (partialAtS N p x e st))
      | "nps" => do
          let p ← parsePointW C
          pure (showR (showAcc C) (numericPartialsS N p e st))
      | _ => throw s!"bad heap op {which}"
  | _ => throw s!"bad op {op}"

def handleLine (line : String) : String :=
  let toks := (line.splitOn " ").filter (· ≠ "")
  match toks with
  | [] => "bad empty"
  | inst :: op :: rest =>
    let run {α : Type} [Inhabited α] (C : Codec α) : String :=
      match (handle C op).run rest with
      | .ok (s, []) => s
      | .ok (_, extra) => s!"bad trailing {extra.length}"
      | .error m => "bad " ++ m
    match inst with
    | "Q" => run qeCodec
    | "F0" => run (fbCodec 0)
    | "F1" => run (fbCodec 1)
    | "F2" => run (fbCodec 2)
    | "F3" => run (fbCodec 3)
    | _ => "bad instance"
  | _ => "bad short"

partial def loop (h : IO.FS.Stream) (out : IO.FS.Stream) : IO Unit := do
  let line ← h.getLine
  if line.isEmpty then return ()
  let l := (line.dropEndWhile (fun c => c == '\n' || c == '\r')).toString
  out.putStrLn (handleLine l)
  loop h out

def main : IO Unit := do
  let out ← IO.getStdout
  loop (← IO.getStdin) out
  out.flush
