#!/bin/sh
# usage: tools_sweep.sh <tier> <seeds...> : run every check for the given seeds on the unchanged tree
TIER=$1; shift
for s in "$@"; do
  for i in 01 02 03 04 05 06 07 08 09 10 11 12 13 14 15 16 17 18; do
    VERIF_SEED=$s ./check C$i --tier $TIER 2>&1 | grep -E "^(OK|VIOLATION|INFRA)" | cut -c1-220 | sed "s/^/seed=$s /"
  done
done
