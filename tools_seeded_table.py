#!/usr/bin/env python3
"""print the markdown table of DESIGN.md §13 from seeded/*/meta.json"""
import glob, json, re
rows = []
for f in sorted(glob.glob("seeded/*/meta.json")):
    m = json.load(open(f))
    name = f.split("/")[1]
    needs = re.sub(r"\s+", " ", m.get("needs", "")).strip()
    needs = re.split(r"(?<=[a-z0-9\)])\. ", needs)[0]
    if len(needs) > 170:
        needs = needs[:167].rsplit(" ", 1)[0] + " …"
    needs = needs.replace("|", "\\|")
    caught = " ".join(c.replace("(no-failing-input-found)", "(no-input)") for c in m.get("caught_by", []))
    rows.append(f"| {name} | {m.get('property', '')} | {needs} | {caught} |")
print("| seeded change | breaks | needs | caught by |\n|---|---|---|---|")
print("\n".join(rows))
