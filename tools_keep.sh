#!/bin/sh
# usage: tools_keep.sh <Cxx> <name> "<checks that caught it>" : confirm a seeded change and store it under seeded/<name>
ID=$1; NAME=$2; CAUGHT=$3
WT=${MUTROOT:-/tmp/mut2}/$ID
set -e
mkdir -p seeded/$NAME
git -C $WT diff -- src > seeded/$NAME/patch.diff
cp $WT/seeded/demo.py seeded/$NAME/demo.py
# confirm: tests pass with change; demo fails with change, passes on /repo
T=$(cd $WT && /venv/bin/python -m pytest -q -p no:cacheprovider 2>&1 | tail -1)
set +e
D1=$(PYTHONPATH=$WT/src /venv/bin/python seeded/$NAME/demo.py 2>&1 | head -3 | tr '\n' ' '); R1=$?
PYTHONPATH=$WT/src /venv/bin/python seeded/$NAME/demo.py >/dev/null 2>&1; R1=$?
PYTHONPATH=/repo/src /venv/bin/python seeded/$NAME/demo.py >/dev/null 2>&1; R0=$?
python3 - "$WT" "$NAME" "$ID" "$T" "$R1" "$R0" "$CAUGHT" <<'PY'
import json,sys
wt,name,pid,t,r1,r0,caught=sys.argv[1:]
m=json.load(open(f"{wt}/seeded/meta.json"))
m["confirmed"]={"tests_with_change":t,"demo_exit_with_change":int(r1),"demo_exit_on_repo":int(r0),
  "ran":[f"cd {wt} && /venv/bin/python -m pytest -q -p no:cacheprovider", f"PYTHONPATH={wt}/src /venv/bin/python demo.py", "PYTHONPATH=/repo/src /venv/bin/python demo.py", "SMOOTHMATH_REPO=<worktree> ./check <ID> --tier quick"]}
m["caught_by"]=caught.split()
json.dump(m,open(f"/verif/seeded/{name}/meta.json","w"),indent=1)
print(name, "tests:",t,"| demo with change exit",r1,"| demo on /repo exit",r0)
PY
