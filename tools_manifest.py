#!/usr/bin/env python3
"""regenerates MANIFEST.json from harness/levels.py and the table below"""
import json, sys
sys.path.insert(0, '/verif')
from harness.levels import LEVEL

TEXT = {
 "C01": ("Theorem: the model's evaluator returns exactly the real-arithmetic denotation on the domain (eval_ok_iff); tie: every run compares Expression.at with the model, exactly where all intermediates are doubles, within the model's running error bound otherwise.", "2.1-2.3, 4/C01"),
 "C02": ("Theorem: the model's evaluator answers DomainError iff some sub-expression is outside its documented domain, for all trees and points; tie: outcome kinds on boundary-directed points and hidden offenders.", "4/C02"),
 "C03": ("Theorem: the model's forward mode is the derivative (HasDerivAt) of the denotation along the coordinate; tie: Partial/Derivative.at against the model.", "4/C03"),
 "C04": ("Theorem: the model's reverse mode accumulates multiplier x true partial for every variable at once; tie: LocatedDifferential / Differential.at on DAG inputs against the model.", "4/C04"),
 "C05": ("Theorems: symbolic forward/reverse derivatives evaluate to the numeric ones, mention no new variable, stay well formed (K1-free statement _partial); tie: as_expression() trees against the model, semantic oracle on the implementation's output incl. second order.", "4/C05"),
 "C06": ("Theorems (about the very route functions the driver executes, Model/Routes.lean): the numeric routes return the true partial with no side condition, all thirteen routes agree on the domain (K1-free hypotheses for the simplifying ones) and all raise DomainError off it; early = late as_expression for Partial/Derivative; K1 and K2 as proved witnesses; tie: every route against the model incl. warm-up calls on the route's own object and sharing siblings, pairwise oracle on the implementation.", "4/C06"),
 "C07": ("Theorems: every model route is .ok iff evaluation is .ok; tie and oracle: DomainError iff Expression.at raises, on all routes with undefined sub-trees planted where rules could skip them.", "4/C07"),
 "C08": ("Theorems: every rule, constant folding, the step driver for every fuel incl. the fallback, and the normal-form pass preserve value and definedness (K1-free _partial + witness; unconditional for inputs without even roots, C08odd); tie: ordered reducer tables, step-level traces (event, size) and normal forms against the model; semantic oracle on outputs.", "4/C08"),
 "C09": ("Theorems: heap entry points return the pure function of the tree from any memo contents; flag-independence of reduction within the step budget; persistent Partial/Derivative/Differential objects answer like fresh ones after any call sequence (C09obj, K1-free); tie: histories (incl. persistent derivative objects, domain-border sequences, repeated points) vs fresh copies, heap model fed with the memos actually found.", "4/C09"),
 "C10": ("Frame theorem of the model (operations touch only memo fields); decisive part is the snapshot oracle along histories.", "4/C10"),
 "C11": ("Theorem: a well-founded measure strictly decreases at every model step (no cycles, termination in a rule-free form); quadratic bound and 20-node budget measured, not proved; tie: step traces against the model.", "4/C11"),
 "C12": ("Theorems: model equality is structural equality with numeric parameters, an equivalence, and respected by the hash key, for expressions, points and the four derivative classes (C12obj); tie: ==/!=/hash/set/dict on pairs, triples, mutants, foreign objects, points, derivative objects.", "4/C12"),
 "C13": ("Theorems: parse (render e) = e (printing is injective up to equality); both printed forms of a point are injective and cannot be confused (C13point); tie: tokenised repr of expressions, points and derivative objects against the model's rendering; oracle eval(repr(x)) == x.", "4/C13"),
 "C14": ("Theorems: no missing-coordinate outcome when all occurring variables are supplied, never a value when one is missing, bare-number/Derivative acceptance iff <= 1 variable; tie: outcome kinds per supplied subset; names through keyword arguments exercised.", "4/C14"),
 "C15": ("Theorems: model operators are the constructors; ** accepts exactly expressions and integral k >= 1; tie: operators vs constructors vs model on pairs, exponent and foreign-operand grids.", "4/C15"),
 "C16": ("Theorems: checked constructors accept exactly the documented range, results are well formed, transformations preserve well-formedness; tie: argument grids against the model.", "4/C16"),
 "C17": ("Theorem: no modelled route ever yields a CPython-level error (zeroDiv/valueErr/complex); tie and oracle: every route and point kind returns a finite real / expression / DomainError / CoordinateMissing.", "4/C17"),
 "C18": ("Theorem: model outputs are invariant under permutations of the iteration orders it takes as parameters; tie: cross-process battery under PYTHONHASHSEEDs and permuted spellings.", "4/C18"),
}
ids = sorted(TEXT)
checks = []
for i in ids:
    lvl = LEVEL[i]
    checks.append({
        "property_id": i,
        "quick_cmd": f"./check {i} --tier quick",
        "thorough_cmd": f"./check {i} --tier thorough",
        "evidence_file": f"evidence/{i}.json",
        "replay_cmd_template": f"./check {i} --replay {{path}}",
        "engine": "lean-model+correspondence",
        "level_claimed": {"category": lvl,
                          "text": TEXT[i][0] if lvl == "proof" else "(theorems for this property are still being written: at present the check is the correspondence with the Lean model plus the property oracle on the implementation) " + TEXT[i][0],
                          "design_ref": TEXT[i][1]},
        "level_note": "Trusted: Lean kernel + Mathlib (axioms propext, Classical.choice, Quot.sound only, audited each run); the hand-written model and the Python harness/driver that tie it to /repo on every run; IEEE-754/libm/CPython primitives. See DESIGN.md section 5.",
        "technique": "Lean 4 theorem about a hand-written executable model + differential correspondence with /repo on every run" if lvl == "proof" else "differential correspondence with the Lean model + property oracle (theorems pending)",
    })
m = {
 "version": 1,
 "setup_cmd": "cd lean && lake build",
 "hooks": {"guard": "SMOOTHMATH_VERIF", "enable": "no hooks needed: the harness imports /repo/src in-process and wraps private methods at run time (harness/instrument.py)",
           "baseline_off_cmd": "cd /repo && /venv/bin/python -m pytest -q -p no:cacheprovider", "source_commits": [], "add_only": True},
 "engines": [{"name": "lean-model+correspondence", "path": "lean/ , harness/", "serves_properties": ids,
              "kind_free_text": "Lean 4 model (Mathlib-free, native driver) with theorems over Mathlib reals; Python differential harness"}],
 "checks": checks,
 "not_applicable": [],
 "notes": "fix: commits in /repo: 61f8c70 (C13), ce531ca (C07/C06), 5661d0a (C14/C17), 82372c9 (C13); recorded findings K1-K4 in KNOWN_FINDINGS.json",
}
json.dump(m, open('/verif/MANIFEST.json', 'w'), indent=1)
print("manifest written:", {l: sum(1 for c in checks if c['level_claimed']['category'] == l) for l in set(LEVEL.values())})
