#!/usr/bin/env python3
"""tools_corpus.py <Cxx> <seeded change> <replay file>: keep the failing input(s) a check reported for a
seeded change as corpus/<Cxx>/<change>.json (at most 3 cases)"""
import json, pathlib, sys
pid, name, replay = sys.argv[1:4]
d = json.load(open(replay))
cases = (d.get("cases") or [d.get("case")])[:3]
cases = [c for c in cases if isinstance(c, dict)]
if cases:
    out = pathlib.Path(__file__).resolve().parent / "corpus" / pid
    out.mkdir(parents=True, exist_ok=True)
    json.dump({"from": name, "what": d.get("what", "")[:300], "cases": cases}, open(out / f"{name}.json", "w"), indent=1, default=str)
