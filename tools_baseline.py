#!/usr/bin/env python3
"""record the fingerprint of the source the checks were last validated against
(/verif/baseline_src.json: relative path -> sha256); run after every `fix:` commit"""
import hashlib, json, pathlib, subprocess
root = pathlib.Path("/repo/src/smoothmath")
out = {str(p.relative_to(root)): hashlib.sha256(p.read_bytes()).hexdigest() for p in sorted(root.rglob("*.py"))}
head = subprocess.run(["git", "-C", "/repo", "rev-parse", "HEAD"], capture_output=True, text=True).stdout.strip()
json.dump({"commit": head, "files": out}, open("/verif/baseline_src.json", "w"), indent=1)
print(len(out), "files at", head)
