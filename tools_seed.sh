#!/bin/sh
# usage: tools_seed.sh <worktree> <check ids...> : run checks against a mutated worktree (quick tier)
WT=$1; shift
for p in "$@"; do
  VERIF_EVIDENCE_DIR=/tmp/seeded_evidence SMOOTHMATH_REPO=$WT ./check $p --tier quick 2>&1 | grep -E "^(OK|VIOLATION|INFRA|  )" | head -3 | cut -c1-260
done
