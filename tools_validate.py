#!/usr/bin/env python3
"""validate MANIFEST.json and evidence/*.json against the given schemas (run with python3-vt)"""
import json, glob, sys, jsonschema
ok = True
jsonschema.validate(json.load(open('/verif/MANIFEST.json')), json.load(open('/root/.vp/MANIFEST.schema.json')))
print('manifest valid')
es = json.load(open('/root/.vp/EVIDENCE.schema.json'))
for f in sorted(glob.glob('/verif/evidence/*.json')):
    try:
        jsonschema.validate(json.load(open(f)), es)
    except Exception as ex:
        ok = False
        print('INVALID', f, str(ex)[:300])
print('evidence', 'all valid' if ok else 'has problems')
sys.exit(0 if ok else 1)
