"""Shared runtime of the checks: paths, the model driver, guarded calls into the implementation,
known findings, evidence, replay files, the Lean leg (build, forbidden tokens, axiom audit)."""
from __future__ import annotations
import json
import math
import os
import re
import signal
import subprocess
import sys
import time
from pathlib import Path

from .levels import LEVEL

VERIF = Path(__file__).resolve().parent.parent
REPO = Path(os.environ.get("SMOOTHMATH_REPO", "/repo"))
LEAN = VERIF / "lean"
DRIVER = LEAN / ".lake" / "build" / "bin" / "driver"
EVIDENCE = Path(os.environ.get("VERIF_EVIDENCE_DIR", VERIF / "evidence"))   # runs against seeded changes write elsewhere
REPLAYS = Path(os.environ.get("VERIF_REPLAY_DIR", VERIF / "replays"))
CORPUS = VERIF / "corpus"

sys.path.insert(0, str(REPO / "src"))
sys.setrecursionlimit(100000)
sys.set_int_max_str_digits(0)

import smoothmath as sm  # noqa: E402
import smoothmath.expression as X  # noqa: E402
from smoothmath import DomainError, CoordinateMissing  # noqa: E402


class Infra(Exception):
    """the machinery itself could not run (exit 2)"""


# ------------------------------------------------------------------------------ the model driver

_lake_lock_done = False


def lake_build(targets: list[str]) -> tuple[bool, str]:
    """incremental build of the given lake targets; (ok, log)"""
    t0 = time.time()
    r = subprocess.run(["lake", "build", *targets], cwd=LEAN, capture_output=True, text=True)
    log = r.stdout + r.stderr
    return r.returncode == 0, log + f"\n[lake build {' '.join(targets)}: {time.time() - t0:.1f}s]"


def ensure_driver() -> None:
    ok, log = lake_build(["driver"])
    if not ok or not DRIVER.exists():
        raise Infra("cannot build the model driver:\n" + log[-3000:])


def run_model(lines: list[str], timeout: float = 900.0) -> list[str]:
    """pipe request lines to the native driver; one answer line per request (large batches are split over four
    driver processes: requests are independent of each other)"""
    if not lines:
        return []
    if len(lines) > 8000:
        from concurrent.futures import ThreadPoolExecutor
        k = (len(lines) + 3) // 4
        parts = [lines[i:i + k] for i in range(0, len(lines), k)]
        with ThreadPoolExecutor(max_workers=4) as pool:
            outs = list(pool.map(lambda part: run_model(part, timeout), parts))
        return [a for o in outs for a in o]
    data = "\n".join(lines) + "\n"
    try:
        r = subprocess.run([str(DRIVER)], input=data, capture_output=True, text=True,
                           timeout=max(timeout, len(data) / 5000.0))      # large batches get proportionally longer
    except subprocess.TimeoutExpired:
        try:        # keep the batch for diagnosis (outside /verif; nothing reads it back)
            open(f"/tmp/driver_timeout_{os.getpid()}_{len(lines)}.txt", "w").write(data)
        except OSError:
            pass
        raise Infra(f"model driver did not answer {len(lines)} requests within {max(timeout, len(data) / 5000.0):.0f}s")
    out = r.stdout.split("\n")
    if out and out[-1] == "":
        out.pop()
    if r.returncode != 0 or len(out) != len(lines):
        raise Infra(f"driver returned {r.returncode}, {len(out)} answers for {len(lines)} requests: "
                    + r.stderr[-2000:])
    for q, a in zip(lines, out):
        if a.startswith("bad"):
            raise Infra(f"driver rejected request {q!r}: {a}")
    return out


_NONFINITE = re.compile(r"\bx[7f]ff[0-9a-f]{13}\b")       # IEEE bit patterns with all exponent bits set


class Batch:
    """collect requests, run them in one driver process, hand the answers back by index"""

    def __init__(self):
        self.lines: list[str] = []
        self.answers: list[str] | None = None

    def ask(self, line: str) -> int:
        self.lines.append(line)
        return len(self.lines) - 1

    def run(self) -> None:
        # the exact-rational instance has no infinities or NaNs: an expression the implementation built
        # with such a constant (a folded product that overflowed, say) is answered "unsupported"
        # without being sent — every caller treats that as "no exact verdict"
        send = [i for i, ln in enumerate(self.lines) if not (ln.startswith("Q ") and _NONFINITE.search(ln))]
        got = run_model([self.lines[i] for i in send])
        self.answers = ["err unsupported"] * len(self.lines)
        for i, a in zip(send, got):
            self.answers[i] = a

    def __getitem__(self, i: int) -> str:
        assert self.answers is not None
        return self.answers[i]


# ------------------------------------------------------------------------- calling the real code

class _Timeout(Exception):
    pass


def _alarm(signum, frame):
    raise _Timeout()


signal.signal(signal.SIGALRM, _alarm)

LIB_ERRORS = ("domain", "missing")


LAST = {"text": ""}        # message of the library's own exception raised by the most recent call()


def call(f, *args, timeout: float = 5.0):
    """run f(*args) on the implementation; -> ('ok', value) | ('err', kind)

    kinds: domain, missing (the library's own), usage (a bare ``Exception``), overflow, recursion,
    timeout, and the foreign ones C17 forbids: zerodiv, valueerr, typeerr, keyerr, other:<Name>."""
    signal.setitimer(signal.ITIMER_REAL, timeout)
    LAST["text"] = ""
    try:
        return ("ok", f(*args))
    except DomainError as ex:
        LAST["text"] = str(ex)
        return ("err", "domain")
    except CoordinateMissing as ex:
        LAST["text"] = str(ex)
        return ("err", "missing")
    except _Timeout:
        return ("err", "timeout")
    except OverflowError:
        return ("err", "overflow")
    except RecursionError:
        return ("err", "recursion")
    except MemoryError:
        return ("err", "memory")
    except ZeroDivisionError:
        return ("err", "zerodiv")
    except ValueError:
        return ("err", "valueerr")
    except TypeError:
        return ("err", "typeerr")
    except KeyError:
        return ("err", "keyerr")
    except AttributeError as ex:
        # raised by the harness's own access to a private attribute (renamed or removed by a refactoring)
        # rather than inside the implementation: the check cannot observe, which is a broken tie, not an answer
        import traceback as _tb
        frames = _tb.extract_tb(ex.__traceback__)
        if frames and str(VERIF / "harness") in frames[-1].filename:
            raise
        return ("err", "other:AttributeError")
    except Exception as ex:  # noqa: BLE001
        if type(ex) is Exception:
            LAST["text"] = str(ex)
            return ("err", "usage")
        return ("err", "other:" + type(ex).__name__)
    finally:
        signal.setitimer(signal.ITIMER_REAL, 0)


def is_real_number(v) -> bool:
    return isinstance(v, (int, float)) and not isinstance(v, bool) and math.isfinite(v)


def parse_answer(a: str):
    """'ok …' -> ('ok', rest tokens) ; 'err tag' -> ('err', tag)"""
    toks = a.split(" ")
    if toks[0] == "ok":
        return ("ok", toks[1:])
    if toks[0] == "err":
        return ("err", toks[1])
    raise Infra(f"unparsable answer {a!r}")


# -------------------------------------------------------------------- known findings, violations

def load_known() -> dict:
    return json.loads((VERIF / "KNOWN_FINDINGS.json").read_text())


class Report:
    """what one check run found"""

    def __init__(self, pid: str, tier: str, seed: int):
        self.pid, self.tier, self.seed = pid, tier, seed
        self.t0 = time.time()
        self.t_round = self.t0          # start of the current generation round (reset by the runner)
        self.round_budget: float | None = None      # seconds for the current round, when the runner sets one
        self.evaluations = 0
        self.nontrivial: set = set()
        self.samples: list = []
        self.hist: dict[str, dict] = {}
        self.violations: list[dict] = []
        self.breaks: list[dict] = []
        self.known_hits: dict[str, dict] = {}
        self.skipped: dict[str, int] = {}
        self.corr_checked = 0
        self.notes: list[str] = []
        self.lean: dict = {}

    def count(self, table: str, key: str, k: int = 1) -> None:
        t = self.hist.setdefault(table, {})
        t[key] = t.get(key, 0) + k

    def stop(self) -> bool:
        """enough has been seen: ten violations are on record, or the time budget for exercising the
        implementation (quick 4 min, thorough 40 min per round; search rounds 90 s / 10 min) is used up — a defective or very slow
        implementation must not keep a check running for hours; what was not reached is noted"""
        if len(self.violations) >= 10:
            return True
        budget = self.round_budget or float(os.environ.get("VERIF_CASE_BUDGET_S", "240" if self.tier == "quick" else "2400"))
        if time.time() - self.t_round > budget:
            if not any(n.startswith("time budget") for n in self.notes):
                self.notes.append(f"time budget of {budget:.0f}s for exercising the implementation used up; remaining generated cases not run")
            return True
        return False

    def skip(self, why: str, n: int = 1) -> None:
        self.skipped[why] = self.skipped.get(why, 0) + n

    def case(self, key, nontrivial: bool = True) -> None:
        self.evaluations += 1
        if nontrivial:
            self.nontrivial.add(key)

    def sample(self, s, cap: int = 6) -> None:
        if len(self.samples) < cap:
            self.samples.append(s)

    def known(self, kid: str, what: str, case: dict) -> None:
        self.known_hits.setdefault(kid, {"what": what, "count": 0, "example": case})["count"] += 1

    def violation(self, what: str, case: dict, no_input: bool = False) -> None:
        if len(self.violations) < 50:
            self.violations.append({"what": what, "case": case, "no_failing_input_found": no_input})


def _corr_break(self, what: str, case: dict) -> None:
    if len(self.breaks) < 50:
        self.breaks.append({"what": what, "case": case})


Report.corr_break = _corr_break


def write_replay(pid: str, v: dict, seed: int, tier: str) -> Path:
    REPLAYS.mkdir(parents=True, exist_ok=True)
    p = REPLAYS / f"{pid}_{tier}_{seed}_{abs(hash(json.dumps(v, sort_keys=True, default=str))) % 10**8}.json"
    p.write_text(json.dumps({"property": pid, "seed": seed, "tier": tier, **v}, indent=1, default=str))
    return p


# ------------------------------------------------------------------------------------ Lean leg

FORBIDDEN = re.compile(
    r"\b(sorry|admit|native_decide|bv_decide|implemented_by|unsafe)\b|^\s*axiom\s|maxHeartbeats\s+0\b",
    re.M)
ALLOWED_AXIOMS = {"propext", "Classical.choice", "Quot.sound"}


def strip_comments(src: str) -> str:
    src = re.sub(r"/-.*?-/", "", src, flags=re.S)
    return re.sub(r"--.*", "", src)


# further theorem files of a property (built, scanned and axiom-audited with the main one)
EXTRA_PROPERTY_FILES = {"C08": ["C08odd"], "C12": ["C12obj"], "C09": ["C09obj"], "C13": ["C13point"], "C17": ["C17routes"], "C16": ["C17routes"]}


def lean_leg(pid: str, thorough: bool) -> dict:
    """build Properties/<pid>, grep for forbidden tokens, audit axioms of every theorem in it.
    -> dict(ok, theorems, axioms, log, broken)"""
    res: dict = {"ok": True, "broken": [], "theorems": [], "axioms": {}, "partial": []}
    files = [pid] + [x for x in EXTRA_PROPERTY_FILES.get(pid, []) if (LEAN / "Smooth" / "Properties" / f"{x}.lean").exists()]
    mods = [f"Smooth.Properties.{x}" for x in files]
    mod = " ".join(mods)
    src_file = LEAN / "Smooth" / "Properties" / f"{pid}.lean"
    if not src_file.exists():
        res["ok"] = False
        res["broken"].append(f"{src_file} missing")
        return res
    ok, log = lake_build(mods)
    res["build_log_tail"] = log[-1500:]
    if not ok:
        res["ok"] = False
        m = re.findall(r"error: (\S+\.lean:\d+:\d+): (.*)", log)
        res["broken"].append("lake build failed: " + "; ".join(f"{a} {b}" for a, b in m[:5]))
        return res
    # forbidden tokens anywhere in the library
    hits = []
    for f in sorted((LEAN / "Smooth").rglob("*.lean")):
        body = strip_comments(f.read_text())
        for m in FORBIDDEN.finditer(body):
            hits.append(f"{f.relative_to(LEAN)}: {m.group(0).strip()}")
    if hits:
        res["ok"] = False
        res["broken"].append("forbidden tokens: " + ", ".join(hits[:10]))
    # theorems of the property file(s)
    names = []
    for x in files:
        body = strip_comments((LEAN / "Smooth" / "Properties" / f"{x}.lean").read_text())
        names += re.findall(r"^\s*theorem\s+([A-Za-z0-9_.']+)", body, flags=re.M)
    res["theorems"] = names
    res["partial"] = [n for n in names if n.endswith("_partial")]
    if not names:
        res["ok"] = False
        res["broken"].append("no theorem in property file")
        return res
    audit = LEAN / ".lake" / f"audit_{pid}.lean"
    audit.write_text("".join(f"import {m}\n" for m in mods) + "open Smooth\n" + "".join(f"#print axioms {n}\n" for n in names))
    r = subprocess.run(["lake", "env", "lean", str(audit)], cwd=LEAN, capture_output=True, text=True)
    out = r.stdout + r.stderr
    for n in names:
        m = re.search(r"'(?:Smooth\.)?" + re.escape(n) + r"' (does not depend on any axioms|depends on axioms: \[([^\]]*)\])", out)
        if not m:
            res["ok"] = False
            res["broken"].append(f"axiom audit: no answer for {n}: {out[-300:]}")
            continue
        axs = [] if m.group(2) is None else [a.strip() for a in m.group(2).replace("\n", " ").split(",") if a.strip()]
        res["axioms"][n] = axs
        bad = [a for a in axs if a not in ALLOWED_AXIOMS]
        if bad:
            res["ok"] = False
            res["broken"].append(f"theorem {n} depends on {bad}")
    if thorough:
        r = subprocess.run(["lake", "env", "leanchecker"] + mods, cwd=LEAN, capture_output=True, text=True)
        res["leanchecker"] = "ok" if r.returncode == 0 else (r.stdout + r.stderr)[-500:]
        if r.returncode != 0:
            res["ok"] = False
            res["broken"].append("leanchecker rejected " + mod)
    return res



# ---------------------------------------------------------------------- what changed in the source

_CHANGED: list[str] | None = None

FILE_CLASSES = {
    "add.py": ["Add"], "multiply.py": ["Multiply"], "minus.py": ["Minus"], "divide.py": ["Divide"], "power.py": ["Power"],
    "negation.py": ["Negation"], "reciprocal.py": ["Reciprocal"], "cosine.py": ["Cosine"], "sine.py": ["Sine"],
    "nth_power.py": ["NthPower"], "nth_root.py": ["NthRoot"], "exponential.py": ["Exponential"], "logarithm.py": ["Logarithm"],
    "n_ary_expression.py": ["Add", "Multiply"], "binary_expression.py": ["Minus", "Divide", "Power"],
    "unary_expression.py": ["Negation", "Reciprocal", "Cosine", "Sine", "NthPower", "NthRoot", "Exponential", "Logarithm"],
    "parameterized_unary_expression.py": ["NthPower", "NthRoot", "Exponential", "Logarithm"],
}


def changed_sources() -> list[str]:
    """source files of the implementation that differ from the fingerprint the checks were last
    validated against (baseline_src.json); used only to aim and enlarge the generated cases — a
    changed file is where the tie between model and code has to be re-established"""
    global _CHANGED
    if _CHANGED is None:
        import hashlib
        try:
            base = json.loads((VERIF / "baseline_src.json").read_text())["files"]
        except (OSError, ValueError, KeyError):
            base = {}
        root = REPO / "src" / "smoothmath"
        now = {str(p.relative_to(root)): hashlib.sha256(p.read_bytes()).hexdigest() for p in sorted(root.rglob("*.py"))}
        _CHANGED = sorted(k for k in set(base) | set(now) if base.get(k) != now.get(k)) if base else []
    return _CHANGED


def changed_classes() -> list[str]:
    out: list[str] = []
    for f in changed_sources():
        for c in FILE_CLASSES.get(f.rsplit("/", 1)[-1], []):
            if c not in out:
                out.append(c)
    return out

# ------------------------------------------------------------------------------------ evidence

def write_evidence(rep: Report, rule: str, trusted: list[str], assumptions: list[str],
                   extra: dict | None = None) -> None:
    EVIDENCE.mkdir(exist_ok=True)
    lean = rep.lean
    nthm = len(lean.get("theorems", []))
    discharged = nthm if lean.get("ok") else max(0, nthm - max(1, len(lean.get("broken", []))))
    cov = {
        "obligations": max(nthm, 1),
        "discharged": discharged if nthm else 0,
        "checker_cmd": "cd lean && lake build " + " ".join(f"Smooth.Properties.{x}" for x in [rep.pid] + EXTRA_PROPERTY_FILES.get(rep.pid, [])) + f" && lake env lean .lake/audit_{rep.pid}.lean  # #print axioms of every theorem",
        "trusted_base": trusted,
        "theorems": lean.get("theorems", []),
        "partial_theorems": lean.get("partial", []),
        "axioms": lean.get("axioms", {}),
        "lean_leg_ok": bool(lean.get("ok")),
        "lean_leg_broken": lean.get("broken", []),
        "evaluations": rep.evaluations,
        "distinct_nontrivial": len(rep.nontrivial),
        "rule": rule,
        "samples": rep.samples[:6] or ["(no sample)"],
        "traces_validated_against_impl": rep.corr_checked,
        "histograms": rep.hist,
        "skipped": rep.skipped,
        "known_findings_hit": {k: {"count": v["count"], "what": v["what"]} for k, v in rep.known_hits.items()},
        "notes": rep.notes,
    }
    if "leanchecker" in lean:
        cov["leanchecker"] = lean["leanchecker"]
    if extra:
        cov.update(extra)
    ev = {
        "property_id": rep.pid,
        "tier": rep.tier,
        "seed": rep.seed,
        "level": LEVEL.get(rep.pid, "exploration"),
        "coverage": cov,
        "assumptions": assumptions,
        "wall_s": round(time.time() - rep.t0, 2),
        "violations": len(rep.violations),
    }
    (EVIDENCE / f"{rep.pid}.json").write_text(json.dumps(ev, indent=1, default=str))
