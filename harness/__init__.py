"""Verification harness.  The implementation under test is imported from $SMOOTHMATH_REPO/src
(default /repo/src) — the path is put first here, before any module of the package can import
`smoothmath`, so that no installed copy is picked up instead."""
import os as _os
import sys as _sys

_sys.path.insert(0, _os.path.join(_os.environ.get("SMOOTHMATH_REPO", "/repo"), "src"))
