"""Which level each property's evidence may claim: 'proof' once Properties/<id>.lean contains the
property's theorems (not the placeholder), 'exploration' before that."""
LEVEL = {f"C{i:02d}": "exploration" for i in range(1, 19)}
LEVEL.update({"C01": "proof", "C02": "proof", "C03": "proof"})
