"""Which level each property's evidence may claim: 'proof' once Properties/<id>.lean contains the
property's theorems (not the placeholder), 'exploration' before that."""
LEVEL = {f"C{i:02d}": "exploration" for i in range(1, 19)}
LEVEL.update({k: "proof" for k in ["C01", "C02", "C03", "C04", "C05", "C06", "C07", "C08", "C09", "C10", "C11", "C12", "C13", "C14", "C15", "C16", "C17", "C18"]})
