"""Two-phase comparison of implementation outcomes with model answers.

Phase 1 asks the exact-rational instance (Q) and the double instance (F0) for every case.  Cases on
which the implementation disagrees with F0 are asked again under the three guard-decision variants
F1..F3; if those disagree among themselves the disagreement is one that rounding alone can produce
and the case is counted as ``rounding-ambiguous`` instead of being judged.
"""
from __future__ import annotations
import math
from fractions import Fraction

from . import wire
from .core import Batch, Report, parse_answer, is_real_number

SKIP_ERRS = ("overflow", "recursion", "timeout", "memory")
RANGE_HI = 1e250
RANGE_LO = 0.0         # no lower limit: the double instance carries an absolute underflow term (`fTiny`, 1024 times the
                       # smallest subnormal) through products, quotients and powers, so its bound stays valid when an
                       # intermediate is subnormal; an intermediate that underflows to 0.0 makes the guards on it ambiguous


class NumCase:
    """one numeric question: ``suffix`` is the request without the instance prefix"""
    __slots__ = ("key", "suffix", "impl", "info", "iq", "if0", "verdict", "detail", "exact")

    def __init__(self, key, suffix: str, impl, info: dict):
        self.key, self.suffix, self.impl, self.info = key, suffix, impl, info
        self.verdict = None
        self.detail = ""
        self.exact = None


def _num_answer(a: str):
    k, rest = parse_answer(a)
    if k == "ok":
        return ("ok", wire.MNum(rest[0]))
    return ("err", rest)


def out_of_range(m: wire.MNum) -> bool:
    return (math.isnan(m.v) or math.isinf(m.v) or m.mx > RANGE_HI or m.mn < RANGE_LO
            or math.isinf(m.err) or math.isnan(m.err))


def same_outcome(impl, ans, slack=64.0) -> bool:
    if ans[0] == "ok":
        return impl[0] == "ok" and wire.num_close(ans[1], impl[1], slack)
    return impl[0] == "err" and impl[1] == ans[1]


def answers_agree(a, b) -> bool:
    if a[0] != b[0]:
        return False
    if a[0] == "err":
        return a[1] == b[1]
    x, y = a[1], b[1]
    tol = 64 * (x.err + y.err) + 64 * 2.3e-16 * max(abs(x.v), abs(y.v)) + 1e-300
    return abs(x.v - y.v) <= tol


def widen(a, variants):
    """the answer `a` with the most pessimistic error bound among the guard-decision variants: a zero
    test decided on a rounded value makes the as-computed run return an exact-looking 0 (the Python
    code returns the int 0 there), while a variant that decides the other way carries the bound"""
    if a[0] != "ok":
        return a
    m = a[1]
    w = wire.MNum.__new__(wire.MNum)
    w.kind, w.q, w.rep = "f", None, None
    w.v, w.mx, w.mn = m.v, m.mx, m.mn
    w.err = max([m.err] + [v[1].err for v in variants if v[0] == "ok" and v[1].kind == "f"])
    return ("ok", w)


def judge_numeric(cases: list[NumCase], rep: Report) -> None:
    """fills ``verdict`` of every case: match | skip:<why> | mismatch ; ``exact`` = ('exact-ok' |
    'exact-miss' | None) for the exactness sentence"""
    b = Batch()
    for c in cases:
        c.iq = b.ask("Q " + c.suffix)
        c.if0 = b.ask("F0 " + c.suffix)
    b.run()
    again: list[NumCase] = []
    for c in cases:
        aq = _num_answer(b[c.iq])
        af = _num_answer(b[c.if0])
        c.info["model_Q"] = b[c.iq]
        c.info["model_F0"] = b[c.if0]
        impl = c.impl
        if impl[0] == "err" and impl[1] in SKIP_ERRS:
            c.verdict = "skip:" + impl[1]
            continue
        if c.info.get("int_exact") and (aq[0] == "ok" or aq[1] in ("domain", "missing", "usage")):
            # CPython computes these nodes on ints, exactly (common.int_exact): the exact instance binds
            if same_outcome(impl, aq):
                c.verdict = "match"
            else:
                c.verdict = "mismatch"
                c.detail = f"implementation {impl!r} vs exact arithmetic {b[c.iq]} (all operands are Python ints)"
            continue
        if impl[0] == "ok" and not is_real_number(impl[1]):
            # NaN / inf / complex / non-number: never acceptable unless the run left the range
            if af[0] == "ok" and out_of_range(af[1]):
                c.verdict = "skip:range"
            else:
                c.verdict = "mismatch"
                c.detail = f"result {impl[1]!r} is not a finite real number"
            continue
        if af[0] == "ok" and out_of_range(af[1]):
            c.verdict = "skip:range"
            continue
        if af[0] == "err" and af[1] in ("unsupported", "fuel"):
            c.verdict = "skip:model-" + af[1]
            continue
        # exactness sentence
        if aq[0] == "ok" and aq[1].rep and impl[0] == "ok":
            c.exact = "exact-ok" if Fraction(impl[1]) == aq[1].q else "exact-miss"
        if same_outcome(impl, af):
            # exact decision of the rational instance disagreeing with both: rounding effect
            if aq[0] == "err" and aq[1] in ("domain", "missing", "usage") and not same_outcome(impl, aq):
                c.verdict = "skip:rounding-divergence"
            else:
                c.verdict = "match"
            continue
        again.append(c)
    if again:
        b2 = Batch()
        idx = []
        for c in again:
            idx.append([b2.ask(f"F{k} " + c.suffix) for k in (1, 2, 3)])
        b2.run()
        for c, ii in zip(again, idx):
            af = _num_answer(b[c.if0])
            variants = [_num_answer(b2[i]) for i in ii]
            c.info["model_variants"] = [b2[i] for i in ii]
            if not all(answers_agree(af, v) for v in variants):
                c.verdict = "skip:rounding-ambiguous"
            elif same_outcome(c.impl, widen(af, variants)):
                c.verdict = "match"          # inside the bound of the variant that kept the bound
                rep.count("verdicts", "match-after-widening")
            else:
                c.verdict = "mismatch"
                c.detail = f"implementation {c.impl!r} vs model {b[c.if0]}"
    for c in cases:
        rep.count("verdicts", c.verdict)


class ExprCase:
    """one symbolic question whose answer is ``<flag...> <expr>``"""
    __slots__ = ("key", "suffix", "impl", "info", "i0", "verdict", "detail", "model_tree", "pre", "flags", "model_pre")

    def __init__(self, key, suffix: str, impl, info: dict, pre: int = 0, flags: bool = False):
        self.key, self.suffix, self.impl, self.info = key, suffix, impl, info
        self.pre = pre          # number of leading tokens before the expression in the answer
        self.flags = flags
        self.verdict = None
        self.detail = ""
        self.model_tree = None
        self.model_pre = []


def _expr_answer(a: str, pre: int):
    k, rest = parse_answer(a)
    if k == "err":
        return ("err", rest, None)
    tree, _ = wire.parse_expr(rest, pre)
    return ("ok", tree, rest[:pre])


def judge_expr(cases: list[ExprCase], rep: Report) -> None:
    b = Batch()
    for c in cases:
        c.i0 = b.ask("F0 " + c.suffix)
    b.run()
    again = []
    for c in cases:
        a = _expr_answer(b[c.i0], c.pre)
        c.info["model_F0"] = b[c.i0][:2000]
        impl = c.impl
        if impl[0] == "err" and impl[1] in SKIP_ERRS:
            c.verdict = "skip:" + impl[1]
            continue
        if a[0] == "err":
            if a[1] in ("unsupported", "fuel"):
                c.verdict = "skip:model-" + a[1]
            elif impl[0] == "err" and impl[1] == a[1]:
                c.verdict = "match"
            else:
                again.append(c)
            continue
        c.model_tree = a[1]
        c.model_pre = a[2]
        if c.pre >= 1 and a[2] and a[2][0] == "1":
            # the model's run exhausted the 1000-step budget: on DAG inputs the implementation shares
            # reduction flags between occurrences and may need fewer steps (K4 territory) - not judged
            c.verdict = "skip:budget-exhausted-in-model"
            continue
        why: list = []
        if impl[0] == "ok" and wire.tree_matches(a[1], impl[1], c.flags, why):
            c.verdict = "match"
        else:
            c.detail = "; ".join(why[:3]) if impl[0] == "ok" else f"implementation raised {impl[1]}"
            again.append(c)
    if again:
        b2 = Batch()
        idx = [[b2.ask(f"F{k} " + c.suffix) for k in (1, 2, 3)] for c in again]
        b2.run()
        for c, ii in zip(again, idx):
            base = b[c.i0]
            if any(_strip_nums(b2[i]) != _strip_nums(base) for i in ii):
                c.verdict = "skip:rounding-ambiguous"
            else:
                c.verdict = "mismatch"
                c.detail = (c.detail or "") + f" | implementation {_show(c.impl)} vs model {base[:600]}"
    for c in cases:
        rep.count("verdicts", c.verdict)


def _strip_nums(a: str) -> str:
    """answer with numbers removed: the shape of the result"""
    return " ".join(t for t in a.split(" ") if not t.startswith("f:"))


def _show(impl) -> str:
    if impl[0] == "ok":
        return repr(impl[1])[:600]
    return f"raised {impl[1]}"
