"""Serialise real smoothmath objects to the driver's line protocol and parse its answers.

The walk uses the objects' private attributes (``_inner``, ``_left``, ``_right``, ``_inners``,
``_parameter``) — this is part of the trusted harness; if a refactor renames them the
correspondence is reported as broken (infrastructure), never silently skipped.
"""
from __future__ import annotations
import math
import struct
from fractions import Fraction

import smoothmath.expression as X
from smoothmath import Point

HEAD = {
    "Add": "A", "Multiply": "M", "Minus": "S", "Divide": "D", "Power": "P", "Negation": "N",
    "Reciprocal": "R", "Cosine": "CO", "Sine": "SI", "NthPower": "NP", "NthRoot": "NR",
    "Exponential": "E", "Logarithm": "L", "Constant": "C", "Variable": "V",
}
NAME = {v: k for k, v in HEAD.items()}


def num(v) -> str:
    """int -> decimal, float -> IEEE bits."""
    if isinstance(v, bool):
        return str(int(v))
    if isinstance(v, int):
        return str(v)
    if isinstance(v, float):
        return "x%016x" % struct.unpack("<Q", struct.pack("<d", v))[0]
    if isinstance(v, Fraction):
        return f"{v.numerator}/{v.denominator}" if v.denominator != 1 else str(v.numerator)
    raise TypeError(f"not a number: {v!r}")


def cls(e) -> str:
    return e.__class__.__name__


def expr(e, flags: bool = False, ids: dict | None = None) -> str:
    """prefix form; with ``flags`` the two reduction memo flags are included, with ``ids`` (a dict
    id(obj) -> small int, filled on the fly) object identities are included."""
    out: list[str] = []
    _expr(e, flags, ids, out)
    return " ".join(out)


def _head(e, flags, ids) -> str:
    h = HEAD[cls(e)]
    if h in ("NP", "NR") and isinstance(e._parameter, float):
        h += "~"            # n was given (and, in a defective build, is stored) as an integral float
    if flags:
        f = ("r" if e._is_fully_reduced else "") + ("f" if e._evaluation_failed else "")
        if f:
            h += "." + f
    if ids is not None:
        k = ids.setdefault(id(e), len(ids) + 1)
        h += f"@{k}"
    return h


def _expr(e, flags, ids, out) -> None:
    c = cls(e)
    h = _head(e, flags, ids)
    if c == "Constant":
        out += [h, num(e.value)]
    elif c == "Variable":
        out += [h, e.name]
    elif c in ("Add", "Multiply"):
        out += [h, str(len(e._inners))]
        for a in e._inners:
            _expr(a, flags, ids, out)
    elif c in ("Minus", "Divide", "Power"):
        out.append(h)
        _expr(e._left, flags, ids, out)
        _expr(e._right, flags, ids, out)
    elif c in ("Negation", "Reciprocal", "Cosine", "Sine"):
        out.append(h)
        _expr(e._inner, flags, ids, out)
    elif c in ("NthPower", "NthRoot"):
        out += [h, str(int(e._parameter))]      # (storing n as anything but int is C16's business)
        _expr(e._inner, flags, ids, out)
    elif c in ("Exponential", "Logarithm"):
        out += [h, num(e._parameter)]
        _expr(e._inner, flags, ids, out)
    else:
        raise TypeError(f"not an expression: {e!r}")


def coords(p) -> dict:
    """the coordinates of a Point as a dict in the order they were written: from the private mapping if it
    is there, otherwise read back from the printed form (a refactoring may store them differently)"""
    d = getattr(p, "_coordinates", None)
    if isinstance(d, dict):
        return d
    text = repr(p)
    return eval("dict(" + text[len("Point("):], {"__builtins__": {}, "dict": dict, "inf": float("inf"), "nan": float("nan")})


def point(p: Point | dict) -> str:
    d = coords(p) if isinstance(p, Point) else p
    return " ".join([str(len(d))] + [f"{k} {num(v)}" for k, v in d.items()])


def memo_store(e, ids: dict) -> str:
    """the ``_value`` fields of every object reachable from ``e`` that has one and is not None"""
    seen = {}

    def walk(n):
        if id(n) in seen:
            return
        v = getattr(n, "_value", None)
        if v is not None:
            seen[id(n)] = v
        else:
            seen.setdefault(id(n), None)
        for ch in children(n):
            walk(ch)
    walk(e)
    items = [(ids[k], v) for k, v in seen.items() if v is not None and k in ids]
    return " ".join([str(len(items))] + [f"{i} {num(v)}" for i, v in items])


def children(e) -> list:
    c = cls(e)
    if c in ("Add", "Multiply"):
        return list(e._inners)
    if c in ("Minus", "Divide", "Power"):
        return [e._left, e._right]
    if c in ("Constant", "Variable"):
        return []
    return [e._inner]


def size(e) -> int:
    return 1 + sum(size(c) for c in children(e))


def depth(e) -> int:
    return 1 + max((depth(c) for c in children(e)), default=0)


def classes(e, acc=None) -> dict:
    acc = {} if acc is None else acc
    acc[cls(e)] = acc.get(cls(e), 0) + 1
    for c in children(e):
        classes(c, acc)
    return acc


def fresh_str(s: str) -> str:
    """an equal but distinct str object (where CPython allows one: length >= 2): names reach the
    library from files, formats and joins, not only as interned source literals"""
    return "".join(list(s)) if isinstance(s, str) else s


def hexs(s: str) -> str:
    return s.encode("utf-8").hex() or "-"


# ---------------------------------------------------------------- parsing the model's answers

class MNum:
    """a number answered by the model: exact rational (``q``) or double with error bound (``f``)"""
    __slots__ = ("kind", "q", "rep", "v", "err", "mx", "mn")

    def __init__(self, tok: str):
        parts = tok.split(":")
        self.kind = parts[0]
        if self.kind == "q":
            self.q = Fraction(parts[1])
            self.rep = parts[2] == "r"
            self.v = None
        elif self.kind == "f":
            self.v = _f(parts[1])
            self.err = _f(parts[2])
            self.mx = _f(parts[3])
            self.mn = _f(parts[4])
            self.q = None
        else:
            raise ValueError(tok)

    def as_float(self) -> float:
        return float(self.q) if self.kind == "q" else self.v

    def __repr__(self):
        return f"q({self.q},{'rep' if self.rep else 'nrep'})" if self.kind == "q" else f"f({self.v!r}±{self.err:.3g})"


def _f(h: str) -> float:
    return struct.unpack("<d", struct.pack("<Q", int(h, 16)))[0]


def parse_expr(toks: list[str], i: int = 0):
    """-> (tree, next index); tree = (head, flags, payload...) with numbers as MNum"""
    t = toks[i]
    head, _, fl = t.partition(".")
    head = head.rstrip("~")
    i += 1
    if head == "C":
        return ("C", fl, MNum(toks[i])), i + 1
    if head == "V":
        return ("V", fl, toks[i]), i + 1
    if head in ("A", "M"):
        k = int(toks[i]); i += 1
        args = []
        for _ in range(k):
            a, i = parse_expr(toks, i)
            args.append(a)
        return (head, fl, args), i
    if head in ("S", "D", "P"):
        l, i = parse_expr(toks, i)
        r, i = parse_expr(toks, i)
        return (head, fl, l, r), i
    if head in ("N", "R", "CO", "SI"):
        u, i = parse_expr(toks, i)
        return (head, fl, u), i
    if head in ("NP", "NR"):
        n = int(toks[i]); i += 1
        u, i = parse_expr(toks, i)
        return (head, fl, n, u), i
    if head in ("E", "L"):
        b = MNum(toks[i]); i += 1
        u, i = parse_expr(toks, i)
        return (head, fl, b, u), i
    raise ValueError(f"bad head {t}")


def num_close(m: MNum, y, slack: float = 64.0) -> bool:
    """does the implementation's number ``y`` agree with the model's number ``m``?"""
    if isinstance(y, complex) or y is None:
        return False
    if isinstance(y, float) and (math.isnan(y) or math.isinf(y)):
        return False
    if m.kind == "q":
        if m.rep:
            return Fraction(y) == m.q
        ref = float(m.q)
        return abs(float(y) - ref) <= 1e-9 * max(1.0, abs(ref))
    if math.isnan(m.v) or math.isinf(m.v):
        return False
    tol = slack * m.err + slack * 2.3e-16 * abs(m.v) + 1e-300
    return abs(float(y) - m.v) <= tol


def tree_matches(t, e, flags: bool = False, why: list | None = None) -> bool:
    """structural comparison of a model tree with a real expression; numeric leaves/parameters
    compared as numbers (iterative: trees can be hundreds of levels deep)"""
    def fail(msg):
        if why is not None:
            why.append(msg)
        return False
    stack = [(t, e)]
    while stack:
        t, e = stack.pop()
        c = cls(e)
        if HEAD.get(c) != t[0]:
            return fail(f"class {c} vs {t[0]}")
        if flags:
            f = ("r" if e._is_fully_reduced else "") + ("f" if e._evaluation_failed else "")
            if f != t[1]:
                return fail(f"flags {f!r} vs {t[1]!r} at {c}")
        h = t[0]
        if h == "C":
            if not num_close(t[2], e.value):
                return fail(f"constant {e.value!r} vs {t[2]}")
        elif h == "V":
            if t[2] != e.name:
                return fail(f"name {e.name} vs {t[2]}")
        elif h in ("A", "M"):
            if len(t[2]) != len(e._inners):
                return fail(f"arity {len(e._inners)} vs {len(t[2])} at {c}")
            stack.extend(reversed(list(zip(t[2], e._inners))))
        elif h in ("S", "D", "P"):
            stack.append((t[3], e._right))
            stack.append((t[2], e._left))
        elif h in ("N", "R", "CO", "SI"):
            stack.append((t[2], e._inner))
        elif h in ("NP", "NR"):
            if t[2] != e._parameter:
                return fail(f"n {e._parameter} vs {t[2]}")
            stack.append((t[3], e._inner))
        elif h in ("E", "L"):
            if not num_close(t[2], e._parameter):
                return fail(f"base {e._parameter} vs {t[2]}")
            stack.append((t[3], e._inner))
        else:
            return fail("unknown head")
    return True


def build(t):
    """rebuild a real expression from a model tree (floats from the model's numbers)"""
    h = t[0]
    if h == "C":
        m = t[2]
        if m.kind == "q":
            return X.Constant(int(m.q) if m.q.denominator == 1 else float(m.q))
        return X.Constant(m.v)
    if h == "V":
        return X.Variable(t[2])
    if h == "A":
        return X.Add(*(build(a) for a in t[2]))
    if h == "M":
        return X.Multiply(*(build(a) for a in t[2]))
    if h in ("S", "D", "P"):
        k = {"S": X.Minus, "D": X.Divide, "P": X.Power}[h]
        return k(build(t[2]), build(t[3]))
    if h in ("N", "R", "CO", "SI"):
        k = {"N": X.Negation, "R": X.Reciprocal, "CO": X.Cosine, "SI": X.Sine}[h]
        return k(build(t[2]))
    if h in ("NP", "NR"):
        k = {"NP": X.NthPower, "NR": X.NthRoot}[h]
        return k(build(t[3]), t[2])
    if h in ("E", "L"):
        k = {"E": X.Exponential, "L": X.Logarithm}[h]
        return k(build(t[3]), base=t[2].as_float())
    raise ValueError(h)


# ------------------------------------------------------------ raw wire -> real objects (replay)

def raw_num(tok: str):
    if tok.startswith("x"):
        return _f(tok[1:])
    if "/" in tok:
        return float(Fraction(tok))
    return int(tok)


def build_raw(text: str, objs: dict | None = None):
    """rebuild real objects from the prefix form written by ``expr`` ; equal ``@id`` = same object
    (pass the same ``objs`` dict to share objects across several roots)"""
    toks = text.split(" ")
    objs = {} if objs is None else objs
    e, i = _build_raw(toks, 0, objs)
    if i != len(toks):
        raise ValueError("trailing tokens")
    return e


def _build_raw(toks, i, objs):
    t = toks[i]
    i += 1
    t, _, oid = t.partition("@")
    head = t.partition(".")[0]
    nfloat = head.endswith("~")
    head = head.rstrip("~")

    def done(obj):
        if oid:
            if oid in objs:
                return objs[oid]
            objs[oid] = obj
        return obj
    if head == "C":
        return done(X.Constant(raw_num(toks[i]))), i + 1
    if head == "V":
        return done(X.Variable(fresh_str(toks[i]))), i + 1
    if head in ("A", "M"):
        k = int(toks[i]); i += 1
        args = []
        for _ in range(k):
            a, i = _build_raw(toks, i, objs)
            args.append(a)
        if oid and oid in objs:
            return objs[oid], i
        return done((X.Add if head == "A" else X.Multiply)(*args)), i
    if head in ("S", "D", "P"):
        l, i = _build_raw(toks, i, objs)
        r, i = _build_raw(toks, i, objs)
        if oid and oid in objs:
            return objs[oid], i
        return done({"S": X.Minus, "D": X.Divide, "P": X.Power}[head](l, r)), i
    if head in ("N", "R", "CO", "SI"):
        u, i = _build_raw(toks, i, objs)
        if oid and oid in objs:
            return objs[oid], i
        return done({"N": X.Negation, "R": X.Reciprocal, "CO": X.Cosine, "SI": X.Sine}[head](u)), i
    if head in ("NP", "NR"):
        n = int(toks[i]); i += 1
        u, i = _build_raw(toks, i, objs)
        if oid and oid in objs:
            return objs[oid], i
        # n is handed to the constructor as an integral float in a deterministic quarter of the
        # positions (legal, and equivalent on a correct build: the constructor stores the integer)
        spell_float = nfloat or (i + n) % 4 == 0
        return done({"NP": X.NthPower, "NR": X.NthRoot}[head](u, float(n) if spell_float else n)), i
    if head in ("E", "L"):
        b = raw_num(toks[i]); i += 1
        u, i = _build_raw(toks, i, objs)
        if oid and oid in objs:
            return objs[oid], i
        return done({"E": X.Exponential, "L": X.Logarithm}[head](u, base=b)), i
    raise ValueError(f"bad head {t}")


class Refused(Exception):
    """the implementation refused an input every property takes for granted (a point over legal variable names)"""


def build_point(text: str) -> Point:
    toks = text.split(" ")
    k = int(toks[0])
    d = {toks[1 + 2 * j]: raw_num(toks[2 + 2 * j]) for j in range(k)}
    try:
        return Point(**d)
    except Exception as ex:  # noqa: BLE001 - e.g. TypeError when a coordinate name collides with a parameter name of Point.__init__
        raise Refused(f"Point(**{d!r}) raised {type(ex).__name__}: {ex}") from ex


def strip_ids(text: str) -> str:
    return " ".join(t.partition("@")[0] if not t.startswith("x") else t for t in text.split(" "))
