"""A fixed battery of queries, executed in a fresh interpreter:  python -m harness.battery <seed> <perm> <n>

Prints one JSON list of result strings (float.hex for numbers, repr for expressions, the error kind
for exceptions).  The battery itself is a pure function of <seed>; <perm> only changes the order in
which variables are first created and in which a point's coordinates are written."""
from __future__ import annotations
import itertools
import json
import random
import sys


def battery(seed: int, n: int) -> list[dict]:
    from . import common, gen, wire
    rng = random.Random(seed)
    out = []
    for origin, e in common.expr_stream(rng, "quick", n, depth_q=4, names=("x", "\u00b5", "\u03bc", "alpha", "b2"), share=0.2, max_size=150):
        vs = common.names_of(e)
        p = common.points_for(rng, e, 1)[0]
        e2, p2 = gen.safe_numbers(e, p)
        out.append({"e": wire.expr(e2, ids={}), "p": [[k, wire.num(v)] for k, v in sorted(p2.items())], "vars": vs})
    # two variables whose partial derivatives are equal expressions (==, same hash) written differently - int against
    # float constants, bases, exponents: anything remembered per *equal* expression while iterating over a set of names
    # makes the answer for one variable depend on which name the hash seed puts first
    X, V, C = gen.X, gen.X.Variable, gen.X.Constant
    stock = ["x", "\u00b5", "\u03bc", "alpha", "b2", "zeta", "kk", "w_1"]
    for k in range(max(8, n // 12)):
        a, b, c = rng.sample(stock, 3)
        pair = rng.choice([
            (C(3), C(3.0)), (X.NthPower(C(17), 13), X.NthPower(C(17.0), 13)), (X.Multiply(C(2), X.Sine(V(c))), X.Multiply(C(2.0), X.Sine(V(c)))),
            (X.Exponential(V(c), base=2), X.Exponential(V(c), base=2.0)), (X.Add(C(10 ** 16), C(1)), X.Add(C(1e16), C(1.0))),
            (X.NthPower(C(10), 23), X.NthPower(C(10.0), 23)), (X.Minus(C(2 ** 60), C(1)), X.Minus(C(2.0 ** 60), C(1.0))),
            (X.Logarithm(V(c), base=10), X.Logarithm(V(c), base=10.0)), (X.Multiply(C(7), V(c), C(3)), X.Multiply(C(7.0), V(c), C(3.0)))])
        if rng.random() < 0.5:
            pair = (pair[1], pair[0])
        e = X.Add(X.Multiply(V(a), pair[0]), X.Multiply(V(b), pair[1]))
        if rng.random() < 0.4:
            e = X.Add(X.Multiply(pair[1], V(b)), X.Sine(V(a)), X.Multiply(V(a), pair[0]))
        vs = common.names_of(e)
        p = {nm: rng.choice([0.5, 1.5, 2.0, 3.0, 0.75]) for nm in vs}
        out.append({"e": wire.expr(e, ids={}), "p": [[kk, wire.num(v)] for kk, v in sorted(p.items())], "vars": [a, b] + [nm for nm in vs if nm not in (a, b)]})
    return out


def fmt(r) -> str:
    if r[0] == "err":
        from .core import LAST
        return "!" + r[1] + (": " + LAST["text"] if LAST["text"] else "")      # the message is part of the outcome
    v = r[1]
    if isinstance(v, float):
        return v.hex()
    if isinstance(v, int):
        return str(v)
    return repr(v)


EARLY_DIFF_IDX: set[int] = set()      # positions (in the last in-process run) of results of an early Differential


def run(seed: int, perm: int, n: int) -> list[str]:
    EARLY_DIFF_IDX.clear()
    from . import wire
    from .core import call, sm, X
    from smoothmath import Point
    res = []
    # everything the library logs is part of the outcome too: the *same* text must come out under every hash seed and
    # every creation order (no particular wording is demanded)
    import logging
    logged: list[str] = []

    class _H(logging.Handler):
        def emit(self, record):
            try:
                logged.append(f"{record.levelname}:{record.getMessage()}")
            except Exception as exc:  # a message that cannot be formatted is an outcome as well
                logged.append(f"{record.levelname}:<unformattable {type(exc).__name__}>")
    logging.getLogger().addHandler(_H())

    def flush_log():
        res.append("log:" + json.dumps(logged))
        logged.clear()
    for c in battery(seed, n):
        names = list(c["vars"])
        perms = list(itertools.permutations(names))[: 6]
        order = perms[perm % len(perms)] if perms else ()
        _keep = [X.Variable(nm) for nm in order]              # variables first created in this order
        items = [(k, wire.raw_num(v)) for k, v in c["p"]]
        iperms = list(itertools.permutations(items))[: 6]
        items = list(iperms[perm % len(iperms)]) if iperms else []
        p = Point(**dict(items))
        mk = lambda: wire.build_raw(c["e"])  # noqa: E731
        res.append(fmt(call(lambda: mk().at(p))))
        for x in [wire.fresh_str(n) for n in names[:2]] + ["w"]:
            res.append(fmt(call(lambda: sm.Partial(mk(), x).at(p))))
            res.append(fmt(call(lambda: sm.LocatedDifferential(mk(), p).component(x))))
            EARLY_DIFF_IDX.add(len(res))
            res.append(fmt(call(lambda: sm.Differential(mk(), compute_early=True).at(p).component(x), timeout=30)))
            res.append(fmt(call(lambda: sm.Partial(mk(), x).as_expression(), timeout=30)))
            EARLY_DIFF_IDX.add(len(res))
            res.append(fmt(call(lambda: sm.Differential(mk(), compute_early=True).component(x).as_expression(), timeout=30)))
        res.append(fmt(call(lambda: mk()._normalize(), timeout=30)))
        # points that lack some of the variables: which error, with which message
        base_items = [(k_, wire.raw_num(v)) for k_, v in c["p"]]        # sorted by name: what is dropped does not depend on perm
        for k in range(1, min(len(base_items), 3) + 1):
            rest = list(itertools.permutations(base_items[k:]))[: 6]
            q = Point(**dict(rest[perm % len(rest)]))
            res.append(fmt(call(lambda: mk().at(q))))
            res.append(fmt(call(lambda: sm.LocatedDifferential(mk(), q))).split("(")[0])
            res.append(fmt(call(lambda: sm.Partial(mk(), names[0] if names else "w", compute_early=True).at(q), timeout=30)))
            res.append(fmt(call(lambda: sm.Differential(mk()).at(q))).split("(")[0])
        if len(names) <= 1:
            res.append(fmt(call(lambda: sm.Derivative(mk()).at(1.25))))
            res.append(fmt(call(lambda: mk().at(0.75))))
        # printed forms echo the order in which the coordinates were written (that is what "echo" means), so they are taken
        # from a point written in one fixed order: only the hash seed and the creation order of variables vary
        pfix = Point(**dict((k_, wire.raw_num(v)) for k_, v in c["p"]))
        res.append(fmt(call(lambda: (repr(pfix), str(pfix), repr(sm.LocatedDifferential(mk(), pfix, _private={"numeric_partials": {}}))))))
        flush_log()
    # simplifications that run out of the step budget, over several variable names: the expression handed back and
    # whatever is logged about it
    import hashlib
    rng = random.Random(seed + 29)
    stock = ["x", "y", "alpha", "b2", "\u00b5", "zeta", "_u", "k9", "w_1"]
    for terms in (260, 330, 400)[: 3 if n >= 60 else 2]:
        ns = rng.sample(stock, rng.randint(3, 5))
        order = list(itertools.permutations(ns))[: 6]
        _keep = [X.Variable(nm) for nm in order[perm % len(order)]]
        mkbig = lambda: X.Add(*(X.Multiply(*[X.Variable(nm) for nm in ns]) for _ in range(terms)))  # noqa: E731
        qs = [lambda: sm.Partial(mkbig(), wire.fresh_str(ns[0])).as_expression(), lambda: mkbig()._normalize()]
        if terms < 300:      # the early Differential of the larger ones takes seconds
            qs.append(lambda: sm.Differential(mkbig(), compute_early=True).component(ns[1]).as_expression())
        for qi, q in enumerate(qs):
            if qi == 2:
                EARLY_DIFF_IDX.add(len(res))
            r = fmt(call(q, timeout=120))
            res.append(f"{len(r)}:{hashlib.sha256(r.encode()).hexdigest()[:24]}" if len(r) > 400 else r)
        flush_log()
    # printed forms of points: names keyword syntax can and cannot spell, mixed, several of each (written in one fixed order)
    rng = random.Random(seed + 17)
    stock = ["x", "y", "alpha", "b2", "1x", "2y", "3z", "class", "lambda", "None", "\u00b5", "\uff58", "\u212b", "zeta", "_u", "k9"]
    for _ in range(40):
        ns = rng.sample(stock, rng.randint(2, 6))
        items = [(nm, rng.choice([1, 2.5, -3, 0.0, 7])) for nm in ns]
        q = Point(**dict(items))
        res.append(fmt(call(lambda: (repr(q), str(q)))))
        e = X.Add(*[X.Variable(nm) for nm in sorted(ns)])
        res.append(fmt(call(lambda: (repr(sm.LocatedDifferential(e, q)), repr(sm.Differential(e).at(q))))))
    return res


if __name__ == "__main__":
    seed, perm, n = int(sys.argv[1]), int(sys.argv[2]), int(sys.argv[3])
    print(json.dumps(run(seed, perm, n)))
