"""A fixed battery of queries, executed in a fresh interpreter:  python -m harness.battery <seed> <perm> <n>

Prints one JSON list of result strings (float.hex for numbers, repr for expressions, the error kind
for exceptions).  The battery itself is a pure function of <seed>; <perm> only changes the order in
which variables are first created and in which a point's coordinates are written."""
from __future__ import annotations
import itertools
import json
import random
import sys


def battery(seed: int, n: int) -> list[dict]:
    from . import common, gen, wire
    rng = random.Random(seed)
    out = []
    for origin, e in common.expr_stream(rng, "quick", n, depth_q=4, names=("x", "\u00b5", "\u03bc", "alpha", "b2"), share=0.2, max_size=150):
        vs = common.names_of(e)
        p = common.points_for(rng, e, 1)[0]
        e2, p2 = gen.safe_numbers(e, p)
        out.append({"e": wire.expr(e2, ids={}), "p": [[k, wire.num(v)] for k, v in sorted(p2.items())], "vars": vs})
    return out


def fmt(r) -> str:
    if r[0] == "err":
        from .core import LAST
        return "!" + r[1] + (": " + LAST["text"] if LAST["text"] else "")      # the message is part of the outcome
    v = r[1]
    if isinstance(v, float):
        return v.hex()
    if isinstance(v, int):
        return str(v)
    return repr(v)


def run(seed: int, perm: int, n: int) -> list[str]:
    from . import wire
    from .core import call, sm, X
    from smoothmath import Point
    res = []
    for c in battery(seed, n):
        names = list(c["vars"])
        perms = list(itertools.permutations(names))[: 6]
        order = perms[perm % len(perms)] if perms else ()
        _keep = [X.Variable(nm) for nm in order]              # variables first created in this order
        items = [(k, wire.raw_num(v)) for k, v in c["p"]]
        iperms = list(itertools.permutations(items))[: 6]
        items = list(iperms[perm % len(iperms)]) if iperms else []
        p = Point(**dict(items))
        mk = lambda: wire.build_raw(c["e"])  # noqa: E731
        res.append(fmt(call(lambda: mk().at(p))))
        for x in [wire.fresh_str(n) for n in names[:2]] + ["w"]:
            res.append(fmt(call(lambda: sm.Partial(mk(), x).at(p))))
            res.append(fmt(call(lambda: sm.LocatedDifferential(mk(), p).component(x))))
            res.append(fmt(call(lambda: sm.Differential(mk(), compute_early=True).at(p).component(x), timeout=30)))
            res.append(fmt(call(lambda: sm.Partial(mk(), x).as_expression(), timeout=30)))
            res.append(fmt(call(lambda: sm.Differential(mk(), compute_early=True).component(x).as_expression(), timeout=30)))
        res.append(fmt(call(lambda: mk()._normalize(), timeout=30)))
        # points that lack some of the variables: which error, with which message
        base_items = [(k_, wire.raw_num(v)) for k_, v in c["p"]]        # sorted by name: what is dropped does not depend on perm
        for k in range(1, min(len(base_items), 3) + 1):
            rest = list(itertools.permutations(base_items[k:]))[: 6]
            q = Point(**dict(rest[perm % len(rest)]))
            res.append(fmt(call(lambda: mk().at(q))))
            res.append(fmt(call(lambda: sm.LocatedDifferential(mk(), q))).split("(")[0])
            res.append(fmt(call(lambda: sm.Partial(mk(), names[0] if names else "w", compute_early=True).at(q), timeout=30)))
            res.append(fmt(call(lambda: sm.Differential(mk()).at(q))).split("(")[0])
        if len(names) <= 1:
            res.append(fmt(call(lambda: sm.Derivative(mk()).at(1.25))))
            res.append(fmt(call(lambda: mk().at(0.75))))
    return res


if __name__ == "__main__":
    seed, perm, n = int(sys.argv[1]), int(sys.argv[2]), int(sys.argv[3])
    print(json.dumps(run(seed, perm, n)))
