"""Generators of expressions (real objects), points and rule-directed patterns.  Every random choice
comes from the one ``random.Random`` handed in, so a seed replays exactly."""
from __future__ import annotations
import math
import random
from typing import Callable

from .core import X

GRID = [-3, -2, -1, -0.5, -0.25, 0, 0.25, 0.5, 1, 1.5, 2, 3, 4]
CONSTS = [-2, -1, -0.5, 0, 0.5, 1, 2, 3, 1.5, 4, -3]
NS = [1, 2, 2, 3, 3, 4, 5, 6]
WIDE_NS = list(range(7, 31)) + [33, 45, 64, 81, 100, 255]     # every residue class a shortcut might single out
EXP_BASES = [math.e, math.e, 2, 0.5, 10, 3, 1, 2.0, 0.25, 1.0000000001, 0.9999999999, 2.718281828, 2.7182818285]
LOG_BASES = [math.e, math.e, 2, 0.5, 10, 3, 2.0, 0.25, 1.0000000001, 0.9999999999, 2.718281828, 2.7182818285]

LEAVES = ["Constant", "Variable"]
RATIONAL = ["Add", "Multiply", "Minus", "Negation", "Divide", "Reciprocal", "NthPower"]
ROOTS = ["NthRoot"]
TRANSC = ["Power", "Exponential", "Logarithm", "Cosine", "Sine"]
ALL = RATIONAL + ROOTS + TRANSC


class Gen:
    def __init__(self, rng: random.Random, names=("x", "y", "z"), kinds=ALL, floats_only=False,
                 share: float = 0.0, max_arity: int = 4):
        self.rng = rng
        self.names = list(names)
        self.kinds = list(kinds)
        self.floats_only = floats_only
        self.share = share
        self.max_arity = max_arity
        self.pool: list = []

    # numbers -------------------------------------------------------------------------------
    def number(self, grid=GRID):
        v = self.rng.choice(grid)
        if self.floats_only or self.rng.random() < 0.4:
            return float(v)
        return int(v) if float(v).is_integer() else v

    def n(self):
        """n of NthPower / NthRoot; sometimes spelled as an integral float, which is legal"""
        k = self.rng.choice(NS) if self.rng.random() < 0.85 else self.rng.choice(WIDE_NS)
        return float(k) if self.rng.random() < 0.15 else k

    # expressions ---------------------------------------------------------------------------
    def leaf(self):
        if self.rng.random() < 0.6:
            return X.Variable(self.rng.choice(self.names))
        return X.Constant(self.number(CONSTS))

    def expr(self, depth: int):
        r = self.rng
        if self.share and self.pool and r.random() < self.share:
            return r.choice(self.pool)
        if depth <= 0 or r.random() < 0.12:
            e = self.leaf()
        else:
            e = self.node(r.choice(self.kinds), depth)
        self.pool.append(e)
        return e

    def node(self, kind: str, depth: int):
        r = self.rng
        sub = lambda: self.expr(depth - 1)  # noqa: E731
        if kind in ("Add", "Multiply"):
            k = r.choice([0, 1, 2, 2, 2, 3, 3, 4][: 4 + self.max_arity])
            return getattr(X, kind)(*(sub() for _ in range(k)))
        if kind in ("Minus", "Divide", "Power"):
            return getattr(X, kind)(sub(), sub())
        if kind in ("Negation", "Reciprocal", "Cosine", "Sine"):
            return getattr(X, kind)(sub())
        if kind in ("NthPower", "NthRoot"):
            return getattr(X, kind)(sub(), self.n())
        if kind == "Exponential":
            b = r.choice(EXP_BASES)
            return X.Exponential(sub()) if b is math.e and r.random() < 0.5 else X.Exponential(sub(), base=b)
        if kind == "Logarithm":
            b = r.choice(LOG_BASES)
            return X.Logarithm(sub()) if b is math.e and r.random() < 0.5 else X.Logarithm(sub(), base=b)
        raise ValueError(kind)

    # points --------------------------------------------------------------------------------
    def point(self, names, grid=GRID, extra: float = 0.0) -> dict:
        d = {n: self.number(grid) for n in names}
        if extra and self.rng.random() < extra:
            d["extra_" + self.rng.choice("abc")] = self.number(grid)
        items = list(d.items())
        self.rng.shuffle(items)
        return dict(items)


def has_kind(e, kinds) -> bool:
    from .wire import children, cls
    return cls(e) in kinds or any(has_kind(c, kinds) for c in children(e))


def floatify(e):
    """rebuild with every numeric leaf as float (exponentials of large Python ints can hang)"""
    from .wire import cls
    c = cls(e)
    if c == "Constant":
        return X.Constant(float(e.value))
    if c == "Variable":
        return X.Variable(e.name)
    if c in ("Add", "Multiply"):
        return e.__class__(*(floatify(a) for a in e._inners))
    if c in ("Minus", "Divide", "Power"):
        return e.__class__(floatify(e._left), floatify(e._right))
    if c in ("NthPower", "NthRoot"):
        return e.__class__(floatify(e._inner), e._parameter)
    if c in ("Exponential", "Logarithm"):
        return e.__class__(floatify(e._inner), base=e._parameter)
    return e.__class__(floatify(e._inner))


def clone(e):
    """a freshly built structural copy that shares no object with ``e``"""
    from .wire import cls
    c = cls(e)
    if c == "Constant":
        return X.Constant(e.value)
    if c == "Variable":
        return X.Variable(e.name)
    if c in ("Add", "Multiply"):
        return e.__class__(*(clone(a) for a in e._inners))
    if c in ("Minus", "Divide", "Power"):
        return e.__class__(clone(e._left), clone(e._right))
    if c in ("NthPower", "NthRoot"):
        return e.__class__(clone(e._inner), e._parameter)
    if c in ("Exponential", "Logarithm"):
        return e.__class__(clone(e._inner), base=e._parameter)
    return e.__class__(clone(e._inner))


SAFE_POINT_KINDS = ("Exponential", "Power")


def safe_numbers(e, p: dict) -> tuple:
    """trees with ``**`` on two Python ints can allocate astronomically large integers: give those
    trees float leaves and float coordinates"""
    if has_kind(e, SAFE_POINT_KINDS):
        return floatify(e), {k: float(v) for k, v in p.items()}
    return e, p


# ----------------------------------------------------------------------------- rule patterns

def rule_patterns(g: Gen, depth: int = 2) -> list[tuple[str, object]]:
    """every rewrite rule's left-hand side, instantiated with random sub-expressions in the holes,
    over parameter and arity variations; (rule name, expression)"""
    r = g.rng
    u = lambda: g.expr(depth)  # noqa: E731
    C = X.Constant
    out: list[tuple[str, object]] = []

    def around(items: list, k: int = 2) -> list:
        """insert ``items`` at random positions among k random other arguments"""
        others = [u() for _ in range(r.randint(0, k))]
        allx = others + items
        r.shuffle(allx)
        return allx

    n, m = g.n(), g.n()
    bases = [math.e, 2, 0.5, 10]
    b = r.choice(bases)
    b2 = r.choice(bases)
    out += [
        ("addFlatten", X.Add(*around([X.Add(*[u() for _ in range(r.randint(0, 3))])]))),
        ("addZeros", X.Add(*around([C(r.choice([0, 0.0]))]))),
        ("addLogs", X.Add(*around([X.Logarithm(u(), base=b), X.Logarithm(u(), base=b),
                                   X.Logarithm(u(), base=b2)]))),
        ("addConsts", X.Add(*around([C(g.number()), C(g.number())]))),
        ("minusToSum", X.Minus(u(), u())),
        ("negNeg", X.Negation(X.Negation(u()))),
        ("negSum", X.Negation(X.Add(*[u() for _ in range(r.randint(0, 3))]))),
        ("mulFlatten", X.Multiply(*around([X.Multiply(*[u() for _ in range(r.randint(0, 3))])]))),
        ("mulZero", X.Multiply(*around([C(r.choice([0, 0.0]))]))),
        ("mulOnes", X.Multiply(*around([C(r.choice([1, 1.0]))]))),
        ("mulNegs", X.Multiply(*around([X.Negation(u()) for _ in range(r.randint(1, 3))]))),
        ("mulNPows", X.Multiply(*around([X.NthPower(u(), n), X.NthPower(u(), n), X.NthPower(u(), m)]))),
        ("mulNRoots", X.Multiply(*around([X.NthRoot(u(), n), X.NthRoot(u(), n), X.NthRoot(u(), m)]))),
        ("mulExps", X.Multiply(*around([X.Exponential(u(), base=b), X.Exponential(u(), base=b),
                                        X.Exponential(u(), base=b2)]))),
        ("mulConsts", X.Multiply(*around([C(g.number()), C(g.number())]))),
        ("divToMul", X.Divide(u(), u())),
        ("recipRecip", X.Reciprocal(X.Reciprocal(u()))),
        ("recipNeg", X.Reciprocal(X.Negation(u()))),
        ("recipProd", X.Reciprocal(X.Multiply(*[u() for _ in range(r.randint(0, 3))]))),
        ("powOne", X.Power(u(), C(r.choice([1, 1.0])))),
        ("powZero", X.Power(u(), C(r.choice([0, 0.0])))),
        ("onePow", X.Power(C(r.choice([1, 1.0])), u())),
        ("powNat", X.Power(u(), C(r.choice([2, 3, 4.0, 5, 2.0])))),
        ("powNegOne", X.Power(u(), C(r.choice([-1, -1.0])))),
        ("powConstBase", X.Power(C(r.choice([2, 0.5, 3.0, 10])), u())),
        ("powPow", X.Power(X.Power(u(), u()), u())),
        ("powNegExp", X.Power(u(), X.Negation(u()))),
        ("powRecipBase", X.Power(X.Reciprocal(u()), u())),
        ("npowOne", X.NthPower(u(), 1)),
        ("npowRoot", X.NthPower(X.NthRoot(u(), m), n)),
        ("npowRoot", X.NthPower(X.NthRoot(u(), n), n)),
        ("npowRoot", X.NthPower(X.NthRoot(u(), 2 * m), 2 * n)),
        ("npowPow", X.NthPower(X.NthPower(u(), m), n)),
        ("npowNeg", X.NthPower(X.Negation(u()), n)),
        ("npowRecip", X.NthPower(X.Reciprocal(u()), n)),
        ("npowExp", X.NthPower(X.Exponential(u(), base=b), n)),
        ("nrootOne", X.NthRoot(u(), 1)),
        ("nrootPow", X.NthRoot(X.NthPower(u(), m), n)),
        ("nrootRoot", X.NthRoot(X.NthRoot(u(), m), n)),
        ("nrootNeg", X.NthRoot(X.Negation(u()), r.choice([1, 3, 5]))),
        ("nrootRecip", X.NthRoot(X.Reciprocal(u()), n)),
        ("expLog", X.Exponential(X.Logarithm(u(), base=b), base=b)),
        ("expNeg", X.Exponential(X.Negation(u()), base=r.choice(bases + [1]))),
        ("logExp", X.Logarithm(X.Exponential(u(), base=b), base=b)),
        ("logRecip", X.Logarithm(X.Reciprocal(u()), base=b)),
        ("logNPow", X.Logarithm(X.NthPower(u(), r.choice([1, 3, 5])), base=b)),
        ("cosNeg", X.Cosine(X.Negation(u()))),
        ("sinNeg", X.Sine(X.Negation(u()))),
    ]
    # consolidation with two (or three) keys that are each shared: the groups themselves form a collection
    n2 = n + 1 if m == n else m
    b3 = [q for q in bases if q != b][0]
    nu = int(n)
    n = nu if nu >= 2 else 2
    n2 = int(n2) if int(n2) != n and int(n2) >= 2 else n + 1

    def u():        # holes that keep their identity through simplification: a variable, lightly wrapped
        v = X.Variable(r.choice(g.names))
        return r.choice([v, v, X.Sine(v), X.Add(v, X.Constant(2.0)), X.Cosine(X.Variable(r.choice(g.names)))])
    out += [
        ("mulNPows", X.Multiply(*around([X.NthPower(u(), n), X.NthPower(u(), n2), X.NthPower(u(), n),
                                         X.NthPower(u(), n2), X.NthPower(u(), n2 + 2), X.NthPower(u(), n2 + 2)], 1))),
        ("mulNRoots", X.Multiply(*around([X.NthRoot(u(), n), X.NthRoot(u(), n2), X.NthRoot(u(), n),
                                          X.NthRoot(u(), n2)], 1))),
        ("mulExps", X.Multiply(*around([X.Exponential(u(), base=b), X.Exponential(u(), base=b3),
                                        X.Exponential(u(), base=b), X.Exponential(u(), base=b3)], 1))),
        ("addLogs", X.Add(*around([X.Logarithm(u(), base=b), X.Logarithm(u(), base=b3),
                                   X.Logarithm(u(), base=b), X.Logarithm(u(), base=b3)], 1))),
    ]
    return out


def wrap_random(g: Gen, e, levels: int = 1):
    """plant ``e`` under random parents"""
    r = g.rng
    for _ in range(levels):
        k = r.choice(["Add", "Multiply", "Negation", "Reciprocal", "NthPower", "Minus", "Divide",
                      "MulZero", "PowBaseOne", "ZeroNumerator", "Sine"])
        if k == "Add":
            e = X.Add(g.expr(1), e)
        elif k == "Multiply":
            e = X.Multiply(e, g.expr(1))
        elif k == "Negation":
            e = X.Negation(e)
        elif k == "Reciprocal":
            e = X.Reciprocal(e)
        elif k == "NthPower":
            e = X.NthPower(e, g.n())
        elif k == "Minus":
            e = X.Minus(e, g.expr(1))
        elif k == "Divide":
            e = X.Divide(g.expr(1), e)
        elif k == "MulZero":
            e = X.Multiply(X.Constant(0), e)
        elif k == "PowBaseOne":
            e = X.Power(X.Constant(1), e)
        elif k == "ZeroNumerator":
            e = X.Divide(X.Constant(0), e)
        elif k == "Sine":
            e = X.Sine(e)
    return e


# ------------------------------------------------------------------------------ constructor pairs

def makers(g: Gen) -> list:
    """every constructor as a one-hole context, with independently drawn parameters and operands"""
    r = g.rng
    leaf = lambda: g.expr(r.choice([0, 0, 1]))  # noqa: E731
    return [
        ("Negation", lambda u: X.Negation(u)), ("Reciprocal", lambda u: X.Reciprocal(u)),
        ("Cosine", lambda u: X.Cosine(u)), ("Sine", lambda u: X.Sine(u)),
        ("NthPower", lambda u: X.NthPower(u, g.n())), ("NthRoot", lambda u: X.NthRoot(u, g.n())),
        ("Exponential", lambda u: X.Exponential(u, base=r.choice(EXP_BASES))),
        ("Logarithm", lambda u: X.Logarithm(u, base=r.choice(LOG_BASES))),
        ("PowerL", lambda u: X.Power(u, leaf())), ("PowerR", lambda u: X.Power(leaf(), u)),
        ("DivideL", lambda u: X.Divide(u, leaf())), ("DivideR", lambda u: X.Divide(leaf(), u)),
        ("MinusR", lambda u: X.Minus(leaf(), u)),
        ("Add", lambda u: X.Add(*_around(r, [u], [leaf() for _ in range(r.randint(0, 2))]))),
        ("Multiply", lambda u: X.Multiply(*_around(r, [u], [leaf() for _ in range(r.randint(0, 2))]))),
    ]


def _around(r, items, others):
    allx = others + items
    r.shuffle(allx)
    return allx


def pair_patterns(g: Gen) -> list[tuple[str, object]]:
    """outer(inner(u)) for every ordered pair of constructors, parameters drawn independently"""
    out = []
    ms = makers(g)
    for no, fo in ms:
        for ni, fi in ms:
            out.append((f"pair:{no}/{ni}", fo(fi(g.expr(g.rng.choice([0, 1]))))))
    return out


def param_pairs(g: Gen) -> list[tuple[str, object]]:
    """outer(inner(u)) for the four parameterised constructors over a full grid of parameter pairs"""
    import math
    ns = [1, 2, 3, 4]
    eb = [math.e, 2, 0.5, 1]
    lb = [math.e, 2, 0.5]
    fam = [("NthPower", X.NthPower, ns, False), ("NthRoot", X.NthRoot, ns, False),
           ("Exponential", X.Exponential, eb, True), ("Logarithm", X.Logarithm, lb, True)]
    out = []
    for no, ko, po, bo in fam:
        for ni, ki, pi, bi in fam:
            for a in po:
                for b in pi:
                    u = g.expr(g.rng.choice([0, 0, 1]))
                    inner = ki(u, base=b) if bi else ki(u, b)
                    outer = ko(inner, base=a) if bo else ko(inner, a)
                    out.append((f"ppair:{no}[{a:.3g}]/{ni}[{b:.3g}]", outer))
    return out


def twin_patterns(g: Gen) -> list[tuple[str, object]]:
    """n-ary nodes with structurally equal operands that are *distinct objects* (and, for contrast,
    the same object twice): anything that confuses equality with identity shows up here"""
    out = []
    r = g.rng
    for _ in range(6):
        u = g.expr(r.choice([1, 2]))
        fs = [X.Sine, X.Cosine, X.Exponential, lambda v: X.NthPower(v, 2), X.Negation,
              lambda v: X.Multiply(v, X.Variable("x")), lambda v: X.Add(v, X.Constant(1.0))]
        f = r.choice(fs)
        a, b, c = f(u), f(clone(u)), f(clone(u))
        out.append(("twin:mul", X.Multiply(a, b)))
        out.append(("twin:add", X.Add(a, b, g.expr(1))))
        out.append(("twin:add3", X.Add(g.expr(1), a, b, c)))
        out.append(("twin:same-object", X.Multiply(a, a, b)))
        out.append(("twin:nested", X.Logarithm(X.Add(X.NthPower(clone(u), 2), X.NthPower(clone(u), 2), X.Constant(1.0)))))
    return out


# ----------------------------------------------------------------------------- rich shapes

def rich_shapes(rng: random.Random, count: int, classes=None) -> list[tuple[str, object]]:
    """depth-2/3 trees over every constructor whose children are *wide*: sums and products of 1-4
    items mixing constants, variables and unary nodes that share one base / one n with the root —
    the shapes a (new) rewrite rule matches only partly: a rule for `f(c * g(u))` meets
    `f(c * g(u) * v)`, a rule for a binary node meets its n-ary cousin, and so on"""
    out = []
    names = ["x", "y", "z"]
    roots = classes or ALL
    for _ in range(count):
        b = rng.choice([math.e, math.e, 2, 10, 0.5, 3.0])
        n = rng.choice([1, 2, 2, 3, 4, 5, 6])
        same = lambda: b if rng.random() < 0.75 else rng.choice([math.e, 2, 10, 0.5])  # noqa: E731
        samen = lambda: n if rng.random() < 0.6 else rng.choice([1, 2, 3, 4, 6])  # noqa: E731

        def leaf():
            if rng.random() < 0.55:
                return X.Variable(rng.choice(names[: rng.randint(1, 3)]))
            return X.Constant(rng.choice([0, 1, -1, 2, 3, 0.5, -2, 2.0, 1.5, -0.5]))

        def unary(u):
            k = rng.randrange(9)
            if k == 0:
                return X.Negation(u)
            if k == 1:
                return X.Reciprocal(u)
            if k == 2:
                return X.NthPower(u, samen())
            if k == 3:
                return X.NthRoot(u, samen())
            if k == 4:
                return X.Exponential(u, base=same())
            if k == 5:
                return X.Logarithm(u, base=same())
            if k == 6:
                return X.Sine(u)
            if k == 7:
                return X.Cosine(u)
            return X.Logarithm(u, base=same())

        def binary(u, v):
            return rng.choice([X.Minus, X.Divide, X.Power])(u, v)

        def item():
            r = rng.random()
            if r < 0.4:
                return leaf()
            if r < 0.85:
                return unary(leaf())
            return binary(leaf(), leaf())

        def nary():
            op = rng.choice([X.Add, X.Multiply])
            return op(*[item() for _ in range(rng.randint(1, 4))])

        def child():
            r = rng.random()
            if r < 0.15:
                return leaf()
            if r < 0.4:
                return unary(item())
            if r < 0.85:
                return nary()
            return binary(item(), item())

        root = rng.choice(roots)
        if root in ("Constant", "Variable"):
            root = "Exponential"
        if root in ("Add", "Multiply"):
            e = getattr(X, root)(*[child() for _ in range(rng.randint(2, 4))])
        elif root in ("Minus", "Divide", "Power"):
            e = getattr(X, root)(child(), child())
        elif root in ("NthPower", "NthRoot"):
            e = getattr(X, root)(child(), n)
        elif root in ("Exponential", "Logarithm"):
            e = getattr(X, root)(child(), base=b)
        else:
            e = getattr(X, root)(child())
        out.append(("shape:" + root, e))
    return out


# ----------------------------------------------------------------------------- unary chains

def unary_makers() -> list[tuple[str, str, object]]:
    """(class, label, constructor) for every unary class with the parameter values rules single out"""
    out = [("Negation", "Negation", X.Negation), ("Reciprocal", "Reciprocal", X.Reciprocal),
           ("Cosine", "Cosine", X.Cosine), ("Sine", "Sine", X.Sine)]
    for n in (1, 2, 3, 4, 5, 6):
        out.append(("NthPower", f"NthPower{n}", (lambda k: lambda u: X.NthPower(u, k))(n)))
        out.append(("NthRoot", f"NthRoot{n}", (lambda k: lambda u: X.NthRoot(u, k))(n)))
    for b, lb in ((math.e, "e"), (2, "2"), (0.5, "half"), (1, "1")):
        out.append(("Exponential", f"Exp{lb}", (lambda k: lambda u: X.Exponential(u, base=k))(b)))
        if b != 1:
            out.append(("Logarithm", f"Log{lb}", (lambda k: lambda u: X.Logarithm(u, base=k))(b)))
    return out


def unary_chains(rng: random.Random, count: int, top: list[str] | None = None) -> list[tuple[str, object]]:
    """f(g(h(leaf))) over all unary constructors and their parameters: where a rule about `f(g(u))`
    meets a `u` that is itself a root, a power, a reciprocal ... With ``top`` every chain under each
    parameter variant of those classes is enumerated instead of sampled."""
    M = unary_makers()
    x = X.Variable("x")
    leaves = [lambda: x, lambda: X.Minus(x, X.Constant(1)), lambda: X.Multiply(x, X.Variable("y"))]
    out = []
    if top:
        for c1, l1, f1 in M:
            if c1 not in top:
                continue
            for c2, l2, f2 in M:
                for c3, l3, f3 in M:
                    out.append((f"chain:{l1}/{l2}/{l3}", f1(f2(f3(rng.choice(leaves)())))))
        rng.shuffle(out)
        return out[: max(count, 1)]
    for _ in range(count):
        (c1, l1, f1), (c2, l2, f2), (c3, l3, f3) = rng.choice(M), rng.choice(M), rng.choice(M)
        e = f1(f2(f3(rng.choice(leaves)()))) if rng.random() < 0.8 else f1(f2(rng.choice(leaves)()))
        out.append((f"chain:{l1}/{l2}/{l3}", e))
    return out


# ----------------------------------------------------------------------------- scale

def scaled(rng: random.Random, count: int) -> list[tuple[str, object]]:
    """inputs that are large in one dimension: many operands, deep nesting, many variables, the same
    variable many times, long operator chains, large n — with values kept moderate"""
    names = ["x", "y", "z", "u", "v", "w", "t"]
    V = {n: X.Variable(n) for n in names}
    C = X.Constant
    out = []

    def small():
        r = rng.random()
        v = V[rng.choice(names[: rng.randint(1, 7)])]
        if r < 0.35:
            return v
        if r < 0.5:
            return C(rng.choice([0.5, 2, -1, 3, 1.5, 0, 1, -0.5]))
        if r < 0.62:
            return X.Sine(v)
        if r < 0.72:
            return X.Cosine(v)
        if r < 0.8:
            return X.Multiply(C(rng.choice([2, 0.5, -1])), v)
        if r < 0.88:
            return X.NthPower(v, rng.choice([2, 3]))
        if r < 0.94:
            return X.Negation(v)
        return X.Reciprocal(X.Add(C(2), X.Cosine(v)))

    def bounded(u):
        """a unary/binary wrapper that keeps magnitudes tame however deep it is stacked"""
        k = rng.randrange(10)
        if k == 0:
            return X.Sine(u)
        if k == 1:
            return X.Cosine(u)
        if k == 2:
            return X.Add(u, C(rng.choice([1, -0.5, 0.25])))
        if k == 3:
            return X.Multiply(C(rng.choice([0.5, -0.5, 0.9])), u)
        if k == 4:
            return X.Negation(u)
        if k == 5:
            return X.NthRoot(X.Add(X.NthPower(u, 2), C(1)), rng.choice([2, 3, 4]))
        if k == 6:
            return X.Reciprocal(X.Add(C(3), X.Sine(u)))
        if k == 7:
            return X.Minus(small(), u)
        if k == 8:
            return X.Divide(u, X.Add(C(2), X.NthPower(small(), 2)))
        return X.Logarithm(X.Add(X.NthPower(u, 2), C(2)), base=rng.choice([math.e, 2, 10]))

    for _ in range(count):
        kind = rng.randrange(10)
        if kind == 8:       # very wide: counts just past the usual thresholds (16, 32, 64, 100, 128, 256)
            k = rng.choice([17, 33, 34, 40, 65, 100, 101, 129, 257])
            x = V[rng.choice(names[:3])]
            how = rng.randrange(4)
            if how == 0:
                e = X.Add(*[X.Multiply(C(1 + i % 7), x) if i % 3 else X.Sine(X.Multiply(C(i % 5 + 1), x)) for i in range(k)])
            elif how == 1:
                e = x
                for i in range(min(k, 130) - 1):
                    e = e + (x if i % 4 else V["y"])
            elif how == 2:
                e = X.Multiply(*[X.Add(C(1), X.Multiply(C(0.001 * (1 + i % 9)), x)) for i in range(min(k, 130))])
            else:
                e = X.Add(*[V[names[i % 7]] for i in range(k)], X.Multiply(*[V[names[i % 5]] for i in range(6)]))
            tag = "very-wide"
        elif kind == 9:     # a shared node doubled again and again: 2^k occurrences of every leaf
            s0 = X.Add(X.Multiply(V["x"], V["y"]), X.Negation(V["x"]), C(0.25))
            e = s0
            for i in range(rng.randint(5, 8)):
                e = X.Add(e, e) if i % 2 == 0 else X.Multiply(C(0.5), X.Add(e, e))
            tag = "doubling"
        elif kind == 0:     # wide sum / product
            op = rng.choice([X.Add, X.Multiply])
            e = op(*[small() for _ in range(rng.randint(6, 14))])
            tag = "wide"
        elif kind == 1:     # deep nesting
            e = small()
            for _ in range(rng.randint(8, 16)):
                e = bounded(e)
            tag = "deep"
        elif kind == 2:     # long operator chains (nested binary nodes, as written with + and *)
            e = small()
            for _ in range(rng.randint(10, 22)):
                e = (e + small()) if rng.random() < 0.6 else (e * rng.choice([C(0.5), X.Cosine(V["x"]), small()]))
            tag = "chain"
        elif kind == 3:     # many variables, each several times
            k = rng.randint(5, 7)
            terms = [X.Multiply(V[names[i]], V[names[(i + 1) % k]]) for i in range(k)] + [X.Sine(V[names[i]]) for i in range(k)]
            rng.shuffle(terms)
            e = X.Add(*terms)
            tag = "many-vars"
        elif kind == 4:     # one variable many times
            x = V["x"]
            e = X.Add(*[X.Multiply(C(i % 3 - 1.5), X.NthPower(x, 1 + i % 5)) for i in range(rng.randint(8, 16))])
            tag = "repeated-var"
        elif kind == 5:     # large n
            n = rng.choice([40, 41, 50, 63, 64, 99, 100, 128])
            inner = X.Add(C(1), X.Multiply(C(0.01), small()))
            e = rng.choice([X.NthPower(inner, n), X.NthRoot(X.Add(C(2), X.Sine(small())), n),
                            X.NthPower(X.NthRoot(X.Add(C(2), small()), n + 1), n)])
            tag = "large-n"
        elif kind == 6:     # wide node whose operands are nested nodes of the same class (flattening)
            op = rng.choice([X.Add, X.Multiply])
            e = op(*[op(small(), small(), op(small(), small())) for _ in range(rng.randint(3, 6))], small())
            tag = "nested-wide"
        else:               # products of many powers / exponentials / roots of the same things (consolidation with many groups)
            # factors drawn with replacement from a small stock, above and below the line: the same power,
            # exponential or root several times over, to be consolidated and cancelled with the right multiplicities
            stock = []
            for _ in range(rng.randint(3, 5)):
                v = V[rng.choice(names[:3])]
                b = rng.choice([math.e, 2, 3])
                stock.append(rng.choice([
                    lambda v=v: X.NthPower(v, rng.randint(1, 4)), lambda v=v, b=b: X.Exponential(v, base=b),
                    lambda v=v, b=b: X.Exponential(X.Negation(v), base=b), lambda v=v, b=b: X.Reciprocal(X.Exponential(v, base=b)),
                    lambda v=v: X.NthRoot(X.Add(C(2), X.NthPower(v, 2)), rng.choice([2, 3])), lambda v=v: X.Reciprocal(X.Add(C(2), X.Sine(v))),
                    lambda v=v: X.Reciprocal(X.NthPower(X.Add(C(2), X.Cosine(v)), 2)), lambda v=v: v, lambda v=v: C(2)]))
            fs = [rng.choice(stock)() for _ in range(rng.randint(3, 12))]
            e = X.Multiply(*fs) if rng.random() < 0.7 else X.Add(*[X.Logarithm(X.Add(C(2), X.NthPower(f, 2)), base=rng.choice([math.e, 2])) for f in fs])
            tag = "many-groups"
        out.append(("scale:" + tag, e))
    return out


def heavy_sums(rng: random.Random, count: int) -> list[tuple[str, object]]:
    """sums of 8-22 terms, each a product/quotient of several non-trivial factors over five variables:
    their symbolic partials take several hundred to a few thousand reduction steps"""
    names = ["a", "b", "c", "d", "k"]
    V = {n: X.Variable(n) for n in names}
    C = X.Constant
    out = []

    def factor():
        v, w = V[rng.choice(names)], V[rng.choice(names)]
        k = rng.randrange(8)
        if k == 0:
            return X.Sine(X.Multiply(v, w))
        if k == 1:
            return X.Exponential(v)
        if k == 2:
            return X.Add(C(float(rng.randint(1, 4))), X.NthPower(w, 2))
        if k == 3:
            return X.Cosine(X.Add(v, w))
        if k == 4:
            return X.NthPower(v, rng.choice([2, 3]))
        if k == 5:
            return X.Logarithm(X.Add(C(2.0), X.NthPower(v, 2)))
        if k == 6:
            return v
        return X.Minus(v, C(0.5))

    for _ in range(count):
        terms = []
        for _ in range(rng.randint(8, 22)):
            num = X.Multiply(*[factor() for _ in range(rng.randint(2, 3))])
            terms.append(X.Divide(num, X.Add(C(float(rng.randint(1, 5))), X.NthPower(V[rng.choice(names)], 2))) if rng.random() < 0.6 else num)
        if rng.random() < 0.5:
            e = terms[0]
            for t in terms[1:]:
                e = e + t
        else:
            e = X.Add(*terms)
        out.append(("heavy", e))
    return out


def cancelling_products(rng: random.Random, count: int) -> list[tuple[str, object]]:
    """products and quotients in which the same factor stands k times above and m times below the line, in
    every spelling of "below" (Reciprocal, Divide, negative exponent, power of a reciprocal): what is left
    after cancelling must have the right multiplicity; sums with repeated and negated terms likewise"""
    names = ["x", "y", "z"]
    C = X.Constant
    out = []
    for _ in range(count):
        v = X.Variable(rng.choice(names))
        w = X.Variable(rng.choice(names))
        b = rng.choice([math.e, 2, 3, 0.5])
        f = rng.choice([
            lambda: X.Exponential(v, base=b), lambda: X.Add(C(2), X.Sine(v)), lambda: v, lambda: X.NthPower(v, rng.choice([2, 3])),
            lambda: X.NthRoot(X.Add(C(3), X.NthPower(v, 2)), rng.choice([2, 3])), lambda: X.Add(C(1), X.NthPower(X.Multiply(v, w), 2)),
            lambda: X.Logarithm(X.Add(C(3), X.NthPower(v, 2)), base=b), lambda: X.Cosine(X.Multiply(C(0.5), v))])

        def below():
            g = f()
            k = rng.randrange(5)
            if k == 0:
                return X.Reciprocal(g)
            if k == 1 and wire_cls(g) == "Exponential":
                return X.Exponential(X.Negation(g._inner), base=g._parameter)
            if k == 2:
                return X.Divide(C(1), g)
            if k == 3:
                return X.NthPower(X.Reciprocal(g), 1)
            return X.Reciprocal(X.NthPower(g, 1))
        up, down = rng.randint(0, 3), rng.randint(0, 3)
        others = [rng.choice([w, C(2), X.Sine(w), X.Add(w, C(1))]) for _ in range(rng.randint(0, 2))]
        if rng.random() < 0.7:
            fs = [f() for _ in range(up)] + [below() for _ in range(down)] + others
            rng.shuffle(fs)
            e = X.Multiply(*fs) if rng.random() < 0.6 else functools_reduce_mul(fs)
            tag = f"product:{up}/{down}"
        else:
            ts = [f() for _ in range(up)] + [X.Negation(f()) if rng.random() < 0.6 else X.Multiply(C(-1), f()) for _ in range(down)] + others
            rng.shuffle(ts)
            e = X.Add(*ts)
            tag = f"sum:{up}/{down}"
        out.append(("cancel:" + tag, e))
    return out


def wire_cls(e) -> str:
    return type(e).__name__


def functools_reduce_mul(fs: list):
    if not fs:
        return X.Multiply()
    e = fs[0]
    for t in fs[1:]:
        e = e * t if rng_free_coin(e, t) else X.Divide(e, X.Reciprocal(t))
    return e


def rng_free_coin(a, b) -> bool:
    return (len(repr(a)) + len(repr(b))) % 3 != 0


def directed_shapes(rng: random.Random, root: str, mentioned: list[str], ints: list[int], count: int) -> list[tuple[str, object]]:
    """expressions rooted at class ``root`` whose children are built mostly from the classes a (new, unmodelled)
    rewrite rule's source mentions, with the parameters it mentions: the shapes such a rule is about"""
    pool = [k for k in mentioned if k in ALL] or list(ALL)
    ns = [k for k in ints if 1 <= k <= 64] or [2, 3]
    V, C = X.Variable, X.Constant

    def leaf():
        return rng.choice([V("x"), V("y"), V("x"), C(float(rng.choice([0, 1, 2, -1, 3]))), V("z")])

    def build(depth: int, top: str | None = None):
        if depth <= 0:
            return leaf()
        c = top or (rng.choice(pool) if rng.random() < 0.8 else rng.choice(ALL))
        sub = lambda: build(depth - 1) if rng.random() < 0.75 else leaf()  # noqa: E731
        n = rng.choice(ns) if rng.random() < 0.8 else rng.choice(NS)
        if c in ("Add", "Multiply"):
            return getattr(X, c)(*[sub() for _ in range(rng.randint(2, 4))])
        if c in ("Minus", "Divide", "Power"):
            return getattr(X, c)(sub(), sub())
        if c in ("NthPower", "NthRoot"):
            return getattr(X, c)(sub(), n)
        if c == "Exponential":
            return X.Exponential(sub(), base=rng.choice(EXP_BASES + [float(k) for k in ns if k > 1]))
        if c == "Logarithm":
            return X.Logarithm(sub(), base=rng.choice(LOG_BASES + [float(k) for k in ns if k > 1]))
        return getattr(X, c)(sub())

    PLAIN = ("Negation", "Reciprocal", "Cosine", "Sine")

    def variation(e):
        """``e`` with the class of one plain unary node swapped for another one the rule mentions (sin(u)**2 -> cos(u)**2)"""
        from . import wire
        toks = wire.expr(e).split(" ")
        heads = {wire.HEAD[k]: k for k in PLAIN if k in wire.HEAD}
        sites = [i for i, t in enumerate(toks) if t in heads and (i == 0 or toks[i - 1] not in ("V",))]
        others = [k for k in pool if k in PLAIN] or list(PLAIN)
        if not sites:
            return build(2)
        i = rng.choice(sites)
        new = rng.choice([k for k in others if wire.HEAD[k] != toks[i]] or others)
        toks[i] = wire.HEAD[new]
        return wire.build_raw(" ".join(toks))

    def family(depth: int):
        """an n-ary root whose operands are related: a fresh one, variations of earlier ones, repeats of earlier ones"""
        kids = [build(depth - 1)]
        for _ in range(rng.randint(1, 4)):
            r = rng.random()
            kids.append(variation(rng.choice(kids)) if r < 0.45 else rng.choice(kids) if r < 0.7 else build(depth - 1))
        rng.shuffle(kids)
        return getattr(X, root)(*kids)

    out = []
    for i in range(count):
        e = family(3) if root in ("Add", "Multiply") and i % 2 else build(2 + i % 2, top=root)
        out.append((f"directed:{root}", e if i % 3 else X.Multiply(V("w"), e)))
    return out

