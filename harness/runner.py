"""Entry point of every check:  check <ID> [--tier quick|thorough] [--replay file]"""
from __future__ import annotations
import argparse
import json
import os
import random
import sys
import time
import traceback

from . import core
from .core import Report, Infra


def load_property(pid: str):
    import importlib
    return importlib.import_module(f"harness.props.{pid.lower()}")


# what a check adds to a case while judging it (recorded in replay files for the reader): never an input
DERIVED_KEYS = {"impl", "foreign", "model_Q", "model_F0", "model_variants", "exact", "truth", "output", "complete", "routes", "at",
                "detail", "warned", "size", "steps", "trace", "model_trace", "final", "model_events", "history", "fresh",
                "failing_op", "request", "sexpr", "shared", "model_in", "model_out", "form", "object", "first", "objects", "pair",
                "model", "hashseed", "perm", "index", "dyadic", "after_op", "operator", "exponent", "operand", "side", "name",
                "names", "query", "variable", "point", "repr", "terms", "constructor", "n", "base", "inner", "position", "arity",
                "function", "label", "missing", "traceback", "kind", "early", "late", "pool_sizes"} - {"n"}


def run_corpus(mod, pid: str, rep: Report, known: dict) -> None:
    """inputs on which earlier (seeded) changes failed this check, kept in corpus/<pid>/: replayed first, so
    that the return of any of those defects is reported whatever the generators draw this time"""
    if os.environ.get("VERIF_NO_CORPUS"):
        return
    folder = core.CORPUS / pid
    if not folder.is_dir():
        return
    n = 0
    for f in sorted(folder.glob("*.json")):
        try:
            cases = [{k: v for k, v in c.items() if k not in DERIVED_KEYS} for c in json.loads(f.read_text()).get("cases", [])]
            # keep the replay cheap: no very large inputs, one battery per entry and four in all for C18
            cases = [c for c in cases if len(str(c.get("e", ""))) <= 4000 and sum(len(t) for t in c.get("pool", [])) <= 6000]
            if pid == "C18":
                cases = [dict(c, hashseeds=c.get("hashseeds", ["0", "1"])[:3], perms=c.get("perms", [0, 1])[:2]) for c in cases[:1]] if n < 4 else []
            if n >= 60:
                break
            before = len(rep.violations)
            mod.check_cases(cases, rep, known)
            for v in rep.violations[before:]:
                v["what"] += f" [corpus input {f.name}]"
            n += len(cases)
        except (KeyError, TypeError, ValueError, IndexError, AttributeError) as ex:
            # a corpus entry written for an older case format: noted, never an alarm by itself
            rep.notes.append(f"corpus entry {f.name} could not be replayed ({type(ex).__name__}: {ex})")
    rep.hist.setdefault("corpus", {})["cases replayed"] = n


def run(pid: str, tier: str, seed: int, replay: str | None) -> int:
    rep = Report(pid, tier, seed)
    mod = load_property(pid)
    known = core.load_known()
    try:
        core.ensure_driver()
        if replay:
            data = json.loads(open(replay).read())
            cases = data.get("cases") or [data["case"]]
            mod.check_cases(cases, rep, known)
            for v in rep.violations:
                print(f"REPLAY-FAILS property={pid}: {v['what']}")
            for kid, k in rep.known_hits.items():
                print(f"KNOWN-FINDING: property={pid} {kid} {k['what']}")
            if rep.violations or rep.breaks:
                print(f"VIOLATION property={pid} replay={replay}")
                return 1
            print(f"replay of {replay}: property holds on the stored case(s)")
            return 0
        rep.lean = core.lean_leg(pid, thorough=(tier == "thorough"))
        if core.changed_sources():
            rep.notes.append("implementation source differs from the validated fingerprint (baseline_src.json) in "
                             + ", ".join(core.changed_sources()[:12]) + "; quick-tier case counts tripled, shapes rooted at "
                             + (", ".join(core.changed_classes()) or "no particular class") + " added to the expression streams")
        run_corpus(mod, pid, rep, known)
        rng = random.Random(seed * 1000003 + int(pid[1:]))
        rep.t_round = time.time()
        mod.run(rep, rng, tier, known)
        if tier == "thorough":
            # further independent rounds (fresh generator state each), same report
            for k in range(1, int(os.environ.get("VERIF_THOROUGH_ROUNDS", "4"))):
                if rep.violations:
                    break
                rep.t_round = time.time()
                mod.run(rep, random.Random(seed * 1000003 + int(pid[1:]) + 7907 * k), tier, known, search=True)
        # a broken proof or correspondence is not by itself a violation: search for a failing input
        if not rep.violations and (rep.breaks or not rep.lean.get("ok")):
            budget = time.time() + (120 if tier == "quick" else 600)
            k = 0
            while not rep.violations and time.time() < budget and k < 6:
                k += 1
                rep.notes.append(f"search round {k} after a broken proof/correspondence")
                rep.t_round = time.time()
                rep.round_budget = 90.0 if tier == "quick" else 600.0
                mod.run(rep, random.Random(seed * 7919 + 104729 * k + int(pid[1:])), tier, known,
                        search=True)
    except Infra as ex:
        print(f"INFRASTRUCTURE property={pid}: {ex}", file=sys.stderr)
        return 2
    except Exception as ex:  # noqa: BLE001
        tb = traceback.extract_tb(ex.__traceback__)
        in_impl = [f for f in tb if str(core.REPO) in f.filename]
        from .wire import Refused
        if not in_impl and not isinstance(ex, (AttributeError, Refused)):
            traceback.print_exc()
            print(f"INFRASTRUCTURE property={pid}: harness crashed", file=sys.stderr)
            return 2
        # the exception came out of the implementation (or an attribute the harness reads is gone):
        # the tie between model and code can no longer be made - reported as a broken correspondence
        where = f"{in_impl[-1].filename}:{in_impl[-1].lineno} in {in_impl[-1].name}" if in_impl else "harness glue"
        if isinstance(ex, Refused) and pid == "C14":
            # a point that supplies a legal variable name cannot even be written: C14's own statement, with the point as replay
            rep.violation(f"a coordinate for a legal variable name is refused: {ex}", {"refused": str(ex)})
        rep.corr_break(f"the harness could not observe the implementation: {type(ex).__name__}: {ex} ({where})",
                       {"traceback": traceback.format_exc()[-1500:]})
        if not rep.lean:
            rep.lean = {"ok": True, "theorems": [], "broken": []}
    mod.evidence(rep)
    for kid, k in sorted(rep.known_hits.items()):
        print(f"KNOWN-FINDING: property={pid} {kid} {k['what']} (seen {k['count']}x, e.g. {json.dumps(k['example'], default=str)[:300]})")
    code = 0
    if rep.violations:
        v = rep.violations[0]
        path = core.write_replay(pid, {"what": v["what"], "case": v["case"],
                                       "cases": [x["case"] for x in rep.violations[:10]],
                                       "all": [x["what"] for x in rep.violations[:10]]}, seed, tier)
        print(f"VIOLATION property={pid} replay={path}")
        print(f"  {v['what']}")
        code = 1
    elif rep.breaks or not rep.lean.get("ok"):
        what = (rep.lean.get("broken") or []) + [b["what"] for b in rep.breaks[:5]]
        path = core.write_replay(pid, {"what": "proof obligation or correspondence no longer checks; "
                                               "no failing input found by the search",
                                       "broken": what,
                                       "cases": [b["case"] for b in rep.breaks[:10]]}, seed, tier)
        print(f"VIOLATION property={pid} replay={path} no-failing-input-found")
        for w in what[:5]:
            print(f"  {w}")
        code = 1
    else:
        print(f"OK property={pid} tier={tier} seed={seed} evaluations={rep.evaluations} "
              f"distinct_nontrivial={len(rep.nontrivial)} theorems={len(rep.lean.get('theorems', []))} "
              f"wall={time.time() - rep.t0:.1f}s")
    return code


def main() -> None:
    ap = argparse.ArgumentParser()
    ap.add_argument("pid")
    ap.add_argument("--tier", default=os.environ.get("VERIF_TIER", "quick"), choices=["quick", "thorough"])
    ap.add_argument("--replay")
    a = ap.parse_args()
    seed = int(os.environ.get("VERIF_SEED", "1"))
    sys.exit(run(a.pid.upper(), a.tier, seed, a.replay))


if __name__ == "__main__":
    main()
