"""Operation sequences over pools of expressions that share sub-expression objects (C09, C10).

A history is JSON: {"pool": [wire with ids shared across the pool], "ops": [...]}.  Every operation
is executed on the history pool, and again — alone — on a freshly rebuilt pool that nothing has
touched; a persistent Partial object is rebuilt in its own abstract state (whether as_expression()
had been called on it), so what is compared is the influence of *expression-level* history: value
memos, reduction flags, shared objects."""
from __future__ import annotations
import random
import re

from . import wire, gen, common
from .core import sm, X, call
from smoothmath import Point

OPS = ["at", "atnum", "partial", "partial_early", "pobj_new", "pobj_at", "pobj_expr", "diff_at",
       "diff_early_at", "located", "normalize", "deriv", "component_at", "fail_missing", "compose", "ld_new", "ld_query", "clone"]


def make_pool(rng: random.Random, k: int, depth: int, names=("x", "y")) -> list:
    """k expressions over a common stock of sub-expression objects"""
    g = gen.Gen(rng, names=names, share=0.5, kinds=gen.RATIONAL + gen.ROOTS + ["Sine", "Logarithm", "Exponential", "Power", "Cosine"])
    pool = []
    for i in range(k):
        e = g.expr(depth)
        if pool and rng.random() < 0.6:
            other = rng.choice(pool)
            e = rng.choice([X.Add(e, other), X.Multiply(other, e), X.Divide(e, X.Add(other, X.Constant(3))),
                            X.Minus(other, e), X.Power(X.Add(X.NthPower(other, 2), X.Constant(1)), e)])
        elif rng.random() < 0.35:
            e = rng.choice(gen.twin_patterns(g))[1]      # equal operands that are distinct objects
        pool.append(e)
    return pool


def pool_to_wire(pool: list) -> list[str]:
    ids: dict = {}
    return [wire.expr(gen.floatify(e) if False else e, ids=ids) for e in pool]


def build_pool(texts: list[str]) -> list:
    objs: dict = {}
    return [wire.build_raw(t, objs) for t in texts]


def float_pool(pool: list) -> list:
    """float leaves everywhere (pools contain ** on possibly integral operands); sharing is kept"""
    memo: dict = {}

    def go(e):
        if id(e) in memo:
            return memo[id(e)]
        c = wire.cls(e)
        if c == "Constant":
            r = X.Constant(float(e.value))
        elif c == "Variable":
            r = e
        elif c in ("Add", "Multiply"):
            r = e.__class__(*(go(a) for a in e._inners))
        elif c in ("Minus", "Divide", "Power"):
            r = e.__class__(go(e._left), go(e._right))
        elif c in ("NthPower", "NthRoot"):
            r = e.__class__(go(e._inner), e._parameter)
        elif c in ("Exponential", "Logarithm"):
            r = e.__class__(go(e._inner), base=e._parameter)
        else:
            r = e.__class__(go(e._inner))
        memo[id(e)] = r
        return r
    return [go(e) for e in pool]


def random_ops(rng: random.Random, pool: list, length: int) -> list[dict]:
    g = gen.Gen(rng, floats_only=True)
    ops = []
    npobj = 0
    names = sorted(set().union(*(e._variable_names for e in pool))) or ["x"]
    stock = [g.point(names) for _ in range(3)]      # points come back: "the same point again" histories
    ncomp = 0
    nld = 0
    for _ in range(length):
        i = rng.randrange(len(pool) + ncomp)
        e = pool[i] if i < len(pool) else pool[0]       # composed members: variables unknown here, use the stock
        vs = sorted(e._variable_names) if i < len(pool) else list(names)
        p = rng.choice(stock) if rng.random() < 0.7 else g.point(names)
        kind = rng.choice(OPS)
        x = rng.choice(vs) if vs and rng.random() < 0.85 else "w"
        op = {"op": kind, "i": i, "p": wire.point(p), "x": x}
        if kind == "atnum" or kind == "deriv":
            if len(vs) > 1:
                op["op"] = "at"
            else:
                op["t"] = wire.num(g.number())
        if kind == "pobj_new":
            op["j"] = npobj
            npobj += 1
            op["kind"] = rng.choice(["P", "P", "P", "PE", "D", "DE", "F", "FE"])
            if op["kind"] in ("D", "DE") and len(vs) != 1:
                op["kind"] = "P"
        if kind in ("pobj_at", "pobj_expr"):
            if npobj == 0:
                op["op"] = "partial"
            else:
                op["j"] = rng.randrange(npobj)
                op["style"] = rng.randrange(3)      # for Differential objects: at().component / component_at / component().at
        if kind == "ld_new":
            op["k"] = nld
            nld += 1
            op["j"] = rng.randrange(npobj) if npobj and rng.random() < 0.7 else -1
        if kind == "ld_query":
            if nld == 0:
                op["op"] = "located"
            else:
                op["k"] = rng.randrange(nld)
        if kind == "compose":
            op["shape"] = rng.randrange(6)
            op["r"] = rng.randrange(8)
            ncomp += 1
        if kind == "fail_missing":
            q = dict(p)
            if vs:
                q.pop(rng.choice(vs), None)
            op["p"] = wire.point(q)
        ops.append(op)
    return ops


def directed_prefixes(rng: random.Random, pool: list) -> list[list[dict]]:
    """the orders that expose a stale memo or flag"""
    g = gen.Gen(rng, floats_only=True)
    names = sorted(set().union(*(e._variable_names for e in pool))) or ["x"]
    i, j = 0, len(pool) - 1
    p, q = g.point(names), g.point(names)
    x = names[0]
    P, Q = wire.point(p), wire.point(q)
    miss = wire.point({k: v for k, v in q.items() if k != x})
    return [
        [{"op": "at", "i": i, "p": P, "x": x}, {"op": "partial", "i": j, "p": Q, "x": x}, {"op": "located", "i": j, "p": Q, "x": x}],
        [{"op": "fail_missing", "i": j, "p": miss, "x": x}, {"op": "at", "i": j, "p": Q, "x": x}, {"op": "partial", "i": i, "p": Q, "x": x}],
        [{"op": "normalize", "i": i, "p": P, "x": x}, {"op": "at", "i": j, "p": Q, "x": x}, {"op": "normalize", "i": j, "p": P, "x": x},
         {"op": "partial_early", "i": j, "p": Q, "x": x}],
        [{"op": "pobj_new", "i": j, "j": 0, "p": P, "x": x}, {"op": "pobj_at", "j": 0, "i": j, "p": P, "x": x},
         {"op": "at", "i": i, "p": Q, "x": x}, {"op": "pobj_expr", "j": 0, "i": j, "p": P, "x": x},
         {"op": "pobj_at", "j": 0, "i": j, "p": Q, "x": x}, {"op": "diff_early_at", "i": j, "p": P, "x": x}],
        # an expression handed out by one simplification becomes part of a new expression that is simplified in turn
        [{"op": "normalize", "i": j, "p": P, "x": x}, {"op": "compose", "i": j, "p": P, "x": x, "r": 0, "shape": 0},
         {"op": "normalize", "i": len(pool), "p": P, "x": x}, {"op": "compose", "i": j, "p": P, "x": x, "r": 1, "shape": 3},
         {"op": "normalize", "i": len(pool) + 1, "p": Q, "x": x}, {"op": "partial_early", "i": len(pool), "p": Q, "x": x},
         {"op": "at", "i": len(pool) + 1, "p": Q, "x": x}],
        # a failed (or successful) evaluation, other members used elsewhere, then the very same Point object again
        [{"op": "at", "i": j, "p": P, "x": x}] + [{"op": "at", "i": k_, "p": Q, "x": x} for k_ in range(len(pool)) if k_ != j]
        + [{"op": "at", "i": j, "p": P, "x": x}, {"op": "partial_early", "i": j, "p": P, "x": x},
           {"op": "partial", "i": i, "p": Q, "x": x}, {"op": "at", "i": j, "p": P, "x": x}],
        # located differentials the caller kept, queried after the object that made them moved on
        [{"op": "pobj_new", "i": j, "j": 0, "p": P, "x": x, "kind": "FE"}, {"op": "ld_new", "i": j, "j": 0, "k": 0, "p": P, "x": x},
         {"op": "ld_new", "i": j, "j": 0, "k": 1, "p": Q, "x": x}, {"op": "ld_query", "i": j, "k": 0, "p": P, "x": x},
         {"op": "pobj_new", "i": j, "j": 1, "p": P, "x": x, "kind": "F"}, {"op": "ld_new", "i": j, "j": 1, "k": 2, "p": Q, "x": x},
         {"op": "ld_new", "i": j, "j": 1, "k": 3, "p": P, "x": x}, {"op": "ld_query", "i": j, "k": 2, "p": P, "x": x},
         {"op": "ld_new", "i": j, "j": -1, "k": 4, "p": P, "x": x}, {"op": "at", "i": j, "p": Q, "x": x},
         {"op": "ld_query", "i": j, "k": 4, "p": P, "x": x}, {"op": "ld_query", "i": j, "k": 1, "p": P, "x": x}],
        # the same persistent object at the same point again, the expression evaluated elsewhere in between
        [{"op": "pobj_new", "i": j, "j": 0, "p": P, "x": x}, {"op": "pobj_at", "j": 0, "i": j, "p": P, "x": x},
         {"op": "at", "i": j, "p": Q, "x": x}, {"op": "pobj_at", "j": 0, "i": j, "p": P, "x": x},
         {"op": "partial", "i": i, "p": Q, "x": x}, {"op": "pobj_at", "j": 0, "i": j, "p": P, "x": x}],
        [{"op": "pobj_new", "i": j, "j": 0, "p": P, "x": x, "kind": "F"}, {"op": "pobj_at", "j": 0, "i": j, "p": P, "x": x},
         {"op": "located", "i": i, "p": Q, "x": x}, {"op": "pobj_at", "j": 0, "i": j, "p": P, "x": x},
         {"op": "pobj_new", "i": j, "j": 1, "p": P, "x": x, "kind": "FE"}, {"op": "at", "i": j, "p": Q, "x": x},
         {"op": "pobj_at", "j": 1, "i": j, "p": P, "x": x}, {"op": "pobj_at", "j": 1, "i": j, "p": P, "x": x}],
        [{"op": "located", "i": i, "p": P, "x": x}, {"op": "located", "i": i, "p": Q, "x": x}, {"op": "diff_at", "i": j, "p": P, "x": x},
         {"op": "component_at", "i": j, "p": Q, "x": x}],
    ]


def nested_pool(rng: random.Random) -> list:
    """three members, each built on top of the previous one: the same compound node objects are reachable from
    several roots"""
    g = gen.Gen(rng, names=("x", "y"), floats_only=True)
    x = X.Variable("x")
    u = rng.choice([X.NthPower(x, 2), X.Multiply(x, g.expr(1)), X.Add(X.Sine(x), g.expr(1)), X.Exponential(X.Multiply(X.Constant(0.25), x))])
    e = rng.choice([X.Sine(u), X.Multiply(u, X.Variable("y")), X.Add(u, X.Cosine(u)), X.Divide(u, X.Add(X.NthPower(X.Variable("y"), 2), X.Constant(1.0)))])
    big = rng.choice([X.Exponential(X.Multiply(X.Constant(0.125), e)), X.Multiply(e, e), X.Add(e, u, X.Variable("y")), X.Cosine(e)])
    return [u, e, big]


def int_float_twins(rng: random.Random) -> tuple[list, list[dict]] | None:
    """a pool [A, A'] of two expressions that compare equal and hash alike but are written with float and with int
    constants (Constant(3.0) / Constant(3)), and a history that asks the same questions of one after the other:
    whatever is remembered per *equal* expression hands the second the answers of the first"""
    g = gen.Gen(rng, names=("x", "y"), floats_only=True, kinds=[k for k in gen.ALL if k != "Power"])
    for _ in range(20):
        a = g.expr(rng.randint(2, 3))
        t = wire.expr(a)
        toks = t.split(" ")
        n = 0
        for i, tok in enumerate(toks):
            if i and toks[i - 1] == "C" and tok.startswith("x"):
                v = wire.raw_num(tok)
                if v == int(v) and abs(v) < 1000:
                    toks[i] = str(int(v))
                    n += 1
        if n and a._variable_names:
            break
    else:
        return None
    b = wire.build_raw(" ".join(toks))
    if rng.random() < 0.5:
        a, b = b, a
    pool = [a, b]
    x = sorted(a._variable_names)[0]
    P = wire.point(g.point(sorted(a._variable_names)))
    ops = []
    for i in (0, 1):
        ops += [{"op": "normalize", "i": i, "p": P, "x": x}, {"op": "partial_early", "i": i, "p": P, "x": x},
                {"op": "pobj_new", "i": i, "j": i, "p": P, "x": x, "kind": "PE"}, {"op": "pobj_expr", "i": i, "j": i, "p": P, "x": x},
                {"op": "diff_early_at", "i": i, "p": P, "x": x}]
    ops += [{"op": "pobj_new", "i": 1, "j": 2, "p": P, "x": x, "kind": "FE"}, {"op": "pobj_expr", "i": 1, "j": 2, "p": P, "x": x},
            {"op": "pobj_new", "i": 0, "j": 3, "p": P, "x": x, "kind": "FE"}, {"op": "pobj_expr", "i": 0, "j": 3, "p": P, "x": x}]
    return pool, ops


def long_lived(rng: random.Random, reps: int) -> tuple[list, list[dict]]:
    """one derivative object the caller keeps and asks again and again (a plot, an optimiser's inner loop): whatever it
    starts doing differently after its hundredth or thousandth call shows as a change of the answer at a point it has
    answered before"""
    g = gen.Gen(rng, names=("x",), floats_only=True, kinds=[k for k in gen.ALL if k != "Power"])
    e = None
    for _ in range(30):
        e = g.expr(rng.randint(2, 4))
        if e._variable_names and wire.size(e) >= 5:
            break
    pool = [e]
    x = sorted(e._variable_names)[0] if e._variable_names else "x"
    pts = [wire.point(g.point([x])) for _ in range(3)]
    kind = rng.choice(["P", "D", "P", "F"])
    ops = [{"op": "pobj_new", "i": 0, "j": 0, "p": pts[0], "x": x, "kind": kind}]
    ops += [{"op": "pobj_at", "i": 0, "j": 0, "p": pts[k % 3], "x": x, "style": 2, "same": k % 2 == 0} for k in range(reps)]
    return pool, ops


def sharing_prefixes(rng: random.Random, pool: list) -> list[list[dict]]:
    """a derivative object of one member is asked at the caller's own Point object, a *different* member sharing nodes
    with it is used at another point through some entry point, and the object is asked again at the identical Point"""
    g = gen.Gen(rng, floats_only=True)
    names = sorted(set().union(*(e._variable_names for e in pool))) or ["x"]
    P, Q = wire.point(g.point(names)), wire.point(g.point(names))
    out = []
    turn = rng.randrange(12)
    for t in range(len(pool)):
        vs = sorted(pool[t]._variable_names) or ["x"]
        x = rng.choice(vs)
        kinds = ["P", "F", "PE"] + (["D"] if len(vs) == 1 else [])
        for o in range(len(pool)):
            if o == t:
                continue
            for _ in range(2):
              turn += 1
              kind = kinds[turn % len(kinds)]           # every kind of object and every first step in turn, not by chance
              first = (lambda opts: opts[(turn // len(kinds)) % len(opts)])([{"op": "pobj_at", "j": 0, "i": t, "p": P, "x": x, "same": True}, {"op": "at", "i": t, "p": P, "x": x, "same": True},
                                  {"op": "diff_at", "i": t, "p": P, "x": x, "same": True}])
              other = rng.choice(["at", "partial", "located", "diff_at", "component_at", "partial_early"])
              out.append([{"op": "pobj_new", "i": t, "j": 0, "p": P, "x": x, "kind": kind}, dict(first),
                          {"op": other, "i": o, "p": Q, "x": x},
                          {"op": "pobj_at", "j": 0, "i": t, "p": P, "x": x, "same": True, "style": rng.randrange(3)},
                          {"op": "located", "i": t, "p": P, "x": x, "same": True},
                          {"op": "ld_new", "i": t, "j": -1, "k": 0, "p": P, "x": x, "same": True},
                          {"op": other, "i": o, "p": Q, "x": x},
                          {"op": "ld_query", "i": t, "k": 0, "p": P, "x": x},
                          {"op": "component_at", "i": t, "p": P, "x": x, "same": True}])
    return out


def domain_prefixes(rng: random.Random, pool: list) -> list[list[dict]]:
    """histories that cross the border of the domain on the same objects: a successful evaluation
    leaves memos that must not decide the next query's domain verdict, and a failed one must not
    poison the next successful one — through every route that checks the domain separately"""
    g = gen.Gen(rng, floats_only=True)
    names = sorted(set().union(*(e._variable_names for e in pool))) or ["x"]
    texts = pool_to_wire(pool)
    out = []
    for j in range(len(pool)):
        good = bad = None
        for _ in range(12):
            q = g.point(names)
            r = call(build_pool(texts)[j].at, Point(**q))
            if r[0] == "ok" and good is None:
                good = q
            if r == ("err", "domain") and bad is None:
                bad = q
        if good is None or bad is None:
            continue
        vs = sorted(pool[j]._variable_names) or ["x"]
        x = rng.choice(vs)
        G, B = wire.point(good), wire.point(bad)
        op = lambda k, p, **kw: dict({"op": k, "i": j, "p": p, "x": x}, **kw)  # noqa: E731
        out += [
            [op("at", G), op("partial_early", B), op("partial_early", G)],
            [op("at", B), op("partial_early", G), op("diff_early_at", B)],
            [op("pobj_new", G, j=0, kind="PE"), op("pobj_at", G, j=0), op("pobj_at", B, j=0), op("pobj_at", G, j=0)],
            [op("pobj_new", G, j=0, kind="P"), op("pobj_at", G, j=0), op("pobj_expr", G, j=0), op("pobj_at", B, j=0),
             op("pobj_at", G, j=0)],
            [op("pobj_new", G, j=0, kind="FE"), op("pobj_at", B, j=0), op("pobj_at", G, j=0), op("at", G), op("pobj_at", B, j=0)],
            [op("pobj_new", G, j=0, kind="FE"), op("pobj_at", B, j=0, style=1), op("pobj_at", B, j=0, style=1),
             op("pobj_at", G, j=0, style=1), op("pobj_at", B, j=0, style=2), op("pobj_at", B, j=0, style=2)],
            [op("pobj_new", G, j=0, kind="F"), op("pobj_at", B, j=0, style=1), op("pobj_at", B, j=0, style=1),
             op("pobj_at", G, j=0, style=2), op("pobj_at", G, j=0, style=2)],
            [op("pobj_new", G, j=0, kind="PE"), op("pobj_at", B, j=0), op("pobj_at", B, j=0), op("pobj_at", G, j=0), op("pobj_at", G, j=0)],
            [op("located", G), op("component_at", B), op("diff_at", G), op("partial", B), op("partial", G)],
        ]
        if len(vs) == 1:
            out.append([op("pobj_new", G, j=0, kind="DE"), op("pobj_at", G, j=0), op("pobj_at", B, j=0), op("pobj_at", G, j=0)])
    return out


def repeated_simplification(rng: random.Random, pool: list) -> list[dict]:
    """the same objects simplified again and again, through every entry point that simplifies:
    flags left by one run decide which nodes the next run touches"""
    g = gen.Gen(rng, floats_only=True)
    names = sorted(set().union(*(e._variable_names for e in pool))) or ["x"]
    P = wire.point(g.point(names))
    ops = []
    for i, e in enumerate(pool):
        vs = sorted(e._variable_names) or ["x"]
        for k in range(3):
            ops.append({"op": "normalize", "i": i, "p": P, "x": vs[k % len(vs)]})
        ops.append({"op": "diff_early_at", "i": i, "p": P, "x": vs[0]})
        ops.append({"op": "partial_early", "i": i, "p": P, "x": vs[-1]})
        ops.append({"op": "normalize", "i": i, "p": P, "x": "w"})
        ops.append({"op": "at", "i": i, "p": P, "x": vs[0]})
    return ops


def offender_pool(rng: random.Random) -> list:
    """expressions sharing one variable-free sub-expression *object* that is undefined as written
    but that the rewriter turns into a defined constant (domain-extending rules)"""
    x, y = X.Variable("x"), X.Variable("y")
    c = lambda v: X.Constant(float(v))  # noqa: E731
    S = rng.choice([X.Power(c(-2), c(2)), X.NthPower(X.NthRoot(c(-4), 2), 2), X.Exponential(X.Logarithm(c(-1))),
                    X.Reciprocal(X.Reciprocal(c(0))), X.Power(c(0), c(2)), X.Logarithm(X.Exponential(X.Logarithm(c(-3))))])
    members = [X.Multiply(x, y, S), X.Add(X.Sine(x), S), X.Multiply(S, X.NthPower(x, 2)), X.Divide(X.Add(x, S), y),
               X.Multiply(x, S, X.Cosine(S)), X.Exponential(X.Multiply(x, S))]
    return rng.sample(members, 3)


def wide_pool(rng: random.Random) -> list:
    """wide sums and products (6-14 operands, several of them reducible) used as arguments and
    co-factors, so that symbolic differentiation carries the caller's own wide node into the rewriter"""
    x, y = X.Variable("x"), X.Variable("y")
    c = lambda v: X.Constant(float(v))  # noqa: E731

    def reducible():
        return rng.choice([X.Minus(x, y), X.Divide(x, y), X.Multiply(x, c(1)), X.NthPower(y, 1), X.Sine(x), X.Multiply(c(2), x),
                           X.Negation(X.Negation(y)), X.Add(x, c(0)), X.Reciprocal(X.Reciprocal(X.Add(c(3), x))), X.Power(x, c(2)),
                           X.Multiply(c(2), c(3), y), X.Exponential(X.Logarithm(X.Add(c(2), X.NthPower(x, 2))))])
    members = []
    for _ in range(3):
        K = rng.choice([X.Add, X.Multiply])
        w = K(*[reducible() for _ in range(rng.randint(6, 12))])
        members.append(rng.choice([X.Sine(w), X.Multiply(w, x), X.Divide(x, X.Add(X.NthPower(w, 2), c(3))), X.Exponential(X.Multiply(c(0.01), w)),
                                   X.Logarithm(X.Add(c(2), X.NthPower(w, 2))), w]))
    return members


def sum_pool(rng: random.Random) -> list:
    """pools built the way users write them: operator chains give nested binary sums and products"""
    g = gen.Gen(rng, names=("x", "y", "z"), floats_only=True)
    x, y, z, w = X.Variable("x"), X.Variable("y"), X.Variable("z"), X.Variable("w")
    a = x + y + z
    b = (x * y * z) * w
    c = X.Sine(a) * w
    d = X.NthPower(x + X.Constant(1.0) + x, 2)
    e = (a - g.expr(1)) / (b + X.Constant(3.0))
    f = X.Add(X.Add(g.expr(1), g.expr(1)), X.Multiply(X.Multiply(x, g.expr(1)), y), a)
    # binary nodes whose right operand mentions variables the left one lacks
    sx = X.Sine(x)
    h = X.Multiply(X.Power(X.Add(X.NthPower(x, 2), X.Constant(1.0)), y), X.Divide(sx, z), X.Minus(sx, w))
    k = X.Logarithm(X.Power(X.Exponential(x), X.Multiply(y, z)))
    return rng.sample([a, b, c, d, e, f], 2) + [rng.choice([h, k])]


COMPOSE = [
    lambda r, x: X.Divide(r, x), lambda r, x: X.Multiply(X.Negation(r), x), lambda r, x: X.Reciprocal(X.Add(r, X.Constant(2.0))),
    lambda r, x: X.Minus(r, X.Multiply(x, r)), lambda r, x: X.Add(r, X.Sine(x)), lambda r, x: X.NthPower(X.Divide(x, X.Add(r, X.Constant(3.0))), 2),
]


class Runner:
    """executes ops on a pool; persistent Partial objects live in ``pobjs``"""

    def __init__(self, pool: list):
        self.pool = pool
        self.pobjs: dict[int, object] = {}
        self.pobj_src: dict[int, tuple] = {}
        self.pobj_expr_called: dict[int, bool] = {}
        self.points: dict[str, object] = {}  # Point objects the caller kept, by how they were written
        self.lds: dict[int, object] = {}    # LocatedDifferential objects the caller kept
        self.ld_src: dict[int, tuple] = {}
        self.returned: list = []            # expression objects handed out by earlier operations
        self.extra_texts: list[str] = []    # structure of the pool members composed from them, as built

    def do(self, op: dict):
        self.last_point = None
        r = self._do(op)
        if r[0] == "ok" and wire.cls(r[1]) in wire.HEAD:
            self.returned.append(r[1])
        return r

    def _do(self, op: dict):
        k = op["op"]
        e = self.pool[op["i"]] if op["i"] < len(self.pool) else self.pool[0]
        if k == "clone":
            # the pool member is replaced by a copy of itself (memos and flags travel with it or not - either way
            # every later answer must be the one a never-used object gives)
            import copy
            import pickle
            how = (copy.deepcopy, copy.copy, lambda o: pickle.loads(pickle.dumps(o)))[len(op.get("p", "")) % 3]
            r = call(lambda: how(e), timeout=20)
            if r[0] == "ok" and op["i"] < len(self.pool):
                self.pool[op["i"]] = r[1]
            return ("ok", None) if r[0] == "ok" else r
        if k == "compose":
            # a new pool member built around an expression object that an earlier operation returned
            x = X.Variable(op.get("x", "x"))
            src = self.returned[op["r"] % len(self.returned)] if self.returned else e
            new = COMPOSE[op["shape"] % len(COMPOSE)](src, x)
            self.pool.append(new)
            off = 100000 * (len(self.extra_texts) + 1)          # object ids disjoint from the pool's and from each other's
            self.extra_texts.append(re.sub(r"@(\d+)", lambda m: "@" + str(int(m.group(1)) + off), wire.expr(new, ids={})))
            return ("ok", None)
        x = wire.fresh_str(op.get("x", "x"))
        # callers keep their Point objects: the same text is the same object throughout a history (two thirds of the
        # time - the rest are equal but newly built points)
        if op["p"] in self.points and (op.get("same") or len(op["p"]) % 3):
            p = self.points[op["p"]]
        else:
            p = self.points[op["p"]] = wire.build_point(op["p"])
        self.last_point = (p, op["p"])        # the caller's own Point object, and how it was written
        if k in ("at", "fail_missing"):
            return call(e.at, p)
        if k == "atnum":
            return call(e.at, wire.raw_num(op["t"]))
        if k == "partial":
            return call(lambda: sm.Partial(e, x).at(p))
        if k == "partial_early":
            return call(lambda: sm.Partial(e, x, compute_early=True).at(p), timeout=30)
        if k == "ld_new":
            # a LocatedDifferential the caller keeps: from a persistent Differential object if there is one
            o = self.pobjs.get(op.get("j", -1))
            if isinstance(o, sm.Differential):
                r = call(lambda: o.at(p), timeout=30)
                self.ld_src[op["k"]] = ("obj", self.pobj_src[op["j"]], op["p"])
            else:
                r = call(lambda: sm.LocatedDifferential(e, p))
                self.ld_src[op["k"]] = ("direct", op["i"], op["p"])
            if r[0] != "ok":
                self.lds.pop(op["k"], None)
                return r
            self.lds[op["k"]] = r[1]
            return ("ok", None)
        if k == "ld_query":
            L = self.lds.get(op["k"])
            if L is None:
                return ("ok", None)
            return call(lambda: L.component(x))
        if k == "pobj_new":
            kind = op.get("kind", "P")
            r = call(lambda: make_obj(kind, e, x), timeout=30)
            if r[0] != "ok":
                self.pobjs.pop(op["j"], None)
                return r
            self.pobjs[op["j"]] = r[1]
            self.pobj_src[op["j"]] = (op["i"], x, kind)
            self.pobj_expr_called[op["j"]] = False
            return ("ok", None)
        if k == "pobj_at":
            o = self.pobjs.get(op["j"])
            if o is None:
                return ("ok", None)
            if isinstance(o, sm.Differential):
                style = op.get("style", 0) % 3
                if style == 1:
                    return call(lambda: o.component_at(x, p), timeout=30)
                if style == 2:
                    return call(lambda: o.component(x).at(p), timeout=30)
                return call(lambda: o.at(p).component(x), timeout=30)
            return call(lambda: o.at(p))
        if k == "pobj_expr":
            o = self.pobjs.get(op["j"])
            if o is None:
                return ("ok", None)
            self.pobj_expr_called[op["j"]] = True
            if isinstance(o, sm.Differential):
                return call(lambda: o.component(x).as_expression(), timeout=30)
            return call(lambda: o.as_expression(), timeout=30)
        if k == "diff_at":
            return call(lambda: sm.Differential(e).at(p).component(x))
        if k == "diff_early_at":
            return call(lambda: sm.Differential(e, compute_early=True).at(p).component(x), timeout=30)
        if k == "component_at":
            return call(lambda: sm.Differential(e).component_at(x, p))
        if k == "located":
            return call(lambda: sm.LocatedDifferential(e, p).component(x))
        if k == "normalize":
            return call(lambda: sm.Partial(e, x).as_expression(), timeout=30)
        if k == "deriv":
            return call(lambda: sm.Derivative(e).at(wire.raw_num(op["t"])))
        raise ValueError(k)


def make_obj(kind: str, e, x: str):
    """the persistent derivative objects of histories: Partial / Derivative / Differential, late or early"""
    if kind == "P":
        return sm.Partial(e, x)
    if kind == "PE":
        return sm.Partial(e, x, compute_early=True)
    if kind == "D":
        return sm.Derivative(e)
    if kind == "DE":
        return sm.Derivative(e, compute_early=True)
    if kind == "F":
        return sm.Differential(e)
    return sm.Differential(e, compute_early=True)


def fresh_result(pool_texts: list[str], op: dict, src: tuple | None, expr_called_before: bool):
    """the same operation on a freshly built, never-used copy; a persistent Partial is rebuilt in the
    abstract state it had (whether as_expression() had been called on it)"""
    if op["op"] in ("compose", "clone"):
        return ("ok", None)
    r = Runner(build_pool(pool_texts))
    if op["op"] == "ld_new":
        # the same construction on never-used objects: through a fresh Differential of the same kind, or directly
        p = wire.build_point(op["p"])
        if src is not None and src[2] in ("F", "FE"):
            i, x0, kind = src
            made = call(lambda: make_obj(kind, r.pool[i], x0).at(p), timeout=30)
        else:
            made = call(lambda: sm.LocatedDifferential(r.pool[op["i"]] if op["i"] < len(r.pool) else r.pool[0], p))
        return made if made[0] != "ok" else ("ok", None)
    if op["op"] == "ld_query":
        how = src
        if how is None:
            return ("ok", None)
        p = wire.build_point(how[2])
        if how[0] == "obj":
            i, x0, kind = how[1]
            made = call(lambda: make_obj(kind, r.pool[i], x0).at(p), timeout=30)
        else:
            made = call(lambda: sm.LocatedDifferential(r.pool[how[1]], p))
        if made[0] != "ok":
            return ("ok", None)
        return call(lambda: made[1].component(op.get("x", "x")))
    if op["op"] in ("pobj_at", "pobj_expr"):
        j = op["j"]
        if src is None:
            return ("ok", None)
        i, x, kind = src
        made = call(lambda: make_obj(kind, r.pool[i], x), timeout=30)
        if made[0] != "ok":
            return made
        r.pobjs[j] = made[1]
        if expr_called_before and not isinstance(made[1], sm.Differential):
            call(lambda: r.pobjs[j].as_expression(), timeout=30)
    return r.do(op)


def same_result(a, b) -> bool:
    if a[0] != b[0]:
        return False
    if a[0] == "err":
        return a[1] == b[1]
    va, vb = a[1], b[1]
    if va is None or vb is None:
        return va is vb
    if isinstance(va, (int, float)) and isinstance(vb, (int, float)):
        return va == vb or (va != va and vb != vb)
    return va == vb and repr(va) == repr(vb)
