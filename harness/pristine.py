"""A never-used copy in a never-used process.

`histories.fresh_result` answers "what would a freshly built copy return" inside the process that ran the
history; a memo kept at module level (an `lru_cache`, a dict keyed by hash or by `==`) survives into that
answer.  This module asks the same question of a process that has imported the library and done nothing else:
a long-lived worker (`python -m harness.pristine`) that forks once per question; the child builds the pool,
performs the one operation and reports, the worker itself never calls into the library.  Answers are
canonical text: number by `repr`, expression by `repr`, error by kind."""
from __future__ import annotations
import json
import os
import subprocess
import sys

_worker = None


def canonical(r) -> list:
    if r[0] != "ok":
        return ["err", str(r[1])]
    v = r[1]
    if v is None:
        return ["ok", "none", ""]
    if isinstance(v, (int, float)):
        return ["ok", "num", repr(float(v)) if v == v else "nan"]
    return ["ok", type(v).__name__, repr(v)]


def same(a: list, b: list) -> bool:
    if a[:2] == b[:2] == ["ok", "num"]:
        return float(a[2]) == float(b[2]) or a[2] == b[2]
    return a == b


def ask(pool_texts: list[str], op: dict, src, expr_called: bool, timeout: float = 90.0):
    """canonical answer of a pristine process, or None when the worker is unavailable / too slow"""
    global _worker
    if _worker is None or _worker.poll() is not None:
        _worker = subprocess.Popen([sys.executable, "-m", "harness.pristine"], stdin=subprocess.PIPE, stdout=subprocess.PIPE,
                                   text=True, cwd=os.path.dirname(os.path.dirname(os.path.abspath(__file__))))
    try:
        _worker.stdin.write(json.dumps({"pool": pool_texts, "op": op, "src": src, "called": expr_called}) + "\n")
        _worker.stdin.flush()
        import select
        ready, _, _ = select.select([_worker.stdout], [], [], timeout)
        if not ready:
            _worker.kill()
            _worker = None
            return None
        line = _worker.stdout.readline()
        return json.loads(line) if line.strip() else None
    except (OSError, ValueError):
        _worker = None
        return None


def _serve() -> None:
    from . import histories as H          # imports the library; nothing is evaluated
    for line in sys.stdin:
        q = json.loads(line)
        r, w = os.pipe()
        pid = os.fork()
        if pid == 0:
            os.close(r)
            try:
                src = tuple(q["src"]) if q["src"] is not None else None
                if src is not None and len(src) == 3 and isinstance(src[1], list):
                    src = (src[0], tuple(src[1]), src[2])
                ans = canonical(H.fresh_result(q["pool"], q["op"], src, q["called"]))
            except BaseException as ex:  # noqa: BLE001
                ans = ["err", "worker:" + type(ex).__name__]
            os.write(w, (json.dumps(ans) + "\n").encode())
            os._exit(0)
        os.close(w)
        with os.fdopen(r) as f:
            out = f.readline()
        os.waitpid(pid, 0)
        sys.stdout.write(out if out.strip() else "null\n")
        sys.stdout.flush()


if __name__ == "__main__":
    _serve()
