"""Observation of the rewriting driver without touching the repository: the `_reduce_*` methods and
`_consolidate_expression_lacking_variables` are wrapped in-process so that each call of
`_take_reduction_step` can be labelled with the event the model reports (rule id / fold / flag)."""
from __future__ import annotations
import contextlib

from .core import X
from smoothmath._private.base_expression.expression import Expression

RULE_OF = {
    ("Add", "_reduce_by_flattening_nested_sums"): "addFlatten",
    ("Add", "_reduce_sum_by_eliminating_zeros"): "addZeros",
    ("Add", "_reduce_sum_by_consolidating_logarithms"): "addLogs",
    ("Add", "_reduce_sum_by_consolidating_constants"): "addConsts",
    ("Minus", "_reduce_minus_to_sum_with_negation"): "minusToSum",
    ("Negation", "_reduce_negation_of_negation"): "negNeg",
    ("Negation", "_reduce_negation_of_sum"): "negSum",
    ("Multiply", "_reduce_by_flattening_nested_products"): "mulFlatten",
    ("Multiply", "_reduce_product_when_multiplying_by_zero"): "mulZero",
    ("Multiply", "_reduce_product_by_eliminating_ones"): "mulOnes",
    ("Multiply", "_reduce_product_by_eliminating_negations"): "mulNegs",
    ("Multiply", "_reduce_product_by_consolidating_nth_powers"): "mulNPows",
    ("Multiply", "_reduce_product_by_consolidating_nth_roots"): "mulNRoots",
    ("Multiply", "_reduce_product_by_consolidating_exponentials"): "mulExps",
    ("Multiply", "_reduce_product_by_consolidating_constants"): "mulConsts",
    ("Divide", "_reduce_divide_to_multiplying_with_reciprocal"): "divToMul",
    ("Reciprocal", "_reduce_reciprocal_of_reciprocal"): "recipRecip",
    ("Reciprocal", "_reduce_reciprocal_of_negation"): "recipNeg",
    ("Reciprocal", "_reduce_reciprocal_of_product"): "recipProd",
    ("Power", "_reduce_u_to_the_one"): "powOne",
    ("Power", "_reduce_u_to_the_zero"): "powZero",
    ("Power", "_reduce_one_to_the_u"): "onePow",
    ("Power", "_reduce_u_to_the_n_at_least_two"): "powNat",
    ("Power", "_reduce_u_to_the_negative_one"): "powNegOne",
    ("Power", "_reduce_power_with_constant_base"): "powConstBase",
    ("Power", "_reduce_power_of_power"): "powPow",
    ("Power", "_reduce_u_to_the_negation_of_v"): "powNegExp",
    ("Power", "_reduce_reciprocal_u__to_the_v"): "powRecipBase",
    ("NthPower", "_reduce_nth_power_where_n_is_one"): "npowOne",
    ("NthPower", "_reduce_nth_power_of_mth_root"): "npowRoot",
    ("NthPower", "_reduce_nth_power_of_mth_power"): "npowPow",
    ("NthPower", "_reduce_nth_power_of_negation"): "npowNeg",
    ("NthPower", "_reduce_nth_power_of_reciprocal"): "npowRecip",
    ("NthPower", "_reduce_nth_power_of_exponential"): "npowExp",
    ("NthRoot", "_reduce_nth_root_where_n_is_one"): "nrootOne",
    ("NthRoot", "_reduce_nth_root_of_mth_power"): "nrootPow",
    ("NthRoot", "_reduce_nth_root_of_mth_root"): "nrootRoot",
    ("NthRoot", "_reduce_odd_nth_root_of_negation"): "nrootNeg",
    ("NthRoot", "_reduce_nth_root_of_reciprocal"): "nrootRecip",
    ("Exponential", "_reduce_exponential_of_logarithm"): "expLog",
    ("Exponential", "_reduce_exponential_of_negation"): "expNeg",
    ("Logarithm", "_reduce_logarithm_of_exponential"): "logExp",
    ("Logarithm", "_reduce_logarithm_of_reciprocal"): "logRecip",
    ("Logarithm", "_reduce_logarithm_of_nth_power"): "logNPow",
    ("Cosine", "_reduce_cosine_of_negation"): "cosNeg",
    ("Sine", "_reduce_sine_of_negation"): "sinNeg",
}

ALL_RULES = sorted(set(RULE_OF.values()))


class StepLog:
    def __init__(self):
        self.events: list[str] = []
        self.unknown: list[str] = []


@contextlib.contextmanager
def observing():
    """yields a StepLog that receives one entry per fired rule / successful constant fold"""
    log = StepLog()
    saved = []
    classes = [getattr(X, n) for n in X.__all__]
    for cls in classes:
        for name in dir(cls):
            if not name.startswith("_reduce_"):
                continue
            if name not in cls.__dict__:
                continue
            orig = cls.__dict__[name]
            rid = RULE_OF.get((cls.__name__, name))

            def make(orig, rid, cname, name):
                def wrapped(self, *a, **k):
                    r = orig(self, *a, **k)
                    if r is not None:
                        if rid is None:
                            log.unknown.append(f"{cname}.{name}")
                            log.events.append(f"?{cname}.{name}")
                        else:
                            log.events.append(rid)
                    return r
                return wrapped
            setattr(cls, name, make(orig, rid, cls.__name__, name))
            saved.append((cls, name, orig))
    orig_fold = Expression._consolidate_expression_lacking_variables

    def fold(self):
        r = orig_fold(self)
        if r is not None:
            log.events.append("fold")
        return r
    Expression._consolidate_expression_lacking_variables = fold
    try:
        yield log
    finally:
        Expression._consolidate_expression_lacking_variables = orig_fold
        for cls, name, orig in saved:
            setattr(cls, name, orig)


def missing_rules() -> list[str]:
    """reducers the table above does not know, and table entries that no longer exist: either means
    the step-level tie cannot be made and is reported as a broken correspondence"""
    out = []
    for n in X.__all__:
        cls = getattr(X, n)
        for name in cls.__dict__:
            if name.startswith("_reduce_") and (cls.__name__, name) not in RULE_OF:
                out.append(f"unknown reducer {cls.__name__}.{name}")
    for (cn, name) in RULE_OF:
        if not hasattr(getattr(X, cn), name):
            out.append(f"reducer {cn}.{name} no longer exists")
    return out + rule_table_mismatches()


_TABLE_CACHE: list[str] | None = None


def rule_table_mismatches() -> list[str]:
    """static tie of the rule tables: for one instance of every class, the names in its ordered
    `_reducers` list (whatever they are called) against the model's ordered `reducers` table"""
    global _TABLE_CACHE
    if _TABLE_CACHE is not None:
        return _TABLE_CACHE
    from . import wire
    from .core import run_model
    x = X.Variable("x")
    samples = [X.Add(x, x), X.Multiply(x, x), X.Minus(x, x), X.Divide(x, x), X.Power(x, x),
               X.Negation(x), X.Reciprocal(x), X.Cosine(x), X.Sine(x), X.NthPower(x, 2), X.NthRoot(x, 2),
               X.Exponential(x), X.Logarithm(x)]
    answers = run_model([f"F0 rules {wire.expr(e)}" for e in samples])
    out = []
    for e, a in zip(samples, answers):
        cn = type(e).__name__
        model = a.split()[1:]
        try:
            impl = [getattr(r, "__name__", repr(r)) for r in e._reducers]
        except Exception as ex:  # noqa: BLE001
            out.append(f"cannot read {cn}._reducers: {type(ex).__name__}: {ex}")
            continue
        mapped = [RULE_OF.get((cn, n), "?" + n) for n in impl]
        if mapped != model:
            out.append(f"reducer table of {cn} differs from the model: implementation {mapped} vs model {model}")
    _TABLE_CACHE = out
    return out


def traced_reduce(e, bound: int = 1000):
    """step a (fresh) expression to completion; -> (events with sizes, final expression, warned)"""
    from . import wire
    evs = []
    cur = e
    with observing() as log:
        for _ in range(bound):
            if cur._is_fully_reduced:
                return evs, cur, False, log.unknown
            n0 = len(log.events)
            cur = cur._take_reduction_step()
            new = log.events[n0:]
            if len(new) > 1:
                ev = "+".join(new)
            elif new:
                ev = new[0]
            else:
                ev = "flag"
            evs.append(f"{ev}:{wire.size(cur)}")
        return evs, cur, True, log.unknown


def unknown_reducer_hints() -> list[tuple]:
    """for every reducer the model does not know: (its class, the constructor names its source text mentions, the
    integer literals in it) - read from the source of the method and of the helpers it calls on `self`; this only
    *aims* the search for a failing input, it decides nothing"""
    import inspect
    import re
    out = []
    for n in X.__all__:
        cls = getattr(X, n)
        for name, fn in list(cls.__dict__.items()):
            if not (name.startswith("_reduce_") and (cls.__name__, name) not in RULE_OF):
                continue
            try:
                text = (inspect.getcomments(fn) or "") + inspect.getsource(fn)
                for helper in set(re.findall(r"\b(_[a-z]\w+)\(", text)):
                    h = getattr(cls, helper, None) or getattr(fn, "__globals__", {}).get(helper)
                    if h is not None and callable(h) and h is not fn:
                        try:
                            text += (inspect.getcomments(h) or "") + inspect.getsource(h)
                        except (OSError, TypeError):
                            pass
            except (OSError, TypeError):
                text = ""
            mentioned = sorted({m for m in re.findall(r"\b([A-Z][A-Za-z]+)\b", text) if m in X.__all__ and m not in ("Variable", "Constant")})
            ints = sorted({int(m) for m in re.findall(r"(?<![\w.])(\d{1,3})(?![\w.])", text)})
            out.append((cls.__name__, mentioned, ints))
    return out

