"""Every numeric derivative route of the public API, on the implementation."""
from __future__ import annotations

from .core import sm, X, call

ROUTES = ["PL", "PE", "PA", "FCL", "FCE", "FCAL", "FCAE", "FATL", "FATE", "LD"]
DERIV_ROUTES = ["DL", "DE", "DA"]
EARLY = {"PE", "PA", "DE", "DA", "FCE", "FCAE", "FATE"}     # routes that go through simplification


def run_route(name: str, e, x, p, warm=()):
    """x: variable name or Variable object; warm: points the route's own long-lived object (the
    Partial / Derivative / Differential) is asked about before p — answers there are discarded"""
    if isinstance(x, str):
        from .wire import fresh_str
        x = fresh_str(x)        # an equal str, not the object stored in the Variable leaves
    def make():
        if name in ("PL", "PA"):
            P = sm.Partial(e, x)
            if name == "PA":
                P.as_expression()
            return P
        if name == "PE":
            return sm.Partial(e, x, compute_early=True)
        if name in ("DL", "DA"):
            D = sm.Derivative(e)
            if name == "DA":
                D.as_expression()
            return D
        if name == "DE":
            return sm.Derivative(e, compute_early=True)
        if name in ("FCL", "FCAL", "FATL"):
            return sm.Differential(e)
        if name in ("FCE", "FCAE", "FATE"):
            return sm.Differential(e, compute_early=True)
        if name == "LD":
            return None
        raise ValueError(name)

    def use(obj, q):
        if name in ("DL", "DE", "DA"):
            # half of the time in the bare-number spelling, when the point is just that number
            from .wire import coords
            d = coords(q)
            vs = sorted(e._variable_names)
            if len(d) == 1 and len(vs) == 1 and vs[0] in d and (len(repr(q)) + len(name)) % 2:
                return obj.at(d[vs[0]])
            return obj.at(q)
        if name in ("PL", "PE", "PA"):
            return obj.at(q)
        if name in ("FCL", "FCE"):
            return obj.component(x).at(q)
        if name in ("FCAL", "FCAE"):
            return obj.component_at(x, q)
        if name in ("FATL", "FATE"):
            return obj.at(q).component(x)
        return sm.LocatedDifferential(e, q).component(x)

    def go():
        obj = make()
        for q in warm:
            try:
                if isinstance(q, tuple):
                    e.at(q[1])          # ("elsewhere", point): the expression itself is evaluated by someone else in between
                else:
                    use(obj, q)
            except Exception:  # noqa: BLE001 - whatever happens there is not what is asked
                pass
        return use(obj, p)
    return call(go, timeout=20)


def routes_for(e, x: str | None = None) -> list[str]:
    """Derivative differentiates in the single variable: comparable only when ``x`` is that one"""
    vs = e._variable_names
    ok = len(vs) == 0 or (len(vs) == 1 and (x is None or x in vs))
    return ROUTES + (DERIV_ROUTES if ok else [])
