"""Every numeric derivative route of the public API, on the implementation."""
from __future__ import annotations

from .core import sm, X, call

ROUTES = ["PL", "PE", "PA", "FCL", "FCE", "FCAL", "FCAE", "FATL", "FATE", "LD"]
DERIV_ROUTES = ["DL", "DE", "DA"]
EARLY = {"PE", "PA", "DE", "DA", "FCE", "FCAE", "FATE"}     # routes that go through simplification


def run_route(name: str, e, x, p):
    """x: variable name or Variable object"""
    def go():
        if name == "PL":
            return sm.Partial(e, x).at(p)
        if name == "PE":
            return sm.Partial(e, x, compute_early=True).at(p)
        if name == "PA":
            P = sm.Partial(e, x)
            P.as_expression()
            return P.at(p)
        if name == "DL":
            return sm.Derivative(e).at(p)
        if name == "DE":
            return sm.Derivative(e, compute_early=True).at(p)
        if name == "DA":
            D = sm.Derivative(e)
            D.as_expression()
            return D.at(p)
        if name == "FCL":
            return sm.Differential(e).component(x).at(p)
        if name == "FCE":
            return sm.Differential(e, compute_early=True).component(x).at(p)
        if name == "FCAL":
            return sm.Differential(e).component_at(x, p)
        if name == "FCAE":
            return sm.Differential(e, compute_early=True).component_at(x, p)
        if name == "FATL":
            return sm.Differential(e).at(p).component(x)
        if name == "FATE":
            return sm.Differential(e, compute_early=True).at(p).component(x)
        if name == "LD":
            return sm.LocatedDifferential(e, p).component(x)
        raise ValueError(name)
    return call(go, timeout=20)


def routes_for(e, x: str | None = None) -> list[str]:
    """Derivative differentiates in the single variable: comparable only when ``x`` is that one"""
    vs = e._variable_names
    ok = len(vs) == 0 or (len(vs) == 1 and (x is None or x in vs))
    return ROUTES + (DERIV_ROUTES if ok else [])
