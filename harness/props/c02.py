"""C02 — DomainError exactly outside the (strict) domain; finite real result inside.

Oracle: the model's outcome kind (`evalG`, proved: `.error .domain` iff some sub-expression is outside
its documented domain, Properties/C02.lean).  Points are boundary-directed: for every constrained
sub-expression the grid contains points where its argument is 0, negative and adjacent."""
from __future__ import annotations

from .. import wire, gen, common
from ..core import call, Report, write_evidence, is_real_number
from ..engine import NumCase, judge_numeric

PID = "C02"

CONSTRAINED = ("Divide", "Reciprocal", "Power", "NthRoot", "Logarithm")


def offenders(g: gen.Gen) -> list:
    """sub-expressions that are undefined on part of the grid"""
    X = gen.X
    u = lambda: g.expr(1)  # noqa: E731
    return [
        X.Reciprocal(u()), X.Divide(u(), u()), X.Logarithm(u(), base=g.rng.choice(gen.LOG_BASES)),
        X.NthRoot(u(), 2), X.NthRoot(u(), 3), X.NthRoot(u(), 4), X.NthRoot(u(), 5),
        X.Power(u(), u()), X.Divide(X.Constant(0), u()),
        X.Reciprocal(X.Minus(X.Variable("x"), X.Constant(g.number()))),
        X.Logarithm(X.Minus(X.Variable("y"), X.Variable("x"))),
        X.NthRoot(X.Multiply(X.Variable("x"), X.Variable("y")), 2),
    ]


def hiding_parents(g: gen.Gen, bad) -> list:
    """parents under which an undefined sub-expression cannot influence the value"""
    X = gen.X
    zero = X.Constant(g.rng.choice([0, 0.0]))
    one = X.Constant(g.rng.choice([1, 1.0]))
    return [
        X.Multiply(zero, bad), X.Multiply(bad, zero), X.Multiply(g.expr(1), zero, bad),
        X.Power(one, bad), X.Divide(zero, X.Add(bad, X.Constant(7))), X.Divide(zero, bad),
        X.Multiply(X.Minus(X.Variable("x"), X.Variable("x")), bad),
        X.NthPower(X.Multiply(zero, bad), 2), X.Add(X.Multiply(zero, bad), g.expr(1)),
        X.Exponential(X.Multiply(zero, bad), base=1), X.Exponential(bad, base=1),
        X.Cosine(X.Multiply(zero, bad)), X.Minus(bad, bad),
        X.Power(X.Add(one), bad), X.Power(X.Cosine(zero), bad),
    ]


def cancelling_parents(g: gen.Gen, bad) -> list:
    """parents that undo the offending node algebraically (the round trip `f⁻¹(f(u))`, `u · 1/u`,
    `u − u`, `u / u`): a shortcut that returns `u` for the pair must still fail where `f(u)` does"""
    X = gen.X
    c = wire.cls(bad)
    out = [X.Minus(bad, bad), X.Divide(bad, bad), X.NthRoot(X.NthPower(bad, 2), 2), X.NthRoot(X.NthPower(bad, 3), 3),
           X.Negation(X.Negation(bad)), X.Multiply(bad, X.Reciprocal(bad))]
    # the same pairs as *adjacent operands of an n-ary node*, the very same object on both sides, in both orders, alone,
    # after a leading operand and before a trailing one (an n-ary evaluation that pairs off `-u, u` or `1/u, u`)
    for K, W in ((X.Add, X.Negation), (X.Multiply, X.Reciprocal), (X.Add, X.Reciprocal), (X.Multiply, X.Negation), (X.Add, lambda t: t)):
        for pair in ((W(bad), bad), (bad, W(bad))):
            out += [K(*pair), K(X.Constant(1), *pair), K(*pair, X.Constant(2.0)), K(g.expr(0), *pair, g.expr(0))]
            out.append(pair[0] + pair[1] if K is X.Add else pair[0] * pair[1])
    if c == "NthRoot":
        n = bad._parameter
        out += [X.NthPower(bad, n), X.NthPower(bad, 2 * n), X.Multiply(*([bad] * min(n, 4))),
                X.Add(g.expr(1), X.NthPower(bad, n)), X.Multiply(X.Constant(0), X.NthPower(bad, n))]
    if c == "Logarithm":
        out += [X.Exponential(bad, base=bad._parameter), X.Exponential(X.Multiply(X.Constant(2), bad), base=bad._parameter)]
    if c == "Reciprocal":
        out += [X.Reciprocal(bad), X.Multiply(bad, bad._inner), X.Divide(X.Constant(1), bad)]
    if c == "Divide":
        out += [X.Multiply(bad, bad._right), X.Multiply(bad._right, bad), X.Reciprocal(bad)]
    if c == "Power":
        out += [X.Logarithm(bad), X.Power(bad, X.Reciprocal(bad._right)), X.NthRoot(bad, 2)]
    return out


def wide_parents(g: gen.Gen, bad) -> list:
    """the offender as one of many operands, at an early, a middle and the last position"""
    X = gen.X
    out = []
    for k in (6, 9, 17):
        for pos in (0, 4, 5, k // 2, k - 1):
            for K in (X.Add, X.Multiply):
                items = [g.expr(0) if i % 3 else X.Constant(float(1 + i % 4)) for i in range(k)]
                items[pos] = bad
                out.append(K(*items))
    zero_first = [X.Constant(0)] + [g.expr(0) for _ in range(6)] + [bad]
    out.append(X.Multiply(*zero_first))
    return g.rng.sample(out, 10)


def gen_cases(rng, tier: str) -> list[dict]:
    cases = []
    for rnd in range(common.sizes(tier, 6, 40)):
        g = gen.Gen(rng, names=("x", "y"))
        for bad in offenders(g):
            exprs = [("offender", bad)] + [("hidden", h) for h in hiding_parents(g, bad)]
            exprs += [("cancelled", h) for h in cancelling_parents(g, bad)]
            exprs += [("wide", h) for h in wide_parents(g, bad)]
            exprs.append(("wrapped", gen.wrap_random(g, bad, 2)))
            for origin, e in exprs:
                prior: list[str] = []
                for p in common.points_for(rng, e, 2):
                    c = common.make_eval_case(origin, e, p)
                    c["prior"] = prior[:]
                    prior.append(c["p"])
                    cases.append(c)
    for e, pt in common.int_exact(rng, common.sizes(tier, 60, 600)):
        cases.append({"origin": "int-exact", "e": wire.expr(e, ids={}), "p": wire.point(pt), "int_exact": True, "prior": []})
    for origin, e in common.expr_stream(rng, tier, common.sizes(tier, 300, 4000), names=("x", "y")):
        prior = []
        for p in common.points_for(rng, e, 3):
            c = common.make_eval_case(origin, e, p)
            c["prior"] = prior[:]
            prior.append(c["p"])
            cases.append(c)
    return cases


def check_cases(cases: list[dict], rep: Report, known: dict) -> None:
    ncs = []
    for c in cases:
        if rep.stop():
            break
        e = wire.build_raw(c["e"])
        p = wire.build_point(c["p"])
        prior = c.get("prior", [])
        if prior and len(c["p"]) % 2:
            # the caller's own Point object: used once, then the expression's nodes are visited elsewhere through
            # other entry points, then the very same object again
            from ..core import sm
            call(e.at, p)
            vs = sorted(e._variable_names)
            for k, q in enumerate(prior):
                qp = wire.build_point(q)
                call(lambda: sm.LocatedDifferential(e, qp)) if k % 2 else call(lambda: sm.Partial(e, vs[0] if vs else "x").at(qp))
        else:
            for q in prior:
                call(e.at, wire.build_point(q))
        impl = call(e.at, p)
        nc = NumCase((c["e"], c["p"]), f"eval {c['e']} {c['p']}", impl, dict(c, impl=repr(impl)))
        nc.info["_e"] = e
        ncs.append(nc)
    judge_numeric(ncs, rep)
    for nc in ncs:
        e = nc.info.pop("_e")
        info = nc.info
        constrained = common.tree_has(e, lambda n: wire.cls(n) in CONSTRAINED)
        rep.case(nc.key, constrained)
        rep.count("origin", info["origin"].split(":")[0])
        if nc.verdict.startswith("skip"):
            rep.skip(nc.verdict[5:])
            continue
        rep.corr_checked += 1
        model = info["model_Q"] if info.get("int_exact") and not info["model_Q"].startswith("err unsupported") else info["model_F0"]
        rep.count("model-outcome", model.split(" ")[0] + (" " + model.split(" ")[1] if model.startswith("err") else ""))
        if nc.verdict == "match":
            rep.count("impl-outcome", nc.impl[0] if nc.impl[0] == "ok" else nc.impl[1])
            if model.startswith("err domain"):
                rep.sample({"e": info["e"], "p": info["p"], "outcome": "DomainError (model: outside the domain)"})
            continue
        # mismatch
        if model.startswith("err domain"):
            rep.violation(f"point outside the domain but Expression.at did not raise DomainError: {nc.detail}", info)
        elif model.startswith("ok") and nc.impl == ("err", "domain"):
            rep.violation(f"DomainError raised at a point of the domain: {nc.detail}", info)
        elif model.startswith("ok") and nc.impl[0] == "ok" and not is_real_number(nc.impl[1]):
            rep.violation(f"result on the domain is not a finite real number: {nc.impl[1]!r}", info)
        elif model.startswith("ok") and nc.impl[0] == "ok":
            rep.corr_break(f"value differs from the model (C01's statement): {nc.detail}", info)
        else:
            rep.violation(f"outcome differs from the model: {nc.detail}", info)


def run(rep: Report, rng, tier: str, known: dict, search: bool = False) -> None:
    check_cases(gen_cases(rng, tier), rep, known)


def evidence(rep: Report) -> None:
    write_evidence(
        rep,
        rule="cases = (expression, point): every kind of constrained node (Divide, Reciprocal, Power, NthRoot n=2..5, Logarithm) with random arguments, alone, wrapped under random parents, and hidden under every parent that makes it irrelevant to the value (zero factor in any position, zero numerator, base one, Exponential base 1, x-x factor), plus rule patterns and random trees; points from a dyadic grid containing 0, negatives and neighbours; non-trivial = the tree contains a constrained node; distinct by (wire form, point); plus cancelling and wide parents, int-exact sums under every restricted node (decided by the exact instance), the same Point object reused after other entry points ran elsewhere",
        trusted=common.TRUSTED,
        assumptions=[common.ASSUME_RANGE,
                     "the implementation decides ==0 / <0 on rounded intermediates: outcomes are compared only where the model's guard decisions are stable under its error bound (others counted as rounding-ambiguous / rounding-divergence)"],
    )
