"""C01 — evaluation returns the real-arithmetic value.

Oracle: the Lean model `evalG`, proved equal to the denotation `den` on the domain
(Properties/C01.lean).  Exactness sentence: whenever the exact-rational run reports that every exact
intermediate is a double, the implementation must return exactly that rational.  Rounding sentence:
otherwise within the model's running error bound for this tree and point."""
from __future__ import annotations
import math

from .. import wire, gen, common
from ..core import call, Report, write_evidence
from ..engine import NumCase, judge_numeric

PID = "C01"


def k3_corpus() -> list[dict]:
    V = gen.X.Variable
    X = gen.X
    items = [
        (X.Logarithm(V("x"), base=10), {"x": 1000}),
        (X.NthRoot(V("x"), 3), {"x": 27}),
        (X.Logarithm(V("x"), base=10), {"x": 1000.0}),
        (X.Add(V("y"), X.NthRoot(V("x"), 3)), {"x": 27.0, "y": 1}),
    ]
    return [dict(common.make_eval_case("corpus:K3", e, p), entry="point") for e, p in items]


def k3_points(tier: str) -> list[dict]:
    """exact-power points of the libm-backed constructors"""
    X, V = gen.X, gen.X.Variable
    out = []
    ks = range(2, 6 if tier == "quick" else 12)
    for n in (3, 4, 5, 6, 7):
        for k in ks:
            out.append(dict(common.make_eval_case("exact-power", X.NthRoot(V("x"), n), {"x": k ** n}), entry="point"))
            if n % 2 == 1:
                out.append(dict(common.make_eval_case("exact-power", X.NthRoot(V("x"), n), {"x": float(-(k ** n))}), entry="point"))
    for b in (2, 10, 3, 0.5):
        for k in ks:
            out.append(dict(common.make_eval_case("exact-power", X.Logarithm(V("x"), base=b), {"x": b ** k}), entry="point"))
            out.append(dict(common.make_eval_case("exact-power", X.Exponential(V("x"), base=b), {"x": float(k)}), entry="number"))
    return out


def gen_cases(rng, tier: str) -> list[dict]:
    cases = []
    stream = common.expr_stream(rng, tier, common.sizes(tier, 500, 6000), share=0.3)
    for origin, e in stream:
        prior: list[str] = []
        for p in common.points_for(rng, e, 3 if tier == "quick" else 5, extra=0.2):
            c = common.make_eval_case(origin, e, p)
            nvars = len(e._variable_names)
            c["entry"] = "number" if nvars <= 1 and rng.random() < 0.4 else "point"
            c["prior"] = prior[:]          # points the same object was evaluated at before
            prior.append(c["p"])
            cases.append(c)
    for origin, pairs in (("near-special", common.near_special(rng, common.sizes(tier, 400, 4000))),
                          ("compensating-magnitudes", common.compensating_products(rng, common.sizes(tier, 150, 1500))),
                          ("tiny-powers", common.tiny_powers(rng, common.sizes(tier, 100, 1000)))):
        for e, pt in pairs:
            c = common.make_eval_case(origin, e, pt)
            c["entry"] = "number" if len(e._variable_names) <= 1 and rng.random() < 0.3 else "point"
            cases.append(c)
    for e, pt in common.int_exact(rng, common.sizes(tier, 60, 600)):
        # not through make_eval_case: the point of these is that leaves and coordinates stay Python ints
        cases.append({"origin": "int-exact", "e": wire.expr(e, ids={}), "p": wire.point(pt), "int_exact": True,
                      "entry": "number" if len(e._variable_names) == 1 and rng.random() < 0.3 else "point"})
    return cases + k3_points(tier)


def check_cases(cases: list[dict], rep: Report, known: dict) -> None:
    ncs = []
    for c in cases:
        if rep.stop():
            break
        e = wire.build_raw(c["e"])
        p = wire.build_point(c["p"])
        prior = c.get("prior", [])
        if prior and len(c["p"]) % 2 and c.get("entry") != "number":
            from ..core import sm
            call(e.at, p)               # the same Point object is used again below, after other entry points ran elsewhere
            vs = sorted(e._variable_names)
            for k, q in enumerate(prior):
                qp = wire.build_point(q)
                call(lambda: sm.LocatedDifferential(e, qp)) if k % 2 else call(lambda: sm.Partial(e, vs[0] if vs else "x").at(qp))
        else:
            for q in prior:
                call(e.at, wire.build_point(q))
        if c.get("entry") == "number" and len(e._variable_names) <= 1:
            names = sorted(e._variable_names)
            t = wire.coords(p).get(names[0], 1) if names else 1
            impl = call(e.at, t)
            suffix = f"evalnum {c['e']} {wire.num(t)}"
        else:
            impl = call(e.at, p)
            suffix = f"eval {c['e']} {c['p']}"
        info = dict(c, impl=repr(impl))
        nc = NumCase((c["e"], c["p"], c.get("entry")), suffix, impl, info)
        nc.info["_e"] = e
        ncs.append(nc)
    judge_numeric(ncs, rep)
    for nc in ncs:
        e = nc.info.pop("_e")
        info = nc.info
        model_ok = info["model_F0"].startswith("ok")
        nontrivial = model_ok and wire.size(e) >= 3
        rep.case(nc.key, nontrivial)
        rep.count("origin", info["origin"].split(":")[0])
        for k, v in wire.classes(e).items():
            rep.count("constructors", k, v)
        rep.count("entry", info.get("entry", "point"))
        rep.count("size", str(min(wire.size(e) // 5 * 5, 40)))
        if nc.verdict.startswith("skip"):
            rep.skip(nc.verdict[5:])
            continue
        if not model_ok:
            rep.count("outside-domain", info["model_F0"])
            if nc.verdict == "mismatch":
                # not C01's statement (it speaks about points of the domain) but the tie is broken
                rep.corr_break(f"evaluation outcome outside the domain differs: {nc.detail}", info)
            continue
        rep.corr_checked += 1
        if nc.verdict == "mismatch":
            rep.violation(f"Expression.at returns a value that is not the real-arithmetic value: {nc.detail}", info)
            continue
        if nc.exact == "exact-ok":
            rep.count("exactness", "exact-equal")
        elif nc.exact == "exact-miss":
            # K3: libm-backed node, and the implementation returned exactly what IEEE+libm give
            impl_v = float(nc.impl[1])
            f0 = wire.MNum(info["model_F0"].split(" ")[1])
            q = wire.MNum(info["model_Q"].split(" ")[1]).q
            ulp = math.ulp(float(q)) if q != 0 else 5e-324
            from fractions import Fraction as _Fr
            if common.tree_has(e, common.libm_site) and impl_v == f0.v and abs(impl_v - float(q)) <= 4 * ulp:
                rep.known("K3", "libm-backed constructor not exact at an exactly representable result (<= 4 ulp)",
                          {"e": info["e"], "p": info["p"], "impl": repr(impl_v), "exact": str(q)})
                rep.count("exactness", "K3")
            elif common.tree_has(e, common.libm_site):
                # a libm-backed node, the result within the bound (judged above) but not bit-equal to the
                # model's double run: CPython's compensated sum() carries the one-ulp error of cbrt/log/**
                # through a cancellation that the model's plain left-to-right sum happens to round away
                rep.count("exactness", "inexact-libm")
            elif _Fr(f0.v) != q:
                # the model's own double run is not the exact value either: some intermediate was
                # rounded on a path that the exact run's "representable" flag does not see (a zero
                # test decided on a rounded value, cf. Properties/C01.lean, harness hazards): the
                # premise of the exactness sentence is not established - not judged
                rep.skip("exactness-premise-undecided")
            else:
                rep.violation(f"every exact intermediate is a double but the result {impl_v!r} is not the exact value {q}", info)
        rep.sample({"e": info["e"], "p": info["p"], "impl": info["impl"], "model": info["model_F0"]})


def mf_tie(rep: Report, rng, tier: str) -> None:
    """the numeric primitives of math_functions.py called directly against the model's `mf*`
    functions (driver request `mf`): values within the model's bound, the same error kinds"""
    import smoothmath._private.math_functions as mf
    nums = [0, 1, -1, 2, -2, 0.5, -0.5, 3, 10, 0.1, -0.1, 1e-9, -1e-9, 1e9, 7.0, 32, -32, 81.0, 81.00000001, -128.0, 1e-300,
            1e100, 2.718281828459045, 0.9999999999999999, 1.0000000000000002, 1e-15, 40.0, -40.0, 1e20, 123456.789, 0.0, -0.0, 4, 0.25]
    ns = [0, 1, 2, 3, 4, 5, 6, 7, 8, 9, 10, 11, 12, 15, 16, 21, 27, 32, 64, 100]
    bases = [math.e, 2, 10, 0.5, 3.0, 1, 1.0000000000000002, 1e-300, 0, -2, 0.25]
    reqs = []
    count = common.sizes(tier, 1500, 12000)
    for _ in range(count):
        f = rng.choice(["add", "multiply", "minus", "negation", "divide", "reciprocal", "power", "nth_power", "nth_root",
                        "exponential", "logarithm", "cosine", "sine"])
        x, y = rng.choice(nums), rng.choice(nums)
        if rng.random() < 0.3:
            k, n0 = rng.choice([1, 2, 3, 5, 7, 10]), rng.choice(ns[1:12])
            x = float(k ** n0) * (1 + rng.choice([0, 1e-10, -1e-10, 3e-13])) * rng.choice([1, 1, -1])
        if f in ("add", "multiply"):
            args = [rng.choice(nums) for _ in range(rng.randint(0, 4) if rng.random() < 0.7 else rng.randint(5, 40))]
            req, impl = f"mf {f} {len(args)} " + " ".join(wire.num(a) for a in args), call(getattr(mf, f), *args)
        elif f in ("minus", "divide", "power"):
            req, impl = f"mf {f} {wire.num(x)} {wire.num(y)}", call(getattr(mf, f), x, y)
        elif f in ("negation", "reciprocal", "cosine", "sine"):
            req, impl = f"mf {f} {wire.num(x)}", call(getattr(mf, f), x)
        elif f in ("nth_power", "nth_root"):
            n = rng.choice(ns)
            req, impl = f"mf {f} {wire.num(x)} {n}", call(getattr(mf, f), x, n)
        else:
            b = rng.choice(bases)
            req, impl = f"mf {f} {wire.num(x)} {wire.num(b)}", call(getattr(mf, f), x, b)
        reqs.append(NumCase((req,), req, impl, {"request": req, "impl": repr(impl), "function": f}))
    judge_numeric(reqs, rep)
    for nc in reqs:
        rep.evaluations += 1
        if nc.verdict.startswith("skip"):
            rep.skip("mf-" + nc.verdict[5:])
            continue
        rep.corr_checked += 1
        rep.count("math_functions", nc.info["function"] + (":error" if nc.impl[0] == "err" else ":value"))
        if nc.verdict == "mismatch":
            rep.corr_break(f"math_functions.{nc.info['function']} differs from the model: {nc.detail}", nc.info)


def deep_spellings(rep: Report) -> None:
    """the two spellings of the point (`at(Point(x=t))`, `at(t)`) on chains nested a few hundred levels deep, under
    the interpreter's *default* recursion limit (the harness itself runs with a raised one): a spelling that needs
    several stack frames per level more than the other (by rendering the expression, say) fails with RecursionError
    long before the other does"""
    import inspect
    import sys
    from ..core import X
    x = X.Variable("x")
    for depth in (300, 450, 600):
        chains = {"Minus": x, "Add": x, "Negation": x, "Multiply": x, "Sine": x}
        for _ in range(depth):
            chains["Minus"] = X.Minus(chains["Minus"], X.Constant(1.0))
            chains["Add"] = X.Add(chains["Add"], X.Constant(1.0))
            chains["Negation"] = X.Negation(chains["Negation"])
            chains["Multiply"] = X.Multiply(X.Constant(1.0), chains["Multiply"])
            chains["Sine"] = X.Sine(chains["Sine"])
        for name, e in chains.items():
            old = sys.getrecursionlimit()
            try:
                sys.setrecursionlimit(1000 + len(inspect.stack(0)))
                by_point = call(e.at, wire.build_point("1 x x4000000000000000"))
                by_number = call(e.at, 2.0)
            finally:
                sys.setrecursionlimit(old)
            rep.evaluations += 2
            rep.count("deep-spellings", f"{name}:{depth}:{by_point[0]}/{by_number[0]}")
            if by_point[0] == "ok" and by_number[0] == "ok":
                if by_point[1] != by_number[1]:
                    rep.violation(f"at(Point(x=2.0)) = {by_point[1]!r} but at(2.0) = {by_number[1]!r} on a {name} chain {depth} deep", {"chain": name, "depth": depth})
            elif (by_point[0] == "ok") != (by_number[0] == "ok") and "recursion" in (by_point[1], by_number[1]):
                rep.violation(f"a {name} chain nested {depth} deep evaluates through one spelling of the point and exhausts the default recursion "
                              f"limit through the other: at(Point) -> {by_point!r}, at(number) -> {by_number!r}"[:500], {"chain": name, "depth": depth})


def run(rep: Report, rng, tier: str, known: dict, search: bool = False) -> None:
    if not search:
        deep_spellings(rep)
    cases = ([] if search else k3_corpus()) + gen_cases(rng, tier)
    check_cases(cases, rep, known)
    mf_tie(rep, rng, tier)


def evidence(rep: Report) -> None:
    write_evidence(
        rep,
        rule="cases = (expression, point, entry) from rule-directed patterns (all 46 rule left-hand sides with random holes), random type-directed trees (rational / +roots / all 15 constructors, DAG sharing, arity 0-4, depth<=4 quick / 6 thorough) and exact-power points of libm-backed constructors; non-trivial = the model says the point is in the domain and the tree has >= 3 nodes; distinct by (wire form, point, entry); plus families added after seeded changes were missed: near-special arguments, compensating magnitudes, int-exact sums (ints beyond 2**53 cancelling to a small integer, decided by the exact instance), powers whose value is subnormal, a fifth of all expressions renamed (multi-character, library-internal and NFKC-unstable names), the same Point object reused after the nodes were visited elsewhere, and the two spellings of the point on chains nested 300-600 deep under the default recursion limit",
        trusted=common.TRUSTED,
        assumptions=[common.ASSUME_RANGE,
                     "rounding sentence: judged against the Float instance of the model within its running error bound (no theorem relates IEEE arithmetic to the reals)"],
    )
