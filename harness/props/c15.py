"""C15 — operator syntax builds exactly the named constructors.

Tie: the model's operator functions (`opNeg … opPow`, Properties/C15.lean: they are the constructors;
`**` with an expression gives Power, with an integral number k >= 1 gives NthPower(a, k), anything
else is an error).  Oracle on the implementation: the operator result equals the constructor call
and prints identically (nothing simplified or reordered); foreign operands and bad exponents raise."""
from __future__ import annotations
import math

from .. import wire, gen, common
from ..core import call, sm, X, Report, write_evidence, Batch, parse_answer

PID = "C15"

EXPONENTS = [1, 2, 3, 7, 1.0, 2.0, 5.0, 0, -1, -2, 0.0, -3.0, 0.5, 2.5, -0.5, 1e-9, 2 ** 40, float(2 ** 20),
             0.1 * 3 * 10, 2.000000001, 1.9999999995, 1000000.0005, 7 - 1e-12, 1.0000000000000002, 0.9999999999999999,
             float("nan"), float("inf"), True, 2 ** 53 + 1, 10 ** 17 + 1, 2 ** 64 - 1, 1e20, float(2 ** 53)]
class Greedy:
    """a foreign operand whose reflected operators accept anything: if the expression's own operator
    answered NotImplemented instead of raising, Python would hand the operation over to these"""
    def _take(self, other):
        return ("swallowed", other)
    __radd__ = __rsub__ = __rmul__ = __rtruediv__ = __rpow__ = __rfloordiv__ = __rmod__ = _take

    def __repr__(self):
        return "Greedy()"


from fractions import Fraction as _Fraction      # noqa: E402
from decimal import Decimal as _Decimal          # noqa: E402

FOREIGN = [3, 2.5, "x", None, [1], (1,), {"a": 1}, object(), 0, 1, True, 1j,
           _Fraction(5, 1), _Fraction(1, 2), _Decimal(2), Greedy()]


def pyval(v) -> str:
    if wire.cls(v) in wire.HEAD:
        return "e " + wire.expr(v)
    if isinstance(v, bool) or isinstance(v, (int, float)):
        return "n " + wire.num(v)
    if isinstance(v, str):
        return "s " + wire.hexs(v)
    return "o"


def gen_cases(rng, tier: str) -> list[dict]:
    cases = []
    for origin, a in common.expr_stream(rng, tier, common.sizes(tier, 120, 1500), depth_q=3, depth_t=5, rules=False):
        g = gen.Gen(rng)
        b = g.expr(rng.randint(0, 3))
        cases.append({"origin": origin, "a": wire.expr(a), "b": wire.expr(b)})
    return cases


def check_cases(cases: list[dict], rep: Report, known: dict) -> None:
    bt = Batch()
    work = []
    for c in cases:
        if rep.stop():
            break
        a, b = wire.build_raw(c["a"]), wire.build_raw(c["b"])
        rep.case((c["a"], c["b"]), wire.size(a) + wire.size(b) >= 3)
        pairs = [
            ("neg", lambda: -a, lambda: X.Negation(a), f"op neg {c['a']}"),
            ("add", lambda: a + b, lambda: X.Add(a, b), f"op add {c['a']} e {c['b']}"),
            ("sub", lambda: a - b, lambda: X.Minus(a, b), f"op sub {c['a']} e {c['b']}"),
            ("mul", lambda: a * b, lambda: X.Multiply(a, b), f"op mul {c['a']} e {c['b']}"),
            ("div", lambda: a / b, lambda: X.Divide(a, b), f"op div {c['a']} e {c['b']}"),
            ("pow", lambda: a ** b, lambda: X.Power(a, b), f"op pow {c['a']} e {c['b']}"),
        ]
        for name, f, g, req in pairs:
            rep.evaluations += 1
            rep.count("operator", name)
            got, want = call(f), call(g)
            info = dict(c, operator=name, impl=repr(got)[:300])
            if got[0] != "ok" or want[0] != "ok":
                rep.violation(f"operator {name} raised {got!r} / constructor {want!r}"[:300], info)
                continue
            if not (got[1] == want[1]) or repr(got[1]) != repr(want[1]) or type(got[1]) is not type(want[1]):
                rep.violation(f"operator {name} does not build the named constructor: {got[1]!r} vs {want[1]!r}"[:500], info)
            work.append((info, got, bt.ask("F0 " + req), None))
        for k in EXPONENTS:
            rep.evaluations += 1
            got = call(lambda: a ** k)
            if isinstance(k, float) and (math.isnan(k) or math.isinf(k)):
                if got[0] == "ok":
                    rep.violation(f"a ** {k!r} was accepted", dict(c, exponent=repr(k)))
                continue
            good = (isinstance(k, int) or float(k).is_integer()) and k >= 1
            info = dict(c, operator="pow", exponent=repr(k), impl=repr(got)[:300])
            rep.count("exponent", "integral>=1" if good else "rejected")
            if good:
                want = call(lambda: X.NthPower(a, int(k)))
                if got[0] != "ok" or not (got[1] == want[1]) or repr(got[1]) != repr(want[1]) or got[1].n != int(k) \
                        or type(got[1].n) is not int:
                    rep.violation(f"a ** {k!r} is not NthPower(a, {int(k)}): {got!r}"[:400], info)
            elif got[0] == "ok":
                rep.violation(f"a ** {k!r} was accepted: {got[1]!r}"[:400], info)
            inst = "Q" if isinstance(k, int) and abs(k) > 2 ** 53 else "F0"
            work.append((info, got, bt.ask(f"{inst} op pow {c['a']} {pyval(k)}"), None))
        for f in FOREIGN:
            for name, op in (("add", lambda u, v: u + v), ("sub", lambda u, v: u - v), ("mul", lambda u, v: u * v),
                             ("div", lambda u, v: u / v), ("pow", lambda u, v: u ** v)):
                for side in ("right", "left"):
                    if name == "pow" and side == "right" and isinstance(f, (int, float)) and not isinstance(f, complex):
                        continue         # numeric exponents are covered above
                    rep.evaluations += 1
                    got = call(lambda: op(a, f) if side == "right" else op(f, a))
                    if got[0] == "ok":
                        rep.violation(f"foreign {side} operand {f!r} accepted by operator {name}: {got[1]!r}"[:400],
                                      dict(c, operator=name, operand=repr(f), side=side))
            rep.count("foreign", type(f).__name__)
    bt.run()
    for info, got, i, _ in work:
        rep.corr_checked += 1
        k, rest = parse_answer(bt[i])
        if k == "ok":
            tree, _ = wire.parse_expr(rest, 0)
            if got[0] != "ok" or not wire.tree_matches(tree, got[1]):
                rep.corr_break(f"operator result differs from the model: {got!r} vs {bt[i][:200]}"[:500], info)
        elif got[0] == "ok":
            rep.corr_break(f"model rejects ({rest}) what the implementation accepts", info)
    rep.sample({"a": cases[0]["a"][:100], "b": cases[0]["b"][:100], "checked": "-a, a+b, a-b, a*b, a/b, a**b, a**k for 21 exponents, 16 foreign operands (incl. Fraction, Decimal and an object with catch-all reflected operators) on both sides"})


def chains(rep: Report, rng) -> None:
    """long operator chains: a + b + c + ... is the left-nested tower of two-operand nodes, however long,
    and one more operator on a deep constructor-built tower adds one more level"""
    import functools
    import operator
    g = gen.Gen(rng, names=("x", "y", "z"))
    for k in (2, 3, 5, 8, 9, 10, 11, 12, 16, 24, 40):
        for opname, op, K in (("+", operator.add, X.Add), ("*", operator.mul, X.Multiply), ("-", operator.sub, X.Minus),
                              ("/", operator.truediv, X.Divide)):
            terms = [g.expr(rng.randint(0, 1)) for _ in range(k)]
            got = call(lambda: functools.reduce(op, terms))
            want = call(lambda: functools.reduce(lambda a, b: K(a, b), terms))
            rep.evaluations += 1
            rep.count("operator-chains", f"{opname}:{k}")
            if got[0] != "ok" or want[0] != "ok" or not (got[1] == want[1]) or repr(got[1]) != repr(want[1]):
                rep.violation(f"a chain of {k} terms with {opname} is not the left-nested tower of {K.__name__} nodes: "
                              f"{repr(got[1])[:160] if got[0] == 'ok' else got} vs {repr(want[1])[:160] if want[0] == 'ok' else want}",
                              {"operator": opname, "terms": k})
        # mixed chain a + b * c - d ... against the explicit constructors
        terms = [g.expr(0) for _ in range(k)]
        got = call(lambda: functools.reduce(lambda a, b: (a + b) * b - a, terms))
        want = call(lambda: functools.reduce(lambda a, b: X.Minus(X.Multiply(X.Add(a, b), b), a), terms[: min(k, 12)])) if k <= 12 else None
        if want is not None and (got[0] != "ok" or want[0] != "ok" or repr(got[1]) != repr(want[1])):
            rep.violation(f"a mixed operator chain of {k} terms differs from the constructors", {"terms": k})


def augmented(rep: Report, rng) -> None:
    """`s op= c` is `s = s op c`: the same constructor call, whatever s already is"""
    g = gen.Gen(rng, names=("x", "y", "z"))
    for _ in range(40):
        a, b, c = g.expr(rng.randint(0, 2)), g.expr(rng.randint(0, 1)), g.expr(rng.randint(0, 1))
        for opname, K, start in (("+=", X.Add, lambda: a + b), ("*=", X.Multiply, lambda: a * b), ("-=", X.Minus, lambda: a - b),
                                 ("/=", X.Divide, lambda: a / b), ("**=", X.Power, lambda: a ** b),
                                 ("+= on a product", X.Add, lambda: a * b), ("*= on a sum", X.Multiply, lambda: a + b),
                                 ("+= on Add(...)", X.Add, lambda: X.Add(a, b, c)), ("*= on Multiply(...)", X.Multiply, lambda: X.Multiply(a, b, c))):
            rep.evaluations += 1
            def go():
                s = start()
                s0 = s
                if opname.startswith("+="):
                    s += c
                elif opname.startswith("*="):
                    s *= c
                elif opname == "-=":
                    s -= c
                elif opname == "/=":
                    s /= c
                else:
                    s **= c
                return s, K(s0, c), s0
            got = call(go)
            rep.count("augmented-assignment", opname)
            if got[0] != "ok" or not (got[1][0] == got[1][1]) or repr(got[1][0]) != repr(got[1][1]):
                rep.violation(f"s {opname} c does not build {K.__name__}(s, c): {repr(got[1][0])[:200] if got[0] == 'ok' else got}", {"operator": opname})
        k = call(lambda: _iop(a, 3))
        if k[0] != "ok" or repr(k[1]) != repr(X.NthPower(a, 3)):
            rep.violation(f"s **= 3 does not build NthPower(s, 3): {k!r}"[:300], {"operator": "**= 3"})


def _iop(a, k):
    s = a
    s **= k
    return s


def deep_operands(rep: Report) -> None:
    """operands nested a few hundred levels deep, under the interpreter's default recursion limit: wherever the named
    constructor builds the node, the operator must build it too (an operator that renders or walks its operand -
    for a message, a log line, a check - fails with RecursionError long before the constructor does)"""
    import inspect
    import sys
    x, y = X.Variable("x"), X.Variable("y")
    for depth in (300, 420):
        deep = {"Minus": y, "Add": y, "Sine": y}
        for _ in range(depth):
            deep["Minus"] = X.Minus(deep["Minus"], X.Constant(1.0))
            deep["Add"] = X.Add(deep["Add"], X.Constant(1.0))
            deep["Sine"] = X.Sine(deep["Sine"])
        pairs = [("+", lambda a, b: a + b, lambda a, b: X.Add(a, b)), ("-", lambda a, b: a - b, X.Minus), ("*", lambda a, b: a * b, lambda a, b: X.Multiply(a, b)),
                 ("/", lambda a, b: a / b, X.Divide), ("**", lambda a, b: a ** b, X.Power), ("neg", lambda a, b: -b, lambda a, b: X.Negation(b)),
                 ("**3", lambda a, b: b ** 3, lambda a, b: X.NthPower(b, 3))]
        for name, d in deep.items():
            for sym, op, ctor in pairs:
                for side in ("right", "left"):
                    a, b = (x, d) if side == "right" else (d, x)
                    old = sys.getrecursionlimit()
                    try:
                        sys.setrecursionlimit(1000 + len(inspect.stack(0)))
                        by_ctor = call(lambda: ctor(a, b))
                        by_op = call(lambda: op(a, b))
                    finally:
                        sys.setrecursionlimit(old)
                    rep.evaluations += 1
                    rep.count("deep-operands", f"{sym}:{by_ctor[0]}/{by_op[0]}")
                    if by_ctor[0] == "ok" and by_op[0] != "ok":
                        rep.violation(f"the constructor builds the node but the operator {sym} raises {by_op[1]} for a {side} operand that is a {name} "
                                      f"chain nested {depth} deep", {"operator": sym, "chain": name, "depth": depth, "side": side})
                    elif by_ctor[0] == "ok" and not (wire.cls(by_op[1]) == wire.cls(by_ctor[1]) and wire.expr(by_op[1]) == wire.expr(by_ctor[1])):
                        rep.violation(f"operator {sym} on a deep operand does not build what the constructor builds", {"operator": sym, "chain": name, "depth": depth})


def run(rep: Report, rng, tier: str, known: dict, search: bool = False) -> None:
    if not search:
        deep_operands(rep)
    chains(rep, rng)
    augmented(rep, rng)
    check_cases(gen_cases(rng, tier), rep, known)


def evidence(rep: Report) -> None:
    write_evidence(
        rep,
        rule="cases = pairs of expressions (a, b); per pair the six operators against the constructors (==, identical repr, identical type) and the model, a ** k for 21 exponents (ints and integral floats >= 1 up to 2^40, zero, negative, non-integral, nan, inf, bool), and 16 foreign operands (numbers, containers, None, Fraction, Decimal, an object with catch-all reflected operators) on either side of each binary operator; non-trivial = at least 3 nodes in a and b together; distinct by (a, b); plus augmented assignment, operator chains, and every operator against its constructor on operands nested 300 and 420 deep under the default recursion limit",
        trusted=common.TRUSTED,
        assumptions=[],
    )
