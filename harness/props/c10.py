"""C10 — operations never change their operands.

Oracle on the implementation alone: along histories over pools with shared objects, after every
operation every pooled expression, every point, every persistent derivative object and every
expression previously handed to the caller still has the structure (incl. object sharing), printed
form, equality class and values it had when it was built.  The model side (Properties/C10.lean) is
the frame theorem: model operations touch nothing but memo fields."""
from __future__ import annotations

from .. import wire, gen, common, histories as H
from ..core import call, sm, X, Report, write_evidence
from smoothmath import Point
import smoothmath._private.utilities as util

PID = "C10"


def gen_cases(rng, tier: str) -> list[dict]:
    cases = []
    for h in range(common.sizes(tier, 40, 400)):
        pool = H.float_pool(H.make_pool(rng, 2 + h % 3, 2 + h % 3))
        texts = H.pool_to_wire(pool)
        L = (6 + h % 7) if tier == "quick" else (10 + h % 31)
        ops = H.random_ops(rng, pool, L)
        if h % 4 == 0:
            ops = rng.choice(H.directed_prefixes(rng, pool)) + ops
        cases.append({"origin": "random" if h % 4 else "directed", "pool": texts, "ops": ops})
        if h % 2 == 0:
            pool2 = H.sum_pool(rng) if h % 4 == 0 else pool
            cases.append({"origin": "resimplify", "pool": H.pool_to_wire(pool2),
                          "ops": H.repeated_simplification(rng, pool2)})
    return cases


def snapshot_expr(e, p0: Point) -> tuple:
    ids: dict = {}
    return (wire.expr(e, ids=ids), repr(e), str(e), call(e.at, p0), hash(e))


def check_cases(cases: list[dict], rep: Report, known: dict) -> None:
    for c in cases:
        pool = H.build_pool(c["pool"])
        names = sorted(set().union(*(e._variable_names for e in pool))) or ["x"]
        p0 = Point(**{n: 1.25 + 0.5 * i for i, n in enumerate(names)})
        snaps = [snapshot_expr(e, p0) for e in pool]
        copies = H.build_pool(c["pool"])
        hist = H.Runner(pool)
        returned: list[tuple] = []          # (expression, snapshot) handed to the caller
        points: dict[str, tuple] = {}
        rep.case((tuple(c["pool"]), str(c["ops"])), len(c["ops"]) >= 3)
        rep.count("origin", c["origin"])
        done = []
        ok = True
        for k, op in enumerate(c["ops"]):
            rep.evaluations += 1
            rep.count("ops", op["op"])
            with common.WarnCatcher():
                got = hist.do(op)
            done.append(op)
            if got[0] == "ok" and wire.cls(got[1]) in wire.HEAD:
                returned.append((got[1], snapshot_expr(got[1], p0)))
            info = {"origin": c["origin"], "pool": c["pool"], "ops": done[:], "after_op": k}
            for i, e in enumerate(pool):
                now = snapshot_expr(e, p0)
                if now != snaps[i]:
                    what = [n for n, a, b in zip(("structure/sharing", "repr", "str", "value", "hash"), snaps[i], now) if a != b]
                    rep.violation(f"pool expression {i} changed ({', '.join(what)}) after operation {k} ({op['op']}): "
                                  f"{snaps[i][1][:200]} -> {now[1][:200]}", info)
                    ok = False
                elif not (e == copies[i]) or e != copies[i]:
                    rep.violation(f"pool expression {i} no longer equals a freshly built copy after operation {k} ({op['op']})", info)
                    ok = False
            for r, snap in returned:
                if snapshot_expr(r, p0) != snap:
                    rep.violation(f"an expression returned earlier changed after operation {k} ({op['op']}): {snap[1][:200]}", info)
                    ok = False
            for j, P in hist.pobjs.items():
                i, x = hist.pobj_src[j]
                if not (P == sm.Partial(copies[i], x)) or repr(P) != repr(sm.Partial(copies[i], x)):
                    rep.violation(f"persistent Partial {j} changed after operation {k} ({op['op']})", info)
                    ok = False
            if not ok:
                break
        if ok:
            rep.corr_checked += 1
            rep.sample({"pool": [t[:100] for t in c["pool"]], "ops": [o["op"] for o in c["ops"]], "returned_expressions": len(returned)})
    helpers(rep)


def helpers(rep: Report) -> None:
    """copy-on-write list helpers and Point's own dictionary"""
    xs = [1, 2, 3]
    for i in range(-5, 6):
        a = util.list_without_entry_at(xs, i)
        b = util.list_with_updated_entry_at(xs, i, 9)
        rep.evaluations += 2
        if xs != [1, 2, 3] or a is xs or b is xs:
            rep.violation(f"list helper edits or aliases its argument at index {i}", {"index": i})
    hits, misses = util.partition_by_predicate(xs, lambda v: v > 1)
    if xs != [1, 2, 3] or hits is xs or misses is xs:
        rep.violation("partition_by_predicate edits or aliases its argument", {})
    d = {"x": 1.0, "y": 2.0}
    p = Point(**d)
    d["x"] = 5.0
    d["z"] = 1.0
    if p != Point(x=1.0, y=2.0) or repr(p) != "Point(x=1.0, y=2.0)":
        rep.violation("Point shares the caller's dictionary", {})
    e = X.Add(X.Variable("x"), X.Variable("y"))
    args = [X.Variable("a"), X.Variable("b")]
    s = X.Add(*args)
    args.append(X.Variable("c"))
    if len(s._inners) != 2:
        rep.violation("n-ary node aliases the caller's argument list", {})
    before = repr(e)
    call(e.at, p)
    if repr(p) != "Point(x=1.0, y=2.0)" or repr(e) != before:
        rep.violation("evaluation changed the point or the expression", {})


def run(rep: Report, rng, tier: str, known: dict, search: bool = False) -> None:
    check_cases(gen_cases(rng, tier), rep, known)


def evidence(rep: Report) -> None:
    write_evidence(
        rep,
        rule="cases = the C09 history generator (pools with shared objects, 6-12 / 10-40 operations incl. simplification and failing calls); after every operation every pool expression is compared with its initial snapshot (wire form with object identities, repr, str, value at a reference point, hash) and with a freshly built copy (== and !=), every expression returned so far with its snapshot, every persistent Partial with a fresh one; plus the copy-on-write list helpers at all indices -5..5 and Point's dictionary; non-trivial = at least 3 operations; distinct by (pool, ops)",
        trusted=common.TRUSTED,
        assumptions=["in-place mutation and aliasing are Python-level phenomena: the frame theorem of the model carries the logic (operations are functions of the tree and touch only memo fields), the snapshot oracle on the implementation is the decisive part"],
    )
