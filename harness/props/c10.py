"""C10 — operations never change their operands.

Oracle on the implementation alone: along histories over pools with shared objects, after every
operation every pooled expression, every point, every persistent derivative object and every
expression previously handed to the caller still has the structure (incl. object sharing), printed
form, equality class and values it had when it was built.  The model side (Properties/C10.lean) is
the frame theorem: model operations touch nothing but memo fields."""
from __future__ import annotations

from .. import wire, gen, common, histories as H
from ..core import call, sm, X, Report, write_evidence
from smoothmath import Point
import smoothmath._private.utilities as util

PID = "C10"


def gen_cases(rng, tier: str) -> list[dict]:
    cases = []
    for h in range(common.sizes(tier, 40, 400)):
        pool = H.float_pool(H.make_pool(rng, 2 + h % 3, 2 + h % 3))
        texts = H.pool_to_wire(pool)
        L = (6 + h % 7) if tier == "quick" else (10 + h % 31)
        ops = H.random_ops(rng, pool, L)
        if h % 4 == 0:
            ops = rng.choice(H.directed_prefixes(rng, pool)) + ops
        cases.append({"origin": "random" if h % 4 else "directed", "pool": texts, "ops": ops})
        if h % 4 == 2:
            pool6 = H.float_pool(H.wide_pool(rng))
            cases.append({"origin": "wide", "pool": H.pool_to_wire(pool6), "ops": H.repeated_simplification(rng, pool6)[: 12]})
        if h % 5 == 1:
            # sums and products of equal but distinct operand objects, used at several points
            g = gen.Gen(rng, names=("x", "y"), floats_only=True)
            tw = [t for _, t in gen.twin_patterns(g)]
            pool3 = H.float_pool(rng.sample(tw, min(3, len(tw))))
            cases.append({"origin": "twins", "pool": H.pool_to_wire(pool3), "ops": H.random_ops(rng, pool3, L)})
        if h % 8 == 5:
            pool8, ops8 = H.long_lived(rng, 260 if tier == "quick" else 2200)
            cases.append({"origin": "long-lived", "pool": H.pool_to_wire(pool8), "ops": ops8})
        if h % 4 == 1:
            pool7 = H.float_pool(H.nested_pool(rng))
            for ops in H.sharing_prefixes(rng, pool7):
                cases.append({"origin": "sharing", "pool": H.pool_to_wire(pool7), "ops": ops + H.random_ops(rng, pool7, 2)})
        if h % 2 == 0:
            pool2 = H.sum_pool(rng) if h % 4 == 0 else pool
            cases.append({"origin": "resimplify", "pool": H.pool_to_wire(pool2),
                          "ops": H.repeated_simplification(rng, pool2)})
    return cases


def node_vars(e) -> tuple:
    """the variable-name set every node (object) reports, in tree order - what decides whether a bare
    number / Derivative is accepted for it"""
    out = [tuple(sorted(e._variable_names))]
    for c in wire.children(e):
        out.extend(node_vars(c))
    return tuple(out)


def snapshot_expr(e, p0: Point) -> tuple:
    """everything observable about an expression; the value is taken at p0 after an evaluation at a
    different point, so that whatever an operation left on the objects (memos included) would show"""
    ids: dict = {}
    bare = call(e.at, 1.25)
    other = call(e.at, Point(**{k: v + 0.375 for k, v in wire.coords(p0).items() if v is not None}))
    return (wire.expr(e, ids=ids), repr(e), str(e), (call(e.at, p0), other), hash(e), node_vars(e),
            bare if bare[0] == "ok" else bare[1])


def check_cases(cases: list[dict], rep: Report, known: dict) -> None:
    for c in cases:
        if rep.stop():
            break
        pool = H.build_pool(c["pool"])
        names = sorted(set().union(*(e._variable_names for e in pool))) or ["x"]
        p0 = Point(**{n: 1.25 + 0.5 * i for i, n in enumerate(names)})
        snaps = [snapshot_expr(e, p0) for e in pool]
        copies = H.build_pool(c["pool"])
        hist = H.Runner(pool)
        returned: list[tuple] = []          # (expression, snapshot) handed to the caller
        points: dict[str, tuple] = {}
        probed: dict[int, str] = {}
        ld_made: dict[int, object] = {}
        ld_snaps: dict[int, tuple] = {}
        rep.case((tuple(c["pool"]), str(c["ops"])), len(c["ops"]) >= 3)
        rep.count("origin", c["origin"])
        done = []
        ok = True
        for k, op in enumerate(c["ops"]):
            rep.evaluations += 1
            rep.count("ops", op["op"])
            with common.WarnCatcher():
                got = hist.do(op)
            done.append(op)
            if hist.last_point is not None:
                # the Point handed to the operation is an operand too (also when the operation failed)
                pt, ptxt = hist.last_point
                twin = wire.build_point(ptxt)
                same = call(lambda: (pt == twin, repr(pt) == repr(twin), hash(pt) == hash(twin), len(wire.coords(pt)) == len(wire.coords(twin))))
                if same != ("ok", (True, True, True, True)):
                    rep.violation(f"the Point passed to operation {k} ({op['op']}) was changed by it: now {pt!r}, written as {twin!r}",
                                  {"origin": c["origin"], "pool": c["pool"], "ops": done[:], "after_op": k})
                    ok = False
                    break
            if got[0] == "ok" and wire.cls(got[1]) in wire.HEAD:
                returned.append((got[1], snapshot_expr(got[1], p0)))
            info = {"origin": c["origin"], "pool": c["pool"], "ops": done[:], "after_op": k}
            while len(snaps) < len(pool):          # a member composed from a returned expression joined the pool
                snaps.append(snapshot_expr(pool[len(snaps)], p0))
                copies = H.build_pool(c["pool"] + hist.extra_texts)
            for i, e in enumerate(pool):
                now = snapshot_expr(e, p0)
                if now != snaps[i]:
                    what = [n for n, a, b in zip(("structure/sharing", "repr", "str", "value", "hash", "variable sets", "at(number)"), snaps[i], now) if a != b]
                    rep.violation(f"pool expression {i} changed ({', '.join(what)}) after operation {k} ({op['op']}): "
                                  f"{snaps[i][1][:200]} -> {now[1][:200]}", info)
                    ok = False
                elif not (e == copies[i]) or e != copies[i]:
                    rep.violation(f"pool expression {i} no longer equals a freshly built copy after operation {k} ({op['op']})", info)
                    ok = False
            # ... and still denotes what a never-used copy denotes (first evaluation of a fresh build)
            fresh_pool = H.build_pool(c["pool"] + hist.extra_texts)
            for i, e in enumerate(pool):
                used, fresh = call(e.at, p0), call(fresh_pool[i].at, p0)
                if not H.same_result(used, fresh) and "timeout" not in (used[1], fresh[1]):
                    rep.violation(f"pool expression {i} evaluates to {used!r} after operation {k} ({op['op']}) but a never-used copy to {fresh!r}", info)
                    ok = False
            for r, snap in returned:
                if snapshot_expr(r, p0) != snap:
                    rep.violation(f"an expression returned earlier changed after operation {k} ({op['op']}): {snap[1][:200]}", info)
                    ok = False
            # located differentials the caller kept: what they report is fixed when they are handed out
            for kk, L in list(hist.lds.items()):
                now = call(lambda: (repr(L), str(L), tuple(L.component(v) for v in names + ["w"])))
                if ld_made.get(kk) is not L:
                    ld_made[kk], ld_snaps[kk] = L, now
                elif now != ld_snaps[kk]:
                    rep.violation(f"a LocatedDifferential handed out earlier reports something else after operation {k} ({op['op']}): "
                                  f"{ld_snaps[kk]!r} -> {now!r}"[:600], info)
                    ok = False
            for j, P in hist.pobjs.items():
                i, x, kind = hist.pobj_src[j]
                twin = H.make_obj(kind[0], copies[i], x)
                if not (P == twin) or repr(P) != repr(twin):
                    rep.violation(f"persistent {type(P).__name__} {j} changed after operation {k} ({op['op']})", info)
                    ok = False
            # ... and the derivative objects the caller kept evaluate like freshly built ones, at the caller's own
            # Point objects (the identical objects earlier operations saw)
            if ok and hist.pobjs and hist.points and k % 2 == 0:
                texts = c["pool"] + hist.extra_texts
                kept = sorted(hist.points.items())
                for j in sorted(hist.pobjs):
                    i, x, kind = hist.pobj_src[j]
                    # the point this object was asked at last time (the state the previous probe left is the one a
                    # later operation on a sharing expression must not disturb), and one that rotates
                    for ptxt in dict.fromkeys([probed.get(j, kept[0][0]), kept[(j + k) % len(kept)][0]]):
                        probe = {"op": "pobj_at", "j": j, "i": i, "p": ptxt, "x": x, "style": (j + k) % 3}
                        with common.WarnCatcher() as wc:
                            used = hist.do(dict(probe, same=True))
                            fresh = H.fresh_result(texts, probe, hist.pobj_src[j], hist.pobj_expr_called.get(j, False))
                        probed[j] = ptxt
                        rep.evaluations += 1
                        if wc.count:
                            rep.skip("budget-warning")     # K4 territory (C09 reports it): which partially reduced form is reached depends on flags
                            continue
                        if not H.same_result(used, fresh) and "timeout" not in (used[1], fresh[1]):
                            rep.violation(f"persistent {type(hist.pobjs[j]).__name__} {j} ({kind}) evaluates to {used!r} at {ptxt} after operation {k} "
                                          f"({op['op']}) but a freshly built one to {fresh!r}", dict(info, probe=probe))
                            ok = False
            if not ok:
                break
        if ok:
            rep.corr_checked += 1
            rep.sample({"pool": [t[:100] for t in c["pool"]], "ops": [o["op"] for o in c["ops"]], "returned_expressions": len(returned)})
    helpers(rep)


def construction_keeps_operands(rep: Report) -> None:
    """building a new expression (by constructor or operator - the library itself does this all the
    time while differentiating and rewriting) leaves the operand objects as they were"""
    p0 = Point(x=1.5, y=2.5, z=0.75)
    mk = {
        "Add": lambda a, b: X.Add(a, b), "Multiply": lambda a, b: X.Multiply(a, b), "Add3": lambda a, b: X.Add(b, a, b),
        "Minus": X.Minus, "Divide": X.Divide, "Power": X.Power, "+": lambda a, b: a + b, "-": lambda a, b: a - b,
        "*": lambda a, b: a * b, "/": lambda a, b: a / b, "**": lambda a, b: a ** b,
        "Negation": lambda a, b: X.Negation(a), "NthPower": lambda a, b: X.NthPower(a, 3), "**3": lambda a, b: a ** 3,
        "Logarithm": lambda a, b: X.Logarithm(a, base=2), "Exponential": lambda a, b: X.Exponential(a),
        "Partial": lambda a, b: sm.Partial(X.Power(a, b), "y").as_expression(),
        "Differential": lambda a, b: sm.Differential(X.Divide(a, b), compute_early=True),
        "Located": lambda a, b: sm.LocatedDifferential(X.Minus(a, b), p0),
    }
    operands = [
        lambda: (X.Variable("x"), X.Variable("y")),
        lambda: (X.Sine(X.Variable("x")), X.Multiply(X.Variable("y"), X.Variable("z"))),
        lambda: (X.Exponential(X.Constant(0.0)), X.Variable("y")),
        lambda: (X.Add(X.NthPower(X.Variable("x"), 2), X.Constant(1.0)), X.Reciprocal(X.Variable("z"))),
    ]
    for name, f in mk.items():
        for ops in operands:
            a, b = ops()
            before = (snapshot_expr(a, p0), snapshot_expr(b, p0))
            inner_before = [snapshot_expr(c, p0) for c in wire.children(a)]
            made = call(lambda: f(a, b), timeout=20)
            rep.evaluations += 1
            if made[0] != "ok":
                rep.violation(f"constructing {name} raised {made[1]}", {"constructor": name})
                continue
            after = (snapshot_expr(a, p0), snapshot_expr(b, p0))
            inner_after = [snapshot_expr(c, p0) for c in wire.children(a)]
            if before != after or inner_before != inner_after:
                which = [n for n, x_, y_ in zip(("structure/sharing", "repr", "str", "value", "hash", "variable sets", "at(number)") * 2,
                                                before[0] + before[1], after[0] + after[1]) if x_ != y_]
                rep.violation(f"building {name}(a, b) changed an operand ({', '.join(which) or 'inner operand'}): a = {before[0][1][:120]}",
                              {"constructor": name, "a": before[0][0], "b": before[1][0]})


def helpers(rep: Report) -> None:
    """copy-on-write list helpers and Point's own dictionary"""
    construction_keeps_operands(rep)
    xs = [1, 2, 3]
    for i in range(-5, 6):
        a = util.list_without_entry_at(xs, i)
        b = util.list_with_updated_entry_at(xs, i, 9)
        rep.evaluations += 2
        if xs != [1, 2, 3] or a is xs or b is xs:
            rep.violation(f"list helper edits or aliases its argument at index {i}", {"index": i})
    hits, misses = util.partition_by_predicate(xs, lambda v: v > 1)
    if xs != [1, 2, 3] or hits is xs or misses is xs:
        rep.violation("partition_by_predicate edits or aliases its argument", {})
    d = {"x": 1.0, "y": 2.0}
    p = Point(**d)
    d["x"] = 5.0
    d["z"] = 1.0
    if p != Point(x=1.0, y=2.0) or repr(p) != "Point(x=1.0, y=2.0)":
        rep.violation("Point shares the caller's dictionary", {})
    e = X.Add(X.Variable("x"), X.Variable("y"))
    args = [X.Variable("a"), X.Variable("b")]
    s = X.Add(*args)
    args.append(X.Variable("c"))
    if len(s._inners) != 2:
        rep.violation("n-ary node aliases the caller's argument list", {})
    before = repr(e)
    call(e.at, p)
    if repr(p) != "Point(x=1.0, y=2.0)" or repr(e) != before:
        rep.violation("evaluation changed the point or the expression", {})


def after_failed_operations(rep: Report) -> None:
    """operations that die half-way (RecursionError on an expression too tall for the interpreter's default limit)
    must leave their operands as they were: structure, printed form, hash and value are compared with what they
    were before, once the limit is raised again"""
    import inspect
    import sys
    x, y = X.Variable("x"), X.Variable("y")
    horner, minus, sine, mixed = y, x, x, x
    for k in range(600):
        horner = X.Add(X.Multiply(horner, x), X.Constant(float(k % 5)))
        minus = X.Minus(minus, X.Constant(0.001))
        sine = X.Sine(sine)
        mixed = X.Multiply(X.Add(mixed, y), X.Constant(1.0 + 1.0 / (k + 2))) if k % 2 else X.Divide(mixed, X.Constant(1.0 + 1.0 / (k + 2)))
    p0 = Point(x=0.5, y=0.25)
    objs = {"Horner polynomial of degree 600": horner, "Minus chain": minus, "Sine chain": sine, "mixed chain": mixed}

    def snap(e):
        return (wire.expr(e, ids={}), call(e.at, p0), call(lambda: hash(e)), call(lambda: len(repr(e))))
    before = {n: snap(e) for n, e in objs.items()}
    ops = [("at", lambda e: e.at(p0)), ("Partial.at", lambda e: sm.Partial(e, "x").at(p0)), ("Partial early", lambda e: sm.Partial(e, "x", compute_early=True)),
           ("Differential early", lambda e: sm.Differential(e, compute_early=True)), ("Differential.at", lambda e: sm.Differential(e).at(p0)),
           ("LocatedDifferential", lambda e: sm.LocatedDifferential(e, p0)), ("as_expression", lambda e: sm.Partial(e, "y").as_expression()),
           ("repr", repr), ("==", lambda e: e == e), ("hash", hash), ("_normalize", lambda e: e._normalize())]
    old = sys.getrecursionlimit()
    outcome = {}
    try:
        for n, e in objs.items():
            for label, op in ops:
                if n == "Sine chain" and label in ("Partial early", "Differential early", "as_expression", "_normalize"):
                    continue        # simplifying the derivative of a 600-fold sine takes half a minute and fails nowhere
                # from two stack depths: where exactly the interpreter gives up decides which statement is interrupted
                for extra in (0, 37):
                    sys.setrecursionlimit(1000 + len(inspect.stack(0)) - extra)
                    with common.WarnCatcher():
                        r = call(lambda: op(e), timeout=60)
                    sys.setrecursionlimit(old)
                    outcome[r[0] if r[0] == "ok" else r[1]] = outcome.get(r[0] if r[0] == "ok" else r[1], 0) + 1
                    rep.evaluations += 1
                    now = snap(e)
                    if now != before[n]:
                        what = [w for w, a, b in zip(("structure", "value", "hash", "length of repr"), before[n], now) if a != b]
                        rep.violation(f"after {label} failed ({r!r}) on a {n}, the expression itself has changed ({', '.join(what)}): "
                                      f"value {before[n][1]!r} -> {now[1]!r}", {"object": n, "operation": label, "stack_offset": extra})
                        return
    finally:
        sys.setrecursionlimit(old)
    rep.hist["operations-under-default-recursion-limit"] = outcome


def run(rep: Report, rng, tier: str, known: dict, search: bool = False) -> None:
    if not search:
        after_failed_operations(rep)
    check_cases(gen_cases(rng, tier), rep, known)


def evidence(rep: Report) -> None:
    write_evidence(
        rep,
        rule="cases = the C09 history generator (pools with shared objects, 6-12 / 10-40 operations incl. simplification and failing calls); after every operation every pool expression is compared with its initial snapshot (wire form with object identities, repr, str, value at a reference point, hash) and with a freshly built copy (== and !=), every expression returned so far with its snapshot, every persistent Partial with a fresh one; plus the copy-on-write list helpers at all indices -5..5 and Point's dictionary; non-trivial = at least 3 operations; distinct by (pool, ops); plus kept derivative objects probed at the caller's kept Point objects against freshly built ones, snapshots of every LocatedDifferential handed out, long-lived objects, the Point passed to each operation, and eleven operations that fail with RecursionError on four 600-deep chains under the default recursion limit (the operands must be unchanged afterwards)",
        trusted=common.TRUSTED,
        assumptions=["in-place mutation and aliasing are Python-level phenomena: the frame theorem of the model carries the logic (operations are functions of the tree and touch only memo fields), the snapshot oracle on the implementation is the decisive part"],
    )
