"""C04 — reverse mode gives the true partials for every variable at once.

Oracle: the model's reverse mode (`revG` / `numericPartials`), proved to accumulate
multiplier x true partial for every variable (Properties/C04.lean).  DAG inputs are rebuilt with
real object sharing on the Python side."""
from __future__ import annotations

from .. import wire, gen, common
from ..core import call, sm, X, Report, write_evidence
from ..engine import NumCase, judge_numeric

PID = "C04"


def repeated_var_exprs(g: gen.Gen) -> list:
    """variables occurring several times, through different arguments and through shared objects"""
    x, y = X.Variable("x"), X.Variable("y")
    s = g.expr(2)
    t = X.Multiply(x, s)
    return [
        X.Multiply(x, x, x), X.Multiply(x, y, x, X.Constant(0)), X.Multiply(x, X.Constant(0), y, s),
        X.Add(s, s, X.Multiply(s, s)), X.Divide(t, X.Add(t, X.Constant(5))), X.Power(X.Add(x, X.Constant(3)), s),
        X.Multiply(X.Divide(x, y), X.Divide(y, x), s), X.Minus(X.Multiply(t, t), t),
        X.NthRoot(X.Multiply(s, s, X.Add(x, y)), 3), X.Multiply(X.Sine(x), X.Cosine(x), X.Exponential(x), x),
    ]


def gen_cases(rng, tier: str) -> list[dict]:
    cases = []
    exprs = []
    for _ in range(common.sizes(tier, 8, 60)):
        g = gen.Gen(rng, names=("x", "y", "z"), share=0.4)
        exprs += [("repeated", e) for e in repeated_var_exprs(g)]
    exprs += common.expr_stream(rng, tier, common.sizes(tier, 300, 4000), share=0.5)
    for origin, e in exprs:
        prior: list[str] = []
        pts = common.points_for(rng, e, 2, extra=0.2)
        if rng.random() < 0.3 and pts[0]:
            # two points that differ in one coordinate only, in a way hash() cannot see (-1 / -2)
            pts = list(common.hash_twin(pts[0], rng))
        keep = rng.random() < 0.5
        for p in pts:
            c = common.make_eval_case(origin, e, p)
            c["prior"] = prior[:]
            prior.append(c["p"])
            c["route"] = rng.choice(["LD", "FATL"])
            c["keep"] = keep            # one Differential object, asked at the earlier points first
            cases.append(c)
    for origin, pairs in (("compensating-magnitudes", common.compensating_products(rng, common.sizes(tier, 150, 1500))),
                          ("vanishing-factor", common.vanishing_products(rng, common.sizes(tier, 150, 1500))),
                          ("near-special", common.near_special(rng, common.sizes(tier, 150, 1500))),
                          ("tiny-powers", common.tiny_powers(rng, common.sizes(tier, 120, 1200)))):
        for e, pt in pairs:
            c = common.make_eval_case(origin, e, pt)
            c["prior"] = []
            c["route"] = rng.choice(["LD", "FATL"])
            cases.append(c)
    return cases


def check_cases(cases: list[dict], rep: Report, known: dict) -> None:
    ncs = []
    for c in cases:
        if rep.stop():
            break
        e = wire.build_raw(c["e"])
        p = wire.build_point(c["p"])
        for q in c.get("prior", []):
            call(lambda: sm.LocatedDifferential(e, wire.build_point(q)))
            call(e.at, wire.build_point(q))
        if c["route"] == "LD":
            obj = call(lambda: sm.LocatedDifferential(e, p))
        elif c.get("keep") and c.get("prior"):
            kept = call(lambda: sm.Differential(e))
            for q in c["prior"]:
                if kept[0] == "ok":
                    call(lambda: kept[1].at(wire.build_point(q)))
            obj = call(lambda: kept[1].at(p)) if kept[0] == "ok" else kept
        else:
            obj = call(lambda: sm.Differential(e).at(p))
        vs = common.names_of(e) + ["w"]
        shared = len(set(t for t in c["e"].split(" ") if "@" in t)) < sum(1 for t in c["e"].split(" ") if "@" in t)
        for v in vs:
            if obj[0] == "ok":
                impl = call(lambda: obj[1].component(wire.fresh_str(v) if len(v) % 2 else X.Variable(wire.fresh_str(v))))
            else:
                impl = obj
            info = dict(c, x=v, impl=repr(impl), shared=shared)
            nc = NumCase((c["e"], c["p"], v, c["route"]), f"route {c['route']} {v} {c['e']} {c['p']}", impl, info)
            nc.info["_e"] = e
            ncs.append(nc)
    judge_numeric(ncs, rep)
    for nc in ncs:
        e = nc.info.pop("_e")
        info = nc.info
        model_ok = info["model_F0"].startswith("ok")
        occurs = info["x"] in e._variable_names
        rep.case(nc.key, model_ok and occurs and wire.size(e) >= 3)
        rep.count("origin", info["origin"].split(":")[0])
        rep.count("route", info["route"])
        rep.count("sharing", "dag" if info["shared"] else "tree")
        rep.count("variables", str(len(e._variable_names)))
        if nc.verdict.startswith("skip"):
            rep.skip(nc.verdict[5:])
            continue
        if not model_ok:
            if nc.verdict == "mismatch":
                rep.corr_break(f"outcome outside the domain differs (C07's statement): {nc.detail}", info)
            continue
        rep.corr_checked += 1
        if nc.verdict == "mismatch":
            rep.violation(f"reverse-mode component is not the true partial derivative: {nc.detail}", info)
            continue
        if not occurs and nc.impl[0] == "ok" and nc.impl[1] != 0:
            rep.violation(f"component of an absent variable is {nc.impl[1]!r}, not 0", info)
        rep.sample({"e": info["e"], "x": info["x"], "p": info["p"], "route": info["route"], "impl": info["impl"], "model": info["model_F0"]})


def run(rep: Report, rng, tier: str, known: dict, search: bool = False) -> None:
    check_cases(gen_cases(rng, tier), rep, known)


def evidence(rep: Report) -> None:
    write_evidence(
        rep,
        rule="cases = (expression DAG, point, route, queried variable) with route in {LocatedDifferential(e,p), Differential(e).at(p)}; every variable of e plus an absent one is queried (as name or Variable object); expressions: hand-built families with repeated variables, zero factors in 3+-factor products, nested quotients/powers and shared objects, plus rule-directed and random streams with 50% object sharing; non-trivial = in the domain, variable occurs, >= 3 nodes; distinct by (wire, point, variable, route); plus one kept Differential per expression asked at earlier points first (half of the cases), point pairs that are hash twins (-1 / -2), near-special, compensating, vanishing-factor and subnormal-power families",
        trusted=common.TRUSTED,
        assumptions=[common.ASSUME_RANGE],
    )
