"""C07 — derivative queries fail exactly where the expression itself is undefined.

Oracle on the implementation alone: for a point that supplies all variables, every numeric
derivative route raises DomainError iff `Expression.at` does.  Tie: each route's outcome against
the model's (Properties/C07.lean proves the iff for the model's routes)."""
from __future__ import annotations

from .. import wire, gen, common, routes
from ..core import call, sm, X, Report, write_evidence, Batch
from ..engine import NumCase, judge_numeric
from . import c02

PID = "C07"


def skipping_parents(g: gen.Gen, bad) -> list:
    """places where a differentiation rule could skip an undefined operand"""
    zero = X.Constant(g.rng.choice([0, 0.0]))
    one = X.Constant(g.rng.choice([1, 1.0]))
    x = X.Variable("x")
    return [
        X.Power(one, bad), X.Power(X.Add(one), bad), X.Power(X.Cosine(zero), bad),
        X.Power(X.NthPower(one, 3), X.Add(bad, x)),
        X.Multiply(zero, bad), X.Multiply(x, zero, bad), X.Multiply(bad, x, zero),
        X.Divide(zero, bad), X.Divide(zero, X.Add(bad, x)),
        X.Exponential(bad, base=1), X.NthPower(bad, 1), X.NthRoot(bad, 1),
        X.Add(x, X.Multiply(zero, bad)), X.Minus(x, X.Multiply(bad, zero)),
        X.Multiply(X.Minus(x, x), bad), X.Power(X.Add(x, one), X.Multiply(zero, bad)),
        bad,
    ]


def variable_free_offenders(g: gen.Gen) -> list:
    c = lambda v: X.Constant(v)  # noqa: E731
    return [X.Reciprocal(c(0)), X.Logarithm(c(-1)), X.NthRoot(c(-4), 2), X.Divide(c(1), X.Minus(c(2), c(2))),
            X.Power(c(-2), c(0.5)), X.NthRoot(c(0), 3), X.Logarithm(X.Sine(c(0)), base=2)]


def gen_cases(rng, tier: str) -> list[dict]:
    exprs = []
    for _ in range(common.sizes(tier, 3, 25)):
        g = gen.Gen(rng, names=("x", "y"))
        for bad in c02.offenders(g) + variable_free_offenders(g):
            exprs += [("skippable", e) for e in skipping_parents(g, bad)]
    exprs += common.expr_stream(rng, tier, common.sizes(tier, 80, 1500), depth_q=3, depth_t=5, names=("x", "y"))
    cases = []
    for origin, e in exprs:
        if wire.size(e) > 150:
            continue            # thirteen routes per case: very large inputs are exercised by C01-C05, C08
        vs = common.names_of(e)
        prior = None
        for p in common.points_for(rng, e, 2):
            c = common.make_eval_case(origin, e, p)
            c["x"] = rng.choice(vs) if vs and rng.random() < 0.85 else "w"
            c["prior"] = prior
            prior = c["p"]
            r = rng.random()
            if r < 0.3:
                c["warm"] = [c["p"], c["p"]]          # the route's own object asked at this very point before (twice)
            elif r < 0.5 and prior:
                c["warm"] = [c["prior"] or c["p"], c["p"]]
            elif r < 0.7 and c["prior"]:
                # asked here, the expression's nodes visited at another point by someone else, asked here again (an
                # equal point, not the same object)
                c["warm"] = [c["p"], "@" + c["prior"]]
            cases.append(c)
    # products evaluated where a factor vanishes: the expression is defined there (value 0), so every route must answer
    for e, pt in common.vanishing_products(rng, common.sizes(tier, 60, 800)):
        c = common.make_eval_case("vanishing-factor", e, pt)
        c.update(x=rng.choice(common.names_of(e)), prior=None)
        cases.append(c)
    # even powers (and squares written as products) of operands that can be negative, under nodes that need a positive
    # operand: the expression is defined where the operand is negative, so every route - the simplifying ones included -
    # must answer there (a rewrite that pulls the even exponent out of a logarithm or a root narrows the domain)
    X, V = gen.X, gen.X.Variable
    x, y = V("x"), V("y")
    for W in (x, X.NthRoot(x, 3), X.NthRoot(x, 5), X.Sine(x), X.Negation(x), X.Minus(x, X.Constant(1)), X.NthPower(x, 3),
              X.Multiply(x, X.Exponential(x)), X.NthRoot(X.Minus(x, X.Constant(1)), 3)):
        for n in (2, 4, 6):
            sq = [X.NthPower(W, n)] + ([X.Multiply(W, W)] if n == 2 else [])
            for s_ in sq:
                for outer in (X.Logarithm(s_), X.Logarithm(s_, base=2), X.NthRoot(s_, 3), X.Power(s_, y), X.Divide(y, s_),
                              X.NthRoot(X.Add(s_, X.Constant(1)), 2), X.Logarithm(X.Exponential(s_))):
                    for e in (outer, X.Multiply(outer, y), X.Add(y, outer)):
                        for xv in (-8.0, -0.5):
                            c = common.make_eval_case("even-power-of-negative", e, {"x": xv, "y": 1.5})
                            c.update(x=rng.choice(["x", "y"]), prior=None)
                            cases.append(c)
    return cases


def check_cases(cases: list[dict], rep: Report, known: dict) -> None:
    ncs = []
    groups = []
    for c in cases:
        if rep.stop():
            break
        e = wire.build_raw(c["e"])
        p = wire.build_point(c["p"])
        base = call(e.at, p)
        group = []
        for r in routes.routes_for(e, c["x"]):
            obj = wire.build_raw(c["e"])
            if c.get("prior"):          # the same expression object was evaluated before, elsewhere
                call(obj.at, wire.build_point(c["prior"]))
            impl = routes.run_route(r, obj, c["x"] if r not in routes.DERIV_ROUTES else None, p,
                                    warm=[("elsewhere", wire.build_point(q[1:])) if q.startswith("@") else wire.build_point(q) for q in c.get("warm", [])])
            xr = c["x"] if r not in routes.DERIV_ROUTES else (common.names_of(e) or ["whatever"])[0]
            nc = NumCase((c["e"], c["p"], c["x"], r), f"route {r} {xr} {c['e']} {c['p']}", impl,
                         dict(c, route=r, impl=repr(impl), at=repr(base)))
            ncs.append(nc)
            group.append(nc)
        groups.append((c, e, p, base, group))
    judge_numeric(ncs, rep)
    for c, e, p, base, group in groups:
        undefined = base == ("err", "domain")
        rep.case((c["e"], c["p"], c["x"]), common.tree_has(e, lambda n: wire.cls(n) in c02.CONSTRAINED))
        rep.count("origin", c["origin"].split(":")[0])
        rep.count("expression", "undefined" if undefined else base[0] if base[0] == "ok" else base[1])
        if base[0] == "err" and base[1] != "domain":
            rep.skip("at-" + base[1])
            continue
        for nc in group:
            r = nc.info["route"]
            impl = nc.impl
            if nc.verdict.startswith("skip") and nc.verdict != "skip:rounding-divergence":
                rep.skip(nc.verdict[5:])
                continue
            rep.corr_checked += 1
            raised = impl == ("err", "domain")
            if undefined and not raised:
                rep.violation(f"{r} returned {impl!r} at a point where the expression is undefined", nc.info)
            elif not undefined and raised:
                vb = Batch()
                ii = [vb.ask(f"F{k} " + nc.suffix) for k in (1, 2, 3)]
                vb.run()
                if any(vb[i].split(" ")[0] != nc.info["model_F0"].split(" ")[0] for i in ii):
                    # the derivative's own guard was decided on a value that rounding (e.g. the
                    # underflow of x*x) can flip: an intermediate left the double range
                    rep.skip("rounding-ambiguous")
                elif r in routes.EARLY and k1_explains(c, r, p):
                    rep.known("K1", "early route raises DomainError on a defined point: simplified derivative has a smaller domain after the even-root-of-even-power rewrite",
                              {"e": c["e"], "x": c["x"], "p": c["p"], "route": r})
                else:
                    rep.violation(f"{r} raised DomainError at a point where the expression is defined", nc.info)
            elif nc.verdict == "mismatch":
                rep.corr_break(f"route {r} differs from the model: {nc.detail}", nc.info)
        if undefined:
            rep.sample({"e": c["e"], "x": c["x"], "p": c["p"], "at": "DomainError",
                        "routes": {nc.info["route"]: nc.info["impl"] for nc in group}})


def k1_explains(c: dict, r: str, p) -> bool:
    with common.k1_disabled() as k1:
        out = routes.run_route(r, wire.build_raw(c["e"]), c["x"] if r not in routes.DERIV_ROUTES else None, p,
                               warm=[("elsewhere", wire.build_point(q[1:])) if q.startswith("@") else wire.build_point(q) for q in c.get("warm", [])])
    return out[0] == "ok" and k1.hits > 0


def corpus() -> list[dict]:
    x = X.Variable("x")
    e = X.Power(X.Constant(1), X.Reciprocal(x))                       # F2 (fixed): must raise on every route
    k1 = X.Multiply(x, X.NthRoot(X.NthPower(x, 6), 4))               # K1: early routes raise for x < 0
    return [
        {"origin": "corpus:F2", "e": wire.expr(e, ids={}), "x": "x", "p": wire.point({"x": 0})},
        {"origin": "corpus:K1", "e": wire.expr(k1, ids={}), "x": "x", "p": wire.point({"x": -2})},
    ]


def run(rep: Report, rng, tier: str, known: dict, search: bool = False) -> None:
    check_cases(([] if search else corpus()) + gen_cases(rng, tier), rep, known)


def evidence(rep: Report) -> None:
    write_evidence(
        rep,
        rule="cases = (expression, variable, point supplying all variables); every numeric route, early and late, is compared with Expression.at at the same point (DomainError iff DomainError) and with the model; expressions: every kind of undefined sub-tree (incl. variable-free ones) planted where a rule could skip it (exponent of a base that evaluates to one in 4 spellings, zero factor in any position, zero numerator, Exponential base 1, n = 1 powers/roots, x - x factor), plus rule-directed and random trees; non-trivial = contains a constrained node; distinct by (wire, point, variable); plus warm sequences (the route's own object asked before at this and at another point, the expression evaluated elsewhere in between), vanishing products",
        trusted=common.TRUSTED,
        assumptions=[common.ASSUME_RANGE, "K1 (recorded finding) reported as KNOWN-FINDING when its signature matches"],
    )
