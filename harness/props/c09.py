"""C09 — answers do not depend on what was computed before.

Oracle on the implementation alone: in a random or directed history over a pool with shared objects,
every operation returns exactly what the same operation returns on a freshly built copy.  Tie to
Model/Heap: before each numeric operation the actual contents of all `_value` memos are read off the
objects and handed to the model, whose entry points (proved independent of the initial memo
contents, Properties/C09.lean) must predict the implementation's result."""
from __future__ import annotations

from .. import pristine, wire, gen, common, histories as H
from ..core import call, sm, X, Report, write_evidence
from ..engine import NumCase, judge_numeric

PID = "C09"

HEAP_OPS = {"at": "at", "fail_missing": "at", "partial": "partial", "located": "nps1"}


def k4_history() -> dict:
    y = X.Variable("y")
    terms = [X.Negation(X.Negation(X.Variable("x"))) for i in range(340)]
    e = X.Multiply(y, X.Add(*terms))
    p = wire.point({"x": 2.0, "y": 3.0})
    return {"origin": "corpus:K4", "pool": H.pool_to_wire([e]),
            "ops": [{"op": "normalize", "i": 0, "x": "y", "p": p}, {"op": "normalize", "i": 0, "x": "y", "p": p},
                    {"op": "at", "i": 0, "x": "y", "p": p}]}


def gen_cases(rng, tier: str) -> list[dict]:
    cases = []
    nh = common.sizes(tier, 40, 400)
    for h in range(nh):
        pool = H.float_pool(H.make_pool(rng, 2 + h % 3, 2 + h % 3))
        texts = H.pool_to_wire(pool)
        L = (6 + h % 7) if tier == "quick" else (10 + h % 31)
        cases.append({"origin": "random", "pool": texts, "ops": H.random_ops(rng, pool, L)})
        if h % 4 == 0:
            for ops in H.directed_prefixes(rng, pool):
                cases.append({"origin": "directed", "pool": texts, "ops": ops + H.random_ops(rng, pool, 3)})
        if h % 2 == 1:
            for ops in H.domain_prefixes(rng, pool):
                cases.append({"origin": "domain-border", "pool": texts, "ops": ops + H.random_ops(rng, pool, 2)})
        if h % 3 == 1:
            # large members: their symbolic partials need hundreds of reduction steps, so that how much of the
            # step budget earlier simplifications have saved (flags on shared objects) starts to matter
            big = [e for _, e in gen.heavy_sums(rng, 1)]
            pool5 = H.float_pool(big)
            vs5 = sorted(pool5[0]._variable_names)
            P5 = wire.point({n: 0.3 + 0.4 * k for k, n in enumerate(vs5)})
            ops5 = [{"op": "normalize", "i": 0, "p": P5, "x": vs5[k % len(vs5)]} for k in (0, 1, 0, 2, 1, 0)]
            cases.append({"origin": "large", "pool": H.pool_to_wire(pool5), "ops": ops5})
        if h % 4 == 3:
            pool6 = H.float_pool(H.wide_pool(rng))
            cases.append({"origin": "wide", "pool": H.pool_to_wire(pool6), "ops": H.repeated_simplification(rng, pool6)[: 12]})
        if h % 3 == 2:
            pool4 = H.offender_pool(rng)
            cases.append({"origin": "offender", "pool": H.pool_to_wire(pool4),
                          "ops": H.repeated_simplification(rng, pool4)[: 14] + H.random_ops(rng, pool4, 4)})
        if h % 3 == 0:
            tw = H.int_float_twins(rng)
            if tw:
                cases.append({"origin": "int-float-twins", "pool": H.pool_to_wire(tw[0]), "ops": tw[1]})
        if h % 8 == 5:
            pool8, ops8 = H.long_lived(rng, 260 if tier == "quick" else 2200)
            cases.append({"origin": "long-lived", "pool": H.pool_to_wire(pool8), "ops": ops8})
        if h % 4 == 1:
            pool7 = H.float_pool(H.nested_pool(rng))
            for ops in H.sharing_prefixes(rng, pool7):
                cases.append({"origin": "sharing", "pool": H.pool_to_wire(pool7), "ops": ops + H.random_ops(rng, pool7, 2)})
        if h % 2 == 0:
            pool2 = H.sum_pool(rng) if h % 4 == 0 else pool
            cases.append({"origin": "resimplify", "pool": H.pool_to_wire(pool2),
                          "ops": H.repeated_simplification(rng, pool2)})
    return cases


def check_cases(cases: list[dict], rep: Report, known: dict) -> None:
    ncs = []
    for c in cases:
        if rep.stop():
            break
        pool = H.build_pool(c["pool"])
        hist = H.Runner(pool)
        rep.case((tuple(c["pool"]), str(c["ops"])), len(c["ops"]) >= 3)
        rep.count("origin", c["origin"].split(":")[0])
        rep.count("history-length", str(len(c["ops"])))
        done = []
        for k, op in enumerate(c["ops"]):
            rep.evaluations += 1
            rep.count("ops", op["op"])
            e = pool[op["i"]] if op["i"] < len(pool) else pool[0]
            # heap tie: actual memo contents before the operation
            heap_req = None
            if op["op"] in HEAP_OPS:
                ids: dict = {}
                etxt = wire.expr(e, ids=ids)
                store = wire.memo_store(e, ids)
                rep.count("stale-memos", "some" if not store.startswith("0") else "none")
                if op["op"] == "partial":
                    heap_req = f"heap partial {etxt} {store} {op['x']} {op['p']}"
                elif op["op"] == "located":
                    heap_req = None      # component lookup: covered through `partial`/`at`
                else:
                    heap_req = f"heap at {etxt} {store} {op['p']}"
            j = op.get("j")
            src = hist.pobj_src.get(j) if j is not None else None
            if op["op"] == "ld_query":
                src = hist.ld_src.get(op.get("k")) if op.get("k") in hist.lds else None
            before = hist.pobj_expr_called.get(j, False) if j is not None else False
            with common.WarnCatcher() as w1:
                got = hist.do(op)
            with common.WarnCatcher() as w2:
                want = H.fresh_result(c["pool"] + hist.extra_texts, op, src, before)
            done.append(op)
            info = {"origin": c["origin"], "pool": c["pool"], "ops": done[:], "failing_op": k,
                    "history": repr(got)[:300], "fresh": repr(want)[:300]}
            if heap_req:
                ncs.append(NumCase(None, heap_req, got, dict(info, request=heap_req[:300])))
            if got[0] == "err" and got[1] in ("timeout", "overflow", "recursion") or \
                    want[0] == "err" and want[1] in ("timeout", "overflow", "recursion"):
                rep.skip("impl-" + (got[1] if got[0] == "err" else want[1]))
                continue
            if got[0] == "err":
                rep.count("failing-calls", got[1])
            differs = not H.same_result(got, want)
            if not differs and op["op"] not in ("compose", "clone") and (c["origin"] in PRISTINE_ORIGINS or (k + len(c["ops"])) % 7 == 0):
                # ... and of a never-used copy in a process that has done nothing else (module-level memos)
                far = pristine.ask(c["pool"] + hist.extra_texts, op, src, before)
                rep.count("pristine-process", "asked" if far is not None else "unavailable")
                unjudged = ("timeout", "overflow", "recursion", "memory")
                if far is not None and not (w1.count or w2.count) and not (far[0] == "err" and (far[1] in unjudged or far[1].startswith("worker:"))) \
                        and not pristine.same(pristine.canonical(got), far):
                    differs = True
                    want = (far[0], (far[2] if far[0] == "ok" else far[1]) + "  [answer of a process that had done nothing else]")
            if differs:
                if (w1.count or w2.count) and model_exhausts_budget(c["pool"] + hist.extra_texts, op, src):
                    rep.known("K4", "result of a simplification that exhausts the 1000-step budget depends on flags left by earlier simplifications",
                              {"ops": [o["op"] for o in done], "failing_op": k, "pool_sizes": [len(t.split()) for t in c["pool"]]})
                else:
                    rep.violation(f"operation {k} ({op['op']}) in the history returned {got!r} but a fresh copy returns {want!r}"[:700],
                                  {"origin": c["origin"], "pool": c["pool"], "ops": done[:]})
                break
        else:
            rep.sample({"pool": [t[:120] for t in c["pool"]], "ops": [f"{o['op']}@{o['i']}" for o in c["ops"]]})
    judge_numeric(ncs, rep)
    for nc in ncs:
        if nc.verdict.startswith("skip"):
            rep.skip(nc.verdict[5:])
            continue
        rep.corr_checked += 1
        if nc.verdict == "mismatch":
            rep.corr_break(f"entry point on a DAG with the actual memo contents differs from the heap model: {nc.detail}", nc.info)


PRISTINE_ORIGINS = ("int-float-twins", "twins", "sharing")


def model_exhausts_budget(pool_texts: list[str], op: dict, src=None) -> bool:
    """K4 is about simplifications that need more than the library's 1000 steps. The warning alone does
    not establish that (a smaller budget in the implementation would log it too): the model, whose budget
    is the documented 1000, must run out of steps on the same never-used input as well."""
    from ..core import Batch, parse_answer
    i = op["i"] if op["i"] < len(pool_texts) else 0
    if src is not None and op["op"] in ("pobj_at", "pobj_expr") and isinstance(src[0], int):
        i = src[0]          # a persistent object differentiates the pool member it was built on, not the one the operation names
    e = H.build_pool(pool_texts)[i]
    etxt = wire.expr(e)
    names = sorted(e._variable_names) or ["x"]
    if wire.size(e) > 500:
        return True         # too large for the tree model to simplify in reasonable time: the warning alone decides
    b = Batch()
    idx = [b.ask(f"F0 asexpr {kind} {x} {etxt}") for kind in ("P", "FE") for x in names[:4]]
    try:
        b.answers = None
        from ..core import run_model, Infra
        b.answers = run_model(b.lines, timeout=120.0)
    except Infra:
        return True
    for j in idx:
        k, rest = parse_answer(b[j])
        if k == "ok" and rest[0] == "1":
            return True
        if k == "err" and rest == "fuel":
            return True
    return False


def run(rep: Report, rng, tier: str, known: dict, search: bool = False) -> None:
    check_cases(([] if search else [k4_history()]) + gen_cases(rng, tier), rep, known)


def evidence(rep: Report) -> None:
    write_evidence(
        rep,
        rule="cases = histories: a pool of 2-4 expressions built over a common stock of sub-expression objects (50% reuse, plus expressions embedding other pool members), and a sequence of 6-12 (quick) / 10-40 (thorough) operations drawn from {at(Point), at(number), Partial late/early .at, a persistent Partial object's at/as_expression, Differential late/early .at.component, component_at, LocatedDifferential, as_expression (simplification), Derivative, calls that fail with CoordinateMissing / DomainError}; every 4th pool also gets the seven directed prefixes, every 2nd the domain-border prefixes (a point inside and a point outside the domain of the same object, through early Partial / Derivative / Differential objects and the late routes) (evaluate at p then query a sharing expression at q; fail half-way then retry; simplify then evaluate; switch a Partial to its symbolic path in between; two points in a row); each operation is compared with a fresh copy and, for evaluation/forward mode, with the heap model started from the memos actually found on the objects; non-trivial = at least 3 operations; distinct by (pool, ops); plus histories on nested pools with sharing prefixes, int/float twin pools, long-lived objects asked 260 / 2200 times, the caller's identical Point objects, and a never-used copy in a never-used process (fork per question) for the twin / sharing histories and every seventh operation elsewhere",
        trusted=common.TRUSTED,
        assumptions=[common.ASSUME_RANGE,
                     "rewriting and symbolic differentiation are modelled on trees with flags (not on the heap); K4 (recorded finding) reported as KNOWN-FINDING when the 1000-step warning was logged"],
    )
