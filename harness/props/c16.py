"""C16 — ill-formed expressions are rejected at construction.

Tie: argument grids through every constructor against the model's checked constructors
(Properties/C16.lean: accepted iff in the documented range; every accepted expression is well formed
and all model transformations preserve well-formedness).  Oracle on the implementation: rejected iff
outside the documented range; parameters are reported back as given (n as that integer)."""
from __future__ import annotations
import math

from .. import wire, gen, common
from ..core import call, sm, X, Report, write_evidence, Batch, parse_answer
from .c15 import pyval

PID = "C16"

NVALS = [-3, -1, 0, 1, 2, 3, 7, 10 ** 6, 1.0, 2.0, 7.0, 0.0, -1.0, -2.0, 0.5, 2.5, -0.5, 1e-12, float("nan"),
         0.1 * 3 * 10, 2.000000001, 1.9999999995, 1.0000000000000002, 0.9999999999999999, 1000000.0005,
         float("inf"), float("-inf"), True, False, "2", None, [2], 2 + 0j,
         # integers no double represents, integral floats beyond 2^53, both accepted "as that integer"
         2 ** 53 + 1, 10 ** 17 + 1, 2 ** 64 - 1, 3 ** 45, float(2 ** 53), 1e20, 2.0 ** 70, -(2 ** 53 + 1), 1e20 + 16384.0]
BASES = [-2, -1, -0.5, -1e-300, 0, 0.0, -0.0, 1, 1.0, 0.5, 2, 2.0, 10, math.e, 1e-300, 1e300, 0.9999999999999999,
         1.0000000000000002, True]
NAMES = ["", "x", "x y", "x\n", "x1", "1x", "_", "é", "x-y", " x", "x.", "𝑥", "x\t", "\n", "a.b", "x+1", "ɑβ",
         "x​", "x\x00", "1", "__init__", "x'", "x́"]
FOREIGN = [3, 2.5, "x", None, [1], object(), True]


def x_():
    return X.Variable("x")


def gen_cases(rng, tier: str) -> list[dict]:
    return [{"origin": "grid", "seed": rng.randint(0, 10 ** 9)}]


def legal_name(n: str) -> bool:
    return n != "" and all(ch.isalnum() or ch == "_" for ch in n)


def check_cases(cases: list[dict], rep: Report, known: dict) -> None:
    bt = Batch()
    work = []
    g = gen.Gen(__import__("random").Random(cases[0].get("seed", 1)))
    inners = [x_(), X.Add(x_(), X.Constant(1)), g.expr(2), g.expr(3)]
    def base_case(cname, K, tag, inner, itxt, b):
        rep.evaluations += 1
        got = call(lambda: K(inner, base=b))
        good = b > 0 and not (cname == "Logarithm" and b == 1)
        info = {"constructor": cname, "base": repr(b), "inner": itxt[:100], "impl": repr(got)[:200]}
        rep.count(cname, "accepted" if good else "rejected")
        rep.case((cname, repr(b), itxt), True)
        if good:
            if got[0] != "ok" or got[1].base != b or not (got[1].base is b or got[1].base == b):
                rep.violation(f"{cname}(u, base={b!r}) should be accepted and report its base back: {got!r}", info)
        elif got[0] == "ok":
            rep.violation(f"{cname}({itxt[:80]}, base={b!r}) was accepted", info)
        work.append((info, got, bt.ask(f"F0 mk {tag} e {itxt} {wire.num(b)}")))

    def same(a, b):
        try:
            return bool(a == b)
        except Exception:
            return False

    for inner in inners:
        itxt = wire.expr(inner)
        # n of NthPower / NthRoot
        for cname, K, tag in (("NthPower", X.NthPower, "NP"), ("NthRoot", X.NthRoot, "NR")):
            for n in NVALS:
                rep.evaluations += 1
                got = call(lambda: K(inner, n))
                isnum = isinstance(n, (int, float)) and not isinstance(n, complex)
                good = isnum and not (isinstance(n, float) and not math.isfinite(n)) and float(n).is_integer() and n >= 1
                info = {"constructor": cname, "n": repr(n), "inner": itxt[:100], "impl": repr(got)[:200]}
                rep.count(cname, "accepted" if good else "rejected")
                rep.case((cname, repr(n), itxt), True)
                if good:
                    if got[0] != "ok" or got[1].n != int(n) or type(got[1].n) is not int or not (got[1]._inner is inner):
                        rep.violation(f"{cname}(u, n={n!r}) should be accepted with n stored as the integer {int(n)}: {got!r}", info)
                elif got[0] == "ok":
                    rep.violation(f"{cname}(u, n={n!r}) was accepted (n = {got[1].n!r})", info)
                elif got[0] == "err" and got[1] in ("timeout", "memory"):
                    rep.violation(f"{cname}(u, n={n!r}) did not return", info)
                if isnum:
                    inst = "Q" if isinstance(n, int) and abs(n) > 2 ** 53 else "F0"     # exact instance where a double would lose n
                    work.append((info, got, bt.ask(f"{inst} mk {tag} e {itxt} n {wire.num(n)}")))
                else:
                    work.append((info, got, bt.ask(f"F0 mk {tag} e {itxt} {pyval(n) if isinstance(n, str) else 'o'}")))
        # bases
        for cname, K, tag in (("Exponential", X.Exponential, "E"), ("Logarithm", X.Logarithm, "L")):
            for b in BASES:
                base_case(cname, K, tag, inner, itxt, b)
            d = call(lambda: K(inner))
            if d[0] != "ok" or d[1].base != math.e:
                rep.violation(f"{cname}(u) default base is not e: {d!r}", {"constructor": cname})
    # twin parameters: the operand is itself a parametrised node whose parameter equals (under ==, in
    # every spelling of the grid) the parameter under test -- the acceptance rule must not depend on it
    for cname, K, tag in (("Exponential", X.Exponential, "E"), ("Logarithm", X.Logarithm, "L")):
        for b in BASES:
            for ib in BASES:
                if not same(ib, b):
                    continue
                for IK in (X.Exponential, X.Logarithm):
                    t = call(lambda: IK(X.Add(x_(), X.Constant(3)), base=ib))
                    if t[0] == "ok":
                        rep.count("twin parameter", f"{cname} of {IK.__name__}")
                        base_case(cname, K, tag, t[1], wire.expr(t[1]), b)
    for cname, K, tag in (("NthPower", X.NthPower, "NP"), ("NthRoot", X.NthRoot, "NR")):
        for n in NVALS:
            if not (isinstance(n, (int, float)) and not isinstance(n, bool)):
                continue
            for m in NVALS:
                if not (isinstance(m, int) and not isinstance(m, bool) and same(m, n)) and not (isinstance(m, int) and not isinstance(m, bool) and m >= 1 and isinstance(n, (int, float)) and math.isfinite(n) and m == abs(n)):
                    continue
                for IK in (X.NthPower, X.NthRoot):
                    t = call(lambda: IK(x_(), m))
                    if t[0] != "ok":
                        continue
                    rep.evaluations += 1
                    rep.count("twin parameter", f"{cname} of {IK.__name__}")
                    got = call(lambda: K(t[1], n))
                    good = math.isfinite(n) and float(n).is_integer() and n >= 1
                    ttxt = wire.expr(t[1])
                    info = {"constructor": cname, "n": repr(n), "inner": ttxt[:100], "impl": repr(got)[:200]}
                    rep.case((cname, repr(n), ttxt), True)
                    if good and (got[0] != "ok" or got[1].n != int(n)):
                        rep.violation(f"{cname}({ttxt[:80]}, n={n!r}) should be accepted with n = {int(n)}: {got!r}", info)
                    elif not good and got[0] == "ok":
                        rep.violation(f"{cname}({ttxt[:80]}, n={n!r}) was accepted (n = {got[1].n!r})", info)
                    inst = "Q" if isinstance(n, int) and abs(n) > 2 ** 53 else "F0"
                    work.append((info, got, bt.ask(f"{inst} mk {tag} e {ttxt} n {wire.num(n)}")))
    # variable names
    for n in NAMES:
        rep.evaluations += 1
        got = call(lambda: X.Variable(n))
        good = legal_name(n)
        info = {"constructor": "Variable", "name": repr(n), "impl": repr(got)[:200]}
        rep.count("Variable", "accepted" if good else "rejected")
        rep.case(("Variable", n), True)
        if good and (got[0] != "ok" or got[1].name != n):
            rep.violation(f"Variable({n!r}) should be accepted and report its name back: {got!r}", info)
        if not good and got[0] == "ok":
            rep.violation(f"Variable({n!r}) was accepted", info)
        if n.isascii() and "\x00" not in n:
            work.append((info, got, bt.ask(f"F0 mk V s {wire.hexs(n)}")))
    for f in [3, 2.5, None, [1], object(), x_()]:
        got = call(lambda: X.Variable(f))
        if got[0] == "ok":
            rep.violation(f"Variable({f!r}) was accepted", {"constructor": "Variable", "name": repr(f)})
    # constants report their value back
    for v in [0, 1, -1, 2.5, -0.0, 10 ** 20, 1e-300]:
        c = call(lambda: X.Constant(v))
        if c[0] != "ok" or c[1].value != v or type(c[1].value) is not type(v):
            rep.violation(f"Constant({v!r}) does not report its value back: {c!r}", {"constructor": "Constant"})
    # foreign operands in every position
    una = [("Negation", X.Negation, "N"), ("Reciprocal", X.Reciprocal, "R"), ("Cosine", X.Cosine, "CO"), ("Sine", X.Sine, "SI")]
    bins = [("Minus", X.Minus, "S"), ("Divide", X.Divide, "D"), ("Power", X.Power, "P")]
    for f in FOREIGN:
        for cname, K, tag in una:
            rep.evaluations += 1
            got = call(lambda: K(f))
            if got[0] == "ok":
                rep.violation(f"{cname}({f!r}) was accepted", {"constructor": cname, "operand": repr(f)})
            work.append(({"constructor": cname, "operand": repr(f)}, got, bt.ask(f"F0 mk {tag} {pyval(f)}")))
        for cname, K in (("NthPower", X.NthPower), ("NthRoot", X.NthRoot)):
            got = call(lambda: K(f, 2))
            if got[0] == "ok":
                rep.violation(f"{cname}({f!r}, 2) was accepted", {"constructor": cname, "operand": repr(f)})
        for cname, K in (("Exponential", X.Exponential), ("Logarithm", X.Logarithm)):
            got = call(lambda: K(f, base=2))
            got2 = call(lambda: K(f))
            if got[0] == "ok" or got2[0] == "ok":
                rep.violation(f"{cname}({f!r}) was accepted", {"constructor": cname, "operand": repr(f)})
        for cname, K, tag in bins:
            for pos in (0, 1):
                rep.evaluations += 1
                args = [x_(), x_()]
                args[pos] = f
                got = call(lambda: K(*args))
                if got[0] == "ok":
                    rep.violation(f"{cname} accepted the foreign operand {f!r} in position {pos}", {"constructor": cname})
                a = [pyval(z) for z in args]
                work.append(({"constructor": cname, "operand": repr(f), "position": pos}, got, bt.ask(f"F0 mk {tag} {a[0]} {a[1]}")))
        for cname, K, tag in (("Add", X.Add, "A"), ("Multiply", X.Multiply, "M")):
            for k in (1, 2, 3, 4, 6, 9, 17, 33):
                for pos in range(k):
                    rep.evaluations += 1
                    args = [x_() for _ in range(k)]
                    args[pos] = f
                    got = call(lambda: K(*args))
                    if got[0] == "ok":
                        rep.violation(f"{cname} accepted the foreign operand {f!r} in position {pos} of {k}", {"constructor": cname})
                    work.append(({"constructor": cname, "operand": repr(f), "position": pos, "arity": k}, got,
                                 bt.ask(f"F0 mk {tag} {k} " + " ".join(pyval(z) for z in args))))
    # every constructor accepts expressions
    ok_all = call(lambda: [X.Add(), X.Multiply(), X.Add(x_()), X.Minus(x_(), x_()), X.Power(x_(), x_()), X.Sine(x_())])
    if ok_all[0] != "ok":
        rep.violation(f"a well-formed construction was rejected: {ok_all!r}", {})
    bt.run()
    for info, got, i in work:
        rep.corr_checked += 1
        k, rest = parse_answer(bt[i])
        if (k == "ok") != (got[0] == "ok"):
            rep.corr_break(f"constructor acceptance differs from the model: implementation {got!r}, model {bt[i][:100]}"[:400], info)
        elif k == "ok":
            tree, _ = wire.parse_expr(rest, 0)
            if not wire.tree_matches(tree, got[1]):
                rep.corr_break(f"constructed expression differs from the model: {got[1]!r} vs {bt[i][:200]}"[:400], info)
    rep.sample({"n grid": [repr(n) for n in NVALS], "base grid": [repr(b) for b in BASES], "names": [repr(n) for n in NAMES]})
    rep.sample({"foreign operands": [repr(f) for f in FOREIGN], "positions": "every position of unary, binary and 1..4-ary constructors"})


def run(rep: Report, rng, tier: str, known: dict, search: bool = False) -> None:
    check_cases(gen_cases(rng, tier), rep, known)


def evidence(rep: Report) -> None:
    write_evidence(
        rep,
        rule="cases = constructor argument grids: n over 27 values (ints of both signs, integral and non-integral floats, nan, +-inf, bools, str, None, list, complex) x {NthPower, NthRoot} x 4 inner expressions; base over 19 values (both signs, +-0, 1, 1.0, neighbours of 1, extremes, e) x {Exponential, Logarithm}; 23 variable names (empty, spaces, trailing newline, NUL, digits, non-ASCII letters and marks, zero-width space); 7 foreign operands in every position of every unary, binary and 1..4-ary constructor; accepted results must report parameters back; each construction also against the model's checked constructor; non-trivial = every grid cell; distinct by (constructor, argument)",
        trusted=common.TRUSTED + ["Python's re \\w (harness oracle: str.isalnum() or '_')"],
        assumptions=["the model's name check is instantiated on ASCII; non-ASCII names are judged on the implementation only"],
    )
