"""C03 — forward-mode partials equal the true partial derivative.

Oracle: the model's `fwdG`, proved to be the derivative (`HasDerivAt`) of the denotation along the
coordinate (Properties/C03.lean)."""
from __future__ import annotations

from .. import wire, gen, common
from ..core import call, sm, X, Report, write_evidence
from ..engine import NumCase, judge_numeric

PID = "C03"


def gen_cases(rng, tier: str) -> list[dict]:
    cases = []
    stream = common.expr_stream(rng, tier, common.sizes(tier, 400, 5000), share=0.3)
    for origin, e in stream:
        vs = common.names_of(e)
        prior: list[str] = []
        for p in common.points_for(rng, e, 2 if tier == "quick" else 4, extra=0.2):
            c = common.make_eval_case(origin, e, p)
            c["prior"] = prior[:]
            prior.append(c["p"])
            r = rng.random()
            if r < 0.12:
                c["x"] = "w"           # a variable that does not occur
            else:
                c["x"] = rng.choice(vs) if vs else "x"
            c["via"] = rng.choice(["name", "variable"])
            if len(vs) <= 1 and rng.random() < 0.4:
                c["via"] = rng.choice(["derivative-point", "derivative-number"])
                c["x"] = vs[0] if vs else "whatever"
            c["persist"] = rng.random() < 0.4      # one derivative object asked again after other work
            cases.append(c)
    for origin, pairs in (("near-special", common.near_special(rng, common.sizes(tier, 200, 2000))),
                          ("compensating-magnitudes", common.compensating_products(rng, common.sizes(tier, 150, 1500))),
                          ("vanishing-factor", common.vanishing_products(rng, common.sizes(tier, 150, 1500))),
                          ("tiny-powers", common.tiny_powers(rng, common.sizes(tier, 120, 1200)))):
        for e, pt in pairs:
            c = common.make_eval_case(origin, e, pt)
            vs = common.names_of(e)
            c.update(prior=[], x=rng.choice(vs), via=rng.choice(["name", "variable"]), persist=False)
            if len(vs) == 1 and rng.random() < 0.4:
                c["via"] = rng.choice(["derivative-point", "derivative-number"])
            cases.append(c)
    # names the library uses internally (placeholder for "no variable", parameter names), through Derivative at a number
    for nm in ("whatever", "self", "point", "variable", "expression"):
        v = X.Variable(nm)
        for e, t in ((X.NthPower(v, 3), 2.0), (X.Exponential(v, base=2), 3.0), (X.Sine(X.Logarithm(v)), 1.5), (X.NthRoot(v, 5), -32.0)):
            for via in ("derivative-number", "derivative-point", "name"):
                c = common.make_eval_case("internal-names", e, {nm: t})
                c.update(prior=[], x=nm, via=via, persist=False)
                cases.append(c)
    return cases


def impl_query(c: dict, e, p):
    x = wire.fresh_str(c["x"])        # an equal name, not the str object held by the Variable leaves
    via = c["via"]
    if via == "name":
        return call(lambda: sm.Partial(e, x).at(p)), f"fwd {x} {c['e']} {c['p']}"
    if via == "variable":
        return call(lambda: sm.Partial(e, X.Variable(x)).at(p)), f"fwd {x} {c['e']} {c['p']}"
    if via == "derivative-point":
        return call(lambda: sm.Derivative(e).at(p)), f"route DL x {c['e']} {c['p']}"
    names = sorted(e._variable_names)
    t = wire.coords(p).get(names[0], 1) if names else 1
    return call(lambda: sm.Derivative(e).at(t)), f"dnum 0 {c['e']} {wire.num(t)}"


def persistent_query(c: dict, e, p, first):
    """the same Partial / Derivative object: at p, then the expression (and the object) used at other
    points, then at p again — the last answer is the one that is judged"""
    from smoothmath import Point
    x = c["x"]
    obj = call(lambda: sm.Derivative(e) if c["via"].startswith("derivative") else sm.Partial(e, x))
    if obj[0] != "ok":
        return first
    obj = obj[1]
    others = [wire.build_point(q) for q in c.get("prior", [])]
    others.append(Point(**{k: v + 0.75 for k, v in wire.coords(p).items()}))
    call(obj.at, p)
    for k, q in enumerate(others):
        call(e.at, q)
        if k % 2:
            call(obj.at, q)
    return call(obj.at, p)


def check_cases(cases: list[dict], rep: Report, known: dict) -> None:
    ncs = []
    for c in cases:
        if rep.stop():
            break
        e = wire.build_raw(c["e"])
        p = wire.build_point(c["p"])
        for q in c.get("prior", []):          # earlier queries on the same object, at other points
            call(lambda: sm.Partial(e, c["x"]).at(wire.build_point(q)))
            call(e.at, wire.build_point(q))
        impl, suffix = impl_query(c, e, p)
        if c.get("persist") and c["via"] != "derivative-number":
            impl = persistent_query(c, e, p, impl)
        nc = NumCase((c["e"], c["p"], c["x"], c["via"]), suffix, impl, dict(c, impl=repr(impl)))
        nc.info["_e"] = e
        ncs.append(nc)
    judge_numeric(ncs, rep)
    for nc in ncs:
        e = nc.info.pop("_e")
        info = nc.info
        model_ok = info["model_F0"].startswith("ok")
        occurs = info["x"] in e._variable_names
        rep.case(nc.key, model_ok and occurs and wire.size(e) >= 3)
        rep.count("origin", info["origin"].split(":")[0])
        rep.count("via", info["via"])
        rep.count("variable", "occurring" if occurs else "absent")
        if nc.verdict.startswith("skip"):
            rep.skip(nc.verdict[5:])
            continue
        if not model_ok:
            if nc.verdict == "mismatch":
                rep.corr_break(f"outcome outside the domain differs (C07's statement): {nc.detail}", info)
            continue
        rep.corr_checked += 1
        for k, v in wire.classes(e).items():
            rep.count("constructors", k, v)
        if nc.verdict == "mismatch":
            rep.violation(f"forward-mode partial is not the true partial derivative: {nc.detail}", info)
            continue
        if not occurs and nc.impl[0] == "ok" and nc.impl[1] != 0:
            rep.violation(f"partial with respect to an absent variable is {nc.impl[1]!r}, not 0", info)
        if nc.exact == "exact-miss":
            from fractions import Fraction as _Fr
            f0 = wire.MNum(info["model_F0"].split(" ")[1])
            q = wire.MNum(info["model_Q"].split(" ")[1]).q
            if common.tree_has(e, common.libm_site):
                rep.count("exactness", "inexact-libm")
            elif _Fr(f0.v) != q:
                rep.skip("exactness-premise-undecided")
            else:
                rep.violation(f"polynomial fragment on dyadic inputs: result {nc.impl[1]!r} is not the exact derivative ({info['model_Q']})", info)
        elif nc.exact == "exact-ok":
            rep.count("exactness", "exact-equal")
        rep.sample({"e": info["e"], "x": info["x"], "p": info["p"], "via": info["via"], "impl": info["impl"], "model": info["model_F0"]})


def run(rep: Report, rng, tier: str, known: dict, search: bool = False) -> None:
    check_cases(gen_cases(rng, tier), rep, known)


def evidence(rep: Report) -> None:
    write_evidence(
        rep,
        rule="cases = (expression, variable, point, entry) with entry in {Partial by name, Partial by Variable object, Derivative at Point, Derivative at bare number}; expressions from the rule-directed and random streams (DAG sharing, all n, bases incl. 1 and (0,1)); variable occurring or absent ('w'); non-trivial = in the domain, variable occurs, >= 3 nodes; distinct by (wire, variable, point, entry); plus near-special, compensating-magnitude, vanishing-factor and subnormal-power families, renamed variables, fresh name strings",
        trusted=common.TRUSTED,
        assumptions=[common.ASSUME_RANGE],
    )
