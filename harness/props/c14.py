"""C14 — an expression needs exactly the coordinates of the variables it mentions.

Tie: outcome kinds (value / CoordinateMissing / DomainError / usage error) against the model for
every subset of supplied variables (Properties/C14.lean: no `missing` when every occurring variable
is supplied, never a value when one is missing, bare-number and Derivative acceptance iff at most
one variable).  Oracle on the implementation: the same statements directly, on every route, plus
every legal variable name used as a coordinate name."""
from __future__ import annotations
import itertools

from .. import wire, gen, common, routes
from ..core import call, sm, X, Report, write_evidence, Batch, parse_answer
from ..engine import NumCase, judge_numeric
from smoothmath import Point

PID = "C14"

NAMES = ["x", "_", "__", "x1", "1x", "123", "self", "point", "kwargs", "variable", "other", "cls", "args",
         "coordinate", "_private", "compute_early", "expression", "class", "None", "lambda", "def", "é",
         "Ünï", "变量", "π", "x٣", "ⅷ", "ª", "whatever", "X" * 300, "a_b_c", "ñ_2", "µ", "²", "x̀"]


def cancelling(rng) -> list:
    """expressions in which a variable occurs but cancels when simplified: what counts is what is written"""
    x, y = X.Variable("x"), X.Variable("y")
    c = X.Constant
    base = [X.Multiply(c(0), x), X.Power(x, c(0)), X.Add(c(3), X.Multiply(x, c(0), x)), X.Add(x, X.Multiply(c(0), y)),
            X.Multiply(x, X.Power(y, c(0))), X.Add(X.Minus(y, y), x), X.Divide(X.Multiply(x, y), y), X.Minus(X.Add(x, y), y),
            X.NthPower(X.Multiply(c(0), x), 2), X.Multiply(c(0.0), X.Sine(x)), X.Power(c(1), x), X.Logarithm(X.Exponential(x)),
            X.Add(X.Negation(x), x), X.Multiply(X.Reciprocal(x), x), X.Add(X.Multiply(c(0), x), X.Multiply(c(0), y))]
    return [("cancelling", e) for e in base] + [("cancelling", X.Sine(e)) for e in rng.sample(base, 4)]


def gen_cases(rng, tier: str) -> list[dict]:
    cases = []
    for origin, e in cancelling(rng) + common.expr_stream(rng, tier, common.sizes(tier, 150, 2000), depth_q=4, depth_t=6,
                                                           names=("x", "y", "z"), share=0.2, max_size=150):
        vs = common.names_of(e)
        g = gen.Gen(rng)
        full = g.point(vs)
        subsets = [s for r in range(len(vs) + 1) for s in itertools.combinations(vs, r)]
        rng.shuffle(subsets)
        for s in subsets[:4]:
            p = {k: full[k] for k in s}
            if rng.random() < 0.4:
                p["extra"] = 1.5
            if rng.random() < 0.12:
                # a point with many coordinates the expression does not mention (a row of a table with dozens of columns)
                for k in range(rng.choice([9, 10, 11, 12, 25, 60])):
                    p[f"col{k}"] = float(k)
            e2, p2 = gen.safe_numbers(e, p)
            cases.append({"origin": origin.split(":")[0], "e": wire.expr(e2, ids={}), "p": wire.point(p2),
                          "supplied": sorted(s), "x": rng.choice(vs + ["w"])})
    return cases


def check_cases(cases: list[dict], rep: Report, known: dict) -> None:
    ncs = []
    b = Batch()
    extra = []
    for c in cases:
        if rep.stop():
            break
        e = wire.build_raw(c["e"])
        p = wire.build_point(c["p"])
        vs = common.names_of(e)
        complete = set(vs) <= set(c["supplied"])
        rep.case((c["e"], c["p"]), len(vs) >= 1)
        rep.count("origin", c["origin"])
        rep.count("supplied", f"{len(c['supplied'])}/{len(vs)}")
        impl = call(e.at, p)
        info = dict(c, impl=repr(impl), complete=complete)
        ncs.append(NumCase((c["e"], c["p"]), f"eval {c['e']} {c['p']}", impl, info))
        if complete and impl == ("err", "missing"):
            rep.violation("CoordinateMissing although the point supplies every variable of the expression", info)
        if not complete and impl[0] == "ok":
            rep.violation(f"evaluation returned {impl[1]!r} although a variable of the expression has no coordinate", info)
        # derivative routes: the differentiation variable itself need not be supplied when absent
        x = c["x"]
        rs = routes.ROUTES if rep.tier == "thorough" else ["PL", "LD", "FCAE", "FATL", "PE"]
        if len(vs) <= 1:
            rs = list(rs) + (routes.DERIV_ROUTES if rep.tier == "thorough" else ["DL", "DE"])
        for r in rs:
            out = routes.run_route(r, wire.build_raw(c["e"]), x if r not in routes.DERIV_ROUTES else None, p)
            rep.evaluations += 1
            if complete and out == ("err", "missing"):
                rep.violation(f"route {r} raised CoordinateMissing although every variable of the expression is supplied (differentiating in {x!r})", info)
            # (the property constrains only *evaluation* at incomplete points: linear expressions are
            # differentiated without reading the point, so a derivative route may return a number there)
        # bare number / Derivative acceptance
        num = call(e.at, 1.5)
        der = call(lambda: sm.Derivative(e))
        if der[0] == "ok" or der == ("err", "usage"):
            # the early construction, by keyword and positionally, must accept exactly the same expressions
            for mk in (lambda: sm.Derivative(e, compute_early=True), lambda: sm.Derivative(e, True)):
                der_e = call(mk, timeout=30)
                if der_e[0] != der[0] and der_e[1] not in ("timeout", "recursion", "overflow"):
                    der = ("ok" if der[0] != "ok" else "err", f"early construction disagrees with late: {der_e!r} vs {der!r}")
                    break
            else:
                if der[0] == "ok" and len(vs) <= 1:
                    # and a bare number works for it whatever simplification does to the variable
                    for t in (1.5, 0, 0.0, -2):
                        got = call(lambda: (sm.Derivative(e, compute_early=True).at(t), sm.Derivative(e).at(t), e.at(t)), timeout=30)
                        if got == ("err", "missing") or got == ("err", "usage"):
                            rep.violation(f"bare number {t!r} for a one-variable expression raised {got[1]} (Derivative early / late / at)", dict(c))
                            break
        extra.append((c, e, num, der, b.ask(f"F0 single {c['e']}"), b.ask(f"F0 vars {c['e']}")))
    b.run()
    for c, e, num, der, i_single, i_vars in extra:
        vs = common.names_of(e)
        mvars = sorted(parse_answer(b[i_vars])[1][1:])
        rep.corr_checked += 1
        if mvars != vs:
            rep.corr_break(f"variable set differs from the model: {vs} vs {mvars}", dict(c))
        bad = wrong_variable_sets(e)
        if bad:
            rep.violation(f"a sub-expression reports variables it does not mention (or misses some): {bad}", dict(c))
        accept = len(vs) <= 1
        model_accept = b[i_single].startswith("ok")
        if accept != model_accept:
            rep.corr_break("model's single-variable test differs", dict(c))
        if accept and (num == ("err", "usage") or der[0] != "ok"):
            rep.violation(f"expression with {len(vs)} variable(s) rejected by at(number) / Derivative: {num!r}, {der!r}", dict(c))
        if not accept and (num[0] == "ok" or der[0] == "ok"):
            rep.violation(f"expression with {len(vs)} variables accepted by at(number) / Derivative", dict(c))
        if not accept and (num != ("err", "usage") or der != ("err", "usage")):
            rep.violation(f"at(number)/Derivative on {len(vs)} variables raised {num!r}/{der!r} instead of the documented exception", dict(c))
    judge_numeric(ncs, rep)
    for nc in ncs:
        if nc.verdict.startswith("skip"):
            rep.skip(nc.verdict[5:])
        elif nc.verdict == "mismatch":
            model = nc.info.get("model_F0", "")
            if model.startswith("err missing") != (nc.impl == ("err", "missing")):
                # the statement itself: CoordinateMissing exactly when an occurring variable lacks its coordinate
                rep.violation(f"CoordinateMissing is due exactly when an occurring variable lacks a coordinate: implementation {nc.impl!r}, "
                              f"model {model[:60]}", nc.info)
            else:
                rep.corr_break(f"evaluation outcome differs from the model: {nc.detail}", nc.info)
        else:
            rep.corr_checked += 1
            if len(rep.samples) < 6 and not nc.info["complete"]:
                rep.sample({"e": nc.info["e"][:150], "p": nc.info["p"], "supplied": nc.info["supplied"], "impl": nc.info["impl"]})
    names(rep)
    lookalikes(rep)


def occurring(e) -> set:
    if wire.cls(e) == "Variable":
        return {e.name}
    out = set()
    for c in wire.children(e):
        out |= occurring(c)
    return out


def wrong_variable_sets(e) -> str | None:
    """every node's variable-name set is exactly the set of variables occurring below it - checked
    after all the queries of the case ran on the object"""
    if set(e._variable_names) != occurring(e):
        return f"{wire.cls(e)} reports {sorted(e._variable_names)}, mentions {sorted(occurring(e))}"
    for c in wire.children(e):
        w = wrong_variable_sets(c)
        if w:
            return w
    return None


def names(rep: Report) -> None:
    """every name accepted by Variable can be used as a coordinate name"""
    for n in NAMES:
        v = call(lambda: X.Variable(n))
        rep.evaluations += 1
        legal = n != "" and all(ch.isalnum() or ch == "_" for ch in n)
        if (v[0] == "ok") != legal:
            rep.count("names", "accepted-by-Variable-only" if v[0] == "ok" else "rejected-by-Variable")
        if v[0] != "ok":
            continue
        rep.count("names", "legal")
        info = {"name": n}
        r1 = call(lambda: v[1].at(3))
        r2 = call(lambda: v[1].at(Point(**{n: 3})))
        r3 = call(lambda: X.Add(v[1], X.Variable("q")).at(Point(**{n: 3, "q": 1})))
        r4 = call(lambda: sm.Partial(X.Multiply(v[1], v[1]), n).at(Point(**{n: 3})))
        r5 = call(lambda: sm.Derivative(X.Multiply(v[1], v[1])).at(3))
        r6 = call(lambda: sm.LocatedDifferential(X.Multiply(v[1], v[1]), Point(**{n: 3})).component(n))
        if (r1, r2, r3) != (("ok", 3), ("ok", 3), ("ok", 4.0)) or not all(r == ("ok", 6.0) or r == ("ok", 6) for r in (r4, r5, r6)):
            rep.violation(f"legal variable name {n[:30]!r} cannot be used as a coordinate: {[r1, r2, r3, r4, r5, r6]!r}", info)


LOOKALIKES = [("\u00b5", "\u03bc"), ("\u017f", "s"), ("\u212a", "K"), ("\uff58", "x"), ("\ufb01", "fi"), ("x", "X"),
              ("\u00e5", "\u212b"), ("\u2160", "I"), ("x1", "x\u00b9"), ("\u0131", "i"), ("_", "__")]


def lookalikes(rep: Report) -> None:
    """distinct legal names that some normalisation (NFKC, NFC, case folding) would identify are
    different variables and different coordinates, in either order"""
    for a, b in LOOKALIKES:
        va, vb = call(lambda: X.Variable(a)), call(lambda: X.Variable(b))
        if va[0] != "ok" or vb[0] != "ok":
            rep.count("lookalike-names", "one-rejected-by-Variable")
            continue
        rep.count("lookalike-names", "both-legal")
        rep.evaluations += 1
        e = X.Add(X.Multiply(X.Constant(2), va[1]), vb[1])
        got = call(lambda: (
            e.at(Point(**{a: 3, b: 5})), e.at(Point(**{b: 5, a: 3})), sorted(e._variable_names) == sorted([a, b]),
            sm.Partial(e, a).at(Point(**{a: 3, b: 5})), sm.Partial(e, b).at(Point(**{b: 5, a: 3})),
            sm.LocatedDifferential(e, Point(**{b: 5, a: 3})).component(a), va[1] == vb[1],
            Point(**{a: 1}) == Point(**{b: 1}), len(wire.coords(Point(**{a: 1, b: 2}))),
            Point(**{a: 1, b: 2}).coordinate(a), Point(**{a: 1, b: 2}).coordinate(b)))
        want = (11, 11, True, 2, 1, 2, False, False, 2, 1, 2)
        if got[0] != "ok" or tuple(got[1]) != want:
            rep.violation(f"the distinct legal names {a!r} and {b!r} are not kept apart as variables / coordinates: {got!r}, expected {want!r}",
                          {"names": [a, b]})
        missing = call(lambda: e.at(Point(**{a: 3})))
        if missing != ("err", "missing"):
            rep.violation(f"a point supplying only {a!r} evaluated an expression that also mentions {b!r}: {missing!r}", {"names": [a, b]})


def run(rep: Report, rng, tier: str, known: dict, search: bool = False) -> None:
    if not search:
        from .c01 import deep_spellings
        deep_spellings(rep)      # "a bare number is accepted for at most one variable" - also for expressions nested hundreds deep
    check_cases(gen_cases(rng, tier), rep, known)


def evidence(rep: Report) -> None:
    write_evidence(
        rep,
        rule="cases = (expression over up to 3 variables, a subset of its variables supplied by the point, optionally an extra coordinate, a differentiation variable occurring or not); evaluation and 5 (quick) / all (thorough) derivative routes; bare-number entry and Derivative construction; plus 35 variable names (every parameter name of the library's own methods, keywords, digits-first, '_', non-ASCII letters/digits/marks, a 300-character name) through Variable.at(number), Point(**{name: v}), Partial, Derivative, LocatedDifferential; non-trivial = at least one variable; distinct by (wire, point); plus points with 9-60 unrelated coordinates, cancelling occurrences, early Derivative acceptance, and the two spellings of the point on chains nested 300-600 deep under the default recursion limit",
        trusted=common.TRUSTED + ["keyword-argument passing of CPython (names reach Point through **dict)"],
        assumptions=[common.ASSUME_RANGE],
    )
