"""C12 — equality is structural, an equivalence, and consistent with hashing.

Tie: `==` on the implementation against the model's `beq` (Properties/C12.lean proves it is exactly
structural equality with numerically compared parameters, an equivalence, and that the hash keys of
equal expressions agree).  Oracle on the implementation: reflexive / symmetric / transitive on
generated pairs and triples, `!=` is the negation, never raises against foreign objects, equal
objects have equal hashes and find each other in sets and dicts."""
from __future__ import annotations
import math
import random

from .. import wire, gen, common
from ..core import call, sm, X, Report, write_evidence, Batch, parse_answer
from smoothmath import Point

PID = "C12"

FOREIGN = [3, 3.0, "x", None, (1, 2), [1], {"a": 1}, object(), float("nan"), True, X, Point, lambda: 0]


def respell(e, rng):
    """numerically equal re-spelling: ints <-> integral floats in values, bases and n"""
    c = wire.cls(e)
    def num(v):
        if isinstance(v, int) and abs(v) < 2 ** 1000 and float(v) == v and rng.random() < 0.6:
            return float(v)          # (an int beyond 2**53 with low bits set has no equal float)
        if isinstance(v, float) and v.is_integer() and rng.random() < 0.6:
            return int(v)
        return v
    if c == "Constant":
        return X.Constant(num(e.value))
    if c == "Variable":
        return X.Variable(e.name)
    if c in ("Add", "Multiply"):
        return e.__class__(*(respell(a, rng) for a in e._inners))
    if c in ("Minus", "Divide", "Power"):
        return e.__class__(respell(e._left, rng), respell(e._right, rng))
    if c in ("NthPower", "NthRoot"):
        return e.__class__(respell(e._inner, rng), num(e._parameter))
    if c in ("Exponential", "Logarithm"):
        return e.__class__(respell(e._inner, rng), base=num(e._parameter))
    return e.__class__(respell(e._inner, rng))


def _other_base(b):
    import random as _r
    if _r.Random(int(min(abs(b), 1e300) * 1000) % 9973).random() < 0.4:
        nb = math.nextafter(float(b), math.inf) if b != 1 else 1.0000000001
        if nb != b and nb != 1 and nb > 0:
            return nb
    nb = b * 2 + 1
    if nb == 1 or nb == b or nb != nb or nb == float('inf'):
        nb = 2.5 if b != 2.5 else 3.5
    return nb


BIG_NEIGHBOURS = [(2 ** 53, 2 ** 53 + 1), (2 ** 53 + 1, float(2 ** 53)), (2 ** 53 + 1, 2 ** 53 + 2), (10 ** 17 + 1, 10 ** 17),
                  (-(10 ** 17) - 1, -1e17), (2 ** 63 - 1, 2 ** 63), (2 ** 63 - 1, 2.0 ** 63), (10 ** 23, 1e23), (3 ** 40, float(3 ** 40)),
                  (2 ** 1030 + 1, 2 ** 1030)]


def nodes(e, path=()):
    yield path, e
    for i, c in enumerate(wire.children(e)):
        yield from nodes(c, path + (i,))


def replace_at(e, path, new):
    if not path:
        return new
    i = path[0]
    c = wire.cls(e)
    ch = wire.children(e)
    ch = ch[:i] + [replace_at(ch[i], path[1:], new)] + ch[i + 1:]
    if c in ("Add", "Multiply"):
        return e.__class__(*ch)
    if c in ("Minus", "Divide", "Power"):
        return e.__class__(*ch)
    if c in ("NthPower", "NthRoot"):
        return e.__class__(ch[0], e._parameter)
    if c in ("Exponential", "Logarithm"):
        return e.__class__(ch[0], base=e._parameter)
    return e.__class__(ch[0])


def mutate(e, rng):
    """an expression differing from ``e`` at exactly one site; (kind, mutant)"""
    path, n = rng.choice(list(nodes(e)))
    c = wire.cls(n)
    if c == "Constant":
        v = n.value
        near = [math.nextafter(float(v), math.inf), float(v) * (1 + 3e-10) if v else 1e-300, float(v) + 1e-12 if abs(v) < 1e3 else float(v) * (1 - 2e-12)]
        nv = rng.choice([v + 1, v - 1, v + 0.5] + near)
        if nv == v:
            nv = v + 1
        return ("value-near" if nv in near else "value"), replace_at(e, path, X.Constant(nv))
    if c == "Variable":
        return "name", replace_at(e, path, X.Variable(n.name + "_"))
    if c in ("NthPower", "NthRoot"):
        if rng.random() < 0.5:
            return "n", replace_at(e, path, n.__class__(n._inner, n._parameter + 1))
        other = X.NthRoot if c == "NthPower" else X.NthPower
        return "class", replace_at(e, path, other(n._inner, n._parameter))
    if c in ("Exponential", "Logarithm"):
        if rng.random() < 0.5:
            return "base", replace_at(e, path, n.__class__(n._inner, base=_other_base(n._parameter)))
        other = X.Logarithm if c == "Exponential" and n._parameter != 1 else X.Exponential
        if other is n.__class__:
            return "base", replace_at(e, path, n.__class__(n._inner, base=_other_base(n._parameter)))
        return "class", replace_at(e, path, other(n._inner, base=n._parameter))
    if c in ("Add", "Multiply"):
        k = rng.choice(["arity+", "arity-", "order", "class"])
        ins = list(n._inners)
        if k == "arity+":
            return k, replace_at(e, path, n.__class__(*ins, X.Constant(0) if c == "Add" else X.Constant(1)))
        if k == "arity-" and ins:
            return k, replace_at(e, path, n.__class__(*ins[:-1]))
        if k == "order" and len(ins) >= 2 and not (ins[0] == ins[-1]):
            return k, replace_at(e, path, n.__class__(*([ins[-1]] + ins[1:-1] + [ins[0]])))
        other = X.Multiply if c == "Add" else X.Add
        return "class", replace_at(e, path, other(*ins))
    if c in ("Minus", "Divide", "Power"):
        if rng.random() < 0.5 and not (n._left == n._right):
            return "order", replace_at(e, path, n.__class__(n._right, n._left))
        other = {"Minus": X.Divide, "Divide": X.Power, "Power": X.Minus}[c]
        return "class", replace_at(e, path, other(n._left, n._right))
    other = {"Negation": X.Reciprocal, "Reciprocal": X.Cosine, "Cosine": X.Sine, "Sine": X.Negation}[c]
    return "class", replace_at(e, path, other(n._inner))


def gen_cases(rng, tier: str) -> list[dict]:
    cases = []
    for origin, e in common.expr_stream(rng, tier, common.sizes(tier, 250, 4000), depth_q=4, depth_t=6, share=0.2, max_size=150):
        r1, r2 = respell(e, rng), respell(e, rng)
        kind, m = mutate(e, rng)
        consts = [pth for pth, n in nodes(e) if wire.cls(n) == "Constant"]
        if consts and rng.random() < 0.12:
            # two different numbers that no double tells apart (and the double next to them), at the same site
            B, B2 = rng.choice(BIG_NEIGHBOURS)
            if rng.random() < 0.5:
                B, B2 = B2, B
            pth = rng.choice(consts)
            e, m, kind = replace_at(e, pth, X.Constant(B)), replace_at(e, pth, X.Constant(B2)), "value-bigint"
            r1, r2 = respell(e, rng), respell(e, rng)
        cases.append({"origin": origin.split(":")[0], "a": wire.expr(e), "b": wire.expr(r1), "c": wire.expr(r2),
                      "m": wire.expr(m), "mkind": kind})
    # a node whose operands are one and the same object, against the same node with only one side changed (a comparison
    # that takes a shortcut when `left is right` must still look at the other side of the other node)
    g = gen.Gen(rng, names=("x", "y"))
    fam = []
    for _ in range(common.sizes(tier, 12, 120)):
        s_ = g.expr(rng.choice([0, 1, 2]))
        kind, t = mutate(s_, rng)
        if wire.expr(t) == wire.expr(s_):
            t = X.Add(s_, X.Constant(1))
        for K in (X.Minus, X.Divide, X.Power, X.Add, X.Multiply):
            a = K(s_, s_)
            for m, side in ((K(s_, t), "right"), (K(t, s_), "left"), (K(t, t), "both")):
                wrap = rng.random() < 0.3
                aa, mm = (X.Sine(a), X.Sine(m)) if wrap else (a, m)
                fam.append({"origin": "shared-operands", "a": wire.expr(aa, ids={}), "b": wire.expr(respell(aa, rng)), "c": wire.expr(respell(aa, rng)),
                              "m": wire.expr(mm), "mkind": "shared-operand-" + side})
    return fam + cases       # the directed family first: it must not fall to the time budget


def same_bool(x) -> bool:
    return x is True or x is False


def check_cases(cases: list[dict], rep: Report, known: dict) -> None:
    b = Batch()
    work = []
    for c in cases:
        if rep.stop():
            break
        a, r1, r2, m = (wire.build_raw(c[k]) for k in ("a", "b", "c", "m"))
        # equality is about the numbers as written: the exact instance decides (a double cannot tell 2**53 + 1 from
        # 2**53); it has no non-finite numbers, those pairs go to the double instance
        ia, ib, ic = ([b.ask(f"{inst} beq {c[u]} {c[v]}") for inst in ("Q", "F0")] for u, v in (("a", "b"), ("a", "m"), ("b", "c")))
        work.append((c, a, r1, r2, m, ia, ib, ic))
    b.run()
    pick = lambda pair: pair[0] if b[pair[0]].startswith("ok") else pair[1]  # noqa: E731
    work = [(c, a, r1, r2, m, pick(ia), pick(ib), pick(ic)) for c, a, r1, r2, m, ia, ib, ic in work]
    for c, a, r1, r2, m, ia, ib, ic in work:
        rep.case((c["a"], c["m"]), wire.size(a) >= 3)
        rep.count("origin", c["origin"])
        rep.count("mutant", c["mkind"])
        def eqs(u, v):
            return call(lambda: (u == v, v == u, u != v, hash(u) == hash(v)))
        for (u, v, idx, label) in ((a, r1, ia, "respelled"), (a, m, ib, "mutant:" + c["mkind"]), (r1, r2, ic, "respelled-pair")):
            rep.evaluations += 1
            got = eqs(u, v)
            _, rest = parse_answer(b[idx])
            mod_eq, mod_hash = rest[0] == "1", rest[1] == "1"
            info = dict(c, pair=label, impl=repr(got), model=b[idx])
            if got[0] != "ok":
                rep.violation(f"comparison raised {got[1]} ({label})", info)
                continue
            e1, e2, ne, hs = got[1]
            if not (same_bool(e1) and same_bool(e2) and same_bool(ne)):
                rep.violation(f"== / != did not return a bool ({label}): {got[1]!r}", info)
                continue
            rep.corr_checked += 1
            if e1 != e2:
                rep.violation(f"equality is not symmetric ({label})", info)
            if ne == e1:
                rep.violation(f"!= is not the negation of == ({label})", info)
            if e1 != mod_eq:
                rep.violation(f"== is {e1} but structural equality (model beq) is {mod_eq} ({label})", info)
            if e1 and not hs:
                rep.violation(f"equal expressions have different hashes ({label})", info)
            if mod_eq and not mod_hash:
                rep.corr_break("model: equal expressions with different hash keys", info)
            if e1:
                s = {u}
                d = {u: 1}
                if v not in s or d.get(v) != 1 or len({u, v}) != 1:
                    rep.violation(f"equal expressions do not find each other in a set/dict ({label})", info)
        # reflexive, transitive
        if not (a == a) or a != a:
            rep.violation("equality is not reflexive", dict(c))
        if (a == r1) and (r1 == r2) and not (a == r2):
            rep.violation("equality is not transitive", dict(c))
        if (a == r1) and not (r1 == m) == (a == m):
            rep.violation("equality is not transitive (mutant)", dict(c))
        # foreign objects
        for f in FOREIGN:
            g1 = call(lambda: (a == f, a != f, f == a))
            rep.evaluations += 1
            if g1[0] != "ok":
                rep.violation(f"comparison with foreign object {f!r} raised {g1[1]}", dict(c))
            elif g1[1][0] is not False or g1[1][1] is not True:
                rep.violation(f"expression compares equal to foreign object {f!r}", dict(c))
        objects(c, a, r1, m, rep)
        rep.sample({"a": c["a"][:150], "respelled": c["b"][:150], "mutant": c["m"][:150], "mkind": c["mkind"]})
    objects_model(work, rep)
    points(rep)


def objects_model(work, rep: Report) -> None:
    """the five public object classes and expressions against the model's `Obj.beq` / `Obj.hashKey`:
    pairs of objects drawn from {a, respelled a, mutant} x {variable, other variable} x {point, the
    same point permuted and re-spelled, one value changed, one coordinate more}, across classes too"""
    import zlib
    b = Batch()
    asks = []
    for c, a, r1, r2, m, *_ in work:
        rng = random.Random(zlib.crc32((c["a"] + c["m"]).encode()))
        vs = sorted(set(a._variable_names) | set(m._variable_names)) or ["x"]
        if not all(n.isascii() and n.isidentifier() for n in vs):
            continue
        x = vs[0]
        base = {n: rng.choice([1, 2, -0.5, 0, 3.0]) for n in vs}
        items = list(base.items())
        rng.shuffle(items)
        pts = [base, {k: (float(v) if isinstance(v, int) else (int(v) if float(v).is_integer() else v)) for k, v in items},
               {**base, x: base[x] + 1}, {**base, "extra_": 1}]
        exprs = [(a, c["a"]), (r1, c["b"]), (m, c["m"])]

        def draw():
            kind = rng.choice(["OE", "OP", "OPA", "ODE", "ODI", "OL"])
            e, we = rng.choice(exprs)
            pt = rng.choice(pts)
            v = rng.choice([x, x, x + "_", vs[-1]])
            if kind == "OE":
                return e, f"OE {we}"
            if kind == "OP":
                return Point(**pt), f"OP {wire.point(pt)}"
            # the state of a derivative object (symbolic partial computed or not, and by which route)
            # is not part of what == and hash look at
            state = rng.choice(["late", "late", "early", "asexpr", "component"])
            if kind == "OPA":
                if state == "early":
                    return sm.Partial(e, v, compute_early=True), f"OPA {v} {we}"
                if state == "asexpr":
                    P = sm.Partial(e, v)
                    P.as_expression()
                    return P, f"OPA {v} {we}"
                if state == "component":
                    return sm.Differential(e, compute_early=True).component(v), f"OPA {v} {we}"
                return sm.Partial(e, v), f"OPA {v} {we}"
            if kind == "ODE":
                if len(e._variable_names) != 1:
                    return sm.Differential(e, compute_early=(state == "early")), f"ODI {we}"
                D = sm.Derivative(e, compute_early=(state == "early"))
                if state == "asexpr":
                    D.as_expression()
                return D, f"ODE {we}"
            if kind == "ODI":
                return sm.Differential(e, compute_early=(state in ("early", "component"))), f"ODI {we}"
            return sm.LocatedDifferential(e, Point(**pt), _private={"numeric_partials": {}}), f"OL {we} {wire.point(pt)}"
        def safe_draw():
            for _ in range(5):
                r = call(draw, timeout=20)
                if r[0] == "ok":
                    return r[1]
            return a, f"OE {c['a']}"
        for _ in range(6):
            o1, w1 = safe_draw()
            o2, w2 = safe_draw() if rng.random() < 0.3 else (None, None)
            if o2 is None:      # mostly the same class, so that equal pairs are frequent
                for _ in range(20):
                    o2, w2 = safe_draw()
                    if type(o2) is type(o1) or (wire.cls(o1) in wire.HEAD and wire.cls(o2) in wire.HEAD):
                        break
            asks.append((c, o1, o2, w1, w2, (b.ask(f"Q obeq {w1} {w2}"), b.ask(f"F0 obeq {w1} {w2}"))))
    b.run()
    asks = [(c, o1, o2, w1, w2, i[0] if b[i[0]].startswith("ok") else i[1]) for c, o1, o2, w1, w2, i in asks]
    import copy
    import pickle
    for c, o1, o2, w1, w2, i in asks[::3]:
        # copies are equal to their originals (structural equality does not care how an object came about)
        for how, mk in (("copy.copy", copy.copy), ("copy.deepcopy", copy.deepcopy), ("pickle", lambda o: pickle.loads(pickle.dumps(o)))):
            rep.evaluations += 1
            r = call(lambda: (lambda d: (d == o1, o1 == d, hash(d) == hash(o1), repr(d) == repr(o1), type(d) is type(o1)))(mk(o1)), timeout=20)
            rep.count("copies", how)
            if r[0] == "err" and r[1] in ("recursion", "timeout", "overflow"):
                continue
            if r != ("ok", (True, True, True, True, True)):
                rep.violation(f"{how} of a {type(o1).__name__} is not equal to its original (==, reversed ==, same hash, same repr, same class) = {r!r}",
                              dict(c, objects=[w1[:200]], how=how))
                break
    for c, o1, o2, w1, w2, i in asks:
        rep.evaluations += 1
        got = call(lambda: (o1 == o2, o2 == o1, o1 != o2, hash(o1) == hash(o2)))
        _, rest = parse_answer(b[i])
        mod_eq, mod_hash = rest[0] == "1", rest[1] == "1"
        info = dict(c, objects=[w1[:200], w2[:200]], impl=repr(got), model=b[i])
        label = type(o1).__name__ if type(o1) is type(o2) else "cross-class"
        if wire.cls(o1) in wire.HEAD and wire.cls(o2) in wire.HEAD:
            label = "Expression"
        rep.count("object-eq-vs-model", f"{label}:{'equal' if mod_eq else 'different'}")
        if got[0] != "ok":
            rep.violation(f"comparison of {label} objects raised {got[1]}", info)
            continue
        e1, e2, ne, hs = got[1]
        rep.corr_checked += 1
        if not (same_bool(e1) and same_bool(e2) and same_bool(ne)):
            rep.violation(f"== / != on {label} objects did not return a bool: {got[1]!r}", info)
        elif e1 != e2 or ne == e1:
            rep.violation(f"{label} objects: == is not symmetric or != is not its negation: {got[1]!r}", info)
        elif e1 != mod_eq:
            rep.violation(f"{label} objects: == is {e1} but equality of their parts (model Obj.beq) is {mod_eq}", info)
        elif e1 and not hs:
            rep.violation(f"equal {label} objects have different hashes", info)
        elif mod_hash and not hs:
            rep.violation(f"{label} objects with the same hash key hash differently", info)
        if mod_eq and not mod_hash:
            rep.corr_break("model: equal objects with different hash keys", info)


def objects(c, a, r1, m, rep: Report) -> None:
    """points and derivative objects: equal exactly when built from equal parts"""
    vs = sorted(a._variable_names) or ["x"]
    x = vs[0]
    p = Point(**{n: 1 for n in vs})
    p2 = Point(**{n: 1.0 for n in reversed(vs)})
    q = Point(**{n: 2 for n in vs})
    ea = a == m
    mk = {
        "Partial": (lambda e, pt=None, v=x: sm.Partial(e, v)),
        "Differential": (lambda e, pt=None, v=x: sm.Differential(e)),
        "LocatedDifferential": (lambda e, pt=p, v=x: sm.LocatedDifferential(e, pt, _private={"numeric_partials": {}})),
    }
    if len(a._variable_names) <= 1 and len(m._variable_names) <= 1:
        mk["Derivative"] = (lambda e, pt=None, v=x: sm.Derivative(e))
    for name, f in mk.items():
        rep.evaluations += 1
        got = call(lambda: (f(a) == f(r1), hash(f(a)) == hash(f(r1)), f(a) == f(m), f(a) != f(m), f(a) == a, f(a) == 3,
                            len({f(a), f(r1)})))
        info = dict(c, object=name, impl=repr(got))
        if got[0] != "ok":
            rep.violation(f"{name} comparison raised {got[1]}", info)
            continue
        e_same, h_same, e_mut, ne_mut, e_expr, e_for, nset = got[1]
        if not e_same or not h_same or nset != 1:
            rep.violation(f"{name} objects built from equal expressions are not equal / hash differently", info)
        if e_mut != ea or ne_mut == e_mut:
            rep.violation(f"{name} objects: == is {e_mut} although the expressions' == is {ea}", info)
        if e_expr or e_for:
            rep.violation(f"{name} equals a foreign object", info)
    got = call(lambda: (sm.Partial(a, x) == sm.Partial(a, x + "_"), sm.Partial(a, x) == sm.Partial(a, X.Variable(x)),
                        sm.LocatedDifferential(a, p, _private={"numeric_partials": {}}) == sm.LocatedDifferential(a, p2, _private={"numeric_partials": {}}),
                        sm.LocatedDifferential(a, p, _private={"numeric_partials": {}}) == sm.LocatedDifferential(a, q, _private={"numeric_partials": {}}),
                        hash(sm.LocatedDifferential(a, p, _private={"numeric_partials": {}})) == hash(sm.LocatedDifferential(a, p2, _private={"numeric_partials": {}}))))
    if got[0] != "ok" or got[1] != (False, True, True, False, True):
        rep.violation(f"Partial / LocatedDifferential equality does not follow variable / point equality: {got!r}", dict(c))
    # the same object reached by different routes (its derived data - numeric partials, symbolic
    # partials - may then differ in the last bit or in shape): still equal, still one hash
    def variants():
        out = {"Partial": [sm.Partial(a, x), sm.Partial(a, x, compute_early=True), sm.Differential(a).component(x),
                           sm.Differential(a, compute_early=True).component(x)]}
        pa = sm.Partial(a, x)
        pa.as_expression()
        out["Partial"].append(pa)
        out["Differential"] = [sm.Differential(a), sm.Differential(a, compute_early=True)]
        if len(a._variable_names) == 1:
            out["Derivative"] = [sm.Derivative(a), sm.Derivative(a, compute_early=True)]
        for pt in (p, Point(**{n: 2.5 for n in vs}), Point(**{n: 0.75 + 0.5 * i for i, n in enumerate(vs)})):
            lds = []
            for mkld in (lambda: sm.LocatedDifferential(a, pt), lambda: sm.Differential(a).at(pt),
                         lambda: sm.Differential(a, compute_early=True).at(pt)):
                try:
                    lds.append(mkld())
                except (sm.DomainError, ZeroDivisionError, OverflowError, ValueError):
                    pass
            out[f"LocatedDifferential@{pt}"] = lds
        return out
    got = call(variants, timeout=60)
    if got[0] == "ok":
        for name, objs in got[1].items():
            for o in objs[1:]:
                rep.evaluations += 1
                r = call(lambda: (objs[0] == o, o == objs[0], hash(objs[0]) == hash(o), len({objs[0], o})))
                rep.count("same-object-by-routes", name.split("@")[0])
                if r[0] != "ok" or r[1] != (True, True, True, 1):
                    rep.violation(f"{name.split('@')[0]} objects for the same expression (and point) obtained by different routes "
                                  f"are not equal / hash differently: (==, reversed ==, same hash, set size) = {r!r}",
                                  dict(c, object=name, first=repr(objs[0])[:200]))


def points(rep: Report) -> None:
    rng = random.Random(7)
    b = Batch()
    work = []
    for _ in range(200):
        names = rng.sample(["x", "y", "z", "w", "self", "_a", "x1"], rng.randint(0, 4))
        d = {n: rng.choice([1, 1.0, 2, -0.5, 0, 0.0]) for n in names}
        items = list(d.items())
        rng.shuffle(items)
        d2 = {k: (float(v) if rng.random() < 0.5 else v) for k, v in items}
        kind = rng.choice(["same", "value", "missing", "extra", "rename"])
        if kind == "value" and d2:
            k = rng.choice(list(d2)); d2[k] = d2[k] + 1
        elif kind == "missing" and d2:
            d2.pop(rng.choice(list(d2)))
        elif kind == "extra":
            d2["extra"] = 1
        elif kind == "rename" and d2:
            k = rng.choice(list(d2)); d2[k + "q"] = d2.pop(k)
        work.append((d, d2, kind, b.ask(f"F0 pbeq {wire.point(d)} {wire.point(d2)}")))
    b.run()
    for d, d2, kind, i in work:
        rep.evaluations += 1
        p, q = Point(**d), Point(**d2)
        got = call(lambda: (p == q, q == p, p != q, hash(p) == hash(q), p == 3, p == d))
        mod = parse_answer(b[i])[1][0] == "1"
        info = {"p": repr(p), "q": repr(q), "kind": kind, "impl": repr(got), "model": b[i]}
        if got[0] != "ok":
            rep.violation(f"Point comparison raised {got[1]}", info)
            continue
        e1, e2, ne, hs, f1, f2 = got[1]
        rep.corr_checked += 1
        if e1 != mod or e1 != e2 or ne == e1 or (e1 and not hs) or f1 or f2:
            rep.violation(f"Point equality/hash wrong: == {e1}, reversed {e2}, != {ne}, hashes equal {hs}, model {mod}", info)
        rep.count("points", kind + (":equal" if mod else ":different"))


def run(rep: Report, rng, tier: str, known: dict, search: bool = False) -> None:
    check_cases(gen_cases(rng, tier), rep, known)


def evidence(rep: Report) -> None:
    write_evidence(
        rep,
        rule="cases = (a, two numerically equal re-spellings of a (int <-> integral float in values, bases, n), a single-site mutant of a: value, name, n, base, class, arity +/-1, argument order); for each pair ==, reversed ==, !=, hash, set/dict membership against the model's beq/hash key; reflexivity, transitivity over the triples; 13 foreign objects; the four derivative objects and points (200 generated pairs: permuted, re-spelled, one value / key changed); non-trivial = >= 3 nodes; distinct by (a, mutant); plus constants mutated into neighbours no double tells apart (2**53 / 2**53+1, 10**17+1 / 1e17, ...), equality asked of the exact instance, copies (copy, deepcopy, pickle) of every kind of object",
        trusted=common.TRUSTED + ["CPython's hash of str/int/float/tuple respects =="],
        assumptions=["finite numeric content (NaN excluded)"],
    )
