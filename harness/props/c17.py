"""C17 — only the library's own errors escape, and results are real numbers.

Oracle on the implementation: on every route and every kind of point (inside, outside, on the
boundary, with coordinates missing) the outcome is a finite real number / an expression, DomainError
or CoordinateMissing.  Tie: the model's outcome for the same query; Properties/C17.lean proves that
no modelled route ever produces one of CPython's own errors (`zeroDiv`, `valueErr`, `complex`)."""
from __future__ import annotations

from .. import wire, gen, common, routes
from ..core import call, sm, X, Report, write_evidence, is_real_number
from ..engine import NumCase, judge_numeric
from . import c02, c07

PID = "C17"

ALLOWED = ("domain", "missing")
SKIP = ("overflow", "timeout", "recursion", "memory")


def gen_cases(rng, tier: str) -> list[dict]:
    exprs = []
    for _ in range(common.sizes(tier, 2, 15)):
        g = gen.Gen(rng, names=("x", "y"))
        for bad in c02.offenders(g) + c07.variable_free_offenders(g):
            exprs.append(("offender", gen.wrap_random(g, bad, 1)))
            exprs += [("hidden", h) for h in c07.skipping_parents(g, bad)[:8]]
        # a variable that occurs only inside an operand the numeric sweeps skip (base one, zero factor, ...), next to a
        # variable that is visited: whatever is read back per variable afterwards must cope with the one never visited
        only = X.Variable("v_only")
        for u in (X.Sine(only), X.Multiply(only, X.Constant(2.0)), X.Add(only, X.Variable("y"))):
            for h in c07.skipping_parents(g, u)[:-1]:
                exprs.append(("skipped-variable", rng.choice([X.Multiply(X.Variable("x"), h), X.Add(h, X.Variable("x")), h])))
    exprs += common.expr_stream(rng, tier, common.sizes(tier, 150, 2500), depth_q=4, depth_t=6, names=("x", "y", "z"), share=0.2, max_size=150)
    # inputs whose symbolic derivative exceeds the 1000-step budget: the fallback path of the rewriter
    from . import c08
    exprs += [("budget", e) for e in c08.big_inputs(rng)[: (1 if tier == "quick" else 3)]]
    chain = X.Variable("x")
    for _ in range(40):
        chain = chain * X.Variable("x")
    exprs.append(("budget", chain))
    cases = []
    for origin, e in exprs:
        vs = common.names_of(e)
        for j, p in enumerate(common.points_for(rng, e, 2 if origin != "budget" else 1)):
            if j == 1 and vs and rng.random() < 0.3:
                p = {k: v for k, v in p.items() if k != rng.choice(vs)}
            if rng.random() < 0.1:
                p = dict(p, **{f"col{k}": float(k) for k in range(rng.choice([9, 10, 11, 12, 25, 60]))})     # many unrelated coordinates
            c = common.make_eval_case(origin, e, p)
            c["x"] = rng.choice(vs) if vs and rng.random() < 0.85 else "w"
            cases.append(c)
    return cases


def check_cases(cases: list[dict], rep: Report, known: dict) -> None:
    ncs = []
    for c in cases:
        if rep.stop():
            break
        e = wire.build_raw(c["e"])
        p = wire.build_point(c["p"])
        rep.case((c["e"], c["p"], c["x"]), wire.size(e) >= 3)
        rep.count("origin", c["origin"].split(":")[0])
        queries = [("at", call(e.at, p), f"eval {c['e']} {c['p']}")]
        for r in routes.routes_for(e, c["x"]):
            xr = c["x"] if r not in routes.DERIV_ROUTES else (common.names_of(e) or ["whatever"])[0]
            out = routes.run_route(r, wire.build_raw(c["e"]), c["x"] if r not in routes.DERIV_ROUTES else None, p)
            queries.append((r, out, f"route {r} {xr} {c['e']} {c['p']}"))
        for kind in ("P", "FE"):
            out = call(lambda: (sm.Partial(wire.build_raw(c["e"]), c["x"]) if kind == "P" else
                                sm.Differential(wire.build_raw(c["e"]), compute_early=True).component(c["x"])).as_expression(), timeout=30)
            rep.evaluations += 1
            if out[0] == "err" and out[1] not in SKIP:
                rep.violation(f"as_expression() ({kind}) raised {out[1]}", dict(c, route="as_expression:" + kind))
            elif out[0] == "ok" and wire.cls(out[1]) not in wire.HEAD:
                rep.violation(f"as_expression() returned {type(out[1]).__name__}", dict(c))
        for name, out, req in queries:
            rep.evaluations += 1
            info = dict(c, route=name, impl=repr(out))
            if out[0] == "err":
                rep.count("outcome", out[1])
                if out[1] in SKIP:
                    rep.skip(out[1])
                    continue
                if out[1] not in ALLOWED:
                    ncs.append(NumCase(None, req, out, dict(info, foreign=True)))
                    continue
            else:
                rep.count("outcome", "number")
            ncs.append(NumCase(None, req, out, info))
    judge_numeric(ncs, rep)
    for nc in ncs:
        info = nc.info
        model = info.get("model_F0", "")
        if any(model.startswith("err " + t) for t in ("zerodiv", "valueerr", "complex")):
            rep.corr_break(f"the model itself produced a CPython-level error ({model}) — contradicts the theorem", info)
        if nc.verdict.startswith("skip"):
            rep.skip(nc.verdict[5:])
            continue
        rep.corr_checked += 1
        out = nc.impl
        if info.get("foreign"):
            rep.violation(f"{info['route']} let {out[1]} escape (model: {model})", info)
        elif out[0] == "ok" and not is_real_number(out[1]):
            rep.violation(f"{info['route']} returned {out[1]!r}, not a finite real number (model: {model})", info)
        elif nc.verdict == "mismatch" and not (out[0] == "err" and model.startswith("err")):
            rep.corr_break(f"{info['route']} differs from the model: {nc.detail}", info)
        elif len(rep.samples) < 6 and out[0] == "err":
            rep.sample({"e": info["e"][:150], "p": info["p"], "route": info["route"], "outcome": out[1]})


def run(rep: Report, rng, tier: str, known: dict, search: bool = False) -> None:
    check_cases(gen_cases(rng, tier), rep, known)
    # resource exhaustion is outside the model: report where it happens, as an assumption
    e = X.Variable("x")
    depth = 0
    for d in (500, 1000, 2000, 4000, 8000):
        f = X.Variable("x")
        for _ in range(d):
            f = X.Negation(f)
        if call(f.at, 1.0)[0] != "ok":
            break
        depth = d
    rep.notes.append(f"deepest Negation chain evaluated without RecursionError under the harness's recursion limit: {depth}")


def evidence(rep: Report) -> None:
    write_evidence(
        rep,
        rule="cases = (expression, point, variable): planted undefined sub-trees (incl. variable-free ones) under skipping parents, rule-directed and random trees over 3 variables with sharing; points inside, outside and on the boundary of the domain, 15% with a coordinate missing; every case runs Expression.at, all numeric routes early and late, and both as_expression() routes; every outcome must be a finite real / an expression / DomainError / CoordinateMissing; non-trivial = >= 3 nodes; distinct by (wire, point, variable); plus variables that occur only in operands the numeric sweeps skip, points with 9-60 unrelated coordinates",
        trusted=common.TRUSTED,
        assumptions=[common.ASSUME_RANGE + " (OverflowError, RecursionError on chains thousands deep and timeouts are counted as skipped: no executable model of the logic exhibits them)"],
    )
