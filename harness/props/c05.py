"""C05 — symbolic derivatives denote the true derivative on the original's domain.

Tie: the implementation's `as_expression()` must be the tree the model computes (`symFwd`/`symRev`
followed by `normalize`).  Oracle, evaluated on the implementation's own output: at every sampled
point of the original's domain it is defined and equals the true partial (model `fwdG`, proved);
it mentions no new variable; it is well formed; differentiating it again gives the true second-order
partial (model: `fwdG` of `symFwd`, both proved)."""
from __future__ import annotations

from .. import wire, gen, common
from ..core import call, sm, X, Report, write_evidence, Batch
from ..engine import NumCase, ExprCase, judge_numeric, judge_expr, answers_agree, out_of_range, _num_answer, widen

PID = "C05"


def k1_corpus() -> list[dict]:
    x = X.Variable("x")
    e = X.Multiply(x, X.NthRoot(X.NthPower(x, 2), 2))
    e2 = X.NthRoot(X.NthPower(X.Add(x, X.Variable("y")), 6), 4)
    return [
        {"origin": "corpus:K1", "e": wire.expr(e, ids={}), "x": "x", "route": "P", "points": [wire.point({"x": -3})]},
        {"origin": "corpus:K1", "e": wire.expr(e2, ids={}), "x": "y", "route": "FE",
         "points": [wire.point({"x": -3, "y": 1})]},
    ]


def gen_cases(rng, tier: str) -> list[dict]:
    cases = []
    stream = common.expr_stream(rng, tier, common.sizes(tier, 150, 2500), depth_q=3, depth_t=5, share=0.2, max_size=120)
    for origin, e in stream:
        vs = common.names_of(e)
        pts = common.points_for(rng, e, 3 if tier == "quick" else 6)
        e2, _ = gen.safe_numbers(e, {})
        floaty = e2 is not e
        c = {"origin": origin, "e": wire.expr(e2, ids={}),
             "x": rng.choice(vs) if vs and rng.random() < 0.9 else "w",
             "route": rng.choice(["P", "P", "FE", "D"] if len(vs) <= 1 else ["P", "P", "FE"]),
             "points": [wire.point({k: float(v) for k, v in p.items()} if floaty else p) for p in pts]}
        if c["route"] == "D":
            c["x"] = vs[0] if vs else "whatever"
        cases.append(c)
        if origin.startswith(("pair", "ppair", "rule")) and vs:
            # both symbolic routes for the directed patterns, in a variable that occurs
            other = dict(c, x=c["x"] if c["x"] in vs else vs[0], route="FE" if c["route"] != "FE" else "P")
            cases.append(other)
        if vs and rng.random() < 0.2 and wire.size(e2) <= 25:
            # higher orders: the simplified first (and second) derivative is itself an input
            d = e2
            for order in (2, 3):
                r = call(lambda: sm.Partial(d, rng.choice(vs)).as_expression(), timeout=20)
                if r[0] != "ok" or wire.size(r[1]) > 120 or not r[1]._variable_names:
                    break
                d = r[1]
                dv = common.names_of(d)
                cases.append({"origin": f"order-{order}", "e": wire.expr(d, ids={}), "x": rng.choice(dv),
                              "route": rng.choice(["P", "FE"]), "points": c["points"]})
    # rewrite rules the model does not know: derivatives whose simplification meets the shapes such a rule is about
    # (t * shape differentiated in t leaves the shape to the simplifier)
    from .. import instrument
    for root, mentioned, ints in instrument.unknown_reducer_hints():
        if root not in gen.ALL:
            continue
        for origin, e in gen.directed_shapes(rng, root, mentioned, ints, 3000):
            e = gen.floatify(e)
            if wire.size(e) > 80:
                continue
            t = X.Variable("t_")
            vs = common.names_of(e)
            which = rng.random()
            full, x = (X.Multiply(t, e), "t_") if which < 0.6 or not vs else (e, rng.choice(vs))
            pts = common.points_for(rng, full, 2)
            cases.append({"origin": "focus:" + origin, "e": wire.expr(full, ids={}), "x": x, "route": rng.choice(["P", "FE"]),
                          "points": [wire.point({k: float(v) for k, v in p.items()}) for p in pts]})
    return cases


def impl_as_expression(e, x: str, route: str):
    x = wire.fresh_str(x)
    if route == "P":
        return call(lambda: sm.Partial(e, x).as_expression(), timeout=20)
    if route == "D":
        return call(lambda: sm.Derivative(e).as_expression(), timeout=20)
    return call(lambda: sm.Differential(e, compute_early=True).component(x).as_expression(), timeout=20)


def wellformed(s) -> str | None:
    """None if ok, else what is wrong"""
    c = wire.cls(s)
    if c not in wire.HEAD:
        return f"foreign node {c}"
    if c in ("NthPower", "NthRoot"):
        n = s._parameter
        if not (isinstance(n, int) and n >= 1):
            return f"{c} with n={n!r}"
    if c == "Exponential" and not s._parameter > 0:
        return f"Exponential base {s._parameter!r}"
    if c == "Logarithm" and not (s._parameter > 0 and s._parameter != 1):
        return f"Logarithm base {s._parameter!r}"
    for ch in wire.children(s):
        w = wellformed(ch)
        if w:
            return w
    return None


def check_cases(cases: list[dict], rep: Report, known: dict) -> None:
    ecs, ncs, sem = [], [], []
    for c in cases:
        if rep.stop():
            break
        e = wire.build_raw(c["e"])
        x, route = c["x"], c["route"]
        with common.WarnCatcher() as wc:
            s = impl_as_expression(e, x, route)
        info = dict(c, impl=repr(s)[:800], warned=wc.count)
        kind = {"P": "P", "D": "P", "FE": "FE"}[route]
        ec = ExprCase((c["e"], x, route), f"asexpr {kind} {x} {c['e']}", s, info, pre=1)
        ec.info["_e"] = e
        ecs.append(ec)
        if s[0] != "ok":
            continue
        se = s[1]
        # oracle on the implementation's own output
        extra = set(se._variable_names) - set(e._variable_names)
        if extra:
            rep.violation(f"as_expression() mentions variables {sorted(extra)} the original does not", info)
        w = wellformed(se)
        if w:
            rep.violation(f"as_expression() is not a well-formed expression: {w}", info)
        vs = common.names_of(e)
        stxt = wire.expr(se)
        dy = common.constants_all_dyadic(se)        # else the simplifier's constant folding has rounded already
        for j, ptxt in enumerate(c["points"]):
            p = wire.build_point(ptxt)
            val = call(se.at, p)
            sem.append((dict(c, p=ptxt, order=1, sexpr=repr(se)[:600], dyadic=dy), f"fwd {x} {c['e']} {ptxt}", f"eval {stxt} {ptxt}"))
            ncs.append(NumCase(None, f"eval {stxt} {ptxt}", val, dict(c, p=ptxt, order=1, impl=repr(val))))
            if j == 0 and vs:
                y = vs[(len(ptxt)) % len(vs)]
                val2 = call(lambda: sm.Partial(se, y).at(p))
                sem.append((dict(c, p=ptxt, order=2, y=y, sexpr=repr(se)[:600], dyadic=dy), f"fwd2 {x} {y} {c['e']} {ptxt}", f"fwd {y} {stxt} {ptxt}"))
                ncs.append(NumCase(None, f"fwd {y} {stxt} {ptxt}", val2, dict(c, p=ptxt, order=2, y=y, impl=repr(val2))))
    raw_symbolic_tie(cases, rep)
    judge_expr(ecs, rep)
    judge_numeric(ncs, rep)
    for ec in ecs:
        e = ec.info.pop("_e")
        info = ec.info
        rep.case(ec.key, wire.size(e) >= 3 and info["x"] in e._variable_names)
        rep.count("origin", info["origin"].split(":")[0])
        rep.count("route", info["route"])
        if ec.verdict.startswith("skip"):
            rep.skip("asexpr-" + ec.verdict[5:])
            continue
        rep.corr_checked += 1
        if ec.verdict == "mismatch":
            if info["warned"]:
                rep.skip("budget-exhausted")
            else:
                rep.corr_break(f"as_expression() is not the tree the model computes: {ec.detail[:500]}", info)
        else:
            rep.sample({"e": info["e"], "x": info["x"], "route": info["route"], "as_expression": info["impl"][:300]})
    for nc in ncs:
        # the implementation's evaluation / differentiation of its own output against the model's
        if nc.verdict.startswith("skip"):
            rep.skip(nc.verdict[5:])
        elif nc.verdict == "mismatch":
            rep.corr_break(f"evaluating the symbolic derivative differs from the model's evaluation of the same tree: {nc.detail}", nc.info)
    # the semantic oracle: the implementation's output, read by the (proved) model, against the truth
    sb = Batch()
    idx = [(sb.ask("Q " + t), sb.ask("F0 " + t), sb.ask("Q " + o), sb.ask("F0 " + o)) for _, t, o in sem]
    sb.run()
    for (info, t, o), (iq, jf, oq, of) in zip(sem, idx):
        rep.evaluations += 1
        a_in, a_out = _num_answer(sb[jf]), _num_answer(sb[of])
        q_in, q_out = _num_answer(sb[iq]), _num_answer(sb[oq])
        if a_in[0] != "ok":
            rep.count("points", "outside-domain")
            continue          # the statement is about points where the original is defined
        if out_of_range(a_in[1]) or (a_out[0] == "ok" and out_of_range(a_out[1])):
            rep.skip("range")
            continue
        rep.count("points", f"in-domain-order{info['order']}")
        info = dict(info, truth=sb[jf], output=sb[of])
        ok = a_out[0] == "ok" and answers_agree(a_in, a_out)
        if ok and info.get("dyadic", True) and q_in[0] == "ok" and q_out[0] == "ok" and q_in[1].rep and q_out[1].rep \
                and q_in[1].q != q_out[1].q:
            ok = False
            info["exact"] = f"{q_in[1].q} vs {q_out[1].q}"
        if ok:
            continue
        if a_out[0] == "err" and q_out[0] == "ok":
            # exact arithmetic evaluates the output, double arithmetic does not: an intermediate of
            # the output under- or overflowed (e.g. x*x for x = 1e-200) - outside every property
            rep.skip("range")
            continue
        if a_out[0] == "err" and a_out[1] == "unsupported":
            rep.skip("model-unsupported")
            continue
        vb = Batch()
        ii = [(vb.ask(f"F{j} " + t), vb.ask(f"F{j} " + o)) for j in (1, 2, 3)]
        vb.run()
        vin = [_num_answer(vb[x_]) for x_, _ in ii]
        vout = [_num_answer(vb[y_]) for _, y_ in ii]
        if "exact" not in info and (any(not answers_agree(v, a_in) for v in vin) or any(not answers_agree(v, a_out) for v in vout)):
            rep.skip("rounding-ambiguous")
            continue
        if "exact" not in info and a_out[0] == "ok" and answers_agree(widen(a_in, vin), widen(a_out, vout)):
            rep.count("points", "agree-after-widening")
            continue
        if attributable_to_k1(info):
            rep.known("K1", "even root of even power rewritten unsoundly inside as_expression()",
                      {"e": info["e"], "x": info["x"], "p": info["p"], "route": info["route"]})
            continue
        what = "value of the symbolic derivative" if info["order"] == 1 else "second-order partial obtained from the symbolic derivative"
        rep.violation(f"{what} is wrong or undefined at a point of the original's domain: truth {sb[jf]}, symbolic {sb[of]}", info)


def raw_symbolic_tie(cases: list[dict], rep: Report) -> None:
    """the un-simplified symbolic derivatives, forward (`_synthetic_partial`) and reverse
    (`_synthetic_partials`), against the model's `symFwd` / `syntheticPartials` trees"""
    ecs = []
    b = Batch()
    rev = []
    for c in cases:
        if rep.stop():
            break
        e = wire.build_raw(c["e"])
        fwd = call(lambda: e._synthetic_partial(c["x"]))
        ecs.append(ExprCase((c["e"], c["x"], "raw-forward"), f"symfwd {c['x']} {c['e']}", fwd,
                            dict(c, impl=repr(fwd)[:500]), pre=0))
        if c["route"] == "FE":
            r = call(lambda: wire.build_raw(c["e"])._synthetic_partials())
            rev.append((c, r, b.ask(f"F0 symrev {c['e']}")))
    judge_expr(ecs, rep)
    for ec in ecs:
        rep.count("raw-symbolic", "forward:" + ec.verdict)
        if ec.verdict == "mismatch":
            rep.corr_break(f"_synthetic_partial is not the tree the model's symFwd builds: {ec.detail[:400]}", ec.info)
        elif ec.verdict == "match":
            rep.corr_checked += 1
    b.run()
    for c, r, i in rev:
        if r[0] != "ok":
            continue
        toks = b[i].split(" ")[1:]
        k = int(toks[0]); j = 1
        model = {}
        for _ in range(k):
            name = toks[j]
            tree, j = wire.parse_expr(toks, j + 1)
            model[name] = tree
        ok = set(model) == set(r[1]) and all(wire.tree_matches(model[n], r[1][n]) for n in model)
        rep.count("raw-symbolic", "reverse:" + ("match" if ok else "mismatch"))
        if ok:
            rep.corr_checked += 1
        else:
            rep.corr_break("_synthetic_partials() differs from the model's syntheticPartials", dict(c, impl=repr(r[1])[:500], model=b[i][:500]))


def attributable_to_k1(info: dict) -> bool:
    """re-run this one query with exactly the K1 rule instance switched off"""
    e = wire.build_raw(info["e"])
    with common.k1_disabled() as k1:
        s = impl_as_expression(e, info["x"], info["route"])
    if s[0] != "ok" or not k1.hits:
        return False
    stxt = wire.expr(s[1])
    if info["order"] == 1:
        t, o = f"fwd {info['x']} {info['e']} {info['p']}", f"eval {stxt} {info['p']}"
    else:
        t, o = f"fwd2 {info['x']} {info['y']} {info['e']} {info['p']}", f"fwd {info['y']} {stxt} {info['p']}"
    b = Batch()
    i, j = b.ask("F0 " + t), b.ask("F0 " + o)
    b.run()
    a_in, a_out = _num_answer(b[i]), _num_answer(b[j])
    return a_out[0] == "ok" and answers_agree(a_in, a_out)


def run(rep: Report, rng, tier: str, known: dict, search: bool = False) -> None:
    check_cases(([] if search else k1_corpus()) + gen_cases(rng, tier), rep, known)


def evidence(rep: Report) -> None:
    write_evidence(
        rep,
        rule="cases = (expression, variable, route) with route in {Partial.as_expression, Derivative.as_expression, Differential(early).component.as_expression}; each output is compared with the model's tree and evaluated (value and one second-order partial) at 3 (quick) / 6 (thorough) grid points, judged where the original is defined; non-trivial = variable occurs and >= 3 nodes; distinct by (wire, variable, route); plus higher orders (the simplified derivative as input), and, when the implementation has rewrite rules the model does not know, shapes built from the constructor names and literals in those rules' source text",
        trusted=common.TRUSTED,
        assumptions=[common.ASSUME_RANGE,
                     "K1 (recorded finding): failures that disappear when the even/even instance of NthRoot(NthPower) rewriting is switched off are reported as KNOWN-FINDING, not as violations"],
    )
