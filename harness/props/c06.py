"""C06 — early, late and every other differentiation route give the same answers.

Oracle on the implementation alone: all routes return the same number (within the sum of the
model's error bounds of the routes compared) or all raise DomainError; early and late
`as_expression()` are equal; `Differential(e).component(v) == Partial(e, v)`;
`Differential(e).at(p) == LocatedDifferential(e, p)`.  Tie: every route against the model's
computation of the same route (Properties/C06.lean proves the model's routes agree)."""
from __future__ import annotations
import math

from .. import wire, gen, common, routes
from ..core import call, sm, X, Report, write_evidence, Batch
from ..engine import NumCase, ExprCase, judge_numeric, judge_expr, widen, _num_answer, answers_agree, out_of_range
from . import c02

PID = "C06"


def corpus() -> list[dict]:
    x, y = X.Variable("x"), X.Variable("y")
    k1 = X.Multiply(x, X.NthRoot(X.NthPower(x, 2), 2))
    k2 = X.Sine(X.Negation(y))
    return [
        {"origin": "corpus:K1", "e": wire.expr(k1, ids={}), "x": "x", "p": wire.point({"x": -3}), "xobj": False},
        {"origin": "corpus:K2", "e": wire.expr(k2, ids={}), "x": "y", "p": wire.point({"y": 0.5}), "xobj": True},
    ]


def gen_cases(rng, tier: str) -> list[dict]:
    cases = []
    exprs = common.expr_stream(rng, tier, common.sizes(tier, 120, 2000), depth_q=3, depth_t=5, share=0.2)
    g = gen.Gen(rng, names=("x", "y"))
    for _ in range(common.sizes(tier, 2, 12)):
        for bad in c02.offenders(g):
            exprs.append(("planted", gen.wrap_random(g, bad, 1)))
            exprs += [("hidden", h) for h in c02.hiding_parents(g, bad)[:6]]
    for origin, e in exprs:
        if wire.size(e) > 150:
            continue            # thirteen routes, most of them simplifying: very large inputs belong to C01-C05, C08
        vs = common.names_of(e)
        prior = None
        for p in common.points_for(rng, e, 2, extra=0.3):
            c = common.make_eval_case(origin, e, p)
            c["x"] = rng.choice(vs) if vs and rng.random() < 0.85 else "w"
            c["xobj"] = rng.random() < 0.5
            c["prior"] = prior
            prior = c["p"]
            if rng.random() < 0.4:
                # another root sharing a compound sub-expression object is used at this point in between
                c["sibling"] = common.make_eval_case(origin, e, common.points_for(rng, e, 1, extra=0.0)[0])["p"]
            if rng.random() < 0.5:
                # the route's own object is asked at a neighbouring point first (hash-colliding if possible)
                p2, q2 = common.hash_twin(p, rng)
                c2 = common.make_eval_case(origin, e, p2)
                c["p"] = c2["p"]
                c["warm"] = common.make_eval_case(origin, e, q2)["p"]
            cases.append(c)
    for origin, pairs in (("near-special", common.near_special(rng, common.sizes(tier, 40, 600))),
                          ("compensating-magnitudes", common.compensating_products(rng, common.sizes(tier, 40, 600))),
                          ("vanishing-factor", common.vanishing_products(rng, common.sizes(tier, 40, 600))),
                          ("tiny-powers", common.tiny_powers(rng, common.sizes(tier, 30, 400)))):
        for e, pt in pairs:
            c = common.make_eval_case(origin, e, pt)
            c.update(x=rng.choice(common.names_of(e)), xobj=rng.random() < 0.5, prior=None)
            cases.append(c)
    return cases


def shared_use(e, p, q) -> None:
    """e is evaluated at p, then *another* root that shares e's compound sub-expression objects is
    evaluated and differentiated at q; whatever that leaves on the shared objects must not matter"""
    subs = [c for c in wire.children(e) if wire.children(c)]
    deeper = [d for c in subs for d in wire.children(c) if wire.children(d)]
    call(e.at, p)
    for w in (subs + deeper)[:3]:
        other = X.Add(w, X.Constant(1))
        call(other.at, q)
        vs = sorted(other._variable_names)
        if vs:
            call(lambda: sm.Partial(other, vs[0]).at(q))


def close(a, b, tol: float) -> bool:
    if a[0] != b[0]:
        return False
    if a[0] == "err":
        return a[1] == b[1]
    try:
        return abs(float(a[1]) - float(b[1])) <= tol
    except (TypeError, ValueError):
        return False


def check_cases(cases: list[dict], rep: Report, known: dict) -> None:
    groups = []
    ncs = []
    ecs = []
    for c in cases:
        if rep.stop():
            break
        e = wire.build_raw(c["e"])
        p = wire.build_point(c["p"])
        x = X.Variable(c["x"]) if c["xobj"] else c["x"]
        names = routes.routes_for(e, c["x"])
        group = []
        for r in names:
            fresh = wire.build_raw(c["e"])       # fresh object; at most one earlier evaluation elsewhere
            if c.get("prior"):
                call(fresh.at, wire.build_point(c["prior"]))
            if c.get("sibling"):
                shared_use(fresh, p, wire.build_point(c["sibling"]))
            xx = x
            if r in routes.DERIV_ROUTES:
                xx = None
            impl = routes.run_route(r, fresh, xx, p, warm=[wire.build_point(c["warm"])] if c.get("warm") else ())
            xr = c["x"] if r not in routes.DERIV_ROUTES else (common.names_of(e) or ["whatever"])[0]
            nc = NumCase((c["e"], c["p"], c["x"], r), f"route {r} {xr} {c['e']} {c['p']}", impl,
                         dict(c, route=r, impl=repr(impl)))
            ncs.append(nc)
            group.append(nc)
        groups.append((c, e, p, group))
        # as_expression: early == late ; object equalities
        if rep.tier == "thorough" or len(groups) % 2 == 0:
            ecs += expr_checks(c, e, p, rep)
    judge_numeric(ncs, rep)
    judge_expr([ec for ec, _ in ecs], rep)
    for c, e, p, group in groups:
        rep.case((c["e"], c["p"], c["x"]), wire.size(e) >= 3)
        rep.count("origin", c["origin"].split(":")[0])
        usable = [nc for nc in group if not nc.verdict.startswith("skip")]
        for nc in group:
            if nc.verdict.startswith("skip"):
                rep.skip(nc.verdict[5:])
        if len(usable) < 2:
            continue
        rep.corr_checked += len(usable)
        # oracle: pairwise agreement of the implementation's own answers
        ref = usable[0]
        bad = None
        for nc in usable[1:]:
            tol = 1e-300
            for z in (ref, nc):
                a = z.info["model_F0"].split(" ")
                if a[0] == "ok":
                    m = wire.MNum(a[1])
                    tol += 64 * m.err + 64 * 2.3e-16 * abs(m.v)
            if not close(ref.impl, nc.impl, tol):
                bad = (ref, nc)
                break
        if bad and bad[0].impl[0] == "ok" and bad[1].impl[0] == "ok":
            # maybe a zero test on a rounded value hid the error bound of one route: ask the
            # guard-decision variants of both routes and use their most pessimistic bounds
            vb = Batch()
            ii = [[vb.ask(f"F{k} " + z.suffix) for k in (1, 2, 3)] for z in bad]
            vb.run()
            tol = 1e-300
            for z, idx in zip(bad, ii):
                a0 = _num_answer(z.info["model_F0"])
                w = widen(a0, [_num_answer(vb[i]) for i in idx])
                if w[0] == "ok":
                    tol += 64 * w[1].err + 64 * 2.3e-16 * abs(w[1].v)
            if close(bad[0].impl, bad[1].impl, tol):
                rep.count("verdicts", "routes-agree-after-widening")
                bad = None
        if bad and bad[0].impl[0] != bad[1].impl[0]:
            # one route raised, the other returned: could a guard have been decided by rounding alone
            # (underflow of x*x in a derivative formula, say)?  Ask the guard-decision variants.
            vb = Batch()
            ii = [[vb.ask(f"F{k} " + z.suffix) for k in (1, 2, 3)] for z in bad]
            vb.run()
            if any(vb[i].split(" ")[0] != z.info["model_F0"].split(" ")[0] for z, idx in zip(bad, ii) for i in idx):
                rep.skip("rounding-ambiguous")
                bad = None
        if bad:
            info = dict(c, routes={nc.info["route"]: nc.info["impl"] for nc in group})
            if k1_explains(c, e, p):
                rep.known("K1", "numeric and simplified-symbolic routes disagree after the even-root-of-even-power rewrite",
                          {"e": c["e"], "x": c["x"], "p": c["p"], "routes": info["routes"]})
            else:
                rep.violation(f"routes disagree: {bad[0].info['route']} gives {bad[0].info['impl']}, "
                              f"{bad[1].info['route']} gives {bad[1].info['impl']}", info)
            continue
        for nc in usable:
            if nc.verdict == "mismatch":
                rep.corr_break(f"route {nc.info['route']} differs from the model: {nc.detail}", nc.info)
        rep.sample({"e": c["e"], "x": c["x"], "p": c["p"], "routes": {nc.info["route"]: nc.info["impl"] for nc in group}})
    for ec, kind in ecs:
        if ec.verdict == "mismatch" and not ec.info.get("warned"):
            rep.corr_break(f"{kind} as_expression() is not the model's tree: {ec.detail[:400]}", ec.info)


def k1_explains(c: dict, e, p) -> bool:
    with common.k1_disabled() as k1:
        outs = []
        for r in routes.routes_for(e, c["x"]):
            fresh = wire.build_raw(c["e"])
            if c.get("prior"):
                call(fresh.at, wire.build_point(c["prior"]))
            if c.get("sibling"):
                shared_use(fresh, p, wire.build_point(c["sibling"]))
            outs.append(routes.run_route(r, fresh, c["x"] if r not in routes.DERIV_ROUTES else None, p,
                                         warm=[wire.build_point(c["warm"])] if c.get("warm") else ()))
    usable = [o for o in outs if not (o[0] == "err" and o[1] in ("overflow", "timeout", "recursion"))]
    if not usable or not k1.hits:
        return False
    ref = usable[0]
    scale = max([abs(float(o[1])) for o in usable if o[0] == "ok"] + [1.0])
    return all(close(ref, o, 1e-9 * scale) for o in usable[1:])


def expr_checks(c: dict, e, p, rep: Report) -> list:
    """structural equalities promised by the documentation"""
    out = []
    x = c["x"]
    mk = lambda: wire.build_raw(c["e"])  # noqa: E731
    with common.WarnCatcher() as wc:
        pl = call(lambda: sm.Partial(mk(), x).as_expression(), timeout=20)
        pe = call(lambda: sm.Partial(mk(), x, compute_early=True).as_expression(), timeout=20)
        fl = call(lambda: sm.Differential(mk()).component(x).as_expression(), timeout=20)
        fe = call(lambda: sm.Differential(mk(), compute_early=True).component(x).as_expression(), timeout=20)
    info = dict(c, warned=wc.count)
    rep.count("as_expression", "compared")
    if pl[0] == "ok" and pe[0] == "ok":
        if not (pl[1] == pe[1]):
            rep.violation(f"Partial early and late as_expression() differ: {pe[1]!r} vs {pl[1]!r}", info)
    elif pl[0] != pe[0] and "timeout" not in (pl[1], pe[1]):
        rep.violation(f"Partial early/late as_expression() outcomes differ: {pe!r} vs {pl!r}", info)
    if len(e._variable_names) <= 1:
        dl = call(lambda: sm.Derivative(mk()).as_expression(), timeout=20)
        de = call(lambda: sm.Derivative(mk(), compute_early=True).as_expression(), timeout=20)
        if dl[0] == "ok" and de[0] == "ok" and not (dl[1] == de[1]):
            rep.violation(f"Derivative early and late as_expression() differ: {de[1]!r} vs {dl[1]!r}", info)
    out.append((ExprCase((c["e"], x, "FL"), f"asexpr FL {x} {c['e']}", fl, dict(info, impl=repr(fl)[:600]), pre=1), "Differential late"))
    ec_fe = ExprCase((c["e"], x, "FE"), f"asexpr FE {x} {c['e']}", fe, dict(info, impl=repr(fe)[:600]), pre=1)
    out.append((ec_fe, "Differential early"))
    if fl[0] == "ok" and fe[0] == "ok" and not (fl[1] == fe[1]):
        # K2: reverse-mode symbolic (early) vs forward-mode symbolic (late); same function?
        same = True
        g = gen.Gen(__import__("random").Random(len(c["e"])))
        vs = common.names_of(e)
        tl, te = wire.expr(fl[1]), wire.expr(fe[1])
        sb = Batch()
        idx = []
        for q in [wire.coords(p)] + [g.point(vs) for _ in range(4)]:
            e0, q0 = gen.safe_numbers(e, q)
            qt = wire.point(q0)
            idx.append((sb.ask(f"F0 eval {c['e']} {qt}"), sb.ask(f"F0 eval {tl} {qt}"), sb.ask(f"F0 eval {te} {qt}"), qt))
        sb.run()
        for i0, i1, i2, qt in idx:
            if not sb[i0].startswith("ok"):
                continue            # only points where the original is defined count
            a, b_ = _num_answer(sb[i1]), _num_answer(sb[i2])
            if a[0] == "ok" and b_[0] == "ok" and answers_agree(a, b_):
                continue
            if any(v[0] == "ok" and out_of_range(v[1]) for v in (a, b_)) or "overflow" in (a[1], b_[1]):
                continue            # an intermediate of one of the two trees leaves the double range here
            vb = Batch()
            jj = [(vb.ask(f"F{k} eval {tl} {qt}"), vb.ask(f"F{k} eval {te} {qt}")) for k in (1, 2, 3)]
            vb.run()
            va, vbb = [_num_answer(vb[x_]) for x_, _ in jj], [_num_answer(vb[y_]) for _, y_ in jj]
            if any(v[0] != a[0] for v in va) or any(v[0] != b_[0] for v in vbb):
                continue            # decided by rounding
            if a[0] == "ok" and b_[0] == "ok" and answers_agree(widen(a, va), widen(b_, vbb)):
                continue
            same = False
        if same:
            rep.known("K2", "Differential early (reverse symbolic) and late (forward symbolic) as_expression() differ structurally though they denote the same function",
                      {"e": c["e"], "x": x, "early": repr(fe[1])[:200], "late": repr(fl[1])[:200]})
        elif k1_asexpr_explains(c, x):
            rep.known("K1", "early/late Differential as_expression() differ in value through the even-root-of-even-power rewrite",
                      {"e": c["e"], "x": x})
        else:
            rep.violation(f"Differential early and late as_expression() denote different functions: {fe[1]!r} vs {fl[1]!r}", info)
    # object equalities
    d = call(lambda: sm.Differential(mk()).component(x) == sm.Partial(mk(), x))
    if d != ("ok", True):
        rep.violation(f"Differential(e).component(v) == Partial(e, v) is {d!r}", info)
    a = call(lambda: sm.Differential(mk()).at(p))
    b = call(lambda: sm.LocatedDifferential(mk(), p))
    if a[0] == "ok" and b[0] == "ok":
        if not (a[1] == b[1]):
            rep.violation("Differential(e).at(p) != LocatedDifferential(e, p)", info)
    elif "overflow" in (a[1], b[1]) or "timeout" in (a[1], b[1]) or "recursion" in (a[1], b[1]):
        rep.skip("impl-overflow")        # an intermediate leaves the double range: outside the property's quantifier
    elif a[0] != b[0] or a[1] != b[1]:
        rep.violation(f"Differential(e).at(p) gives {a!r} but LocatedDifferential(e, p) gives {b!r}", info)
    return out


def k1_asexpr_explains(c: dict, x: str) -> bool:
    with common.k1_disabled() as k1:
        fl = call(lambda: sm.Differential(wire.build_raw(c["e"])).component(x).as_expression(), timeout=20)
        fe = call(lambda: sm.Differential(wire.build_raw(c["e"]), compute_early=True).component(x).as_expression(), timeout=20)
    if fl[0] != "ok" or fe[0] != "ok" or not k1.hits:
        return False
    p = wire.build_point(c["p"])
    a, b = call(fl[1].at, p), call(fe[1].at, p)
    return close(a, b, 1e-8 * max(1.0, abs(float(a[1])) if a[0] == "ok" else 1.0))


def run(rep: Report, rng, tier: str, known: dict, search: bool = False) -> None:
    check_cases(([] if search else corpus()) + gen_cases(rng, tier), rep, known)


def evidence(rep: Report) -> None:
    write_evidence(
        rep,
        rule="cases = (expression, variable as name or object, point supplying the variables, inside or outside the domain); every case runs all routes {Partial late/early/after as_expression, Derivative late/early/after (<=1 variable), Differential.component.at late/early, component_at late/early, Differential.at.component late/early, LocatedDifferential.component} on fresh objects and compares them pairwise and with the model; as_expression early/late and the two object equalities on half of the cases (all in thorough); expressions include planted undefined sub-trees; non-trivial = >= 3 nodes; distinct by (wire, point, variable); plus warm-up calls on the route's own object, hash-twin points, near-special, compensating, vanishing-factor and subnormal-power families, bare-number spelling of the Derivative routes",
        trusted=common.TRUSTED,
        assumptions=[common.ASSUME_RANGE,
                     "K1, K2 (recorded findings) are reported as KNOWN-FINDING when their signature matches"],
    )
