"""C08 — simplification preserves meaning and never shrinks the domain.

Tie (step level): the implementation's successive `_take_reduction_step()` results — event (which
rule fired / constant fold / flag) and size at every step, final form with flags — and its
`_normalize()` output against the model's `stepF` / `normalize` (Properties/C08.lean proves every
model step, the fallback and the normal-form pass meaning-preserving).  Oracle on the implementation's
own outputs: wherever the input is defined, the output (final and intermediate forms) is defined
and has the same value (model evaluation of both; exact in Q when possible)."""
from __future__ import annotations

import re
import random

from .. import wire, gen, common, instrument
from ..core import call, sm, X, Report, write_evidence, Batch, parse_answer
from ..engine import NumCase, ExprCase, judge_numeric, judge_expr, answers_agree, out_of_range, _num_answer, widen

PID = "C08"


def corpus() -> list[dict]:
    x = X.Variable("x")
    items = [X.NthRoot(X.NthPower(x, 2), 2), X.NthRoot(X.NthPower(X.Add(x, X.Variable("y")), 6), 4)]
    return [{"origin": "corpus:K1", "e": wire.expr(e), "points": [wire.point({"x": -3, "y": 1}), wire.point({"x": 2, "y": 1})]}
            for e in items]


def big_inputs(rng) -> list:
    """inputs on which the rewriter gives up (budget exhausted) and returns a partially reduced form"""
    y = X.Variable("y")
    out = []
    for k in (340, 400):
        terms = [X.Negation(X.Negation(X.Variable("x") if i % 2 else y)) for i in range(k)]
        out.append(X.Multiply(y, X.Add(*terms)))
    chain = X.Variable("x")
    for i in range(260):
        chain = X.Negation(X.Reciprocal(chain)) if i % 2 else X.Minus(chain, X.Constant(1))
    out.append(chain)
    return out


def gen_cases(rng, tier: str) -> list[dict]:
    cases = []
    stream = common.expr_stream(rng, tier, common.sizes(tier, 150, 2500), depth_q=4, depth_t=6,
                                rule_rounds=3, names=("x", "y"))
    for origin, e in stream:
        e2, _ = gen.safe_numbers(e, {})
        floaty = e2 is not e
        pts = common.points_for(rng, e, 3 if tier == "quick" else 6)
        cases.append({"origin": origin, "e": wire.expr(e2),
                      "points": [wire.point({k: float(v) for k, v in p.items()} if floaty else p) for p in pts]})
    # reducers the model does not know (a rule was added or renamed): aim the generator at their class
    focus = sorted({m.split("unknown reducer ")[1].split(".")[0] for m in instrument.missing_rules() if "unknown reducer " in m})
    focus = [k for k in focus if k in gen.ALL]
    if focus:
        for origin, e in gen.rich_shapes(rng, 2500, classes=focus):
            e2, _ = gen.safe_numbers(e, {})
            floaty = e2 is not e
            pts = common.points_for(rng, e, 2)
            cases.append({"origin": "focus:" + origin, "e": wire.expr(e2),
                          "points": [wire.point({k: float(v) for k, v in p.items()} if floaty else p) for p in pts]})
    if focus:
        for root, mentioned, ints in instrument.unknown_reducer_hints():
            if root in gen.ALL:
                for origin, e in gen.directed_shapes(rng, root, mentioned, ints, 3000):
                    e2, _ = gen.safe_numbers(e, {})
                    floaty = e2 is not e
                    cases.append({"origin": "focus:" + origin, "e": wire.expr(e2),
                                  "points": [wire.point({k: float(v) for k, v in p.items()} if floaty else p) for p in common.points_for(rng, e, 2)]})
    if tier == "thorough" or True:
        for e in big_inputs(rng)[: (1 if tier == "quick" else 3)]:
            cases.append({"origin": "budget", "e": wire.expr(e), "points": [wire.point({"x": 2, "y": 3}), wire.point({"x": -1.5, "y": 0.5})]})
    return cases


def check_cases(cases: list[dict], rep: Report, known: dict) -> None:
    miss = instrument.missing_rules()
    if miss:
        rep.corr_break("step-level tie impossible: " + "; ".join(miss[:5]), {"missing": miss})
    tb = Batch()
    work = []
    ecs = []
    sem = []          # (case, label, expression text of the output, point)
    for c in cases:
        if rep.stop():
            break
        big = c["origin"] == "budget"
        fresh = wire.build_raw(c["e"])
        with common.WarnCatcher() as wc:
            tr = call(lambda: instrument.traced_reduce(fresh), timeout=60)
            norm = call(lambda: wire.build_raw(c["e"])._normalize(), timeout=60)
        info = dict(c, warned=wc.count)
        if big:
            info["e"] = c["e"][:200] + "..."
        if tr[0] != "ok" or norm[0] != "ok":
            if "timeout" in (tr[1], norm[1]) or "recursion" in (tr[1], norm[1]) or "overflow" in (tr[1], norm[1]):
                rep.skip("impl-" + str(tr[1] if tr[0] != "ok" else norm[1]))
                continue
            rep.violation(f"simplification raised: step loop {tr!r}, _normalize {norm!r}"[:600], info)
            continue
        evs, final, warned, unknown = tr[1]
        it = tb.ask(f"F0 trace 1000 {c['e']}")
        work.append((c, info, evs, final, warned, it, norm[1]))
        ecs.append(ExprCase((c["e"], "normalize"), f"normalize {c['e']}", norm, dict(info, impl=repr(norm[1])[:500]), pre=1))
        # public carrier: the same machinery inside as_expression()
        if not big:
            t = X.Variable("t_fresh")
            car = call(lambda: sm.Partial(X.Multiply(wire.build_raw(c["e"]), t), t).as_expression(), timeout=60)
            if car[0] == "ok":
                for ptxt in c["points"][:2]:
                    sem.append((c, info, "carrier", car[1], ptxt))
        for ptxt in c["points"]:
            sem.append((c, info, "normalize", norm[1], ptxt))
        if not big and len(evs) <= 40:
            # intermediate forms: replay the steps on another fresh copy
            cur = wire.build_raw(c["e"])
            for k in range(len(evs)):
                cur = cur._take_reduction_step()
                if k % 3 == 0:
                    sem.append((c, info, f"step{k + 1}", cur, c["points"][0]))
    tb.run()
    # step-level comparison
    for c, info, evs, final, warned, it, normed in work:
        rep.case((c["e"],), len(evs) >= 3)
        rep.count("origin", c["origin"].split(":")[0])
        k, rest = parse_answer(tb[it])
        mw, mk = rest[0] == "1", int(rest[1])
        mevs = rest[2:2 + mk]
        for ev in evs:
            rep.count("rules-fired(impl)", ev.split(":")[0])
        rep.count("steps", str(min(len(evs) // 10 * 10, 1000)))
        rep.corr_checked += 1
        if warned or mw:
            rep.count("budget", f"impl-warned={warned} model-warned={mw}")
        if evs != mevs:
            first = next((i for i, (a, b) in enumerate(zip(evs, mevs)) if a != b), min(len(evs), len(mevs)))
            # a constant folded to a value whose zero-ness is decided by rounding: ask the variants
            vb = Batch()
            ii = [vb.ask(f"F{j} trace 1000 {c['e']}") for j in (1, 2, 3)]
            vb.run()
            if any(vb[i].split(" | ")[0] != tb[it].split(" | ")[0] for i in ii):
                rep.skip("rounding-ambiguous")
            else:
                rep.corr_break(f"step trace differs from the model at step {first + 1}: implementation "
                               f"{evs[max(0, first - 1):first + 2]} vs model {mevs[max(0, first - 1):first + 2]}",
                               dict(info, impl_trace=evs[:60], model_trace=mevs[:60]))
        elif not warned:
            tree, _ = wire.parse_expr(tb[it].split(" | ")[1].split(" "))
            why: list = []
            if not wire.tree_matches(tree, final, flags=True, why=why):
                rep.corr_break(f"fully reduced form (with flags) differs from the model: {why[:3]}", info)
            else:
                rep.sample({"e": c["e"][:300], "steps": evs[:12], "normalized": repr(normed)[:200]})
    judge_expr(ecs, rep)
    for ec in ecs:
        if ec.verdict == "mismatch":
            rep.corr_break(f"_normalize() differs from the model: {ec.detail[:500]}", ec.info)
        elif ec.verdict.startswith("skip"):
            rep.skip("normalize-" + ec.verdict[5:])
    # semantic oracle on the implementation's outputs
    sb = Batch()
    idx = []
    for c, info, label, out, ptxt in sem:
        otxt = wire.expr(out)
        optxt = out_point(label, out, ptxt)
        idx.append((sb.ask(f"Q eval {c['e']} {ptxt}"), sb.ask(f"F0 eval {c['e']} {ptxt}"),
                    sb.ask(f"Q eval {otxt} {optxt}"), sb.ask(f"F0 eval {otxt} {optxt}")))
    sb.run()
    for (c, info, label, out, ptxt), (iq, jf, oq, of) in zip(sem, idx):
        rep.evaluations += 1
        a_in, a_out = _num_answer(sb[jf]), _num_answer(sb[of])
        q_in, q_out = _num_answer(sb[iq]), _num_answer(sb[oq])
        if a_in[0] != "ok":
            rep.count("semantic", "input-undefined")
            continue
        if out_of_range(a_in[1]) or (a_out[0] == "ok" and out_of_range(a_out[1])):
            rep.skip("range")
            continue
        case = dict(info, p=ptxt, form=label, output=repr(out)[:500], model_in=sb[jf], model_out=sb[of])
        ok = a_out[0] == "ok" and answers_agree(a_in, a_out)
        if ok and q_in[0] == "ok" and q_out[0] == "ok" and q_in[1].rep and q_out[1].rep and q_in[1].q != q_out[1].q:
            if common.tree_has(wire.build_raw(c["e"]), common.libm_site) or not common.constants_all_dyadic(out):
                # constant folding rounds: through libm (cbrt, **, log: the recorded finding K3 seen through a
                # folded constant) or by plain division (6 * (1/5) is 1.2000000000000002) - within the bound is enough
                rep.count("semantic", "preserved(inexact-libm-folding)")
                continue
            ok = False
            case["exact"] = f"{q_in[1].q} vs {q_out[1].q}"
        if ok:
            rep.count("semantic", "preserved")
            continue
        if a_out[0] == "err" and q_out[0] == "ok":
            # exact arithmetic evaluates the output, double arithmetic does not: an intermediate of
            # the output under- or overflowed (e.g. x*x for x = 1e-200) - outside every property
            rep.skip("range")
            continue
        if a_out[0] == "err" and a_out[1] in ("unsupported",):
            rep.skip("model-unsupported")
            continue
        # ambiguity by rounding?
        vb = Batch()
        ii = [(vb.ask(f"F{j} eval {c['e']} {ptxt}"), vb.ask(f"F{j} eval {wire.expr(out)} {out_point(label, out, ptxt)}")) for j in (1, 2, 3)]
        vb.run()
        vin = [_num_answer(vb[a]) for a, _ in ii]
        vout = [_num_answer(vb[b]) for _, b in ii]
        if "exact" not in case and (any(not answers_agree(v, a_in) for v in vin) or any(not answers_agree(v, a_out) for v in vout)):
            rep.skip("rounding-ambiguous")
            continue
        if "exact" not in case and a_out[0] == "ok" and answers_agree(widen(a_in, vin), widen(a_out, vout)):
            rep.count("semantic", "preserved-after-widening")
            continue
        if "exact" not in case and a_out[0] == "ok":
            slack = folding_slack(c["e"], wire.expr(out), out_point(label, out, ptxt), a_out[1].v)
            if slack is None:
                rep.skip("rounding-ambiguous")
                continue
            x, y = widen(a_in, vin)[1], widen(a_out, vout)[1]
            if abs(x.v - y.v) <= slack + 64 * (x.err + y.err) + 64 * 2.3e-16 * max(abs(x.v), abs(y.v)):
                # "up to rounding of folded constants": Add(1 - y, c) folds to (1 + c) - y, and at y = 1 the
                # half ulp lost in 1 + c is all that is left (sweep seed 149)
                rep.count("semantic", "preserved-up-to-rounding-of-folded-constants")
                continue
        if k1_explains(c, label, ptxt):
            rep.known("K1", "NthRoot(NthPower(u, m), n) with n, m even rewritten to NthPower(NthRoot(u, n), m): value or domain changes for negative u",
                      {"e": c["e"][:300], "p": ptxt, "form": label})
            continue
        what = "is undefined" if a_out[0] != "ok" else "has a different value"
        rep.violation(f"simplified form ({label}) {what} at a point where the input is defined: input {sb[jf]}, output {sb[of]}", case)


FOLD_ULPS = 8


def folding_slack(etxt: str, otxt: str, optxt: str, v0: float):
    """first-order effect on the output's value of moving every float constant the simplifier created (one
    that does not occur in the input) by FOLD_ULPS units in its last place, one constant at a time; None when
    such a move changes whether the output is defined"""
    import math
    import struct
    have = set(re.findall(r"\bx[0-9a-f]{16}\b", etxt))
    toks = otxt.split(" ")
    sites = [i for i, t in enumerate(toks) if i and toks[i - 1] == "C" and re.fullmatch(r"x[0-9a-f]{16}", t) and t not in have]
    if not sites or len(sites) > 40:
        return 0.0
    b = Batch()
    asks = []
    for i in sites:
        v = struct.unpack("<d", struct.pack("<Q", int(toks[i][1:], 16)))[0]
        if not math.isfinite(v):
            return 0.0
        u = math.ulp(v) * FOLD_ULPS
        pair = []
        for w in (v + u, v - u):
            t2 = toks[:]
            t2[i] = wire.num(w)
            pair.append(b.ask(f"F0 eval {' '.join(t2)} {optxt}"))
        asks.append(pair)
    b.run()
    total = 0.0
    for pair in asks:
        worst = 0.0
        for k in pair:
            a = _num_answer(b[k])
            if a[0] != "ok":
                return None
            worst = max(worst, abs(a[1].v - v0) + a[1].err)
        total += worst
    return total


def out_point(label: str, out, ptxt: str) -> str:
    """a partially reduced carrier (step budget exhausted) still mentions the auxiliary variable, e.g.
    as 0.0 * t_fresh; its value does not depend on it, so the point gets a coordinate for it"""
    if label == "carrier" and "t_fresh" in out._variable_names:
        k, _, rest = ptxt.partition(" ")
        return f"{int(k) + 1} {rest} t_fresh 1".replace("  ", " ")
    return ptxt


def k1_explains(c: dict, label: str, ptxt: str) -> bool:
    with common.k1_disabled() as k1:
        e = wire.build_raw(c["e"])
        if label == "normalize":
            out = call(e._normalize, timeout=60)
        elif label == "carrier":
            t = X.Variable("t_fresh")
            out = call(lambda: sm.Partial(X.Multiply(e, t), t).as_expression(), timeout=60)
        else:
            k = int(label[4:])
            def go():
                cur = e
                for _ in range(k):
                    cur = cur._take_reduction_step()
                return cur
            out = call(go, timeout=60)
    if out[0] != "ok" or not k1.hits:
        return False
    b = Batch()
    i, j = b.ask(f"F0 eval {c['e']} {ptxt}"), b.ask(f"F0 eval {wire.expr(out[1])} {ptxt}")
    b.run()
    a_in, a_out = _num_answer(b[i]), _num_answer(b[j])
    return a_out[0] == "ok" and answers_agree(a_in, a_out)


def run(rep: Report, rng, tier: str, known: dict, search: bool = False) -> None:
    check_cases(([] if search else corpus()) + gen_cases(rng, tier), rep, known)
    fired = rep.hist.get("rules-fired(impl)", {})
    uncovered = [r for r in instrument.ALL_RULES if r not in fired]
    rep.hist["rules-not-fired"] = {r: 0 for r in uncovered}
    if uncovered and not search:
        rep.notes.append("rules not exercised in this run: " + ", ".join(uncovered))


def evidence(rep: Report) -> None:
    write_evidence(
        rep,
        rule="cases = expressions from the rule-directed stream (every rule's left-hand side with random holes, parameter pairs n,m in 1..6 incl. equal and common-factor pairs, bases e/2/0.5/10, arity 0-3 and random positions in n-ary nodes, also planted under random parents), random trees, and inputs that exhaust the step budget; per case: the full step trace (event, size) and the flagged final form against the model, _normalize() against the model, the as_expression() carrier, and the semantic oracle at 3/6 grid points for the normal form and every third intermediate form; non-trivial = at least 3 steps; distinct by wire form; plus, when the implementation has rewrite rules the model does not know, shapes built from the constructor names and literals in those rules' source text; a value difference is reported only beyond the first-order effect of moving every constant the simplifier created by 8 ulp",
        trusted=common.TRUSTED + ["private entry points _take_reduction_step/_normalize/_reduce_* are wrapped in-process (harness/instrument.py); no change to the repository"],
        assumptions=[common.ASSUME_RANGE, "K1 (recorded finding) reported as KNOWN-FINDING when its signature matches"],
    )
