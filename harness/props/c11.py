"""C11 — simplification terminates in a rule-free form, without cycles.

Tie: every step trace against the model (Properties/C11.lean proves that each model step strictly
decreases a well-founded measure, hence no cycle and termination in a form to which no rule applies).
Measured on the implementation (not proved): no form is revisited after a rewrite, steps <= 4*size^2+8,
no 'unable to fully reduce' warning for inputs of at most 20 nodes, and the final form is rule-free
(one more pass of every reducer over every node returns None)."""
from __future__ import annotations
import itertools
import math

from .. import wire, gen, common, instrument
from ..core import call, sm, X, Report, write_evidence, Batch, parse_answer

PID = "C11"


def leaves():
    return [X.Variable("x"), X.Variable("y"), X.Constant(0), X.Constant(1), X.Constant(-1), X.Constant(2)]


def unary_makers():
    return [
        ("Negation", X.Negation), ("Reciprocal", X.Reciprocal), ("Cosine", X.Cosine), ("Sine", X.Sine),
        ("NthPower1", lambda u: X.NthPower(u, 1)), ("NthPower2", lambda u: X.NthPower(u, 2)),
        ("NthPower3", lambda u: X.NthPower(u, 3)), ("NthPower4", lambda u: X.NthPower(u, 4)),
        ("NthRoot1", lambda u: X.NthRoot(u, 1)), ("NthRoot2", lambda u: X.NthRoot(u, 2)),
        ("NthRoot3", lambda u: X.NthRoot(u, 3)), ("NthRoot4", lambda u: X.NthRoot(u, 4)),
        ("Exp", lambda u: X.Exponential(u)), ("Exp2", lambda u: X.Exponential(u, base=2)),
        ("Exp1", lambda u: X.Exponential(u, base=1)),
        ("Log", lambda u: X.Logarithm(u)), ("Log2", lambda u: X.Logarithm(u, base=2)),
    ]


def binary_makers():
    return [
        ("Add", lambda a, b: X.Add(a, b)), ("Multiply", lambda a, b: X.Multiply(a, b)),
        ("Minus", X.Minus), ("Divide", X.Divide), ("Power", X.Power),
        ("Add3", lambda a, b: X.Add(a, b, a)), ("Mul3", lambda a, b: X.Multiply(b, a, b)),
        ("Add1", lambda a, b: X.Add(a)), ("Mul1", lambda a, b: X.Multiply(b)),
    ]


def combos(rng, tier: str) -> list:
    """a node with children and grandchildren that enable several rules at once (<= 20 nodes)"""
    out = []
    U, B, L = unary_makers(), binary_makers(), leaves()
    # unary chains of length 3 over every triple
    triples = list(itertools.product(U, U, U))
    rng.shuffle(triples)
    for (n1, f1), (n2, f2), (n3, f3) in triples[: common.sizes(tier, 500, len(triples))]:
        out.append((f"chain:{n1}/{n2}/{n3}", f1(f2(f3(rng.choice(L[:2]))))))
    # binary parent over unary/binary children over leaves
    kids = [(n, f) for n, f in U] + [(n, (lambda f: lambda u: f(u, X.Variable("y")))(f)) for n, f in B] \
        + [(n + "'", (lambda f: lambda u: f(X.Constant(2), u))(f)) for n, f in B]
    pairs = list(itertools.product(B, kids, kids))
    rng.shuffle(pairs)
    for (nb, fb), (k1, g1), (k2, g2) in pairs[: common.sizes(tier, 600, 6000)]:
        out.append((f"bin:{nb}({k1},{k2})", fb(g1(rng.choice(L)), g2(rng.choice(L)))))
    # unary over binary over unary
    tri = list(itertools.product(U, B, U, U))
    rng.shuffle(tri)
    for (n1, f1), (nb, fb), (n2, f2), (n3, f3) in tri[: common.sizes(tier, 500, 6000)]:
        out.append((f"ubu:{n1}/{nb}/{n2},{n3}", f1(fb(f2(rng.choice(L)), f3(rng.choice(L))))))
    return out


def families(tier: str) -> list:
    """long nested chains and wide nodes, up to a few hundred nodes"""
    x, y = X.Variable("x"), X.Variable("y")
    out = []
    sizes_ = (5, 10, 20, 40) if tier == "quick" else (5, 10, 20, 40, 80, 120)
    for n in sizes_:
        e = x
        for i in range(n):
            e = X.Negation(X.Add(e, y))
        out.append((f"neg-sum-tower:{n}", e))
        e = x
        for i in range(n):
            e = X.Reciprocal(X.Multiply(e, y))
        out.append((f"recip-prod-tower:{n}", e))
        e = x
        for i in range(n):
            e = X.NthRoot(X.NthPower(e, 3), 3) if i % 2 else X.NthPower(X.NthRoot(e, 5), 3)
        out.append((f"root-power-tower:{n}", e))
        e = x
        for i in range(n):
            e = X.Minus(y, X.Divide(e, y))
        out.append((f"minus-divide-tower:{n}", e))
        e = x
        for i in range(n):
            e = X.Power(e, X.Negation(y)) if i % 2 else X.Power(X.Reciprocal(e), y)
        out.append((f"power-tower:{n}", e))
        out.append((f"wide-sum:{n}", X.Add(*[X.Negation(X.Negation(X.Logarithm(X.Variable(f"v{i % 3}")))) for i in range(n)])))
        out.append((f"wide-product:{n}", X.Multiply(*[X.Reciprocal(X.Negation(X.Exponential(X.Variable(f"v{i % 3}")))) for i in range(n)])))
        e = x
        for i in range(n):
            e = X.Multiply(X.Add(e, X.Constant(1)), X.Add(e, X.Constant(2))) if i < 6 else X.Sine(X.Negation(e))
        out.append((f"shared-product:{n}", e))
    return out


def gen_cases(rng, tier: str) -> list[dict]:
    cases = []
    for origin, e in combos(rng, tier) + families(tier):
        cases.append({"origin": origin, "e": wire.expr(gen.floatify(e))})
    for origin, e in gen.rich_shapes(rng, common.sizes(tier, 150, 1500)):
        cases.append({"origin": origin, "e": wire.expr(gen.floatify(e))})
    # reducers the model does not know (a rule was added or renamed): aim the generator at their class
    focus = sorted({m.split("unknown reducer ")[1].split(".")[0] for m in instrument.missing_rules() if "unknown reducer " in m})
    focus = [k for k in focus if k in gen.ALL]
    if focus:
        for origin, e in gen.rich_shapes(rng, 2500, classes=focus):
            cases.append({"origin": "focus:" + origin, "e": wire.expr(gen.floatify(e))})
        for root, mentioned, ints in instrument.unknown_reducer_hints():
            if root in gen.ALL:
                for origin, e in gen.directed_shapes(rng, root, mentioned, ints, 6000):
                    cases.append({"origin": "focus:" + origin, "e": wire.expr(gen.floatify(e))})
    # symbolic derivatives of such trees
    g = gen.Gen(rng, names=("x", "y"), floats_only=True)
    for origin, e in common.expr_stream(rng, tier, common.sizes(tier, 120, 1500), depth_q=4, depth_t=5, names=("x", "y")):
        e = gen.floatify(e)
        cases.append({"origin": "stream:" + origin.split(":")[0], "e": wire.expr(e)})
        if e._variable_names:
            d = call(lambda: e._synthetic_partial(sorted(e._variable_names)[0]))
            if d[0] == "ok" and wire.size(d[1]) <= 400:
                cases.append({"origin": "derivative", "e": wire.expr(d[1])})
            if rng.random() < 0.5:
                # an expression object handed out by an earlier simplification, reused inside a new one
                cases.append({"origin": "reuse", "e": wire.expr(e), "reuse": rng.randrange(len(REUSE_SHAPES))})
    return cases


REUSE_SHAPES = [
    lambda r, x: X.Divide(r, x), lambda r, x: X.Multiply(X.Negation(r), x), lambda r, x: X.Reciprocal(r),
    lambda r, x: X.Minus(r, r), lambda r, x: X.Add(r, X.Multiply(x, r)), lambda r, x: X.Power(r, X.Constant(2.0)),
    lambda r, x: X.Logarithm(X.Exponential(r)), lambda r, x: X.NthPower(X.Divide(x, r), 2),
]


def rule_free(e) -> str | None:
    """is some reducer applicable at some node of a fully reduced form?"""
    for r in e._reducers if hasattr(e, "_reducers") else []:
        if r() is not None:
            return f"{r.__name__} applies at {wire.cls(e)}"
    for c in wire.children(e):
        w = rule_free(c)
        if w:
            return w
    return None


def still_applies(form) -> str | None:
    """the first rewrite or folding event when a freshly built copy of ``form`` is driven step by step"""
    fresh = wire.build_raw(wire.expr(form))
    m = wire.size(fresh)
    with instrument.observing() as log:
        def again():
            f = fresh
            for _ in range(4 * m * m + 8):
                if f._is_fully_reduced:
                    return
                f = f._take_reduction_step()
        r = call(again, timeout=60)
    return log.events[0] if r[0] == "ok" and log.events else None


def library_driver(c: dict, info: dict, cur, rep: Report, finals: list, fb: Batch) -> None:
    """the library's own loop (`_fully_reduce`, the one as_expression() runs) rather than steps taken by hand: it
    must stop at a rule-free form too - also for an input that merely *hashes* like a form it returned before
    (-1 and -2, 1 and 2**61 hash alike in CPython), which is what any memo of finished forms would be keyed by"""
    got = call(lambda: wire.build_raw(c["e"])._fully_reduce(), timeout=30)
    rep.evaluations += 1
    if got[0] != "ok":
        if got[1] not in ("timeout", "recursion", "overflow"):
            rep.violation(f"_fully_reduce raised {got[1]} although the steps taken one by one succeed", info)
        return
    out = got[1]
    if wire.expr(out) != wire.expr(cur):
        ev = still_applies(out)
        rep.count("library-driver", "other-form")
        if ev:
            rep.violation(f"_fully_reduce stops at a form that is not rule-free: {ev} still applies to {repr(out)[:200]}", info)
        return
    rep.count("library-driver", "same-form")
    if rep.hist.get("hash-twins", {}).get("tried", 0) >= (200 if rep.tier == "quick" else 2000):
        return
    for w in common.expr_hash_twins(wire.expr(out)):
        t = wire.build_raw(w)
        same = call(lambda: hash(t) == hash(out) and t != out)
        if same != ("ok", True):
            continue
        rep.count("hash-twins", "tried")
        rep.evaluations += 1
        r = call(lambda: t._fully_reduce(), timeout=30)
        if r[0] != "ok":
            if r[1] not in ("timeout", "recursion", "overflow", "domain"):
                rep.violation(f"_fully_reduce raised {r[1]} on {repr(t)[:200]}", dict(info, twin=w))
            continue
        ev = still_applies(r[1])
        if ev:
            rep.violation(f"after returning {repr(out)[:160]}, _fully_reduce stops {repr(t)[:160]} (a different expression with the same "
                          f"hash) at a form that is not rule-free: {ev} still applies to {repr(r[1])[:200]}", dict(info, twin=w))
        elif wire.size(r[1]) <= 300:
            finals.append((dict(c, twin=w), dict(info, twin=w), fb.ask(f"F0 trace 200 {wire.expr(r[1])}"), repr(r[1])[:300], wire.expr(r[1])))


def check_cases(cases: list[dict], rep: Report, known: dict) -> None:
    miss = instrument.missing_rules()
    if miss:
        rep.corr_break("step-level tie impossible: " + "; ".join(miss[:5]), {"missing": miss})
    tb = Batch()
    fb = Batch()
    finals = []
    work = []
    worst = (0.0, None)
    for c in cases:
        if rep.stop():
            break
        e = wire.build_raw(c["e"])
        model_text = c["e"]
        if c.get("reuse") is not None:
            vs = sorted(e._variable_names) or ["x"]
            with common.WarnCatcher() as wc0:
                got = call(lambda: sm.Partial(e, vs[0]).as_expression(), timeout=30)
            if got[0] != "ok" or wc0.count:
                rep.skip("reuse-base-not-simplified")
                continue
            e = REUSE_SHAPES[c["reuse"]](got[1], X.Variable(vs[0]))
            if wire.size(e) > 600:
                rep.skip("reuse-too-large")
                continue
            model_text = wire.expr(e, flags=True)      # the model starts from the flags the objects carry
        n = wire.size(e)
        seen = {wire.expr(e)}
        evs = []
        cur = e
        repeated = None
        warned = False
        with instrument.observing() as log:
            def loop():
                nonlocal cur, repeated, warned
                for _ in range(min(4 * n * n + 8, 2000000) + 1):
                    if cur._is_fully_reduced:
                        return
                    n0 = len(log.events)
                    cur = cur._take_reduction_step()
                    new = log.events[n0:]
                    ev = new[0] if new else "flag"
                    evs.append(f"{ev}:{wire.size(cur)}")
                    if new:
                        t = wire.expr(cur)
                        if t in seen and repeated is None:
                            repeated = (len(evs), ev)
                        seen.add(t)
                warned = True
            r = call(loop, timeout=30 if rep.tier == "quick" else 120)
        rep.case((c["e"],), len(evs) > n)
        rep.count("origin", c["origin"].split(":")[0])
        rep.count("size", str(min(n // 10 * 10, 400)))
        if r[0] != "ok":
            if r[1] in ("timeout", "recursion", "overflow"):
                rep.skip("impl-" + r[1])
                continue
            rep.violation(f"rewriting raised {r[1]}", c)
            continue
        steps = len(evs)
        ratio = steps / (n * n)
        if ratio > worst[0]:
            worst = (ratio, {"e": c["e"][:200], "size": n, "steps": steps})
        info = dict(c, size=n, steps=steps, trace=evs[:80])
        if repeated:
            rep.violation(f"a form is revisited at step {repeated[0]} (after {repeated[1]}): the rewriter cycles", info)
        if warned:
            rep.violation(f"no rule-free form reached within 4*size^2+8 = {4 * n * n + 8} steps from a {n}-node input", info)
        elif steps > 4 * n * n + 8:
            rep.violation(f"{steps} steps for a {n}-node input exceeds 4*size^2+8", info)
        if n <= 20 and steps > 1000:
            rep.violation(f"a {n}-node input needs {steps} > 1000 steps: the library's budget warns on a small input", info)
        if not warned:
            w = call(lambda: rule_free(cur))
            if w[0] == "ok" and w[1]:
                rep.violation(f"the form flagged fully reduced is not rule-free: {w[1]}", info)
            else:
                # the same question without trusting any flag: a freshly built copy of the final form
                # (no reduction / failed-evaluation memos) must go through the driver without a single
                # rewrite or constant folding
                fresh = wire.build_raw(wire.expr(cur))
                m = wire.size(fresh)
                with instrument.observing() as log2:
                    def again():
                        f = fresh
                        for _ in range(4 * m * m + 8):
                            if f._is_fully_reduced:
                                return
                            f = f._take_reduction_step()
                    r2 = call(again, timeout=60)
                if r2[0] == "ok" and log2.events:
                    rep.violation(f"the final form is not rule-free: on a fresh copy of it {log2.events[0]} still applies "
                                  f"({wire.size(cur)} nodes: {repr(cur)[:200]})", info)
                rep.count("final-form-recheck", "rule-free" if not log2.events else "not-rule-free")
                if not log2.events and wire.size(cur) <= 300:
                    # ... and by the documented rules rather than the implementation's own verdict: the model's
                    # rewriter (46 proved rules and constant folding) must find nothing to do on the final form
                    finals.append((c, info, fb.ask(f"F0 trace 200 {wire.expr(cur)}"), repr(cur)[:300], wire.expr(cur)))
        if not warned and steps <= 1000 and c.get("reuse") is None and not rep.stop():
            library_driver(c, info, cur, rep, finals, fb)
        # (a reused object occurring twice shares its flags between the occurrences; the tree model
        #  does not — those shapes are judged on the implementation alone)
        if steps <= 1000 and c.get("reuse") not in (3, 4):
            it = tb.ask(f"F0 trace 1000 {model_text}")
            work.append((dict(c, e=model_text), info, evs, it))
        for ev in evs:
            rep.count("rules-fired(impl)", ev.split(":")[0])
    # small inputs through the public API: no warning
    small = [c for c in cases if len(c["e"].split()) <= 40][:300]
    for c in small:
        if rep.stop():
            break
        e = wire.build_raw(c["e"])
        if wire.size(e) > 20:
            continue
        with common.WarnCatcher() as wc:
            t = X.Variable("t_fresh")
            call(lambda: sm.Partial(X.Multiply(e, t), t).as_expression(), timeout=60)
        rep.evaluations += 1
        if wc.count:
            rep.violation(f"'Unable to fully reduce' warning for a {wire.size(e)}-node expression", c)
    fb.run()
    for c, info, i_f, shown, ftxt in finals:
        k, rest = parse_answer(fb[i_f])
        mk = int(rest[1])
        mevs = [e_.split(":")[0] for e_ in rest[2:2 + mk]]
        real = [e_ for e_ in mevs if e_ not in ("flag", "already")]
        rep.count("final-form-by-the-model", "rule-free" if not real else "rule-applies")
        if real:
            vb = Batch()
            ii = [vb.ask(f"F{j} trace 200 {ftxt}") for j in (1, 2, 3)]
            vb.run()
            if any(vb[i].split(" | ")[0] != fb[i_f].split(" | ")[0] for i in ii):
                rep.skip("rounding-ambiguous")          # a fold decided by rounding
                continue
            rep.violation(f"the form the implementation stops at is not rule-free: the rule {real[0]} of the documented rule set "
                          f"still applies to {shown}", dict(info, final=shown, model_events=mevs[:10]))
    tb.run()
    for c, info, evs, it in work:
        k, rest = parse_answer(tb[it])
        mk = int(rest[1])
        mevs = rest[2:2 + mk]
        rep.corr_checked += 1
        if evs != mevs:
            vb = Batch()
            ii = [vb.ask(f"F{j} trace 1000 {c['e']}") for j in (1, 2, 3)]
            vb.run()
            if any(vb[i].split(" | ")[0] != tb[it].split(" | ")[0] for i in ii):
                rep.skip("rounding-ambiguous")
                continue
            first = next((i for i, (a, b) in enumerate(zip(evs, mevs)) if a != b), min(len(evs), len(mevs)))
            rep.corr_break(f"step trace differs from the model at step {first + 1}: implementation "
                           f"{evs[max(0, first - 1):first + 2]} vs model {mevs[max(0, first - 1):first + 2]}",
                           dict(info, model_trace=mevs[:80]))
        elif len(rep.samples) < 6 and len(evs) > 6:
            rep.sample({"e": c["e"][:200], "size": info["size"], "steps": info["steps"], "trace": evs[:10]})
    rep.hist["worst steps/size^2"] = {"ratio": round(worst[0], 3), **(worst[1] or {})}


def run(rep: Report, rng, tier: str, known: dict, search: bool = False) -> None:
    check_cases(gen_cases(rng, tier), rep, known)


def evidence(rep: Report) -> None:
    write_evidence(
        rep,
        rule="cases = expressions: all/sampled unary chains of length 3 over 17 parameterised unary makers, binary and n-ary parents over unary/binary children over leaves {x, y, 0, 1, -1, 2} (the <= 20-node combinations in which several rules are enabled at once), eight families of nested towers and wide nodes up to 40 (quick) / 120 (thorough) levels, random and rule-directed trees and their symbolic derivatives (<= 400 nodes); per case the implementation's full trace is recorded (no revisited form after a rewrite, step count, rule-freeness of the result, warnings) and compared with the model's trace; non-trivial = more steps than nodes; distinct by wire form; plus the library's own driver (_fully_reduce) on a fresh copy and on hash twins of its results, rule-freeness of final forms judged by the model's rule set, shapes aimed at rewrite rules the model does not know",
        trusted=common.TRUSTED,
        assumptions=["the quadratic step bound and the 20-node budget claim are measured (bound 4*size^2+8), not proved: the termination measure of the theorem is exponential and yields neither"],
    )
