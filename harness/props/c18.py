"""C18 — results are reproducible across processes, hash seeds and argument spelling.

Oracle on the implementation: a fixed battery (evaluation, forward and reverse partials, early
Differential, as_expression on both symbolic routes, _normalize, bare-number entries) is executed in
fresh interpreters under several PYTHONHASHSEED values, permuted coordinate order and permuted
variable-creation order; every result must be bit-for-bit (float.hex) / structurally (repr)
identical.  Model side (Properties/C18.lean): every place where the Python code iterates a set or a
dictionary is an explicit list parameter of the model, and the outputs are invariant under its
permutations."""
from __future__ import annotations
import json
import os
import subprocess
import sys
from concurrent.futures import ThreadPoolExecutor

from .. import wire, common, battery
from ..core import Report, write_evidence, VERIF, REPO, Infra
from ..engine import NumCase, judge_numeric

PID = "C18"


def run_proc(seed: int, perm: int, n: int, hashseed: str) -> list[str]:
    env = dict(os.environ, PYTHONHASHSEED=hashseed, SMOOTHMATH_REPO=str(REPO))
    r = subprocess.run([sys.executable, "-m", "harness.battery", str(seed), str(perm), str(n)],
                       cwd=VERIF, env=env, capture_output=True, text=True, timeout=1200)
    if r.returncode != 0:
        raise Infra(f"battery process failed (hash seed {hashseed}): {r.stderr[-1500:]}")
    return json.loads(r.stdout.strip().split("\n")[-1])


def gen_cases(rng, tier: str) -> list[dict]:
    return [{"origin": "battery", "seed": rng.randint(1, 10 ** 6), "n": common.sizes(tier, 60, 400),
             "hashseeds": ["0", "1", "2", "3", "4", "7"] if tier == "quick" else [str(i * 7919 % 100003) for i in range(16)],
             "perms": [0, 1] if tier == "quick" else [0, 1, 2, 3, 4, 5]}]


def check_cases(cases: list[dict], rep: Report, known: dict) -> None:
    for c in cases:
        if rep.stop():
            break
        configs = [(h, p) for h in c["hashseeds"] for p in c["perms"]]
        if len(configs) > 24:
            configs = configs[:6] + configs[6::3]
        with ThreadPoolExecutor(max_workers=12) as ex:
            outs = list(ex.map(lambda hp: run_proc(c["seed"], hp[1], c["n"], hp[0]), configs))
        ref = outs[0]
        bat = battery.battery(c["seed"], c["n"])
        rep.count("processes", "run", len(configs))
        rep.evaluations += len(ref) * len(configs)
        for k, r in enumerate(ref):
            rep.nontrivial.add(r)
        kinds = {"number": 0, "expression": 0, "error": 0}
        for r in ref:
            kinds["error" if r.startswith("!") else "expression" if "(" in r else "number"] += 1
        for k, v in kinds.items():
            rep.count("battery-results", k, v)
        # in-process run must agree as well (and ties the battery to the model through C01's comparison); it also tells
        # which positions are results of an early Differential (K5)
        here = battery.run(c["seed"], 0, c["n"])
        early = set(battery.EARLY_DIFF_IDX)

        def k5(i: int, a: list[str], b: list[str]) -> bool:
            """K5: an early Differential normalises one partial per variable in the iteration order of a *set* of names;
            when a simplification runs out of its step budget (K4) the fallback depends on which shared sub-expressions
            were flagged by the partials normalised before.  Attributed only if position i is an early-Differential
            result and both processes logged the same, non-empty, warning-level records for that battery case."""
            if i not in early:
                return False
            j = next((t for t in range(i + 1, len(a)) if a[t].startswith("log:")), None)
            return j is not None and a[j] == b[j] and "WARNING:" in a[j]

        def compare(out: list[str], label: str, info: dict) -> None:
            if len(out) != len(ref):
                rep.violation(f"battery {label} has {len(out)} results instead of {len(ref)}", info)
                return
            diff = [j for j, (a, b) in enumerate(zip(out, ref)) if a != b]
            # a query that hit the time limit in one process (machine load) decides nothing
            tm = [j for j in diff if "!timeout" in (out[j], ref[j])]
            if tm:
                rep.skip("impl-timeout", len(tm))
            diff = [j for j in diff if j not in set(tm)]
            kf = [j for j in diff if k5(j, ref, out)]
            for j in kf:
                rep.known("K5", "an early Differential result differs between hash seeds where the step budget was exhausted (partials normalised in set order; same logged warnings in both processes)", dict(info, index=j, ref=ref[j][:80], other=out[j][:80]))
            diff = [j for j in diff if j not in set(kf)]
            if diff:
                i = diff[0]
                rep.violation(f"result {i} differs between processes: {ref[i][:200]} (PYTHONHASHSEED={configs[0][0]}, permutation {configs[0][1]}) "
                              f"vs {out[i][:200]} ({label})", dict(info, index=i))
        for (h, p), out in zip(configs[1:], outs[1:]):
            rep.corr_checked += 1
            compare(out, f"PYTHONHASHSEED={h}, permutation {p}", dict(c, hashseed=h, perm=p))
        compare(here, "this process", dict(c))
        rep.sample({"battery_seed": c["seed"], "queries": len(ref), "configs": [f"hashseed={h},perm={p}" for h, p in configs][:8],
                    "first_results": ref[:5]})
        ncs = []
        pos = 0
        from ..core import call
        from smoothmath import Point
        for bc in bat:
            p = Point(**{k: wire.raw_num(v) for k, v in bc["p"]})
            ptxt = wire.point(p)
            ncs.append(NumCase(None, f"eval {bc['e']} {ptxt}", call(wire.build_raw(bc["e"]).at, p), {"e": bc["e"], "p": ptxt}))
        judge_numeric(ncs, rep)
        for nc in ncs:
            if nc.verdict == "mismatch":
                rep.corr_break(f"battery evaluation differs from the model: {nc.detail}", nc.info)


def spellings(rep: Report, seed: int, n: int) -> None:
    """the same query with the variable written as an interned str, as an equal str built at run time,
    and as a Variable object: one answer"""
    import sys as _sys
    from ..core import call, sm, X
    from smoothmath import Point
    for bc in battery.battery(seed, n)[: 200]:
        names = list(bc["vars"])
        if not names:
            continue
        p = Point(**{k: wire.raw_num(v) for k, v in bc["p"]})
        mk = lambda: wire.build_raw(bc["e"])  # noqa: E731
        x0 = names[0]
        forms = {"interned str": _sys.intern(x0), "str built at run time": wire.fresh_str(x0), "Variable": X.Variable(x0),
                 "Variable over a built str": X.Variable(wire.fresh_str(x0))}
        outs = {}
        for label, xv in forms.items():
            outs[label] = [battery.fmt(call(lambda: sm.Partial(mk(), xv).at(p))),
                           battery.fmt(call(lambda: sm.LocatedDifferential(mk(), p).component(xv))),
                           battery.fmt(call(lambda: sm.Differential(mk()).component_at(xv, p))),
                           battery.fmt(call(lambda: sm.Partial(mk(), xv).as_expression(), timeout=30)),
                           battery.fmt(call(lambda: sm.Differential(mk(), compute_early=True).component(xv).as_expression(), timeout=30))]
        rep.evaluations += 5 * len(forms)
        ref = outs["interned str"]
        for label, out in outs.items():
            if out != ref and not any("!timeout" in (a, b) for a, b in zip(out, ref)):
                j = next(i for i, (a, b) in enumerate(zip(out, ref)) if a != b)
                rep.violation(f"the answer depends on how the variable is written: {ref[j][:160]} (interned str) vs {out[j][:160]} ({label})",
                              {"e": bc["e"][:300], "variable": x0, "query": j})
                break
        rep.count("spellings", "agree" if all(o == ref for o in outs.values()) else "differ")


def run(rep: Report, rng, tier: str, known: dict, search: bool = False) -> None:
    spellings(rep, rng.randint(1, 10 ** 6), 120)
    check_cases(gen_cases(rng, tier), rep, known)


def evidence(rep: Report) -> None:
    write_evidence(
        rep,
        rule="one battery per run (60 quick / 400 thorough expressions over up to 5 variable names, each with evaluation, 3 variables x {Partial.at, LocatedDifferential.component, early Differential.at.component, Partial.as_expression, early Differential component as_expression}, _normalize, bare-number entries), executed in fresh interpreters for every (PYTHONHASHSEED, permutation) in 3x3 (quick) / 16x6 thinned to ~40 (thorough); permutation = order of variable creation and of the point's coordinates; all result lists must be identical; distinct_nontrivial = distinct result strings of the reference process; plus expressions with two variables whose partials are equal expressions spelled differently (int / float constants), printed forms of points over spellable and unspellable names (written in one fixed order), the variable given as interned str, run-time str, Variable; everything the library logs during a battery case (level and text) is compared as part of the outcome; 2-3 sums of 260-400 products over 3-5 names whose simplification exhausts the step budget (returned expression by digest, logged warnings verbatim)",
        trusted=common.TRUSTED + ["CPython is deterministic apart from str hashing"],
        assumptions=["interpreter determinism is exercised, not proved"],
    )
